(* C12: no writer call after completion, completion signalled once, writer calls only inside W_s regions. *)
From Gv Require Import C12.Model C12.Spec C12.ProofsBase C12.ProofsReg.
From Coq Require Import List Bool Arith PeanoNat Lia.
Import ListNotations.

(* ---- histories: a condition on every entry and its past ---- *)
Section Hist.
  Variable cond : obs -> list obs -> Prop.      (* entry, its past (newest first) *)
  Fixpoint histr (l : list obs) : Prop :=       (* l newest first *)
    match l with [] => True | o :: r => cond o r /\ histr r end.
  Definition hist (l : list obs) : Prop :=      (* l chronological *)
    forall l1 o l2, l = l1 ++ o :: l2 -> cond o (rev l1).

  Lemma snoc_split : forall (l1 : list obs) x l2 a o, l1 ++ x :: l2 = a ++ [o] ->
    (l2 = [] /\ x = o /\ l1 = a) \/ (exists l2', l2 = l2' ++ [o] /\ a = l1 ++ x :: l2').
  Proof.
    intros l1 x l2 a o H. destruct (rev l2) as [|y r] eqn:E.
    - left. assert (l2 = []) by (rewrite <- (rev_involutive l2), E; reflexivity). subst.
      apply app_inj_tail in H. tauto.
    - right. assert (El : l2 = rev r ++ [y]) by (rewrite <- (rev_involutive l2), E; reflexivity). subst l2.
      change (l1 ++ x :: rev r ++ [y]) with (l1 ++ (x :: rev r) ++ [y]) in H. rewrite app_assoc in H.
      apply app_inj_tail in H. destruct H as [H1 H2]. subst. exists (rev r). split; auto.
  Qed.

  Lemma histr_hist : forall l, histr l <-> hist (rev l).
  Proof.
    induction l as [|o r IH]; simpl.
    - split; auto. intros _ l1 o l2 H. destruct l1; discriminate.
    - split.
      + intros [Hc Hr] l1 x l2 H. symmetry in H. apply snoc_split in H. destruct H as [(-> & -> & ->)|(l2' & -> & E)].
        * rewrite rev_involutive. exact Hc.
        * apply IH in Hr. eapply Hr; eauto.
      + intros H. split.
        * specialize (H (rev r) o [] eq_refl). rewrite rev_involutive in H. exact H.
        * apply IH. intros l1 x l2 E. apply (H l1 x (l2 ++ [o])). rewrite E, <- app_assoc. reflexivity.
  Qed.

  Variable cb : obs -> list obs -> bool.
  Hypothesis cb_ok : forall o p, cb o p = true <-> cond o p.

  Lemma hist_b_spec : forall l past,
    hist_b cb past l = true <-> (forall l1 o l2, l = l1 ++ o :: l2 -> cond o (rev l1 ++ past)).
  Proof.
    induction l as [|x r IH]; intros past; simpl.
    - split; auto. intros _ l1 o l2 H. destruct l1; discriminate.
    - rewrite andb_true_iff, cb_ok, IH. split.
      + intros [Hc Hr] l1 o l2 H. destruct l1 as [|y l1]; simpl in H; inversion H; subst.
        * exact Hc.
        * simpl. rewrite <- app_assoc. simpl. eapply Hr; eauto.
      + intros H. split.
        * apply (H [] x r eq_refl).
        * intros l1 o l2 E. specialize (H (x :: l1) o l2). simpl in H. rewrite <- app_assoc in H. simpl in H.
          apply H. rewrite E. reflexivity.
  Qed.

  Lemma hist_b_ok : forall l, hist_b cb [] l = true <-> hist l.
  Proof.
    intros l. rewrite hist_b_spec. unfold hist. split; intros H l1 o l2 E; specialize (H l1 o l2 E);
      rewrite app_nil_r in *; exact H.
  Qed.
End Hist.

(* ---- counting entries ---- *)
Definition B (b : bool) : nat := if b then 1 else 0.

Lemma cnt_filter_rev : forall (f : obs -> bool) l, length (filter f (rev l)) = length (filter f l).
Proof.
  induction l; simpl; auto. rewrite filter_app, app_length, IHl. simpl. destruct (f a); simpl; lia.
Qed.
Lemma nw_rev : forall s l, nw s (rev l) = nw s l. Proof. intros; apply cnt_filter_rev. Qed.
Lemma nwe_rev : forall s l, nwe s (rev l) = nwe s l. Proof. intros; apply cnt_filter_rev. Qed.
Lemma nclosed_rev : forall s l, nclosed s (rev l) = nclosed s l. Proof. intros; apply cnt_filter_rev. Qed.
Lemma nw_app : forall s a b, nw s (a ++ b) = nw s a + nw s b.
Proof. unfold nw; intros; rewrite filter_app, app_length; auto. Qed.
Lemma nwe_app : forall s a b, nwe s (a ++ b) = nwe s a + nwe s b.
Proof. unfold nwe; intros; rewrite filter_app, app_length; auto. Qed.
Lemma nclosed_app : forall s a b, nclosed s (a ++ b) = nclosed s a + nclosed s b.
Proof. unfold nclosed; intros; rewrite filter_app, app_length; auto. Qed.
Lemma nclosed_zero : forall s l, nclosed s l = 0 <-> ~ In (OClosed s) l.
Proof.
  unfold nclosed. induction l as [|o l]; simpl; [tauto|].
  destruct (is_oclosed s o) eqn:E; simpl.
  - split; [lia|]. intros H. exfalso. apply H. left. destruct o; simpl in E; try discriminate.
    apply Nat.eqb_eq in E. subst. reflexivity.
  - rewrite IHl. split; intros H; [intros [Hx|Hi]; [subst; simpl in E; rewrite Nat.eqb_refl in E; discriminate|auto]|auto].
Qed.

(* log is newest first.  A writer call of s is entered / returns only while completed_s is open, calls
   of s alternate (enter, return, enter, ...), and completed_s is closed only after the removal of s
   and while no call of s is in progress *)
Definition wcond (o : obs) (r : list obs) : Prop :=
  match o with
  | OW s _ => nclosed s r = 0 /\ nw s r = nwe s r
  | OWE s _ => nclosed s r = 0 /\ nw s r = S (nwe s r)
  | OClosed s => In (GRemoved s) r /\ nw s r = nwe s r
  | _ => True
  end.
Definition wfl : list obs -> Prop := histr wcond.

Definition neutral (o : obs) : bool :=
  match o with OW _ _ | OWE _ _ | OClosed _ | GRemoved _ => false | _ => true end.

Definition is_close (s : sid) (i : instr) : bool := match i with ICloseLoop l => mem s l | _ => false end.
Definition is_wcont (s : sid) (i : instr) : bool := match i with IWCont s' _ _ _ => s' =? s | _ => false end.

Record WC (st : state) : Prop := {
  wc_rem : forall s, s_removed (subs st s) = true <-> In (GRemoved s) (log st);
  wc_wfl : wfl (log st);
  wc_nclosed : forall s, nclosed s (log st) = s_closed (subs st s);
  wc_fresh : forall s, ~ In s (allsubs st) -> s_removed (subs st s) = false /\ s_closed (subs st s) = 0;
  (* writeMu of s is held exactly while a call of s is in progress, and never while completed_s is closed *)
  wc_wl : forall s, nw s (log st) = nwe s (log st) + B (mem s (wlk st));
  wc_lk : forall s, mem s (wlk st) = true -> s_closed (subs st s) = 0 }.

(* thread side: the IClose of a removed subscriber is pending or done; the holder of writeMu is the
   one thread that still has to leave the region *)
Definition WT (st : state) : Prop :=
  forall s, s_closed (subs st s) + cnt (is_close s) (threads st) = (if s_removed (subs st s) then 1 else 0) /\
            cnt (is_wcont s) (threads st) = B (mem s (wlk st)).

Lemma wfl_neutral : forall added l, forallb neutral added = true -> wfl l -> wfl (added ++ l).
Proof.
  unfold wfl. induction added; simpl; intros; auto. apply andb_true_iff in H. destruct H.
  split; auto. destruct a; simpl in *; auto; discriminate.
Qed.
Lemma In_neutral : forall added l s, forallb neutral added = true -> (In (GRemoved s) (added ++ l) <-> In (GRemoved s) l).
Proof.
  intros. rewrite in_app_iff. split; auto. intros [Hi|]; auto.
  rewrite forallb_forall in H. apply H in Hi. discriminate.
Qed.
Lemma filter_nil_all : forall (f : obs -> bool) l, (forall o, In o l -> f o = false) -> filter f l = [].
Proof. induction l; simpl; intros; auto. rewrite H by (left; auto). apply IHl. intros; apply H; right; auto. Qed.
Lemma nclosed_neutral : forall added l s, forallb neutral added = true -> nclosed s (added ++ l) = nclosed s l.
Proof.
  intros. rewrite nclosed_app. unfold nclosed at 1. rewrite filter_nil_all; auto.
  intros o Ho. rewrite forallb_forall in H. apply H in Ho. destruct o; simpl in *; auto; discriminate.
Qed.
Lemma nw_neutral : forall added l s, forallb neutral added = true -> nw s (added ++ l) = nw s l.
Proof.
  intros. rewrite nw_app. unfold nw at 1. rewrite filter_nil_all; auto.
  intros o Ho. rewrite forallb_forall in H. apply H in Ho. destruct o; simpl in *; auto; discriminate.
Qed.
Lemma nwe_neutral : forall added l s, forallb neutral added = true -> nwe s (added ++ l) = nwe s l.
Proof.
  intros. rewrite nwe_app. unfold nwe at 1. rewrite filter_nil_all; auto.
  intros o Ho. rewrite forallb_forall in H. apply H in Ho. destruct o; simpl in *; auto; discriminate.
Qed.

(* a region that leaves the removed / closed flags and writeMu alone and logs only neutral entries *)
Lemma WC_neutral : forall st st1 added,
  WC st -> log st1 = added ++ log st -> forallb neutral added = true ->
  (forall s, s_removed (subs st1 s) = s_removed (subs st s) /\ s_closed (subs st1 s) = s_closed (subs st s)) ->
  (forall s, In s (allsubs st) -> In s (allsubs st1)) ->
  wlk st1 = wlk st ->
  WC st1.
Proof.
  intros st st1 added H Hl Hn Hs Ha Hw. constructor.
  - intros s. destruct (Hs s) as [-> _]. rewrite Hl, In_neutral by auto. apply (wc_rem _ H).
  - rewrite Hl. apply wfl_neutral; auto. apply (wc_wfl _ H).
  - intros s. destruct (Hs s) as [_ ->]. rewrite Hl, nclosed_neutral by auto. apply (wc_nclosed _ H).
  - intros s Hni. destruct (Hs s) as [-> ->]. apply (wc_fresh _ H). auto.
  - intros s. rewrite Hl, Hw, nw_neutral, nwe_neutral by auto. apply (wc_wl _ H).
  - intros s. rewrite Hw. destruct (Hs s) as [_ ->]. apply (wc_lk _ H).
Qed.

Definition quiet (o : obs) : bool := match o with OW _ _ | OWE _ _ | OClosed _ => false | _ => true end.
Lemma wfl_quiet : forall added l, forallb quiet added = true -> wfl l -> wfl (added ++ l).
Proof.
  unfold wfl. induction added; simpl; intros; auto. apply andb_true_iff in H. destruct H.
  split; auto. destruct a; simpl in *; auto; discriminate.
Qed.
Lemma nclosed_quiet : forall added l s, forallb quiet added = true -> nclosed s (added ++ l) = nclosed s l.
Proof.
  intros. rewrite nclosed_app. unfold nclosed at 1. rewrite filter_nil_all; auto.
  intros o Ho. rewrite forallb_forall in H. apply H in Ho. destruct o; simpl in *; auto; discriminate.
Qed.
Lemma nw_quiet_app : forall added l s, forallb quiet added = true -> nw s (added ++ l) = nw s l.
Proof.
  intros. rewrite nw_app. unfold nw at 1. rewrite filter_nil_all; auto.
  intros o Ho. rewrite forallb_forall in H. apply H in Ho. destruct o; simpl in *; auto; discriminate.
Qed.
Lemma nwe_quiet_app : forall added l s, forallb quiet added = true -> nwe s (added ++ l) = nwe s l.
Proof.
  intros. rewrite nwe_app. unfold nwe at 1. rewrite filter_nil_all; auto.
  intros o Ho. rewrite forallb_forall in H. apply H in Ho. destruct o; simpl in *; auto; discriminate.
Qed.

(* no registry region touches writeMu *)
Lemma cas_wlk : forall st s st' c, cas_removed st s = (st', c) -> wlk st' = wlk st.
Proof. unfold cas_removed; intros. destruct (s_removed (subs st s)); inversion H; subst; reflexivity. Qed.
Lemma remove_locked_wlk : forall st s st' r, remove_locked st s = (st', r) -> wlk st' = wlk st.
Proof.
  unfold remove_locked; intros.
  destruct (negb (mem s (byid st))); [inversion H; subst; reflexivity|].
  destruct (lookup_reg _ _); [|inversion H; subst; reflexivity].
  destruct (negb (mem s _)); [inversion H; subst; reflexivity|].
  destruct (cas_removed st s) as [st1 cl] eqn:E. apply cas_wlk in E.
  destruct (rem s _); inversion H; subst; simpl; auto.
Qed.
Lemma detach_subs_wlk : forall l st st' c, detach_subs st l = (st', c) -> wlk st' = wlk st.
Proof.
  induction l; simpl; intros.
  - inversion H; subst; reflexivity.
  - destruct (cas_removed st a) as [st1 c1] eqn:E1.
    destruct (detach_subs (unregister st1 a) l) as [st2 c2] eqn:E2.
    inversion H; subst. apply cas_wlk in E1. apply IHl in E2. simpl in E2. congruence.
Qed.
Lemma detach_locked_wlk : forall st t st' r, detach_locked st t = (st', r) -> wlk st' = wlk st.
Proof.
  unfold detach_locked; intros.
  destruct (detach_subs st (t_subs (trigs st t))) as [st1 cl] eqn:E.
  apply detach_subs_wlk in E. inversion H; subst. simpl. auto.
Qed.
Lemma remove_many_wlk : forall l st st' r, remove_many st l = (st', r) -> wlk st' = wlk st.
Proof.
  induction l; simpl; intros.
  - inversion H; subst; reflexivity.
  - destruct (remove_locked st a) as [st1 r1] eqn:E1. destruct (remove_many st1 l) as [st2 r2] eqn:E2.
    inversion H; subst. apply remove_locked_wlk in E1. apply IHl in E2. congruence.
Qed.
Lemma detach_many_wlk : forall l st st' r, detach_many st l = (st', r) -> wlk st' = wlk st.
Proof.
  induction l; simpl; intros.
  - inversion H; subst; reflexivity.
  - destruct (detach_locked st a) as [st1 r1] eqn:E1. destruct (detach_many st1 l) as [st2 r2] eqn:E2.
    inversion H; subst. apply detach_locked_wlk in E1. apply IHl in E2. congruence.
Qed.

Lemma WC_removal : forall st0 st1 r,
  WC st0 -> RM st0 st1 r -> (forall s, In s (byid st0) -> In s (allsubs st0)) -> wlk st1 = wlk st0 -> WC st1.
Proof.
  intros st0 st1 r H R Hb Hw.
  assert (Hq : forallb quiet (map GRemoved (rev (rr_close r))) = true).
  { apply forallb_forall. intros o Hi. apply in_map_iff in Hi. destruct Hi as [x [<- _]]. auto. }
  constructor.
  - intros s. rewrite (rm_subs _ _ _ R), (rm_log _ _ _ R), in_app_iff, in_map_iff.
    destruct (mem s (rr_close r)) eqn:E.
    + simpl. split; auto. intros _. left. exists s. split; auto. apply in_rev. rewrite rev_involutive. apply mem_In; auto.
    + rewrite (wc_rem _ H). split; auto. intros [[x [Hx Hi]]|]; auto. inversion Hx; subst.
      apply in_rev in Hi. apply mem_In in Hi. congruence.
  - rewrite (rm_log _ _ _ R). apply wfl_quiet; [exact Hq|apply (wc_wfl _ H)].
  - intros s. rewrite (rm_subs _ _ _ R), (rm_log _ _ _ R), nclosed_quiet by exact Hq.
    rewrite (wc_nclosed _ H). destruct (mem s (rr_close r)); auto.
  - intros s Hn. destruct (rm_frame _ _ _ R) as (_ & _ & Ha & _). rewrite Ha in Hn.
    rewrite (rm_subs _ _ _ R). destruct (mem s (rr_close r)) eqn:E.
    + exfalso. apply Hn, Hb. apply mem_In in E. apply (rm_close_in _ _ _ R s E).
    + apply (wc_fresh _ H); auto.
  - intros s. rewrite (rm_log _ _ _ R), Hw, nw_quiet_app, nwe_quiet_app by exact Hq. apply (wc_wl _ H).
  - intros s. rewrite Hw, (rm_subs _ _ _ R). intros Hm. destruct (mem s (rr_close r)); simpl; apply (wc_lk _ H); auto.
Qed.

Lemma mem_cons_same : forall s l, mem s (s :: l) = true.
Proof. intros. unfold mem. simpl. rewrite Nat.eqb_refl. reflexivity. Qed.
Lemma mem_cons_other : forall s s' l, s' <> s -> mem s' (s :: l) = mem s' l.
Proof. intros. unfold mem. simpl. destruct (Nat.eqb_spec s' s); [congruence|reflexivity]. Qed.
Lemma mem_rem_same : forall s l, mem s (rem s l) = false.
Proof. intros. apply mem_nIn. intro H. apply In_rem in H. tauto. Qed.
Lemma mem_rem_other : forall s s' l, s' <> s -> mem s' (rem s l) = mem s' l.
Proof.
  intros. destruct (mem s' l) eqn:E.
  - apply mem_In. apply In_rem. split; auto. apply mem_In; auto.
  - apply mem_nIn. intro Hi. apply In_rem in Hi. apply mem_nIn in E. tauto.
Qed.

Lemma cnt_ow_other : forall s s' c l, s' <> s -> nw s' (OW s c :: l) = nw s' l /\ nwe s' (OW s c :: l) = nwe s' l /\ nclosed s' (OW s c :: l) = nclosed s' l.
Proof. intros. unfold nw, nwe, nclosed. simpl. destruct (Nat.eqb_spec s s'); [congruence|auto]. Qed.
Lemma cnt_owe_other : forall s s' c l, s' <> s -> nw s' (OWE s c :: l) = nw s' l /\ nwe s' (OWE s c :: l) = nwe s' l /\ nclosed s' (OWE s c :: l) = nclosed s' l.
Proof. intros. unfold nw, nwe, nclosed. simpl. destruct (Nat.eqb_spec s s'); [congruence|auto]. Qed.
Lemma cnt_ow_same : forall s c l, nw s (OW s c :: l) = S (nw s l) /\ nwe s (OW s c :: l) = nwe s l /\ nclosed s (OW s c :: l) = nclosed s l.
Proof. intros. unfold nw, nwe, nclosed. simpl. rewrite Nat.eqb_refl. auto. Qed.
Lemma cnt_owe_same : forall s c l, nw s (OWE s c :: l) = nw s l /\ nwe s (OWE s c :: l) = S (nwe s l) /\ nclosed s (OWE s c :: l) = nclosed s l.
Proof. intros. unfold nw, nwe, nclosed. simpl. rewrite Nat.eqb_refl. auto. Qed.

Opaque mem rem.
(* writeMu of s acquired with removed_s = false, call c entered *)
Lemma WC_enter : forall st s c,
  WC st -> s_removed (subs st s) = false -> s_closed (subs st s) = 0 -> mem s (wlk st) = false ->
  WC (wenter st s c).
Proof.
  intros st s c H Hr Hc Hm. unfold wenter. constructor; simpl.
  - intros s'. rewrite (wc_rem _ H). split; auto. intros [Hx|]; auto. discriminate.
  - split; [|apply (wc_wfl _ H)]. split.
    + rewrite (wc_nclosed _ H). exact Hc.
    + pose proof (wc_wl _ H s) as E. rewrite Hm in E. simpl in E. lia.
  - intros s'. rewrite <- (wc_nclosed _ H). unfold nclosed. reflexivity.
  - apply (wc_fresh _ H).
  - intros s'. destruct (Nat.eq_dec s' s) as [->|Hne].
    + destruct (cnt_ow_same s c (log st)) as (-> & -> & _). rewrite mem_cons_same.
      pose proof (wc_wl _ H s) as E. rewrite Hm in E. simpl in *. lia.
    + destruct (cnt_ow_other s s' c (log st) Hne) as (-> & -> & _). rewrite mem_cons_other by auto. apply (wc_wl _ H).
  - intros s'. destruct (Nat.eq_dec s' s) as [->|Hne]; [auto|]. rewrite mem_cons_other by auto. apply (wc_lk _ H).
Qed.

(* the last call of the region returns, writeMu released *)
Lemma WC_leave : forall st s c,
  WC st -> mem s (wlk st) = true -> WC (st_log (st_wl st (rem s (wlk st))) [OWE s c]).
Proof.
  intros st s c H Hm. constructor; simpl.
  - intros s'. rewrite (wc_rem _ H). split; auto. intros [Hx|]; auto. discriminate.
  - split; [|apply (wc_wfl _ H)]. split.
    + rewrite (wc_nclosed _ H). apply (wc_lk _ H); auto.
    + pose proof (wc_wl _ H s) as E. rewrite Hm in E. simpl in E. lia.
  - intros s'. rewrite <- (wc_nclosed _ H). unfold nclosed. reflexivity.
  - apply (wc_fresh _ H).
  - intros s'. destruct (Nat.eq_dec s' s) as [->|Hne].
    + destruct (cnt_owe_same s c (log st)) as (-> & -> & _). rewrite mem_rem_same.
      pose proof (wc_wl _ H s) as E. rewrite Hm in E. simpl in *. lia.
    + destruct (cnt_owe_other s s' c (log st) Hne) as (-> & -> & _). rewrite mem_rem_other by auto. apply (wc_wl _ H).
  - intros s' Hs'. apply (wc_lk _ H). destruct (Nat.eq_dec s' s) as [->|Hne]; [auto|]. rewrite mem_rem_other in Hs' by auto. auto.
Qed.

(* a call returns and the next call of the same region is entered: writeMu stays held *)
Lemma WC_next : forall st s c c',
  WC st -> mem s (wlk st) = true -> WC (emit st [OWE s c; OW s c']).
Proof.
  intros st s c c' H Hm. unfold emit. simpl.
  assert (Hcl : nclosed s (log st) = 0) by (rewrite (wc_nclosed _ H); apply (wc_lk _ H); auto).
  pose proof (wc_wl _ H s) as E. rewrite Hm in E. simpl in E.
  constructor; simpl.
  - intros s'. rewrite (wc_rem _ H). split; auto. intros [Hx|[Hx|]]; auto; discriminate.
  - destruct (cnt_owe_same s c (log st)) as (E1 & E2 & E3).
    split; [split; [rewrite E3; exact Hcl|rewrite E1, E2; lia]|].
    split; [split; [exact Hcl|lia]|apply (wc_wfl _ H)].
  - intros s'. rewrite <- (wc_nclosed _ H). unfold nclosed. reflexivity.
  - apply (wc_fresh _ H).
  - intros s'. destruct (Nat.eq_dec s' s) as [->|Hne].
    + destruct (cnt_ow_same s c' (OWE s c :: log st)) as (-> & -> & _).
      destruct (cnt_owe_same s c (log st)) as (-> & -> & _). rewrite Hm. simpl. lia.
    + destruct (cnt_ow_other s s' c' (OWE s c :: log st) Hne) as (-> & -> & _).
      destruct (cnt_owe_other s s' c (log st) Hne) as (-> & -> & _). apply (wc_wl _ H).
  - apply (wc_lk _ H).
Qed.

Transparent mem rem.

(* counting IClose over pushed programs *)
Lemma cntl_map_zero : forall A (p : instr -> bool) (f : A -> instr) l, (forall x, p (f x) = false) -> cntl p (map f l) = 0.
Proof. unfold cntl; induction l; simpl; intros; auto. rewrite H. auto. Qed.
Lemma cnt_map_zero : forall A (p : instr -> bool) (f : A -> tname * list instr) l,
  (forall x, cntl p (snd (f x)) = 0) -> cnt p (map f l) = 0.
Proof. induction l; simpl; intros; auto. destruct (f a) eqn:E. specialize (H a) as Ha. rewrite E in Ha. simpl in Ha. rewrite Ha, IHl; auto. Qed.
Lemma cntl_close_map : forall s l, cntl (is_close s) (map ICloseLoop (closel l)) = if mem s l then 1 else 0.
Proof. intros s l. destruct l as [|x l]; [reflexivity|]. unfold cntl. simpl. destruct ((s =? x) || mem s l); reflexivity. Qed.
Lemma cntl_after_remove : forall s r,
  cntl (is_close s) (after_remove r) = if mem s (rr_close r) then 1 else 0.
Proof.
  intros. unfold after_remove. rewrite cntl_app, cntl_close_map. rewrite cntl_map_zero by auto. lia.
Qed.

Definition R (st : state) (s : sid) : nat := if s_removed (subs st s) then 1 else 0.

Ltac cnt_simpl :=
  unfold unsub_prog, uprog, ubody, celoop, hbtrigs, hbsubs, errloop in *;
  repeat (rewrite ?cntl_app, ?cntl_cons, ?cnt_app; simpl);
  repeat match goal with
         | |- context [cntl _ (map _ _)] => rewrite cntl_map_zero by (intros; reflexivity)
         | |- context [cnt _ (map _ _)] => rewrite cnt_map_zero by (intros; reflexivity)
         | |- context [match ?l with [] => [] | _ :: _ => _ end] => destruct l; simpl
         end;
  repeat (rewrite ?cntl_app, ?cntl_cons, ?cnt_app; simpl);
  try (unfold cntl; simpl).

Ltac flags_tac :=
  intros; simpl; unfold upd;
  repeat (match goal with |- context [Nat.eqb ?a ?b] => destruct (Nat.eqb_spec a b); subst end); simpl; auto.

(* what one instruction does to the pending closes and to the holder of writeMu *)
Definition texec (st : state) (i : instr) (st1 : state) (push : list instr) (sp : list (tname * list instr)) : Prop :=
  forall s, (s_closed (subs st1 s) + cntl (is_close s) push + cnt (is_close s) sp + R st s
             = s_closed (subs st s) + (if is_close s i then 1 else 0) + R st1 s) /\
            (cntl (is_wcont s) push + cnt (is_wcont s) sp + B (mem s (wlk st))
             = (if is_wcont s i then 1 else 0) + B (mem s (wlk st1))).

Lemma removal_wi : forall st stp st0 r stF i,
  RG stp -> WC stp -> RM stp st0 r ->
  (forall s, subs stp s = subs st s) ->
  (exists added, log stF = added ++ log st0 /\ forallb neutral added = true) ->
  (forall s, subs stF s = subs st0 s) -> allsubs stF = allsubs st0 ->
  (forall s, is_close s i = false) ->
  (forall s, is_wcont s i = false) -> wlk stp = wlk st -> wlk st0 = wlk stp -> wlk stF = wlk st0 ->
  WC stF /\ texec st i stF (after_remove r) [].
Proof.
  intros st stp st0 r stF i HR HC HM Hp [added [Hl Hn]] Hs Ha Hi Hwi Hw1 Hw2 Hw3.
  assert (HC0 : WC st0).
  { eapply WC_removal; eauto. intros s Hb. apply (rg_byid _ HR s Hb). }
  split.
  - eapply WC_neutral; [exact HC0|exact Hl|exact Hn| |rewrite Ha; auto|exact Hw3].
    intros s. rewrite Hs. auto.
  - intros s. split.
    + unfold R. rewrite Hi, Hs, (rm_subs _ _ _ HM), Hp, cntl_after_remove.
      simpl. destruct (mem s (rr_close r)) eqn:E; simpl; try lia.
      apply mem_In in E. destruct (rm_close_in _ _ _ HM s E) as [_ Hr]. rewrite Hp in Hr. rewrite Hr. lia.
    + rewrite Hwi, Hw3, Hw2, Hw1. unfold after_remove. rewrite cntl_app, !cntl_map_zero by auto. simpl. lia.
Qed.

Lemma B_mem_cons : forall s s' l, mem s l = false -> B (mem s' (s :: l)) = B (s =? s') + B (mem s' l).
Proof.
  intros. destruct (Nat.eqb_spec s s').
  - subst. rewrite mem_cons_same, H. reflexivity.
  - rewrite mem_cons_other by auto. reflexivity.
Qed.
Lemma B_mem_rem : forall s s' l, mem s l = true -> B (mem s' (rem s l)) + B (s =? s') = B (mem s' l).
Proof.
  intros. destruct (Nat.eqb_spec s s').
  - subst. rewrite mem_rem_same, H. reflexivity.
  - rewrite mem_rem_other by auto. simpl. lia.
Qed.

Lemma texec_enter : forall st s c more u i,
  mem s (wlk st) = false -> (forall s', is_close s' i = false) -> (forall s', is_wcont s' i = false) ->
  texec st i (wenter st s c) (wcont s c more u) [].
Proof.
  intros st s c more u i Hm Hc Hw s'. rewrite Hc, Hw. unfold wenter, wcont, R.
  change (wlk (st_log (st_wl st (s :: wlk st)) [OW s c])) with (s :: wlk st).
  change (subs (st_log (st_wl st (s :: wlk st)) [OW s c])) with (subs st).
  rewrite B_mem_cons by auto. unfold cntl. simpl. destruct (s =? s'); simpl; lia.
Qed.
Lemma texec_leave : forall st s c u,
  mem s (wlk st) = true ->
  texec st (IWCont s c None u) (st_log (st_wl st (rem s (wlk st))) [OWE s c]) (if u then unsub_prog s else []) [].
Proof.
  intros st s c u Hm s'. unfold R.
  change (wlk (st_log (st_wl st (rem s (wlk st))) [OWE s c])) with (rem s (wlk st)).
  change (subs (st_log (st_wl st (rem s (wlk st))) [OWE s c])) with (subs st).
  pose proof (B_mem_rem s s' (wlk st) Hm) as E.
  destruct u; unfold unsub_prog, cntl; simpl; destruct (s =? s'); simpl in *; lia.
Qed.
Lemma texec_next : forall st s c n c' more u,
  texec st (IWCont s c (Some n) u) (emit st [OWE s c; OW s c']) (wcont s c' more u) [].
Proof.
  intros st s c n c' more u s'. unfold R, wcont, emit, cntl. simpl. destruct (s =? s'); simpl; lia.
Qed.

Definition cnt_noclose (p : list instr) : Prop := forall s, cntl (is_close s) p = 0 /\ cntl (is_wcont s) p = 0.

Section C12Step.
  Variable v : variant.
  Variable flt : sid -> ev -> fres.
  Variable wresf : sid -> ev -> wres.
  Variable ev_bad : ev -> bool.
  Variable hbfail : sid -> bool.
  Notation exec := (exec v flt wresf ev_bad hbfail).
  Notation step := (step v flt wresf ev_bad hbfail).
  Hypothesis Hfa : fix_a v = true.

  Ltac enter_tac HC Hnc :=
    unfold wheld in *;
    split;
    [ apply WC_enter; [exact HC|assumption|apply Hnc; assumption|assumption]
    | apply texec_enter; [assumption|reflexivity|reflexivity] ].

  Lemma WI_exec : forall st i x st1 push sp,
    RG st -> WC st -> (forall l s0, i = ICloseLoop l -> In s0 l -> s_removed (subs st s0) = true) ->
    (forall s0, s_removed (subs st s0) = false -> s_closed (subs st s0) = 0) ->
    (forall s0 c m u, i = IWCont s0 c m u -> mem s0 (wlk st) = true) ->
    exec st i x = Some (st1, push, sp) -> WC st1 /\ texec st i st1 push sp.
  Proof.
    intros st i x st1 push sp HR HC Hcl Hnc Hwc He.
    exec_cases He;
      try (split;
           [ eapply WC_neutral;
             [exact HC
             |first [ instantiate (1 := []); reflexivity
                    | simpl; match goal with |- ?a :: ?b :: log _ = _ => instantiate (1 := [a; b]); reflexivity end
                    | simpl; match goal with |- ?a :: log _ = _ => instantiate (1 := [a]); reflexivity end
                    | simpl; reflexivity ]
             |try reflexivity
             |flags_tac
             |simpl; auto
             |reflexivity]
           | unfold texec, R; intros s'; split; cnt_simpl; flags_tac; try lia]; fail);
      try (enter_tac HC Hnc; fail).
    (* addSubscription: four branches (join / new trigger, sync / async) *)
    1-4: assert (Hf := wc_fresh _ HC s (proj1 (mem_nIn _ _) Ec)); destruct Hf as [Hf1 Hf2];
      (split;
       [ eapply WC_neutral;
         [exact HC
         |simpl; match goal with |- ?a :: ?b :: log _ = _ => instantiate (1 := [a; b]); reflexivity end
         |reflexivity
         |flags_tac
         |simpl; auto
         |reflexivity]
       | unfold texec, R; intros s'; split; cnt_simpl; flags_tac; try lia; rewrite ?Hf1, ?Hf2; simpl; lia ]).
    - (* UnsubscribeSubscription *)
      eapply (removal_wi st (st_log st (if mem s (allsubs st) then [GLeft s] else [])));
        [eapply RG_ext; [|exact HR]; reg_eq_tac
        |eapply WC_neutral; [exact HC|simpl; reflexivity|destruct (mem s (allsubs st)); reflexivity|flags_tac|simpl; auto|reflexivity]
        |eapply RM_remove_locked; [|exact Erm]; eapply RG_ext; [|exact HR]; reg_eq_tac
        |reflexivity
        |eexists; split; [simpl; reflexivity|unfold dec_obs; destruct (rr_dec r =? 0); reflexivity]
        |reflexivity|reflexivity|reflexivity
        |reflexivity|reflexivity|eapply remove_locked_wlk; exact Erm|reflexivity].
    - (* removeClient *)
      eapply (removal_wi st (st_log st (map GLeft (of_conn st c (allsubs st)))));
        [eapply RG_ext; [|exact HR]; reg_eq_tac
        |eapply WC_neutral; [exact HC|simpl; reflexivity| |flags_tac|simpl; auto|reflexivity]
        |eapply RM_remove_many; [|exact Erm]; eapply RG_ext; [|exact HR]; reg_eq_tac
        |reflexivity
        |eexists; split; [simpl; reflexivity|unfold dec_obs; destruct (rr_dec r =? 0); reflexivity]
        |reflexivity|reflexivity|reflexivity
        |reflexivity|reflexivity|eapply remove_many_wlk; exact Erm|reflexivity].
      apply forallb_forall. intros o Ho. apply in_map_iff in Ho. destruct Ho as [y [<- _]]. reflexivity.
    - (* shutdownResolver *)
      eapply (removal_wi st (st_flags st true (rctx st)));
        [eapply RG_ext; [|exact HR]; reg_eq_tac
        |eapply WC_neutral; [exact HC|instantiate (1 := []); reflexivity|reflexivity|flags_tac|simpl; auto|reflexivity]
        |eapply RM_detach_many; [eapply RG_ext; [|exact HR]; reg_eq_tac| | |exact Erm]
        |reflexivity
        |eexists; split; [simpl; reflexivity|unfold dec_obs; destruct (rr_dec r =? 0); reflexivity]
        |reflexivity|reflexivity|reflexivity
        |reflexivity|reflexivity|eapply detach_many_wlk; exact Erm|reflexivity].
      + simpl. auto.
      + simpl. apply (NoDup_tids (fun t => t_key (trigs st t))); [apply (rg_keys _ HR)|].
        intros k t Hi. apply (rg_ent _ HR _ _ Hi).
    - (* close(completed_s): writeMu is free *)
      apply negb_false_iff in Ec. rename n into s.
      assert (Hrm : s_removed (subs st s) = true) by (eapply Hcl; [reflexivity|apply mem_In; exact Ec]).
      unfold wheld in Ec0.
      split.
      + constructor; simpl.
        * intros s'. unfold upd. destruct (Nat.eqb_spec s' s); subst; simpl.
          -- rewrite Hrm. split; auto. intros _. right. apply (wc_rem _ HC); auto.
          -- rewrite (wc_rem _ HC). split; auto. intros [Hx|]; auto. discriminate.
        * split; [|apply (wc_wfl _ HC)]. split; [apply (wc_rem _ HC); auto|].
          pose proof (wc_wl _ HC s) as E. rewrite Ec0 in E. simpl in E. lia.
        * intros s'. unfold nclosed. simpl. unfold upd. rewrite (Nat.eqb_sym s' s).
          destruct (Nat.eqb_spec s s'); subst; simpl; rewrite <- (wc_nclosed _ HC); auto.
        * intros s' Hn. unfold upd. destruct (Nat.eqb_spec s' s); subst; simpl; [|apply (wc_fresh _ HC); auto].
          destruct (wc_fresh _ HC s Hn). congruence.
        * intros s'. unfold nw, nwe. simpl. apply (wc_wl _ HC).
        * intros s' Hs'. unfold upd. destruct (Nat.eqb_spec s' s); subst; simpl; [congruence|apply (wc_lk _ HC); auto].
      + unfold texec, R. intros s'. rewrite cntl_close_map. split.
        * simpl. unfold upd. destruct (Nat.eqb_spec s' s) as [->|Hne]; simpl.
          -- rewrite mem_rem_same, Ec. unfold cnt. lia.
          -- rewrite mem_rem_other by auto. unfold cnt. destruct (mem s' l); lia.
        * simpl. rewrite cntl_map_zero by auto. reflexivity.
    - (* doneTriggerFromUpdater *)
      assert (Hr : In (t_key (trigs st t0), t0) (reg st)).
      { destruct (fix_c v).
        - destruct (is_reg st t) eqn:E; inversion Ec; subst. apply is_reg_true; auto.
        - apply lookup_reg_In in Ec. destruct (rg_ent _ HR _ _ Ec) as (_ & B0 & _). rewrite B0. exact Ec. }
      eapply (removal_wi st st);
        [exact HR|exact HC|eapply RM_detach_locked; eauto|reflexivity
        |eexists; split; [simpl; reflexivity|unfold dec_obs; destruct (rr_dec r =? 0); reflexivity]
        |reflexivity|reflexivity|reflexivity
        |reflexivity|reflexivity|eapply detach_locked_wlk; exact Erm|reflexivity].
    - (* fan-out *)
      split.
      + eapply WC_neutral; [exact HC|simpl; reflexivity| |flags_tac|simpl; auto|reflexivity].
        apply forallb_forall. intros o Ho. apply in_map_iff in Ho. destruct Ho as [y [<- _]]. reflexivity.
      + unfold texec, R. intros s'. split; cnt_simpl; lia.
    - (* complete() / error(): the re-test under writeMu *)
      rewrite Hfa in Ec0. simpl in Ec0. enter_tac HC Hnc.
    - (* next call of a writer region *)
      split; [apply WC_next; [exact HC|eapply Hwc; reflexivity]|apply texec_next].
    - (* leaving a writer region *)
      split; [apply WC_leave; [exact HC|eapply Hwc; reflexivity]|apply texec_leave; eapply Hwc; reflexivity].
    - split; [apply WC_leave; [exact HC|eapply Hwc; reflexivity]|apply texec_leave; eapply Hwc; reflexivity].
  Qed.

  Lemma cnt_lookup_ge : forall p th i rest thr, lookup_thr th thr = Some (i :: rest) -> p i = true -> cnt p thr > 0.
  Proof.
    induction thr as [|[n q] thr]; simpl; intros; [discriminate|].
    destruct (tname_eqb n th).
    - inversion H; subst. rewrite cntl_cons, H0. lia.
    - specialize (IHthr H H0). lia.
  Qed.

  Lemma WI_step : forall st a st', RG st -> WC st -> WT st -> step st a = Some st' -> WC st' /\ WT st'.
  Proof.
    intros st a st' HR HC HT Hs.
    assert (Hspawn : forall n p, cnt_noclose p -> spawn st n p = Some st' -> WC st' /\ WT st').
    { intros n p Hp Hsp. apply spawn_spec in Hsp. destruct Hsp as [->|[_ ->]]; auto. split.
      - eapply WC_neutral; [exact HC|instantiate (1 := []); reflexivity|reflexivity|flags_tac|simpl; auto|reflexivity].
      - intros s. simpl. rewrite !cnt_app. simpl. destruct (Hp s) as [-> ->]. destruct (HT s). split; lia. }
    destruct a; simpl in Hs.
    - eapply Hspawn; [|exact Hs]. intros s. destruct op; split; reflexivity.
    - destruct (t <? ntrig st); [|discriminate]. eapply Hspawn; [|exact Hs]. intros s. destruct op; split; reflexivity.
    - eapply Hspawn; [|exact Hs]. intros s. split; reflexivity.
    - apply step_AStep in Hs. destruct Hs as (i & rest & st1 & push & sp & Hl & He & Heq).
      assert (Hcl : forall l s0, i = ICloseLoop l -> In s0 l -> s_removed (subs st s0) = true).
      { intros l s0 -> Hin. destruct (HT s0) as [HT0 _].
        assert (cnt (is_close s0) (threads st) > 0) by (eapply cnt_lookup_ge; [exact Hl|simpl; apply mem_In; exact Hin]).
        destruct (s_removed (subs st s0)); auto. lia. }
      assert (Hnc : forall s0, s_removed (subs st s0) = false -> s_closed (subs st s0) = 0).
      { intros s0 Hr. destruct (HT s0) as [HT0 _]. rewrite Hr in HT0. lia. }
      assert (Hwc : forall s0 c m u, i = IWCont s0 c m u -> mem s0 (wlk st) = true).
      { intros s0 c m u ->. destruct (HT s0) as [_ HT1].
        assert (cnt (is_wcont s0) (threads st) > 0) by (eapply cnt_lookup_ge; [exact Hl|simpl; apply Nat.eqb_refl]).
        destruct (mem s0 (wlk st)); auto. simpl in HT1. lia. }
      destruct (WI_exec _ _ _ _ _ _ HR HC Hcl Hnc Hwc He) as [HC1 HT1]. split.
      + subst st'. eapply WC_neutral; [exact HC1|instantiate (1 := []); reflexivity|reflexivity|flags_tac|simpl; auto|reflexivity].
      + intros s.
        pose proof (step_cnt v flt wresf ev_bad hbfail (is_close s) _ _ _ _ _ _ _ _ _ Hl He Heq) as Hc.
        pose proof (step_cnt v flt wresf ev_bad hbfail (is_wcont s) _ _ _ _ _ _ _ _ _ Hl He Heq) as Hc2.
        destruct (HT1 s) as [HT1a HT1b]. destruct (HT s) as [HTa HTb]. unfold R in HT1a.
        assert (subs st' s = subs st1 s) by (subst st'; reflexivity).
        assert (wlk st' = wlk st1) by (subst st'; reflexivity). rewrite H, H0. split; lia.
  Qed.
End C12Step.

(* ---- from the invariants to the statements of Spec.v ---- *)
(* the two log predicates of Spec.v as histories *)
Definition ncond (o : obs) (p : list obs) : Prop :=
  match o with
  | OW s _ | OWE s _ => nclosed s p = 0
  | OClosed s => nw s p = nwe s p
  | _ => True
  end.
Definition xcond (o : obs) (p : list obs) : Prop :=
  match o with
  | OW s _ => nw s p = nwe s p
  | OWE s _ => nw s p = S (nwe s p)
  | _ => True
  end.

Lemma hist_impl : forall (c1 c2 : obs -> list obs -> Prop) l, (forall o p, c1 o p -> c2 o p) -> hist c1 l -> hist c2 l.
Proof. unfold hist; intros. eauto. Qed.

Lemma nwac_hist : forall l, no_write_after_completed l <-> hist ncond l.
Proof.
  intros l. unfold no_write_after_completed, hist. split.
  - intros (H1 & H2 & H3) l1 o l2 E.
    assert (Hnc : forall s, (forall c, o = OW s c \/ o = OWE s c -> True) ->
                            (exists c, o = OW s c \/ o = OWE s c) -> nclosed s (rev l1) = 0).
    { intros s _ [c Hc]. apply nclosed_zero. intros Hi. apply in_rev in Hi. apply in_split in Hi.
      destruct Hi as (a & b & ->). rewrite <- app_assoc in E. simpl in E.
      destruct Hc as [->| ->]; [apply (H1 _ _ _ c E)|apply (H2 _ _ _ c E)]; apply in_or_app; right; left; reflexivity. }
    destruct o; simpl; auto.
    + apply Hnc; eauto.
    + apply Hnc; eauto.
    + rewrite nw_rev, nwe_rev. eapply H3; eauto.
  - intros H. split; [|split].
    + intros l1 l2 s c E Hi. apply in_split in Hi. destruct Hi as (a & b & ->).
      specialize (H (l1 ++ OClosed s :: a) (OW s c) b). rewrite <- app_assoc in H. specialize (H E). simpl in H.
      apply nclosed_zero in H. apply H. apply in_rev. rewrite rev_involutive. apply in_or_app. right. left. reflexivity.
    + intros l1 l2 s c E Hi. apply in_split in Hi. destruct Hi as (a & b & ->).
      specialize (H (l1 ++ OClosed s :: a) (OWE s c) b). rewrite <- app_assoc in H. specialize (H E). simpl in H.
      apply nclosed_zero in H. apply H. apply in_rev. rewrite rev_involutive. apply in_or_app. right. left. reflexivity.
    + intros l1 l2 s E. specialize (H l1 (OClosed s) l2 E). simpl in H. rewrite nw_rev, nwe_rev in H. exact H.
Qed.

Lemma wx_hist : forall l, writes_exclusive l <-> hist xcond l.
Proof.
  intros l. unfold writes_exclusive, hist. split; intros H l1 o l2 E; specialize (H l1 o l2 E);
    destruct o; simpl in *; auto; rewrite ?nw_rev, ?nwe_rev in *; auto.
Qed.

Lemma wfl_nwac : forall l, wfl l -> no_write_after_completed (rev l).
Proof.
  intros l Hw. apply nwac_hist. apply histr_hist in Hw. eapply hist_impl; [|exact Hw].
  intros o p. destruct o; simpl; tauto.
Qed.
Lemma wfl_wx : forall l, wfl l -> writes_exclusive (rev l).
Proof.
  intros l Hw. apply wx_hist. apply histr_hist in Hw. eapply hist_impl; [|exact Hw].
  intros o p. destruct o; simpl; tauto.
Qed.

(* the boolean checkers are exact *)
Lemma nwac_cb_ok : forall o p, nwac_cb o p = true <-> ncond o p.
Proof. intros o p. destruct o; simpl; try tauto; try apply Nat.eqb_eq. Qed.
Lemma wx_cb_ok : forall o p, wx_cb o p = true <-> xcond o p.
Proof. intros o p. destruct o; simpl; try tauto; try apply Nat.eqb_eq. Qed.
Lemma no_write_after_completed_b_ok : forall l, no_write_after_completed_b l = true <-> no_write_after_completed l.
Proof. intros. rewrite nwac_hist. apply (hist_b_ok ncond nwac_cb nwac_cb_ok). Qed.
Lemma writes_exclusive_b_ok : forall l, writes_exclusive_b l = true <-> writes_exclusive l.
Proof. intros. rewrite wx_hist. apply (hist_b_ok xcond wx_cb wx_cb_ok). Qed.

Lemma nclosed_count : forall s l, nclosed s l = count_occ Nat.eq_dec (closes l) s.
Proof.
  unfold nclosed. induction l; simpl; auto.
  destruct a; simpl; auto. destruct (Nat.eq_dec s0 s); destruct (Nat.eqb_spec s0 s); try congruence; simpl; auto.
Qed.
Lemma closes_rev : forall l, closes (rev l) = rev (closes l).
Proof.
  unfold closes. induction l; simpl; auto. rewrite flat_map_app, IHl. simpl. rewrite app_nil_r.
  destruct a; simpl; auto using app_nil_r.
Qed.

Section C12Main.
  Variable flt : sid -> ev -> fres.
  Variable wresf : sid -> ev -> wres.
  Variable ev_bad : ev -> bool.
  Variable hbfail : sid -> bool.
  Notation reach := (reachable fixed flt wresf ev_bad hbfail).
  Notation stepf := (step fixed flt wresf ev_bad hbfail).
  Notation execf := (exec fixed flt wresf ev_bad hbfail).

  Lemma WC_init : WC init /\ WT init.
  Proof.
    split; [constructor; simpl; intros; auto; try tauto; try discriminate|intros s; split; reflexivity].
    split; [discriminate|tauto].
  Qed.

  Lemma WI_reachable : forall st, reach st -> RG st /\ WC st /\ WT st.
  Proof.
    apply run_inv.
    - split; [apply RG_init; assumption|apply WC_init; assumption].
    - intros st a st' (HR & HC & HT) Hs. split; [eapply RG_step; eauto|].
      eapply WI_step; eauto. reflexivity.
  Qed.

  Lemma no_write_after_completed_holds : forall st, reach st -> no_write_after_completed (chron st).
  Proof. intros st H. apply WI_reachable in H. destruct H as (_ & HC & _). apply wfl_nwac, (wc_wfl _ HC). Qed.

  Lemma completed_once_holds : forall st, reach st -> completed_once (chron st).
  Proof.
    intros st H. apply WI_reachable in H. destruct H as (_ & HC & HT).
    unfold completed_once, chron. rewrite closes_rev. apply NoDup_rev.
    apply (NoDup_count_occ Nat.eq_dec). intros s. rewrite <- nclosed_count, (wc_nclosed _ HC).
    destruct (HT s) as [HT0 _]. destruct (s_removed (subs st s)); lia.
  Qed.

  (* the stronger fact behind both: no writer call after the removal (CAS) of the subscriber, and the
     completed channel is closed only after the removal *)
  Lemma closed_flag_counts : forall st s, reach st -> s_closed (subs st s) = nclosed s (log st) /\ s_closed (subs st s) <= 1.
  Proof.
    intros st s H. apply WI_reachable in H. destruct H as (_ & HC & HT). split; [symmetry; apply (wc_nclosed _ HC)|].
    destruct (HT s) as [HT0 _]. destruct (s_removed (subs st s)); lia.
  Qed.

  (* writes_exclusive, log form: per subscriber the calls alternate enter / return *)
  Lemma writes_exclusive_log_holds : forall st, reach st -> writes_exclusive (chron st).
  Proof. intros st H. apply WI_reachable in H. destruct H as (_ & HC & _). apply wfl_wx, (wc_wfl _ HC). Qed.

  (* writeMu: held exactly while a call is in progress; never while completed is closed *)
  Lemma wlock_holds : forall st s, reach st ->
    nw s (chron st) = nwe s (chron st) + B (mem s (wlk st)) /\ (mem s (wlk st) = true -> s_closed (subs st s) = 0).
  Proof.
    intros st s H. apply WI_reachable in H. destruct H as (_ & HC & _). unfold chron. rewrite nw_rev, nwe_rev.
    split; [apply (wc_wl _ HC)|apply (wc_lk _ HC)].
  Qed.

  (* writes_exclusive, transition form: every entry or return of a writer call of s is logged by an
     instruction that is (part of) a writeMu region of that subscriber. *)
  Definition w_region (i : instr) : option sid :=
    match i with
    | IWriteErr s | IKidWrite _ s _ _ | ICEWrite s _ | IHbSend s | IWCont s _ _ _ => Some s
    | _ => None
    end.

  Definition nwc (s : sid) (l : list obs) : nat := nw s l + nwe s l.     (* entries + returns *)

  Lemma nw_quiet : forall s a, forallb quiet a = true -> nwc s a = 0.
  Proof.
    unfold nwc, nw, nwe; induction a; simpl; intros; auto. apply andb_true_iff in H. destruct H.
    destruct a; simpl in *; auto; discriminate.
  Qed.
  Lemma nwc_app : forall s a b, nwc s (a ++ b) = nwc s a + nwc s b.
  Proof. unfold nwc; intros; rewrite nw_app, nwe_app; lia. Qed.
  Lemma quiet_map : forall A (f : A -> obs) l, (forall x, quiet (f x) = true) -> forallb quiet (map f l) = true.
  Proof. induction l; simpl; intros; auto. rewrite H, IHl; auto. Qed.

  Lemma nw_RM : forall s st0 st1 r, RM st0 st1 r -> nwc s (log st1) = nwc s (log st0).
  Proof. intros. rewrite (rm_log _ _ _ H), nwc_app, nw_quiet; auto. apply quiet_map; auto. Qed.

  Lemma writes_exclusive_holds : forall st i x st1 push sp s,
    RG st -> execf st i x = Some (st1, push, sp) ->
    nwc s (log st1) <> nwc s (log st) -> w_region i = Some s.
  Proof.
    intros st i x st1 push sp s HR He Hne.
    exec_cases He; simpl in *; try (exfalso; apply Hne; reflexivity);
      try (unfold nwc, nw, nwe in Hne; simpl in Hne; destruct (Nat.eqb_spec s0 s); [subst; reflexivity|exfalso; apply Hne; reflexivity]).
    - exfalso. apply Hne. unfold dec_obs.
      assert (HR0 : RG (st_log st (if mem s0 (allsubs st) then [GLeft s0] else []))) by (eapply RG_ext; [|exact HR]; reg_eq_tac).
      assert (E := RM_remove_locked _ _ _ _ HR0 Erm).
      apply (nw_RM s) in E. simpl in E. destruct (rr_dec r =? 0); simpl; unfold nwc, nw, nwe in *; simpl; rewrite E;
        destruct (mem s0 (allsubs st)); reflexivity.
    - exfalso. apply Hne. unfold dec_obs.
      assert (HR0 : RG (st_log st (map GLeft (of_conn st c (allsubs st))))) by (eapply RG_ext; [|exact HR]; reg_eq_tac).
      assert (E := RM_remove_many _ _ _ _ HR0 Erm).
      apply (nw_RM s) in E. simpl in E. rewrite ?nwc_app in E. rewrite (nw_quiet s (map GLeft (of_conn st c (allsubs st)))) in E by (apply quiet_map; auto).
      destruct (rr_dec r =? 0); simpl; unfold nwc, nw, nwe in *; simpl; rewrite E; reflexivity.
    - exfalso. apply Hne. unfold dec_obs.
      assert (E : RM (st_flags st true (rctx st)) st0 r).
      { eapply RM_detach_many; [eapply RG_ext; [|exact HR]; reg_eq_tac| | |exact Erm]; simpl; auto.
        apply (NoDup_tids (fun t => t_key (trigs st t))); [apply (rg_keys _ HR)|]. intros k t Hi. apply (rg_ent _ HR _ _ Hi). }
      apply (nw_RM s) in E. simpl in E. destruct (rr_dec r =? 0); simpl; unfold nwc, nw, nwe in *; simpl; rewrite E; reflexivity.
    - exfalso. apply Hne. unfold dec_obs.
      assert (Hr : In (t_key (trigs st t0), t0) (reg st)).
      { simpl in Ec. destruct (is_reg st t) eqn:E; inversion Ec; subst. apply is_reg_true; auto. }
      assert (E := RM_detach_locked _ _ _ _ HR Hr Erm).
      apply (nw_RM s) in E. destruct (rr_dec r =? 0); simpl; unfold nwc, nw, nwe in *; simpl; rewrite E; reflexivity.
    - exfalso. apply Hne. rewrite nwc_app, nw_quiet; auto. apply quiet_map; auto.
  Qed.
End C12Main.
