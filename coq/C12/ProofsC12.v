(* C12: no writer call after completion, completion signalled once, writer calls only inside W_s regions. *)
From Gv Require Import C12.Model C12.Spec C12.ProofsBase C12.ProofsReg.
From Coq Require Import List Bool Arith PeanoNat Lia.
Import ListNotations.

(* log is newest first: a writer call is never preceded (chronologically) by the removal of that
   subscriber, a close of completed_s always is *)
Fixpoint wfl (l : list obs) : Prop :=
  match l with
  | [] => True
  | o :: r => match o with
              | OW s _ => ~ In (GRemoved s) r
              | OClosed s => In (GRemoved s) r
              | _ => True
              end /\ wfl r
  end.

Definition neutral (o : obs) : bool :=
  match o with OW _ _ | OClosed _ | GRemoved _ => false | _ => true end.

Definition is_oclosed (s : sid) (o : obs) : bool := match o with OClosed s' => s' =? s | _ => false end.
Definition nclosed (s : sid) (l : list obs) : nat := length (filter (is_oclosed s) l).
Definition is_close (s : sid) (i : instr) : bool := match i with IClose s' => s' =? s | _ => false end.

Record WC (st : state) : Prop := {
  wc_rem : forall s, s_removed (subs st s) = true <-> In (GRemoved s) (log st);
  wc_wfl : wfl (log st);
  wc_nclosed : forall s, nclosed s (log st) = s_closed (subs st s);
  wc_fresh : forall s, ~ In s (allsubs st) -> s_removed (subs st s) = false /\ s_closed (subs st s) = 0 }.

Definition WT (st : state) : Prop :=
  forall s, s_closed (subs st s) + cnt (is_close s) (threads st) = (if s_removed (subs st s) then 1 else 0).

Lemma wfl_neutral : forall added l, forallb neutral added = true -> wfl l -> wfl (added ++ l).
Proof.
  induction added; simpl; intros; auto. apply andb_true_iff in H. destruct H.
  split; auto. destruct a; simpl in *; auto; discriminate.
Qed.
Lemma In_neutral : forall added l s, forallb neutral added = true -> (In (GRemoved s) (added ++ l) <-> In (GRemoved s) l).
Proof.
  intros. rewrite in_app_iff. split; auto. intros [Hi|]; auto.
  rewrite forallb_forall in H. apply H in Hi. discriminate.
Qed.
Lemma nclosed_neutral : forall added l s, forallb neutral added = true -> nclosed s (added ++ l) = nclosed s l.
Proof.
  unfold nclosed; intros. rewrite filter_app, app_length.
  assert (filter (is_oclosed s) added = []).
  { induction added; simpl in *; auto. apply andb_true_iff in H. destruct H. destruct a; simpl in *; auto; discriminate. }
  rewrite H0. auto.
Qed.

(* a region that leaves the removed / closed flags alone and logs only neutral entries *)
Lemma WC_neutral : forall st st1 added,
  WC st -> log st1 = added ++ log st -> forallb neutral added = true ->
  (forall s, s_removed (subs st1 s) = s_removed (subs st s) /\ s_closed (subs st1 s) = s_closed (subs st s)) ->
  (forall s, In s (allsubs st) -> In s (allsubs st1)) ->
  WC st1.
Proof.
  intros st st1 added H Hl Hn Hs Ha. constructor.
  - intros s. destruct (Hs s) as [-> _]. rewrite Hl, In_neutral by auto. apply (wc_rem _ H).
  - rewrite Hl. apply wfl_neutral; auto. apply (wc_wfl _ H).
  - intros s. destruct (Hs s) as [_ ->]. rewrite Hl, nclosed_neutral by auto. apply (wc_nclosed _ H).
  - intros s Hni. destruct (Hs s) as [-> ->]. apply (wc_fresh _ H). auto.
Qed.
