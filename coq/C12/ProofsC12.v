(* C12: no writer call after completion, completion signalled once, writer calls only inside W_s regions. *)
From Gv Require Import C12.Model C12.Spec C12.ProofsBase C12.ProofsReg.
From Coq Require Import List Bool Arith PeanoNat Lia.
Import ListNotations.

(* log is newest first: a writer call is never preceded (chronologically) by the removal of that
   subscriber, a close of completed_s always is *)
Fixpoint wfl (l : list obs) : Prop :=
  match l with
  | [] => True
  | o :: r => match o with
              | OW s _ => ~ In (GRemoved s) r
              | OClosed s => In (GRemoved s) r
              | _ => True
              end /\ wfl r
  end.

Definition neutral (o : obs) : bool :=
  match o with OW _ _ | OClosed _ | GRemoved _ => false | _ => true end.

Definition is_oclosed (s : sid) (o : obs) : bool := match o with OClosed s' => s' =? s | _ => false end.
Definition nclosed (s : sid) (l : list obs) : nat := length (filter (is_oclosed s) l).
Definition is_close (s : sid) (i : instr) : bool := match i with IClose s' => s' =? s | _ => false end.

Record WC (st : state) : Prop := {
  wc_rem : forall s, s_removed (subs st s) = true <-> In (GRemoved s) (log st);
  wc_wfl : wfl (log st);
  wc_nclosed : forall s, nclosed s (log st) = s_closed (subs st s);
  wc_fresh : forall s, ~ In s (allsubs st) -> s_removed (subs st s) = false /\ s_closed (subs st s) = 0 }.

Definition WT (st : state) : Prop :=
  forall s, s_closed (subs st s) + cnt (is_close s) (threads st) = (if s_removed (subs st s) then 1 else 0).

Lemma wfl_neutral : forall added l, forallb neutral added = true -> wfl l -> wfl (added ++ l).
Proof.
  induction added; simpl; intros; auto. apply andb_true_iff in H. destruct H.
  split; auto. destruct a; simpl in *; auto; discriminate.
Qed.
Lemma In_neutral : forall added l s, forallb neutral added = true -> (In (GRemoved s) (added ++ l) <-> In (GRemoved s) l).
Proof.
  intros. rewrite in_app_iff. split; auto. intros [Hi|]; auto.
  rewrite forallb_forall in H. apply H in Hi. discriminate.
Qed.
Lemma nclosed_neutral : forall added l s, forallb neutral added = true -> nclosed s (added ++ l) = nclosed s l.
Proof.
  unfold nclosed; intros. rewrite filter_app, app_length.
  assert (filter (is_oclosed s) added = []).
  { induction added; simpl in *; auto. apply andb_true_iff in H. destruct H. destruct a; simpl in *; auto; discriminate. }
  rewrite H0. auto.
Qed.

(* a region that leaves the removed / closed flags alone and logs only neutral entries *)
Lemma WC_neutral : forall st st1 added,
  WC st -> log st1 = added ++ log st -> forallb neutral added = true ->
  (forall s, s_removed (subs st1 s) = s_removed (subs st s) /\ s_closed (subs st1 s) = s_closed (subs st s)) ->
  (forall s, In s (allsubs st) -> In s (allsubs st1)) ->
  WC st1.
Proof.
  intros st st1 added H Hl Hn Hs Ha. constructor.
  - intros s. destruct (Hs s) as [-> _]. rewrite Hl, In_neutral by auto. apply (wc_rem _ H).
  - rewrite Hl. apply wfl_neutral; auto. apply (wc_wfl _ H).
  - intros s. destruct (Hs s) as [_ ->]. rewrite Hl, nclosed_neutral by auto. apply (wc_nclosed _ H).
  - intros s Hni. destruct (Hs s) as [-> ->]. apply (wc_fresh _ H). auto.
Qed.

Definition quiet (o : obs) : bool := match o with OW _ _ | OClosed _ => false | _ => true end.
Lemma wfl_quiet : forall added l, forallb quiet added = true -> wfl l -> wfl (added ++ l).
Proof.
  induction added; simpl; intros; auto. apply andb_true_iff in H. destruct H.
  split; auto. destruct a; simpl in *; auto; discriminate.
Qed.
Lemma nclosed_quiet : forall added l s, forallb quiet added = true -> nclosed s (added ++ l) = nclosed s l.
Proof.
  unfold nclosed; intros. rewrite filter_app, app_length.
  assert (filter (is_oclosed s) added = []).
  { induction added; simpl in *; auto. apply andb_true_iff in H. destruct H. destruct a; simpl in *; auto; discriminate. }
  rewrite H0. auto.
Qed.

Lemma WC_removal : forall st0 st1 r,
  WC st0 -> RM st0 st1 r -> (forall s, In s (byid st0) -> In s (allsubs st0)) -> WC st1.
Proof.
  intros st0 st1 r H R Hb. constructor.
  - intros s. rewrite (rm_subs _ _ _ R), (rm_log _ _ _ R), in_app_iff, in_map_iff.
    destruct (mem s (rr_close r)) eqn:E.
    + simpl. split; auto. intros _. left. exists s. split; auto. apply in_rev. rewrite rev_involutive. apply mem_In; auto.
    + rewrite (wc_rem _ H). split; auto. intros [[x [Hx Hi]]|]; auto. inversion Hx; subst.
      apply in_rev in Hi. apply mem_In in Hi. congruence.
  - rewrite (rm_log _ _ _ R). apply wfl_quiet; [|apply (wc_wfl _ H)].
    apply forallb_forall. intros o Hi. apply in_map_iff in Hi. destruct Hi as [x [<- _]]. auto.
  - intros s. rewrite (rm_subs _ _ _ R), (rm_log _ _ _ R), nclosed_quiet.
    + rewrite (wc_nclosed _ H). destruct (mem s (rr_close r)); auto.
    + apply forallb_forall. intros o Hi. apply in_map_iff in Hi. destruct Hi as [x [<- _]]. auto.
  - intros s Hn. destruct (rm_frame _ _ _ R) as (_ & _ & Ha & _). rewrite Ha in Hn.
    rewrite (rm_subs _ _ _ R). destruct (mem s (rr_close r)) eqn:E.
    + exfalso. apply Hn, Hb. apply mem_In in E. apply (rm_close_in _ _ _ R s E).
    + apply (wc_fresh _ H); auto.
Qed.

(* writer calls of subscriber s, all inside one W_s region that saw removed_s = false *)
Lemma WC_write : forall st st1 s ws,
  WC st -> s_removed (subs st s) = false -> log st1 = ws ++ log st ->
  Forall (fun o => exists c, o = OW s c) ws ->
  (forall s', s_removed (subs st1 s') = s_removed (subs st s') /\ s_closed (subs st1 s') = s_closed (subs st s')) ->
  allsubs st1 = allsubs st -> WC st1.
Proof.
  intros st st1 s ws H Hr Hl Hw Hs Ha.
  assert (Hng : ~ In (GRemoved s) (log st)).
  { intro Hi. apply (wc_rem _ H) in Hi. congruence. }
  constructor.
  - intros s'. destruct (Hs s') as [-> _]. rewrite Hl, in_app_iff, (wc_rem _ H). split; auto.
    intros [Hi|]; auto. rewrite Forall_forall in Hw. apply Hw in Hi. destruct Hi as [c Hc]. discriminate.
  - rewrite Hl. clear Hl. induction ws; simpl; [apply (wc_wfl _ H)|].
    inversion Hw; subst. destruct H2 as [c ->]. split; [|auto].
    rewrite in_app_iff. intros [Hi|Hi]; [|tauto].
    rewrite Forall_forall in H3. apply H3 in Hi. destruct Hi as [c' Hc]. discriminate.
  - intros s'. destruct (Hs s') as [_ ->]. rewrite Hl, <- (wc_nclosed _ H). unfold nclosed. rewrite filter_app, app_length.
    assert (filter (is_oclosed s') ws = []).
    { assert (Hq : forall o, In o ws -> is_oclosed s' o = false).
      { intros o Hi. rewrite Forall_forall in Hw. destruct (Hw o Hi) as [c ->]. auto. }
      clear - Hq. induction ws; simpl; auto. rewrite Hq by (left; auto). apply IHws. intros; apply Hq; right; auto. }
    rewrite H0. auto.
  - intros s' Hn. destruct (Hs s') as [-> ->]. rewrite Ha in Hn. apply (wc_fresh _ H); auto.
Qed.

(* counting IClose over pushed programs *)
Lemma cntl_map_zero : forall A (p : instr -> bool) (f : A -> instr) l, (forall x, p (f x) = false) -> cntl p (map f l) = 0.
Proof. unfold cntl; induction l; simpl; intros; auto. rewrite H. auto. Qed.
Lemma cnt_map_zero : forall A (p : instr -> bool) (f : A -> tname * list instr) l,
  (forall x, cntl p (snd (f x)) = 0) -> cnt p (map f l) = 0.
Proof. induction l; simpl; intros; auto. destruct (f a) eqn:E. specialize (H a) as Ha. rewrite E in Ha. simpl in Ha. rewrite Ha, IHl; auto. Qed.
Lemma cntl_close_map : forall s l, NoDup l -> cntl (is_close s) (map IClose l) = if mem s l then 1 else 0.
Proof.
  unfold cntl; induction l; simpl; intros; auto. inversion H; subst. rewrite (Nat.eqb_sym s a).
  destruct (Nat.eqb_spec a s); simpl.
  - subst. rewrite IHl by auto. rewrite (proj2 (mem_nIn s l)); auto.
  - apply IHl; auto.
Qed.
Lemma cntl_after_remove : forall s r, NoDup (rr_close r) ->
  cntl (is_close s) (after_remove r) = if mem s (rr_close r) then 1 else 0.
Proof.
  intros. unfold after_remove. rewrite cntl_app, cntl_close_map by auto. rewrite cntl_map_zero by auto. lia.
Qed.

Definition R (st : state) (s : sid) : nat := if s_removed (subs st s) then 1 else 0.

Ltac cnt_simpl :=
  unfold unsub_prog, uprog, ubody, celoop, hbtrigs, hbsubs in *;
  repeat (rewrite ?cntl_app, ?cntl_cons, ?cnt_app; simpl);
  repeat match goal with
         | |- context [cntl _ (map _ _)] => rewrite cntl_map_zero by (intros; reflexivity)
         | |- context [cnt _ (map _ _)] => rewrite cnt_map_zero by (intros; reflexivity)
         | |- context [match ?l with [] => [] | _ :: _ => _ end] => destruct l; simpl
         end;
  repeat (rewrite ?cntl_app, ?cntl_cons, ?cnt_app; simpl);
  try (unfold cntl; simpl).

Ltac flags_tac :=
  intros; simpl; unfold upd;
  repeat (match goal with |- context [Nat.eqb ?a ?b] => destruct (Nat.eqb_spec a b); subst end); simpl; auto.

Lemma removal_wi : forall st stp st0 r stF i,
  RG stp -> WC stp -> RM stp st0 r ->
  (forall s, subs stp s = subs st s) ->
  (exists added, log stF = added ++ log st0 /\ forallb neutral added = true) ->
  (forall s, subs stF s = subs st0 s) -> allsubs stF = allsubs st0 ->
  (forall s, is_close s i = false) ->
  WC stF /\
  forall s, s_closed (subs stF s) + cntl (is_close s) (after_remove r) + cnt (is_close s) [] + R st s
            = s_closed (subs st s) + (if is_close s i then 1 else 0) + R stF s.
Proof.
  intros st stp st0 r stF i HR HC HM Hp [added [Hl Hn]] Hs Ha Hi.
  assert (HC0 : WC st0).
  { eapply WC_removal; eauto. intros s Hb. apply (rg_byid _ HR s Hb). }
  split.
  - eapply WC_neutral; [exact HC0|exact Hl|exact Hn| |rewrite Ha; auto].
    intros s. rewrite Hs. auto.
  - intros s. unfold R. rewrite Hi, Hs, (rm_subs _ _ _ HM), Hp, cntl_after_remove by apply (rm_close_nd _ _ _ HM).
    simpl. destruct (mem s (rr_close r)) eqn:E; simpl; try lia.
    apply mem_In in E. destruct (rm_close_in _ _ _ HM s E) as [_ Hr]. rewrite Hp in Hr. rewrite Hr. lia.
Qed.

Definition cnt_noclose (p : list instr) : Prop := forall s, cntl (is_close s) p = 0.

Section C12Step.
  Variable v : variant.
  Variable flt : sid -> ev -> fres.
  Variable wresf : sid -> ev -> wres.
  Variable ev_bad : ev -> bool.
  Variable hbfail : sid -> bool.
  Notation exec := (exec v flt wresf ev_bad hbfail).
  Notation step := (step v flt wresf ev_bad hbfail).
  Hypothesis Hfa : fix_a v = true.

  Definition texec (st : state) (i : instr) (st1 : state) (push : list instr) (sp : list (tname * list instr)) : Prop :=
    forall s, s_closed (subs st1 s) + cntl (is_close s) push + cnt (is_close s) sp + R st s
              = s_closed (subs st s) + (if is_close s i then 1 else 0) + R st1 s.

  Lemma WI_exec : forall st i x st1 push sp,
    RG st -> WC st -> (forall s0, i = IClose s0 -> s_removed (subs st s0) = true) ->
    exec st i x = Some (st1, push, sp) -> WC st1 /\ texec st i st1 push sp.
  Proof.
    intros st i x st1 push sp HR HC Hcl He. unfold texec, R.
    exec_cases He;
      try (split;
           [ eapply WC_neutral;
             [exact HC
             |first [ instantiate (1 := []); reflexivity
                    | simpl; match goal with |- ?a :: ?b :: log _ = _ => instantiate (1 := [a; b]); reflexivity end
                    | simpl; match goal with |- ?a :: log _ = _ => instantiate (1 := [a]); reflexivity end
                    | simpl; reflexivity ]
             |try reflexivity
             |flags_tac
             |simpl; auto]
           | intros s'; cnt_simpl; flags_tac; try lia]; fail).
    (* addSubscription: four branches (join / new trigger, sync / async) *)
    1-4: assert (Hf := wc_fresh _ HC s (proj1 (mem_nIn _ _) Ec)); destruct Hf as [Hf1 Hf2];
      (split;
       [ eapply WC_neutral;
         [exact HC
         |simpl; match goal with |- ?a :: ?b :: log _ = _ => instantiate (1 := [a; b]); reflexivity end
         |reflexivity
         |flags_tac
         |simpl; auto]
       | intros s'; cnt_simpl; flags_tac; try lia; rewrite ?Hf1, ?Hf2; simpl; lia ]).
    - (* UnsubscribeSubscription *)
      eapply (removal_wi st (st_log st (if mem s (allsubs st) then [GLeft s] else [])));
        [eapply RG_ext; [|exact HR]; reg_eq_tac
        |eapply WC_neutral; [exact HC|simpl; reflexivity|destruct (mem s (allsubs st)); reflexivity|flags_tac|simpl; auto]
        |eapply RM_remove_locked; [|exact Erm]; eapply RG_ext; [|exact HR]; reg_eq_tac
        |reflexivity
        |eexists; split; [simpl; reflexivity|unfold dec_obs; destruct (rr_dec r =? 0); reflexivity]
        |reflexivity|reflexivity|reflexivity].
    - (* removeClient *)
      eapply (removal_wi st (st_log st (map GLeft (of_conn st c (allsubs st)))));
        [eapply RG_ext; [|exact HR]; reg_eq_tac
        |eapply WC_neutral; [exact HC|simpl; reflexivity| |flags_tac|simpl; auto]
        |eapply RM_remove_many; [|exact Erm]; eapply RG_ext; [|exact HR]; reg_eq_tac
        |reflexivity
        |eexists; split; [simpl; reflexivity|unfold dec_obs; destruct (rr_dec r =? 0); reflexivity]
        |reflexivity|reflexivity|reflexivity].
      apply forallb_forall. intros o Ho. apply in_map_iff in Ho. destruct Ho as [y [<- _]]. reflexivity.
    - (* shutdownResolver *)
      eapply (removal_wi st (st_flags st true (rctx st)));
        [eapply RG_ext; [|exact HR]; reg_eq_tac
        |eapply WC_neutral; [exact HC|instantiate (1 := []); reflexivity|reflexivity|flags_tac|simpl; auto]
        |eapply RM_detach_many; [eapply RG_ext; [|exact HR]; reg_eq_tac| | |exact Erm]
        |reflexivity
        |eexists; split; [simpl; reflexivity|unfold dec_obs; destruct (rr_dec r =? 0); reflexivity]
        |reflexivity|reflexivity|reflexivity].
      + simpl. auto.
      + simpl. apply (NoDup_tids (fun t => t_key (trigs st t))); [apply (rg_keys _ HR)|].
        intros k t Hi. apply (rg_ent _ HR _ _ Hi).
    - (* close(completed_s) *)
      assert (Hrm : s_removed (subs st s) = true) by (apply Hcl; auto).
      split.
      + constructor; simpl.
        * intros s'. unfold upd. destruct (Nat.eqb_spec s' s); subst; simpl.
          -- rewrite Hrm. split; auto. intros _. right. apply (wc_rem _ HC); auto.
          -- rewrite (wc_rem _ HC). split; auto. intros [Hx|]; auto. discriminate.
        * split; [apply (wc_rem _ HC); auto|apply (wc_wfl _ HC)].
        * intros s'. unfold nclosed. simpl. unfold upd. rewrite (Nat.eqb_sym s' s).
          destruct (Nat.eqb_spec s s'); subst; simpl; rewrite <- (wc_nclosed _ HC); auto.
        * intros s' Hn. unfold upd. destruct (Nat.eqb_spec s' s); subst; simpl; [|apply (wc_fresh _ HC); auto].
          destruct (wc_fresh _ HC s Hn). congruence.
      + intros s'. simpl. unfold cntl, upd. simpl. rewrite (Nat.eqb_sym s' s).
        destruct (Nat.eqb_spec s s'); subst; simpl; lia.
    - (* writeError *)
      split; [eapply (WC_write st _ s [OW s CWriteError]); eauto; try solve [simpl; reflexivity]; try solve [repeat constructor; eexists; reflexivity]; try solve [flags_tac]
             |intros s'; cnt_simpl; lia].
    - (* doneTriggerFromUpdater *)
      assert (Hr : In (t_key (trigs st t0), t0) (reg st)).
      { destruct (fix_c v).
        - destruct (is_reg st t) eqn:E; inversion Ec; subst. apply is_reg_true; auto.
        - apply lookup_reg_In in Ec. destruct (rg_ent _ HR _ _ Ec) as (_ & B & _). rewrite B. exact Ec. }
      eapply (removal_wi st st);
        [exact HR|exact HC|eapply RM_detach_locked; eauto|reflexivity
        |eexists; split; [simpl; reflexivity|unfold dec_obs; destruct (rr_dec r =? 0); reflexivity]
        |reflexivity|reflexivity|reflexivity].
    - (* fan-out *)
      split.
      + eapply WC_neutral; [exact HC|simpl; reflexivity| |flags_tac|simpl; auto].
        apply forallb_forall. intros o Ho. apply in_map_iff in Ho. destruct Ho as [y [<- _]]. reflexivity.
      + intros s'. cnt_simpl. lia.
    - split; [eapply (WC_write st _ s [OW s CFlush; OW s (CWrite e)]); eauto; try solve [simpl; reflexivity]; try solve [repeat constructor; eexists; reflexivity]; try solve [flags_tac]
             |intros s'; cnt_simpl; lia].
    - split; [eapply (WC_write st _ s [OW s CFlushFail; OW s (CWrite e)]); eauto; try solve [simpl; reflexivity]; try solve [repeat constructor; eexists; reflexivity]; try solve [flags_tac]
             |intros s'; cnt_simpl; lia].
    - split; [eapply (WC_write st _ s [OW s CWriteError; OW s (CWriteFail e)]); eauto; try solve [simpl; reflexivity]; try solve [repeat constructor; eexists; reflexivity]; try solve [flags_tac]
             |intros s'; cnt_simpl; lia].
    - (* complete() / error(): the re-test under writeMu *)
      rewrite Hfa in Ec. simpl in Ec.
      split; [eapply (WC_write st _ s [OW s (cecall c)]); eauto; try solve [simpl; reflexivity]; try solve [repeat constructor; eexists; reflexivity]; try solve [flags_tac]
             |intros s'; cnt_simpl; lia].
    - split; [eapply (WC_write st _ s [OW s CHeartbeatFail]); eauto; try solve [simpl; reflexivity]; try solve [repeat constructor; eexists; reflexivity]; try solve [flags_tac]
             |intros s'; cnt_simpl; lia].
    - split; [eapply (WC_write st _ s [OW s CHeartbeat]); eauto; try solve [simpl; reflexivity]; try solve [repeat constructor; eexists; reflexivity]; try solve [flags_tac]
             |intros s'; cnt_simpl; lia].
  Qed.

  Lemma cnt_lookup_ge : forall p th i rest thr, lookup_thr th thr = Some (i :: rest) -> p i = true -> cnt p thr > 0.
  Proof.
    induction thr as [|[n q] thr]; simpl; intros; [discriminate|].
    destruct (tname_eqb n th).
    - inversion H; subst. rewrite cntl_cons, H0. lia.
    - specialize (IHthr H H0). lia.
  Qed.

  Lemma WI_step : forall st a st', RG st -> WC st -> WT st -> step st a = Some st' -> WC st' /\ WT st'.
  Proof.
    intros st a st' HR HC HT Hs.
    assert (Hspawn : forall n p, cnt_noclose p -> spawn st n p = Some st' -> WC st' /\ WT st').
    { intros n p Hp Hsp. apply spawn_spec in Hsp. destruct Hsp as [->|[_ ->]]; auto. split.
      - eapply WC_neutral; [exact HC|instantiate (1 := []); reflexivity|reflexivity|flags_tac|simpl; auto].
      - intros s. simpl. rewrite cnt_app. simpl. rewrite Hp. specialize (HT s). lia. }
    destruct a; simpl in Hs.
    - eapply Hspawn; [|exact Hs]. intros s. destruct op; reflexivity.
    - destruct (t <? ntrig st); [|discriminate]. eapply Hspawn; [|exact Hs]. intros s. destruct op; reflexivity.
    - eapply Hspawn; [|exact Hs]. intros s. reflexivity.
    - apply step_AStep in Hs. destruct Hs as (i & rest & st1 & push & sp & Hl & He & Heq).
      assert (Hcl : forall s0, i = IClose s0 -> s_removed (subs st s0) = true).
      { intros s0 ->. specialize (HT s0).
        assert (cnt (is_close s0) (threads st) > 0) by (eapply cnt_lookup_ge; [exact Hl|simpl; apply Nat.eqb_refl]).
        destruct (s_removed (subs st s0)); auto. lia. }
      destruct (WI_exec _ _ _ _ _ _ HR HC Hcl He) as [HC1 HT1]. split.
      + subst st'. eapply WC_neutral; [exact HC1|instantiate (1 := []); reflexivity|reflexivity|flags_tac|simpl; auto].
      + intros s. pose proof (step_cnt v flt wresf ev_bad hbfail (is_close s) _ _ _ _ _ _ _ _ _ Hl He Heq) as Hc.
        specialize (HT1 s). specialize (HT s). unfold R in HT1.
        assert (subs st' s = subs st1 s) by (subst st'; reflexivity). rewrite H. lia.
  Qed.
End C12Step.

(* ---- from the invariants to the statements of Spec.v ---- *)
Lemma wfl_app_r : forall a b, wfl (a ++ b) -> wfl b.
Proof. induction a; simpl; intros; auto. apply IHa. tauto. Qed.

Lemma wfl_nwac : forall l, wfl l -> no_write_after_completed (rev l).
Proof.
  unfold no_write_after_completed. intros l Hw l1 l2 s c Heq Hin.
  assert (El : l = rev l2 ++ OClosed s :: rev l1).
  { rewrite <- (rev_involutive l), Heq, rev_app_distr. simpl. rewrite <- app_assoc. reflexivity. }
  apply in_rev in Hin. apply in_split in Hin. destruct Hin as (a & b & Hab).
  rewrite Hab, <- app_assoc in El. simpl in El. subst l.
  apply wfl_app_r in Hw. simpl in Hw. destruct Hw as [Hn Hw].
  apply wfl_app_r in Hw. simpl in Hw. destruct Hw as [Hy _].
  apply Hn. apply in_or_app. right. right. exact Hy.
Qed.

Lemma nclosed_count : forall s l, nclosed s l = count_occ Nat.eq_dec (closes l) s.
Proof.
  unfold nclosed. induction l; simpl; auto.
  destruct a; simpl; auto. destruct (Nat.eq_dec s0 s); destruct (Nat.eqb_spec s0 s); try congruence; simpl; auto.
Qed.
Lemma closes_rev : forall l, closes (rev l) = rev (closes l).
Proof.
  unfold closes. induction l; simpl; auto. rewrite flat_map_app, IHl. simpl. rewrite app_nil_r.
  destruct a; simpl; auto using app_nil_r.
Qed.

Section C12Main.
  Variable flt : sid -> ev -> fres.
  Variable wresf : sid -> ev -> wres.
  Variable ev_bad : ev -> bool.
  Variable hbfail : sid -> bool.
  Notation reach := (reachable fixed flt wresf ev_bad hbfail).
  Notation stepf := (step fixed flt wresf ev_bad hbfail).
  Notation execf := (exec fixed flt wresf ev_bad hbfail).

  Lemma WC_init : WC init /\ WT init.
  Proof.
    split; [constructor; simpl; intros; auto; try tauto|intros s; reflexivity].
    split; [discriminate|tauto].
  Qed.

  Lemma WI_reachable : forall st, reach st -> RG st /\ WC st /\ WT st.
  Proof.
    apply run_inv.
    - split; [apply RG_init; assumption|apply WC_init; assumption].
    - intros st a st' (HR & HC & HT) Hs. split; [eapply RG_step; eauto|].
      eapply WI_step; eauto. reflexivity.
  Qed.

  Lemma no_write_after_completed_holds : forall st, reach st -> no_write_after_completed (chron st).
  Proof. intros st H. apply WI_reachable in H. destruct H as (_ & HC & _). apply wfl_nwac, (wc_wfl _ HC). Qed.

  Lemma completed_once_holds : forall st, reach st -> completed_once (chron st).
  Proof.
    intros st H. apply WI_reachable in H. destruct H as (_ & HC & HT).
    unfold completed_once, chron. rewrite closes_rev. apply NoDup_rev.
    apply (NoDup_count_occ Nat.eq_dec). intros s. rewrite <- nclosed_count, (wc_nclosed _ HC).
    specialize (HT s). destruct (s_removed (subs st s)); lia.
  Qed.

  (* the stronger fact behind both: no writer call after the removal (CAS) of the subscriber, and the
     completed channel is closed only after the removal *)
  Lemma closed_flag_counts : forall st s, reach st -> s_closed (subs st s) = nclosed s (log st) /\ s_closed (subs st s) <= 1.
  Proof.
    intros st s H. apply WI_reachable in H. destruct H as (_ & HC & HT). split; [symmetry; apply (wc_nclosed _ HC)|].
    specialize (HT s). destruct (s_removed (subs st s)); lia.
  Qed.

  (* writes_exclusive: every writer call is made by an instruction that is a writeMu region of that
     subscriber; regions are single transitions of the LTS, hence never overlap. *)
  Definition w_region (i : instr) : option sid :=
    match i with
    | IWriteErr s | IKidWrite _ s _ _ | ICEWrite s _ | IHbSend s => Some s
    | _ => None
    end.

  Definition is_ow (s : sid) (o : obs) : bool := match o with OW s' _ => s' =? s | _ => false end.
  Definition nw (s : sid) (l : list obs) : nat := length (filter (is_ow s) l).

  Lemma nw_app : forall s a b, nw s (a ++ b) = nw s a + nw s b.
  Proof. unfold nw; intros; rewrite filter_app, app_length; auto. Qed.
  Lemma nw_quiet : forall s a, forallb quiet a = true -> nw s a = 0.
  Proof.
    unfold nw; induction a; simpl; intros; auto. apply andb_true_iff in H. destruct H.
    destruct a; simpl in *; auto; discriminate.
  Qed.
  Lemma quiet_map : forall A (f : A -> obs) l, (forall x, quiet (f x) = true) -> forallb quiet (map f l) = true.
  Proof. induction l; simpl; intros; auto. rewrite H, IHl; auto. Qed.

  Lemma nw_RM : forall s st0 st1 r, RM st0 st1 r -> nw s (log st1) = nw s (log st0).
  Proof. intros. rewrite (rm_log _ _ _ H), nw_app, nw_quiet; auto. apply quiet_map; auto. Qed.

  Lemma writes_exclusive_holds : forall st i x st1 push sp s,
    RG st -> execf st i x = Some (st1, push, sp) ->
    nw s (log st1) <> nw s (log st) -> w_region i = Some s.
  Proof.
    intros st i x st1 push sp s HR He Hne.
    exec_cases He; simpl in *; try (exfalso; apply Hne; reflexivity);
      try (unfold nw in Hne; simpl in Hne; destruct (Nat.eqb_spec s0 s); [subst; reflexivity|exfalso; apply Hne; reflexivity]).
    - exfalso. apply Hne. unfold dec_obs.
      assert (HR0 : RG (st_log st (if mem s0 (allsubs st) then [GLeft s0] else []))) by (eapply RG_ext; [|exact HR]; reg_eq_tac).
      assert (E := RM_remove_locked _ _ _ _ HR0 Erm).
      apply (nw_RM s) in E. simpl in E. destruct (rr_dec r =? 0); simpl; unfold nw in *; simpl; rewrite E;
        destruct (mem s0 (allsubs st)); reflexivity.
    - exfalso. apply Hne. unfold dec_obs.
      assert (HR0 : RG (st_log st (map GLeft (of_conn st c (allsubs st))))) by (eapply RG_ext; [|exact HR]; reg_eq_tac).
      assert (E := RM_remove_many _ _ _ _ HR0 Erm).
      apply (nw_RM s) in E. simpl in E. rewrite ?nw_app in E. rewrite (nw_quiet s (map GLeft (of_conn st c (allsubs st)))) in E by (apply quiet_map; auto).
      destruct (rr_dec r =? 0); simpl; unfold nw in *; simpl; rewrite E; reflexivity.
    - exfalso. apply Hne. unfold dec_obs.
      assert (E : RM (st_flags st true (rctx st)) st0 r).
      { eapply RM_detach_many; [eapply RG_ext; [|exact HR]; reg_eq_tac| | |exact Erm]; simpl; auto.
        apply (NoDup_tids (fun t => t_key (trigs st t))); [apply (rg_keys _ HR)|]. intros k t Hi. apply (rg_ent _ HR _ _ Hi). }
      apply (nw_RM s) in E. simpl in E. destruct (rr_dec r =? 0); simpl; unfold nw in *; simpl; rewrite E; reflexivity.
    - exfalso. apply Hne. unfold dec_obs.
      assert (Hr : In (t_key (trigs st t0), t0) (reg st)).
      { simpl in Ec. destruct (is_reg st t) eqn:E; inversion Ec; subst. apply is_reg_true; auto. }
      assert (E := RM_detach_locked _ _ _ _ HR Hr Erm).
      apply (nw_RM s) in E. destruct (rr_dec r =? 0); simpl; unfold nw in *; simpl; rewrite E; reflexivity.
    - exfalso. apply Hne. rewrite nw_app, nw_quiet; auto. apply quiet_map; auto.
  Qed.
End C12Main.
