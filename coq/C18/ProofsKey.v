(* C18: invariants about connection keys and dials; shared_iff_same_key. *)
From Gv Require Import C18.Model C18.Spec C18.ProofsBasic C18.ProofsInv.
From Coq Require Import List NArith Arith Bool Lia.
Import ListNotations.

Definition ck (s : st) (c : nat) : option key := option_map c_key (cns s c).

Definition dialP (p : spc) (d : nat) : Prop :=
  match p with SWait d' | SDial d' | SPublish d' _ | SBook d' _ => d' = d | _ => False end.
Definition connP (p : spc) (c : nat) : Prop :=
  match p with
  | SHaveConn c' | SSend c' _ | SActive c' _ | SUnsubSend c' _ | SRemove c' _ _ | SClose c' _ => c' = c
  | _ => False
  end.
Definition okP (p : spc) (d : nat) : Prop :=
  match p with SPublish d' None | SBook d' None => d' = d | _ => False end.

Record InvD (s : st) : Prop := {
  D1 : forall k c, conns s k = Some c -> ck s c = Some k;
  D2 : forall k d, dialing s k = Some d -> exists y, dials s d = Some y /\ d_key y = k;
  D3 : forall d y k, dials s d = Some y -> ck s d = Some k -> k = d_key y;
  D4 : forall i d, dialP (pc s i) d -> exists y, dials s d = Some y /\ d_key y = okey s i;
  D5 : forall i c, connP (pc s i) c -> ck s c = Some (okey s i);
  D6 : forall i d, okP (pc s i) d -> ck s d <> None;
  D6b : forall d y, dials s d = Some y -> d_done y = Some None -> ck s d <> None;
  D7 : owner_free s;
  D8 : forall c, next_c s <= c -> ck s c = None /\ dials s c = None
}.

Lemma invd_init : forall idl, InvD (init idl).
Proof. intros; constructor; unfold ck, owner_free; simpl; intros; try discriminate; try tauto; auto. Qed.

Lemma removed_key : forall s x w, c_key (removed_conn s x w) = c_key x.
Proof. intros. unfold removed_conn. simpl. destruct (is_nil _); [destruct (idle s)|]; reflexivity. Qed.

Lemma ck_shut : forall s c cz s' evs, shut s c cz = (s', evs) -> forall c', ck s' c' = ck s c'.
Proof.
  intros. destruct (shut_cases _ _ _ _ _ H) as [[-> _]|[x [Ex [_ [-> _]]]]]; auto.
  unfold ck; simpl. unfold upd. destruct (Nat.eqb_spec c' c); subst; auto. rewrite Ex. reflexivity.
Qed.
Lemma ck_close_if_empty : forall s c s' evs, close_if_empty s c = (s', evs) -> forall c', ck s' c' = ck s c'.
Proof.
  intros. destruct (close_if_empty_cases _ _ _ _ H) as [(-> & _)|(x & _ & _ & _ & _ & _ & Hs)]; auto.
  eapply ck_shut; eauto.
Qed.
Lemma ck_remove_sub : forall s c w s' b, remove_sub s c w = Some (s', b) -> forall c', ck s' c' = ck s c'.
Proof.
  intros. destruct (remove_sub_cases _ _ _ _ _ H) as [x [Ex [-> _]]].
  unfold ck; simpl. unfold upd. destruct (Nat.eqb_spec c' c); subst; auto. rewrite Ex. simpl. rewrite removed_key. reflexivity.
Qed.
Lemma ck_set_cn : forall s c x x', cns s c = Some x -> c_key x' = c_key x -> forall c', ck (set_cn s c x') c' = ck s c'.
Proof.
  intros. unfold ck; simpl. unfold upd. destruct (Nat.eqb_spec c' c); subst; auto. rewrite H. simpl. congruence.
Qed.

(* only UpAck creates a connection; every other step keeps every connection's key *)
Lemma ck_step : forall s a s' e, step s a = Some (s', e) -> (forall d p, a <> UpAck d p) -> forall c, ck s' c = ck s c.
Proof.
  intros s a s' e H Hna c'. destruct a; try (exfalso; eapply Hna; reflexivity; fail); inv_step H;
    try reflexivity;
    repeat match goal with
           | Hs : shut _ _ _ = (_, _) |- _ => rewrite <- (ck_shut _ _ _ _ _ Hs c'); clear Hs
           | Hs : close_if_empty _ _ = (_, _) |- _ => rewrite <- (ck_close_if_empty _ _ _ _ Hs c'); clear Hs
           | Hr : remove_sub _ _ _ = Some (_, _) |- _ => rewrite <- (ck_remove_sub _ _ _ _ _ Hr c'); clear Hr
           end;
    try reflexivity;
    try (unfold ck; simpl; unfold upd; destruct (Nat.eqb_spec c' c); subst; auto;
         match goal with Hc : cns _ ?c = Some _ |- _ => rewrite Hc end; simpl; try rewrite removed_key; reflexivity).
  rewrite (ck_close_if_empty _ _ _ _ H1 c'). apply (ck_set_cn _ _ _ _ Heqo). reflexivity.
Qed.

Arguments ck : simpl never.

Lemma shut_frame2 : forall s c cz s' evs, shut s c cz = (s', evs) ->
  conns s' = conns s /\ dialing s' = dialing s /\ dials s' = dials s /\ okey s' = okey s.
Proof. intros. destruct (shut_cases _ _ _ _ _ H) as [[-> _]|[x [_ [_ [-> _]]]]]; simpl; auto. Qed.
Lemma close_if_empty_frame2 : forall s c s' evs, close_if_empty s c = (s', evs) ->
  conns s' = conns s /\ dialing s' = dialing s /\ dials s' = dials s /\ okey s' = okey s.
Proof.
  intros. destruct (close_if_empty_cases _ _ _ _ H) as [(-> & _)|(x & _ & _ & _ & _ & _ & Hs)]; auto.
  eapply shut_frame2; eauto.
Qed.
Lemma remove_sub_frame2 : forall s c w s' b, remove_sub s c w = Some (s', b) ->
  conns s' = conns s /\ dialing s' = dialing s /\ dials s' = dials s /\ okey s' = okey s.
Proof. intros. destruct (remove_sub_cases _ _ _ _ _ H) as [x [_ [-> _]]]; simpl; auto. Qed.

Ltac key_cases :=
  repeat (unfold updk in *;
          match goal with
          | H : context [key_eqb ?a ?b] |- _ => destruct (key_eqb_spec a b); subst
          | |- context [key_eqb ?a ?b] => destruct (key_eqb_spec a b); subst
          end).
Ltac frames :=
  repeat match goal with
         | Hs : shut ?s _ _ = (?s1, _) |- _ =>
           let E := fresh in
           destruct (shut_frame _ _ _ _ _ Hs) as (?Ep & ?Ec & ?Es & ?Ew & ?En);
           destruct (shut_frame2 _ _ _ _ _ Hs) as (?Eco & ?Edi & ?Eds & ?Eok); clear Hs
         | Hr : remove_sub ?s _ _ = Some (?s1, _) |- _ =>
           destruct (remove_sub_frame _ _ _ _ _ Hr) as (?Ep & ?Ec & ?Es & ?Ew & ?En);
           destruct (remove_sub_frame2 _ _ _ _ _ Hr) as (?Eco & ?Edi & ?Eds & ?Eok); clear Hr
         | Hs : close_if_empty ?s _ = (?s1, _) |- _ =>
           destruct (close_if_empty_frame _ _ _ _ Hs) as (?Ep & ?Ec & ?Es & ?Ew & ?En);
           destruct (close_if_empty_frame2 _ _ _ _ Hs) as (?Eco & ?Edi & ?Eds & ?Eok); clear Hs
         end.
Ltac dd HD :=
  pose proof (D1 _ HD) as Hd1; pose proof (D2 _ HD) as Hd2; pose proof (D3 _ HD) as Hd3;
  pose proof (D4 _ HD) as Hd4; pose proof (D5 _ HD) as Hd5; pose proof (D6 _ HD) as Hd6;
  pose proof (D6b _ HD) as Hd6b; pose proof (D7 _ HD) as Hd7; pose proof (D8 _ HD) as Hd8.
Ltac fwd_d HD :=
  match goal with
  | Hpc : pc ?s ?i = _ |- _ =>
    pose proof (D4 _ HD i) as G4; pose proof (D5 _ HD i) as G5; pose proof (D6 _ HD i) as G6;
    rewrite Hpc in G4, G5, G6; simpl in G4, G5, G6
  end.

Ltac destr_hyp_match :=
  repeat match goal with
         | H : match ?x with _ => _ end = Some _ |- _ => destruct x eqn:?; try discriminate
         | H : (if ?x then _ else _) = Some _ |- _ => destruct x eqn:?; try discriminate
         end.
Ltac fwd_dials HD :=
  repeat match goal with
         | Hd : dials ?s ?d = Some ?y |- _ =>
           lazymatch goal with
           | _ : (d_phase y <> DReturned -> pc s (d_owner y) = SDial d) |- _ => fail
           | _ => pose proof (D7 _ HD d y Hd); pose proof (D8 _ HD d);
                  pose proof (fun k => D3 _ HD d y k Hd); pose proof (D6b _ HD d y Hd)
           end
         end.
Ltac fwd_maps HD :=
  repeat match goal with
         | H : dialing ?s ?k = Some ?d |- _ =>
           let y := fresh "y" in destruct (D2 _ HD _ _ H) as (y & ? & ?); clear H
         end;
  repeat match goal with
         | H : conns ?s ?k = Some ?c |- _ =>
           lazymatch goal with _ : ck s c = Some k |- _ => fail | _ => pose proof (D1 _ HD _ _ H) end
         | H : connP (pc ?s ?j) ?c |- _ =>
           lazymatch goal with _ : ck s c = Some (okey s j) |- _ => fail | _ => pose proof (D5 _ HD _ _ H) end
         | H : okP (pc ?s ?j) ?d |- _ =>
           lazymatch goal with _ : ck s d <> None |- _ => fail | _ => pose proof (D6 _ HD _ _ H) end
         end;
  repeat match goal with
         | H : dialP (pc ?s ?j) ?d |- _ =>
           let y := fresh "y" in destruct (D4 _ HD _ _ H) as (y & ? & ?); clear H
         end;
  try (match goal with HD : InvD ?s |- _ => pose proof (D8 _ HD (next_c s) (le_n _)) end).
Ltac spec_refl :=
  repeat match goal with
         | G : forall d : nat, ?c = d -> _ |- _ => specialize (G _ eq_refl)
         | G : forall k : key, Some ?c = Some k -> _ |- _ => specialize (G _ eq_refl)
         | G : exists _, _ |- _ => destruct G
         | G : _ /\ _ |- _ => destruct G
         end.
Ltac fwd_imp :=
  repeat match goal with
         | H : ?P -> ?Q |- _ =>
           match type of P with
           | Prop => let h := fresh in
                     assert (h : P) by (assumption || congruence || discriminate || reflexivity);
                     specialize (H h); clear h
           end
         end.
Ltac fin2 :=
  simpl in *; subst;
  try solve [intuition (eauto; try congruence; try lia)];
  try solve [eexists; split; [reflexivity | simpl; intuition (eauto; congruence)]];
  try solve [eexists; split; [eassumption | simpl; intuition (eauto; congruence)]].

Lemma invd_step : forall s a s' e, Inv s -> InvD s -> step s a = Some (s', e) -> InvD s'.
Proof.
  intros s a s' e HI HD H.
  destruct (match a with UpAck _ _ => true | _ => false end) eqn:Ea.
  - (* UpAck *) destruct a; try discriminate. clear Ea. inv_step H.
    assert (Hck : forall c, ck (set_pc (set_cn (set_dial s d (d_set d0 DReturned None)) d
                 {| c_key := d_key d0; c_proto := p; c_subs := []; c_closed := false; c_dead := None; c_timers := 0;
                    c_rl := RLRun; c_rm := false |}) (d_owner d0) (SBook d None)) c
               = if Nat.eqb c d then Some (d_key d0) else ck s c).
    { intros c. unfold ck; simpl. unfold upd. destruct (Nat.eqb_spec c d); reflexivity. }
    fwd_dials HD; fwd_imp; dd HD.
    constructor; unfold owner_free; intros; rewrite ?Hck in *; simp.
    all: eqb_cases; key_cases; inj_all; simpl in *; eauto; try congruence; try tauto.
    all: fwd_maps HD; fwd_dials HD; split_or; fwd_same; fin2.
    all: try solve [apply (D8 _ HD); lia].
    all: try (f_equal; symmetry; eauto; fail).
    all: try match goal with
             | H : pc ?s ?j = SDial ?d |- _ =>
               let G := fresh "G" in let y := fresh "y" in
               pose proof (D4 _ HD j d) as G; rewrite H in G; simpl in G; destruct (G eq_refl) as (y & ? & ?); clear G
             end; spec_refl; fwd_same; fin2.
  - assert (Hck : forall c, ck s' c = ck s c) by (eapply ck_step; eauto; intros d0 p0 E; subst; discriminate).
    destruct a; try discriminate; clear Ea; inv_step H.
    all: destr_hyp_match; inj_all.
    all: try fwd_d HD; fwd_dials HD; dd HD; frames.
    all: constructor; unfold owner_free; intros; rewrite ?Hck in *; simp;
      repeat match goal with E : _ = _ :> (nat -> _) |- _ => rewrite E in * | E : _ = _ :> (key -> _) |- _ => rewrite E in * | E : _ = _ :> nat |- _ => rewrite E in * end.
    all: eqb_cases; key_cases; inj_all; simpl in *; eauto; try congruence; try tauto.
    all: fwd_maps HD; fwd_dials HD; split_or; fwd_same; fin2.
    all: try solve [apply (D8 _ HD); lia].
    all: spec_refl; fwd_same; fwd_imp; spec_refl;
      try (match goal with |- ck ?s ?c = Some _ => destruct (ck s c) eqn:?; [|congruence] end);
      spec_refl; fin2.
    all: inj_all; subst; simpl in *; spec_refl; fwd_imp; fin2.
    all: spec_refl; fwd_same; fwd_dials HD; fwd_imp; inj_all; subst; simpl in *; spec_refl;
      try (match goal with |- ck ?s ?c = Some _ => destruct (ck s c) eqn:?; [|congruence] end);
      try (match goal with H : ck ?s ?c = Some _ |- _ => rewrite H in * end);
      spec_refl; fwd_imp; fin2.
    all: try (match goal with H : context [after ?k] |- _ => destruct k; simpl in H end); try tauto;
      try match goal with
             | H : pc ?s ?j = SDial ?d |- _ =>
               lazymatch goal with
               | _ : d_key _ = okey s j |- _ => fail
               | _ => let G := fresh "G" in pose proof (D4 _ HD j d) as G; rewrite H in G; simpl in G; specialize (G eq_refl)
               end
             end; spec_refl; fwd_same; fin2.
    all: try (match goal with E : d_publish _ _ _ = ?y, N : d_phase ?y <> DReturned |- _ => rewrite <- E in N; simpl in N; congruence end).
Qed.
