(* C18: cancel_isolated at full strength on the repaired code: on EVERY accepted action list, every
   failure a subscriber observes (error return of Subscribe, connection-error callback) is its own
   context error or an upstream fault -- never another subscriber's cancel, another subscriber
   leaving, or another subscriber's ctx ending a dial or a frame write. *)
From Gv Require Import C18.Model C18.Spec C18.ProofsBasic C18.ProofsInv C18.ProofsKey C18.ProofsDrain C18.ProofsRouting.
From Coq Require Import List NArith Arith Bool Lia.
Import ListNotations.

Definition obs (idl : bool) (tr : list action) : option (list ev) := option_map snd (run (init idl) tr).

Lemma ev_isolated_b_sound : forall e, ev_isolated e -> ev_isolated_b e = true.
Proof.
  destruct e; simpl; auto. destruct r; auto.
  - destruct e; simpl; auto; try (intros ->; apply Nat.eqb_refl); try tauto;
      destruct c; simpl; auto; try tauto; intros ->; apply Nat.eqb_refl.
  - destruct c; simpl; auto; try tauto. intros ->. apply Nat.eqb_refl.
Qed.
Lemma isolated_log_b_sound : forall log, isolated_log log -> isolated_log_b log = true.
Proof.
  unfold isolated_log, isolated_log_b. induction 1; simpl; auto.
  rewrite ev_isolated_b_sound; auto.
Qed.

Definition up_err (e : err) : Prop := match e with EDial | EInit _ => True | _ => False end.
(* the outcome of i's own dial: an upstream fault, or i's own ctx (and then that ctx is done) *)
Definition own_or_up (s : st) (i : nat) (e : err) : Prop :=
  up_err e \/ ((exists b, e = ECtx i b) /\ ctxc s i = true).
Definition okcause (s : st) (c : nat) (x : conn) (z : cause) : Prop :=
  z = CUpstream \/ z = CPing \/ (z = CIdle /\ c_closed x = true /\ forall j w, pc s j <> SSend c w).

Record InvS (s : st) : Prop := {
  (* a published dial error that is not marked aborted is an upstream fault *)
  S1 : forall d y e, dials s d = Some y -> d_done y = Some (Some e) -> d_abort y = false -> up_err e;
  S1b : forall i d e, pc s i = SBook d (Some e) \/ pc s i = SPublish d (Some e) -> own_or_up s i e;
  (* a socket is dead because of the upstream / the ping loop, or it was closed EMPTY and nobody
     is left who could write on it *)
  S2 : forall c x z, cns s c = Some x -> c_dead x = Some z -> okcause s c x z;
  S3 : forall i c w e, pc s i = SRemove c w (KSendFail e) \/ pc s i = SClose c (KSendFail e) -> err_blame_ok i e
}.

Lemma invs_init : forall idl, InvS (init idl).
Proof. intros; constructor; simpl; intros; try discriminate; destruct H; discriminate. Qed.

Lemma up_err_blame : forall j e, up_err e -> err_blame_ok j e.
Proof. destruct e; simpl; tauto. Qed.
Lemma own_or_up_blame : forall s j e, own_or_up s j e -> err_blame_ok j e.
Proof. intros s j e [H|[[b ->] _]]; [apply up_err_blame; auto | reflexivity]. Qed.

Lemma okcause_blame : forall s c x z j, okcause s c x z -> (z = CIdle -> False) -> blame_ok j z.
Proof. intros s c x z j [->|[->|(-> & _)]] H; simpl; auto. Qed.

Lemma connerrs_isolated : forall (l : list (nat * nat)) cz, (forall j, blame_ok j cz) ->
  Forall ev_isolated (map (fun p => OConnErr (snd p) cz) l).
Proof. induction l; simpl; intros; constructor; simpl; auto. Qed.

Lemma kill_evs_isolated : forall c x, Forall ev_isolated (kill_evs c x).
Proof. intros. unfold kill_evs. destruct (c_dead x); repeat constructor. Qed.

Lemma shut_evs_isolated : forall s c cz s' evs, shut s c cz = (s', evs) ->
  (cz = CUpstream \/ cz = CPing \/ (forall x, cns s c = Some x -> c_closed x = true \/ c_subs x = [])) ->
  Forall ev_isolated evs.
Proof.
  intros s c cz s' evs H Hc. destruct (shut_cases _ _ _ _ _ H) as [(-> & -> & _)|(x & Ex & Ecl & -> & ->)]; [constructor|].
  apply Forall_app. split; [|apply kill_evs_isolated].
  destruct Hc as [->|[->|Hy]].
  - apply connerrs_isolated. intros; exact I.
  - apply connerrs_isolated. intros; exact I.
  - destruct (Hy _ Ex) as [Hy'|Hy']; [congruence|]. rewrite Hy'. constructor.
Qed.

Lemma close_if_empty_evs_isolated : forall s c s' evs, close_if_empty s c = (s', evs) -> Forall ev_isolated evs.
Proof.
  intros. destruct (close_if_empty_cases _ _ _ _ H) as [(_ & -> & _)|(x & _ & _ & _ & _ & -> & _)];
    [constructor | apply kill_evs_isolated].
Qed.

Lemma ret_evs_isolated : forall i k, (forall e, k = KSendFail e -> err_blame_ok i e) -> Forall ev_isolated (ret_evs i k).
Proof. intros i k H. destruct k; simpl; repeat constructor. simpl. auto. Qed.

(* every event of every step is isolated *)
Lemma evs_isolated_step : forall s a s' evs, Inv s -> InvS s -> step s a = Some (s', evs) -> Forall ev_isolated evs.
Proof.
  intros s a s' evs HI HS H.
  destruct a; inv_step H; repeat constructor; simpl; auto.
  all: try (eapply close_if_empty_evs_isolated; eauto; fail).
  - (* AWaitDone: a result that is not marked aborted *)
    apply up_err_blame. eapply (S1 _ HS); eauto.
  - (* APublish: the dialler's own outcome *)
    eapply own_or_up_blame. eapply (S1b _ HS). right. eauto.
  - (* AInsert: id exists -- impossible, ids are fresh *)
    apply lookup_In in Heqo0. pose proof (I1 _ HI _ _ _ _ Heqo Heqo0) as Hh. apply holds_held in Hh.
    pose proof (I5 _ HI _ _ Hh). lia.
  - (* ARemove *) apply ret_evs_isolated. intros e0 ->. apply (S3 _ HS i c w e0). auto.
  - (* AClose *)
    apply Forall_app. split.
    + eapply close_if_empty_evs_isolated; eauto.
    + apply ret_evs_isolated. intros e0 ->. apply (S3 _ HS i c 0 e0). auto.
  - (* ARLReadErr *)
    eapply shut_evs_isolated; eauto.
    destruct (S2 _ HS _ _ _ Heqo Heqo0) as [->|[->|(-> & Hcl & _)]]; auto.
    right; right. intros x Ex. rewrite Heqo in Ex; inversion Ex; subst. auto.
  - (* APingTimeout *) eapply shut_evs_isolated; eauto.
Qed.

Ltac ds HS :=
  pose proof (S1 _ HS) as Hs1; pose proof (S1b _ HS) as Hs1b; pose proof (S2 _ HS) as Hs2; pose proof (S3 _ HS) as Hs3.

(* the cause of death survives a step that keeps the closed flag and creates no SSend on c *)
Lemma okcause_keep : forall s s' c x x' z, okcause s c x z ->
  (c_closed x = true -> c_closed x' = true) ->
  (z = CIdle -> c_closed x = true -> forall j w, pc s' j = SSend c w -> exists j' w', pc s j' = SSend c w') ->
  okcause s' c x' z.
Proof.
  intros s s' c x x' z [->|[->|(-> & Hcl & Hj)]] H1 H2; unfold okcause; auto.
  right; right. repeat split; auto. intros j w Hp. destruct (H2 eq_refl Hcl _ _ Hp) as (j' & w' & Hp'). eapply Hj; eauto.
Qed.

Lemma own_or_up_mono : forall s s' i e, own_or_up s i e -> (ctxc s i = true -> ctxc s' i = true) -> own_or_up s' i e.
Proof. intros s s' i e [H|[H1 H2]] Hc; [left; auto | right; auto]. Qed.

Ltac inv_pcs :=
  repeat match goal with
         | H : SBook _ _ = _ |- _ => inversion H; subst; clear H
         | H : SPublish _ _ = _ |- _ => inversion H; subst; clear H
         | H : SRemove _ _ _ = _ |- _ => inversion H; subst; clear H
         | H : SClose _ _ = _ |- _ => inversion H; subst; clear H
         | H : SSend _ _ = _ |- _ => inversion H; subst; clear H
         | H : after _ = _ |- _ => unfold after in H
         | H : match ?k with KCancel => _ | KSendFail _ => _ end = _ |- _ => destruct k; try discriminate
         end.

(* a subscriber whose subscribe frame is pending is in the table of its (live) connection *)
Definition SendIn (s : st) : Prop :=
  forall i c w x, pc s i = SSend c w -> cns s c = Some x -> c_dead x = None -> In (w, i) (c_subs x).

Ltac okc Hs2 :=
  match goal with
  | |- okcause _ _ _ CUpstream => left; reflexivity
  | |- okcause _ _ _ CPing => right; left; reflexivity
  | |- okcause _ ?c _ ?z =>
    eapply okcause_keep; [eapply Hs2; eassumption | simpl; auto |
      intros _ Hclo j0 w0 Hp0; simpl in Hp0; unfold upd in Hp0;
      try (match type of Hp0 with context [Nat.eqb j0 ?i] => destruct (Nat.eqb_spec j0 i); subst end);
      try (match type of Hp0 with context [after ?k] => destruct k; simpl in Hp0 end);
      try discriminate; try congruence; eauto]
  end.

Lemma okcause_open : forall s s' c x x' z, okcause s c x z -> c_closed x = false -> okcause s' c x' z.
Proof. intros s s' c x x' z [->|[->|(-> & Hcl & _)]] H; unfold okcause; auto. congruence. Qed.

Lemma invs_step : forall s a s' e, Inv s -> InvD s -> NoConnYet s -> SendIn s -> InvS s ->
  step s a = Some (s', e) -> InvS s'.
Proof.
  intros s a s' e HI HD HN H6 HS H. ds HS.
  destruct a; inv_step H; expl.
  all: constructor; intros; simp; eqb_cases; inj_all; fwd_same;
       repeat (match goal with Er : removed_conn _ _ _ = _ |- _ => rewrite Er in *; clear Er end); simpl in *;
       eauto; try congruence; try (split_or; congruence).
  all: try (match goal with |- own_or_up _ _ _ => eapply own_or_up_mono; [eapply Hs1b; eassumption | simpl; unfold upd; intros; try (match goal with |- context [Nat.eqb ?a ?b] => destruct (Nat.eqb_spec a b) end); auto] end; fail).
  all: try (okc Hs2; fail).
  all: destr_hyp_match; inj_all; fwd_same; try congruence.
  all: try (split_or; eqb_cases; try discriminate; inj_all; inv_pcs; simpl; eauto 6; fail).
  all: try (okc Hs2; fail).
  all: try (match goal with
            | Hc : cns ?s ?c = Some ?x, Hd : c_dead ?x = Some ?z, Hcl : c_closed ?x = false |- okcause _ ?c _ ?z =>
              eapply okcause_open; [exact (Hs2 _ _ _ Hc Hd) | exact Hcl] end).
  all: try (match goal with
            | H : _ = _ \/ _ = _ |- own_or_up _ _ _ =>
              destruct H as [H|H]; inversion H; subst; clear H;
              first [ left; exact I | right; split; [eexists; reflexivity | simpl; auto] ] end).
  all: try (match goal with
            | Hc : cns ?s ?c = Some ?x, Hsub : c_subs ?x = [], Hd : c_dead ?x = None |- okcause _ ?c _ CIdle =>
              right; right; split; [reflexivity|]; split; [reflexivity|];
              intros j0 w0 Hp0; simpl in Hp0; unfold upd in Hp0;
              try (match type of Hp0 with context [Nat.eqb j0 ?i] => destruct (Nat.eqb_spec j0 i); subst end);
              try (match type of Hp0 with context [after ?k] => destruct k; simpl in Hp0 end);
              try discriminate;
              pose proof (H6 _ _ _ _ Hp0 Hc Hd) as Hin; rewrite Hsub in Hin; destruct Hin end).
  - (* APublish: not aborted, so the dialler's ctx was live: an upstream fault *)
    destruct (Hs1b i d e (or_intror Heqs0)) as [Hu|[_ Hc]]; [exact Hu | congruence].
  - (* ASend on a dead socket *)
    destruct H as [H|H]; inversion H; subst. simpl.
    destruct (Hs2 _ _ _ Heqo Heqo0) as [->|[->|(-> & _ & Hn)]]; simpl; auto.
    eapply Hn; eauto.
Qed.

Theorem cancel_isolated_proof : forall idl tr s log, run (init idl) tr = Some (s, log) -> isolated_log log.
Proof.
  intros idl tr s log H.
  assert (G : Good s /\ NoConnYet s /\ (exists r, scan rs0 log = Some r /\ Rel s r) /\ InvS s /\ isolated_log log).
  { revert H. apply (run_ind (fun s log => Good s /\ NoConnYet s /\ (exists r, scan rs0 log = Some r /\ Rel s r)
                                            /\ InvS s /\ isolated_log log) (init idl)).
    - split; [apply good_init|]. split; [apply noconn_init|].
      split; [exists rs0; split; [reflexivity | apply rel_init]|]. split; [apply invs_init | constructor].
    - intros s0 l0 a s1 e1 HH Hst. destruct HH as (HG & HN & (r0 & Hs & HR) & HS & HL). destruct HG as (HI & HD & HC).
      assert (HG1 : Good s1) by (apply (good_step s0 a s1 e1); [split; [|split]; assumption | exact Hst]).
      assert (HN1 : NoConnYet s1) by (eapply noconn_step; eauto).
      cbv beta. split; [exact HG1|]. split; [exact HN1|].
      destruct (rel_step _ _ _ _ _ HI HD HN HR Hst) as (r1 & E1 & HR1).
      split; [exists r1; split; auto; rewrite scan_app, Hs; exact E1|].
      split.
      + eapply invs_step; eauto. exact (R6 _ _ HR).
      + apply Forall_app. split; [exact HL | eapply evs_isolated_step; eauto]. }
  tauto.
Qed.

(* ---- the three schedules that refuted the statement on the code as found (ProofsV0.v), on the
   repaired code ---- *)
Definition K1 : key := (1, 1, [], 0)%N.

(* (a) the dialler 0 cancels while the protocol init is pending: the coalesced waiter 1 (live ctx,
   healthy upstream) dials again and subscribes *)
Definition tr_a : list action :=
  [ASub 0 K1; UpAccept 0; ASub 1 K1; ACtxCancel 0; ADialCtx 0; ABook 0; APublish 0; AWaitDone 1; ARetry 1;
   UpAccept 1; UpAck 1 PTws; ABook 1; APublish 1; AInsert 1; ASend 1].
Example repaired_a :
  exists log, obs false tr_a = Some log /\ In (ORet 0 (Some (ECtx 0 true))) log /\ In (OSrvDial 1 K1) log
              /\ In (ORet 1 None) log /\ isolated_log_b log = true.
Proof. eexists. split; [vm_compute; reflexivity|]. repeat split; simpl; tauto. Qed.

(* a waiter whose own ctx is done as well gets ITS OWN ctx error *)
Definition tr_a2 : list action :=
  [ASub 0 K1; UpAccept 0; ASub 1 K1; ACtxCancel 0; ADialCtx 0; ACtxCancel 1; ABook 0; APublish 0; AWaitDone 1].
Example repaired_a2 :
  exists log, obs false tr_a2 = Some log /\ In (ORet 1 (Some (ECtx 1 false))) log /\ isolated_log_b log = true.
Proof. eexists. split; [vm_compute; reflexivity|]. split; simpl; tauto. Qed.

(* (b) idle timer: subscriber 1 registers before the timer fires; the timer sees the table
   non-empty under the lock and leaves the connection open *)
Definition tr_b : list action :=
  [ASub 0 K1; UpAccept 0; UpAck 0 PTws; ABook 0; APublish 0; AInsert 0; ASend 0;
   ACtxCancel 0; AUnsub 0; AUnsubSend 0; ARemove 0;
   ASub 1 K1; AInsert 1; ASend 1; ATimerFire 0; UpMsg 0 (frame_of 1 (KData 5))].
(* IdleTimeout = 0: subscriber 1 obtained the connection, 0 leaves and closes it (the table is
   empty); 1 finds it closed, starts over and gets a fresh connection *)
Definition tr_b0 : list action :=
  [ASub 0 K1; UpAccept 0; UpAck 0 PTws; ABook 0; APublish 0; AInsert 0; ASend 0;
   ACtxCancel 0; AUnsub 0; AUnsubSend 0; ASub 1 K1; ARemove 0; AClose 0; AInsert 1; ARetry 1;
   UpAccept 1; UpAck 1 PTws; ABook 1; APublish 1; AInsert 1; ASend 1; ARemoveConn 0].
(* ... or 1 registers first: closeIfEmpty sees it and does nothing *)
Definition tr_b0' : list action :=
  [ASub 0 K1; UpAccept 0; UpAck 0 PTws; ABook 0; APublish 0; AInsert 0; ASend 0;
   ACtxCancel 0; AUnsub 0; AUnsubSend 0; ASub 1 K1; ARemove 0; AInsert 1; AClose 0; ASend 1; UpMsg 0 (frame_of 1 (KData 6))].
Example repaired_b :
  (exists log, obs true tr_b = Some log /\ In (ODeliver 1 (KData 5)) log /\ ~ In (OSrvClosed 0) log
               /\ isolated_log_b log = true)
  /\ (exists log, obs false tr_b0 = Some log /\ In (OSrvClosed 0) log /\ In (OSrvSub 1 2 1) log /\ In (ORet 1 None) log
                  /\ isolated_log_b log = true)
  /\ (exists log, obs false tr_b0' = Some log /\ In (ODeliver 1 (KData 6)) log /\ ~ In (OSrvClosed 0) log
                  /\ isolated_log_b log = true).
Proof.
  split; [|split]; eexists; (split; [vm_compute; reflexivity|]); repeat split; simpl; try tauto; intuition discriminate.
Qed.

(* (d) subscriber 1 subscribes with an already cancelled ctx on the connection shared with 0: it
   gets its own ctx error, the socket and subscriber 0 are untouched *)
Definition tr_d : list action :=
  [ASub 0 K1; UpAccept 0; UpAck 0 PTws; ABook 0; APublish 0; AInsert 0; ASend 0;
   ACtxCancel 1; ASub 1 K1; AInsert 1; ASend 1; ARemove 1; UpMsg 0 (frame_of 0 (KData 7))].
Example repaired_d :
  exists log, obs false tr_d = Some log /\ In (ORet 1 (Some (ECtx 1 false))) log /\ In (ODeliver 0 (KData 7)) log
              /\ ~ In (OSrvClosed 0) log /\ isolated_log_b log = true.
Proof.
  eexists. split; [vm_compute; reflexivity|]. repeat split; simpl; try tauto; intuition discriminate.
Qed.

(* conns map hygiene (NOT part of the property): a connection dropped by the upstream between the
   dial's return and the dialler's bookkeeping leaves a closed entry in WSTransport.conns; the
   subscriber that finds it closed starts over (getOrDial skips closed entries) *)
Definition tr_stale : list action :=
  [ASub 0 K1; UpAccept 0; UpAck 0 PTws; UpDrop 0; ARLReadErr 0; ARemoveConn 0; ABook 0; APublish 0; AInsert 0].
Example stale_conns_entry :
  exists s log, run (init false) tr_stale = Some (s, log) /\ conns s K1 = Some 0
                /\ (exists x, cns s 0 = Some x /\ c_closed x = true) /\ pc s 0 = SRetry.
Proof.
  eexists. eexists. split; [vm_compute; reflexivity|]. split; [reflexivity|].
  split; [eexists; split; reflexivity | reflexivity].
Qed.

Lemma repaired_witnesses :
  (exists log, obs false tr_a = Some log /\ In (ORet 0 (Some (ECtx 0 true))) log
               /\ In (OSrvDial 1 K1) log /\ In (ORet 1 None) log /\ isolated_log_b log = true)
  /\ (exists log, obs true tr_b = Some log /\ In (ODeliver 1 (KData 5)) log /\ ~ In (OSrvClosed 0) log
                  /\ isolated_log_b log = true)
  /\ (exists log, obs false tr_b0 = Some log /\ In (OSrvClosed 0) log /\ In (OSrvSub 1 2 1) log
                  /\ In (ORet 1 None) log /\ isolated_log_b log = true)
  /\ (exists log, obs false tr_d = Some log /\ In (ORet 1 (Some (ECtx 1 false))) log
                  /\ In (ODeliver 0 (KData 7)) log /\ ~ In (OSrvClosed 0) log /\ isolated_log_b log = true).
Proof.
  split; [exact repaired_a|]. destruct repaired_b as (Hb & Hb0 & _). split; [exact Hb|]. split; [exact Hb0 | exact repaired_d].
Qed.
