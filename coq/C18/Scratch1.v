From Gv Require Import C18.Model C18.Spec.
From Coq Require Import List NArith.
Import ListNotations.
Definition K : key := (1,0,0,0)%N.
Definition obs tr idl := match run (init idl) tr with Some (_, l) => Some l | None => None end.
(* (a) *)
Definition tr_a := [ASub 0 K; UpAccept 0; ASub 1 K; ACtxCancel 0; ADialCtx 0; APublish 0; AWaitDone 1; ABook 0].
Eval vm_compute in obs tr_a false.
(* (b) idle>0 *)
Definition tr_b := [ASub 0 K; UpAccept 0; UpAck 0; APublish 0; ABook 0; AInsert 0; ASend 0; ACtxCancel 0; AUnsub 0; AUnsubSend 0; ARemove 0;
   ATimerFire 0; ASub 1 K; AInsert 1; ASend 1; ATimerClose 0].
Eval vm_compute in obs tr_b true.
(* (d) *)
Definition tr_d := [ASub 0 K; UpAccept 0; UpAck 0; APublish 0; ABook 0; AInsert 0; ASend 0; ACtxCancel 1; ASub 1 K; AInsert 1; ASendCtx 1 true false; ARLReadErr 0].
Eval vm_compute in obs tr_d false.
Eval vm_compute in option_map routing_b (obs tr_b true).
Eval vm_compute in option_map isolated_log_b (obs tr_b true).
Eval vm_compute in option_map (isolated_b [(0,K);(1,K)]) (obs tr_a false).
Eval vm_compute in option_map (isolated_b [(0,K);(1,K)]) (obs tr_b true).
Eval vm_compute in option_map (isolated_b [(0,K);(1,K)]) (obs tr_d false).
Definition tr_ok := [ASub 0 K; UpAccept 0; ASub 1 K; UpAck 0; APublish 0; AWaitDone 1; ABook 0; AInsert 0; AInsert 1; ASend 1; ASend 0;
  UpMsg 0 1 (KData 7); UpMsg 0 0 (KData 8); UpMsg 0 0 KComplete; ARLRemove 0; UpMsg 0 1 (KData 9); UpMsg 0 0 (KData 3)].
Eval vm_compute in obs tr_ok false.
Eval vm_compute in option_map routing_b (obs tr_ok false).
Eval vm_compute in option_map drain_b (obs tr_ok false).
