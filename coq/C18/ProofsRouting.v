(* C18: routing -- the log of every accepted action list passes the routing scanner. *)
From Gv Require Import C18.Model C18.Spec C18.ProofsBasic C18.ProofsInv C18.ProofsKey C18.ProofsDrain.
From Coq Require Import List NArith Arith Bool Lia.
Import ListNotations.

Definition soft (r : rs) : Prop := match r_exp r with Some (_, _, true, _, _) => False | _ => True end.
Definition clr (r : rs) : rs := set_exp r None.

Record Rel (s : st) (r : rs) : Prop := {
  R_soft : soft r;
  R1 : forall c w i, In (c, w, i) (r_reg r) ->
       exists x, cns s c = Some x /\ c_dead x = None /\ In (w, i) (seen s)
                 /\ (In i (r_canc r) \/ In (w, i) (c_subs x));
  R2 : forall i, ctxc s i = true -> In i (r_canc r);
  R3 : forall w, In w (r_used r) <-> In w (map fst (seen s));
  R4 : forall c x w i, cns s c = Some x -> In (w, i) (c_subs x) -> In w (map fst (seen s)) ->
       c_dead x = None -> c_rl x <> RLRemove w -> In (c, w, i) (r_reg r);
  R5 : forall c x w i, cns s c = Some x -> c_rl x = RLRemove w -> ~ In (c, w, i) (r_reg r);
  R6 : forall i c w x, pc s i = SSend c w -> cns s c = Some x -> c_dead x = None -> In (w, i) (c_subs x);
  R7 : forall c x w, cns s c = Some x -> c_rl x = RLRemove w -> In w (map fst (seen s))
}.

Lemma rel_init : forall idl, Rel (init idl) rs0.
Proof. intros; constructor; simpl; unfold soft; simpl; intros; try tauto; try discriminate. Qed.

Lemma rel_clr : forall s r, Rel s r -> Rel s (clr r).
Proof. intros s r H. destruct H. constructor; unfold soft; simpl; auto. Qed.

Lemma scan_app : forall l1 l2 r, scan r (l1 ++ l2) = match scan r l1 with Some r' => scan r' l2 | None => None end.
Proof. induction l1; simpl; intros; auto. destruct (scan1 r a); auto. Qed.

Definition not_deliver (e : ev) : Prop := match e with ODeliver _ _ => False | _ => True end.

Lemma scan1_soft : forall r e, soft r -> not_deliver e -> scan1 r e = scan_plain (clr r) e.
Proof.
  intros r e Hs He. unfold scan1, soft in *. destruct (r_exp r) as [[[[[i k] must] c] w]|] eqn:E.
  - destruct must; [tauto|]. destruct e; simpl in *; try tauto; reflexivity.
  - destruct r; simpl in *; subst; destruct e; simpl in *; try tauto; reflexivity.
Qed.

Lemma find_reg_In : forall c w l i, find_reg c w l = Some i -> In (c, w, i) l.
Proof.
  induction l as [|[[c' w'] j] l IH]; simpl; intros; [discriminate|].
  destruct (Nat.eqb_spec c' c); destruct (Nat.eqb_spec w' w); simpl in *; subst; auto.
  inversion H; subst; auto.
Qed.
Lemma find_reg_None : forall c w l, find_reg c w l = None -> forall i, ~ In (c, w, i) l.
Proof.
  induction l as [|[[c' w'] j] l IH]; simpl; intros; [tauto|].
  destruct (Nat.eqb_spec c' c); destruct (Nat.eqb_spec w' w); simpl in *; subst; try discriminate;
    intros [E|E]; try (inversion E; subst; congruence); eapply IH; eauto.
Qed.
Lemma drop_c_In : forall c0 c w i l, In (c, w, i) (drop_c c0 l) <-> In (c, w, i) l /\ c <> c0.
Proof.
  intros. unfold drop_c. rewrite filter_In. split; intros [G1 G2]; split; auto.
  - destruct (Nat.eqb_spec c c0); simpl in *; congruence.
  - destruct (Nat.eqb_spec c c0); simpl in *; congruence.
Qed.
Lemma drop_cw_In : forall c0 w0 c w i l, In (c, w, i) (drop_cw c0 w0 l) <-> In (c, w, i) l /\ ~ (c = c0 /\ w = w0).
Proof.
  intros. unfold drop_cw. rewrite filter_In. split; intros [G1 G2]; split; auto.
  - destruct (Nat.eqb_spec c c0); destruct (Nat.eqb_spec w w0); simpl in *; try discriminate; tauto.
  - destruct (Nat.eqb_spec c c0); destruct (Nat.eqb_spec w w0); simpl in *; auto; tauto.
Qed.

(* events that do not concern the routing scanner *)
Definition quiet (e : ev) : Prop :=
  match e with
  | ODeliver _ _ | OUp _ _ _ | OSrvSub _ _ _ | OCancel _ | OSrvClosed _ => False
  | _ => True
  end.
Lemma scan_quiet : forall l r, soft r -> Forall quiet l -> exists r', scan r l = Some r' /\ (r' = r \/ r' = clr r).
Proof.
  induction l as [|e l IH]; simpl; intros r Hs Hq; [eauto|].
  inversion Hq; subst. rewrite scan1_soft by (auto; destruct e; simpl in *; tauto).
  assert (E : scan_plain (clr r) e = Some (clr r)) by (destruct e; simpl in *; tauto || reflexivity).
  rewrite E. destruct (IH (clr r)) as [r' [G1 G2]]; auto; [unfold soft; simpl; auto|].
  exists r'. split; auto. right. destruct G2 as [->| ->]; reflexivity.
Qed.

(* state-only side invariant: a dial that has not returned has no connection yet *)
Definition NoConnYet (s : st) : Prop :=
  forall d y, dials s d = Some y -> d_phase y <> DReturned -> cns s d = None.

Lemma noconn_init : forall idl, NoConnYet (init idl).
Proof. unfold NoConnYet; simpl; intros; discriminate. Qed.

Lemma noconn_step : forall s a s' e, InvD s -> NoConnYet s -> step s a = Some (s', e) -> NoConnYet s'.
Proof.
  intros s a s' e HD HN H. unfold NoConnYet in *.
  destruct a; inv_step H; expl; intros; simp; eqb_cases; inj_all; simpl in *; eauto; try congruence.
  all: try (match goal with Hd : dials _ ?d = Some ?y, Hp : d_phase ?y <> DReturned |- _ => pose proof (HN _ _ Hd Hp) end); try congruence.
  all: try (destruct (D8 _ HD (next_c s) (le_n _)) as [E _]; unfold ck in E; destruct (cns s (next_c s)); [discriminate|reflexivity]).
  eapply HN; eauto. congruence.
Qed.

Ltac drel HR :=
  pose proof (R_soft _ _ HR) as Hsoft; pose proof (R1 _ _ HR) as Hr1; pose proof (R2 _ _ HR) as Hr2;
  pose proof (R3 _ _ HR) as Hr3; pose proof (R4 _ _ HR) as Hr4; pose proof (R5 _ _ HR) as Hr5;
  pose proof (R6 _ _ HR) as Hr6; pose proof (R7 _ _ HR) as Hr7.

Ltac use_r1 :=
  match goal with
  | Hr1 : (forall c w i, In (c, w, i) (r_reg ?r) -> _), H : In (?c, ?w, ?i) (r_reg ?r) |- _ =>
    let x := fresh "x" in destruct (Hr1 _ _ _ H) as (x & ?Hx & ?Hdd & ?Hsn & ?Hor)
  end.

Definition quiet_action (a : action) : bool :=
  match a with
  | ASub _ _ | AWaitDone _ | AWaitCtx _ | APublish _ | ABook _ | AInsert _ | AUnsub _ | AUnsubSend _
  | ARemove _ | ARLRemove _ | ATimerFire _ | ARemoveConn _ | UpAccept _ | UpReject _ | UpAck _
  | SseSub _ | SseOk _ | SseFail _ | SseMsg _ _ | SseDrop _ => true
  | _ => false
  end.

Lemma quiet_events : forall s a s' e, quiet_action a = true -> step s a = Some (s', e) -> Forall quiet e.
Proof.
  intros s a s' e Hq H. destruct a; try discriminate; inv_step H; repeat constructor; simpl; auto;
    try (destruct k; simpl; repeat constructor; simpl; auto).
Qed.

Lemma rel_quiet_step : forall s a s' e r, Inv s -> InvD s -> NoConnYet s -> Rel s r -> quiet_action a = true ->
  step s a = Some (s', e) -> Rel s' r.
Proof.
  intros s a s' e r HI HD HN HR Hq H. drel HR.
  destruct a; try discriminate; clear Hq; inv_step H; expl.
  all: try fwd_actor HI.
  all: constructor; auto; intros; simp.
  all: try use_r1.
  all: eqb_cases; inj_all; fwd_same;
       repeat (match goal with Er : removed_conn _ _ _ = _ |- _ => rewrite Er in *; clear Er end); simpl in *.
  all: try solve [eauto | congruence | eexists; repeat split; eauto].
  all: idtac "LEFT".
  Show.
  all: admit.
Admitted.
