(* C18: routing -- the log of every accepted action list passes the routing scanner. *)
From Gv Require Import C18.Model C18.Spec C18.ProofsBasic C18.ProofsInv C18.ProofsKey C18.ProofsDrain.
From Coq Require Import List NArith Arith Bool Lia.
Import ListNotations.

Definition soft (r : rs) : Prop := match r_exp r with Some (_, _, true, _, _) => False | _ => True end.
Definition clr (r : rs) : rs := set_exp r None.

Record Rel (s : st) (r : rs) : Prop := {
  R_soft : soft r;
  R1 : forall c w i, In (c, w, i) (r_reg r) ->
       exists x, cns s c = Some x /\ c_dead x = None /\ In (w, i) (seen s)
                 /\ (In i (r_canc r) \/ In (w, i) (c_subs x));
  R2 : forall i, ctxc s i = true -> In i (r_canc r);
  R3 : forall w, In w (r_used r) <-> In w (map fst (seen s));
  R4 : forall c x w i, cns s c = Some x -> In (w, i) (c_subs x) -> In w (map fst (seen s)) ->
       c_dead x = None -> c_rl x <> RLRemove w -> In (c, w, i) (r_reg r);
  R5 : forall c x w i, cns s c = Some x -> c_rl x = RLRemove w -> ~ In (c, w, i) (r_reg r);
  R6 : forall i c w x, pc s i = SSend c w -> cns s c = Some x -> c_dead x = None -> In (w, i) (c_subs x);
  R7 : forall c x w, cns s c = Some x -> c_rl x = RLRemove w -> In w (map fst (seen s))
}.

Lemma rel_init : forall idl, Rel (init idl) rs0.
Proof. intros; constructor; simpl; unfold soft; simpl; intros; try tauto; try discriminate. Qed.

Lemma rel_clr : forall s r, Rel s r -> Rel s (clr r).
Proof. intros s r H. destruct H. constructor; unfold soft; simpl; auto. Qed.

Lemma scan_app : forall l1 l2 r, scan r (l1 ++ l2) = match scan r l1 with Some r' => scan r' l2 | None => None end.
Proof. induction l1; simpl; intros; auto. destruct (scan1 r a); auto. Qed.

Definition not_deliver (e : ev) : Prop := match e with ODeliver _ _ => False | _ => True end.

Lemma scan1_soft : forall r e, soft r -> not_deliver e -> scan1 r e = scan_plain (clr r) e.
Proof.
  intros r e Hs He. unfold scan1, soft in *. destruct (r_exp r) as [[[[[i k] must] c] w]|] eqn:E.
  - destruct must; [tauto|]. destruct e; simpl in *; try tauto; reflexivity.
  - destruct r; simpl in *; subst; destruct e; simpl in *; try tauto; reflexivity.
Qed.

Lemma find_reg_In : forall c w l i, find_reg c w l = Some i -> In (c, w, i) l.
Proof.
  induction l as [|[[c' w'] j] l IH]; simpl; intros; [discriminate|].
  destruct (Nat.eqb_spec c' c); destruct (Nat.eqb_spec w' w); simpl in *; subst; auto.
  inversion H; subst; auto.
Qed.
Lemma find_reg_None : forall c w l, find_reg c w l = None -> forall i, ~ In (c, w, i) l.
Proof.
  induction l as [|[[c' w'] j] l IH]; simpl; intros; [tauto|].
  destruct (Nat.eqb_spec c' c); destruct (Nat.eqb_spec w' w); simpl in *; subst; try discriminate;
    intros [E|E]; try (inversion E; subst; congruence); eapply IH; eauto.
Qed.
Lemma drop_c_In : forall c0 c w i l, In (c, w, i) (drop_c c0 l) <-> In (c, w, i) l /\ c <> c0.
Proof.
  intros. unfold drop_c. rewrite filter_In. split; intros [G1 G2]; split; auto.
  - destruct (Nat.eqb_spec c c0); simpl in *; congruence.
  - destruct (Nat.eqb_spec c c0); simpl in *; congruence.
Qed.
Lemma drop_cw_In : forall c0 w0 c w i l, In (c, w, i) (drop_cw c0 w0 l) <-> In (c, w, i) l /\ ~ (c = c0 /\ w = w0).
Proof.
  intros. unfold drop_cw. rewrite filter_In. split; intros [G1 G2]; split; auto.
  - destruct (Nat.eqb_spec c c0); destruct (Nat.eqb_spec w w0); simpl in *; try discriminate; tauto.
  - destruct (Nat.eqb_spec c c0); destruct (Nat.eqb_spec w w0); simpl in *; auto; tauto.
Qed.

(* events that do not concern the routing scanner *)
Definition quiet (e : ev) : Prop :=
  match e with
  | ODeliver _ _ | OUp _ _ _ | OSrvSub _ _ _ | OCancel _ | OSrvClosed _ => False
  | _ => True
  end.
Lemma scan_quiet : forall l r, soft r -> Forall quiet l -> exists r', scan r l = Some r' /\ (r' = r \/ r' = clr r).
Proof.
  induction l as [|e l IH]; simpl; intros r Hs Hq; [eauto|].
  inversion Hq; subst. rewrite scan1_soft by (auto; destruct e; simpl in *; tauto).
  assert (E : scan_plain (clr r) e = Some (clr r)) by (destruct e; simpl in *; tauto || reflexivity).
  rewrite E. destruct (IH (clr r)) as [r' [G1 G2]]; auto; [unfold soft; simpl; auto|].
  exists r'. split; auto. right. destruct G2 as [->| ->]; reflexivity.
Qed.

(* state-only side invariant: a dial that has not returned has no connection yet *)
Definition NoConnYet (s : st) : Prop :=
  forall d y, dials s d = Some y -> d_phase y <> DReturned -> cns s d = None.

Lemma noconn_init : forall idl, NoConnYet (init idl).
Proof. unfold NoConnYet; simpl; intros; discriminate. Qed.

Lemma noconn_step : forall s a s' e, InvD s -> NoConnYet s -> step s a = Some (s', e) -> NoConnYet s'.
Proof.
  intros s a s' e HD HN H. unfold NoConnYet in *.
  destruct a; inv_step H; expl; intros; simp; eqb_cases; inj_all; simpl in *; eauto; try congruence.
  all: try (match goal with Hd : dials _ ?d = Some ?y, Hp : d_phase ?y <> DReturned |- _ => pose proof (HN _ _ Hd Hp) end); try congruence.
  all: try (destruct (D8 _ HD (next_c s) (le_n _)) as [E _]; unfold ck in E; destruct (cns s (next_c s)); [discriminate|reflexivity]).
  eapply HN; eauto. congruence.
Qed.

Ltac drel HR :=
  pose proof (R_soft _ _ HR) as Hsoft; pose proof (R1 _ _ HR) as Hr1; pose proof (R2 _ _ HR) as Hr2;
  pose proof (R3 _ _ HR) as Hr3; pose proof (R4 _ _ HR) as Hr4; pose proof (R5 _ _ HR) as Hr5;
  pose proof (R6 _ _ HR) as Hr6; pose proof (R7 _ _ HR) as Hr7.

Ltac use_r1 HR :=
  match goal with
  | H : In (?c, ?w, ?i) (r_reg _) |- _ =>
    let x := fresh "x" in destruct (R1 _ _ HR _ _ _ H) as (x & ?Hx & ?Hdd & ?Hsn & ?Hor)
  end.

Definition quiet_action (a : action) : bool :=
  match a with
  | ASub _ _ | ARetry _ | AWaitDone _ | AWaitCtx _ | APublish _ | ABook _ | AInsert _ | AUnsub _ | AUnsubSend _
  | ARemove _ | ARLRemove _ | ARemoveConn _ | UpAccept _ | UpReject _ | UpAck _ _
  | SseSub _ | SseOk _ | SseFail _ | SseMsg _ _ | SseDrop _ => true
  | _ => false
  end.

Lemma quiet_events : forall s a s' e, quiet_action a = true -> step s a = Some (s', e) -> Forall quiet e.
Proof.
  intros s a s' e Hq H. destruct a; try discriminate; inv_step H; repeat constructor; simpl; auto;
    try (destruct k; simpl; repeat constructor; simpl; auto).
Qed.

Lemma seen_fst : forall s w i, In (w, i) (seen s) -> In w (map fst (seen s)).
Proof. intros. change w with (fst (w, i)). apply in_map; auto. Qed.

Lemma rel_insert : forall s i r s' e, Inv s -> Rel s r -> step s (AInsert i) = Some (s', e) -> Rel s' r.
Proof.
  intros s i r s' e HI HR H. drel HR. inv_step H.
  1-2: (* closed / id exists *) constructor; auto; intros; simp; eqb_cases; inj_all; try congruence; eauto.
  - (* inserted *)
    rename c0 into xa. constructor; auto; simp.
    + intros cc ww ii Hin. destruct (Hr1 _ _ _ Hin) as (x & Hx & Hdd & Hsn & Hor). unfold upd.
      destruct (Nat.eqb_spec cc c); subst.
      * rewrite Heqo in Hx; inversion Hx; subst. eexists; split; [reflexivity|]. simpl. repeat split; auto.
        destruct Hor; auto.
      * eexists; repeat split; eauto.
    + intros cc x ww ii Hc Hin Hs Hd Hrl. unfold upd in Hc. destruct (Nat.eqb_spec cc c); subst; [|eauto].
      inversion Hc; subst; clear Hc. simpl in *. destruct Hin as [E|Hin].
      * inversion E; subst. apply in_map_iff in Hs. destruct Hs as [[w' j] [E1 E2]]. simpl in E1; subst.
        pose proof (I3 _ HI _ _ E2). lia.
      * eauto.
    + intros cc x ww ii Hc Hrl. unfold upd in Hc. destruct (Nat.eqb_spec cc c); subst; [|eauto].
      inversion Hc; subst; clear Hc. simpl in *. eauto.
    + intros ii cc ww x Hp Hc Hd. unfold upd in *. destruct (Nat.eqb_spec ii i); subst.
      * inversion Hp; subst. rewrite Nat.eqb_refl in Hc. inversion Hc; subst. simpl. auto.
      * destruct (Nat.eqb_spec cc c); subst.
        -- inversion Hc; subst. simpl in *. right. eauto.
        -- eauto.
    + intros cc x ww Hc Hrl. unfold upd in Hc. destruct (Nat.eqb_spec cc c); subst; [|eauto].
      inversion Hc; subst; clear Hc. simpl in *. eauto.
Qed.

(* shrinking the table of c by one id whose registration (if any) is cancelled / unsent *)
Lemma rel_remove_entry : forall s r c x w x', Inv s -> Rel s r -> cns s c = Some x ->
  c_subs x' = remove_w w (c_subs x) -> c_dead x' = c_dead x ->
  (forall w', c_rl x' = RLRemove w' -> c_rl x = RLRemove w') ->
  (forall w', c_rl x = RLRemove w' -> w' <> w -> c_rl x' = RLRemove w') ->
  (forall i, In (c, w, i) (r_reg r) -> In i (r_canc r)) ->
  (forall j, pc s j <> SSend c w) ->
  Rel (set_cn s c x') r.
Proof.
  intros s r c x w x' HI HR Hc Hs Hd Hrl1 Hrl2 Hcan Hns. drel HR. constructor; auto; simp.
  - intros cc ww ii Hin. destruct (Hr1 _ _ _ Hin) as (y & Hy & Hdd & Hsn & Hor). unfold upd.
    destruct (Nat.eqb_spec cc c); subst.
    + rewrite Hc in Hy; inversion Hy; subst. eexists; split; [reflexivity|]. rewrite Hd, Hs. repeat split; auto.
      destruct Hor as [|Hor]; auto. destruct (Nat.eq_dec ww w); subst; [left; eauto|].
      right. apply remove_w_In. auto.
    + eexists; repeat split; eauto.
  - intros cc y ww ii Hy Hin Hsn Hdd Hr. unfold upd in Hy. destruct (Nat.eqb_spec cc c); subst; [|eauto].
    inversion Hy; subst; clear Hy. rewrite Hs in Hin. apply remove_w_In in Hin. destruct Hin.
    eapply Hr4; eauto; try congruence.
  - intros cc y ww ii Hy Hr. unfold upd in Hy. destruct (Nat.eqb_spec cc c); subst; [|eauto].
    inversion Hy; subst; clear Hy. eapply Hr5; eauto.
  - intros j cc ww y Hp Hy Hdd. unfold upd in Hy. destruct (Nat.eqb_spec cc c); subst; [|eauto].
    inversion Hy; subst; clear Hy. rewrite Hs. apply remove_w_In. split.
    + eapply Hr6; eauto. congruence.
    + intro; subst. eapply Hns; eauto.
  - intros cc y ww Hy Hr. unfold upd in Hy. destruct (Nat.eqb_spec cc c); subst; [|eauto].
    inversion Hy; subst; clear Hy. eapply Hr7; eauto.
Qed.

(* a subscriber's program point changes, not to / from SSend *)
Lemma rel_set_pc : forall s r i p, Rel s r -> (forall c w, p <> SSend c w) -> Rel (set_pc s i p) r.
Proof.
  intros s r i p HR Hp. drel HR. constructor; auto; simp.
  intros j cc ww y Hj. unfold upd in Hj. destruct (Nat.eqb_spec j i); subst; [exfalso; eapply Hp; eauto | eauto].
Qed.

Lemma rel_remove : forall s i r s' e, Inv s -> Rel s r -> step s (ARemove i) = Some (s', e) -> Rel s' r.
Proof.
  intros s i r s' e HI HR H. inv_step H;
    (destruct (remove_sub_cases _ _ _ _ _ Heqo) as (x & Ex & -> & _);
     apply rel_set_pc; [|destruct k; simpl; discriminate || (intros; discriminate)];
     eapply rel_remove_entry; eauto;
     [apply removed_subs
     |unfold removed_conn; simpl; destruct (is_nil _); [destruct (idle s)|]; reflexivity
     |unfold removed_conn; simpl; destruct (is_nil _); [destruct (idle s)|]; simpl; auto
     |unfold removed_conn; simpl; destruct (is_nil _); [destruct (idle s)|]; simpl; auto
     | |]).
  all: try (intros j Hj; assert (j = i) by (eapply (I10 _ HI); [rewrite Hj|rewrite Heqs0]; reflexivity); subst; congruence).
  all: intros i0 Hin; destruct (R1 _ _ HR _ _ _ Hin) as (y & Hy & Hdd & Hsn & Hor);
    destruct k as [|er];
    [ assert (In (w, i) (seen s)) by (apply (I6 _ HI); rewrite Heqs0; reflexivity);
      assert (i0 = i) by (eapply (I4 _ HI); eauto); subst;
      apply (R2 _ _ HR); apply (I7 _ HI); rewrite Heqs0; exact I
    | exfalso; eapply (I5b _ HI i w); [rewrite Heqs0; reflexivity | eapply seen_fst; eauto] ].
Qed.

Lemma rel_ext : forall s s' r, Rel s r -> (forall c, cns s' c = cns s c) -> (forall i, pc s' i = pc s i) ->
  (forall i, ctxc s' i = ctxc s i) -> seen s' = seen s -> Rel s' r.
Proof.
  intros s s' r HR Ec Ep Ex Es. drel HR. constructor; auto; intros; rewrite ?Ec, ?Ep, ?Ex, ?Es in *; eauto.
Qed.

Lemma rel_rlremove : forall s c r s' e, Inv s -> Rel s r -> step s (ARLRemove c) = Some (s', e) -> Rel s' r.
Proof.
  intros s c r s' e HI HR H. simpl in H.
  destruct (cns s c) as [x0|] eqn:Heqo; [|discriminate].
  destruct (c_rl x0) eqn:Heqr; try discriminate.
  destruct (remove_sub s c w) as [[s1 b]|] eqn:Heqo0; [|discriminate].
  destruct (remove_sub_cases _ _ _ _ _ Heqo0) as (x & Ex & -> & _).
  rewrite Heqo in Ex; inversion Ex; subst x; clear Ex.
  simpl in H. rewrite upd_same in H. inversion H; subst; clear H.
  eapply (rel_ext (set_cn s c (c_set_rl (removed_conn s x0 w) (if b then RLClose else RLRun)))).
  - eapply rel_remove_entry; eauto.
    + simpl. apply removed_subs.
    + simpl. unfold removed_conn; simpl; destruct (is_nil _); [destruct (idle s)|]; reflexivity.
    + simpl. destruct b; discriminate.
    + intros w' E Hne. congruence.
    + intros i Hin. exfalso. eapply (R5 _ _ HR); eauto.
    + intros j Hj. pose proof (R7 _ _ HR _ _ _ Heqo Heqr) as Hs.
      eapply (I5b _ HI j w); [rewrite Hj; reflexivity | exact Hs].
  - intros cc. simpl. unfold upd. destruct (Nat.eqb_spec cc c); reflexivity.
  - reflexivity.
  - reflexivity.
  - reflexivity.
Qed.

Lemma rel_upack : forall s d p r s' e, InvD s -> NoConnYet s -> Rel s r -> step s (UpAck d p) = Some (s', e) -> Rel s' r.
Proof.
  intros s d p r s' e HD HN HR H. inv_step H.
  assert (Hn : cns s d = None) by (eapply HN; eauto; congruence).
  apply rel_set_pc; [|intros; discriminate].
  drel HR. constructor; auto; simp.
  - intros cc ww ii Hin. destruct (Hr1 _ _ _ Hin) as (y & Hy & Hdd & Hsn & Hor). unfold upd.
    destruct (Nat.eqb_spec cc d); subst; [congruence|]. eexists; repeat split; eauto.
  - intros cc y ww ii Hy. unfold upd in Hy. destruct (Nat.eqb_spec cc d); subst; [|eauto].
    inversion Hy; subst. simpl. tauto.
  - intros cc y ww ii Hy. unfold upd in Hy. destruct (Nat.eqb_spec cc d); subst; [|eauto].
    inversion Hy; subst. simpl. discriminate.
  - intros j cc ww y Hp Hy. unfold upd in Hy. destruct (Nat.eqb_spec cc d); subst; [|eauto].
    exfalso. assert (Hc : connP (pc s j) d) by (rewrite Hp; reflexivity).
    pose proof (D5 _ HD _ _ Hc) as Hk. unfold ck in Hk. rewrite Hn in Hk. discriminate.
  - intros cc y ww Hy. unfold upd in Hy. destruct (Nat.eqb_spec cc d); subst; [|eauto].
    inversion Hy; subst. simpl. discriminate.
Qed.

Lemma rel_set_cn_same : forall s r c x x', Rel s r -> cns s c = Some x ->
  c_subs x' = c_subs x -> c_dead x' = c_dead x -> c_rl x' = c_rl x -> Rel (set_cn s c x') r.
Proof.
  intros s r c x x' HR Hc Es Ed Er. drel HR. constructor; auto; simp.
  - intros cc ww ii Hin. destruct (Hr1 _ _ _ Hin) as (y & Hy & Hdd & Hsn & Hor). unfold upd.
    destruct (Nat.eqb_spec cc c); subst.
    + rewrite Hc in Hy; inversion Hy; subst. eexists; split; [reflexivity|]. rewrite Ed, Es. auto.
    + eexists; repeat split; eauto.
  - intros cc y ww ii Hy. unfold upd in Hy. destruct (Nat.eqb_spec cc c); subst; [|eauto].
    inversion Hy; subst. rewrite Es, Ed, Er. eauto.
  - intros cc y ww ii Hy. unfold upd in Hy. destruct (Nat.eqb_spec cc c); subst; [|eauto].
    inversion Hy; subst. rewrite Er. eauto.
  - intros j cc ww y Hp Hy. unfold upd in Hy. destruct (Nat.eqb_spec cc c); subst; [|eauto].
    inversion Hy; subst. rewrite Es, Ed. eauto.
  - intros cc y ww Hy. unfold upd in Hy. destruct (Nat.eqb_spec cc c); subst; [|eauto].
    inversion Hy; subst. rewrite Er. eauto.
Qed.

Lemma rel_quiet_step : forall s a s' e r, Inv s -> InvD s -> NoConnYet s -> Rel s r -> quiet_action a = true ->
  step s a = Some (s', e) -> Rel s' r.
Proof.
  intros s a s' e r HI HD HN HR Hq H.
  destruct a; try discriminate; clear Hq;
    try (eapply rel_insert; eauto; fail); try (eapply rel_remove; eauto; fail);
    try (eapply rel_rlremove; eauto; fail); try (eapply rel_upack; eauto; fail).
  all: inv_step H.
  all: try (apply rel_set_pc; [|intros; discriminate]).
  all: try (eapply rel_ext; eauto; reflexivity).
  all: try (eapply rel_set_cn_same; eauto; reflexivity).
  - (* ASub, becoming the dialler *)
    eapply (rel_ext (set_pc s i (SDial (next_c s)))); try reflexivity.
    apply rel_set_pc; auto. intros; discriminate.
  - (* ARetry, becoming the dialler *)
    eapply (rel_ext (set_pc s i (SDial (next_c s)))); try reflexivity.
    apply rel_set_pc; auto. intros; discriminate.
  - (* ARemoveConn *)
    eapply (rel_ext (set_cn s c (c_set_rm c0 false))); try reflexivity.
    eapply rel_set_cn_same; eauto.
Qed.

Definition closed_reg (r : rs) (c : nat) : rs := set_reg (clr r) (drop_c c (r_reg r)).

Lemma scan_closed : forall l r c, soft r -> Forall quiet l ->
  scan r (l ++ [OSrvClosed c]) = Some (closed_reg r c).
Proof.
  intros l r c Hs Hq. rewrite scan_app. destruct (scan_quiet l r Hs Hq) as [r1 [E1 E2]]. rewrite E1.
  simpl. rewrite scan1_soft; [|destruct E2; subst; auto; unfold soft; simpl; auto|exact I].
  destruct E2; subst; reflexivity.
Qed.

(* connection c's socket dies: its registrations are dropped *)
Lemma rel_kill : forall s r c x x', Rel s r -> cns s c = Some x -> c_dead x' <> None -> c_rl x' = c_rl x ->
  Rel (set_cn s c x') (closed_reg r c).
Proof.
  intros s r c x x' HR Hc Hd Er. drel HR. constructor; simp; auto.
  - unfold soft; simpl; auto.
  - intros cc ww ii Hin. apply drop_c_In in Hin. destruct Hin as [Hin Hne].
    destruct (Hr1 _ _ _ Hin) as (y & Hy & Hdd & Hsn & Hor). unfold upd.
    destruct (Nat.eqb_spec cc c); [congruence|]. eexists; repeat split; eauto.
  - intros cc y ww ii Hy Hin Hsn Hdd Hr. unfold upd in Hy. destruct (Nat.eqb_spec cc c); subst.
    + inversion Hy; subst. congruence.
    + apply drop_c_In. split; eauto.
  - intros cc y ww ii Hy Hr Hin. apply drop_c_In in Hin. destruct Hin as [Hin Hne].
    unfold upd in Hy. destruct (Nat.eqb_spec cc c); subst; [congruence|]. eapply Hr5; eauto.
  - intros j cc ww y Hp Hy Hdd. unfold upd in Hy. destruct (Nat.eqb_spec cc c); subst; [|eauto].
    inversion Hy; subst. congruence.
  - intros cc y ww Hy Hr. unfold upd in Hy. destruct (Nat.eqb_spec cc c); subst; [|eauto].
    inversion Hy; subst. rewrite Er in Hr. eauto.
Qed.

(* connection c was dead already: nothing is registered on it, its table may shrink freely *)
Lemma rel_dead_change : forall s r c x x', Rel s r -> cns s c = Some x -> c_dead x <> None -> c_dead x' <> None ->
  c_rl x' = c_rl x -> Rel (set_cn s c x') r.
Proof.
  intros s r c x x' HR Hc Hd Hd' Er. drel HR. constructor; simp; auto.
  - intros cc ww ii Hin. destruct (Hr1 _ _ _ Hin) as (y & Hy & Hdd & Hsn & Hor). unfold upd.
    destruct (Nat.eqb_spec cc c); subst; [congruence|]. eexists; repeat split; eauto.
  - intros cc y ww ii Hy Hin Hsn Hdd Hr. unfold upd in Hy. destruct (Nat.eqb_spec cc c); subst; [|eauto].
    inversion Hy; subst. congruence.
  - intros cc y ww ii Hy Hr. unfold upd in Hy. destruct (Nat.eqb_spec cc c); subst; [|eauto].
    inversion Hy; subst. rewrite Er in Hr. eauto.
  - intros j cc ww y Hp Hy Hdd. unfold upd in Hy. destruct (Nat.eqb_spec cc c); subst; [|eauto].
    inversion Hy; subst. congruence.
  - intros cc y ww Hy Hr. unfold upd in Hy. destruct (Nat.eqb_spec cc c); subst; [|eauto].
    inversion Hy; subst. rewrite Er in Hr. eauto.
Qed.

Lemma rel_drop_unused : forall s r c, Rel s r -> (forall w i, ~ In (c, w, i) (r_reg r)) -> Rel s (closed_reg r c).
Proof.
  intros s r c HR Hno. drel HR. constructor; simpl; auto.
  - unfold soft; simpl; auto.
  - intros cc ww ii Hin. apply drop_c_In in Hin. destruct Hin. eauto.
  - intros cc y ww ii Hy Hin Hsn Hdd Hr. apply drop_c_In. split; [eauto|]. intro; subst.
    eapply Hno. eapply Hr4; eauto.
  - intros cc y ww ii Hy Hr Hin. apply drop_c_In in Hin. destruct Hin. eapply Hr5; eauto.
Qed.

Lemma map_connerr_quiet : forall (l : list (nat * nat)) cz, Forall quiet (map (fun p => OConnErr (snd p) cz) l).
Proof. induction l; simpl; constructor; simpl; auto. Qed.

Lemma rel_shut : forall s r c cz s' evs, Rel s r -> shut s c cz = (s', evs) ->
  exists r', scan r evs = Some r' /\ Rel s' r'.
Proof.
  intros s r c cz s' evs HR H.
  destruct (shut_cases _ _ _ _ _ H) as [(-> & -> & _)|(x & Ex & Ecl & -> & ->)].
  - exists r. split; auto.
  - unfold kill_evs. destruct (c_dead x) eqn:Ed.
    + rewrite app_nil_r. destruct (scan_quiet _ r (R_soft _ _ HR) (map_connerr_quiet (c_subs x) cz)) as [r1 [E1 E2]].
      exists r1. split; auto.
      assert (Rel (set_cn s c (shut_conn x cz)) r).
      { eapply rel_dead_change; eauto; simpl; try rewrite Ed; congruence. }
      destruct E2; subst; auto. apply rel_clr; auto.
    + rewrite scan_closed; [|exact (R_soft _ _ HR)|apply map_connerr_quiet].
      eexists; split; [reflexivity|]. eapply rel_kill; eauto; simpl; rewrite ?Ed; congruence.
Qed.

Lemma rel_close_if_empty : forall s r c s' evs, Rel s r -> close_if_empty s c = (s', evs) ->
  exists r', scan r evs = Some r' /\ Rel s' r'.
Proof.
  intros s r c s' evs HR H.
  destruct (close_if_empty_cases _ _ _ _ H) as [(-> & -> & _)|(x & _ & _ & _ & _ & _ & Hs)];
    [exists r; auto | eapply rel_shut; eauto].
Qed.

Definition canc_reg (r : rs) (i : nat) : rs :=
  {| r_reg := r_reg r; r_used := r_used r; r_canc := i :: r_canc r; r_exp := None |}.

Lemma rel_canc_more : forall s r i, Rel s r -> Rel s (canc_reg r i).
Proof.
  intros s r i HR. drel HR. constructor; simpl; auto.
  - unfold soft; simpl; auto.
  - intros cc ww ii Hin. destruct (Hr1 _ _ _ Hin) as (y & Hy & Hdd & Hsn & Hor).
    exists y. repeat split; auto. destruct Hor; auto.
Qed.

Lemma rel_set_rl : forall s r c x rl', Rel s r -> cns s c = Some x -> (forall w, c_rl x <> RLRemove w) ->
  (forall w, rl' <> RLRemove w) -> Rel (set_cn s c (c_set_rl x rl')) r.
Proof.
  intros s r c x rl' HR Hc Ho Hn. drel HR. constructor; simp; auto.
  - intros cc ww ii Hin. destruct (Hr1 _ _ _ Hin) as (y & Hy & Hdd & Hsn & Hor). unfold upd.
    destruct (Nat.eqb_spec cc c); subst.
    + rewrite Hc in Hy; inversion Hy; subst. eexists; split; [reflexivity|]. simpl. auto.
    + eexists; repeat split; eauto.
  - intros cc y ww ii Hy. unfold upd in Hy. destruct (Nat.eqb_spec cc c); subst; [|eauto].
    inversion Hy; subst. simpl. intros. eapply Hr4; eauto.
  - intros cc y ww ii Hy. unfold upd in Hy. destruct (Nat.eqb_spec cc c); subst; [|eauto].
    inversion Hy; subst. simpl. intros E. exfalso. eapply Hn; eauto.
  - intros j cc ww y Hp Hy. unfold upd in Hy. destruct (Nat.eqb_spec cc c); subst; [|eauto].
    inversion Hy; subst. simpl. eauto.
  - intros cc y ww Hy. unfold upd in Hy. destruct (Nat.eqb_spec cc c); subst; [|eauto].
    inversion Hy; subst. simpl. intros E. exfalso. eapply Hn; eauto.
Qed.

Definition sub_reg (r : rs) (c w i : nat) : rs :=
  {| r_reg := (c, w, i) :: r_reg r; r_used := w :: r_used r; r_canc := r_canc r; r_exp := None |}.

(* the subscribe frame of i reaches the upstream *)
Lemma rel_sent : forall s r i c w x, Inv s -> Rel s r -> pc s i = SSend c w -> cns s c = Some x -> c_dead x = None ->
  mem_nat w (r_used r) = false /\
  Rel {| pc := upd (pc s) i (SActive c w); ctxc := ctxc s; okey := okey s; conns := conns s; dialing := dialing s;
         dials := dials s; cns := cns s; next_c := next_c s; next_w := next_w s; idle := idle s;
         seen := (w, i) :: seen s; sse := sse s |} (sub_reg r c w i).
Proof.
  intros s r i c w x HI HR Hp Hc Hd. drel HR.
  assert (Hns : ~ In w (map fst (seen s))) by (apply (I5b _ HI i); rewrite Hp; reflexivity).
  split.
  - destruct (mem_nat w (r_used r)) eqn:E; auto. apply mem_nat_In in E. apply Hr3 in E. tauto.
  - constructor; simpl; auto.
    + unfold soft; simpl; auto.
    + intros cc ww ii [E|Hin].
      * inversion E; subst. exists x. repeat split; auto. right. eapply Hr6; eauto.
      * destruct (Hr1 _ _ _ Hin) as (y & Hy & Hdd & Hsn & Hor). exists y. repeat split; auto.
    + intros ww. simpl. rewrite (Hr3 ww). tauto.
    + intros cc y ww ii Hy Hin [E|Hsn] Hdd Hr.
      * subst ww. left.
        assert (Hh : holdsP (pc s ii) cc w) by (eapply (I1 _ HI); eauto).
        assert (ii = i) by (eapply (I10 _ HI); [eapply holds_held; eauto | rewrite Hp; reflexivity]). subst.
        rewrite Hp in Hh. simpl in Hh. destruct Hh; subst. reflexivity.
      * right. eauto.
    + intros cc y ww ii Hy Hr [E|Hin]; [|eapply Hr5; eauto].
      inversion E; subst. apply Hns. eapply Hr7; eauto.
    + intros j cc ww y Hj Hy Hdd. unfold upd in Hj. destruct (Nat.eqb_spec j i); simpl in Hj; [discriminate|]. eauto.
    + intros cc y ww Hy Hr. right. eauto.
Qed.

Lemma kind_eqb_refl : forall k, kind_eqb k k = true.
Proof. destruct k; simpl; auto; [apply N.eqb_refl | apply Bool.eqb_reflx]. Qed.

Lemma find_reg_some : forall c w i l, In (c, w, i) l -> exists i', find_reg c w l = Some i'.
Proof.
  induction l as [|[[c' w'] j] l IH]; simpl; intros H; [tauto|].
  destruct (Nat.eqb_spec c' c); destruct (Nat.eqb_spec w' w); simpl; subst; eauto;
    destruct H as [E|H]; try (inversion E; subst; congruence); auto.
Qed.

Lemma rel_exp_soft : forall s r e, Rel s r -> (match e with Some (_, _, true, _, _) => False | _ => True end) ->
  Rel s (set_exp r e).
Proof. intros s r e HR He. drel HR. constructor; simpl; auto. Qed.

Lemma soft_clr : forall r, soft (clr r).
Proof. intros; unfold soft; simpl; auto. Qed.

Lemma rel_upmsg : forall s r c f s' evs, Inv s -> Rel s r -> step s (UpMsg c f) = Some (s', evs) ->
  exists r', scan r evs = Some r' /\ Rel s' r'.
Proof.
  intros s r c f s' evs HI HR H.
  destruct (upmsg_cases _ _ _ _ _ H) as (x & Hc & Hrl & Hcl & Hd & Hcase).
  drel HR.
  destruct (spec_class (c_proto x) f) as [w k| |] eqn:Hsc.
  2:{ (* no subscription concerned *)
      destruct Hcase as [-> ->]. simpl. rewrite scan1_soft by (auto; exact I). simpl. rewrite Hsc.
      eexists; split; [reflexivity|]. apply rel_clr; auto. }
  2:{ (* protocol violation: the read fails, the socket is lost *)
      destruct Hcase as [-> ->].
      assert (E : scan r [OUp c (c_proto x) f; OSrvClosed c] = Some (closed_reg r c)).
      { simpl. rewrite scan1_soft by (auto; exact I). simpl. rewrite Hsc.
        rewrite scan1_soft by exact I. reflexivity. }
      rewrite E. eexists; split; [reflexivity|].
      eapply rel_kill; eauto; unfold c_kill; simpl; try rewrite Hd; congruence. }
  destruct Hcase as [Hm [(i & Hl & -> & ->)|(Hl & -> & ->)]].
  - (* delivered *)
    pose proof (lookup_In _ _ _ Hl) as Hin.
    assert (Hseen : In w (map fst (seen s))).
    { apply orb_true_iff in Hm. destruct Hm as [Hm|Hm]; [apply mem_nat_In; auto|].
      apply Nat.leb_le in Hm. pose proof (I1 _ HI _ _ _ _ Hc Hin) as Hh. apply holds_held in Hh.
      pose proof (I5 _ HI _ _ Hh). lia. }
    assert (Hreg : In (c, w, i) (r_reg r)) by (eapply Hr4; eauto; rewrite Hrl; discriminate).
    destruct (find_reg_some _ _ _ _ Hreg) as [i' Hf].
    assert (i' = i).
    { pose proof (find_reg_In _ _ _ _ Hf) as Hin'.
      destruct (Hr1 _ _ _ Hin') as (y1 & _ & _ & Hs1 & _). destruct (Hr1 _ _ _ Hreg) as (y2 & _ & _ & Hs2 & _).
      eapply (I4 _ HI); eauto. }
    subst i'.
    simpl. rewrite scan1_soft by (auto; exact I). simpl. rewrite Hsc, Hf. unfold scan1. simpl.
    rewrite Nat.eqb_refl, kind_eqb_refl. simpl.
    eexists; split; [reflexivity|].
    destruct (terminal k) eqn:Ht.
    + (* terminal: (c, w) is unregistered, the read loop goes on to removeSub *)
      constructor; simp; auto.
      * unfold soft; simpl; auto.
      * intros cc ww ii Hi. apply drop_cw_In in Hi. destruct Hi as [Hi Hne].
        destruct (Hr1 _ _ _ Hi) as (y & Hy & Hdd & Hsn & Hor). unfold upd.
        destruct (Nat.eqb_spec cc c); subst.
        -- rewrite Hc in Hy; inversion Hy; subst. eexists; split; [reflexivity|]. simpl. auto.
        -- eexists; repeat split; eauto.
      * intros cc y ww ii Hy Hi Hsn Hdd Hr. apply drop_cw_In. unfold upd in Hy.
        destruct (Nat.eqb_spec cc c); subst.
        -- inversion Hy; subst. simpl in *. split.
           ++ eapply Hr4; eauto. rewrite Hrl; discriminate.
           ++ intros [_ E]. subst. apply Hr. reflexivity.
        -- split; [eauto|]. intros [E _]. congruence.
      * intros cc y ww ii Hy Hr Hi. apply drop_cw_In in Hi. destruct Hi as [Hi Hne]. unfold upd in Hy.
        destruct (Nat.eqb_spec cc c); subst.
        -- inversion Hy; subst. simpl in Hr. inversion Hr; subst. tauto.
        -- eapply Hr5; eauto.
      * intros j cc ww y Hp Hy Hdd. unfold upd in Hy. destruct (Nat.eqb_spec cc c); subst; [|eauto].
        inversion Hy; subst. simpl in *. eauto.
      * intros cc y ww Hy Hr. unfold upd in Hy. destruct (Nat.eqb_spec cc c); subst; [|eauto].
        inversion Hy; subst. simpl in Hr. inversion Hr; subst. auto.
    + change (Rel s (clr r)). apply rel_clr; auto.
  - (* nobody registered under w on c (any more): dropped *)
    simpl. rewrite scan1_soft by (auto; exact I). simpl. rewrite Hsc.
    destruct (find_reg c w (r_reg r)) as [i'|] eqn:Hf.
    + eexists; split; [reflexivity|]. apply rel_exp_soft; [apply rel_clr; auto|].
      pose proof (find_reg_In _ _ _ _ Hf) as Hin'.
      destruct (Hr1 _ _ _ Hin') as (y & Hy & _ & _ & Hor). rewrite Hc in Hy; inversion Hy; subst.
      destruct Hor as [Hcan|Hi]; [|exfalso; eapply lookup_None; eauto].
      simpl. apply mem_nat_In in Hcan. rewrite Hcan. simpl. exact I.
    + eexists; split; [reflexivity|]. apply rel_clr; auto.
Qed.

Lemma scan_cons_quiet : forall e l r, soft r -> quiet e -> scan r (e :: l) = scan (clr r) l.
Proof.
  intros e l r Hs Hq. simpl. rewrite scan1_soft; auto; [|destruct e; simpl in *; tauto].
  replace (scan_plain (clr r) e) with (Some (clr r)); auto. destruct e; simpl in *; tauto || reflexivity.
Qed.

Lemma scan_closed1 : forall r c, soft r -> scan r [OSrvClosed c] = Some (closed_reg r c).
Proof. intros. apply (scan_closed [] r c); auto. Qed.
Lemma scan_closed2 : forall r e c, soft r -> quiet e -> scan r [e; OSrvClosed c] = Some (closed_reg r c).
Proof. intros. apply (scan_closed [e] r c); auto. Qed.

Lemma shut_rl : forall s c cz s' evs x x', shut s c cz = (s', evs) -> cns s c = Some x -> cns s' c = Some x' ->
  c_rl x' = c_rl x.
Proof.
  intros. destruct (shut_cases _ _ _ _ _ H) as [(-> & _ & _)|(y & Ey & _ & -> & _)].
  - congruence.
  - simpl in H1. rewrite upd_same in H1. inversion H1; subst. simpl. congruence.
Qed.

Lemma close_if_empty_rl : forall s c s' evs x x', close_if_empty s c = (s', evs) -> cns s c = Some x -> cns s' c = Some x' ->
  c_rl x' = c_rl x.
Proof.
  intros. destruct (close_if_empty_cases _ _ _ _ H) as [(-> & _)|(y & _ & _ & _ & _ & _ & Hs)].
  - congruence.
  - eapply shut_rl; eauto.
Qed.

Lemma scan_tail_quiet : forall l1 l2 r r1, scan r l1 = Some r1 -> soft r1 -> Forall quiet l2 ->
  exists r2, scan r (l1 ++ l2) = Some r2 /\ (r2 = r1 \/ r2 = clr r1).
Proof.
  intros. rewrite scan_app, H. apply scan_quiet; auto.
Qed.

Lemma ret_evs_quiet : forall i k, Forall quiet (ret_evs i k).
Proof. destruct k; simpl; repeat constructor. Qed.

Lemma rel_step : forall s a s' evs r, Inv s -> InvD s -> NoConnYet s -> Rel s r -> step s a = Some (s', evs) ->
  exists r', scan r evs = Some r' /\ Rel s' r'.
Proof.
  intros s a s' evs r HI HD HN HR H.
  destruct (quiet_action a) eqn:Hq.
  { pose proof (quiet_events _ _ _ _ Hq H) as Hqe.
    destruct (scan_quiet evs r (R_soft _ _ HR) Hqe) as [r1 [E1 E2]]. exists r1. split; auto.
    pose proof (rel_quiet_step _ _ _ _ _ HI HD HN HR Hq H). destruct E2; subst; auto. apply rel_clr; auto. }
  destruct a; try discriminate; clear Hq.
  - (* ACtxCancel *) inv_step H. simpl. rewrite scan1_soft by (apply (R_soft _ _ HR) || exact I). simpl.
    eexists; split; [reflexivity|].
    pose proof (rel_canc_more _ _ i HR) as HR1. destruct HR1.
    constructor; simpl in *; auto. intros j Hj. unfold upd in Hj. destruct (Nat.eqb_spec j i); subst; auto.
  - (* ADialCtx *)
    assert (Hno : forall d y, dials s d = Some y -> d_phase y <> DReturned -> forall w j, ~ In (d, w, j) (r_reg r)).
    { intros d y Hd Hp w j Hin. destruct (R1 _ _ HR _ _ _ Hin) as (x & Hx & _). rewrite (HN _ _ Hd Hp) in Hx. discriminate. }
    inv_step H; (rewrite scan_closed1 by apply (R_soft _ _ HR));
      (eexists; split; [reflexivity|]); apply rel_set_pc; try (intros; discriminate);
      (eapply rel_ext; [eapply rel_drop_unused; [exact HR|]| | | |]; try reflexivity);
      (eapply Hno; eauto; congruence).
  - (* ASend *)
    inv_step H.
    + exists r. split; auto. apply rel_set_pc; auto. intros; discriminate.
    + exists r. split; auto. apply rel_set_pc; auto. intros; discriminate.
    + destruct (rel_sent _ _ _ _ _ _ HI HR Heqs0 Heqo Heqo0) as [Hm HR1].
      simpl. rewrite scan1_soft by (apply (R_soft _ _ HR) || exact I). simpl. rewrite Hm.
      rewrite scan1_soft by ((unfold soft; simpl; auto) || exact I). simpl.
      eexists; split; [reflexivity|]. exact HR1.
  - (* AClose *)
    inv_step H. destruct (rel_close_if_empty _ _ _ _ _ HR Heqp) as [r1 [E1 HR1]].
    destruct (scan_tail_quiet _ (ret_evs i k) _ _ E1 (R_soft _ _ HR1) (ret_evs_quiet i k)) as [r2 [E2 E3]].
    exists r2. split; auto.
    assert (Rel (set_pc s0 i (after k)) r1) by (apply rel_set_pc; auto; destruct k; intros; discriminate).
    destruct E3; subst; auto. apply rel_clr; auto.
  - (* ARLClose *)
    inv_step H. destruct (rel_close_if_empty _ _ _ _ _ HR Heqp) as [r1 [E1 HR1]].
    exists r1. split; auto. eapply rel_set_rl; eauto; try (intros; discriminate).
    intros w. rewrite (close_if_empty_rl _ _ _ _ _ _ Heqp Heqo Heqo0). congruence.
  - (* ARLReadErr *)
    inv_step H. destruct (rel_shut _ _ _ _ _ _ HR Heqp) as [r1 [E1 HR1]].
    exists r1. split; auto. eapply rel_set_rl; eauto; try (intros; discriminate).
    intros w. match goal with Hs1 : cns s0 c = Some _ |- _ => rewrite (shut_rl _ _ _ _ _ _ _ Heqp Heqo Hs1) end. congruence.
  - (* ATimerFire *)
    inv_step H. eapply rel_close_if_empty; [|eauto]. eapply rel_set_cn_same; eauto.
  - (* UpInitFail *)
    assert (Hno : forall d y, dials s d = Some y -> d_phase y <> DReturned -> forall w j, ~ In (d, w, j) (r_reg r)).
    { intros d0 y Hd Hp w j Hin. destruct (R1 _ _ HR _ _ _ Hin) as (x & Hx & _). rewrite (HN _ _ Hd Hp) in Hx. discriminate. }
    inv_step H. rewrite scan_closed2 by (apply (R_soft _ _ HR) || exact I).
    eexists; split; [reflexivity|]. apply rel_set_pc; try (intros; discriminate).
    eapply rel_ext; [eapply rel_drop_unused; [exact HR|]| | | |]; try reflexivity.
    eapply Hno; eauto; congruence.
  - (* UpMsg *) eapply rel_upmsg; eauto.
  - (* UpDrop *)
    inv_step H. rewrite scan_closed2 by (apply (R_soft _ _ HR) || exact I).
    eexists; split; [reflexivity|]. eapply rel_kill; eauto; unfold c_kill; simpl; try rewrite Heqo0; congruence.
  - (* APingTimeout *)
    inv_step H. rewrite scan_cons_quiet; [|apply (R_soft _ _ HR)|exact I].
    eapply rel_shut; [|eauto]. apply rel_clr; auto.
  - (* SseCancel *)
    inv_step H; simpl; (rewrite scan1_soft by (apply (R_soft _ _ HR) || exact I)); simpl;
      try (rewrite scan1_soft by (apply soft_clr || exact I || (unfold soft; simpl; auto))); simpl;
      (eexists; split; [reflexivity|]);
      (eapply rel_ext; [apply (rel_canc_more _ _ i HR)| | | |]; reflexivity).
Qed.

(* ---- routing: the log of every accepted action list passes the scanner ---- *)
Theorem routing_proof : forall idl tr s log, run (init idl) tr = Some (s, log) -> routing_b log = true.
Proof.
  intros idl tr s log H.
  assert (G : Good s /\ NoConnYet s /\ exists r, scan rs0 log = Some r /\ Rel s r).
  { revert H. apply (run_ind (fun s log => Good s /\ NoConnYet s /\ exists r, scan rs0 log = Some r /\ Rel s r) (init idl)).
    - split; [apply good_init|]. split; [apply noconn_init|]. exists rs0. split; [reflexivity | apply rel_init].
    - intros s0 l0 a s1 e1 HH Hst. destruct HH as (HG & HN & r0 & Hs & HR). destruct HG as (HI & HD & HC).
      assert (HG1 : Good s1) by (apply (good_step s0 a s1 e1); [split; [|split]; assumption | exact Hst]).
      assert (HN1 : NoConnYet s1) by (eapply noconn_step; eauto).
      cbv beta. split; [exact HG1|]. split; [exact HN1|].
      destruct (rel_step _ _ _ _ _ HI HD HN HR Hst) as (r1 & E1 & HR1).
      exists r1. split; auto. rewrite scan_app, Hs. exact E1. }
  destruct G as (_ & _ & r & Hs & HR). unfold routing_b. rewrite Hs.
  pose proof (R_soft _ _ HR) as Hsoft. unfold soft, scan_end in *.
  destruct (r_exp r) as [[[[[? ?] []] ?] ?]|]; auto.
Qed.
