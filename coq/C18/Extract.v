From Gv Require Import C18.Model C18.Spec.
From Coq Require Import NArith ZArith.
Require Import ExtrOcamlBasic.
Extraction Language OCaml.
Extraction "model.ml" init step run quiesce tick ws_conn_count live_conns
  routing_b isolated_b isolated_log_b shared_b drain_b failed_b sse_routing_b spec_class sse_class tlocal_b terminal key_eqb
  conn_key hdr_lines Z.of_N.
