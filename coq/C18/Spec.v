(* C18: the property, as Props over runs of the LTS and as boolean checkers over observable logs
   (the checkers are what the driver evaluates on the IMPLEMENTATION's log). *)
From Gv Require Import C18.Model.
From Coq Require Import List NArith Arith Bool.
Import ListNotations.

Definition reach (idl : bool) (s : st) (log : list ev) : Prop :=
  exists tr, run (init idl) tr = Some (s, log).

(* ------------------------------------------------------------------ routing (+ terminal_local) *)
Definition kind_eqb (a b : kind) : bool :=
  match a, b with
  | KData x, KData y => N.eqb x y
  | KDataNil, KDataNil => true
  | KError, KError => true
  | KComplete, KComplete => true
  | KConnErr x, KConnErr y => Bool.eqb x y
  | KUnknown, KUnknown => true
  | _, _ => false
  end.

(* What an upstream frame MEANS, read from the two protocol documents the code cites (and, where they
   are silent, from what the decoders accept), written independently of Model.decode / into_client:
     FcSub w k  the frame addresses the one subscription with wire id w and means k for it -- a
                next/data with a usable (or no) payload, a complete, an error with OR WITHOUT payload,
                a legacy connection_error that carries an id.  Terminal k ends w and nothing else;
     FcNone     the frame concerns no subscription: ping / pong / ka, and any data, error, complete or
                connection_error frame WITHOUT an id (the routing table has no entry for the empty id:
                such a frame is dropped, the connection and every subscription on it go on);
     FcFault    the upstream violates the protocol: not JSON, an unknown "type", a type of the other
                sub-protocol, a connection_ack after the handshake, a next/data payload that is not an
                execution result.  Reading such a frame fails: the connection is lost through the
                upstream's fault, exactly as if it had been dropped. *)
Inductive fclass := FcSub (w : nat) (k : kind) | FcNone | FcFault.
Definition with_id (f : frame) (k : kind) : fclass :=
  match f_id f with Some w => FcSub w k | None => FcNone end.
Definition data_class (f : frame) : fclass :=
  match f_pl f with
  | PBad => FcFault
  | PObj t => with_id f (KData t)
  | PNone => with_id f KDataNil
  end.
Definition spec_class (p : proto) (f : frame) : fclass :=
  match f_type f, p with
  | FNext, PTws | FData, PGws => data_class f
  | FError, _ => with_id f (match f_pl f with PNone => KConnErr false | _ => KError end)
  | FComplete, _ => with_id f KComplete
  | FConnError, PGws => with_id f (KConnErr true)
  | FPing, PTws | FPong, PTws | FKa, PGws => FcNone
  | _, _ => FcFault
  end.

(* scanner state: live registrations (conn, wire id, subscription) learnt from the upstream's own
   view (subscribe frames it received), wire ids used, cancelled subscribers, and the delivery the
   last upstream frame must / may produce next *)
Record rs := {
  r_reg : list (nat * nat * nat);
  r_used : list nat;
  r_canc : list nat;
  r_exp : option (nat * kind * bool * nat * nat)   (* receiver, kind, must, conn, wire id *)
}.
Definition rs0 : rs := {| r_reg := []; r_used := []; r_canc := []; r_exp := None |}.

Fixpoint find_reg (c w : nat) (l : list (nat * nat * nat)) : option nat :=
  match l with
  | [] => None
  | (c', w', i) :: r => if Nat.eqb c' c && Nat.eqb w' w then Some i else find_reg c w r
  end.
Definition drop_cw (c w : nat) (l : list (nat * nat * nat)) :=
  filter (fun p => match p with (c', w', _) => negb (Nat.eqb c' c && Nat.eqb w' w) end) l.
Definition drop_c (c : nat) (l : list (nat * nat * nat)) :=
  filter (fun p => match p with (c', _, _) => negb (Nat.eqb c' c) end) l.

Definition set_exp (r : rs) (e : option (nat * kind * bool * nat * nat)) : rs :=
  {| r_reg := r_reg r; r_used := r_used r; r_canc := r_canc r; r_exp := e |}.
Definition set_reg (r : rs) (l : list (nat * nat * nat)) : rs :=
  {| r_reg := l; r_used := r_used r; r_canc := r_canc r; r_exp := r_exp r |}.

Definition scan_plain (r : rs) (e : ev) : option rs :=
  match e with
  | ODeliver _ _ => None                                  (* a delivery nobody sent *)
  | OUp c p f =>
    match spec_class p f with
    | FcSub w k =>
      match find_reg c w (r_reg r) with
      | Some i => Some (set_exp r (Some (i, k, negb (mem_nat i (r_canc r)), c, w)))
      | None => Some r
      end
    | _ => Some r                                         (* no subscription concerned / the socket dies: OSrvClosed follows *)
    end
  | OSrvSub c w i =>
    if mem_nat w (r_used r) then None                     (* wire id reused *)
    else Some {| r_reg := (c, w, i) :: r_reg r; r_used := w :: r_used r; r_canc := r_canc r; r_exp := r_exp r |}
  | OCancel i => Some {| r_reg := r_reg r; r_used := r_used r; r_canc := i :: r_canc r; r_exp := r_exp r |}
  | OSrvClosed c => Some (set_reg r (drop_c c (r_reg r)))
  | _ => Some r
  end.

Definition scan1 (r : rs) (e : ev) : option rs :=
  match r_exp r with
  | Some (i, k, must, c, w) =>
    match e with
    | ODeliver i' k' =>
      if Nat.eqb i i' && kind_eqb k k'
      then Some (set_exp (if terminal k then set_reg r (drop_cw c w (r_reg r)) else r) None)
      else None                                           (* delivered to somebody else / something else *)
    | _ => if must then None                              (* a live subscription missed its frame *)
           else scan_plain (set_exp r None) e
    end
  | None => scan_plain r e
  end.

Fixpoint scan (r : rs) (l : list ev) : option rs :=
  match l with
  | [] => Some r
  | e :: t => match scan1 r e with Some r' => scan r' t | None => None end
  end.
Definition scan_end (r : rs) : bool :=
  match r_exp r with Some (_, _, true, _, _) => false | _ => true end.

(* routing: every upstream frame (c, w) is delivered to exactly the subscription that registered
   w on c (if it is still live it MUST be, if it was cancelled it MAY be), in upstream order, to
   nobody else, nothing is delivered that was not sent; a terminal frame ends only (c, w). *)
Definition routing_b (log : list ev) : bool :=
  match scan rs0 log with Some r => scan_end r | None => false end.

(* terminal_local on one observation window (the events between one upstream frame and the next harness
   event): after a frame that means something for ONE subscription, every delivery goes to its holder and
   nobody is told that the connection is gone *)
Definition tlocal_b (holder : option nat) (win : list ev) : bool :=
  forallb (fun e => match e with
                    | ODeliver j _ => match holder with Some i => Nat.eqb i j | None => false end
                    | OConnErr _ _ => false
                    | _ => true
                    end) win.

(* ------------------------------------------------------------------ cancel_isolated *)
Definition blame_ok (j : nat) (c : cause) : Prop :=
  match c with CUpstream | CPing => True | CIdle => False | CWriteCtx k => k = j end.
Definition err_blame_ok (j : nat) (e : err) : Prop :=
  match e with
  | ECtx k _ => k = j
  | EDial | EInit _ => True
  | EClosed c | EWrite c => blame_ok j c
  | EExists => False
  end.
(* every failure a subscriber observes is its own doing or the upstream's, never another
   subscriber's cancel / another subscriber leaving *)
Definition ev_isolated (e : ev) : Prop :=
  match e with
  | ORet j (Some x) => err_blame_ok j x
  | OConnErr j c => blame_ok j c
  | _ => True
  end.
Definition isolated_log (log : list ev) : Prop := Forall ev_isolated log.

Definition blame_ok_b (j : nat) (c : cause) : bool :=
  match c with CUpstream | CPing => true | CIdle => false | CWriteCtx k => Nat.eqb k j end.
Definition err_blame_ok_b (j : nat) (e : err) : bool :=
  match e with
  | ECtx k _ => Nat.eqb k j
  | EDial | EInit _ => true
  | EClosed c | EWrite c => blame_ok_b j c
  | EExists => false
  end.
Definition ev_isolated_b (e : ev) : bool :=
  match e with
  | ORet j (Some x) => err_blame_ok_b j x
  | OConnErr j c => blame_ok_b j c
  | _ => true
  end.
Definition isolated_log_b (log : list ev) : bool := forallb ev_isolated_b log.

(* The implementation's errors carry no ghost cause: the cause-free variant used on the
   implementation's log infers the blame from the log itself.  [keys]: option tuple of every
   subscriber. *)
Fixpoint key_of (keys : list (nat * key)) (i : nat) : option key :=
  match keys with [] => None | (j, k) :: r => if Nat.eqb i j then Some k else key_of r i end.
Definition okey_eqb (a b : option key) : bool :=
  match a, b with Some x, Some y => key_eqb x y | _, _ => false end.

Record is := {
  i_dial : list (nat * key);      (* connection attempt -> tuple seen by the upstream *)
  i_faultk : list key;            (* tuples whose dial / connection suffered an upstream fault *)
  i_faultc : list nat;            (* connections that suffered an upstream fault / ping timeout *)
  i_canc : list nat;
  i_on : list (nat * nat)         (* subscriber, connection *)
}.
Definition is0 : is := {| i_dial := []; i_faultk := []; i_faultc := []; i_canc := []; i_on := [] |}.
Definition fault (r : is) (c : nat) : is :=
  {| i_dial := i_dial r;
     i_faultk := match key_of (i_dial r) c with Some k => k :: i_faultk r | None => i_faultk r end;
     i_faultc := c :: i_faultc r; i_canc := i_canc r; i_on := i_on r |}.
Definition mem_key (k : option key) (l : list key) : bool :=
  match k with Some x => existsb (key_eqb x) l | None => false end.
Definition iso1 (keys : list (nat * key)) (r : is) (e : ev) : option is :=
  match e with
  | OSrvDial d k => Some {| i_dial := (d, k) :: i_dial r; i_faultk := i_faultk r; i_faultc := i_faultc r;
                            i_canc := i_canc r; i_on := i_on r |}
  | OReject d | OInitFail d _ | ODrop d | OPing d => Some (fault r d)
  | OUp c p f => match spec_class p f with FcFault => Some (fault r c) | _ => Some r end
  | OCancel i => Some {| i_dial := i_dial r; i_faultk := i_faultk r; i_faultc := i_faultc r;
                         i_canc := i :: i_canc r; i_on := i_on r |}
  | OSrvSub c _ i => Some {| i_dial := i_dial r; i_faultk := i_faultk r; i_faultc := i_faultc r;
                             i_canc := i_canc r; i_on := (i, c) :: i_on r |}
  | ORet j (Some x) =>
    let own := mem_nat j (i_canc r) in
    let up := mem_key (key_of keys j) (i_faultk r) in
    match x with
    | ECtx _ _ => if own then Some r else None
    | EDial | EInit _ => if up || own then Some r else None
    | EClosed _ | EWrite _ => if up || own then Some r else None
    | EExists => None
    end
  | OConnErr j _ =>
    if mem_nat j (i_canc r) || existsb (fun p => Nat.eqb (fst p) j && mem_nat (snd p) (i_faultc r)) (i_on r)
    then Some r else None
  | _ => Some r
  end.
Fixpoint iso_scan (keys : list (nat * key)) (r : is) (l : list ev) : bool :=
  match l with
  | [] => true
  | e :: t => match iso1 keys r e with Some r' => iso_scan keys r' t | None => false end
  end.
Definition isolated_b (keys : list (nat * key)) (log : list ev) : bool := iso_scan keys is0 log.

(* differential form: did subscriber j fail (error return or connection error)? *)
Definition failed_b (j : nat) (log : list ev) : bool :=
  existsb (fun e => match e with
                    | ORet i (Some _) => Nat.eqb i j
                    | OConnErr i _ => Nat.eqb i j
                    | _ => false end) log.

(* ------------------------------------------------------------------ shared_iff_same_key *)
(* on the log: a subscribe frame of i arrives on connection c only if i's option tuple equals the
   tuple the upstream saw when c was dialled *)
Fixpoint shared_scan (keys : list (nat * key)) (dl : list (nat * key)) (l : list ev) : bool :=
  match l with
  | [] => true
  | OSrvDial d k :: t => shared_scan keys ((d, k) :: dl) t
  | OSrvSub c _ i :: t => okey_eqb (key_of keys i) (key_of dl c) && shared_scan keys dl t
  | _ :: t => shared_scan keys dl t
  end.
Definition shared_b (keys : list (nat * key)) (log : list ev) : bool := shared_scan keys [] log.

(* the option tuples themselves: what "the same headers" means is stated on the multimap, independently of
   connKey -- for EVERY name the same list of values (all of them, in order; a name without values is an absent
   name: it is not sent at the upgrade) *)
Definition hvals (h : hdrs) (n : N) : list N := flat_map (fun e => if N.eqb (fst e) n then snd e else []) h.
Definition same_opts (a b : opts) : Prop :=
  match a, b with
  | (e1, p1, h1, i1), (e2, p2, h2, i2) => e1 = e2 /\ p1 = p2 /\ i1 = i2 /\ forall n, hvals h1 n = hvals h2 n
  end.
(* a key that looks at the FIRST value of every name only (what a "cheaper" connKey would hash): the option
   tuple cut down to it *)
Definition first_values (h : hdrs) : hdrs := map (fun e => (fst e, firstn 1 (snd e))) h.
Definition first_value_opts (o : opts) : opts := match o with (e, p, h, ip) => (e, p, first_values h, ip) end.

(* ------------------------------------------------------------------ conns_drain *)
Definition is_internal (a : action) : bool :=
  match a with
  | AWaitDone _ | AWaitCtx _ | ADialCtx _ | ARetry _ | ABook _ | APublish _ | AInsert _ | ASend _
  | AUnsub _ | AUnsubSend _ | ARemove _ | AClose _
  | ARLRemove _ | ARLClose _ | ARLReadErr _ | ATimerFire _ | ARemoveConn _ => true
  | _ => false
  end.
(* nothing internal can move and no idle timer is pending *)
Definition quiescent (s : st) : Prop := forall a, is_internal a = true -> step s a = None.

(* on the log (to be applied to a log that ends at quiescence, after the idle period):
   every connection the upstream acknowledged and that was not closed carries a live,
   uncancelled subscription *)
Fixpoint acked (l : list ev) : list nat :=
  match l with [] => [] | OAck d :: t => d :: acked t | _ :: t => acked t end.
Fixpoint closed_l (l : list ev) : list nat :=
  match l with [] => [] | OSrvClosed d :: t => d :: closed_l t | _ :: t => closed_l t end.
Definition drain_b (log : list ev) : bool :=
  match scan rs0 log with
  | None => false
  | Some r =>
    forallb (fun c => mem_nat c (closed_l log)
                      || existsb (fun p => match p with (c', _, i) => Nat.eqb c' c && negb (mem_nat i (r_canc r)) end) (r_reg r))
            (acked log)
  end.

(* ------------------------------------------------------------------ SSE *)
(* an SSE stream carries one subscription: every event that parses is delivered to that handler and to
   no other; what an event means (graphql-sse, and the decoder's reading of untyped events) *)
Definition sse_class (e : sse_event) : option kind :=
  match se_type e, se_data e with
  | SNext, DObj t => Some (KData t)
  | SNext, _ => Some (KConnErr true)                    (* unusable payload: the stream is given up *)
  | SError, _ => Some KError
  | SComplete, _ => Some KComplete
  | SNoType, DAbsent => None                            (* comment / keep-alive *)
  | (SNoType | SOtherType), DObj t => Some (KData t)
  | (SNoType | SOtherType), DBad => Some (KConnErr true)
  | (SNoType | SOtherType), _ => Some KComplete
  end.
Fixpoint sse_scan (act : list nat) (exp : option (nat * kind)) (l : list ev) : bool :=
  match exp, l with
  | Some (i, k), OSseDeliver i' k' :: t =>
    Nat.eqb i i' && kind_eqb k k' && sse_scan (if terminal k then filter (fun j => negb (Nat.eqb j i)) act else act) None t
  | Some _, _ => false
  | None, [] => true
  | None, OSseDeliver _ _ :: _ => false
  | None, OSseRet i true :: t => sse_scan (i :: act) None t
  | None, OSseUp i e :: t =>
    if mem_nat i act then match sse_class e with Some k => sse_scan act (Some (i, k)) t | None => sse_scan act None t end
    else sse_scan act None t
  | None, OSseErr i :: t => sse_scan (filter (fun j => negb (Nat.eqb j i)) act) None t
  | None, OCancel i :: t => sse_scan (filter (fun j => negb (Nat.eqb j i)) act) None t
  | None, _ :: t => sse_scan act None t
  end.
Definition sse_routing_b (log : list ev) : bool := sse_scan [] None log.
