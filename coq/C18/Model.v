(* C18: LTS of the upstream subscription client
     /repo/v2/pkg/engine/datasource/graphql_datasource/subscriptionclient
       transport/ws_transport.go  (WSTransport: conns, dialing, connKey, getOrDial, removeConn)
       transport/ws_conn.go       (wsConnection: subs, subscribe, unsubscribe, removeSub, dispatch,
                                   readLoop, shutdown, idle timer)
       transport/sse_transport.go, sse_conn.go (one connection per subscription)
   Executable; no proofs in this file.

   Granularity (DESIGN.md appendix A): an action is a maximal region in which an actor touches
   shared state under one lock ([M] = WSTransport.mu, [S_c] = wsConnection.subsMu) or through one
   atomic (closed).  Actors: subscriber goroutines i (Subscribe, later the cancel function), per
   connection the read loop, idle-timer goroutines and the shutdown continuation, and the
   environment (upstream server, ping loop).

   Abstractions, NAMED (they are hypotheses of every theorem about the Go code, not of the Coq
   theorems, which are closed):
     A-hash   connKey hashes the tuple (endpoint, subprotocol, headers, init payload) with
              xxhash64; the model keys the maps by the tuple itself (no collisions).  The headers
              enter as what Header.Write writes: every value of every name (hdr_lines).
     A-xid    xid.New() never repeats and is not guessable: wire ids are drawn from a counter and
              the upstream only names ids it has been sent, or ids nobody holds.
     A-fifo   one read loop per connection reads frames in the order the upstream wrote them
              (TCP + coder/websocket); an upstream frame is modelled at the moment it is read.
     A-cb     handler callbacks return (a handler that blocks stalls its connection's read loop;
              that is the documented contract of common.Handler).
   Upstream frames are the WIRE alphabet of both sub-protocols (frame = type x id? x payload class): decode,
   IntoClientMessage and dispatch's removal test are modelled as the code does them (decode / into_client /
   wire_terminal); a connection carries its negotiated sub-protocol (c_proto, fixed at UpAck).  A frame that
   does not decode is a read error of the read loop: the socket is lost (cause CUpstream).
   Left out: ErrInvalidSubprotocol (an upstream that answers with a sub-protocol that was not offered: a dial
   failure like UpReject), Client.ctx shutdown (ErrClientClosed), the write timeout expiring on a stalled
   upstream (behaves like UpDrop), ping/pong bookkeeping (only its effect, APingTimeout).

   This is the code AFTER the three repairs (ModelV0.v is the code as found):
     - getOrDial: the dialler leaves the dialing table ([M]) BEFORE it publishes its result; a dial
       that failed while the dialler's own ctx was done is published as "aborted", and a waiter
       never inherits an aborted result: it returns its own ctx error or enters getOrDial again
       (SRetry);
     - removeSub / the idle timer call closeIfEmpty, which tests "table empty" and sets the closed
       flag in ONE subsMu critical section (close_if_empty, a single action); Subscribe enters
       getOrDial again when subscribe finds the connection closed (SRetry);
     - the subscribe frame is written under the connection's ctx; the subscriber's ctx is only
       looked at before the write (ASend). *)
From Coq Require Import List NArith Arith Bool.
Import ListNotations.

(* common.Options.Headers is an http.Header, a MULTIMAP name -> list of values.  [hdrs] is that map enumerated in
   the order of its names (Header.Write sorts the names; a Go map holds a name once -- names are compared as
   spelled, connKey does not canonicalise them).  connKey feeds Header.Write's output to the hash: one
   "name: value\r\n" line per VALUE -- every value of every name, in the order of the value list, nothing for a
   name without values.  [hdr_lines] is that line sequence; it is component 3 of the key. *)
Definition hdrs := list (N * list N).
Definition hdr_lines (h : hdrs) : list (N * N) := flat_map (fun e => map (pair (fst e)) (snd e)) h.
Definition line_eqb (a b : N * N) : bool := N.eqb (fst a) (fst b) && N.eqb (snd a) (snd b).
Fixpoint lines_eqb (a b : list (N * N)) : bool :=
  match a, b with
  | [], [] => true
  | x :: a', y :: b' => line_eqb x y && lines_eqb a' b'
  | _, _ => false
  end.

Definition key := (N * N * list (N * N) * N)%type.   (* endpoint, subprotocol, header lines (ALL of them), init payload *)
Definition key_eqb (a b : key) : bool :=
  match a, b with
  | (a1, a2, a3, a4), (b1, b2, b3, b4) => N.eqb a1 b1 && N.eqb a2 b2 && lines_eqb a3 b3 && N.eqb a4 b4
  end.

(* the option tuple a subscriber passes to Subscribe, and connKey *)
Definition opts := (N * N * hdrs * N)%type.
Definition conn_key (o : opts) : key := match o with (e, p, h, ip) => (e, p, hdr_lines h, ip) end.

(* why a connection died / who is to blame (ghost tag carried by errors) *)
Inductive cause :=
| CUpstream                (* upstream dropped / sent garbage: read error *)
| CPing                    (* pong overdue *)
| CIdle                    (* closed because the subscription table was empty *)
| CWriteCtx (k : nat).     (* historical (ModelV0): k's write ctx was cancelled and took the socket down *)

Inductive err :=
| ECtx (k : nat) (init : bool)   (* context error of subscriber k's ctx (during init: wrapped in ErrInitFailed) *)
| EDial                          (* ErrFailedUpgrade / ErrDialFailed *)
| EInit (r : N)                  (* ErrInitFailed: 0 ack timeout, 1 connection_error, 2 drop, 3 other frame *)
| EClosed (c : cause)            (* common.ErrConnectionClosed from subscribe *)
| EExists                        (* ErrSubscriptionExists *)
| EWrite (c : cause).            (* protocol.Subscribe write failed *)

(* what a handler is called with (common.Message): MessageTypeData with / without payload,
   MessageTypeError (has Payload), MessageTypeComplete, MessageTypeConnectionError produced by the
   frame conversion (e: Err is set -- legacy connection_error -- or nil), MessageTypeUnknown *)
Inductive kind := KData (tag : N) | KDataNil | KError | KComplete | KConnErr (e : bool) | KUnknown.
(* MessageType.IsTerminal *)
Definition terminal (k : kind) : bool :=
  match k with KData _ | KDataNil | KUnknown => false | KError | KComplete | KConnErr _ => true end.

(* ---- upstream frames: the wire alphabet of both sub-protocols (protocol/graphql_transport_ws.go,
   protocol/graphql_ws.go), the decoded protocol.WireMessage, and WireMessage.IntoClientMessage ---- *)
Inductive proto := PTws | PGws.            (* graphql-transport-ws | legacy graphql-ws *)
Inductive ftype :=
| FNext | FData | FError | FComplete | FConnError | FPing | FPong | FKa | FAck
| FOther                                   (* a JSON object whose "type" neither protocol knows *)
| FGarbage.                                (* not a JSON object at all: wsjson.Read fails *)
(* "payload": absent | a JSON object (for next/data: {"data":{"v":tag}}) | JSON that does not
   unmarshal into an ExecutionResult (a string, an array ...) *)
Inductive fpayload := PNone | PObj (tag : N) | PBad.
Record frame := { f_type : ftype; f_id : option nat; f_pl : fpayload }.

Inductive wtype := WData | WError | WComplete | WPing | WPong.
Record wire := { w_id : option nat; w_type : wtype; w_pl : fpayload (* PNone: Payload == nil *); w_err : bool (* Err != nil *) }.

Definition mkw (f : frame) (t : wtype) (pl : fpayload) (e : bool) : option wire :=
  Some {| w_id := f_id f; w_type := t; w_pl := pl; w_err := e |}.
(* next / data: a present payload must unmarshal into an ExecutionResult, else decode fails *)
Definition decode_data (f : frame) : option wire :=
  match f_pl f with PBad => None | pl => mkw f WData pl false end.
(* decode of both protocols; None: Read returns an error (wsjson.Read or "unknown message type") *)
Definition decode (p : proto) (f : frame) : option wire :=
  match f_type f with
  | FError => mkw f WError (f_pl f) false           (* any payload is kept raw as Errors *)
  | FComplete => mkw f WComplete PNone false
  | FNext => match p with PTws => decode_data f | PGws => None end
  | FData => match p with PGws => decode_data f | PTws => None end
  | FPing => match p with PTws => mkw f WPing PNone false | PGws => None end
  | FPong => match p with PTws => mkw f WPong PNone false | PGws => None end
  | FKa => match p with PGws => mkw f WPing PNone false | PTws => None end
  | FConnError => match p with PGws => mkw f WError PNone true | PTws => None end   (* Payload stays nil, Err set *)
  | FAck | FOther | FGarbage => None
  end.
Definition into_client (m : wire) : kind :=
  match w_type m with
  | WData => match w_pl m with PObj t => KData t | _ => KDataNil end
  | WError => match w_pl m with PNone => KConnErr (w_err m) | _ => KError end
  | WComplete => KComplete
  | _ => KUnknown
  end.
(* dispatch: msg.Type == MessageComplete || msg.Type == MessageError -> removeSub *)
Definition wire_terminal (t : wtype) : bool := match t with WError | WComplete => true | _ => false end.
(* the graphql-transport-ws frame that means k for wire id w *)
Definition frame_of (w : nat) (k : kind) : frame :=
  match k with
  | KData t => {| f_type := FNext; f_id := Some w; f_pl := PObj t |}
  | KDataNil => {| f_type := FNext; f_id := Some w; f_pl := PNone |}
  | KError => {| f_type := FError; f_id := Some w; f_pl := PObj 0 |}
  | KComplete => {| f_type := FComplete; f_id := Some w; f_pl := PNone |}
  | KConnErr _ => {| f_type := FError; f_id := Some w; f_pl := PNone |}
  | KUnknown => {| f_type := FPing; f_id := Some w; f_pl := PNone |}
  end.
(* the sub-protocols a dial for this option tuple can end up with (negotiateSubprotocol): field 2
   of the key is 1 = graphql-transport-ws, 2 = graphql-ws, 0 = auto (the upstream chooses) *)
Definition proto_ok (k : key) (p : proto) : bool :=
  match k with (_, sp, _, _) =>
    match p with PTws => N.eqb sp 1 || N.eqb sp 0 | PGws => N.eqb sp 2 || N.eqb sp 0 end
  end.

(* ---- SSE events (sse_conn.go parseEventBytes / parseEvent) ---- *)
Inductive setype := SNext | SError | SComplete | SNoType | SOtherType.
Inductive sdata := DAbsent | DEmpty | DObj (tag : N) | DBad.       (* no data line | "data:" | an object | not an ExecutionResult *)
Record sse_event := { se_type : setype; se_data : sdata }.
Definition sse_data_kind (d : sdata) : kind :=
  match d with DObj t => KData t | _ => KConnErr true end.          (* json.Unmarshal error -> connection error *)
(* None: the event is skipped (no event type and no data: keep-alive comment) *)
Definition sse_parse (e : sse_event) : option kind :=
  match se_type e with
  | SNext => Some (sse_data_kind (se_data e))
  | SError => Some KError
  | SComplete => Some KComplete
  | SNoType => match se_data e with DAbsent => None | DEmpty => Some KComplete | d => Some (sse_data_kind d) end
  | SOtherType => match se_data e with DAbsent | DEmpty => Some KComplete | d => Some (sse_data_kind d) end
  end.
Definition sse_event_of (k : kind) : sse_event :=
  match k with
  | KData t => {| se_type := SNext; se_data := DObj t |}
  | KError => {| se_type := SError; se_data := DObj 0 |}
  | KComplete => {| se_type := SComplete; se_data := DAbsent |}
  | _ => {| se_type := SNext; se_data := DBad |}
  end.

Inductive cont := KCancel | KSendFail (e : err).

Inductive spc :=
| SIdle
| SRetry                                   (* about to enter getOrDial again (aborted dial / connection found closed) *)
| SWait (d : nat)                          (* select { ctx.Done ; result.done } *)
| SDial (d : nat)                          (* inside t.dial(ctx, ...) with OWN ctx *)
| SBook (d : nat) (r : option err)         (* dial returned; [M] bookkeeping pending *)
| SPublish (d : nat) (r : option err)      (* left the dialing table; result not yet published *)
| SHaveConn (c : nat)                      (* getOrDial returned c *)
| SSend (c w : nat)                        (* inserted; protocol.Subscribe pending *)
| SActive (c w : nat)                      (* Subscribe returned the cancel func *)
| SUnsubSend (c w : nat)                   (* unsubscribe: entry seen, protocol.Unsubscribe pending *)
| SRemove (c w : nat) (k : cont)           (* removeSub pending *)
| SClose (c : nat) (k : cont)              (* removeSub saw the table empty, idle = 0: closeIfEmpty pending *)
| SDone
| SFailed.

Inductive rlpc := RLRun | RLRemove (w : nat) | RLClose | RLExit.
Inductive dphase := DConnecting | DInit | DReturned.

Record dial := { d_key : key; d_owner : nat; d_phase : dphase; d_done : option (option err);
                 d_abort : bool (* published as given up under the dialler's own ctx *) }.

Record conn := {
  c_key : key;
  c_proto : proto;                (* negotiated sub-protocol *)
  c_subs : list (nat * nat);      (* wire id -> handler (owner index) *)
  c_closed : bool;                (* atomic closed *)
  c_dead : option cause;          (* the socket is unusable, and why *)
  c_timers : nat;                 (* armed time.AfterFunc idle timers *)
  c_rl : rlpc;
  c_rm : bool                     (* shutdown ran up to the error callbacks; onEmpty (removeConn) pending *)
}.

Inductive ssepc := SseIdle | SseReq | SseActive | SseEnded.

Record st := {
  pc : nat -> spc; ctxc : nat -> bool; okey : nat -> key;
  conns : key -> option nat; dialing : key -> option nat;
  dials : nat -> option dial; cns : nat -> option conn;
  next_c : nat; next_w : nat; idle : bool;
  seen : list (nat * nat);        (* (wire id, sender) of every subscribe frame the upstream has been sent *)
  sse : nat -> ssepc
}.

Inductive ev :=
| ORet (i : nat) (r : option err)
| ODeliver (i : nat) (k : kind)
| OConnErr (i : nat) (c : cause)
| OCancel (i : nat)
| OSrvDial (d : nat) (k : key)
| OSrvSub (c w i : nat)
| OSrvStop (c w : nat)
| OSrvClosed (c : nat)
| OUp (c : nat) (p : proto) (f : frame)
| OAccept (d : nat) | OReject (d : nat) | OAck (d : nat) | OInitFail (d : nat) (r : N)
| ODrop (c : nat) | OPing (c : nat)
| OTick | OStats (ws sse : nat)
| OSseReq (i : nat) | OSseRet (i : nat) (ok : bool) | OSseUp (i : nat) (e : sse_event)
| OSseDeliver (i : nat) (k : kind) | OSseErr (i : nat).

Inductive action :=
| ASub (i : nat) (k : key) | ACtxCancel (i : nat)
| AWaitDone (i : nat) | AWaitCtx (i : nat) | ADialCtx (i : nat) | ARetry (i : nat)
| ABook (i : nat) | APublish (i : nat) | AInsert (i : nat)
| ASend (i : nat)
| AUnsub (i : nat) | AUnsubSend (i : nat) | ARemove (i : nat) | AClose (i : nat)
| ARLRemove (c : nat) | ARLClose (c : nat) | ARLReadErr (c : nat)
| ATimerFire (c : nat) | ARemoveConn (c : nat)
| UpAccept (d : nat) | UpReject (d : nat) | UpAck (d : nat) (p : proto) | UpInitFail (d : nat) (r : N)
| UpMsg (c : nat) (f : frame) | UpDrop (c : nat) | APingTimeout (c : nat)
| SseSub (i : nat) | SseOk (i : nat) | SseFail (i : nat) | SseMsg (i : nat) (e : sse_event)
| SseDrop (i : nat) | SseCancel (i : nat).

(* ---- maps ---- *)
Definition upd {A} (f : nat -> A) (i : nat) (v : A) : nat -> A := fun j => if Nat.eqb j i then v else f j.
Definition updk {A} (f : key -> A) (k : key) (v : A) : key -> A := fun j => if key_eqb j k then v else f j.

Fixpoint lookup (w : nat) (l : list (nat * nat)) : option nat :=
  match l with
  | [] => None
  | (w', i) :: r => if Nat.eqb w' w then Some i else lookup w r
  end.
Fixpoint remove_w (w : nat) (l : list (nat * nat)) : list (nat * nat) :=
  match l with
  | [] => []
  | (w', i) :: r => if Nat.eqb w' w then remove_w w r else (w', i) :: remove_w w r
  end.
Definition is_nil {A} (l : list A) : bool := match l with [] => true | _ => false end.
Fixpoint mem_nat (x : nat) (l : list nat) : bool :=
  match l with [] => false | y :: r => Nat.eqb x y || mem_nat x r end.

(* ---- setters ---- *)
Definition set_pc (s : st) (i : nat) (p : spc) : st :=
  {| pc := upd (pc s) i p; ctxc := ctxc s; okey := okey s; conns := conns s; dialing := dialing s;
     dials := dials s; cns := cns s; next_c := next_c s; next_w := next_w s; idle := idle s;
     seen := seen s; sse := sse s |}.
Definition set_cn (s : st) (c : nat) (x : conn) : st :=
  {| pc := pc s; ctxc := ctxc s; okey := okey s; conns := conns s; dialing := dialing s;
     dials := dials s; cns := upd (cns s) c (Some x); next_c := next_c s; next_w := next_w s;
     idle := idle s; seen := seen s; sse := sse s |}.
Definition set_dial (s : st) (d : nat) (x : dial) : st :=
  {| pc := pc s; ctxc := ctxc s; okey := okey s; conns := conns s; dialing := dialing s;
     dials := upd (dials s) d (Some x); cns := cns s; next_c := next_c s; next_w := next_w s;
     idle := idle s; seen := seen s; sse := sse s |}.
Definition set_conns (s : st) (m : key -> option nat) : st :=
  {| pc := pc s; ctxc := ctxc s; okey := okey s; conns := m; dialing := dialing s;
     dials := dials s; cns := cns s; next_c := next_c s; next_w := next_w s; idle := idle s;
     seen := seen s; sse := sse s |}.
Definition set_dialing (s : st) (m : key -> option nat) : st :=
  {| pc := pc s; ctxc := ctxc s; okey := okey s; conns := conns s; dialing := m;
     dials := dials s; cns := cns s; next_c := next_c s; next_w := next_w s; idle := idle s;
     seen := seen s; sse := sse s |}.
Definition set_sse (s : st) (i : nat) (p : ssepc) : st :=
  {| pc := pc s; ctxc := ctxc s; okey := okey s; conns := conns s; dialing := dialing s;
     dials := dials s; cns := cns s; next_c := next_c s; next_w := next_w s; idle := idle s;
     seen := seen s; sse := upd (sse s) i p |}.

Definition c_set_subs (x : conn) (l : list (nat * nat)) : conn :=
  {| c_key := c_key x; c_proto := c_proto x; c_subs := l; c_closed := c_closed x; c_dead := c_dead x; c_timers := c_timers x;
     c_rl := c_rl x; c_rm := c_rm x |}.
Definition c_set_rl (x : conn) (r : rlpc) : conn :=
  {| c_key := c_key x; c_proto := c_proto x; c_subs := c_subs x; c_closed := c_closed x; c_dead := c_dead x; c_timers := c_timers x;
     c_rl := r; c_rm := c_rm x |}.
Definition c_set_timers (x : conn) (t : nat) : conn :=
  {| c_key := c_key x; c_proto := c_proto x; c_subs := c_subs x; c_closed := c_closed x; c_dead := c_dead x; c_timers := t;
     c_rl := c_rl x; c_rm := c_rm x |}.
Definition c_set_rm (x : conn) (b : bool) : conn :=
  {| c_key := c_key x; c_proto := c_proto x; c_subs := c_subs x; c_closed := c_closed x; c_dead := c_dead x; c_timers := c_timers x;
     c_rl := c_rl x; c_rm := b |}.
(* the socket becomes unusable (first cause wins) *)
Definition c_kill (x : conn) (cz : cause) : conn :=
  {| c_key := c_key x; c_proto := c_proto x; c_subs := c_subs x; c_closed := c_closed x;
     c_dead := match c_dead x with None => Some cz | d => d end; c_timers := c_timers x;
     c_rl := c_rl x; c_rm := c_rm x |}.
Definition kill_evs (c : nat) (x : conn) : list ev :=
  match c_dead x with None => [OSrvClosed c] | _ => [] end.

Definition d_set (x : dial) (p : dphase) (dn : option (option err)) : dial :=
  {| d_key := d_key x; d_owner := d_owner x; d_phase := p; d_done := dn; d_abort := d_abort x |}.
(* result.conn, result.err, result.aborted := ...; close(result.done) *)
Definition d_publish (x : dial) (r : option err) (ab : bool) : dial :=
  {| d_key := d_key x; d_owner := d_owner x; d_phase := DReturned; d_done := Some r; d_abort := ab |}.

Definition init (idl : bool) : st :=
  {| pc := fun _ => SIdle; ctxc := fun _ => false; okey := fun _ => (0, 0, [], 0)%N;
     conns := fun _ => None; dialing := fun _ => None; dials := fun _ => None; cns := fun _ => None;
     next_c := 0; next_w := 0; idle := idl; seen := []; sse := fun _ => SseIdle |}.

(* shutdown(err) / teardown(err) up to and including the error callbacks and c.cancel(): CAS
   closed; close the socket; swap the table; call every handler with the connection error.
   onEmpty is a separate action (ARemoveConn).  A second caller returns at the CAS. *)
Definition shut (s : st) (c : nat) (cz : cause) : st * list ev :=
  match cns s c with
  | None => (s, [])
  | Some x =>
    if c_closed x then (s, [])
    else
      let x' := {| c_key := c_key x; c_proto := c_proto x; c_subs := []; c_closed := true;
                   c_dead := match c_dead x with None => Some cz | d => d end;
                   c_timers := c_timers x; c_rl := c_rl x; c_rm := true |} in
      (set_cn s c x', map (fun p => OConnErr (snd p) cz) (c_subs x) ++ kill_evs c x)
  end.

(* closeIfEmpty: [S_c: len(subs) == 0 && closed.CAS(false, true)] then teardown.  The emptiness
   test and the flag are one critical section; subscribe tests the flag under the same lock. *)
Definition close_if_empty (s : st) (c : nat) : st * list ev :=
  match cns s c with
  | Some x => if is_nil (c_subs x) then shut s c CIdle else (s, [])
  | None => (s, [])
  end.

(* removeSub(id): [S_c] delete, empty?  -> arm a timer (idle > 0) or go on to closeIfEmpty *)
Definition remove_sub (s : st) (c w : nat) : option (st * bool) :=   (* bool: closeIfEmpty pending *)
  match cns s c with
  | None => None
  | Some x =>
    let l := remove_w w (c_subs x) in
    let x1 := c_set_subs x l in
    if is_nil l then
      if idle s then Some (set_cn s c (c_set_timers x1 (S (c_timers x1))), false)
      else Some (set_cn s c x1, true)
    else Some (set_cn s c x1, false)
  end.

Definition ret_evs (i : nat) (k : cont) : list ev :=
  match k with KCancel => [] | KSendFail e => [ORet i (Some e)] end.
Definition after (k : cont) : spc := match k with KCancel => SDone | KSendFail _ => SFailed end.

(* getOrDial [M]: a live connection stored under the key | an attempt in the dialing table | become the dialler *)
Definition get_or_dial (s0 : st) (i : nat) (k : key) : st * list ev :=
  let live := match conns s0 k with
              | Some c => match cns s0 c with Some x => if c_closed x then None else Some c | None => None end
              | None => None end in
  match live with
  | Some c => (set_pc s0 i (SHaveConn c), [])
  | None =>
    match dialing s0 k with
    | Some d => (set_pc s0 i (SWait d), [])
    | None =>
      let d := next_c s0 in
      ({| pc := upd (pc s0) i (SDial d); ctxc := ctxc s0; okey := okey s0; conns := conns s0;
          dialing := updk (dialing s0) k (Some d);
          dials := upd (dials s0) d (Some {| d_key := k; d_owner := i; d_phase := DConnecting; d_done := None;
                                             d_abort := false |});
          cns := cns s0; next_c := S d; next_w := next_w s0; idle := idle s0; seen := seen s0;
          sse := sse s0 |}, [OSrvDial d k])
    end
  end.

Definition set_okey (s : st) (i : nat) (k : key) : st :=
  {| pc := pc s; ctxc := ctxc s; okey := upd (okey s) i k; conns := conns s; dialing := dialing s;
     dials := dials s; cns := cns s; next_c := next_c s; next_w := next_w s; idle := idle s;
     seen := seen s; sse := sse s |}.

Definition step (s : st) (a : action) : option (st * list ev) :=
  match a with
  (* ---- Subscribe_i: getOrDial [M] ---- *)
  | ASub i k =>
    match pc s i with
    | SIdle => Some (get_or_dial (set_okey s i k) i k)
    | _ => None
    end
  (* the waiter of an aborted dial / Subscribe after subscribe found the connection closed *)
  | ARetry i =>
    match pc s i with
    | SRetry => Some (get_or_dial s i (okey s i))
    | _ => None
    end
  | ACtxCancel i =>
    if ctxc s i then None
    else Some ({| pc := pc s; ctxc := upd (ctxc s) i true; okey := okey s; conns := conns s; dialing := dialing s;
                  dials := dials s; cns := cns s; next_c := next_c s; next_w := next_w s; idle := idle s;
                  seen := seen s; sse := sse s |}, [OCancel i])
  | AWaitDone i =>
    match pc s i with
    | SWait d =>
      match dials s d with
      | Some x =>
        match d_done x with
        | Some None => Some (set_pc s i (SHaveConn d), [])
        | Some (Some e) =>
          if d_abort x then
            (* not this caller's failure: its own ctx error, or dial again *)
            if ctxc s i then Some (set_pc s i SFailed, [ORet i (Some (ECtx i false))])
            else Some (set_pc s i SRetry, [])
          else Some (set_pc s i SFailed, [ORet i (Some e)])
        | None => None
        end
      | None => None
      end
    | _ => None
    end
  | AWaitCtx i =>
    match pc s i with
    | SWait d => if ctxc s i then Some (set_pc s i SFailed, [ORet i (Some (ECtx i false))]) else None
    | _ => None
    end
  (* ---- the dialler's dial(ctx_i, ...): environment decides, or the dialler's OWN ctx ---- *)
  | ADialCtx i =>
    match pc s i with
    | SDial d =>
      match dials s d with
      | Some x =>
        if ctxc s i then
          match d_phase x with
          | DConnecting => Some (set_pc (set_dial s d (d_set x DReturned None)) i (SBook d (Some (ECtx i false))), [OSrvClosed d])
          | DInit => Some (set_pc (set_dial s d (d_set x DReturned None)) i (SBook d (Some (ECtx i true))), [OSrvClosed d])
          | DReturned => None
          end
        else None
      | None => None
      end
    | _ => None
    end
  | UpAccept d =>
    match dials s d with
    | Some x => match d_phase x with
                | DConnecting => Some (set_dial s d (d_set x DInit None), [OAccept d])
                | _ => None end
    | None => None
    end
  | UpReject d =>
    match dials s d with
    | Some x => match d_phase x with
                | DConnecting => Some (set_pc (set_dial s d (d_set x DReturned None)) (d_owner x) (SBook d (Some EDial)), [OReject d])
                | _ => None end
    | None => None
    end
  | UpAck d p =>
    match dials s d with
    | Some x => match d_phase x with
                | DInit =>
                  if negb (proto_ok (d_key x) p) then None else
                  let cn := {| c_key := d_key x; c_proto := p; c_subs := []; c_closed := false; c_dead := None; c_timers := 0;
                               c_rl := RLRun; c_rm := false |} in
                  Some (set_pc (set_cn (set_dial s d (d_set x DReturned None)) d cn) (d_owner x) (SBook d None), [OAck d])
                | _ => None end
    | None => None
    end
  | UpInitFail d r =>
    match dials s d with
    | Some x => match d_phase x with
                | DInit => Some (set_pc (set_dial s d (d_set x DReturned None)) (d_owner x) (SBook d (Some (EInit r))), [OInitFail d r; OSrvClosed d])
                | _ => None end
    | None => None
    end
  (* [M]: delete(dialing, key); on success conns[key] = conn -- BEFORE the result is published *)
  | ABook i =>
    match pc s i with
    | SBook d r =>
      let k := okey s i in
      let s1 := set_dialing s (updk (dialing s) k None) in
      match r with
      | None => Some (set_pc (set_conns s1 (updk (conns s1) k (Some d))) i (SPublish d r), [])
      | Some _ => Some (set_pc s1 i (SPublish d r), [])
      end
    | _ => None
    end
  (* result.aborted = err != nil && ctx.Err() != nil; close(result.done); return *)
  | APublish i =>
    match pc s i with
    | SPublish d r =>
      match dials s d with
      | Some x =>
        match r with
        | None => Some (set_pc (set_dial s d (d_publish x r false)) i (SHaveConn d), [])
        | Some e => Some (set_pc (set_dial s d (d_publish x r (ctxc s i))) i SFailed, [ORet i (Some e)])
        end
      | None => None
      end
    | _ => None
    end
  (* ---- conn.subscribe ---- *)
  | AInsert i =>
    match pc s i with
    | SHaveConn c =>
      match cns s c with
      | Some x =>
        let w := next_w s in
        let s1 := {| pc := pc s; ctxc := ctxc s; okey := okey s; conns := conns s; dialing := dialing s;
                     dials := dials s; cns := cns s; next_c := next_c s; next_w := S w; idle := idle s;
                     seen := seen s; sse := sse s |} in
        if c_closed x then Some (set_pc s1 i SRetry, [])   (* ErrConnectionClosed: Subscribe starts over *)
        else match lookup w (c_subs x) with
             | Some _ => Some (set_pc s1 i SFailed, [ORet i (Some EExists)])
             | None => Some (set_pc (set_cn s1 c (c_set_subs x ((w, i) :: c_subs x))) i (SSend c w), [])
             end
      | None => None
      end
    | _ => None
    end
  | ASend i =>
    match pc s i with
    | SSend c w =>
      match cns s c with
      | Some x =>
        (* err := ctx.Err(); otherwise the frame is written under the CONNECTION's ctx *)
        if ctxc s i then Some (set_pc s i (SRemove c w (KSendFail (ECtx i false))), [])
        else
        match c_dead x with
        | None =>
          Some ({| pc := upd (pc s) i (SActive c w); ctxc := ctxc s; okey := okey s; conns := conns s;
                   dialing := dialing s; dials := dials s; cns := cns s; next_c := next_c s; next_w := next_w s;
                   idle := idle s; seen := (w, i) :: seen s; sse := sse s |}, [OSrvSub c w i; ORet i None])
        | Some z => Some (set_pc s i (SRemove c w (KSendFail (EWrite z))), [])
        end
      | None => None
      end
    | _ => None
    end
  (* ---- the cancel function (context.AfterFunc(ctx_i, cancel)) ---- *)
  | AUnsub i =>
    match pc s i with
    | SActive c w =>
      if ctxc s i then
        match cns s c with
        | Some x => match lookup w (c_subs x) with
                    | Some _ => Some (set_pc s i (SUnsubSend c w), [])
                    | None => Some (set_pc s i SDone, [])
                    end
        | None => None
        end
      else None
    | _ => None
    end
  | AUnsubSend i =>
    match pc s i with
    | SUnsubSend c w =>
      match cns s c with
      | Some x => Some (set_pc s i (SRemove c w KCancel), match c_dead x with None => [OSrvStop c w] | _ => [] end)
      | None => None
      end
    | _ => None
    end
  | ARemove i =>
    match pc s i with
    | SRemove c w k =>
      match remove_sub s c w with
      | Some (s1, true) => Some (set_pc s1 i (SClose c k), [])
      | Some (s1, false) => Some (set_pc s1 i (after k), ret_evs i k)
      | None => None
      end
    | _ => None
    end
  | AClose i =>
    match pc s i with
    | SClose c k => let (s1, evs) := close_if_empty s c in Some (set_pc s1 i (after k), evs ++ ret_evs i k)
    | _ => None
    end
  (* ---- read loop of connection c ---- *)
  (* readLoop: protocol.Read (decode) -> ping / pong | dispatch(msg): [S_c: lookup msg.ID] handler(IntoClientMessage)
     and, for a wire complete / error, removeSub.  A frame that does not decode is a read error. *)
  | UpMsg c f =>
    match cns s c with
    | Some x =>
      match c_rl x, c_closed x, c_dead x with
      | RLRun, false, None =>
        match decode (c_proto x) f with
        | None => Some (set_cn s c (c_kill x CUpstream), [OUp c (c_proto x) f; OSrvClosed c])
        | Some m =>
          match w_type m with
          | WPing | WPong => Some (s, [OUp c (c_proto x) f])
          | _ =>
            match w_id m with
            | None => Some (s, [OUp c (c_proto x) f])            (* subs[""]: no such entry *)
            | Some w =>
              if mem_nat w (map fst (seen s)) || Nat.leb (next_w s) w then
                match lookup w (c_subs x) with
                | Some i => Some (if wire_terminal (w_type m) then set_cn s c (c_set_rl x (RLRemove w)) else s,
                                  [OUp c (c_proto x) f; ODeliver i (into_client m)])
                | None => Some (s, [OUp c (c_proto x) f])
                end
              else None
            end
          end
        end
      | _, _, _ => None
      end
    | None => None
    end
  | ARLRemove c =>
    match cns s c with
    | Some x =>
      match c_rl x with
      | RLRemove w =>
        match remove_sub s c w with
        | Some (s1, b) =>
          match cns s1 c with
          | Some x1 => Some (set_cn s1 c (c_set_rl x1 (if b then RLClose else RLRun)), [])
          | None => None
          end
        | None => None
        end
      | _ => None
      end
    | None => None
    end
  | ARLClose c =>
    match cns s c with
    | Some x =>
      match c_rl x with
      | RLClose =>
        (* closeIfEmpty; the loop then tests closed (-> ARLReadErr leaves it) or reads on *)
        let (s1, evs) := close_if_empty s c in
        match cns s1 c with
        | Some x1 => Some (set_cn s1 c (c_set_rl x1 RLRun), evs)
        | None => None
        end
      | _ => None
      end
    | None => None
    end
  | ARLReadErr c =>
    match cns s c with
    | Some x =>
      match c_rl x, c_dead x with
      | RLRun, Some z =>
        let (s1, evs) := shut s c z in
        match cns s1 c with
        | Some x1 => Some (set_cn s1 c (c_set_rl x1 RLExit), evs)
        | None => None
        end
      | _, _ => None
      end
    | None => None
    end
  (* ---- idle timer fires: closeIfEmpty ---- *)
  | ATimerFire c =>
    match cns s c with
    | Some x =>
      match c_timers x with
      | S t => Some (close_if_empty (set_cn s c (c_set_timers x t)) c)
      | O => None
      end
    | None => None
    end
  (* onEmpty: removeConn(key) deletes whatever is stored under the key *)
  | ARemoveConn c =>
    match cns s c with
    | Some x =>
      if c_rm x then Some (set_conns (set_cn s c (c_set_rm x false)) (updk (conns s) (c_key x) None), [])
      else None
    | None => None
    end
  | UpDrop c =>
    match cns s c with
    | Some x => match c_dead x with
                | None => Some (set_cn s c (c_kill x CUpstream), [ODrop c; OSrvClosed c])
                | Some _ => None end
    | None => None
    end
  | APingTimeout c =>
    match cns s c with
    | Some x => if c_closed x then None else let (s1, evs) := shut s c CPing in Some (s1, OPing c :: evs)
    | None => None
    end
  (* ---- SSE: one connection per subscription ---- *)
  | SseSub i => match sse s i with SseIdle => Some (set_sse s i SseReq, [OSseReq i]) | _ => None end
  | SseOk i => match sse s i with SseReq => Some (set_sse s i SseActive, [OSseRet i true]) | _ => None end
  | SseFail i => match sse s i with SseReq => Some (set_sse s i SseEnded, [OSseRet i false]) | _ => None end
  | SseMsg i e =>
    match sse s i with
    | SseActive =>
      match sse_parse e with
      | Some k => Some (if terminal k then set_sse s i SseEnded else s, [OSseUp i e; OSseDeliver i k])
      | None => Some (s, [OSseUp i e])
      end
    | _ => None
    end
  | SseDrop i => match sse s i with SseActive => Some (set_sse s i SseEnded, [OSseErr i]) | _ => None end
  | SseCancel i =>
    match sse s i with
    | SseActive => Some (set_sse s i SseEnded, [OCancel i])
    | SseReq => Some (set_sse s i SseEnded, [OCancel i; OSseRet i false])
    | _ => None
    end
  end.

Fixpoint run (s : st) (tr : list action) : option (st * list ev) :=
  match tr with
  | [] => Some (s, [])
  | a :: r =>
    match step s a with
    | Some (s1, e1) => match run s1 r with Some (s2, e2) => Some (s2, e1 ++ e2) | None => None end
    | None => None
    end
  end.

(* ---- correspondence glue: run the enabled INTERNAL actions (not environment, not timers)
   in a fixed order until none is enabled.  Used by the driver after every
   harness-controlled event. ---- *)
Fixpoint seq (n : nat) : list nat := match n with O => [] | S m => seq m ++ [m] end.
Definition internal_candidates (nsub : nat) (s : st) : list action :=
  flat_map (fun i => [AWaitDone i; AWaitCtx i; ADialCtx i; ARetry i; ABook i; APublish i; AInsert i; ASend i;
                      AUnsub i; AUnsubSend i; ARemove i; AClose i]) (seq nsub)
  ++ flat_map (fun c => [ARLRemove c; ARLClose c; ARLReadErr c; ARemoveConn c]) (seq (next_c s)).
Fixpoint first_enabled (s : st) (l : list action) : option (st * list ev) :=
  match l with
  | [] => None
  | a :: r => match step s a with Some x => Some x | None => first_enabled s r end
  end.
Fixpoint quiesce (fuel nsub : nat) (s : st) : st * list ev :=
  match fuel with
  | O => (s, [])
  | S f =>
    match first_enabled s (internal_candidates nsub s) with
    | Some (s1, e1) => let (s2, e2) := quiesce f nsub s1 in (s2, e1 ++ e2)
    | None => (s, [])
    end
  end.
Definition timer_candidates (s : st) : list action :=
  flat_map (fun c => [ATimerFire c]) (seq (next_c s)).
(* the idle period elapses: every armed timer fires *)
Fixpoint tick (fuel nsub : nat) (s : st) : st * list ev :=
  match fuel with
  | O => (s, [])
  | S f =>
    match first_enabled s (timer_candidates s) with
    | Some (s1, e1) => let (s2, e2) := quiesce 200 nsub s1 in
                       let (s3, e3) := tick f nsub s2 in (s3, e1 ++ e2 ++ e3)
    | None => (s, [])
    end
  end.

(* Client.Stats() *)
Definition ws_conn_count (s : st) (keys : list key) : nat :=
  length (filter (fun k => match conns s k with Some _ => true | None => false end) keys).
Definition live_conns (s : st) : list nat :=
  filter (fun c => match cns s c with Some x => negb (c_closed x) && (match c_dead x with None => true | _ => false end) | None => false end)
         (seq (next_c s)).
