(* C18: state invariants of the LTS (wire-id ownership), preserved by every step. *)
From Gv Require Import C18.Model C18.Spec C18.ProofsBasic.
From Coq Require Import List NArith Arith Bool Lia.
Import ListNotations.

Definition holdsP (p : spc) (c w : nat) : Prop :=
  match p with
  | SSend c' w' | SActive c' w' | SUnsubSend c' w' | SRemove c' w' _ => c' = c /\ w' = w
  | _ => False
  end.
Definition heldw (p : spc) : option nat :=
  match p with
  | SSend _ w | SActive _ w | SUnsubSend _ w | SRemove _ w _ => Some w
  | _ => None
  end.
Definition unsentP (p : spc) (w : nat) : Prop :=
  match p with
  | SSend _ w' | SRemove _ w' (KSendFail _) => w' = w
  | _ => False
  end.
Definition sentP (p : spc) (w : nat) : Prop :=
  match p with
  | SActive _ w' | SUnsubSend _ w' | SRemove _ w' KCancel => w' = w
  | _ => False
  end.
Definition cancelP (p : spc) : Prop :=
  match p with
  | SUnsubSend _ _ | SRemove _ _ KCancel | SClose _ KCancel => True
  | _ => False
  end.

Record Inv (s : st) : Prop := {
  I1 : forall c x w i, cns s c = Some x -> In (w, i) (c_subs x) -> holdsP (pc s i) c w;
  I2 : forall c x, cns s c = Some x -> NoDup (map fst (c_subs x));
  I3 : forall w i, In (w, i) (seen s) -> w < next_w s;
  I4 : forall w i i', In (w, i) (seen s) -> In (w, i') (seen s) -> i = i';
  I5 : forall i w, heldw (pc s i) = Some w -> w < next_w s;
  I5b : forall i w, unsentP (pc s i) w -> ~ In w (map fst (seen s));
  I6 : forall i w, sentP (pc s i) w -> In (w, i) (seen s);
  I7 : forall i, cancelP (pc s i) -> ctxc s i = true;
  I8 : forall c x, cns s c = Some x -> c_closed x = true -> c_dead x <> None /\ c_subs x = [];
  I10 : forall i j w, heldw (pc s i) = Some w -> heldw (pc s j) = Some w -> i = j
}.

Lemma inv_init : forall idl, Inv (init idl).
Proof. intros; constructor; simpl; intros; try discriminate; try tauto. Qed.

Ltac simp := simpl in *; unfold set_pc, set_cn, set_dial, set_conns, set_dialing, set_sse in *; simpl in *.
Ltac eqb_cases :=
  repeat (unfold upd in *;
          match goal with
          | H : context [Nat.eqb ?a ?b] |- _ => destruct (Nat.eqb_spec a b); subst
          | |- context [Nat.eqb ?a ?b] => destruct (Nat.eqb_spec a b); subst
          end).
Ltac inj_all :=
  repeat match goal with
         | H : Some _ = Some _ |- _ => inversion H; subst; clear H
         | H : (_, _) = (_, _) |- _ => inversion H; subst; clear H
         end.

Ltac dinv HI :=
  pose proof (I1 _ HI) as Hi1; pose proof (I2 _ HI) as Hi2; pose proof (I3 _ HI) as Hi3;
  pose proof (I4 _ HI) as Hi4; pose proof (I5 _ HI) as Hi5; pose proof (I5b _ HI) as Hi5b;
  pose proof (I6 _ HI) as Hi6; pose proof (I7 _ HI) as Hi7; pose proof (I8 _ HI) as Hi8;
  pose proof (I10 _ HI) as Hi10.

(* the invariant is stable under shut and remove_sub (they only shrink tables) *)
Lemma inv_shut : forall s c cz s' evs, Inv s -> shut s c cz = (s', evs) -> Inv s'.
Proof.
  intros s c cz s' evs HI H. destruct (shut_cases _ _ _ _ _ H) as [[-> _]|[x [Ex [Ec [-> _]]]]]; auto.
  dinv HI. constructor; simp; intros; eauto.
  - eqb_cases; inj_all; simpl in *; [tauto | eauto].
  - eqb_cases; inj_all; simpl in *; [constructor | eauto].
  - eqb_cases; inj_all; simpl in *; [|eauto]. split; [destruct (c_dead x); discriminate | reflexivity].
Qed.

Lemma inv_close_if_empty : forall s c s' evs, Inv s -> close_if_empty s c = (s', evs) -> Inv s'.
Proof.
  intros s c s' evs HI H. destruct (close_if_empty_cases _ _ _ _ H) as [(-> & _)|(x & _ & _ & _ & _ & _ & Hs)]; auto.
  eapply inv_shut; eauto.
Qed.

Lemma inv_remove_sub : forall s c w s' b, Inv s -> remove_sub s c w = Some (s', b) -> Inv s'.
Proof.
  intros s c w s' b HI H. destruct (remove_sub_cases _ _ _ _ _ H) as [x [Ex [-> _]]].
  assert (Hsub : forall p, In p (c_subs (removed_conn s x w)) -> In p (c_subs x)).
  { intros [w' i]. unfold removed_conn; simpl. destruct (is_nil _); [destruct (idle s)|]; simpl;
      rewrite remove_w_In; tauto. }
  assert (Hnd : NoDup (map fst (c_subs x)) -> NoDup (map fst (c_subs (removed_conn s x w)))).
  { unfold removed_conn; simpl. destruct (is_nil _); [destruct (idle s)|]; simpl; apply remove_w_NoDup. }
  assert (Hcl : c_closed (removed_conn s x w) = c_closed x /\ c_dead (removed_conn s x w) = c_dead x).
  { unfold removed_conn; simpl. destruct (is_nil _); [destruct (idle s)|]; simpl; auto. }
  dinv HI. constructor; simp; intros; eauto.
  - eqb_cases; inj_all; eauto.
  - eqb_cases; inj_all; eauto.
  - eqb_cases; inj_all; [|eauto]. destruct Hcl as [E1 E2]. rewrite E1 in H1. rewrite E2.
    destruct (Hi8 _ _ Ex H1) as [? E]. split; auto.
    match goal with |- ?l = [] =>
      assert (HH : forall p, In p l -> False);
        [intros p Hp; apply Hsub in Hp; rewrite E in Hp; destruct Hp
        |destruct l as [|p l']; [reflexivity | exfalso; apply (HH p); left; reflexivity]] end.
Qed.

(* states that agree on the fields the invariant reads *)
Lemma inv_ext : forall s s', Inv s -> pc s' = pc s -> (forall i, ctxc s i = true -> ctxc s' i = true) ->
  cns s' = cns s -> seen s' = seen s -> next_w s <= next_w s' -> Inv s'.
Proof.
  intros s s' HI Ep Ec En Es Ew. dinv HI.
  constructor; rewrite ?Ep, ?En, ?Es; eauto.
  - intros. eapply Nat.lt_le_trans; [eapply Hi3|]; eauto.
  - intros. eapply Nat.lt_le_trans; [eapply Hi5|]; eauto.
Qed.

(* a subscriber moves between two program points that hold no wire id *)
Lemma inv_set_pc_free : forall s i p, Inv s -> heldw (pc s i) = None -> heldw p = None ->
  (cancelP p -> ctxc s i = true) -> Inv (set_pc s i p).
Proof.
  intros s i p HI H0 Hp Hc. dinv HI.
  assert (Hh : forall c w, ~ holdsP (pc s i) c w) by (intros c w; destruct (pc s i); simpl in *; try tauto; discriminate).
  assert (Hu : forall w, ~ unsentP p w) by (intros w; destruct p; simpl in *; try tauto; try discriminate; destruct k; tauto).
  assert (Hs : forall w, ~ sentP p w) by (intros w; destruct p; simpl in *; try tauto; try discriminate; destruct k; tauto).
  constructor; simp; intros; eauto.
  - eqb_cases; [exfalso; eapply Hh; eauto | eauto].
  - eqb_cases; [congruence | eauto].
  - eqb_cases; [exfalso; eapply Hu; eauto | eauto].
  - eqb_cases; [exfalso; eapply Hs; eauto | eauto].
  - eqb_cases; eauto.
  - eqb_cases; try congruence; eauto.
Qed.

Lemma shut_frame : forall s c cz s' evs, shut s c cz = (s', evs) ->
  pc s' = pc s /\ ctxc s' = ctxc s /\ seen s' = seen s /\ next_w s' = next_w s /\ next_c s' = next_c s.
Proof.
  intros. destruct (shut_cases _ _ _ _ _ H) as [[-> _]|[x [_ [_ [-> _]]]]]; simpl; auto.
Qed.
Lemma close_if_empty_frame : forall s c s' evs, close_if_empty s c = (s', evs) ->
  pc s' = pc s /\ ctxc s' = ctxc s /\ seen s' = seen s /\ next_w s' = next_w s /\ next_c s' = next_c s.
Proof.
  intros. destruct (close_if_empty_cases _ _ _ _ H) as [(-> & _)|(x & _ & _ & _ & _ & _ & Hs)]; auto.
  eapply shut_frame; eauto.
Qed.
Lemma remove_sub_frame : forall s c w s' b, remove_sub s c w = Some (s', b) ->
  pc s' = pc s /\ ctxc s' = ctxc s /\ seen s' = seen s /\ next_w s' = next_w s /\ next_c s' = next_c s.
Proof.
  intros. destruct (remove_sub_cases _ _ _ _ _ H) as [x [_ [-> _]]]; simpl; auto.
Qed.

(* changing connection fields that the invariant does not read *)
Lemma inv_set_cn_same : forall s c x x', Inv s -> cns s c = Some x ->
  c_subs x' = c_subs x -> c_closed x' = c_closed x -> (c_dead x <> None -> c_dead x' <> None) ->
  Inv (set_cn s c x').
Proof.
  intros s c x x' HI Ex Es Ec Ed. dinv HI. constructor; simp; intros; eauto.
  - eqb_cases; inj_all; [rewrite Es in *|]; eauto.
  - eqb_cases; inj_all; [rewrite Es in *|]; eauto.
  - eqb_cases; inj_all; [rewrite Es, Ec in *; destruct (Hi8 _ _ Ex H0); auto | eauto].
Qed.

Lemma inv_pc_free_gen : forall s s' i p, Inv s -> pc s' = upd (pc s) i p ->
  (forall j, ctxc s j = true -> ctxc s' j = true) -> cns s' = cns s -> seen s' = seen s -> next_w s <= next_w s' ->
  heldw (pc s i) = None -> heldw p = None -> (cancelP p -> ctxc s i = true) -> Inv s'.
Proof.
  intros. eapply (inv_ext (set_pc s i p)); eauto. apply inv_set_pc_free; auto.
Qed.

Definition owner_free (s : st) : Prop :=
  forall d y, dials s d = Some y -> d_phase y <> DReturned -> pc s (d_owner y) = SDial d.

Ltac free_pc := eapply inv_pc_free_gen; eauto; simp; try reflexivity; try tauto;
                try (match goal with H : pc _ _ = _ |- _ => rewrite H end; simpl; try reflexivity; try tauto);
                try (simpl; tauto).

Ltac fwd_actor HI :=
  match goal with
  | Hpc : pc ?s ?i = _ |- _ =>
    pose proof (I5 _ HI i) as F5; pose proof (I5b _ HI i) as F5b; pose proof (I6 _ HI i) as F6;
    pose proof (I7 _ HI i) as F7;
    pose proof (fun j w => I10 _ HI i j w) as F10a; pose proof (fun j w => I10 _ HI j i w) as F10b;
    rewrite Hpc in F5, F5b, F6, F7, F10a, F10b; simpl in F5, F5b, F6, F7, F10a, F10b
  end.
Ltac fwd_in HI :=
  repeat match goal with
         | H : cns ?s ?c = Some ?x, H0 : In (?w, ?j) (c_subs ?x) |- _ =>
           lazymatch goal with
           | _ : holdsP (pc s j) c w |- _ => fail
           | _ => pose proof (I1 _ HI _ _ _ _ H H0)
           end
         end.
Lemma unsent_held : forall p w, unsentP p w -> heldw p = Some w.
Proof. destruct p; simpl; try tauto; try congruence. destruct k; simpl; try tauto; congruence. Qed.
Lemma sent_held : forall p w, sentP p w -> heldw p = Some w.
Proof. destruct p; simpl; try tauto; try congruence. destruct k; simpl; try tauto; congruence. Qed.
Lemma holds_held : forall p c w, holdsP p c w -> heldw p = Some w.
Proof. destruct p; simpl; try tauto; intros ? ? [? ?]; congruence. Qed.
Ltac fwd_held :=
  repeat match goal with
         | H : unsentP ?p ?w |- _ =>
           lazymatch goal with _ : heldw p = Some w |- _ => fail | _ => pose proof (unsent_held _ _ H) end
         | H : sentP ?p ?w |- _ =>
           lazymatch goal with _ : heldw p = Some w |- _ => fail | _ => pose proof (sent_held _ _ H) end
         | H : holdsP ?p ?c ?w |- _ =>
           lazymatch goal with _ : heldw p = Some w |- _ => fail | _ => pose proof (holds_held _ _ _ H) end
         end.
Ltac fwd_same :=
  repeat match goal with
         | H1 : ?a = Some ?x, H2 : ?a = Some ?y |- _ => rewrite H1 in H2; inversion H2; subst; clear H2
         end.
Ltac fwd_seen :=
  repeat match goal with
         | H : In (?w, ?i) (seen ?s) |- _ =>
           lazymatch goal with
           | _ : In w (map fst (seen s)) |- _ => fail
           | _ => assert (In w (map fst (seen s))) by (change w with (fst (w, i)); apply in_map; exact H)
           end
         end.
Ltac split_or := repeat match goal with H : _ \/ _ |- _ => destruct H | H : _ /\ _ |- _ => destruct H end.
Ltac fwd_lookup :=
  repeat match goal with
         | H : lookup ?w ?l = None |- _ =>
           lazymatch goal with _ : (forall i, In (w, i) l -> False) |- _ => fail
           | _ => assert (forall i, In (w, i) l -> False) by (apply lookup_None; exact H) end
         | H : lookup ?w ?l = Some ?i |- _ =>
           lazymatch goal with _ : In (w, i) l |- _ => fail
           | _ => pose proof (lookup_In _ _ _ H) end
         end.
Ltac fin := simpl in *; unfold not in *; try (intro; split_or); split_or; inj_all; subst; fwd_same; fwd_seen; fwd_held; fwd_lookup; simpl in *; subst; eauto; try congruence; try tauto; try lia.
Ltac fwd_lt HI :=
  repeat match goal with
         | H : In (?w, ?i) (seen ?s) |- _ =>
           lazymatch goal with _ : w < next_w s |- _ => fail | _ => pose proof (I3 _ HI _ _ H) end
         | H : heldw (pc ?s ?j) = Some ?w |- _ =>
           lazymatch goal with _ : w < next_w s |- _ => fail | _ => pose proof (I5 _ HI _ _ H) end
         end.
Ltac bf HI := try fwd_actor HI; dinv HI; constructor; simp; unfold not in *; intros; eqb_cases; inj_all; simpl in *;
  fwd_in HI;
  repeat (match goal with Hpc : pc _ ?i = _, H : context [pc _ ?i] |- _ => rewrite Hpc in H end);
  simpl in *; split_or; inj_all; fwd_in HI;
  repeat (match goal with Hpc : pc _ ?i = _, H : context [pc _ ?i] |- _ => rewrite Hpc in H end);
  simpl in *; split_or; fwd_same; fwd_seen; fwd_held; fwd_lookup; fwd_lt HI; fin.

Lemma removed_subs : forall s x w, c_subs (removed_conn s x w) = remove_w w (c_subs x).
Proof. intros. unfold removed_conn. simpl. destruct (is_nil _); [destruct (idle s)|]; reflexivity. Qed.

Lemma no_entry_after_remove : forall s i c w k x, Inv s -> pc s i = SRemove c w k -> cns s c = Some x ->
  forall c' x' i', cns (set_cn s c (removed_conn s x w)) c' = Some x' -> ~ In (w, i') (c_subs x').
Proof.
  intros s i c w k x HI Hpc Ex c' x' i' H Hin. simp. unfold upd in H.
  destruct (Nat.eqb_spec c' c).
  - inversion H; subst. rewrite removed_subs in Hin. apply remove_w_In in Hin. tauto.
  - pose proof (I1 _ HI _ _ _ _ H Hin) as Hh. pose proof (holds_held _ _ _ Hh) as Hw.
    assert (i' = i) by (eapply (I10 _ HI); eauto; rewrite Hpc; reflexivity). subst.
    rewrite Hpc in Hh. simpl in Hh. destruct Hh; congruence.
Qed.

Lemma inv_release : forall s i c w k p, Inv s -> pc s i = SRemove c w k ->
  (forall c' x i', cns s c' = Some x -> ~ In (w, i') (c_subs x)) ->
  heldw p = None -> (cancelP p -> ctxc s i = true) -> Inv (set_pc s i p).
Proof.
  intros s i c w k p HI Hpc Hno Hp Hc.
  assert (Hu : forall w, ~ unsentP p w) by (intros w0; destruct p; simpl in *; try tauto; try discriminate; destruct k0; tauto).
  assert (Hs : forall w, ~ sentP p w) by (intros w0; destruct p; simpl in *; try tauto; try discriminate; destruct k0; tauto).
  assert (Hh : forall c w, ~ holdsP p c w) by (intros c0 w0; destruct p; simpl in *; try tauto; discriminate).
  bf HI; try (exfalso; eapply Hno; eauto; fail); try (exfalso; eapply Hu; eauto; fail);
    try (exfalso; eapply Hs; eauto; fail); try (exfalso; eapply Hh; eauto; fail).
Qed.

Lemma inv_step : forall s a s' e, Inv s -> owner_free s -> step s a = Some (s', e) -> Inv s'.
Proof.
  intros s a s' e HI HO H. destruct a.
  - (* ASub *) inv_step H; free_pc.
  - (* ACtxCancel *) inv_step H. eapply inv_ext; eauto; simp. intros j Hj. eqb_cases; auto.
  - (* AWaitDone *) inv_step H; free_pc.
  - (* AWaitCtx *) inv_step H; free_pc.
  - (* ADialCtx *) inv_step H; free_pc.
  - (* ARetry *) inv_step H; free_pc.
  - (* ABook *) inv_step H; free_pc.
  - (* APublish *) inv_step H; free_pc.
  - (* AInsert *) inv_step H; bf HI.
    + constructor; eauto. intro Hm. apply in_map_iff in Hm. destruct Hm as [[w' j] [E Hm]]. simpl in E; subst. eauto.
    + apply in_map_iff in H0. destruct H0 as [[w' j] [E Hm]]. simpl in E; subst.
      pose proof (I3 _ HI _ _ Hm). lia.
  - (* ASend *) inv_step H; bf HI.
  - (* AUnsub *) inv_step H; bf HI.
  - (* AUnsubSend *) inv_step H; bf HI.
  - (* ARemove *) inv_step H;
      (pose proof (inv_remove_sub _ _ _ _ _ HI Heqo) as HI1;
       destruct (remove_sub_frame _ _ _ _ _ Heqo) as (Ep & Ec & Es & Ew & _);
       destruct (remove_sub_cases _ _ _ _ _ Heqo) as [x [Ex [-> _]]];
       eapply inv_release; eauto;
       try (eapply no_entry_after_remove; eauto; fail);
       try (destruct k; reflexivity);
       try (destruct k; simpl; try tauto; intros _; change (ctxc s i = true); apply (I7 _ HI i); rewrite Heqs0; simpl; auto; fail)).
  - (* AClose *) inv_step H. pose proof (inv_close_if_empty _ _ _ _ HI Heqp) as HI1.
    destruct (close_if_empty_frame _ _ _ _ Heqp) as (Ep & Ec & Es & Ew & _).
    match goal with Hpc : pc s ?i = SClose _ _ |- _ =>
      eapply (inv_pc_free_gen s0); eauto; simp; try lia; rewrite ?Ep, ?Ec; try rewrite Hpc; simpl; auto;
      try (destruct k; simpl; reflexivity);
      try (destruct k; simpl; try tauto; intros _; eapply (I7 _ HI); rewrite Hpc; simpl; auto) end.
  - (* ARLRemove *) inv_step H; (eapply inv_set_cn_same; eauto; eapply inv_remove_sub; eauto).
  - (* ARLClose *) inv_step H; (eapply inv_set_cn_same; eauto; eapply inv_close_if_empty; eauto).
  - (* ARLReadErr *) inv_step H; (eapply inv_set_cn_same; eauto; eapply inv_shut; eauto).
  - (* ATimerFire *) inv_step H; (eapply inv_close_if_empty; [|eauto]; eapply inv_set_cn_same; eauto).
  - (* ARemoveConn *) inv_step H. eapply (inv_ext (set_cn s c (c_set_rm c0 false))); eauto.
    eapply inv_set_cn_same; eauto.
  - (* UpAccept *) inv_step H. eapply inv_ext; eauto.
  - (* UpReject *) inv_step H.
    match goal with Hd : dials s ?d = Some ?x, Hph : d_phase ?x = _ |- _ =>
      pose proof (HO _ _ Hd) as Hp; rewrite Hph in Hp; specialize (Hp ltac:(discriminate)) end.
    eapply (inv_pc_free_gen s); eauto; simp; try lia; try rewrite Hp; simpl; auto; try discriminate; tauto.
  - (* UpAck *) inv_step H.
    match goal with Hd : dials s ?d = Some ?x, Hph : d_phase ?x = _ |- _ =>
      pose proof (HO _ _ Hd) as Hp; rewrite Hph in Hp; specialize (Hp ltac:(discriminate)) end.
    bf HI; try (constructor; fail).
  - (* UpInitFail *) inv_step H.
    match goal with Hd : dials s ?d = Some ?x, Hph : d_phase ?x = _ |- _ =>
      pose proof (HO _ _ Hd) as Hp; rewrite Hph in Hp; specialize (Hp ltac:(discriminate)) end.
    eapply (inv_pc_free_gen s); eauto; simp; try lia; try rewrite Hp; simpl; auto; try discriminate; tauto.
  - (* UpMsg *) inv_step H; auto; eapply inv_set_cn_same; eauto.
  - (* UpDrop *) inv_step H. eapply inv_set_cn_same; eauto; unfold c_kill; simpl; congruence.
  - (* APingTimeout *) inv_step H. eapply inv_shut; eauto.
  - inv_step H; eapply inv_ext; eauto.
  - inv_step H; eapply inv_ext; eauto.
  - inv_step H; eapply inv_ext; eauto.
  - inv_step H; eapply inv_ext; eauto.
  - inv_step H; eapply inv_ext; eauto.
  - inv_step H; eapply inv_ext; eauto.
Qed.
