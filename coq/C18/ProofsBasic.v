(* C18: basic lemmas about the maps, shut / remove_sub, and the inversion tactic for [step]. *)
From Gv Require Import C18.Model C18.Spec.
From Coq Require Import List NArith Arith Bool Lia.
Import ListNotations.

Lemma lines_eqb_eq : forall a b, lines_eqb a b = true <-> a = b.
Proof.
  induction a as [|[n v] a IH]; destruct b as [|[n' v'] b]; simpl; try (split; [discriminate | intro H; inversion H]; fail).
  - split; auto.
  - unfold line_eqb; simpl. rewrite !andb_true_iff, !N.eqb_eq, IH.
    split; [intros [[-> ->] ->]; reflexivity | intro H; inversion H; auto].
Qed.

Lemma key_eqb_eq : forall a b, key_eqb a b = true <-> a = b.
Proof.
  intros [[[a1 a2] a3] a4] [[[b1 b2] b3] b4]; simpl. rewrite !andb_true_iff, !N.eqb_eq, lines_eqb_eq.
  split; [intros [[[-> ->] ->] ->]; reflexivity | intros H; inversion H; auto].
Qed.

Lemma key_eqb_refl : forall k, key_eqb k k = true.
Proof. intros. apply key_eqb_eq. reflexivity. Qed.

Lemma key_eqb_spec : forall a b, reflect (a = b) (key_eqb a b).
Proof. intros a b. destruct (key_eqb a b) eqn:E; constructor; [apply key_eqb_eq; auto | intro H; apply key_eqb_eq in H; congruence]. Qed.

Lemma upd_same : forall A (f : nat -> A) i v, upd f i v i = v.
Proof. intros. unfold upd. rewrite Nat.eqb_refl. reflexivity. Qed.
Lemma upd_other : forall A (f : nat -> A) i j v, j <> i -> upd f i v j = f j.
Proof. intros. unfold upd. destruct (Nat.eqb_spec j i); congruence. Qed.
Lemma updk_same : forall A (f : key -> A) k v, updk f k v k = v.
Proof. intros. unfold updk. rewrite key_eqb_refl. reflexivity. Qed.
Lemma updk_other : forall A (f : key -> A) k j v, j <> k -> updk f k v j = f j.
Proof. intros. unfold updk. destruct (key_eqb_spec j k); congruence. Qed.

Lemma lookup_In : forall w l i, lookup w l = Some i -> In (w, i) l.
Proof.
  induction l as [|[w' j] l IH]; simpl; intros; [discriminate|].
  destruct (Nat.eqb_spec w' w); [inversion H; subst; auto | auto].
Qed.
Lemma lookup_None : forall w l, lookup w l = None -> forall i, ~ In (w, i) l.
Proof.
  induction l as [|[w' j] l IH]; simpl; intros; [tauto|].
  destruct (Nat.eqb_spec w' w); [discriminate|]. intros [E|E]; [inversion E; congruence | eapply IH; eauto].
Qed.
Lemma In_lookup : forall w i l, NoDup (map fst l) -> In (w, i) l -> lookup w l = Some i.
Proof.
  induction l as [|[w' j] l IH]; simpl; intros ND HI; [tauto|].
  inversion ND; subst. destruct HI as [E|HI].
  - inversion E; subst. rewrite Nat.eqb_refl. reflexivity.
  - destruct (Nat.eqb_spec w' w); [subst; exfalso; apply H1; change w with (fst (w, i)); apply in_map; auto | auto].
Qed.
Lemma remove_w_In : forall w w' i l, In (w', i) (remove_w w l) <-> In (w', i) l /\ w' <> w.
Proof.
  induction l as [|[a b] l IH]; simpl; [tauto|].
  destruct (Nat.eqb_spec a w); simpl; rewrite IH; split.
  - intros [H1 H2]; auto.
  - intros [[E|H1] H2]; [inversion E; subst; congruence | auto].
  - intros [E|[H1 H2]]; [inversion E; subst; auto | auto].
  - intros [[E|H1] H2]; auto.
Qed.
Lemma remove_w_NoDup : forall w l, NoDup (map fst l) -> NoDup (map fst (remove_w w l)).
Proof.
  induction l as [|[a b] l IH]; simpl; intros ND; [constructor|]. inversion ND; subst.
  destruct (Nat.eqb_spec a w); [auto|]. simpl. constructor; [|auto].
  intro H. apply in_map_iff in H. destruct H as [[a' b'] [E H]]. simpl in E; subst.
  apply remove_w_In in H. destruct H as [H _]. apply H1. change a with (fst (a, b')). apply in_map; auto.
Qed.
Lemma is_nil_true : forall A (l : list A), is_nil l = true -> l = [].
Proof. destruct l; simpl; congruence. Qed.
Lemma is_nil_false : forall A (l : list A), is_nil l = false -> l <> [].
Proof. destruct l; simpl; congruence. Qed.
Lemma mem_nat_In : forall x l, mem_nat x l = true <-> In x l.
Proof.
  induction l; simpl; [split; [discriminate|tauto]|]. rewrite orb_true_iff, IHl.
  destruct (Nat.eqb_spec x a); split; intuition congruence.
Qed.

(* ---- frames: the decoders + IntoClientMessage + dispatch's removal test agree with the meaning of
   the frame (Spec.spec_class), frame by frame, for both sub-protocols ---- *)
Lemma decode_class : forall p f,
  match decode p f with
  | None => spec_class p f = FcFault
  | Some m =>
    match w_type m with
    | WPing | WPong => spec_class p f = FcNone
    | _ => match w_id m with
           | None => spec_class p f = FcNone
           | Some w => spec_class p f = FcSub w (into_client m) /\ wire_terminal (w_type m) = terminal (into_client m)
           end
    end
  end.
Proof. intros [] [[] [w|] []]; cbv; auto. Qed.

Arguments decode : simpl never.
Arguments into_client : simpl never.
Arguments spec_class : simpl never.

(* the shape of a step that reads a frame *)
Lemma upmsg_cases : forall s c f s1 e1, step s (UpMsg c f) = Some (s1, e1) ->
  exists x, cns s c = Some x /\ c_rl x = RLRun /\ c_closed x = false /\ c_dead x = None /\
  match spec_class (c_proto x) f with
  | FcFault => s1 = set_cn s c (c_kill x CUpstream) /\ e1 = [OUp c (c_proto x) f; OSrvClosed c]
  | FcNone => s1 = s /\ e1 = [OUp c (c_proto x) f]
  | FcSub w k =>
    (mem_nat w (map fst (seen s)) || Nat.leb (next_w s) w = true) /\
    ((exists i, lookup w (c_subs x) = Some i /\ e1 = [OUp c (c_proto x) f; ODeliver i k]
                /\ s1 = if terminal k then set_cn s c (c_set_rl x (RLRemove w)) else s)
     \/ (lookup w (c_subs x) = None /\ s1 = s /\ e1 = [OUp c (c_proto x) f]))
  end.
Proof.
  intros s c f s1 e1 H. simpl in H.
  destruct (cns s c) as [x|] eqn:Hc; [|discriminate]. exists x. split; auto.
  destruct (c_rl x) eqn:Hrl; try discriminate.
  destruct (c_closed x) eqn:Hcl; try discriminate.
  destruct (c_dead x) eqn:Hd; try discriminate.
  repeat split; auto.
  pose proof (decode_class (c_proto x) f) as D.
  destruct (decode (c_proto x) f) as [m|].
  - destruct (w_type m) eqn:Et;
      try (rewrite D; inversion H; subst; auto; fail);
      (destruct (w_id m) as [w|]; [destruct D as [D1 D2]; rewrite D1|rewrite D; inversion H; subst; auto]);
      (destruct (mem_nat w (map fst (seen s)) || Nat.leb (next_w s) w) eqn:Em; [|discriminate]);
      (split; [reflexivity|]);
      (destruct (lookup w (c_subs x)) as [i|]; [left; exists i|right]; inversion H; subst; rewrite <- ?D2; auto).
  - rewrite D. inversion H; subst; auto.
Qed.

(* ---- shut / remove_sub ---- *)
Definition shut_conn (x : conn) (cz : cause) : conn :=
  {| c_key := c_key x; c_proto := c_proto x; c_subs := []; c_closed := true;
     c_dead := match c_dead x with None => Some cz | d => d end;
     c_timers := c_timers x; c_rl := c_rl x; c_rm := true |}.

Lemma shut_cases : forall s c cz s' evs, shut s c cz = (s', evs) ->
  (s' = s /\ evs = [] /\ (cns s c = None \/ exists x, cns s c = Some x /\ c_closed x = true))
  \/ (exists x, cns s c = Some x /\ c_closed x = false /\ s' = set_cn s c (shut_conn x cz)
        /\ evs = map (fun p => OConnErr (snd p) cz) (c_subs x) ++ kill_evs c x).
Proof.
  unfold shut; intros. destruct (cns s c) as [x|] eqn:E.
  - destruct (c_closed x) eqn:Ec; inversion H; subst.
    + left; eauto 6.
    + right; exists x; auto.
  - inversion H; subst; auto.
Qed.

Definition removed_conn (s : st) (x : conn) (w : nat) : conn :=
  let l := remove_w w (c_subs x) in
  let x1 := c_set_subs x l in
  if is_nil l then if idle s then c_set_timers x1 (S (c_timers x1)) else x1 else x1.

Arguments removed_conn : simpl never.

Lemma remove_sub_cases : forall s c w s' b, remove_sub s c w = Some (s', b) ->
  exists x, cns s c = Some x /\ s' = set_cn s c (removed_conn s x w)
            /\ (b = true -> remove_w w (c_subs x) = [] /\ idle s = false)
            /\ (b = false -> remove_w w (c_subs x) <> [] \/ idle s = true).
Proof.
  unfold remove_sub, removed_conn; intros. destruct (cns s c) as [x|] eqn:E; [|discriminate].
  exists x. split; auto. simpl in *.
  destruct (is_nil (remove_w w (c_subs x))) eqn:En.
  - apply is_nil_true in En. destruct (idle s) eqn:Ei; inversion H; subst.
    + split; [reflexivity|]. split; [discriminate|]. auto.
    + split; [reflexivity|]. split; [auto|discriminate].
  - apply is_nil_false in En. inversion H; subst.
    split; [reflexivity|]. split; [discriminate|]. auto.
Qed.

(* ---- run / reach ---- *)
Lemma run_app : forall tr1 tr2 s s1 e1, run s tr1 = Some (s1, e1) ->
  run s (tr1 ++ tr2) = match run s1 tr2 with Some (s2, e2) => Some (s2, e1 ++ e2) | None => None end.
Proof.
  induction tr1 as [|a tr1 IH]; simpl; intros.
  - inversion H; subst. destruct (run s1 tr2) as [[? ?]|]; reflexivity.
  - destruct (step s a) as [[sa ea]|]; [|discriminate].
    destruct (run sa tr1) as [[sb eb]|] eqn:E; [|discriminate]. inversion H; subst.
    rewrite (IH tr2 sa s1 eb E). destruct (run s1 tr2) as [[? ?]|]; [rewrite app_assoc|]; reflexivity.
Qed.

(* induction principle: a relation between state and log that holds initially and is preserved
   by every step holds for every accepted action list *)
Lemma run_ind : forall (P : st -> list ev -> Prop) s0,
  P s0 [] ->
  (forall s log a s' e, P s log -> step s a = Some (s', e) -> P s' (log ++ e)) ->
  forall tr s log, run s0 tr = Some (s, log) -> P s log.
Proof.
  intros P s0 H0 HS tr.
  assert (G : forall tr s1 l1 s log, P s1 l1 -> run s1 tr = Some (s, log) -> P s (l1 ++ log)).
  { induction tr0 as [|a tr0 IH]; simpl; intros.
    - inversion H1; subst. rewrite app_nil_r. auto.
    - destruct (step s1 a) as [[sa ea]|] eqn:Es; [|discriminate].
      destruct (run sa tr0) as [[sb eb]|] eqn:Er; [|discriminate]. inversion H1; subst.
      rewrite app_assoc. eapply IH; eauto. }
  intros. apply (G tr s0 [] s log H0 H).
Qed.

(* closeIfEmpty: nothing happens (no such connection, table not empty, already closed), or the
   connection is shut with an EMPTY table *)
Lemma close_if_empty_cases : forall s c s' evs, close_if_empty s c = (s', evs) ->
  (s' = s /\ evs = [] /\ (cns s c = None \/ exists x, cns s c = Some x /\ (c_subs x <> [] \/ c_closed x = true)))
  \/ (exists x, cns s c = Some x /\ c_closed x = false /\ c_subs x = [] /\ s' = set_cn s c (shut_conn x CIdle)
        /\ evs = kill_evs c x /\ shut s c CIdle = (s', evs)).
Proof.
  unfold close_if_empty; intros. destruct (cns s c) as [x|] eqn:E; [|inversion H; subst; auto].
  destruct (is_nil (c_subs x)) eqn:En.
  - apply is_nil_true in En. destruct (shut_cases _ _ _ _ _ H) as [(-> & -> & [E1|(y & E1 & E2)])|(y & E1 & E2 & -> & ->)].
    + congruence.
    + left. split; auto. split; auto. right. exists y. rewrite E in E1; inversion E1; subst. auto.
    + rewrite E in E1; inversion E1; subst y. right. exists x. rewrite En in *. simpl in *.
      repeat split; auto.
  - apply is_nil_false in En. inversion H; subst. left. split; auto. split; auto. right. exists x. auto.
Qed.

Ltac inv_step H :=
  unfold step, get_or_dial, set_okey in H;
  repeat match type of H with
         | context [match ?x with _ => _ end] => destruct x eqn:?; try discriminate
         | context [if ?x then _ else _] => destruct x eqn:?; try discriminate
         end;
  try (inversion H; subst; clear H).
