(* C18: final statements collected for Properties.v *)
From Gv Require Import lib.Bytes C18.Model C18.Spec C18.ProofsBasic C18.ProofsInv C18.ProofsKey C18.ProofsDrain C18.ProofsIso
  gen.Anchors_C18.
From Coq Require Import List NArith Arith Bool.
Import ListNotations.
Open Scope N_scope.

(* the fields of common.Options the model's key is made of, in connKey's order *)
Definition model_key_fields : list bytes :=
  [[69; 110; 100; 112; 111; 105; 110; 116];                                  (* Endpoint *)
   [87; 83; 83; 117; 98; 112; 114; 111; 116; 111; 99; 111; 108];             (* WSSubprotocol *)
   [72; 101; 97; 100; 101; 114; 115];                                        (* Headers *)
   [73; 110; 105; 116; 80; 97; 121; 108; 111; 97; 100]].                     (* InitPayload *)

(* shape facts the model relies on, read from the Go source by tools/props/c18.py:
   getOrDial dials with the caller's ctx (ADialCtx); a waiter never inherits an aborted result --
   own ctx error or getOrDial again, tested before result.err (AWaitDone / ARetry) -- and the
   dialler marks the result aborted exactly when it failed with its own ctx done (APublish); the
   dialler leaves the dialing table and stores the connection before close(done) (ABook before
   APublish); removeConn deletes by key (ARemoveConn); Subscribe starts over when subscribe reports
   ErrConnectionClosed (AInsert -> SRetry); closeIfEmpty decides "empty" and sets the closed flag in one
   subsMu critical section, removeSub and the idle timer close only through it, and subscribe tests
   the flag under the same lock (close_if_empty is ONE action); the subscribe frame is written under
   the connection's ctx and the subscriber's ctx is only read before the write (ASend, no ASendCtx).
   Each of the three repairs flips one of these to false if it is undone. *)
Lemma anchors_ok :
  anchor_connkey_fields = model_key_fields
  /\ anchor_dial_uses_caller_ctx = true /\ anchor_waiter_never_inherits_abort = true
  /\ anchor_book_before_publish = true /\ anchor_removeconn_by_key = true
  /\ anchor_subscribe_restarts_on_closed = true /\ anchor_close_decided_under_lock = true
  /\ anchor_subscribe_write_conn_ctx = true.
Proof. repeat split; reflexivity. Qed.

(* ---- non-vacuity examples for the theorems in Properties.v ---- *)
From Gv Require Import C18.ProofsRouting.
Close Scope N_scope.

Definition Kx : key := (1, 1, 0, 0)%N.
(* coalesced dial; both subscribed on connection 0 (wire ids 0 -> sub 0, 1 -> sub 1) *)
Definition tr_two : list action :=
  [ASub 0 Kx; UpAccept 0; ASub 1 Kx; UpAck 0; ABook 0; APublish 0; AWaitDone 1; AInsert 0; AInsert 1; ASend 1; ASend 0].

Example ex_routing :
  exists s log, run (init false) (tr_two ++ [UpMsg 0 1 (KData 7); UpMsg 0 0 (KData 8); UpMsg 0 5000 (KData 1);
                                              UpMsg 0 0 KComplete; ARLRemove 0; UpMsg 0 0 (KData 9); UpMsg 0 1 (KData 3)])
                = Some (s, log)
    /\ filter (fun e => match e with ODeliver _ _ => true | _ => false end) log
       = [ODeliver 1 (KData 7); ODeliver 0 (KData 8); ODeliver 0 KComplete; ODeliver 1 (KData 3)].
Proof. eexists. eexists. split; vm_compute; reflexivity. Qed.

Example ex_terminal_local :
  exists s log s1 e1 s2 e2, reach false s log /\ step s (UpMsg 0 0 KComplete) = Some (s1, e1)
    /\ step s1 (ARLRemove 0) = Some (s2, e2)
    /\ (exists x, cns s 0 = Some x /\ c_subs x = [(1, 1); (0, 0)])
    /\ (exists x, cns s2 0 = Some x /\ c_subs x = [(1, 1)]).
Proof.
  do 6 eexists. split; [exists tr_two; vm_compute; reflexivity|].
  split; [vm_compute; reflexivity|]. split; [vm_compute; reflexivity|].
  split; eexists; split; vm_compute; reflexivity.
Qed.

Example ex_shared :
  exists s log x, reach false s log /\ cns s 0 = Some x /\ In (0, 0) (c_subs x) /\ In (1, 1) (c_subs x)
                  /\ okey s 0 = Kx /\ okey s 1 = Kx.
Proof.
  do 3 eexists. split; [exists tr_two; vm_compute; reflexivity|].
  split; [vm_compute; reflexivity|]. simpl. repeat split; auto.
Qed.

Example ex_conns_drain :
  exists s log x, reach false s log /\ quiescent s /\ cns s 0 = Some x /\ c_closed x = false /\ c_subs x = [(1, 1); (0, 0)].
Proof.
  do 3 eexists. split; [exists tr_two; vm_compute; reflexivity|].
  split.
  - intros a Ha. destruct a; try discriminate; simpl;
      try (destruct i as [|[|i]]; reflexivity); try (destruct c as [|[|c]]; reflexivity).
  - split; [vm_compute; reflexivity|]. split; reflexivity.
Qed.

(* subscriber 1 cancels from inside its terminal callback: id 1 is removed by its own cancel and again
   by dispatch; subscriber 0 on the same connection keeps receiving, nobody gets a connection error *)
Definition tr_double : list action :=
  tr_two ++ [UpMsg 0 1 KComplete; ACtxCancel 1; AUnsub 1; AUnsubSend 1; ARemove 1; ARLRemove 0; UpMsg 0 0 (KData 5)].
Example ex_double_remove :
  exists s log x, run (init false) tr_double = Some (s, log)
    /\ In (ODeliver 0 (KData 5)) log /\ isolated_log_b log = true /\ routing_b log = true
    /\ cns s 0 = Some x /\ c_closed x = false /\ c_subs x = [(0, 0)].
Proof.
  do 3 eexists. split; [vm_compute; reflexivity|].
  split; [vm_compute; tauto|]. split; [vm_compute; reflexivity|]. split; [vm_compute; reflexivity|].
  split; [vm_compute; reflexivity|]. split; reflexivity.
Qed.

(* cancel_isolated, non-vacuity: coalesced dial, both subscribe, one is cancelled and leaves, the
   other keeps receiving, then leaves and the connection is closed empty -- nobody fails *)
Definition tr_iso : list action :=
  tr_two ++ [UpMsg 0 1 (KData 7); ACtxCancel 0; AUnsub 0; AUnsubSend 0; ARemove 0; UpMsg 0 0 (KData 8); UpMsg 0 1 (KData 9);
             ACtxCancel 1; AUnsub 1; AUnsubSend 1; ARemove 1; AClose 1; ARemoveConn 0].
Example ex_cancel_isolated :
  exists s log, run (init false) tr_iso = Some (s, log) /\ In (ODeliver 1 (KData 9)) log /\ In (OSrvClosed 0) log
                /\ failed_b 0 log = false /\ failed_b 1 log = false.
Proof. eexists. eexists. split; [vm_compute; reflexivity|]. repeat split; simpl; tauto. Qed.
