(* C18: final statements collected for Properties.v *)
From Gv Require Import lib.Bytes C18.Model C18.Spec C18.ProofsBasic C18.ProofsInv C18.ProofsKey C18.ProofsDrain C18.ProofsIso
  gen.Anchors_C18.
From Coq Require Import List NArith Arith Bool.
Import ListNotations.
Open Scope N_scope.

(* the fields of common.Options the model's key is made of, in connKey's order *)
Definition model_key_fields : list bytes :=
  [[69; 110; 100; 112; 111; 105; 110; 116];                                  (* Endpoint *)
   [87; 83; 83; 117; 98; 112; 114; 111; 116; 111; 99; 111; 108];             (* WSSubprotocol *)
   [72; 101; 97; 100; 101; 114; 115];                                        (* Headers *)
   [73; 110; 105; 116; 80; 97; 121; 108; 111; 97; 100]].                     (* InitPayload *)

(* the decode tables of Model.decode, as (wire "type" string, WireMessageType name) in the order of the
   switch arms of graphqlTransportWS.decode / graphqlWS.decode; every other type string is an error *)
Definition model_decode_tws : list (bytes * bytes) :=
  [([110;101;120;116], [77;101;115;115;97;103;101;68;97;116;97]);                           (* next -> MessageData *)
   ([101;114;114;111;114], [77;101;115;115;97;103;101;69;114;114;111;114]);                  (* error -> MessageError *)
   ([99;111;109;112;108;101;116;101], [77;101;115;115;97;103;101;67;111;109;112;108;101;116;101]);  (* complete -> MessageComplete *)
   ([112;105;110;103], [77;101;115;115;97;103;101;80;105;110;103]);                          (* ping -> MessagePing *)
   ([112;111;110;103], [77;101;115;115;97;103;101;80;111;110;103])].                         (* pong -> MessagePong *)
Definition model_decode_gws : list (bytes * bytes) :=
  [([100;97;116;97], [77;101;115;115;97;103;101;68;97;116;97]);                             (* data -> MessageData *)
   ([101;114;114;111;114], [77;101;115;115;97;103;101;69;114;114;111;114]);                  (* error -> MessageError *)
   ([99;111;109;112;108;101;116;101], [77;101;115;115;97;103;101;67;111;109;112;108;101;116;101]);  (* complete -> MessageComplete *)
   ([107;97], [77;101;115;115;97;103;101;80;105;110;103]);                                   (* ka -> MessagePing *)
   ([99;111;110;110;101;99;116;105;111;110;95;101;114;114;111;114], [77;101;115;115;97;103;101;69;114;114;111;114])].  (* connection_error -> MessageError (Err set, no Payload) *)

(* shape facts the model relies on, read from the Go source by tools/props/c18.py:
   getOrDial dials with the caller's ctx (ADialCtx); a waiter never inherits an aborted result --
   own ctx error or getOrDial again, tested before result.err (AWaitDone / ARetry) -- and the
   dialler marks the result aborted exactly when it failed with its own ctx done (APublish); the
   dialler leaves the dialing table and stores the connection before close(done) (ABook before
   APublish); removeConn deletes by key (ARemoveConn); Subscribe starts over when subscribe reports
   ErrConnectionClosed (AInsert -> SRetry); closeIfEmpty decides "empty" and sets the closed flag in one
   subsMu critical section, removeSub and the idle timer close only through it, and subscribe tests
   the flag under the same lock (close_if_empty is ONE action); the subscribe frame is written under
   the connection's ctx and the subscriber's ctx is only read before the write (ASend, no ASendCtx).
   Each of the three repairs flips one of these to false if it is undone.
   subscribe registers the handler BEFORE it looks at the subscriber's ctx, and a failure after the
   registration leaves through removeSub (AInsert, then ASend -> SRemove: the close flow is started for a
   dialler that is cancelled between init and subscribe); dispatch looks the id up under subsMu, calls that one
   handler with IntoClientMessage(), removes the id iff the WIRE type is complete / error and touches nothing
   else -- no shutdown / closeConn / teardown (UpMsg); the read loop dispatches data / error / complete, answers
   ping, and shuts down on a read error; IntoClientMessage is into_client (an error WITHOUT payload becomes
   MessageTypeConnectionError for that one handler); the two decode switches are the tables above, a next / data
   payload that does not unmarshal and any other type string are errors.
   connKey (full-body match): endpoint, sub-protocol, opts.Headers.Write(h) -- the WHOLE multimap, every value of
   every name, as Header.Write prints it; no loop over the header map, no indexing of a value list, no Get --
   and the JSON of the init payload, separated by NUL bytes (conn_key / hdr_lines). *)
Lemma anchors_ok :
  anchor_connkey_fields = model_key_fields
  /\ anchor_dial_uses_caller_ctx = true /\ anchor_waiter_never_inherits_abort = true
  /\ anchor_book_before_publish = true /\ anchor_removeconn_by_key = true
  /\ anchor_subscribe_restarts_on_closed = true /\ anchor_close_decided_under_lock = true
  /\ anchor_subscribe_write_conn_ctx = true
  /\ anchor_subscribe_registers_before_ctx_test = true /\ anchor_dispatch_by_id_local = true
  /\ anchor_into_client_message = true /\ anchor_decode_tws = model_decode_tws /\ anchor_decode_gws = model_decode_gws
  /\ anchor_connkey_whole_header_multimap = true.
Proof. repeat split; reflexivity. Qed.

(* ---- non-vacuity examples for the theorems in Properties.v ---- *)
From Gv Require Import C18.ProofsRouting.
Close Scope N_scope.

Definition Kx : key := (1, 1, [], 0)%N.
(* coalesced dial; both subscribed on connection 0 (wire ids 0 -> sub 0, 1 -> sub 1) *)
Definition tr_two : list action :=
  [ASub 0 Kx; UpAccept 0; ASub 1 Kx; UpAck 0 PTws; ABook 0; APublish 0; AWaitDone 1; AInsert 0; AInsert 1; ASend 1; ASend 0].

Example ex_routing :
  exists s log, run (init false) (tr_two ++ [UpMsg 0 (frame_of 1 (KData 7)); UpMsg 0 (frame_of 0 (KData 8)); UpMsg 0 (frame_of 5000 (KData 1));
                                              UpMsg 0 (frame_of 0 KComplete); ARLRemove 0; UpMsg 0 (frame_of 0 (KData 9)); UpMsg 0 (frame_of 1 (KData 3))])
                = Some (s, log)
    /\ filter (fun e => match e with ODeliver _ _ => true | _ => false end) log
       = [ODeliver 1 (KData 7); ODeliver 0 (KData 8); ODeliver 0 KComplete; ODeliver 1 (KData 3)].
Proof. eexists. eexists. split; vm_compute; reflexivity. Qed.

Example ex_terminal_local :
  exists s log s1 e1 s2 e2, reach false s log /\ spec_class PTws (frame_of 0 KComplete) = FcSub 0 KComplete
    /\ step s (UpMsg 0 (frame_of 0 KComplete)) = Some (s1, e1)
    /\ step s1 (ARLRemove 0) = Some (s2, e2)
    /\ (exists x, cns s 0 = Some x /\ c_subs x = [(1, 1); (0, 0)])
    /\ (exists x, cns s2 0 = Some x /\ c_subs x = [(1, 1)]).
Proof.
  do 6 eexists. split; [exists tr_two; vm_compute; reflexivity|]. split; [reflexivity|].
  split; [vm_compute; reflexivity|]. split; [vm_compute; reflexivity|].
  split; eexists; split; vm_compute; reflexivity.
Qed.

(* an error frame WITHOUT payload for wire id 0: delivered to subscription 0 alone as a connection error made by the
   conversion, entry 0 removed, subscription 1 on the same socket keeps receiving; nobody is failed *)
Definition f_err_nopl (w : nat) : frame := {| f_type := FError; f_id := Some w; f_pl := PNone |}.
Example ex_error_without_payload :
  exists s log x, run (init false) (tr_two ++ [UpMsg 0 (f_err_nopl 0); ARLRemove 0; UpMsg 0 (frame_of 1 (KData 4))]) = Some (s, log)
    /\ spec_class PTws (f_err_nopl 0) = FcSub 0 (KConnErr false)
    /\ filter (fun e => match e with ODeliver _ _ | OConnErr _ _ => true | _ => false end) log
       = [ODeliver 0 (KConnErr false); ODeliver 1 (KData 4)]
    /\ cns s 0 = Some x /\ c_subs x = [(1, 1)] /\ c_closed x = false /\ c_dead x = None /\ routing_b log = true.
Proof.
  do 3 eexists. split; [vm_compute; reflexivity|]. split; [reflexivity|]. split; [vm_compute; reflexivity|].
  split; [vm_compute; reflexivity|]. split; [reflexivity|]. split; [reflexivity|]. split; [reflexivity|]. vm_compute; reflexivity.
Qed.

(* legacy graphql-ws: a connection_error frame that carries wire id 1 *)
Definition Kl : key := (1, 2, [], 0)%N.
Definition tr_two_l : list action :=
  [ASub 0 Kl; UpAccept 0; ASub 1 Kl; UpAck 0 PGws; ABook 0; APublish 0; AWaitDone 1; AInsert 0; AInsert 1; ASend 1; ASend 0].
Definition f_connerr (w : option nat) : frame := {| f_type := FConnError; f_id := w; f_pl := PNone |}.
Example ex_legacy_connection_error :
  exists s log x, run (init false) (tr_two_l ++ [UpMsg 0 (f_connerr (Some 1)); ARLRemove 0;
                     UpMsg 0 {| f_type := FData; f_id := Some 0; f_pl := PObj 4 |}]) = Some (s, log)
    /\ filter (fun e => match e with ODeliver _ _ | OConnErr _ _ => true | _ => false end) log
       = [ODeliver 1 (KConnErr true); ODeliver 0 (KData 4)]
    /\ cns s 0 = Some x /\ c_subs x = [(0, 0)] /\ c_closed x = false /\ routing_b log = true.
Proof.
  do 3 eexists. split; [vm_compute; reflexivity|]. split; [vm_compute; reflexivity|].
  split; [vm_compute; reflexivity|]. split; [reflexivity|]. split; [reflexivity|]. vm_compute; reflexivity.
Qed.

(* frames without id (error, legacy connection_error, complete, data): dropped, nothing changes *)
Example ex_idless_error :
  exists s log, run (init false) tr_two_l = Some (s, log)
    /\ step s (UpMsg 0 (f_connerr None)) = Some (s, [OUp 0 PGws (f_connerr None)])
    /\ step s (UpMsg 0 {| f_type := FError; f_id := None; f_pl := PNone |}) = Some (s, [OUp 0 PGws {| f_type := FError; f_id := None; f_pl := PNone |}])
    /\ step s (UpMsg 0 {| f_type := FComplete; f_id := None; f_pl := PNone |}) = Some (s, [OUp 0 PGws {| f_type := FComplete; f_id := None; f_pl := PNone |}]).
Proof.
  do 2 eexists. split; [vm_compute; reflexivity|].
  split; [vm_compute; reflexivity|]. split; vm_compute; reflexivity.
Qed.

(* a protocol violation (a next whose payload is not an execution result; a type of the other sub-protocol): the
   socket is lost through the upstream's fault, both subscriptions are told by the read loop -- blamed on the upstream *)
Example ex_fault_frame :
  exists s log, run (init false) (tr_two ++ [UpMsg 0 {| f_type := FNext; f_id := Some 0; f_pl := PBad |}; ARLReadErr 0]) = Some (s, log)
    /\ In (OConnErr 0 CUpstream) log /\ In (OConnErr 1 CUpstream) log /\ isolated_log_b log = true /\ routing_b log = true
    /\ spec_class PTws {| f_type := FData; f_id := Some 0; f_pl := PObj 1 |} = FcFault.
Proof.
  do 2 eexists. split; [vm_compute; reflexivity|]. split; [vm_compute; tauto|]. split; [vm_compute; tauto|].
  split; [vm_compute; reflexivity|]. split; vm_compute; reflexivity.
Qed.

Example ex_shared :
  exists s log x, reach false s log /\ cns s 0 = Some x /\ In (0, 0) (c_subs x) /\ In (1, 1) (c_subs x)
                  /\ okey s 0 = Kx /\ okey s 1 = Kx.
Proof.
  do 3 eexists. split; [exists tr_two; vm_compute; reflexivity|].
  split; [vm_compute; reflexivity|]. simpl. repeat split; auto.
Qed.

(* ---- multi-valued headers ---- *)
(* X-Scope (7): [read (1); tenant-a (2)]  vs  [read; tenant-b (3)]: the names and the first value of every name agree *)
Definition oA : opts := (1, 1, [(7, [1; 2])], 0)%N.
Definition oB : opts := (1, 1, [(7, [1; 3])], 0)%N.
(* [read] vs [read; admin]; value order; a name whose only value is the empty string (0) vs the name without values *)
Definition oC : opts := (1, 1, [(7, [1])], 0)%N.
Definition oD : opts := (1, 1, [(7, [1; 4])], 0)%N.
Definition oE : opts := (1, 1, [(7, [2; 1])], 0)%N.
Definition oF : opts := (1, 1, [(7, [0])], 0)%N.
Definition oG : opts := (1, 1, [(7, [])], 0)%N.
Definition oH : opts := (1, 1, [], 0)%N.
(* sub 0 connects alone, then sub 1 arrives: with a live connection under its key it registers there *)
Definition tr_seq (ka kb : key) : list action :=
  [ASub 0 ka; UpAccept 0; UpAck 0 PTws; ABook 0; APublish 0; AInsert 0; ASend 0; ASub 1 kb; AInsert 1; ASend 1].
Definition tr_seq2 (ka kb : key) : list action :=
  [ASub 0 ka; UpAccept 0; UpAck 0 PTws; ABook 0; APublish 0; AInsert 0; ASend 0;
   ASub 1 kb; UpAccept 1; UpAck 1 PTws; ABook 1; APublish 1; AInsert 1; ASend 1].

Lemma same_opts_hvals : forall a b n, same_opts a b -> hvals (snd (fst a)) n = hvals (snd (fst b)) n.
Proof. intros [[[e1 p1] h1] i1] [[[e2 p2] h2] i2] n (_ & _ & _ & H). apply H. Qed.

(* the key over the whole multimap tells all of these apart (and identifies a name without values with an absent
   name, which is what the upgrade request carries); under it the two subscriptions get a connection each *)
Example ex_multi_valued_keys :
  conn_key oA <> conn_key oB /\ conn_key oC <> conn_key oD /\ conn_key oA <> conn_key oE /\ conn_key oF <> conn_key oG
  /\ conn_key oG = conn_key oH /\ same_opts oG oH
  /\ exists s log x y, run (init false) (tr_seq2 (conn_key oA) (conn_key oB)) = Some (s, log)
                       /\ cns s 0 = Some x /\ c_subs x = [(0, 0)] /\ cns s 1 = Some y /\ c_subs y = [(1, 1)]
                       /\ shared_b [(0, conn_key oA); (1, conn_key oB)] log = true
                       /\ run (init false) (tr_seq (conn_key oA) (conn_key oB)) = None.
Proof.
  split; [vm_compute; discriminate|]. split; [vm_compute; discriminate|]. split; [vm_compute; discriminate|].
  split; [vm_compute; discriminate|]. split; [vm_compute; reflexivity|].
  split; [simpl; repeat split; intro n; unfold hvals; simpl; destruct n as [|q]; [reflexivity | destruct (Pos.eqb 7 q); reflexivity]|].
  do 4 eexists. repeat (split; [vm_compute; reflexivity|]). vm_compute; reflexivity.
Qed.

(* a key over the FIRST value of every name is refuted: it identifies option tuples whose multimaps differ, and the
   transport keyed by it registers both subscriptions on connection 0, whose upgrade carried subscriber 0's headers *)
Lemma first_value_key_refuted_proof :
  exists oi oj, conn_key (first_value_opts oi) = conn_key (first_value_opts oj) /\ ~ same_opts oi oj
    /\ exists s log x, run (init false) (tr_seq (conn_key (first_value_opts oi)) (conn_key (first_value_opts oj))) = Some (s, log)
                       /\ cns s 0 = Some x /\ In (0, 0) (c_subs x) /\ In (1, 1) (c_subs x).
Proof.
  exists oA, oB. split; [vm_compute; reflexivity|]. split.
  - intro H. apply (same_opts_hvals _ _ 7%N) in H. vm_compute in H. discriminate.
  - do 3 eexists. split; [vm_compute; reflexivity|]. split; [vm_compute; reflexivity|]. simpl. auto.
Qed.

Example ex_conns_drain :
  exists s log x, reach false s log /\ quiescent s /\ cns s 0 = Some x /\ c_closed x = false /\ c_subs x = [(1, 1); (0, 0)].
Proof.
  do 3 eexists. split; [exists tr_two; vm_compute; reflexivity|].
  split.
  - intros a Ha. destruct a; try discriminate; simpl;
      try (destruct i as [|[|i]]; reflexivity); try (destruct c as [|[|c]]; reflexivity).
  - split; [vm_compute; reflexivity|]. split; reflexivity.
Qed.

(* subscriber 1 cancels from inside its terminal callback: id 1 is removed by its own cancel and again
   by dispatch; subscriber 0 on the same connection keeps receiving, nobody gets a connection error *)
Definition tr_double : list action :=
  tr_two ++ [UpMsg 0 (frame_of 1 KComplete); ACtxCancel 1; AUnsub 1; AUnsubSend 1; ARemove 1; ARLRemove 0; UpMsg 0 (frame_of 0 (KData 5))].
Example ex_double_remove :
  exists s log x, run (init false) tr_double = Some (s, log)
    /\ In (ODeliver 0 (KData 5)) log /\ isolated_log_b log = true /\ routing_b log = true
    /\ cns s 0 = Some x /\ c_closed x = false /\ c_subs x = [(0, 0)].
Proof.
  do 3 eexists. split; [vm_compute; reflexivity|].
  split; [vm_compute; tauto|]. split; [vm_compute; reflexivity|]. split; [vm_compute; reflexivity|].
  split; [vm_compute; reflexivity|]. split; reflexivity.
Qed.

(* cancel_isolated, non-vacuity: coalesced dial, both subscribe, one is cancelled and leaves, the
   other keeps receiving, then leaves and the connection is closed empty -- nobody fails *)
Definition tr_iso : list action :=
  tr_two ++ [UpMsg 0 (frame_of 1 (KData 7)); ACtxCancel 0; AUnsub 0; AUnsubSend 0; ARemove 0; UpMsg 0 (frame_of 0 (KData 8)); UpMsg 0 (frame_of 1 (KData 9));
             ACtxCancel 1; AUnsub 1; AUnsubSend 1; ARemove 1; AClose 1; ARemoveConn 0].
Example ex_cancel_isolated :
  exists s log, run (init false) tr_iso = Some (s, log) /\ In (ODeliver 1 (KData 9)) log /\ In (OSrvClosed 0) log
                /\ failed_b 0 log = false /\ failed_b 1 log = false.
Proof. eexists. eexists. split; [vm_compute; reflexivity|]. repeat split; simpl; tauto. Qed.
