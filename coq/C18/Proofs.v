(* C18: final statements collected for Properties.v *)
From Gv Require Import lib.Bytes C18.Model C18.Spec C18.ProofsBasic C18.ProofsInv C18.ProofsKey C18.ProofsDrain C18.ProofsIso
  gen.Anchors_C18.
From Coq Require Import List NArith Arith Bool.
Import ListNotations.
Open Scope N_scope.

(* the fields of common.Options the model's key is made of, in connKey's order *)
Definition model_key_fields : list bytes :=
  [[69; 110; 100; 112; 111; 105; 110; 116];                                  (* Endpoint *)
   [87; 83; 83; 117; 98; 112; 114; 111; 116; 111; 99; 111; 108];             (* WSSubprotocol *)
   [72; 101; 97; 100; 101; 114; 115];                                        (* Headers *)
   [73; 110; 105; 116; 80; 97; 121; 108; 111; 97; 100]].                     (* InitPayload *)

(* shape facts the model relies on: getOrDial dials with the caller's ctx and hands the dial error
   to every waiter (finding a), removeConn deletes by key, removeSub calls closeConn after
   releasing subsMu (finding b) *)
Lemma anchors_ok :
  anchor_connkey_fields = model_key_fields
  /\ anchor_dial_uses_caller_ctx = true /\ anchor_waiter_returns_dial_err = true
  /\ anchor_removeconn_by_key = true /\ anchor_close_outside_lock = true.
Proof. repeat split; reflexivity. Qed.
