(* C18: cancel_isolated holds on every run that avoids the three refuting windows:
     - no dial is aborted by its dialler's ctx                      (excludes finding a)
     - no frame write is killed by its ctx after it began           (excludes finding d)
     - closeConn after "table seen empty" runs only while the table is still empty and nobody is
       between obtaining the connection and having subscribed on it (excludes finding b)      *)
From Gv Require Import C18.Model C18.Spec C18.ProofsBasic C18.ProofsInv C18.ProofsKey C18.ProofsDrain C18.ProofsRouting.
From Coq Require Import List NArith Arith Bool Lia.
Import ListNotations.

Definition enterP (p : spc) (c : nat) : Prop :=
  match p with
  | SWait c' | SHaveConn c' | SPublish c' _ | SBook c' _ | SSend c' _ => c' = c
  | _ => False
  end.

Definition idle_close_ok (s : st) (c : nat) : Prop :=
  match cns s c with
  | Some x => c_closed x = true
              \/ (c_subs x = [] /\ (forall j, ~ enterP (pc s j) c) /\ (forall k, dialing s k <> Some c))
  | None => True
  end.

Definition safe (s : st) (a : action) : Prop :=
  match a with
  | ADialCtx _ => False
  | ASendCtx _ true _ => False
  | AClose i => match pc s i with SClose c _ => idle_close_ok s c | _ => True end
  | ARLClose c | ATimerClose c => idle_close_ok s c
  | _ => True
  end.

Fixpoint safe_run (s : st) (tr : list action) : Prop :=
  match tr with
  | [] => True
  | a :: r => safe s a /\ match step s a with Some (s1, _) => safe_run s1 r | None => True end
  end.

Definition up_err (e : err) : Prop := match e with EDial | EInit _ => True | _ => False end.
Definition okcause (s : st) (c : nat) (x : conn) (z : cause) : Prop :=
  z = CUpstream \/ z = CPing
  \/ (z = CIdle /\ c_closed x = true /\ (forall j, ~ enterP (pc s j) c) /\ (forall k, dialing s k <> Some c)).

Record InvS (s : st) : Prop := {
  S1 : forall d y e, dials s d = Some y -> d_done y = Some (Some e) -> up_err e;
  S1b : forall i d e, pc s i = SPublish d (Some e) \/ pc s i = SBook d (Some e) -> up_err e;
  S2 : forall c x z, cns s c = Some x -> c_dead x = Some z -> okcause s c x z;
  S3 : forall i c w e, pc s i = SRemove c w (KSendFail e) \/ pc s i = SClose c (KSendFail e) -> err_blame_ok i e
}.

Lemma invs_init : forall idl, InvS (init idl).
Proof. intros; constructor; simpl; intros; try discriminate; destruct H; discriminate. Qed.

Lemma up_err_blame : forall j e, up_err e -> err_blame_ok j e.
Proof. destruct e; simpl; tauto. Qed.

Lemma connerrs_isolated : forall (l : list (nat * nat)) cz, (forall j, blame_ok j cz) ->
  Forall ev_isolated (map (fun p => OConnErr (snd p) cz) l).
Proof. induction l; simpl; intros; constructor; simpl; auto. Qed.

Lemma shut_evs_isolated : forall s c cz s' evs, shut s c cz = (s', evs) ->
  (cz = CUpstream \/ cz = CPing \/ (forall x, cns s c = Some x -> c_closed x = true \/ c_subs x = [])) ->
  Forall ev_isolated evs.
Proof.
  intros s c cz s' evs H Hc. destruct (shut_cases _ _ _ _ _ H) as [(-> & -> & _)|(x & Ex & Ecl & -> & ->)]; [constructor|].
  apply Forall_app. split.
  - destruct Hc as [->|[->|Hy]].
    + apply connerrs_isolated. intros; exact I.
    + apply connerrs_isolated. intros; exact I.
    + destruct (Hy _ Ex) as [Hy'|Hy']; [congruence|]. rewrite Hy'. constructor.
  - unfold kill_evs. destruct (c_dead x); repeat constructor.
Qed.

Lemma idle_ok_shut : forall s c, idle_close_ok s c -> forall x, cns s c = Some x -> c_closed x = true \/ c_subs x = [].
Proof. unfold idle_close_ok. intros s c H x Ex. rewrite Ex in H. destruct H as [?|(? & _)]; auto. Qed.

Lemma ret_evs_isolated : forall i k, (forall e, k = KSendFail e -> err_blame_ok i e) -> Forall ev_isolated (ret_evs i k).
Proof. intros i k H. destruct k; simpl; repeat constructor. simpl. auto. Qed.

Lemma evs_isolated_step : forall s a s' evs, Inv s -> InvS s -> safe s a -> step s a = Some (s', evs) ->
  Forall ev_isolated evs.
Proof.
  intros s a s' evs HI HS Hsafe H.
  destruct a; simpl in Hsafe; try tauto; inv_step H; repeat constructor; simpl; auto.
  all: try (apply up_err_blame; eapply (S1 _ HS); eauto; fail).
  all: try (apply up_err_blame; eapply (S1b _ HS); eauto; fail).
  - (* AInsert on a closed connection *)
    destruct (S2 _ HS _ _ _ Heqo Heqo0) as [->|[->|(-> & _ & Hn & _)]]; simpl; auto.
    eapply Hn. rewrite Heqs0. reflexivity.
  - (* AInsert: id exists -- impossible, ids are fresh *)
    apply lookup_In in Heqo0. pose proof (I1 _ HI _ _ _ _ Heqo Heqo0) as Hh. apply holds_held in Hh.
    pose proof (I5 _ HI _ _ Hh). lia.
  - (* ARemove *) apply ret_evs_isolated. intros e0 ->. apply (S3 _ HS i c w e0). auto.
  - (* AClose *)
    apply Forall_app. split.
    + eapply shut_evs_isolated; eauto. right; right. apply idle_ok_shut; auto.
    + apply ret_evs_isolated. intros e0 ->. apply (S3 _ HS i c 0 e0). auto.
  - (* ARLClose *) eapply shut_evs_isolated; eauto. right; right. apply idle_ok_shut; auto.
  - (* ARLReadErr *)
    eapply shut_evs_isolated; eauto.
    destruct (S2 _ HS _ _ _ Heqo Heqo0) as [->|[->|(-> & Hcl & _)]]; auto.
    right; right. intros x Ex. rewrite Heqo in Ex; inversion Ex; subst. auto.
  - (* ATimerClose *)
    eapply shut_evs_isolated; eauto. right; right. intros x Ex. simpl in Ex. rewrite upd_same in Ex.
    inversion Ex; subst. simpl. eapply idle_ok_shut; eauto.
  - (* APingTimeout *) eapply shut_evs_isolated; eauto.
Qed.

Ltac ds HS :=
  pose proof (S1 _ HS) as Hs1; pose proof (S1b _ HS) as Hs1b; pose proof (S2 _ HS) as Hs2; pose proof (S3 _ HS) as Hs3.

Lemma okcause_keep : forall s s' c x x' z, okcause s c x z ->
  (c_closed x = true -> c_closed x' = true) ->
  (z = CIdle -> c_closed x = true -> (forall j, ~ enterP (pc s j) c) -> (forall k, dialing s k <> Some c) ->
     (forall j, ~ enterP (pc s' j) c) /\ (forall k, dialing s' k <> Some c)) ->
  okcause s' c x' z.
Proof.
  intros s s' c x x' z [->|[->|(-> & Hcl & Hj & Hk)]] H1 H2; unfold okcause; auto.
  right; right. destruct (H2 eq_refl Hcl Hj Hk). auto.
Qed.

Lemma okcause_open : forall s s' c x x' z, okcause s c x z -> c_closed x = false -> okcause s' c x' z.
Proof. intros s s' c x x' z [->|[->|(-> & Hcl & _)]] H; unfold okcause; auto. congruence. Qed.

Lemma okcause_idle : forall s s' c x x', idle_close_ok s c -> cns s c = Some x -> c_closed x = false ->
  (forall j, enterP (pc s' j) c -> enterP (pc s j) c) -> dialing s' = dialing s -> c_closed x' = true ->
  okcause s' c x' CIdle.
Proof.
  unfold idle_close_ok, okcause. intros s s' c x x' H Ex Ecl Hp Hd Hc. rewrite Ex in H.
  destruct H as [H|(_ & Hj & Hk)]; [congruence|]. right; right. repeat split; auto.
  - intros j Hj'. eapply Hj; eauto.
  - rewrite Hd. auto.
Qed.

Ltac inv_pcs :=
  repeat match goal with
         | H : SBook _ _ = _ |- _ => inversion H; subst; clear H
         | H : SPublish _ _ = _ |- _ => inversion H; subst; clear H
         | H : SRemove _ _ _ = _ |- _ => inversion H; subst; clear H
         | H : SClose _ _ = _ |- _ => inversion H; subst; clear H
         | H : after _ = _ |- _ => unfold after in H
         | H : match ?k with KCancel => _ | KSendFail _ => _ end = _ |- _ => destruct k; try discriminate
         end.

Lemma invs_step : forall s a s' e, Inv s -> InvD s -> NoConnYet s -> InvS s -> safe s a ->
  step s a = Some (s', e) -> InvS s'.
Proof.
  intros s a s' e HI HD HN HS Hsafe H. ds HS.
  destruct a; simpl in Hsafe; try tauto; inv_step H; expl.
  all: try (exfalso; exact Hsafe).
  all: constructor; intros; simp; eqb_cases; inj_all; fwd_same;
       repeat (match goal with Er : removed_conn _ _ _ = _ |- _ => rewrite Er in *; clear Er end); simpl in *;
       eauto; try congruence; try (split_or; congruence).
  all: try (match goal with |- okcause _ _ _ _ =>
              eapply okcause_keep; [eapply Hs2; eassumption | simpl; auto; fail |
                intros ? Hclo Hj Hk; split;
                [ let j := fresh "j" in intro j; specialize (Hj j); simp; unfold upd in *;
                  try (match goal with |- context [Nat.eqb j ?i] => destruct (Nat.eqb_spec j i); subst end);
                  try (match goal with Hpc : pc _ _ = _ |- _ => rewrite Hpc in Hj end); simpl in *; auto; try tauto
                | let kk := fresh "kk" in intro kk; specialize (Hk kk); simp; unfold updk in *;
                  try (match goal with |- context [key_eqb kk ?k] => destruct (key_eqb_spec kk k); subst end);
                  simpl in *; auto; try congruence ] ] end).
  all: try (match goal with |- ~ enterP (after ?k) _ => destruct k; simpl; tauto end).
  all: try (match goal with Hx : cns ?s ?c = Some _ |- Some (next_c ?s) <> Some ?c =>
              intro E; inversion E; subst; destruct (D8 _ HD (next_c s) (le_n _)) as [E1 _]; unfold ck in E1; rewrite Hx in E1; discriminate end).
  all: destr_hyp_match; inj_all; fwd_same; try congruence.
  all: try (split_or; eqb_cases; try discriminate; inj_all; inv_pcs; simpl; eauto 6; fail).
  all: try (match goal with
            | Hc : cns ?s ?c = Some ?x, Hd : c_dead ?x = Some ?z, Hcl : c_closed ?x = false |- okcause _ ?c _ ?z =>
              eapply okcause_open; [exact (Hs2 _ _ _ Hc Hd) | exact Hcl] end).
  - (* ASend on a dead socket *)
    destruct H as [H|H]; inversion H; subst. simpl.
    destruct (Hs2 _ _ _ Heqo Heqo0) as [->|[->|(-> & _ & Hn & _)]]; simpl; auto.
    eapply Hn. rewrite Heqs0. reflexivity.
  - (* AClose closes a live connection *)
    eapply okcause_idle; eauto. simpl. intros j. destruct (Nat.eqb_spec j i); auto. destruct k; simpl; tauto.
  - (* ARLClose closes a live connection *) eapply okcause_idle; eauto.
  - (* ATimerClose closes a live connection *) eapply okcause_idle; eauto.
  - (* UpReject: the dial has no connection *)
    intro; subst. rewrite (HN _ _ Heqo) in H by congruence. discriminate.
  - (* UpInitFail *)
    intro; subst. rewrite (HN _ _ Heqo) in H by congruence. discriminate.
  - (* UpDrop *) left. reflexivity.
  - (* APingTimeout *) right; left. reflexivity.
Qed.

Lemma isolated_from : forall tr s0 s log, Good s0 -> NoConnYet s0 -> InvS s0 ->
  run s0 tr = Some (s, log) -> safe_run s0 tr -> isolated_log log.
Proof.
  unfold isolated_log. induction tr as [|a tr IH]; simpl; intros s0 s log HG HN HS H Hsafe.
  - inversion H; subst. constructor.
  - destruct Hsafe as [Hsa Hrest]. destruct (step s0 a) as [[s1 e1]|] eqn:Es; [|discriminate].
    destruct (run s1 tr) as [[s2 e2]|] eqn:Er; [|discriminate]. inversion H; subst.
    destruct HG as (HI & HD & HC).
    apply Forall_app. split.
    + eapply evs_isolated_step; eauto.
    + assert (HG1 : Good s1) by (apply (good_step s0 a s1 e1); [split; [|split]; assumption | exact Es]).
      assert (HN1 : NoConnYet s1) by (eapply noconn_step; eauto).
      assert (HS1 : InvS s1) by (eapply invs_step; eauto).
      eapply IH; eauto.
Qed.

Theorem cancel_isolated_partial_proof : forall idl tr s log,
  run (init idl) tr = Some (s, log) -> safe_run (init idl) tr -> isolated_log log.
Proof.
  intros. eapply isolated_from; eauto; [apply good_init | apply noconn_init | apply invs_init].
Qed.

(* the exclusions are satisfiable by a non-trivial run: coalesced dial, both subscribe, one is
   cancelled and leaves, the other one keeps receiving *)
Definition K2 : key := (1, 1, 0, 0)%N.
Definition tr_safe : list action :=
  [ASub 0 K2; UpAccept 0; ASub 1 K2; UpAck 0; APublish 0; AWaitDone 1; ABook 0; AInsert 0; AInsert 1; ASend 1; ASend 0;
   UpMsg 0 1 (KData 7); ACtxCancel 0; AUnsub 0; AUnsubSend 0; ARemove 0; UpMsg 0 0 (KData 8); UpMsg 0 1 (KData 9);
   ACtxCancel 1; AUnsub 1; AUnsubSend 1; ARemove 1; AClose 1; ARemoveConn 0].
Example partial_nonvacuous :
  exists s log, run (init false) tr_safe = Some (s, log) /\ safe_run (init false) tr_safe
                /\ In (ODeliver 1 (KData 9)) log /\ In (OSrvClosed 0) log.
Proof.
  eexists. eexists. split; [vm_compute; reflexivity|]. split.
  - vm_compute. repeat split; auto.
    right. repeat split; auto.
    + intros j. destruct j as [|[|j]]; simpl; tauto.
    + intros x. match goal with |- (if ?b then None else _) = _ -> _ => destruct b; discriminate end.
  - split; simpl; tauto.
Qed.
