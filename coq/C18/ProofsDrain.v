(* C18: conns_drain -- at quiescence (no internal action enabled, no idle timer pending) every
   connection that is not closed carries at least one active, uncancelled subscription. *)
From Gv Require Import C18.Model C18.Spec C18.ProofsBasic C18.ProofsInv C18.ProofsKey.
From Coq Require Import List NArith Arith Bool Lia.
Import ListNotations.

(* somebody is on the way to use or to close connection c *)
Definition witP (p : spc) (c : nat) : Prop :=
  match p with
  | SClose c' _ | SHaveConn c' => c' = c
  | SPublish c' None | SBook c' None => c' = c
  | _ => False
  end.

Record InvC (s : st) : Prop := {
  C1 : forall c x, cns s c = Some x -> c_closed x = false -> c_subs x = [] ->
       0 < c_timers x \/ c_rl x = RLClose \/ exists i, witP (pc s i) c;
  C2 : forall c x, cns s c = Some x -> c_rl x = RLExit -> c_closed x = true
}.

Lemma invc_init : forall idl, InvC (init idl).
Proof. intros; constructor; simpl; intros; discriminate. Qed.

Lemma shut_closed : forall s c cz s' evs x', shut s c cz = (s', evs) -> cns s c <> None -> cns s' c = Some x' -> c_closed x' = true.
Proof.
  intros. destruct (shut_cases _ _ _ _ _ H) as [[-> [_ [E|[x [E Ec]]]]]|[x [Ex [_ [-> _]]]]].
  - congruence.
  - rewrite E in H1; inversion H1; subst; auto.
  - simpl in H1. rewrite upd_same in H1. inversion H1; subst. reflexivity.
Qed.
Lemma shut_other : forall s c cz s' evs c', shut s c cz = (s', evs) -> c' <> c -> cns s' c' = cns s c'.
Proof.
  intros. destruct (shut_cases _ _ _ _ _ H) as [[-> _]|[x [Ex [_ [-> _]]]]]; auto.
  simpl. rewrite upd_other; auto.
Qed.
Lemma shut_same : forall s c cz s' evs x', shut s c cz = (s', evs) -> cns s' c = Some x' ->
  c_closed x' = true \/ cns s c = Some x'.
Proof.
  intros. destruct (shut_cases _ _ _ _ _ H) as [[-> _]|[x [Ex [_ [-> _]]]]]; auto.
  simpl in H0. rewrite upd_same in H0. inversion H0; subst. left; reflexivity.
Qed.

Lemma removed_conn_cases : forall s x w,
  (removed_conn s x w = c_set_subs x (remove_w w (c_subs x)) /\ (remove_w w (c_subs x) <> [] \/ idle s = false))
  \/ (remove_w w (c_subs x) = [] /\ idle s = true
      /\ removed_conn s x w = c_set_timers (c_set_subs x []) (S (c_timers x))).
Proof.
  intros. unfold removed_conn. simpl. destruct (is_nil (remove_w w (c_subs x))) eqn:E.
  - apply is_nil_true in E. destruct (idle s) eqn:Ei.
    + right. rewrite E. auto.
    + left. auto.
  - apply is_nil_false in E. left. auto.
Qed.

Ltac expl :=
  repeat match goal with
         | Hs : shut ?s ?c ?z = (?s1, ?e) |- _ =>
           destruct (shut_cases _ _ _ _ _ Hs) as [(-> & -> & ?Hno)|(?x & ?Ex & ?Ecl & -> & ->)]; clear Hs
         | Hs : close_if_empty ?s ?c = (?s1, ?e) |- _ =>
           destruct (close_if_empty_cases _ _ _ _ Hs) as [(-> & -> & ?Hno)|(?x & ?Ex & ?Ecl & ?Esub & -> & -> & _)]; clear Hs
         | Hr : remove_sub ?s ?c ?w = Some (?s1, ?b) |- _ =>
           let x := fresh "x" in let Hb1 := fresh "Hb1" in let Hb2 := fresh "Hb2" in
           destruct (remove_sub_cases _ _ _ _ _ Hr) as (x & ?Ex & -> & Hb1 & Hb2); clear Hr;
           destruct (removed_conn_cases s x w) as [(?Er & ?)|(? & ? & ?Er)]
         end.

Ltac use_c1_auto :=
  match goal with
  | Hc1 : (forall c x, cns ?s c = Some x -> _ -> _ -> _), H : cns ?s ?c = Some ?x, H0 : c_closed ?x = false, H1 : c_subs ?x = [] |- _ =>
    let i0 := fresh "i0" in let Hw := fresh "Hw" in
    destruct (Hc1 _ _ H H0 H1) as [?|[?|[i0 Hw]]];
    [auto | auto |
     try (right; right; exists i0; unfold upd;
          try match goal with |- context [Nat.eqb i0 ?j] => destruct (Nat.eqb_spec i0 j); subst end;
          try match goal with Hpc : pc _ _ = _ |- _ => rewrite Hpc in Hw end; simpl in *; try tauto; subst; split_or; repeat (match goal with E : exists _, _ |- _ => destruct E end); split_or; fwd_same; try congruence; try discriminate;
          try (match goal with E1 : c_subs ?x = [], E2 : In _ (c_subs ?x) |- _ => rewrite E1 in E2; destruct E2 end); auto; fail)]
  end.
Ltac auto_c :=
  constructor; intros; simp; eqb_cases; inj_all; fwd_same;
  repeat (match goal with Er : removed_conn _ _ _ = _ |- _ => rewrite Er in *; clear Er end);
  simpl in *; eauto; try congruence;
  fwd_lookup;
  try (use_c1_auto; fail);
  fwd_lookup; simpl in *; try discriminate; try congruence; subst; fwd_same; try congruence;
  try (match goal with H : In _ [] |- _ => destruct H end);
  try (match goal with E1 : c_subs ?x = [], E2 : is_nil (c_subs ?x) = false |- _ => rewrite E1 in E2; discriminate end);
  try (match goal with E1 : c_subs ?x = [], E2 : In _ (c_subs ?x) |- _ => rewrite E1 in E2; destruct E2 end);
  try (repeat match goal with Hb : ?b = ?b -> _ |- _ => specialize (Hb eq_refl) end; split_or; congruence);
  try (split_or; repeat (match goal with E : exists _, _ |- _ => destruct E end); split_or; try discriminate; inj_all; simpl in *; fwd_same; congruence);
  try solve [left; simpl; lia | right; left; congruence
            | right; right; match goal with |- exists i, witP (if i =? ?j then _ else _) _ => exists j; rewrite Nat.eqb_refl; simpl; auto end].

Lemma invc_step : forall s a s' e, Inv s -> InvD s -> InvC s -> step s a = Some (s', e) -> InvC s'.
Proof.
  intros s a s' e HI HD HC H.
  pose proof (C1 _ HC) as Hc1. pose proof (C2 _ HC) as Hc2. pose proof (D7 _ HD) as Hd7.
  destruct a; inv_step H; expl.
  all: try (match goal with Hd7 : owner_free ?s0, Hd : dials ?s0 ?d = Some ?y, Hph : d_phase ?y = _ |- _ =>
              pose proof (Hd7 _ _ Hd) as Hp; rewrite Hph in Hp; specialize (Hp ltac:(discriminate)) end).
  all: auto_c.
Qed.

Definition Good (s : st) : Prop := Inv s /\ InvD s /\ InvC s.

Lemma good_init : forall idl, Good (init idl).
Proof. intros. split; [apply inv_init | split; [apply invd_init | apply invc_init]]. Qed.
Lemma good_step : forall s a s' e, Good s -> step s a = Some (s', e) -> Good s'.
Proof.
  intros s a s' e (HI & HD & HC) H. split; [|split].
  - eapply inv_step; eauto. apply (D7 _ HD).
  - eapply invd_step; eauto.
  - eapply invc_step; eauto.
Qed.
Lemma reach_good : forall idl s log, reach idl s log -> Good s.
Proof.
  intros idl s log [tr H]. revert H.
  apply (run_ind (fun s _ => Good s) (init idl)); [apply good_init | intros; eapply good_step; eauto].
Qed.

(* ---- shared_iff_same_key ---- *)
Lemma holds_conn : forall p c w, holdsP p c w -> connP p c.
Proof. destruct p; simpl; tauto. Qed.

(* the key determines the whole multimap: the values of a name are read back from the line sequence *)
Lemma hvals_lines : forall h n, hvals h n = map snd (filter (fun l => N.eqb (fst l) n) (hdr_lines h)).
Proof.
  induction h as [|[m vs] h IH]; intros n; [reflexivity|].
  unfold hvals, hdr_lines in *. simpl. rewrite filter_app, map_app, <- IH. f_equal.
  destruct (N.eqb_spec m n).
  - subst. induction vs as [|v vs IHv]; simpl; [reflexivity|]. rewrite N.eqb_refl. simpl. f_equal. exact IHv.
  - induction vs as [|v vs IHv]; simpl; [reflexivity|]. destruct (N.eqb_spec m n); [contradiction|]. exact IHv.
Qed.

Lemma conn_key_same_opts : forall a b, conn_key a = conn_key b -> same_opts a b.
Proof.
  intros [[[e1 p1] h1] i1] [[[e2 p2] h2] i2] H. simpl in H. inversion H; subst. simpl.
  repeat split; auto. intro n. rewrite !hvals_lines. congruence.
Qed.

Theorem shared_iff_same_key_proof : forall idl s log, reach idl s log ->
  forall c x w i w' j, cns s c = Some x -> In (w, i) (c_subs x) -> In (w', j) (c_subs x) ->
    okey s i = c_key x /\ okey s j = c_key x
    /\ forall oi oj, okey s i = conn_key oi -> okey s j = conn_key oj -> same_opts oi oj.
Proof.
  intros idl s log HR c x w i w' j Hc Hi Hj. destruct (reach_good _ _ _ HR) as (HI & HD & _).
  assert (G : forall w i, In (w, i) (c_subs x) -> okey s i = c_key x).
  { intros w0 i0 H0. pose proof (I1 _ HI _ _ _ _ Hc H0) as Hh. apply holds_conn in Hh.
    pose proof (D5 _ HD _ _ Hh) as Hk. unfold ck in Hk. rewrite Hc in Hk. simpl in Hk. congruence. }
  split; [eapply G; eauto|]. split; [eapply G; eauto|].
  intros oi oj Ei Ej. apply conn_key_same_opts. rewrite <- Ei, <- Ej, (G _ _ Hi), (G _ _ Hj). reflexivity.
Qed.

(* ---- conns_drain ---- *)
Lemma close_if_empty_cns : forall s c s' evs x, close_if_empty s c = (s', evs) -> cns s c = Some x ->
  exists x', cns s' c = Some x'.
Proof.
  intros. destruct (close_if_empty_cases _ _ _ _ H) as [(-> & _)|(y & _ & _ & _ & -> & _)]; eauto.
  simpl. rewrite upd_same. eauto.
Qed.

Theorem conns_drain_proof : forall idl s log, reach idl s log -> quiescent s ->
  forall c x, cns s c = Some x -> c_closed x = false ->
    c_dead x = None /\ c_subs x <> []
    /\ forall w i, In (w, i) (c_subs x) -> pc s i = SActive c w /\ ctxc s i = false.
Proof.
  intros idl s log HR HQ c x Hc Hcl. destruct (reach_good _ _ _ HR) as (HI & HD & HC).
  assert (Q : forall a, is_internal a = true -> step s a = None) by exact HQ.
  split; [|split].
  - (* a dead socket that is not closed: the read loop still has something to do *)
    destruct (c_dead x) as [z|] eqn:Ed; auto. exfalso.
    destruct (c_rl x) eqn:Er.
    + pose proof (Q (ARLReadErr c) eq_refl) as E. simpl in E. rewrite Hc, Er, Ed in E.
      destruct (shut s c z) as [s1 evs] eqn:Es.
      destruct (shut_cases _ _ _ _ _ Es) as [(-> & _ & _)|(x0 & Ex & _ & -> & _)].
      * rewrite Hc in E. discriminate.
      * simpl in E. rewrite upd_same in E. discriminate.
    + pose proof (Q (ARLRemove c) eq_refl) as E. simpl in E. rewrite Hc, Er in E.
      unfold remove_sub in E. rewrite Hc in E.
      destruct (is_nil (remove_w w (c_subs x))); [destruct (idle s)|]; simpl in E; rewrite upd_same in E; discriminate.
    + pose proof (Q (ARLClose c) eq_refl) as E. simpl in E. rewrite Hc, Er in E.
      destruct (close_if_empty s c) as [s1 evs] eqn:Es.
      destruct (close_if_empty_cns _ _ _ _ _ Es Hc) as [x1 E1]. rewrite E1 in E. discriminate.
    + pose proof (C2 _ HC _ _ Hc Er). congruence.
  - (* an empty table on an open connection always has somebody about to use or close it *)
    intro He. destruct (C1 _ HC _ _ Hc Hcl He) as [Ht|[Ht|[i Hw]]].
    + pose proof (Q (ATimerFire c) eq_refl) as E. simpl in E. rewrite Hc in E.
      destruct (c_timers x); [lia | discriminate].
    + pose proof (Q (ARLClose c) eq_refl) as E. simpl in E. rewrite Hc, Ht in E.
      destruct (close_if_empty s c) as [s1 evs] eqn:Es.
      destruct (close_if_empty_cns _ _ _ _ _ Es Hc) as [x1 E1]. rewrite E1 in E. discriminate.
    + destruct (pc s i) eqn:Ep; simpl in Hw; try tauto; subst.
      * destruct r; try tauto; subst.
        pose proof (Q (ABook i) eq_refl) as E. simpl in E. rewrite Ep in E. discriminate.
      * destruct r; try tauto; subst.
        pose proof (Q (APublish i) eq_refl) as E. simpl in E. rewrite Ep in E.
        assert (dialP (pc s i) c) by (rewrite Ep; simpl; auto).
        destruct (D4 _ HD _ _ H) as (y & Hy & _). rewrite Hy in E. discriminate.
      * pose proof (Q (AInsert i) eq_refl) as E. simpl in E. rewrite Ep, Hc, Hcl in E.
        destruct (lookup (next_w s) (c_subs x)); discriminate.
      * pose proof (Q (AClose i) eq_refl) as E. simpl in E. rewrite Ep in E.
        destruct (close_if_empty s c); discriminate.
  - (* every entry belongs to a subscription at rest *)
    intros w i Hin. pose proof (I1 _ HI _ _ _ _ Hc Hin) as Hh.
    destruct (pc s i) eqn:Ep; simpl in Hh; try tauto; destruct Hh; subst.
    + pose proof (Q (ASend i) eq_refl) as E. simpl in E. rewrite Ep, Hc in E.
      destruct (ctxc s i); [discriminate|]. destruct (c_dead x); discriminate.
    + split; auto. destruct (ctxc s i) eqn:Ec; auto.
      pose proof (Q (AUnsub i) eq_refl) as E. simpl in E. rewrite Ep, Ec, Hc in E.
      destruct (lookup w (c_subs x)); discriminate.
    + pose proof (Q (AUnsubSend i) eq_refl) as E. simpl in E. rewrite Ep, Hc in E. discriminate.
    + pose proof (Q (ARemove i) eq_refl) as E. simpl in E. rewrite Ep in E.
      unfold remove_sub in E. rewrite Hc in E.
      destruct (is_nil (remove_w w (c_subs x))); [destruct (idle s)|]; simpl in E; discriminate.
Qed.

(* ---- terminal_local: a frame that MEANS a terminal message for wire id w (complete; error with or
   without payload; legacy connection_error carrying an id) removes exactly the entry (c, w) ---- *)
Theorem terminal_local_proof : forall idl s log, reach idl s log ->
  forall c x f w k s1 e1 s2 e2, cns s c = Some x -> spec_class (c_proto x) f = FcSub w k -> terminal k = true ->
    step s (UpMsg c f) = Some (s1, e1) -> step s1 (ARLRemove c) = Some (s2, e2) ->
    (forall c' x x', c' <> c -> cns s c' = Some x -> cns s2 c' = Some x' -> c_subs x' = c_subs x)
    /\ (forall x x', cns s c = Some x -> cns s2 c = Some x' ->
          forall w' i, In (w', i) (c_subs x') <-> (In (w', i) (c_subs x) /\ w' <> w))
    /\ (forall j, pc s2 j = pc s j)
    /\ (forall e, In e (e1 ++ e2) -> match e with OConnErr _ _ | ORet _ _ => False | _ => True end).
Proof.
  intros idl s log HR c x f w k s1 e1 s2 e2 Hx Hcl Hk H1 H2.
  destruct (upmsg_cases _ _ _ _ _ H1) as (x0 & Hx0 & Hrl & Hclo & Hdd & Hc).
  rewrite Hx in Hx0; inversion Hx0; subst x0; clear Hx0. rewrite Hcl, Hk in Hc.
  destruct Hc as [_ [(i & Hl & -> & ->)|(Hl & -> & ->)]].
  - (* delivered and terminal *)
    inv_step H2; simp; rewrite upd_same in *; inj_all; simpl in *; inj_all; expl;
      simp; rewrite ?upd_same in *; inj_all.
    all: repeat split; intros; simp.
    all: try (rewrite upd_other in * by auto; rewrite upd_other in * by auto; rewrite upd_other in * by auto; congruence).
    all: try (rewrite ?upd_same in *; inj_all; fwd_same;
              repeat (match goal with Er : removed_conn _ _ _ = _ |- _ => rewrite Er in *; clear Er end); simpl in *;
              try (match goal with E : remove_w _ _ = [] |- _ => rewrite <- E end);
              try (apply remove_w_In; fail); try (rewrite remove_w_In; tauto)).
    all: try (split_or; subst; auto; try tauto; fail).
    all: try (match goal with E : RLRemove _ = RLRemove _ |- _ => inversion E; subst; clear E end).
    all: try (match goal with E : In _ (remove_w _ _) |- _ => apply remove_w_In in E; tauto end).
    all: try (apply remove_w_In; tauto).
    all: try (match goal with E1 : remove_w ?w ?l = [], E2 : In (?w', ?i) ?l |- _ =>
                assert (In (w', i) (remove_w w l)) by (apply remove_w_In; tauto); rewrite E1 in *; simpl in *; tauto end).
    all: try (match goal with Hb : true = true -> _ /\ _ |- _ => destruct (Hb eq_refl); congruence end).
    all: split_or; try (match goal with E1 : remove_w ?w ?l = [], E2 : In (?w', ?i) ?l |- _ =>
                assert (In (w', i) (remove_w w l)) by (apply remove_w_In; tauto); rewrite E1 in *; simpl in *; tauto end).
  - (* unknown id: nothing delivered, read loop stays in RLRun *)
    inv_step H2; congruence.
Qed.

(* ---- every OTHER frame is local too: a frame that concerns no subscription (ping / pong / ka; an error,
   complete, data or connection_error frame WITHOUT an id), a frame for an id nobody holds (unknown,
   finished, or registered on another connection) and a non-terminal frame change no state at all and
   reach at most the one holder of the id; a frame that violates the protocol (not JSON, unknown type,
   unusable next payload) is an upstream fault on connection c alone: its socket is dead with cause
   CUpstream, every table (c's included) and every subscriber's program point are untouched ---- *)
Theorem frame_local_proof : forall s c f s1 e1, step s (UpMsg c f) = Some (s1, e1) ->
  exists x, cns s c = Some x /\
  match spec_class (c_proto x) f with
  | FcNone => s1 = s /\ e1 = [OUp c (c_proto x) f]
  | FcSub w k =>
    (forall i, ~ In (w, i) (c_subs x)) /\ s1 = s /\ e1 = [OUp c (c_proto x) f]
    \/ exists i, In (w, i) (c_subs x) /\ e1 = [OUp c (c_proto x) f; ODeliver i k] /\ (terminal k = false -> s1 = s)
  | FcFault =>
    e1 = [OUp c (c_proto x) f; OSrvClosed c] /\ (forall j, pc s1 j = pc s j) /\ (forall c', c' <> c -> cns s1 c' = cns s c')
    /\ conns s1 = conns s /\ exists x', cns s1 c = Some x' /\ c_subs x' = c_subs x /\ c_dead x' = Some CUpstream
  end.
Proof.
  intros s c f s1 e1 H. destruct (upmsg_cases _ _ _ _ _ H) as (x & Hx & Hrl & Hclo & Hdd & Hc).
  exists x. split; auto. destruct (spec_class (c_proto x) f) as [w k| |].
  - destruct Hc as [_ [(i & Hl & -> & ->)|(Hl & -> & ->)]].
    + right. exists i. split; [apply lookup_In; auto|]. split; auto. intros Ht. rewrite Ht. reflexivity.
    + left. split; auto. apply lookup_None; auto.
  - exact Hc.
  - destruct Hc as [-> ->]. split; auto. split; [reflexivity|]. split.
    + intros c' Hne. simpl. rewrite upd_other by auto. reflexivity.
    + split; [reflexivity|]. eexists. split; [simpl; rewrite upd_same; reflexivity|]. simpl. rewrite Hdd. auto.
Qed.

(* the window form used on the implementation's log: the events of the step that reads a frame addressed to ONE
   subscription (and, by terminal_local_proof, those of the removal that follows) pass Spec.tlocal_b *)
Theorem terminal_window_proof : forall s c f s1 e1 x w k, step s (UpMsg c f) = Some (s1, e1) -> cns s c = Some x ->
  spec_class (c_proto x) f = FcSub w k -> tlocal_b (lookup w (c_subs x)) e1 = true.
Proof.
  intros s c f s1 e1 x w k H Hx Hc. destruct (upmsg_cases _ _ _ _ _ H) as (x0 & Hx0 & _ & _ & _ & Hcase).
  rewrite Hx in Hx0; inversion Hx0; subst x0. rewrite Hc in Hcase.
  destruct Hcase as [_ [(i & Hl & -> & _)|(Hl & _ & ->)]]; rewrite Hl; simpl; rewrite ?Nat.eqb_refl; reflexivity.
Qed.

(* ---- double removal: removeSub of an id that is no longer in the table is a no-op; it starts the
   close flow only if the table is (already) empty ---- *)
Lemma remove_w_absent : forall w l, (forall i, ~ In (w, i) l) -> remove_w w l = l.
Proof.
  induction l as [|[w' j] l IH]; simpl; intros H; auto.
  destruct (Nat.eqb_spec w' w); subst; [exfalso; eapply H; left; reflexivity|].
  f_equal. apply IH. intros i Hi. eapply H. right. eauto.
Qed.

Theorem double_remove_noop_proof : forall s c x w s' e,
  cns s c = Some x -> c_rl x = RLRemove w -> (forall i, ~ In (w, i) (c_subs x)) ->
  step s (ARLRemove c) = Some (s', e) ->
  e = [] /\ (forall j, pc s' j = pc s j) /\ (forall c', c' <> c -> cns s' c' = cns s c')
  /\ exists x', cns s' c = Some x' /\ c_subs x' = c_subs x /\ c_closed x' = c_closed x /\ c_dead x' = c_dead x
               /\ (c_rl x' = RLClose -> c_subs x = []).
Proof.
  intros s c x w s' e Hc Hr Hno H. simpl in H. rewrite Hc, Hr in H.
  unfold remove_sub in H. rewrite Hc in H. rewrite (remove_w_absent _ _ Hno) in H.
  destruct (is_nil (c_subs x)) eqn:En.
  - apply is_nil_true in En. destruct (idle s); simpl in H; rewrite upd_same in H; inversion H; subst; clear H;
      (split; [reflexivity|]; split; [reflexivity|]; split;
       [intros c' Hne; simpl; rewrite !upd_other by auto; reflexivity|];
       eexists; split; [simpl; rewrite upd_same; reflexivity|]; simpl; repeat split; auto; discriminate).
  - simpl in H. rewrite upd_same in H. inversion H; subst; clear H.
    split; [reflexivity|]. split; [reflexivity|]. split;
      [intros c' Hne; simpl; rewrite !upd_other by auto; reflexivity|].
    eexists; split; [simpl; rewrite upd_same; reflexivity|]. simpl. repeat split; auto. discriminate.
Qed.
