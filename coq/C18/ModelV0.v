(* C18, historical: the LTS of the subscription client AS FOUND, before the three repairs in
   transport/ws_transport.go and transport/ws_conn.go:
     - getOrDial published the dialler's result before leaving the dialing table and handed
       result.err -- also the dialler's own context error -- to every coalesced waiter;
     - removeSub and the idle timer read "table empty" under subsMu and called closeConn after
       releasing it (ATimerFire / ATimerClose, ARemove / AClose are separate actions and closeConn
       does not look at the table again); a subscribe that found the connection closed failed;
     - the subscribe frame was written under the subscriber's ctx (ASendCtx: coder/websocket closes
       the whole socket when the ctx of a write in progress ends).
   Kept only for the _refuted statements of Properties.v (ProofsV0.v); the current code is Model.v.
   The types of keys, causes, errors, kinds and observable events are shared with Model.v, so the
   predicates of Spec.v apply to the logs of both.  No proofs in this file. *)
From Gv Require Import C18.Model.
From Coq Require Import List NArith Arith Bool.
Import ListNotations.

Module V0.

Inductive spc :=
| SIdle
| SWait (d : nat)                          (* select { ctx.Done ; result.done } *)
| SDial (d : nat)                          (* inside t.dial(ctx, ...) with OWN ctx *)
| SPublish (d : nat) (r : option err)      (* dial returned; result not yet published *)
| SBook (d : nat) (r : option err)         (* close(done) executed; [M] bookkeeping pending *)
| SHaveConn (c : nat)                      (* getOrDial returned c *)
| SSend (c w : nat)                        (* inserted; protocol.Subscribe pending *)
| SActive (c w : nat)                      (* Subscribe returned the cancel func *)
| SUnsubSend (c w : nat)                   (* unsubscribe: entry seen, protocol.Unsubscribe pending *)
| SRemove (c w : nat) (k : cont)           (* removeSub pending *)
| SClose (c : nat) (k : cont)              (* removeSub saw the table empty, idle = 0: closeConn pending *)
| SDone
| SFailed.


Record dial := { d_key : key; d_owner : nat; d_phase : dphase; d_done : option (option err) }.

Record conn := {
  c_key : key;
  c_subs : list (nat * nat);      (* wire id -> handler (owner index) *)
  c_closed : bool;                (* atomic closed *)
  c_dead : option cause;          (* the socket is unusable, and why *)
  c_timers : nat;                 (* armed time.AfterFunc idle timers *)
  c_tclose : nat;                 (* timer goroutines between "stillEmpty" and closeConn *)
  c_rl : rlpc;
  c_rm : bool                     (* shutdown ran up to the error callbacks; onEmpty (removeConn) pending *)
}.

Record st := {
  pc : nat -> spc; ctxc : nat -> bool; okey : nat -> key;
  conns : key -> option nat; dialing : key -> option nat;
  dials : nat -> option dial; cns : nat -> option conn;
  next_c : nat; next_w : nat; idle : bool;
  seen : list (nat * nat);        (* (wire id, sender) of every subscribe frame the upstream has been sent *)
  sse : nat -> ssepc
}.

Inductive action :=
| ASub (i : nat) (k : key) | ACtxCancel (i : nat)
| AWaitDone (i : nat) | AWaitCtx (i : nat) | ADialCtx (i : nat)
| APublish (i : nat) | ABook (i : nat) | AInsert (i : nat)
| ASend (i : nat) | ASendCtx (i : nat) (kill ok : bool)
| AUnsub (i : nat) | AUnsubSend (i : nat) | ARemove (i : nat) | AClose (i : nat)
| ARLRemove (c : nat) | ARLClose (c : nat) | ARLReadErr (c : nat)
| ATimerFire (c : nat) | ATimerClose (c : nat) | ARemoveConn (c : nat)
| UpAccept (d : nat) | UpReject (d : nat) | UpAck (d : nat) | UpInitFail (d : nat) (r : N)
| UpMsg (c w : nat) (k : kind) | UpDrop (c : nat) | APingTimeout (c : nat)
| SseSub (i : nat) | SseOk (i : nat) | SseFail (i : nat) | SseMsg (i : nat) (k : kind)
| SseDrop (i : nat) | SseCancel (i : nat).

(* ---- setters ---- *)
Definition set_pc (s : st) (i : nat) (p : spc) : st :=
  {| pc := upd (pc s) i p; ctxc := ctxc s; okey := okey s; conns := conns s; dialing := dialing s;
     dials := dials s; cns := cns s; next_c := next_c s; next_w := next_w s; idle := idle s;
     seen := seen s; sse := sse s |}.
Definition set_cn (s : st) (c : nat) (x : conn) : st :=
  {| pc := pc s; ctxc := ctxc s; okey := okey s; conns := conns s; dialing := dialing s;
     dials := dials s; cns := upd (cns s) c (Some x); next_c := next_c s; next_w := next_w s;
     idle := idle s; seen := seen s; sse := sse s |}.
Definition set_dial (s : st) (d : nat) (x : dial) : st :=
  {| pc := pc s; ctxc := ctxc s; okey := okey s; conns := conns s; dialing := dialing s;
     dials := upd (dials s) d (Some x); cns := cns s; next_c := next_c s; next_w := next_w s;
     idle := idle s; seen := seen s; sse := sse s |}.
Definition set_conns (s : st) (m : key -> option nat) : st :=
  {| pc := pc s; ctxc := ctxc s; okey := okey s; conns := m; dialing := dialing s;
     dials := dials s; cns := cns s; next_c := next_c s; next_w := next_w s; idle := idle s;
     seen := seen s; sse := sse s |}.
Definition set_dialing (s : st) (m : key -> option nat) : st :=
  {| pc := pc s; ctxc := ctxc s; okey := okey s; conns := conns s; dialing := m;
     dials := dials s; cns := cns s; next_c := next_c s; next_w := next_w s; idle := idle s;
     seen := seen s; sse := sse s |}.
Definition set_sse (s : st) (i : nat) (p : ssepc) : st :=
  {| pc := pc s; ctxc := ctxc s; okey := okey s; conns := conns s; dialing := dialing s;
     dials := dials s; cns := cns s; next_c := next_c s; next_w := next_w s; idle := idle s;
     seen := seen s; sse := upd (sse s) i p |}.

Definition c_set_subs (x : conn) (l : list (nat * nat)) : conn :=
  {| c_key := c_key x; c_subs := l; c_closed := c_closed x; c_dead := c_dead x; c_timers := c_timers x;
     c_tclose := c_tclose x; c_rl := c_rl x; c_rm := c_rm x |}.
Definition c_set_rl (x : conn) (r : rlpc) : conn :=
  {| c_key := c_key x; c_subs := c_subs x; c_closed := c_closed x; c_dead := c_dead x; c_timers := c_timers x;
     c_tclose := c_tclose x; c_rl := r; c_rm := c_rm x |}.
Definition c_set_timers (x : conn) (t tc : nat) : conn :=
  {| c_key := c_key x; c_subs := c_subs x; c_closed := c_closed x; c_dead := c_dead x; c_timers := t;
     c_tclose := tc; c_rl := c_rl x; c_rm := c_rm x |}.
Definition c_set_rm (x : conn) (b : bool) : conn :=
  {| c_key := c_key x; c_subs := c_subs x; c_closed := c_closed x; c_dead := c_dead x; c_timers := c_timers x;
     c_tclose := c_tclose x; c_rl := c_rl x; c_rm := b |}.
(* the socket becomes unusable (first cause wins) *)
Definition c_kill (x : conn) (cz : cause) : conn :=
  {| c_key := c_key x; c_subs := c_subs x; c_closed := c_closed x;
     c_dead := match c_dead x with None => Some cz | d => d end; c_timers := c_timers x;
     c_tclose := c_tclose x; c_rl := c_rl x; c_rm := c_rm x |}.
Definition kill_evs (c : nat) (x : conn) : list ev :=
  match c_dead x with None => [OSrvClosed c] | _ => [] end.

Definition d_set (x : dial) (p : dphase) (dn : option (option err)) : dial :=
  {| d_key := d_key x; d_owner := d_owner x; d_phase := p; d_done := dn |}.

Definition init (idl : bool) : st :=
  {| pc := fun _ => SIdle; ctxc := fun _ => false; okey := fun _ => (0, 0, [], 0)%N;
     conns := fun _ => None; dialing := fun _ => None; dials := fun _ => None; cns := fun _ => None;
     next_c := 0; next_w := 0; idle := idl; seen := []; sse := fun _ => SseIdle |}.

(* shutdown(err) up to and including the error callbacks and c.cancel(): CAS closed; close the
   socket; swap the table; call every handler with the connection error.  onEmpty is a separate
   action (ARemoveConn).  A second caller returns at the CAS. *)
Definition shut (s : st) (c : nat) (cz : cause) : st * list ev :=
  match cns s c with
  | None => (s, [])
  | Some x =>
    if c_closed x then (s, [])
    else
      let x' := {| c_key := c_key x; c_subs := []; c_closed := true;
                   c_dead := match c_dead x with None => Some cz | d => d end;
                   c_timers := c_timers x; c_tclose := c_tclose x; c_rl := c_rl x; c_rm := true |} in
      (set_cn s c x', map (fun p => OConnErr (snd p) cz) (c_subs x) ++ kill_evs c x)
  end.

(* removeSub(id): [S_c] delete, empty?  -> arm a timer (idle > 0) or go on to closeConn *)
Definition remove_sub (s : st) (c w : nat) : option (st * bool) :=   (* bool: closeConn pending *)
  match cns s c with
  | None => None
  | Some x =>
    let l := remove_w w (c_subs x) in
    let x1 := c_set_subs x l in
    if is_nil l then
      if idle s then Some (set_cn s c (c_set_timers x1 (S (c_timers x1)) (c_tclose x1)), false)
      else Some (set_cn s c x1, true)
    else Some (set_cn s c x1, false)
  end.

Definition ret_evs (i : nat) (k : cont) : list ev :=
  match k with KCancel => [] | KSendFail e => [ORet i (Some e)] end.
Definition after (k : cont) : spc := match k with KCancel => SDone | KSendFail _ => SFailed end.

Definition step (s : st) (a : action) : option (st * list ev) :=
  match a with
  (* ---- Subscribe_i: getOrDial [M] ---- *)
  | ASub i k =>
    match pc s i with
    | SIdle =>
      let s0 := {| pc := pc s; ctxc := ctxc s; okey := upd (okey s) i k; conns := conns s; dialing := dialing s;
                   dials := dials s; cns := cns s; next_c := next_c s; next_w := next_w s; idle := idle s;
                   seen := seen s; sse := sse s |} in
      let live := match conns s k with
                  | Some c => match cns s c with Some x => if c_closed x then None else Some c | None => None end
                  | None => None end in
      match live with
      | Some c => Some (set_pc s0 i (SHaveConn c), [])
      | None =>
        match dialing s k with
        | Some d => Some (set_pc s0 i (SWait d), [])
        | None =>
          let d := next_c s in
          let s1 := {| pc := upd (pc s0) i (SDial d); ctxc := ctxc s0; okey := okey s0; conns := conns s0;
                       dialing := updk (dialing s0) k (Some d);
                       dials := upd (dials s0) d (Some {| d_key := k; d_owner := i; d_phase := DConnecting; d_done := None |});
                       cns := cns s0; next_c := S d; next_w := next_w s0; idle := idle s0; seen := seen s0;
                       sse := sse s0 |} in
          Some (s1, [OSrvDial d k])
        end
      end
    | _ => None
    end
  | ACtxCancel i =>
    if ctxc s i then None
    else Some ({| pc := pc s; ctxc := upd (ctxc s) i true; okey := okey s; conns := conns s; dialing := dialing s;
                  dials := dials s; cns := cns s; next_c := next_c s; next_w := next_w s; idle := idle s;
                  seen := seen s; sse := sse s |}, [OCancel i])
  | AWaitDone i =>
    match pc s i with
    | SWait d =>
      match dials s d with
      | Some x =>
        match d_done x with
        | Some None => Some (set_pc s i (SHaveConn d), [])
        | Some (Some e) => Some (set_pc s i SFailed, [ORet i (Some e)])
        | None => None
        end
      | None => None
      end
    | _ => None
    end
  | AWaitCtx i =>
    match pc s i with
    | SWait d => if ctxc s i then Some (set_pc s i SFailed, [ORet i (Some (ECtx i false))]) else None
    | _ => None
    end
  (* ---- the dialler's dial(ctx_i, ...): environment decides, or the dialler's OWN ctx ---- *)
  | ADialCtx i =>
    match pc s i with
    | SDial d =>
      match dials s d with
      | Some x =>
        if ctxc s i then
          match d_phase x with
          | DConnecting => Some (set_pc (set_dial s d (d_set x DReturned None)) i (SPublish d (Some (ECtx i false))), [OSrvClosed d])
          | DInit => Some (set_pc (set_dial s d (d_set x DReturned None)) i (SPublish d (Some (ECtx i true))), [OSrvClosed d])
          | DReturned => None
          end
        else None
      | None => None
      end
    | _ => None
    end
  | UpAccept d =>
    match dials s d with
    | Some x => match d_phase x with
                | DConnecting => Some (set_dial s d (d_set x DInit None), [OAccept d])
                | _ => None end
    | None => None
    end
  | UpReject d =>
    match dials s d with
    | Some x => match d_phase x with
                | DConnecting => Some (set_pc (set_dial s d (d_set x DReturned None)) (d_owner x) (SPublish d (Some EDial)), [OReject d])
                | _ => None end
    | None => None
    end
  | UpAck d =>
    match dials s d with
    | Some x => match d_phase x with
                | DInit =>
                  let cn := {| c_key := d_key x; c_subs := []; c_closed := false; c_dead := None; c_timers := 0;
                               c_tclose := 0; c_rl := RLRun; c_rm := false |} in
                  Some (set_pc (set_cn (set_dial s d (d_set x DReturned None)) d cn) (d_owner x) (SPublish d None), [OAck d])
                | _ => None end
    | None => None
    end
  | UpInitFail d r =>
    match dials s d with
    | Some x => match d_phase x with
                | DInit => Some (set_pc (set_dial s d (d_set x DReturned None)) (d_owner x) (SPublish d (Some (EInit r))), [OInitFail d r; OSrvClosed d])
                | _ => None end
    | None => None
    end
  | APublish i =>
    match pc s i with
    | SPublish d r =>
      match dials s d with
      | Some x => Some (set_pc (set_dial s d (d_set x DReturned (Some r))) i (SBook d r), [])
      | None => None
      end
    | _ => None
    end
  | ABook i =>
    match pc s i with
    | SBook d r =>
      let k := okey s i in
      let s1 := set_dialing s (updk (dialing s) k None) in
      match r with
      | None => Some (set_pc (set_conns s1 (updk (conns s1) k (Some d))) i (SHaveConn d), [])
      | Some e => Some (set_pc s1 i SFailed, [ORet i (Some e)])
      end
    | _ => None
    end
  (* ---- conn.subscribe ---- *)
  | AInsert i =>
    match pc s i with
    | SHaveConn c =>
      match cns s c with
      | Some x =>
        let w := next_w s in
        let s1 := {| pc := pc s; ctxc := ctxc s; okey := okey s; conns := conns s; dialing := dialing s;
                     dials := dials s; cns := cns s; next_c := next_c s; next_w := S w; idle := idle s;
                     seen := seen s; sse := sse s |} in
        if c_closed x then
          Some (set_pc s1 i SFailed, [ORet i (Some (EClosed (match c_dead x with Some z => z | None => CUpstream end)))])
        else match lookup w (c_subs x) with
             | Some _ => Some (set_pc s1 i SFailed, [ORet i (Some EExists)])
             | None => Some (set_pc (set_cn s1 c (c_set_subs x ((w, i) :: c_subs x))) i (SSend c w), [])
             end
      | None => None
      end
    | _ => None
    end
  | ASend i =>
    match pc s i with
    | SSend c w =>
      match cns s c with
      | Some x =>
        match c_dead x with
        | None =>
          Some ({| pc := upd (pc s) i (SActive c w); ctxc := ctxc s; okey := okey s; conns := conns s;
                   dialing := dialing s; dials := dials s; cns := cns s; next_c := next_c s; next_w := next_w s;
                   idle := idle s; seen := (w, i) :: seen s; sse := sse s |}, [OSrvSub c w i; ORet i None])
        | Some z => Some (set_pc s i (SRemove c w (KSendFail (EWrite z))), [])
        end
      | None => None
      end
    | _ => None
    end
  (* the write races with i's own cancelled ctx (coder/websocket): lock select may return the ctx
     error, and once the frame write has begun AfterFunc(ctx) closes the WHOLE socket *)
  | ASendCtx i kill ok =>
    match pc s i with
    | SSend c w =>
      match cns s c with
      | Some x =>
        if ctxc s i then
          match c_dead x with
          | None =>
            let x' := if kill then c_kill x (CWriteCtx i) else x in
            let kev := if kill then [OSrvClosed c] else [] in
            if ok then
              if kill then
                Some ({| pc := upd (pc s) i (SActive c w); ctxc := ctxc s; okey := okey s; conns := conns s;
                         dialing := dialing s; dials := dials s; cns := upd (cns s) c (Some x'); next_c := next_c s;
                         next_w := next_w s; idle := idle s; seen := (w, i) :: seen s; sse := sse s |},
                      [OSrvSub c w i; ORet i None] ++ kev)
              else None   (* = ASend *)
            else Some (set_pc (set_cn s c x') i (SRemove c w (KSendFail (ECtx i false))), kev)
          | Some _ => None
          end
        else None
      | None => None
      end
    | _ => None
    end
  (* ---- the cancel function (context.AfterFunc(ctx_i, cancel)) ---- *)
  | AUnsub i =>
    match pc s i with
    | SActive c w =>
      if ctxc s i then
        match cns s c with
        | Some x => match lookup w (c_subs x) with
                    | Some _ => Some (set_pc s i (SUnsubSend c w), [])
                    | None => Some (set_pc s i SDone, [])
                    end
        | None => None
        end
      else None
    | _ => None
    end
  | AUnsubSend i =>
    match pc s i with
    | SUnsubSend c w =>
      match cns s c with
      | Some x => Some (set_pc s i (SRemove c w KCancel), match c_dead x with None => [OSrvStop c w] | _ => [] end)
      | None => None
      end
    | _ => None
    end
  | ARemove i =>
    match pc s i with
    | SRemove c w k =>
      match remove_sub s c w with
      | Some (s1, true) => Some (set_pc s1 i (SClose c k), [])
      | Some (s1, false) => Some (set_pc s1 i (after k), ret_evs i k)
      | None => None
      end
    | _ => None
    end
  | AClose i =>
    match pc s i with
    | SClose c k => let (s1, evs) := shut s c CIdle in Some (set_pc s1 i (after k), evs ++ ret_evs i k)
    | _ => None
    end
  (* ---- read loop of connection c ---- *)
  | UpMsg c w k =>
    match cns s c with
    | Some x =>
      match c_rl x, c_closed x, c_dead x with
      | RLRun, false, None =>
        if mem_nat w (map fst (seen s)) || Nat.leb (next_w s) w then
          match lookup w (c_subs x) with
          | Some i => Some (if terminal k then set_cn s c (c_set_rl x (RLRemove w)) else s, [OUp c PTws (frame_of w k); ODeliver i k])
          | None => Some (s, [OUp c PTws (frame_of w k)])
          end
        else None
      | _, _, _ => None
      end
    | None => None
    end
  | ARLRemove c =>
    match cns s c with
    | Some x =>
      match c_rl x with
      | RLRemove w =>
        match remove_sub s c w with
        | Some (s1, b) =>
          match cns s1 c with
          | Some x1 => Some (set_cn s1 c (c_set_rl x1 (if b then RLClose else RLRun)), [])
          | None => None
          end
        | None => None
        end
      | _ => None
      end
    | None => None
    end
  | ARLClose c =>
    match cns s c with
    | Some x =>
      match c_rl x with
      | RLClose =>
        let (s1, evs) := shut s c CIdle in
        match cns s1 c with
        | Some x1 => Some (set_cn s1 c (c_set_rl x1 RLExit), evs)
        | None => None
        end
      | _ => None
      end
    | None => None
    end
  | ARLReadErr c =>
    match cns s c with
    | Some x =>
      match c_rl x, c_dead x with
      | RLRun, Some z =>
        let (s1, evs) := shut s c z in
        match cns s1 c with
        | Some x1 => Some (set_cn s1 c (c_set_rl x1 RLExit), evs)
        | None => None
        end
      | _, _ => None
      end
    | None => None
    end
  (* ---- idle timer: "stillEmpty" under RLock, then closeConn WITHOUT the lock ---- *)
  | ATimerFire c =>
    match cns s c with
    | Some x =>
      match c_timers x with
      | S t => Some (set_cn s c (c_set_timers x t (if is_nil (c_subs x) then S (c_tclose x) else c_tclose x)), [])
      | O => None
      end
    | None => None
    end
  | ATimerClose c =>
    match cns s c with
    | Some x =>
      match c_tclose x with
      | S t => let (s1, evs) := shut (set_cn s c (c_set_timers x (c_timers x) t)) c CIdle in Some (s1, evs)
      | O => None
      end
    | None => None
    end
  (* onEmpty: removeConn(key) deletes whatever is stored under the key *)
  | ARemoveConn c =>
    match cns s c with
    | Some x =>
      if c_rm x then Some (set_conns (set_cn s c (c_set_rm x false)) (updk (conns s) (c_key x) None), [])
      else None
    | None => None
    end
  | UpDrop c =>
    match cns s c with
    | Some x => match c_dead x with
                | None => Some (set_cn s c (c_kill x CUpstream), [ODrop c; OSrvClosed c])
                | Some _ => None end
    | None => None
    end
  | APingTimeout c =>
    match cns s c with
    | Some x => if c_closed x then None else let (s1, evs) := shut s c CPing in Some (s1, OPing c :: evs)
    | None => None
    end
  (* ---- SSE: one connection per subscription ---- *)
  | SseSub i => match sse s i with SseIdle => Some (set_sse s i SseReq, [OSseReq i]) | _ => None end
  | SseOk i => match sse s i with SseReq => Some (set_sse s i SseActive, [OSseRet i true]) | _ => None end
  | SseFail i => match sse s i with SseReq => Some (set_sse s i SseEnded, [OSseRet i false]) | _ => None end
  | SseMsg i k =>
    match sse s i with
    | SseActive => Some (if terminal k then set_sse s i SseEnded else s, [OSseUp i (sse_event_of k); OSseDeliver i k])
    | _ => None
    end
  | SseDrop i => match sse s i with SseActive => Some (set_sse s i SseEnded, [OSseErr i]) | _ => None end
  | SseCancel i =>
    match sse s i with
    | SseActive => Some (set_sse s i SseEnded, [OCancel i])
    | SseReq => Some (set_sse s i SseEnded, [OCancel i; OSseRet i false])
    | _ => None
    end
  end.

Fixpoint run (s : st) (tr : list action) : option (st * list ev) :=
  match tr with
  | [] => Some (s, [])
  | a :: r =>
    match step s a with
    | Some (s1, e1) => match run s1 r with Some (s2, e2) => Some (s2, e1 ++ e2) | None => None end
    | None => None
    end
  end.

Definition obs (idl : bool) (tr : list action) : option (list ev) := option_map snd (run (init idl) tr).

End V0.
