(* C18, historical: cancel_isolated is refuted on the model of the code AS FOUND (ModelV0.v), by
   three independent witnesses -- one per defect that has since been repaired.  The same three
   schedules on the repaired code: ProofsIso.repaired_a / repaired_b / repaired_d. *)
From Gv Require Import C18.Model C18.ModelV0 C18.Spec C18.ProofsIso.
From Coq Require Import List NArith Arith Bool Lia.
Import ListNotations.
Import V0.

Definition K1 : key := (1, 1, [], 0)%N.

(* (a) the first subscriber dials with ITS OWN ctx; it cancels while the protocol init is pending;
   the coalesced waiter 1 (live ctx, healthy upstream) receives 0's context error *)
Definition tr_a : list action :=
  [ASub 0 K1; UpAccept 0; ASub 1 K1; ACtxCancel 0; ADialCtx 0; APublish 0; AWaitDone 1; ABook 0].
(* the same upstream behaviour without subscriber 0: 1 dials itself and succeeds *)
Definition tr_a_minus : list action :=
  [ASub 1 K1; UpAccept 0; UpAck 0; APublish 1; ABook 1; AInsert 1; ASend 1].

Lemma refuted_a :
  exists log log', obs false tr_a = Some log /\ In (ORet 1 (Some (ECtx 0 true))) log /\ ~ In (OCancel 1) log
                   /\ ~ isolated_log log
                   /\ obs false tr_a_minus = Some log' /\ In (ORet 1 None) log' /\ isolated_log log'.
Proof.
  eexists. eexists. split; [vm_compute; reflexivity|].
  split; [simpl; tauto|]. split; [simpl; intuition discriminate|].
  split; [intro H; apply isolated_log_b_sound in H; vm_compute in H; discriminate|].
  split; [vm_compute; reflexivity|]. split; [simpl; tauto|].
  repeat constructor.
Qed.

(* (b) idle timer: "still empty?" is read under the lock, closeConn runs without it; subscriber 1
   is inserted and has sent its subscribe in between, and is shut down with the connection *)
Definition tr_b : list action :=
  [ASub 0 K1; UpAccept 0; UpAck 0; APublish 0; ABook 0; AInsert 0; ASend 0;
   ACtxCancel 0; AUnsub 0; AUnsubSend 0; ARemove 0;
   ATimerFire 0; ASub 1 K1; AInsert 1; ASend 1; ATimerClose 0].
(* the same window with IdleTimeout = 0: removeSub saw the table empty, closeConn comes later; here
   subscriber 1 obtained the connection before and finds it closed *)
Definition tr_b0 : list action :=
  [ASub 0 K1; UpAccept 0; UpAck 0; APublish 0; ABook 0; AInsert 0; ASend 0;
   ACtxCancel 0; AUnsub 0; AUnsubSend 0; ASub 1 K1; ARemove 0; AClose 0; AInsert 1].

Lemma refuted_b :
  (exists log, obs true tr_b = Some log /\ In (OConnErr 1 CIdle) log /\ ~ In (OCancel 1) log /\ ~ isolated_log log)
  /\ (exists log, obs false tr_b0 = Some log /\ In (ORet 1 (Some (EClosed CIdle))) log /\ ~ In (OCancel 1) log
                  /\ ~ isolated_log log).
Proof.
  split; eexists; (split; [vm_compute; reflexivity|]);
    (split; [simpl; tauto|]); (split; [simpl; intuition discriminate|]);
    intro H; apply isolated_log_b_sound in H; vm_compute in H; discriminate.
Qed.

(* (d) coder/websocket closes the whole socket when the ctx of a frame write is cancelled:
   subscriber 1 subscribes with an already cancelled ctx on the connection shared with 0 *)
Definition tr_d : list action :=
  [ASub 0 K1; UpAccept 0; UpAck 0; APublish 0; ABook 0; AInsert 0; ASend 0;
   ACtxCancel 1; ASub 1 K1; AInsert 1; ASendCtx 1 true false; ARLReadErr 0].

Lemma refuted_d :
  exists log, obs false tr_d = Some log /\ In (OConnErr 0 (CWriteCtx 1)) log /\ ~ In (OCancel 0) log /\ ~ isolated_log log.
Proof.
  eexists; (split; [vm_compute; reflexivity|]);
    (split; [simpl; tauto|]); (split; [simpl; intuition discriminate|]);
    intro H; apply isolated_log_b_sound in H; vm_compute in H; discriminate.
Qed.
