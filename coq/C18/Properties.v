(* C18 property theorems: statements only; every proof is [exact lemma]. *)
From Gv Require Import lib.Bytes C18.Model C18.Spec C18.ProofsInv C18.ProofsKey C18.ProofsDrain C18.ProofsIso
  C18.ProofsRouting C18.ProofsIsoPartial C18.Proofs gen.Anchors_C18.
From Coq Require Import List NArith Arith Bool.
Import ListNotations.

Theorem c18_anchors :
  anchor_connkey_fields = model_key_fields
  /\ anchor_dial_uses_caller_ctx = true /\ anchor_waiter_returns_dial_err = true
  /\ anchor_removeconn_by_key = true /\ anchor_close_outside_lock = true.
Proof. exact anchors_ok. Qed.
Print Assumptions c18_anchors.

(* routing: on EVERY accepted action list the log passes the scanner of Spec.v: every upstream
   frame (c, w) is delivered to exactly the subscription that registered w on c (it MUST be while that
   subscription is live and uncancelled, it MAY be after its cancel), in upstream order, to nobody
   else, nothing is delivered that was not sent, a wire id is never reused, and a terminal frame
   unregisters only (c, w).  Non-vacuity: Proofs.ex_routing. *)
Theorem c18_routing : forall idl tr s log, run (init idl) tr = Some (s, log) -> routing_b log = true.
Proof. exact routing_proof. Qed.
Print Assumptions c18_routing.

(* complete / error for (c, w) removes exactly the entry (c, w): every other table, every other
   entry of c and every subscriber's program point are untouched, nobody is failed *)
Theorem c18_terminal_local : forall idl s log, reach idl s log ->
  forall c w k s1 e1 s2 e2, terminal k = true ->
    step s (UpMsg c w k) = Some (s1, e1) -> step s1 (ARLRemove c) = Some (s2, e2) ->
    (forall c' x x', c' <> c -> cns s c' = Some x -> cns s2 c' = Some x' -> c_subs x' = c_subs x)
    /\ (forall x x', cns s c = Some x -> cns s2 c = Some x' ->
          forall w' i, In (w', i) (c_subs x') <-> (In (w', i) (c_subs x) /\ w' <> w))
    /\ (forall j, pc s2 j = pc s j)
    /\ (forall e, In e (e1 ++ e2) -> match e with OConnErr _ _ | ORet _ _ => False | _ => True end).
Proof. exact terminal_local_proof. Qed.
Print Assumptions c18_terminal_local.

(* double removal (the subscriber's own cancel and dispatch both call removeSub for one id): removing
   an id that is no longer in the table changes nothing and starts the close flow only if the table
   is empty -- never under a sibling.  Together with c18_conns_drain / c18_cancel_isolated_partial
   (the run Proofs.ex_double_remove satisfies [safe_run]).  Non-vacuity: Proofs.ex_double_remove. *)
Theorem c18_double_remove_noop : forall s c x w s' e,
  cns s c = Some x -> c_rl x = RLRemove w -> (forall i, ~ In (w, i) (c_subs x)) ->
  step s (ARLRemove c) = Some (s', e) ->
  e = [] /\ (forall j, pc s' j = pc s j) /\ (forall c', c' <> c -> cns s' c' = cns s c')
  /\ exists x', cns s' c = Some x' /\ c_subs x' = c_subs x /\ c_closed x' = c_closed x /\ c_dead x' = c_dead x
               /\ (c_rl x' = RLClose -> c_subs x = []).
Proof. exact double_remove_noop_proof. Qed.
Print Assumptions c18_double_remove_noop.

(* two subscriptions are registered on one connection only if their option tuples are equal
   (and equal to the tuple the connection was dialled for) *)
Theorem c18_shared_iff_same_key : forall idl s log, reach idl s log ->
  forall c x w i w' j, cns s c = Some x -> In (w, i) (c_subs x) -> In (w', j) (c_subs x) ->
    okey s i = c_key x /\ okey s j = c_key x.
Proof. exact shared_iff_same_key_proof. Qed.
Print Assumptions c18_shared_iff_same_key.

(* at quiescence, with no idle timer pending, every connection that is not closed has a live
   socket and carries at least one subscription, all of them active and uncancelled *)
Theorem c18_conns_drain : forall idl s log, reach idl s log -> quiescent s ->
  forall c x, cns s c = Some x -> c_closed x = false ->
    c_dead x = None /\ c_subs x <> []
    /\ forall w i, In (w, i) (c_subs x) -> pc s i = SActive c w /\ ctxc s i = false.
Proof. exact conns_drain_proof. Qed.
Print Assumptions c18_conns_drain.

(* cancel_isolated with the three refuting windows excluded explicitly ([safe]): no dial aborted by the
   dialler's ctx, no frame write killed by its ctx, closeConn-after-empty only while the table is
   still empty and nobody is between obtaining the connection and having subscribed on it.  Then
   every failure a subscriber observes is its own ctx or an upstream fault.
   Non-vacuity: ProofsIsoPartial.partial_nonvacuous. *)
Theorem c18_cancel_isolated_partial : forall idl tr s log,
  run (init idl) tr = Some (s, log) -> safe_run (init idl) tr -> isolated_log log.
Proof. exact cancel_isolated_partial_proof. Qed.
Print Assumptions c18_cancel_isolated_partial.

(* cancel_isolated is FALSE of the faithful model: three independent witnesses *)
Theorem c18_cancel_isolated_refuted_dialler_ctx :
  exists log log', obs false tr_a = Some log /\ In (ORet 1 (Some (ECtx 0 true))) log /\ ~ In (OCancel 1) log
                   /\ ~ isolated_log log
                   /\ obs false tr_a_minus = Some log' /\ In (ORet 1 None) log' /\ isolated_log log'.
Proof. exact refuted_a. Qed.
Print Assumptions c18_cancel_isolated_refuted_dialler_ctx.

Theorem c18_cancel_isolated_refuted_idle_close :
  (exists log, obs true tr_b = Some log /\ In (OConnErr 1 CIdle) log /\ ~ In (OCancel 1) log /\ ~ isolated_log log)
  /\ (exists log, obs false tr_b0 = Some log /\ In (ORet 1 (Some (EClosed CIdle))) log /\ ~ In (OCancel 1) log
                  /\ ~ isolated_log log).
Proof. exact refuted_b. Qed.
Print Assumptions c18_cancel_isolated_refuted_idle_close.

Theorem c18_cancel_isolated_refuted_write_ctx :
  exists log, obs false tr_d = Some log /\ In (OConnErr 0 (CWriteCtx 1)) log /\ ~ In (OCancel 0) log /\ ~ isolated_log log.
Proof. exact refuted_d. Qed.
Print Assumptions c18_cancel_isolated_refuted_write_ctx.
