(* C18 property theorems: statements only; every proof is [exact lemma]. *)
From Gv Require Import lib.Bytes C18.Model C18.ModelV0 C18.Spec C18.ProofsBasic C18.ProofsInv C18.ProofsKey C18.ProofsDrain C18.ProofsIso
  C18.ProofsRouting C18.ProofsV0 C18.Proofs gen.Anchors_C18.
From Coq Require Import List NArith Arith Bool.
Import ListNotations.

Theorem c18_anchors :
  anchor_connkey_fields = model_key_fields
  /\ anchor_dial_uses_caller_ctx = true /\ anchor_waiter_never_inherits_abort = true
  /\ anchor_book_before_publish = true /\ anchor_removeconn_by_key = true
  /\ anchor_subscribe_restarts_on_closed = true /\ anchor_close_decided_under_lock = true
  /\ anchor_subscribe_write_conn_ctx = true
  /\ anchor_subscribe_registers_before_ctx_test = true /\ anchor_dispatch_by_id_local = true
  /\ anchor_into_client_message = true /\ anchor_decode_tws = model_decode_tws /\ anchor_decode_gws = model_decode_gws
  /\ anchor_connkey_whole_header_multimap = true.
Proof. exact anchors_ok. Qed.
Print Assumptions c18_anchors.

(* routing: on EVERY accepted action list -- upstream frames range over the whole alphabet of
   c18_frame_conversion -- the log passes the scanner of Spec.v: every upstream
   frame that means something for (c, w) is delivered to exactly the subscription that registered w on c (it MUST be while that
   subscription is live and uncancelled, it MAY be after its cancel), in upstream order, to nobody
   else, nothing is delivered that was not sent, a wire id is never reused, and a terminal frame
   unregisters only (c, w).  Non-vacuity: Proofs.ex_routing. *)
Theorem c18_routing : forall idl tr s log, run (init idl) tr = Some (s, log) -> routing_b log = true.
Proof. exact routing_proof. Qed.
Print Assumptions c18_routing.

(* the frame alphabet: for BOTH sub-protocols and EVERY frame -- every type either protocol knows, an unknown
   type, something that is not JSON; with or without id; without / with an object / with an unusable payload --
   the code's decoders, WireMessage.IntoClientMessage and dispatch's removal test (Model.decode, into_client,
   wire_terminal) agree with what the frame means (Spec.spec_class): a frame that does not decode is a
   protocol violation; ping / pong / ka and every id-less frame concern no subscription; everything else
   addresses exactly the wire id it carries, is converted to the message kind the meaning prescribes, and is
   followed by removeSub exactly when that kind is terminal.  In particular an error frame WITHOUT payload
   and a legacy connection_error frame that carry an id are per-subscription terminal messages (converted to
   MessageTypeConnectionError for that one handler), and the same frames without id are dropped. *)
Theorem c18_frame_conversion : forall p f,
  match decode p f with
  | None => spec_class p f = FcFault
  | Some m =>
    match w_type m with
    | WPing | WPong => spec_class p f = FcNone
    | _ => match w_id m with
           | None => spec_class p f = FcNone
           | Some w => spec_class p f = FcSub w (into_client m) /\ wire_terminal (w_type m) = terminal (into_client m)
           end
    end
  end.
Proof. exact decode_class. Qed.
Print Assumptions c18_frame_conversion.

(* a frame that MEANS a terminal message for wire id w on connection c -- complete; error with or without
   payload; legacy connection_error carrying an id -- removes exactly the entry (c, w): every other table,
   every other entry of c and every subscriber's program point are untouched, nobody is failed.
   Non-vacuity: Proofs.ex_terminal_local, ex_error_without_payload, ex_legacy_connection_error. *)
Theorem c18_terminal_local : forall idl s log, reach idl s log ->
  forall c x f w k s1 e1 s2 e2, cns s c = Some x -> spec_class (c_proto x) f = FcSub w k -> terminal k = true ->
    step s (UpMsg c f) = Some (s1, e1) -> step s1 (ARLRemove c) = Some (s2, e2) ->
    (forall c' x x', c' <> c -> cns s c' = Some x -> cns s2 c' = Some x' -> c_subs x' = c_subs x)
    /\ (forall x x', cns s c = Some x -> cns s2 c = Some x' ->
          forall w' i, In (w', i) (c_subs x') <-> (In (w', i) (c_subs x) /\ w' <> w))
    /\ (forall j, pc s2 j = pc s j)
    /\ (forall e, In e (e1 ++ e2) -> match e with OConnErr _ _ | ORet _ _ => False | _ => True end).
Proof. exact terminal_local_proof. Qed.
Print Assumptions c18_terminal_local.

(* every other frame is local too: a frame that concerns no subscription (ping / pong / ka; an error, complete,
   data or connection_error frame WITHOUT an id) and a frame for an id nobody holds on c (unknown, finished,
   registered on another connection) change NOTHING; a frame for a held id reaches exactly its holder, and
   changes no state unless it is terminal; a frame that violates the protocol is an upstream fault on
   connection c alone -- its socket is dead with cause CUpstream (the subscriptions of c, and only they, are
   then told by the read loop, ARLReadErr), every table and every subscriber's program point are untouched.
   Non-vacuity: Proofs.ex_idless_error, ex_fault_frame. *)
Theorem c18_frame_local : forall s c f s1 e1, step s (UpMsg c f) = Some (s1, e1) ->
  exists x, cns s c = Some x /\
  match spec_class (c_proto x) f with
  | FcNone => s1 = s /\ e1 = [OUp c (c_proto x) f]
  | FcSub w k =>
    (forall i, ~ In (w, i) (c_subs x)) /\ s1 = s /\ e1 = [OUp c (c_proto x) f]
    \/ exists i, In (w, i) (c_subs x) /\ e1 = [OUp c (c_proto x) f; ODeliver i k] /\ (terminal k = false -> s1 = s)
  | FcFault =>
    e1 = [OUp c (c_proto x) f; OSrvClosed c] /\ (forall j, pc s1 j = pc s j) /\ (forall c', c' <> c -> cns s1 c' = cns s c')
    /\ conns s1 = conns s /\ exists x', cns s1 c = Some x' /\ c_subs x' = c_subs x /\ c_dead x' = Some CUpstream
  end.
Proof. exact frame_local_proof. Qed.
Print Assumptions c18_frame_local.

(* the same on one observation window (what the driver evaluates on the IMPLEMENTATION's log for every window
   of a frame addressed to one subscription, Spec.tlocal_b): all deliveries go to the holder of the id, nobody
   gets a connection error *)
Theorem c18_terminal_window : forall s c f s1 e1 x w k, step s (UpMsg c f) = Some (s1, e1) -> cns s c = Some x ->
  spec_class (c_proto x) f = FcSub w k -> tlocal_b (lookup w (c_subs x)) e1 = true.
Proof. exact terminal_window_proof. Qed.
Print Assumptions c18_terminal_window.

(* double removal (the subscriber's own cancel and dispatch both call removeSub for one id): removing
   an id that is no longer in the table changes nothing and starts the close flow only if the table
   is empty -- never under a sibling.  Non-vacuity: Proofs.ex_double_remove. *)
Theorem c18_double_remove_noop : forall s c x w s' e,
  cns s c = Some x -> c_rl x = RLRemove w -> (forall i, ~ In (w, i) (c_subs x)) ->
  step s (ARLRemove c) = Some (s', e) ->
  e = [] /\ (forall j, pc s' j = pc s j) /\ (forall c', c' <> c -> cns s' c' = cns s c')
  /\ exists x', cns s' c = Some x' /\ c_subs x' = c_subs x /\ c_closed x' = c_closed x /\ c_dead x' = c_dead x
               /\ (c_rl x' = RLClose -> c_subs x = []).
Proof. exact double_remove_noop_proof. Qed.
Print Assumptions c18_double_remove_noop.

(* two subscriptions are registered on one connection only if their keys are equal (and equal to the key the
   connection was dialled for) -- and the key is (endpoint, sub-protocol, EVERY header line, init payload)
   (Model.conn_key / hdr_lines: what Header.Write feeds to the hash), so that their option tuples agree on the
   endpoint, the sub-protocol, the init payload and, for EVERY header name, on the whole list of values, in order
   (Spec.same_opts, stated on the multimap independently of conn_key).
   Non-vacuity: Proofs.ex_shared, ex_multi_valued_keys. *)
Theorem c18_shared_iff_same_key : forall idl s log, reach idl s log ->
  forall c x w i w' j, cns s c = Some x -> In (w, i) (c_subs x) -> In (w', j) (c_subs x) ->
    okey s i = c_key x /\ okey s j = c_key x
    /\ forall oi oj, okey s i = conn_key oi -> okey s j = conn_key oj -> same_opts oi oj.
Proof. exact shared_iff_same_key_proof. Qed.
Print Assumptions c18_shared_iff_same_key.

(* a key that looks at the first value of every header name only does NOT have this property: X-Scope: [read,
   tenant-a] and X-Scope: [read, tenant-b] get one key, and the transport keyed by it registers both subscriptions
   on one connection -- whose upgrade request carried the first subscriber's header values *)
Theorem c18_shared_iff_same_key_first_value_key_refuted :
  exists oi oj, conn_key (first_value_opts oi) = conn_key (first_value_opts oj) /\ ~ same_opts oi oj
    /\ exists s log x, run (init false) (tr_seq (conn_key (first_value_opts oi)) (conn_key (first_value_opts oj))) = Some (s, log)
                       /\ cns s 0 = Some x /\ In (0%nat, 0%nat) (c_subs x) /\ In (1%nat, 1%nat) (c_subs x).
Proof. exact first_value_key_refuted_proof. Qed.
Print Assumptions c18_shared_iff_same_key_first_value_key_refuted.

(* at quiescence, with no idle timer pending, every connection that is not closed has a live
   socket and carries at least one subscription, all of them active and uncancelled *)
Theorem c18_conns_drain : forall idl s log, reach idl s log -> quiescent s ->
  forall c x, cns s c = Some x -> c_closed x = false ->
    c_dead x = None /\ c_subs x <> []
    /\ forall w i, In (w, i) (c_subs x) -> pc s i = SActive c w /\ ctxc s i = false.
Proof. exact conns_drain_proof. Qed.
Print Assumptions c18_conns_drain.

(* cancel_isolated, at full strength, of the repaired code: on EVERY accepted action list -- any
   interleaving of subscribes, cancels (also during a dial, during init, before the subscribe frame),
   upstream faults, idle timers -- every failure a subscriber observes (error return of Subscribe,
   connection-error callback) is its own context error or an upstream fault (rejected dial, init
   failure, drop, ping timeout): never another subscriber's cancel, another subscriber leaving, or
   another subscriber's ctx ending a dial or a frame write (Spec.ev_isolated; the blame tags are
   ghost data of the model).  Non-vacuity: Proofs.ex_cancel_isolated; the three schedules that
   refuted the statement before the repairs: ProofsIso.repaired_a / repaired_b / repaired_d. *)
Theorem c18_cancel_isolated : forall idl tr s log, run (init idl) tr = Some (s, log) -> isolated_log log.
Proof. exact cancel_isolated_proof. Qed.
Print Assumptions c18_cancel_isolated.

(* HISTORICAL (ModelV0.v, the code as found): cancel_isolated was false, by three independent
   witnesses -- one per defect repaired since (dial under the first subscriber's ctx handed to the
   waiters; closeConn after a stale emptiness test; subscribe frame written under the subscriber's
   ctx) *)
Theorem c18_cancel_isolated_refuted_dialler_ctx_v0 :
  exists log log', V0.obs false tr_a = Some log /\ In (ORet 1 (Some (ECtx 0 true))) log /\ ~ In (OCancel 1) log
                   /\ ~ isolated_log log
                   /\ V0.obs false tr_a_minus = Some log' /\ In (ORet 1 None) log' /\ isolated_log log'.
Proof. exact refuted_a. Qed.
Print Assumptions c18_cancel_isolated_refuted_dialler_ctx_v0.

Theorem c18_cancel_isolated_refuted_idle_close_v0 :
  (exists log, V0.obs true tr_b = Some log /\ In (OConnErr 1 CIdle) log /\ ~ In (OCancel 1) log /\ ~ isolated_log log)
  /\ (exists log, V0.obs false tr_b0 = Some log /\ In (ORet 1 (Some (EClosed CIdle))) log /\ ~ In (OCancel 1) log
                  /\ ~ isolated_log log).
Proof. exact refuted_b. Qed.
Print Assumptions c18_cancel_isolated_refuted_idle_close_v0.

Theorem c18_cancel_isolated_refuted_write_ctx_v0 :
  exists log, V0.obs false tr_d = Some log /\ In (OConnErr 0 (CWriteCtx 1)) log /\ ~ In (OCancel 0) log /\ ~ isolated_log log.
Proof. exact refuted_d. Qed.
Print Assumptions c18_cancel_isolated_refuted_write_ctx_v0.

(* the same three schedules on the repaired code: the waiter dials again and subscribes; the idle
   close sees the new subscription (or the subscriber that finds the connection closed starts
   over); the subscriber with the cancelled ctx gets its own error and the socket stays up *)
Theorem c18_repaired_witnesses :
  (exists log, ProofsIso.obs false ProofsIso.tr_a = Some log /\ In (ORet 0 (Some (ECtx 0 true))) log
               /\ In (OSrvDial 1 ProofsIso.K1) log /\ In (ORet 1 None) log /\ isolated_log_b log = true)
  /\ (exists log, ProofsIso.obs true ProofsIso.tr_b = Some log /\ In (ODeliver 1 (KData 5)) log /\ ~ In (OSrvClosed 0) log
                  /\ isolated_log_b log = true)
  /\ (exists log, ProofsIso.obs false ProofsIso.tr_b0 = Some log /\ In (OSrvClosed 0) log /\ In (OSrvSub 1 2 1) log
                  /\ In (ORet 1 None) log /\ isolated_log_b log = true)
  /\ (exists log, ProofsIso.obs false ProofsIso.tr_d = Some log /\ In (ORet 1 (Some (ECtx 1 false))) log
                  /\ In (ODeliver 0 (KData 7)) log /\ ~ In (OSrvClosed 0) log /\ isolated_log_b log = true).
Proof. exact repaired_witnesses. Qed.
Print Assumptions c18_repaired_witnesses.
