(* C15 specification of input-object field defaults, written from the GraphQL specification
   (section 3.10 `Input Objects`, "Input Coercion") -- without reference to the Go code.

   A value supplied for an argument / variable of an input type reaches the subgraph as it was
   supplied, except that a field the client OMITTED and that has a default value in the schema is
   there with that default (itself completed in the same way).  A field the client SUPPLIED keeps the
   supplied value whatever it is -- the empty string, 0, false, [], {} and null included: presence
   is presence of the KEY, not non-emptiness of the value. *)
From Gv Require Import lib.Bytes lib.Gql C15.Unicode C15.Spec.
From Coq Require Import List ZArith.
Import ListNotations.

Inductive ityp :=
| IScalar                 (* scalar, custom scalar or enum: opaque *)
| IList (t : ityp)
| IObj (n : bytes).       (* input object type, by name *)

Record ifield := { if_name : bytes; if_type : ityp; if_default : option dval }.
Definition ischema := list (bytes * list ifield).

Fixpoint ischema_get (n : bytes) (S : ischema) : option (list ifield) :=
  match S with
  | [] => None
  | (n', fs) :: r => if bytes_eqb n n' then Some fs else ischema_get n r
  end.

Fixpoint find_field (k : bytes) (fs : list ifield) : option ifield :=
  match fs with
  | [] => None
  | f :: r => if bytes_eqb k (if_name f) then Some f else find_field k r
  end.

(* members of the completed object: the supplied ones in place, then the omitted defaulted ones *)
Definition complete_members (complete : ityp -> dval -> dval) (fs : list ifield) (m : list (bytes * dval))
  : list (bytes * dval) :=
  map (fun kv => match find_field (fst kv) fs with
                 | Some f => (fst kv, complete (if_type f) (snd kv))
                 | None => kv
                 end) m
  ++ flat_map (fun f => match dobj_get (if_name f) m, if_default f with
                        | None, Some dv => [(if_name f, complete (if_type f) dv)]
                        | _, _ => []
                        end) fs.

(* [fuel] bounds the nesting of defaults inside defaults (types may be recursive); a value is
   returned as it is when it runs out *)
Fixpoint spec_defaults (fuel : nat) (S : ischema) (t : ityp) (d : dval) {struct fuel} : dval :=
  match fuel with
  | O => d
  | Datatypes.S fuel' =>
    match t, d with
    | IList t', DList l => DList (map (spec_defaults fuel' S t') l)
    | IObj n, DObj m =>
      match ischema_get n S with
      | Some fs => DObj (complete_members (spec_defaults fuel' S) fs m)
      | None => d
      end
    | _, _ => d
    end
  end.

(* everything the client supplied is in [b] with the supplied value: lists position by position,
   objects member by member ([b] may have more members: the defaults of omitted fields) *)
Fixpoint dval_incl (a b : dval) {struct a} : bool :=
  match a, b with
  | DList x, DList y =>
    (fix go (x y : list dval) : bool :=
       match x, y with
       | [], [] => true
       | a :: x', b :: y' => dval_incl a b && go x' y'
       | _, _ => false
       end) x y
  | DObj x, DObj y =>
    (fix go (x : list (bytes * dval)) : bool :=
       match x with
       | [] => true
       | (k, v) :: x' => match dobj_get k y with Some w => dval_incl v w | None => false end && go x'
       end) x
  | _, _ => dval_eqb a b
  end.

(* the same value, object members in any order *)
Fixpoint dval_sim (a b : dval) {struct a} : bool :=
  match a, b with
  | DList x, DList y =>
    (fix go (x y : list dval) : bool :=
       match x, y with
       | [], [] => true
       | a :: x', b :: y' => dval_sim a b && go x' y'
       | _, _ => false
       end) x y
  | DObj x, DObj y =>
    Nat.eqb (length x) (length y) &&
    (fix go (x : list (bytes * dval)) : bool :=
       match x with
       | [] => true
       | (k, v) :: x' => match dobj_get k y with Some w => dval_sim v w | None => false end && go x'
       end) x
  | _, _ => dval_eqb a b
  end.

(* the two clauses evaluated on the implementation's output [got] for the supplied value [d] *)
Definition supplied_preserved_b (d got : dval) : bool := dval_incl d got.
Definition defaults_complete_b (fuel : nat) (S : ischema) (t : ityp) (d got : dval) : bool :=
  dval_sim (spec_defaults fuel S t d) got.
