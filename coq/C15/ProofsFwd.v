(* C15 proofs, part 6: the forwarding model -- a variable the client omitted is not in the
   upstream variables, an explicit null stays null, any other value arrives unchanged --
   provided the upstream variable names of the request template are pairwise distinct. *)
From Gv Require Import lib.Bytes lib.Gql C15.Unicode C15.Model C15.Spec C15.Diag.
From Coq Require Import Lia ZifyN ZifyNat ZifyBool ZArith.
Open Scope N_scope.

Lemma bytes_eqb_refl : forall a, bytes_eqb a a = true.
Proof. induction a as [|x a IH]; simpl; [reflexivity|]. rewrite N.eqb_refl. exact IH. Qed.
Lemma bytes_eqb_true : forall a b, bytes_eqb a b = true -> a = b.
Proof.
  induction a as [|x a IH]; intros [|y b] H; simpl in H; try discriminate; auto.
  apply Bool.andb_true_iff in H. destruct H as [H1 H2]. f_equal; [lia|auto].
Qed.
Lemma mem_bytes_In : forall x l, mem_bytes x l = true <-> In x l.
Proof.
  induction l as [|y l IH]; simpl; [split; [discriminate|tauto]|].
  rewrite Bool.orb_true_iff, IH. split; intros [H|H]; auto.
  - left. symmetry. apply bytes_eqb_true. exact H.
  - left. subst. apply bytes_eqb_refl.
Qed.

Section Fwd.
  Variable A : Type.
  Variable a_null : A.
  Variable is_null : A -> bool.
  Hypothesis null_is_null : is_null a_null = true.

  Notation forward := (forward A a_null is_null).
  Notation ctx_get := (ctx_get A).

  (* lookup in the forwarded variables *)
  Fixpoint out_get (n : name) (o : list (name * A)) : option A :=
    match o with
    | [] => None
    | (k, v) :: r => if bytes_eqb n k then Some v else out_get n r
    end.

  Definition names_distinct (tmpl : list (name * name)) : Prop := NoDup (map fst tmpl).

  Lemma undefined_in : forall ctx tmpl u,
    In u (undefined_of A a_null ctx tmpl) <-> exists c, In (u, c) tmpl /\ ctx_get c ctx = None.
  Proof.
    intros ctx tmpl u. unfold undefined_of. rewrite in_map_iff. split.
    - intros ([u' c] & Hu & Hin). simpl in Hu. subst u'. apply filter_In in Hin. destruct Hin as [Hin Hf].
      exists c. split; [exact Hin|]. unfold render_segment in Hf. simpl in Hf. destruct (ctx_get c ctx); [discriminate|reflexivity].
    - intros (c & Hin & Hc). exists (u, c). split; [reflexivity|]. apply filter_In. split; [exact Hin|].
      unfold render_segment. simpl. rewrite Hc. reflexivity.
  Qed.

  Lemma out_get_filter_none : forall (f : name * A -> bool) l n,
    (forall v, In (n, v) l -> f (n, v) = false) -> out_get n (filter f l) = None.
  Proof.
    induction l as [|[k v] l IH]; intros n H; [reflexivity|]. simpl.
    destruct (f (k, v)) eqn:Ef.
    - simpl. destruct (bytes_eqb n k) eqn:E.
      + apply bytes_eqb_true in E. subst k. rewrite (H v) in Ef; [discriminate|left; reflexivity].
      + apply IH. intros v' Hin. apply H. right. exact Hin.
    - apply IH. intros v' Hin. apply H. right. exact Hin.
  Qed.

  Lemma in_rendered : forall ctx tmpl u v,
    In (u, v) (map (fun uc => fst (render_segment A a_null ctx uc)) tmpl) ->
    exists c, In (u, c) tmpl /\ v = match ctx_get c ctx with Some x => x | None => a_null end.
  Proof.
    intros ctx tmpl u v H. apply in_map_iff in H. destruct H as ([u' c] & Hr & Hin).
    unfold render_segment in Hr. simpl in Hr. exists c.
    destruct (ctx_get c ctx); simpl in Hr; inversion Hr; subst; auto.
  Qed.

  Lemma distinct_unique : forall tmpl u c c', names_distinct tmpl -> In (u, c) tmpl -> In (u, c') tmpl -> c = c'.
  Proof.
    induction tmpl as [|[u0 c0] t IH]; intros u c c' Hd H1 H2; [inversion H1|].
    unfold names_distinct in Hd. simpl in Hd. inversion Hd as [|? ? Hnin Hd']; subst.
    destruct H1 as [H1|H1]; destruct H2 as [H2|H2].
    - inversion H1; inversion H2; subst. reflexivity.
    - inversion H1; subst. exfalso. apply Hnin. apply in_map_iff. exists (u, c'). auto.
    - inversion H2; subst. exfalso. apply Hnin. apply in_map_iff. exists (u, c). auto.
    - apply (IH u c c' Hd' H1 H2).
  Qed.

  Theorem absent_stays_absent_proof : forall tmpl ctx u c,
    names_distinct tmpl -> In (u, c) tmpl -> ctx_get c ctx = None ->
    out_get u (forward tmpl ctx) = None.
  Proof.
    intros tmpl ctx u c Hd Hin Hc. unfold Model.forward.
    apply out_get_filter_none. intros v Hv.
    destruct (in_rendered _ _ _ _ Hv) as (c' & Hin' & Hval).
    rewrite (distinct_unique _ _ _ _ Hd Hin' Hin) in Hval. rewrite Hc in Hval. subst v.
    simpl. rewrite null_is_null. simpl.
    apply Bool.negb_false_iff. apply mem_bytes_In. apply undefined_in. exists c. auto.
  Qed.

  Lemma out_get_filter_some : forall (f : name * A -> bool) l n v,
    NoDup (map fst l) -> In (n, v) l -> f (n, v) = true -> out_get n (filter f l) = Some v.
  Proof.
    induction l as [|[k w] l IH]; intros n v Hnd Hin Hf; [inversion Hin|].
    simpl in Hnd. inversion Hnd as [|? ? Hnin Hnd']; subst.
    destruct Hin as [Hin|Hin].
    - inversion Hin; subst. simpl. rewrite Hf. simpl. rewrite bytes_eqb_refl. reflexivity.
    - simpl. destruct (f (k, w)).
      + simpl. destruct (bytes_eqb n k) eqn:E.
        * apply bytes_eqb_true in E. subst k. exfalso. apply Hnin. apply in_map_iff. exists (n, v). auto.
        * apply IH; assumption.
      + apply IH; assumption.
  Qed.

  Lemma rendered_names : forall ctx tmpl,
    map fst (map (fun uc => fst (render_segment A a_null ctx uc)) tmpl) = map fst tmpl.
  Proof.
    intros ctx tmpl. rewrite map_map. apply map_ext. intros [u c]. unfold render_segment. simpl.
    destruct (ctx_get c ctx); reflexivity.
  Qed.

  (* a supplied value -- null included -- arrives as it is *)
  Theorem supplied_value_forwarded_proof : forall tmpl ctx u c v,
    names_distinct tmpl -> In (u, c) tmpl -> ctx_get c ctx = Some v ->
    out_get u (forward tmpl ctx) = Some v.
  Proof.
    intros tmpl ctx u c v Hd Hin Hc. unfold Model.forward.
    apply out_get_filter_some.
    - rewrite rendered_names. exact Hd.
    - apply in_map_iff. exists (u, c). split; [|exact Hin]. unfold render_segment. simpl. rewrite Hc. reflexivity.
    - simpl. apply Bool.negb_true_iff. apply Bool.andb_false_iff. right.
      destruct (mem_bytes u (undefined_of A a_null ctx tmpl)) eqn:E; [|reflexivity].
      apply mem_bytes_In in E. apply undefined_in in E. destruct E as (c' & Hin' & Hc').
      rewrite (distinct_unique _ _ _ _ Hd Hin' Hin) in Hc'. congruence.
  Qed.
End Fwd.
