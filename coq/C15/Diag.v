(* C15: the conditions under which the Go conversion is known (and below proved) to be faithful,
   as booleans over a literal.  Their negations are the causes by which the check classifies a
   spec failure observed on the implementation; the partial theorems take them as hypotheses. *)
From Gv Require Import lib.Bytes lib.Gql C15.Unicode C15.Model C15.Spec.
Open Scope N_scope.

(* ---- quoted strings ---- *)
(* a raw control character (below U+0020) inside the quotes, e.g. a TAB *)
Definition has_raw_ctl (raw : bytes) : bool := existsb (fun b => b <? 32) raw.

(* no braced escape (backslash u open-brace), reading escapes left to right *)
Fixpoint no_brace_escape (s : bytes) : bool :=
  match s with
  | [] => true
  | b :: r =>
    if b =? 92 then
      match r with
      | [] => true
      | e :: r1 =>
        if e =? 117 then
          match r1 with
          | a :: _ => if a =? 123 then false else no_brace_escape r1
          | [] => true
          end
        else no_brace_escape r1
      end
    else no_brace_escape r
  end.

(* since c15_fix_raw-control-char a raw control character and since c15_fix_braced-unicode-escape a braced
   escape is no obstacle any more: a quoted string needs no hypothesis ([has_raw_ctl], [no_brace_escape] are
   kept for History.v) *)

(* ---- block strings ---- *)
Fixpoint has_escaped_triple (s : bytes) : bool :=
  match s with
  | [] => false
  | b :: r => if starts_esc_triple s then true else has_escaped_triple r
  end.
(* BlockStringValueContentRawBytes finds the delimiters again *)
Definition rescan_exact (raw : bytes) : bool := bytes_eqb (block_rescan raw) raw.
(* every line is white space only, yet the text is not empty: the specification yields the empty string *)
Definition blank_only (raw : bytes) : bool := forallb line_blank (split_lines raw []) && negb (is_nil raw).
(* Go's JSON encoder does not meet an ill-formed UTF-8 sequence (it would write U+FFFD) *)
Fixpoint utf8_ok (skip : nat) (s : bytes) : bool :=
  match s with
  | [] => true
  | b :: r =>
    match skip with
    | S k => utf8_ok k r
    | O =>
      if b <? 128 then utf8_ok O r
      else match utf8_seq_len s with
           | None => false
           | Some n => utf8_ok (Nat.pred n) r
           end
    end
  end.

(* since c15_fix_block-blank-only and c15_fix_block-escaped-triple-quote neither an escaped triple
   quote nor an all-blank text is an obstacle ([has_escaped_triple], [blank_only] kept for History.v);
   since c15_fix_block-quote-next-to-whitespace the re-scan is exact for every text the lexer delimits
   (ProofsBlock.rescan_exact_proof), so [rescan_exact] is no hypothesis any more *)
Definition block_safe (raw : bytes) : bool :=
  go_block_lexable raw && utf8_ok O (block_string_value raw).

(* ---- whole literals ---- *)
Fixpoint go_safe_b (v : value) : bool :=
  match v with
  | VStr raw false => true
  | VStr raw true => block_safe raw
  | VList items => (fix go (l : list value) : bool := match l with [] => true | x :: r => go_safe_b x && go r end) items
  | VObj fields =>
    (fix go (l : list (name * value)) : bool := match l with [] => true | (_, x) :: r => go_safe_b x && go r end) fields
  | _ => true
  end.

(* variable default values: list coercion of the specification (a null stays null, a list stays,
   anything else is wrapped) for a variable of list depth [wraps] in {0,1} *)
Definition default_denote (wraps : nat) (d : dval) : dval :=
  match wraps with
  | O => d
  | S _ => match d with DNull => DNull | DList _ => d | _ => DList [d] end
  end.

Definition is_dnull (d : dval) : bool := match d with DNull => true | _ => false end.
Definition forward_d := forward dval DNull is_dnull.
