From Gv Require Import lib.Bytes lib.Gql C15.Unicode C15.Model C15.Spec C15.Diag C15.Defaults.
From Coq Require Import ZArith.
Require Import ExtrOcamlBasic.
Extraction Language OCaml.
Extraction "model.ml" value_to_json block_start block_end go_block_lexable default_extract forward_d
  json_denote_gen json_denote json_valid_b gql_denote lit_valid_b dval_eqb value_preserved_b json_same_value_b
  json_member no_brace_escape rescan_exact utf8_ok block_string_value
  go_safe_b default_denote spec_block_delimited is_dnull
  spec_defaults dval_incl dval_sim supplied_preserved_b defaults_complete_b.
