(* C15 specification, written from the GraphQL specification (October 2021 grammar plus the
   September 2025 additions: braced \u{...} escapes, surrogate pairs, any code point as
   SourceCharacter) and from RFC 8259 -- without reference to the Go code.

     gql_denote  : the value a GraphQL literal denotes   (sections 2.9.x `Input Values`)
     parse_json  : RFC 8259 JSON-text parser into the same value domain
     json_denote : bytes -> jres

   Value domain [dval]: strings are UTF-8 byte strings (escapes are decoded and encoded to UTF-8,
   raw bytes are kept), numbers are (sign, mantissa, decimal exponent) with the mantissa free of
   trailing zeros, enums are their JSON transport form (a string), object member order is kept. *)
From Gv Require Import lib.Bytes lib.Gql C15.Unicode.
From Coq Require Import ZArith.
Open Scope N_scope.

Inductive dval :=
| DNull
| DBool (b : bool)
| DNum (neg : bool) (mant : N) (exp : Z)
| DStr (s : bytes)
| DList (l : list dval)
| DObj (m : list (bytes * dval)).

Fixpoint dval_eqb (a b : dval) {struct a} : bool :=
  match a, b with
  | DNull, DNull => true
  | DBool x, DBool y => Bool.eqb x y
  | DNum n1 m1 e1, DNum n2 m2 e2 => Bool.eqb n1 n2 && (m1 =? m2) && Z.eqb e1 e2
  | DStr x, DStr y => bytes_eqb x y
  | DList x, DList y =>
    (fix go (x y : list dval) : bool :=
       match x, y with
       | [], [] => true
       | a :: x', b :: y' => dval_eqb a b && go x' y'
       | _, _ => false
       end) x y
  | DObj x, DObj y =>
    (fix go (x y : list (bytes * dval)) : bool :=
       match x, y with
       | [], [] => true
       | (ka, a) :: x', (kb, b) :: y' => bytes_eqb ka kb && dval_eqb a b && go x' y'
       | _, _ => false
       end) x y
  | _, _ => false
  end.

Fixpoint dobj_get (k : bytes) (m : list (bytes * dval)) : option dval :=
  match m with
  | [] => None
  | (k', v) :: r => if bytes_eqb k k' then Some v else dobj_get k r
  end.

(* ================================================================== numbers *)
(* longest prefix of decimal digits *)
Fixpoint span_digits (s : bytes) : bytes * bytes :=
  match s with
  | b :: r => if is_digit b then let (d, t) := span_digits r in (b :: d, t) else ([], s)
  | [] => ([], [])
  end.

(* value of a number token: optional '-', digits, optional '.' digits, optional e/E [+-] digits.
   (total; garbage in, garbage out -- only applied to tokens accepted by a grammar below) *)
Fixpoint strip_trailing_zeros_rev (rev_digits : bytes) (dropped : nat) : bytes * nat :=
  match rev_digits with
  | b :: r => if b =? 48 then strip_trailing_zeros_rev r (S dropped) else (rev_digits, dropped)
  | [] => ([], dropped)
  end.

Definition num_denote (tok : bytes) : dval :=
  let (neg, s1) := match tok with 45 :: r => (true, r) | _ => (false, tok) end in
  let (ip, s2) := span_digits s1 in
  let (fp, s3) := match s2 with 46 :: r => span_digits r | _ => ([], s2) end in
  let e : Z :=
      match s3 with
      | x :: r =>
        if (x =? 101) || (x =? 69) then
          match r with
          | 45 :: r' => Z.opp (Z.of_N (dec_value (fst (span_digits r'))))
          | 43 :: r' => Z.of_N (dec_value (fst (span_digits r')))
          | _ => Z.of_N (dec_value (fst (span_digits r)))
          end
        else 0%Z
      | [] => 0%Z
      end in
  let (rd, dropped) := strip_trailing_zeros_rev (rev (ip ++ fp)) O in
  let mant := dec_value (rev rd) in
  if mant =? 0 then DNum false 0 0%Z
  else DNum neg mant (e - Z.of_nat (length fp) + Z.of_nat dropped)%Z.

(* ---- GraphQL IntValue / FloatValue (spec 2.9.1, 2.9.2), on the whole token ----
   IntegerPart  :: NegativeSign? 0 | NegativeSign? NonZeroDigit Digit*
   FloatValue   :: IntegerPart FractionalPart | IntegerPart ExponentPart | IntegerPart FractionalPart ExponentPart *)
(* [eat c s]: s without its first byte when that byte is c *)
Definition eat (c : byte) (s : bytes) : option bytes :=
  match s with b :: r => if b =? c then Some r else None | [] => None end.
Definition eat2 (c d : byte) (s : bytes) : option (byte * bytes) :=
  match s with b :: r => if (b =? c) || (b =? d) then Some (b, r) else None | [] => None end.
Definition is_nil (s : bytes) : bool := match s with [] => true | _ => false end.
Definition leading_zero (digits : bytes) : bool :=
  match digits with d0 :: ds => (d0 =? 48) && negb (is_nil ds) | [] => false end.

Definition gql_integer_part (s : bytes) : option bytes :=   (* returns what follows the IntegerPart *)
  let s1 := match eat 45 s with Some r => r | None => s end in
  let (ip, rest) := span_digits s1 in
  if is_nil ip || leading_zero ip then None else Some rest.
Definition gql_fraction (s : bytes) : option bytes :=
  match eat 46 s with
  | Some r => let (fp, rest) := span_digits r in if is_nil fp then None else Some rest
  | None => None
  end.
Definition gql_exponent (s : bytes) : option bytes :=
  match eat2 101 69 s with
  | Some (_, r) =>
    let r1 := match eat2 45 43 r with Some (_, r') => r' | None => r end in
    let (ep, rest) := span_digits r1 in if is_nil ep then None else Some rest
  | None => None
  end.
Definition gql_int_ok (tok : bytes) : bool :=
  match gql_integer_part tok with Some rest => is_nil rest | None => false end.
Definition gql_float_ok (tok : bytes) : bool :=
  match gql_integer_part tok with
  | None => false
  | Some r1 =>
    match gql_fraction r1 with
    | Some r2 => is_nil r2 || match gql_exponent r2 with Some r3 => is_nil r3 | None => false end
    | None => match gql_exponent r1 with Some r3 => is_nil r3 | None => false end
    end
  end.

(* ---- RFC 8259 section 6: number = [ minus ] int [ frac ] [ exp ], longest match at the head ---- *)
Definition json_scan_frac (s2 : bytes) : option (bytes * bytes) :=     (* [ frac ] ; frac = decimal-point 1*DIGIT *)
  match eat 46 s2 with
  | Some r => let (fd, s3) := span_digits r in if is_nil fd then None else Some (46 :: fd, s3)
  | None => Some ([], s2)
  end.
Definition json_scan_exp (s3 : bytes) : option (bytes * bytes) :=      (* [ exp ] ; exp = e [ minus / plus ] 1*DIGIT *)
  match eat2 101 69 s3 with
  | Some (x, r) =>
    let r1 := match eat2 45 43 r with Some (_, r') => r' | None => r end in
    let sg : bytes := match eat2 45 43 r with Some (y, _) => [y] | None => [] end in
    let (ed, s4) := span_digits r1 in
    if is_nil ed then None else Some (x :: sg ++ ed, s4)
  | None => Some ([], s3)
  end.
Definition json_scan_unsigned (s1 : bytes) : option (bytes * bytes) :=   (* int [ frac ] [ exp ] *)
  let (ip, s2) := span_digits s1 in
  if is_nil ip || leading_zero ip then None
  else
    match json_scan_frac s2 with
    | None => None
    | Some (frac, s3) =>
      match json_scan_exp s3 with
      | None => None
      | Some (ex, s4) => Some (ip ++ frac ++ ex, s4)
      end
    end.
Definition json_scan_number (s : bytes) : option (bytes * bytes) :=   (* (token, rest) *)
  match eat 45 s with
  | Some r => match json_scan_unsigned r with Some (t, rest) => Some (45 :: t, rest) | None => None end
  | None => json_scan_unsigned s
  end.

(* ================================================================== strings *)
Definition hex4v (a b c d : byte) : option N :=
  match hexval a, hexval b, hexval c, hexval d with
  | Some x, Some y, Some z, Some w => Some (x * 4096 + y * 256 + z * 16 + w)
  | _, _, _, _ => None
  end.

Definition opt_app (pre : bytes) (o : option bytes) : option bytes :=
  match o with Some s => Some (pre ++ s) | None => None end.

(* single-character escapes common to GraphQL (EscapedCharacter) and JSON (RFC 8259 section 7):
   they happen to be the same table; it is written once per side below. *)

(* ---- GraphQL StringValue, quoted form (spec 2.9.4) ----
   StringCharacter :: SourceCharacter but not DQUOTE or '\' or LineTerminator
                    | \u EscapedUnicode   (4 hex digits, or {hex+}; surrogates only as a pair)
                    | \ EscapedCharacter  ( one of  DQUOTE \ / b f n r t ) *)
Inductive gmode := GPlain | GBrace (acc : N) (ndigits : nat).

Definition gql_escaped_char (e : byte) : option byte :=
  if e =? 34 then Some 34 else if e =? 92 then Some 92 else if e =? 47 then Some 47
  else if e =? 98 then Some 8 else if e =? 102 then Some 12 else if e =? 110 then Some 10
  else if e =? 114 then Some 13 else if e =? 116 then Some 9 else None.

Fixpoint gql_str (m : gmode) (s : bytes) : option bytes :=
  match m with
  | GBrace acc n =>
    match s with
    | [] => None
    | b :: r =>
      if b =? 125 then
        if Nat.ltb 0 n && (acc <=? 1114111) && negb (is_surrogate acc) then opt_app (utf8_encode acc) (gql_str GPlain r) else None
      else match hexval b with
           | Some h => if acc * 16 + h <=? 1114111 then gql_str (GBrace (acc * 16 + h) (S n)) r else None
           | None => None
           end
    end
  | GPlain =>
    match s with
    | [] => Some []
    | b :: r =>
      if b =? 92 then
        match r with
        | [] => None
        | e :: r1 =>
          if e =? 117 then
            match r1 with
            | a :: r2 =>
              if a =? 123 then gql_str (GBrace 0 O) r2
              else
                match r2 with
                | b2 :: c2 :: d2 :: r3 =>
                  match hex4v a b2 c2 d2 with
                  | None => None
                  | Some cp =>
                    if is_high_surrogate cp then
                      match r3 with
                      | x1 :: x2 :: a' :: b' :: c' :: d' :: r4 =>
                        if (x1 =? 92) && (x2 =? 117) then
                          match hex4v a' b' c' d' with
                          | Some lo => if is_low_surrogate lo then opt_app (utf8_encode (combine_surrogates cp lo)) (gql_str GPlain r4) else None
                          | None => None
                          end
                        else None
                      | _ => None
                      end
                    else if is_low_surrogate cp then None
                    else opt_app (utf8_encode cp) (gql_str GPlain r3)
                  end
                | _ => None
                end
            | [] => None
            end
          else match gql_escaped_char e with
               | Some c => opt_app [c] (gql_str GPlain r1)
               | None => None
               end
        end
      else if (b =? 34) || (b =? 10) || (b =? 13) then None
      else opt_app [b] (gql_str GPlain r)
    end
  end.

(* ---- GraphQL block strings (spec 2.9.4): lexical form and BlockStringValue() ----
   BlockStringCharacter :: SourceCharacter but not TRIPLEQUOTE or BACKSLASH-TRIPLEQUOTE  |  BACKSLASH-TRIPLEQUOTE
   The token ends at the first TRIPLEQUOTE that is not part of BACKSLASH-TRIPLEQUOTE (longest-match lexing). *)
(* [skip]: after the backslash of an escaped triple quote the scan jumps over the three quotes *)
Fixpoint spec_block_scan (s : bytes) (i : nat) (skip : nat) : option nat :=
  match s with
  | [] => None
  | b :: r =>
    match skip with
    | S k => spec_block_scan r (S i) k
    | O =>
      match s with
      | 92 :: 34 :: 34 :: 34 :: _ => spec_block_scan r (S i) 3
      | 34 :: 34 :: 34 :: _ => Some i
      | _ => spec_block_scan r (S i) O
      end
    end
  end.
Definition triple_quote : bytes := [34; 34; 34].
Definition spec_block_delimited (raw : bytes) : bool :=
  match spec_block_scan (raw ++ triple_quote) O O with
  | Some i => Nat.eqb i (length raw)
  | None => false
  end.

(* rawValue: BACKSLASH-TRIPLEQUOTE stands for TRIPLEQUOTE *)
Definition starts_esc_triple (s : bytes) : bool :=
  match s with
  | a :: b :: c :: d :: _ => (a =? 92) && (b =? 34) && (c =? 34) && (d =? 34)
  | _ => false
  end.
Fixpoint block_unescape (s : bytes) : bytes :=
  match s with
  | [] => []
  | b :: r => if starts_esc_triple s then block_unescape r else b :: block_unescape r
  end.

(* lines = rawValue split by LineTerminator (LF, CR LF, CR) *)
Fixpoint sp_lines (s : bytes) (cur_rev : bytes) : list bytes :=
  match s with
  | [] => [rev cur_rev]
  | b :: r =>
    if b =? 10 then rev cur_rev :: sp_lines r []
    else if b =? 13 then
      match r with
      | c :: r' => if c =? 10 then rev cur_rev :: sp_lines r' [] else rev cur_rev :: sp_lines r []
      | [] => rev cur_rev :: sp_lines r []
      end
    else sp_lines r (b :: cur_rev)
  end.
Definition sp_is_ws (b : byte) : bool := (b =? 9) || (b =? 32).
Fixpoint sp_indent (line : bytes) : nat :=
  match line with b :: r => if sp_is_ws b then S (sp_indent r) else O | [] => O end.
Definition sp_blank (line : bytes) : bool := forallb sp_is_ws line.
Fixpoint sp_common_indent (lines : list bytes) : option nat :=
  match lines with
  | [] => None
  | l :: r =>
    let rest := sp_common_indent r in
    if Nat.ltb (sp_indent l) (length l) then
      match rest with None => Some (sp_indent l) | Some c => Some (Nat.min (sp_indent l) c) end
    else rest
  end.
Fixpoint sp_drop_blank (lines : list bytes) : list bytes :=
  match lines with
  | l :: r => if sp_blank l then sp_drop_blank r else lines
  | [] => []
  end.
Fixpoint sp_join (lines : list bytes) : bytes :=
  match lines with
  | [] => []
  | [l] => l
  | l :: r => l ++ 10 :: sp_join r
  end.
Definition spec_block_value (raw : bytes) : bytes :=
  let lines := sp_lines (block_unescape raw) [] in
  let lines' :=
      match lines with
      | [] => []
      | l0 :: tail =>
        match sp_common_indent tail with
        | None => lines
        | Some c => l0 :: map (skipn c) tail
        end
      end in
  sp_join (rev (sp_drop_blank (rev (sp_drop_blank lines')))).

(* ---- JSON string (RFC 8259 section 7), after the opening quotation mark ----
   char = unescaped (%x20-21 / %x23-5B / %x5D-10FFFF) | \ ( DQUOTE \ / b f n r t | uXXXX )
   [strict=false] is NOT the RFC: it is the reading the forwarding layer (astjson, a fastjson fork)
   gives a string -- control characters pass, an escape it cannot decode is kept as written.  It is
   used only by the correspondence check of the upstream request (what astjson re-marshals). *)
Definition json_escaped_char (e : byte) : option byte :=
  if e =? 34 then Some 34 else if e =? 92 then Some 92 else if e =? 47 then Some 47
  else if e =? 98 then Some 8 else if e =? 102 then Some 12 else if e =? 110 then Some 10
  else if e =? 114 then Some 13 else if e =? 116 then Some 9 else None.

Definition opt_cons (pre : bytes) (o : option (bytes * bytes)) : option (bytes * bytes) :=
  match o with Some (s, rest) => Some (pre ++ s, rest) | None => None end.

Fixpoint json_str (strict : bool) (s : bytes) : option (bytes * bytes) :=
  match s with
  | [] => None
  | b :: r =>
    if b =? 34 then Some ([], r)
    else if b =? 92 then
      match r with
      | [] => None
      | e :: r1 =>
        if e =? 117 then
          match r1 with
          | a :: b2 :: c2 :: d2 :: r3 =>
            match hex4v a b2 c2 d2 with
            | None => if strict then None else opt_cons [92; 117] (json_str strict r1)
            | Some cp =>
              if strict then
                (* RFC 8259: a pair of escapes may encode one code point above U+FFFF *)
                if is_high_surrogate cp then
                  match r3 with
                  | x1 :: x2 :: a' :: b' :: c' :: d' :: r4 =>
                    if (x1 =? 92) && (x2 =? 117) then
                      match hex4v a' b' c' d' with
                      | Some lo =>
                        if is_low_surrogate lo then opt_cons (utf8_encode (combine_surrogates cp lo)) (json_str strict r4)
                        else opt_cons (utf8_encode cp) (json_str strict r3)
                      | None => None
                      end
                    else opt_cons (utf8_encode cp) (json_str strict r3)
                  | _ => opt_cons (utf8_encode cp) (json_str strict r3)
                  end
                else opt_cons (utf8_encode cp) (json_str strict r3)
              else
                (* the reading of github.com/wundergraph/astjson (fastjson unescapeStringBestEffort) *)
                if is_surrogate cp then
                  match r3 with
                  | x1 :: x2 :: a' :: b' :: c' :: d' :: r4 =>
                    if (x1 =? 92) && (x2 =? 117) then
                      match hex4v a' b' c' d' with
                      | Some lo =>
                        if is_high_surrogate cp && is_low_surrogate lo
                        then opt_cons (utf8_encode (combine_surrogates cp lo)) (json_str strict r4)
                        else opt_cons [239; 191; 189] (json_str strict r4)
                      | None => opt_cons [92; 117; a; b2; c2; d2] (json_str strict r3)
                      end
                    else opt_cons [92; 117; a; b2; c2; d2] (json_str strict r3)
                  | _ => opt_cons [92; 117; a; b2; c2; d2] (json_str strict r3)
                  end
                else opt_cons (utf8_encode cp) (json_str strict r3)
            end
          | _ => if strict then None else opt_cons [92; 117] (json_str strict r1)
          end
        else match json_escaped_char e with
             | Some c => opt_cons [c] (json_str strict r1)
             | None => if strict then None else opt_cons [92; e] (json_str strict r1)
             end
      end
    else if strict && (b <? 32) then None
    else opt_cons [b] (json_str strict r)
  end.

(* ================================================================== JSON text (RFC 8259) *)
Definition is_jws (b : byte) : bool := (b =? 32) || (b =? 9) || (b =? 10) || (b =? 13).
Fixpoint skip_ws (s : bytes) : bytes :=
  match s with
  | b :: r => if is_jws b then skip_ws r else s
  | [] => []
  end.

Inductive pres (A : Type) :=
| POk (a : A) (rest : bytes)
| PErr
| PFuel.
Arguments POk {A} a rest.
Arguments PErr {A}.
Arguments PFuel {A}.

Definition lift {A B : Type} (f : A -> B) (p : pres A) : pres B :=
  match p with POk a r => POk (f a) r | PErr => PErr | PFuel => PFuel end.

Fixpoint parse_value (strict : bool) (fuel : nat) (s : bytes) {struct fuel} : pres dval :=
  match fuel with
  | O => PFuel
  | S f =>
    match skip_ws s with
    | [] => PErr
    | b :: r =>
      if b =? 110 then match r with 117 :: 108 :: 108 :: r' => POk DNull r' | _ => PErr end
      else if b =? 116 then match r with 114 :: 117 :: 101 :: r' => POk (DBool true) r' | _ => PErr end
      else if b =? 102 then match r with 97 :: 108 :: 115 :: 101 :: r' => POk (DBool false) r' | _ => PErr end
      else if b =? 34 then
        match json_str strict r with Some (str, r') => POk (DStr str) r' | None => PErr end
      else if b =? 91 then
        match eat 93 (skip_ws r) with
        | Some r' => POk (DList []) r'
        | None => lift DList (parse_elems strict f r)
        end
      else if b =? 123 then
        match eat 125 (skip_ws r) with
        | Some r' => POk (DObj []) r'
        | None => lift DObj (parse_members strict f r)
        end
      else if (b =? 45) || is_digit b then
        match json_scan_number (b :: r) with
        | Some (tok, r') => POk (num_denote tok) r'
        | None => PErr
        end
      else PErr
    end
  end
with parse_elems (strict : bool) (fuel : nat) (s : bytes) {struct fuel} : pres (list dval) :=
  match fuel with
  | O => PFuel
  | S f =>
    match parse_value strict f s with
    | POk d r =>
      match skip_ws r with
      | c :: r' =>
        if c =? 44 then lift (cons d) (parse_elems strict f r')
        else if c =? 93 then POk [d] r'
        else PErr
      | [] => PErr
      end
    | PErr => PErr
    | PFuel => PFuel
    end
  end
with parse_members (strict : bool) (fuel : nat) (s : bytes) {struct fuel} : pres (list (bytes * dval)) :=
  match fuel with
  | O => PFuel
  | S f =>
    match eat 34 (skip_ws s) with
    | Some r =>
      match json_str strict r with
      | None => PErr
      | Some (k, r1) =>
        match eat 58 (skip_ws r1) with
        | Some r2 =>
          match parse_value strict f r2 with
          | POk d r3 =>
            match skip_ws r3 with
            | c :: r4 =>
              if c =? 44 then lift (cons (k, d)) (parse_members strict f r4)
              else if c =? 125 then POk [(k, d)] r4
              else PErr
            | [] => PErr
            end
          | PErr => PErr
          | PFuel => PFuel
          end
        | None => PErr
        end
      end
    | None => PErr
    end
  end.

Inductive jres :=
| JOk (d : dval)
| JInvalid
| JFuel.

Definition json_fuel (s : bytes) : nat := S (S (2 * length s)).

(* JSON-text = ws value ws *)
Definition json_denote_gen (strict : bool) (s : bytes) : jres :=
  match parse_value strict (json_fuel s) s with
  | POk d r => match skip_ws r with [] => JOk d | _ => JInvalid end
  | PErr => JInvalid
  | PFuel => JFuel
  end.
Definition json_denote (s : bytes) : jres := json_denote_gen true s.
Definition json_valid_b (s : bytes) : bool := match json_denote s with JOk _ => true | _ => false end.

(* ================================================================== literals *)
Definition is_name_start (b : byte) : bool := is_upper b || is_lower b || (b =? 95).
Definition is_name_cont (b : byte) : bool := is_name_start b || is_digit b.
Definition name_ok (n : name) : bool :=
  match n with b :: r => is_name_start b && forallb is_name_cont r | [] => false end.

Definition denv := list (name * dval).
Fixpoint denv_get (n : name) (e : denv) : option dval :=
  match e with
  | [] => None
  | (k, v) :: r => if bytes_eqb n k then Some v else denv_get n r
  end.

(* spec 2.9.8 / 2.10: an input object field whose value is an unprovided variable is treated as
   if the field was not there; an unprovided variable in a list position (or on its own) is null *)
Definition var_unprovided (e : denv) (v : value) : bool :=
  match v with
  | VVar n => match denv_get n e with None => true | Some _ => false end
  | _ => false
  end.

Fixpoint gql_denote (e : denv) (v : value) : dval :=
  match v with
  | VNull => DNull
  | VBool b => DBool b
  | VInt raw => num_denote raw
  | VFloat raw => num_denote raw
  | VEnum n => DStr n
  | VStr raw false => match gql_str GPlain raw with Some s => DStr s | None => DNull end
  | VStr raw true => DStr (spec_block_value raw)
  | VVar n => match denv_get n e with Some d => d | None => DNull end
  | VList items =>
    DList ((fix go (l : list value) : list dval :=
              match l with [] => [] | x :: r => gql_denote e x :: go r end) items)
  | VObj fields =>
    DObj ((fix go (l : list (name * value)) : list (bytes * dval) :=
             match l with
             | [] => []
             | (k, x) :: r => if var_unprovided e x then go r else (k, gql_denote e x) :: go r
             end) fields)
  end.

Definition n_true : bytes := [116; 114; 117; 101].
Definition n_false : bytes := [102; 97; 108; 115; 101].
Definition n_null : bytes := [110; 117; 108; 108].

(* the literal is one the GraphQL grammar produces *)
Fixpoint lit_valid_b (v : value) : bool :=
  match v with
  | VNull => true
  | VBool _ => true
  | VInt raw => gql_int_ok raw
  | VFloat raw => gql_float_ok raw
  | VEnum n => name_ok n && negb (bytes_eqb n n_true) && negb (bytes_eqb n n_false) && negb (bytes_eqb n n_null)
  | VStr raw false => match gql_str GPlain raw with Some _ => true | None => false end
  | VStr raw true => spec_block_delimited raw
  | VVar n => name_ok n
  | VList items =>
    (fix go (l : list value) : bool := match l with [] => true | x :: r => lit_valid_b x && go r end) items
  | VObj fields =>
    (fix go (l : list (name * value)) : bool :=
       match l with [] => true | (k, x) :: r => name_ok k && lit_valid_b x && go r end) fields
  end.
Definition lit_valid (v : value) : Prop := lit_valid_b v = true.

(* ================================================================== the property, as checkers *)
(* `reaches ... as valid JSON denoting the same GraphQL value` *)
Definition value_preserved_b (e : denv) (l : value) (json_text : bytes) : bool :=
  match json_denote json_text with
  | JOk d => dval_eqb d (gql_denote e l)
  | _ => false
  end.

(* same value, for a JSON variable supplied as text [supplied] and received as text [received] *)
Definition json_same_value_b (supplied received : bytes) : bool :=
  match json_denote supplied, json_denote received with
  | JOk a, JOk b => dval_eqb a b
  | _, _ => false
  end.

(* member [k] of the JSON object text [obj] *)
Definition json_member (strict : bool) (obj : bytes) (k : bytes) : option dval :=
  match json_denote_gen strict obj with
  | JOk (DObj m) => dobj_get k m
  | _ => None
  end.
