(* C15: input-field default injection never replaces a value the client supplied.

   Part 1 is about the tree-level model of inject_input_default_values.go, which is C06's
   (C06.Model: inject / inject_fields / inject_loop; "present" there is presence of the KEY:
   [jget (iv_name f) v = Some _]).  A member the client supplied -- the edge value of every JSON
   kind included: "" 0 false null [] -- is still there with the same value after injection.
   The witness [nonempty_present_overwrites] shows that the reading "a member is present when
   jsonparser.Get returns a non-empty slice" (seeded/C15-m5) does overwrite "".

   Part 2 is the same fact about the specification Defaults.spec_defaults that the check evaluates
   on the implementation's outputs. *)
From Gv Require Import lib.Bytes lib.Json lib.Gql C06.Num C06.Model C06.ProofsBase C06.Proofs.
From Gv Require Import C15.Spec C15.Defaults.
From Coq Require Import List NArith Bool.
Import ListNotations.
Open Scope N_scope.

(* ------------------------------------------------------------------ part 1: C06's model *)
Lemma obj_get_set_member : forall k k' v ms,
  obj_get k (set_member k' v ms) = if bytes_eqb k k' then Some v else obj_get k ms.
Proof.
  induction ms as [|[k0 v0] r IH]; simpl.
  - destruct (bytes_eqb k k'); reflexivity.
  - destruct (bytes_eqb k' k0) eqn:E0; simpl.
    + apply bytes_eqb_eq in E0. subst k0. destruct (bytes_eqb k k'); reflexivity.
    + rewrite IH. destruct (bytes_eqb k k0) eqn:E1.
      * apply bytes_eqb_eq in E1. subst k0.
        destruct (bytes_eqb k k') eqn:E2; auto.
        apply bytes_eqb_eq in E2. subst k'. rewrite bytes_eqb_refl in E0. discriminate.
      * reflexivity.
Qed.

Lemma jget_jset : forall final k' v final' k,
  jset final k' v = Some final' ->
  jget k final' = if bytes_eqb k k' then Some v else jget k final.
Proof.
  intros. destruct final; simpl in H; try discriminate. inversion H; subst. simpl. apply obj_get_set_member.
Qed.

(* every value that is not a non-empty container: the edge value of each JSON kind is one *)
Definition atomic_value (x : json) : bool :=
  match x with
  | JObj _ => false
  | JArr (_ :: _) => false
  | _ => true
  end.

Definition is_object (j : json) : bool := match j with JObj _ => true | _ => false end.

Section Kept.
  Variable q : quirks.
  Variable S : schema.
  Variable inj : ty -> json -> ires.

  (* writes to something that is not an object fail: the loop can only hand it back *)
  Lemma loop_nonobj_final : forall fs v final any r b,
    is_object final = false -> inject_loop q S inj v fs final any = IOk r b -> r = final.
  Proof.
    induction fs as [|f fs IH]; simpl; intros v final any r b Hf H.
    - inversion H. reflexivity.
    - assert (Hset : forall k x, jset final k x = None) by (intros; destruct final; simpl in *; try reflexivity; discriminate).
      destruct v; try discriminate;
      repeat match type of H with
             | IOk _ _ = IOk _ _ => inversion H; reflexivity
             | IErr = IOk _ _ => discriminate
             | inject_loop _ _ _ _ _ _ _ = IOk _ _ => eapply IH; eauto
             | context [jset final ?k ?x] => rewrite (Hset k x) in H
             | context [if ?c then _ else _] => destruct c
             | context [match ?c with _ => _ end] => destruct c eqn:?
             end; try discriminate.
  Qed.

  Variable k : bytes.
  Variable x : json.

  Lemma loop_keeps : forall fs v final any r b,
    (forall f, In f fs -> iv_name f = k ->
               is_scalar_or_enum S (iv_type f) = true \/ forall fv rep, inj (iv_type f) x = IOk fv rep -> fv = x) ->
    jget k v = Some x -> jget k final = Some x ->
    inject_loop q S inj v fs final any = IOk r b -> jget k r = Some x.
  Proof.
    induction fs as [|f fs IH]; simpl; intros v final any r b Hf Hv Hfin H.
    - inversion H; subst. exact Hfin.
    - assert (Hf' : forall f0, In f0 fs -> iv_name f0 = k ->
                is_scalar_or_enum S (iv_type f0) = true \/ forall fv rep, inj (iv_type f0) x = IOk fv rep -> fv = x)
        by (intros; apply Hf; auto).
      specialize (Hf f (or_introl eq_refl)).
      destruct v as [| | | |?|ms]; try discriminate.
      (* the field's own name against k *)
      destruct (bytes_eqb k (iv_name f)) eqn:Ek.
      + apply bytes_eqb_eq in Ek. specialize (Hf (eq_sym Ek)).
        rewrite <- Ek in H. rewrite Hv in H.
        destruct (negb (q_inject_reparse q) && match x with JStr _ => true | _ => false end);
          [eapply IH; [exact Hf'|exact Hv|exact Hfin|exact H]|].
        destruct (is_scalar_or_enum S (iv_type f)) eqn:Es.
        * destruct (iv_default f); (eapply IH; [exact Hf'|exact Hv|exact Hfin|exact H]).
        * destruct Hf as [Hf|Hf]; [discriminate|].
          destruct (inj (iv_type f) x) as [fv rep| | |] eqn:Ei; try discriminate.
          assert (fv = x) by (apply (Hf fv rep); first [exact Ei | reflexivity]). subst fv. simpl in H.
          destruct rep.
          -- destruct (jset final k x) as [final'|] eqn:Es'; try discriminate.
             eapply IH; [exact Hf'|exact Hv| |exact H]. rewrite (jget_jset _ _ _ _ k Es'). rewrite bytes_eqb_refl. reflexivity.
          -- eapply IH; [exact Hf'|exact Hv|exact Hfin|exact H].
      + (* another field: whatever is written goes under another key *)
        assert (Hother : forall val final', jset final (iv_name f) val = Some final' -> jget k final' = Some x).
        { intros val final' Hs. rewrite (jget_jset _ _ _ _ k Hs). rewrite Ek. exact Hfin. }
        repeat match type of H with
               | inject_loop _ _ _ _ _ _ _ = IOk _ _ => eapply IH; [exact Hf'|exact Hv| |exact H]; solve [exact Hfin | eapply Hother; eassumption]
               | IErr = IOk _ _ => discriminate
               | context [if ?c then _ else _] => destruct c
               | context [match ?c with _ => _ end] => destruct c eqn:?
               end; try discriminate.
  Qed.
End Kept.

(* processObjectOrListInput on an atomic value hands the value back *)
Lemma inject_atomic : forall q S reparse fuel t x fv rep,
  q_inject_reparse q = false -> atomic_value x = true ->
  inject q S reparse fuel t x = IOk fv rep -> fv = x.
Proof.
  intros q S reparse fuel t x fv rep Hq Hx H.
  destruct fuel as [|fuel]; simpl in H; [discriminate|].
  rewrite Hq in H.
  assert (Hov : match x with JStr s => if false then reparse s else Some x | _ => Some x end = Some x) by (destruct x; reflexivity).
  rewrite Hov in H. clear Hov.
  destruct (lookup S (named_of t)) as [td|]; [|inversion H; reflexivity].
  assert (Hloop : forall ofs v b, is_object x = false -> inject_fields q S (inject q S reparse fuel) ofs x = IOk v b -> v = x).
  { intros ofs v b Ho Hl. destruct ofs; simpl in Hl; try discriminate. eapply loop_nonobj_final; eauto. }
  destruct (td_kind td); try (inversion H; reflexivity);
    (match type of H with (if ?c then _ else _) = _ => destruct c; [inversion H; reflexivity|] end);
    (destruct x as [| | | |items|]; try discriminate Hx; try (destruct items; [|discriminate Hx]));
    repeat match type of H with
           | IOk _ _ = IOk _ _ => inversion H; subst; first [reflexivity | (eapply Hloop; [reflexivity | eassumption])]
           | (if ?c then _ else _) = _ => destruct c
           | (match inject_fields ?a ?b ?c ?d ?e with _ => _ end) = _ => destruct (inject_fields a b c d e) as [? [|]| | |] eqn:?
           | (match strip_nonnull ?t with _ => _ end) = _ => destruct (strip_nonnull t); simpl in H
           | _ = _ => discriminate
           end.
Qed.

(* recursiveInjectInputFields: a supplied member is still there, unchanged, when it is atomic
   ("" 0 false null [] ...) or when its field is of scalar / enum type (then anything: {} too) *)
Theorem supplied_field_not_defaulted_fields : forall q S reparse fuel fs ms k x r b,
  q_inject_reparse q = false ->
  obj_get k ms = Some x ->
  (atomic_value x = true \/ forall f, In f fs -> iv_name f = k -> is_scalar_or_enum S (iv_type f) = true) ->
  inject_fields q S (inject q S reparse fuel) (Some fs) (JObj ms) = IOk r b ->
  jget k r = Some x.
Proof.
  intros q S reparse fuel fs ms k x r b Hq Hget Hc H. simpl in H.
  eapply loop_keeps; eauto.
  intros f Hin Hn. destruct Hc as [Ha|Hs]; [right|left; auto].
  intros fv rep Hi. eapply inject_atomic; eauto.
  all: exact Hget.
Qed.

(* processObjectOrListInput on an object of any type: an atomic member survives *)
Theorem supplied_field_not_defaulted_proof : forall q S reparse fuel t ms k x r b,
  q_inject_reparse q = false ->
  obj_get k ms = Some x -> atomic_value x = true ->
  inject q S reparse fuel t (JObj ms) = IOk r b ->
  jget k r = Some x.
Proof.
  intros q S reparse fuel t ms k x r b Hq Hget Ha H.
  destruct fuel as [|fuel]; simpl in H; [discriminate|].
  destruct (lookup S (named_of t)) as [td|]; [|inversion H; subst; exact Hget].
  assert (Hfields : forall v, inject_fields q S (inject q S reparse fuel) (fields_by_ref S td) (JObj ms) = IOk v true ->
                              jget k v = Some x).
  { intros v El. destruct (fields_by_ref S td) as [fs|]; [|discriminate].
    eapply supplied_field_not_defaulted_fields; eauto. }
  destruct (td_kind td); try (inversion H; subst; exact Hget);
    repeat match type of H with
           | IOk _ _ = IOk _ _ => inversion H; subst; first [exact Hget | (eapply Hfields; eassumption)]
           | (if ?c then _ else _) = _ => destruct c
           | (match inject_fields ?a ?b ?c ?d ?e with _ => _ end) = _ => destruct (inject_fields a b c d e) as [? [|]| | |] eqn:?
           | _ = _ => discriminate
           end.
Qed.

(* ---- non-trivial instance: input In { s: String = "anonymous", l: [String] = ["t"], o: In }
        value {"s":"","l":[],"o":{"s":""}}: nothing is written at all *)
Definition b_s : name := [115].
Definition b_l : name := [108].
Definition b_o : name := [111].
Definition t_anonymous : bytes := [97;110;111;110;121;109;111;117;115].
Definition ex_schema : schema :=
  mk_schema [mk_input b_In [mk_field b_s (TNamed n_String) (Some (VStr t_anonymous false));
                            mk_field b_l (TList (TNamed n_String)) (Some (VList [VStr [116] false]));
                            mk_field b_o (TNamed b_In) None]].
Definition ex_value : list (bytes * json) := [(b_s, JStr []); (b_l, JArr []); (b_o, JObj [(b_s, JStr [])])].

Example supplied_empty_string_and_list_kept :
  q_inject_reparse go_quirks = false
  /\ obj_get b_s ex_value = Some (JStr []) /\ atomic_value (JStr []) = true
  /\ obj_get b_l ex_value = Some (JArr []) /\ atomic_value (JArr []) = true
  /\ exists r b, inject go_quirks ex_schema no_reparse 8 (TNamed b_In) (JObj ex_value) = IOk r b
                 /\ jget b_s r = Some (JStr []) /\ jget b_l r = Some (JArr [])
                 /\ jget_path [b_o; b_s] r = Some (JStr [])
                 /\ jget_path [b_o; b_l] r = Some (JArr [JStr [116]]).   (* the omitted member IS defaulted *)
Proof. vm_compute. repeat split; try reflexivity. eexists. eexists. repeat split; reflexivity. Qed.

(* ---- seeded/C15-m5: "present" read as "jsonparser.Get returned a non-empty slice".  Get returns the
        unquoted content of a string, so a member "" looks absent to every lookup of the loop while
        the writes still go to the whole value: that is the loop run with lookups on [drop_empty v]. *)
Definition drop_empty_strings (v : json) : json :=
  match v with
  | JObj ms => JObj (filter (fun kv => match snd kv with JStr [] => false | _ => true end) ms)
  | _ => v
  end.
Definition inject_fields_nonempty_present (q : quirks) (S : schema) (inj : ty -> json -> ires)
           (fs : list inputvalue_def) (v : json) : ires :=
  inject_loop q S inj (drop_empty_strings v) fs v false.

Theorem nonempty_present_overwrites :
  exists S fs ms k r,
    obj_get k ms = Some (JStr []) /\
    inject_fields_nonempty_present go_quirks S (inject go_quirks S no_reparse 8) fs (JObj ms) = IOk r true /\
    jget k r = Some (JStr t_anonymous) /\
    (* the code as it is keeps it *)
    inject_fields go_quirks S (inject go_quirks S no_reparse 8) (Some fs) (JObj ms) = IOk (JObj ms) false.
Proof.
  exists ex_schema, (td_input_fields (mk_input b_In [mk_field b_s (TNamed n_String) (Some (VStr t_anonymous false))])),
         [(b_s, JStr [])], b_s.
  eexists. vm_compute. repeat split; reflexivity.
Qed.

(* ------------------------------------------------------------------ part 2: the specification *)
Lemma dobj_get_app_l : forall k (m m' : list (bytes * dval)) v, dobj_get k m = Some v -> dobj_get k (m ++ m') = Some v.
Proof.
  induction m as [|[k0 v0] r IH]; simpl; intros; [discriminate|].
  destruct (bytes_eqb k k0); auto.
Qed.

Lemma dobj_get_map : forall (g : bytes -> dval -> dval) k m v,
  dobj_get k m = Some v ->
  dobj_get k (map (fun kv => (fst kv, g (fst kv) (snd kv))) m) = Some (g k v).
Proof.
  induction m as [|[k0 v0] r IH]; simpl; intros; [discriminate|].
  destruct (bytes_eqb k k0) eqn:E; auto.
  apply bytes_eqb_eq in E. subst. inversion H. reflexivity.
Qed.

(* the specification keeps a supplied member of scalar / enum / custom scalar type, whatever its value *)
Theorem spec_supplied_member_kept : forall fuel S n fs m k x f,
  ischema_get n S = Some fs -> dobj_get k m = Some x ->
  find_field k fs = Some f -> if_type f = IScalar ->
  exists m', spec_defaults (Datatypes.S fuel) S (IObj n) (DObj m) = DObj m' /\ dobj_get k m' = Some x.
Proof.
  intros fuel S n fs m k x f Hs Hg Hf Ht. simpl. rewrite Hs. eexists. split; [reflexivity|].
  unfold complete_members. apply dobj_get_app_l.
  assert (Hsc : forall fuel d, spec_defaults fuel S IScalar d = d) by (intros [|?] d; reflexivity).
  pose (g := fun (k0 : bytes) (v : dval) => match find_field k0 fs with
                                            | Some f0 => spec_defaults fuel S (if_type f0) v
                                            | None => v end).
  assert (Hm : map (fun kv : bytes * dval => match find_field (fst kv) fs with
                                             | Some f0 => (fst kv, spec_defaults fuel S (if_type f0) (snd kv))
                                             | None => kv end) m
               = map (fun kv => (fst kv, g (fst kv) (snd kv))) m).
  { apply map_ext. intros [k0 v0]. unfold g. simpl. destruct (find_field k0 fs); reflexivity. }
  rewrite Hm. rewrite (dobj_get_map g k m x Hg). unfold g. rewrite Hf, Ht, Hsc. reflexivity.
Qed.

(* ... and an omitted one with a default gets it, while an explicit null stays *)
Example spec_defaults_example :
  let S := [([68], [ {| if_name := [115]; if_type := IScalar; if_default := Some (DStr [97]) |};
                     {| if_name := [108]; if_type := IList IScalar; if_default := Some (DList [DStr [116]]) |};
                     {| if_name := [110]; if_type := IObj [68]; if_default := None |} ])] in
  spec_defaults 8 S (IObj [68]) (DObj [([115], DStr []); ([110], DObj [([108], DList []); ([115], DNull)])])
  = DObj [([115], DStr []); ([110], DObj [([108], DList []); ([115], DNull)]); ([108], DList [DStr [116]])]
  /\ supplied_preserved_b (DObj [([115], DStr [])]) (DObj [([115], DStr [97])]) = false
  /\ supplied_preserved_b (DObj [([115], DStr [])]) (DObj [([108], DList []); ([115], DStr [])]) = true.
Proof. vm_compute. repeat split; reflexivity. Qed.
