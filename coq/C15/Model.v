(* C15 model: what the Go code does to an argument value on its way to the subgraph.
   Mirrors, branch by branch:
     v2/pkg/ast/ast_value.go            writeJSONValue / ValueToJSON
     v2/pkg/ast/ast_val_string_value.go BlockStringValueContentRawBytes / BlockStringValueContentBytes
     v2/pkg/ast/helpers.go              splitBytesIntoLines / leadingWhitespaceCount / commonBlockStringIndent
     v2/pkg/lexer/lexer.go              readBlockString (only the Literal.Start/End trimming that
                                        BlockStringValueContentRawBytes re-scans from)
     v2/pkg/internal/quotes             WrapBytes
     encoding/json (go1.25) appendString with escapeHTML=false (the encoder used for block strings)
     v2/pkg/astnormalization/variables_extraction.go, variables_default_value_extraction.go
                                        (value level: which JSON text is stored for an argument)
     v2/pkg/engine/resolve/inputtemplate.go renderContextVariable + SetInputUndefinedVariables and
     graphql_datasource.go compactAndUnNullVariables/cleanupVariables (value level).
   State of the Go code: with the repairs c15_fix_raw-control-char, c15_fix_default-null-list-wrapped,
   c15_fix_block-blank-only, c15_fix_block-escaped-triple-quote, c15_fix_block-quote-next-to-whitespace and
   c15_fix_braced-unicode-escape applied (the functions they replaced are kept in History.v).
   Literals are lib/Gql.v [value]s: strings carry the RAW bytes between the delimiters (for block
   strings: everything between the opening and the closing triple quote), numbers the raw token
   including a leading '-'.  No proofs here. *)
From Gv Require Import lib.Bytes lib.Gql C15.Unicode.
Open Scope N_scope.

(* ------------------------------------------------------------------ encoding/json appendString *)
(* safeSet: ASCII 0x20..0x7f except DQUOTE and '\\' *)
Definition json_safe (b : byte) : bool := (32 <=? b) && (b <? 128) && negb (b =? 34) && negb (b =? 92).

Definition json_escape_ascii (b : byte) : bytes :=
  if (b =? 92) || (b =? 34) then [92; b]
  else if b =? 8 then [92; 98]
  else if b =? 12 then [92; 102]
  else if b =? 10 then [92; 110]
  else if b =? 13 then [92; 114]
  else if b =? 9 then [92; 116]
  else [92; 117; 48; 48; hexdigit (b / 16); hexdigit (b mod 16)].

(* [skip] = continuation bytes of an already accepted multi-byte sequence still to be copied *)
Fixpoint json_encode_body (skip : nat) (s : bytes) : bytes :=
  match s with
  | [] => []
  | b :: r =>
    match skip with
    | S k => b :: json_encode_body k r
    | O =>
      if b <? 128 then
        (if json_safe b then b :: json_encode_body O r else json_escape_ascii b ++ json_encode_body O r)
      else
        match utf8_seq_len s with
        | None => [92; 117; 102; 102; 102; 100] ++ json_encode_body O r               (* �, size 1 *)
        | Some n =>
          match r with
          | b1 :: c :: r' =>
            if (b =? 226) && (b1 =? 128) && ((c =? 168) || (c =? 169)) then                 (* U+2028 / U+2029 *)
              [92; 117; 50; 48; 50; hexdigit (c - 160)] ++ json_encode_body O r'
            else b :: json_encode_body (Nat.pred n) r
          | _ => b :: json_encode_body (Nat.pred n) r
          end
        end
    end
  end.
Definition json_encode_string (s : bytes) : bytes := 34 :: json_encode_body O s ++ [34].

(* ------------------------------------------------------------------ lexer.readBlockString trimming *)
Record blex := { bl_escaped : bool; bl_quotes : N; bl_ws : N; bl_reached : bool; bl_lead : N; bl_closed : bool }.
Definition blex0 : blex := {| bl_escaped := false; bl_quotes := 0; bl_ws := 0; bl_reached := false; bl_lead := 0; bl_closed := false |}.

Definition is_blockws (b : byte) : bool := (b =? 32) || (b =? 9) || (b =? 13) || (b =? 10).

(* since c15_fix_block-quote-next-to-whitespace the loop body starts with
     if quoteCount != 0 && next != QUOTE { reached = true (lead = ws if it was not); ws = 0 }
   (quotes that did not close the string are content) and a backslash sets reachedFirstNonWhitespace
   like any other character; the step function it replaced is History.blex_step_v1 *)
Definition blex_step (st : blex) (b : byte) : blex :=
  if bl_closed st then st
  else
    let qcontent := negb (bl_quotes st =? 0) && negb (b =? 34) in
    let reached := if qcontent then true else bl_reached st in
    let lead := if qcontent then (if bl_reached st then bl_lead st else bl_ws st) else bl_lead st in
    let ws := if qcontent then 0 else bl_ws st in
    if is_blockws b then
      {| bl_escaped := false; bl_quotes := 0; bl_ws := ws + 1; bl_reached := reached; bl_lead := lead; bl_closed := false |}
    else if b =? 34 then
      if bl_escaped st then
        {| bl_escaped := false; bl_quotes := bl_quotes st; bl_ws := ws; bl_reached := reached; bl_lead := lead; bl_closed := false |}
      else
        {| bl_escaped := false; bl_quotes := bl_quotes st + 1; bl_ws := ws; bl_reached := reached; bl_lead := lead;
           bl_closed := (bl_quotes st + 1 =? 3) |}
    else if b =? 92 then
      {| bl_escaped := negb (bl_escaped st); bl_quotes := 0; bl_ws := 0; bl_reached := true;
         bl_lead := if reached then lead else ws; bl_closed := false |}
    else
      {| bl_escaped := false; bl_quotes := 0; bl_ws := 0; bl_reached := true;
         bl_lead := if reached then lead else ws; bl_closed := false |}.

Definition blex_run (raw : bytes) : blex := fold_left blex_step raw blex0.

(* the Go lexer ends the token exactly at the closing delimiter that follows [raw]: no byte 0
   (runes.EOF), no premature third quote, and the closing quotes are not swallowed by a backslash *)
Definition go_block_lexable (raw : bytes) : bool :=
  let st := blex_run raw in
  negb (bl_closed st) && negb (bl_escaped st) && (bl_quotes st =? 0) && forallb (fun b => negb (b =? 0)) raw.

(* Literal.Start / Literal.End relative to the first byte after the opening delimiter *)
Definition block_start (raw : bytes) : nat := N.to_nat (bl_lead (blex_run raw)).
Definition block_end (raw : bytes) : nat := (length raw - N.to_nat (bl_ws (blex_run raw)))%nat.

(* BlockStringValueContentRawBytes: scan backwards from Start-1 for a quote, forwards from End *)
Fixpoint last_quote_before (s : bytes) (i limit : nat) (found : nat) : nat :=
  match s with
  | [] => found
  | b :: r => if Nat.ltb i limit then last_quote_before r (S i) limit (if b =? 34 then S i else found) else found
  end.
Fixpoint first_quote_from (s : bytes) (i from : nat) : nat :=
  match s with
  | [] => i
  | b :: r => if Nat.leb from i && (b =? 34) then i else first_quote_from r (S i) from
  end.
Definition block_rescan (raw : bytes) : bytes :=
  let bs := last_quote_before raw 0 (block_start raw) 0 in
  let be := first_quote_from raw 0 (block_end raw) in
  firstn (be - bs) (skipn bs raw).

(* ------------------------------------------------------------------ helpers.go *)
Fixpoint split_lines (s : bytes) (cur_rev : bytes) : list bytes :=
  match s with
  | [] => [rev cur_rev]
  | b :: r =>
    if b =? 10 then rev cur_rev :: split_lines r []
    else if b =? 13 then
      rev cur_rev :: match r with
                     | c :: r' => if c =? 10 then split_lines r' [] else split_lines r []
                     | [] => split_lines r []
                     end
    else split_lines r (b :: cur_rev)
  end.

Fixpoint leading_ws_count (line : bytes) : nat :=
  match line with
  | b :: r => if (b =? 32) || (b =? 9) then S (leading_ws_count r) else O
  | [] => O
  end.
Definition line_blank (line : bytes) : bool := Nat.eqb (leading_ws_count line) (length line).

(* commonBlockStringIndent over lines[1:]; None is Go's -1 *)
Fixpoint common_indent (tail : list bytes) (common : option nat) : option nat :=
  match tail with
  | [] => common
  | line :: r =>
    let indent := leading_ws_count line in
    if Nat.ltb indent (length line) then
      common_indent r (match common with None => Some indent | Some c => if Nat.ltb indent c then Some indent else Some c end)
    else common_indent r common
  end.

Definition remove_indent (lines : list bytes) : list bytes :=
  match lines with
  | [] => []
  | l0 :: tail =>
    match common_indent tail None with
    | None => lines
    | Some c => l0 :: map (fun l => skipn (Nat.min (length l) c) l) tail
    end
  end.

(* first index whose line is not blank, default 0 *)
Fixpoint first_nonblank (lines : list bytes) (i : nat) : option nat :=
  match lines with
  | [] => None
  | l :: r => if line_blank l then first_nonblank r (S i) else Some i
  end.
(* last index whose line is not blank *)
Fixpoint last_nonblank (lines : list bytes) (i : nat) (found : option nat) : option nat :=
  match lines with
  | [] => found
  | l :: r => last_nonblank r (S i) (if line_blank l then found else Some i)
  end.

Fixpoint join_lines (lines : list bytes) : bytes :=
  match lines with
  | [] => []
  | [l] => l
  | l :: r => l ++ 10 :: join_lines r
  end.

Definition block_lines_value (raw' : bytes) : bytes :=
  let lines := remove_indent (split_lines raw' []) in
  match first_nonblank lines 0 with
  | None => []                       (* firstLine == -1: only white space, every line is removed *)
  | Some first =>
    let last := match last_nonblank lines 0 None with Some i => i | None => Nat.pred (length lines) end in
    join_lines (firstn (S last - first) (skipn first lines))
  end.

(* bytes.ReplaceAll(raw, BACKSLASH-TRIPLEQUOTE, TRIPLEQUOTE): leftmost non-overlapping occurrences;
   [skip] = bytes of the current occurrence still to be copied *)
Definition starts_bs_triple (s : bytes) : bool :=
  match s with
  | a :: b :: c :: d :: _ => (a =? 92) && (b =? 34) && (c =? 34) && (d =? 34)
  | _ => false
  end.
Fixpoint replace_esc_triple (skip : nat) (s : bytes) : bytes :=
  match s with
  | [] => []
  | b :: r =>
    match skip with
    | S k => b :: replace_esc_triple k r
    | O => if starts_bs_triple s then replace_esc_triple 3 r else b :: replace_esc_triple O r
    end
  end.

(* BlockStringValueContentBytes *)
Definition block_string_value (raw : bytes) : bytes :=
  block_lines_value (replace_esc_triple O (block_rescan raw)).

(* ------------------------------------------------------------------ writeJSONValue *)
Definition vars := list (name * bytes).   (* variable name -> raw JSON text of its value (as jsonparser.Get
                                            returns it, strings re-wrapped in quotes) *)
Fixpoint var_get (n : name) (vs : vars) : option bytes :=
  match vs with
  | [] => None
  | (k, v) :: r => if bytes_eqb n k then Some v else var_get n r
  end.

(* quoted string content between c15_fix_raw-control-char and c15_fix_braced-unicode-escape (kept for History.v):
   bytes below 0x20 are written as backslash u 0 0 h h (fmt %04x), the rest verbatim *)
Fixpoint escape_ctl (s : bytes) : bytes :=
  match s with
  | [] => []
  | b :: r =>
    if b <? 32 then [92; 117; 48; 48; hexdigit (b / 16); hexdigit (b mod 16)] ++ escape_ctl r
    else b :: escape_ctl r
  end.

(* quoted string content since c15_fix_braced-unicode-escape: as [escape_ctl], and in addition the loop
   follows the escape sequences -- an escaped backslash is copied as a pair, and the braced escape
   BACKSLASH u { hex+ } (which JSON does not have) is written as BACKSLASH u hhhh, or as a surrogate
   pair of two such escapes above U+FFFF (utf16.EncodeRune: U+FFFD twice beyond U+10FFFF).
   [index_byte] is bytes.IndexByte, [parse_hex32] strconv.ParseUint(s, 16, 32), [hex4_of] fmt %04x. *)
Fixpoint index_byte (c : byte) (s : bytes) : option nat :=
  match s with
  | [] => None
  | b :: r => if b =? c then Some O else match index_byte c r with Some i => Some (S i) | None => None end
  end.
Fixpoint parse_hex_acc (acc : N) (s : bytes) : option N :=
  match s with
  | [] => Some acc
  | b :: r =>
    match hexval b with
    | Some h => if acc * 16 + h <? 4294967296 then parse_hex_acc (acc * 16 + h) r else None
    | None => None
    end
  end.
Definition parse_hex32 (s : bytes) : option N := match s with [] => None | _ => parse_hex_acc 0 s end.
Definition hex4_of (n : N) : bytes :=
  [hexdigit (n / 4096); hexdigit ((n / 256) mod 16); hexdigit ((n / 16) mod 16); hexdigit (n mod 16)].
Definition braced_json (cp : N) : bytes :=
  if 65535 <? cp then
    let r1 := if cp <=? 1114111 then 55296 + (cp - 65536) / 1024 else 65533 in
    let r2 := if cp <=? 1114111 then 56320 + (cp - 65536) mod 1024 else 65533 in
    117 :: hex4_of r1 ++ [92; 117] ++ hex4_of r2
  else 117 :: hex4_of cp.
(* [rest] is what follows a backslash; the JSON text that replaces `u{...}` and the number of bytes of [rest] it stands for *)
Definition braced_escape (rest : bytes) : option (bytes * nat) :=
  match rest with
  | u :: ob :: r2 =>
    if (u =? 117) && (ob =? 123) then
      match index_byte 125 rest with
      | Some e =>
        if Nat.ltb 2 e then
          match parse_hex32 (firstn (e - 2) r2) with
          | Some cp => Some (braced_json cp, S e)
          | None => None
          end
        else None
      | None => None
      end
    else None
  | _ => None
  end.
Fixpoint quoted_json_body (fuel : nat) (s : bytes) : bytes :=
  match fuel with
  | O => []
  | S f =>
    match s with
    | [] => []
    | c :: r =>
      if c <? 32 then [92; 117; 48; 48; hexdigit (c / 16); hexdigit (c mod 16)] ++ quoted_json_body f r
      else if negb (c =? 92) then c :: quoted_json_body f r
      else
        match r with
        | [] => [c]
        | e :: r1 =>
          if e =? 92 then c :: 92 :: quoted_json_body f r1
          else match braced_escape r with
               | Some (out, n) => c :: out ++ quoted_json_body f (skipn n r)
               | None => c :: quoted_json_body f r
               end
        end
    end
  end.
Definition quoted_json (raw : bytes) : bytes := quoted_json_body (length raw) raw.

Definition lit_null : bytes := [110; 117; 108; 108].
Definition lit_true : bytes := [116; 114; 117; 101].
Definition lit_false : bytes := [102; 97; 108; 115; 101].
Definition wrap_quotes (s : bytes) : bytes := 34 :: s ++ [34].

Fixpoint join_comma (parts : list bytes) : bytes :=
  match parts with
  | [] => []
  | [p] => p
  | p :: r => p ++ 44 :: join_comma r
  end.

(* an object field whose value is a variable that does not exist in the variables is skipped *)
Definition field_skipped (vs : vars) (v : value) : bool :=
  match v with
  | VVar n => match var_get n vs with None => true | Some _ => false end
  | _ => false
  end.

Fixpoint value_to_json (vs : vars) (v : value) : bytes :=
  match v with
  | VNull => lit_null
  | VEnum n => wrap_quotes n
  | VInt raw => raw          (* '-' (when Negative) followed by IntValueRaw *)
  | VFloat raw => raw
  | VBool b => if b then lit_true else lit_false
  | VStr raw false => wrap_quotes (quoted_json raw)
  | VStr raw true => json_encode_string (block_string_value raw)
  | VList items =>
    91 :: join_comma ((fix go (l : list value) : list bytes :=
                         match l with [] => [] | x :: r => value_to_json vs x :: go r end) items) ++ [93]
  | VObj fields =>
    123 :: join_comma ((fix go (l : list (name * value)) : list bytes :=
                          match l with
                          | [] => []
                          | (k, x) :: r =>
                            if field_skipped vs x then go r
                            else (wrap_quotes k ++ 58 :: value_to_json vs x) :: go r
                          end) fields) ++ [125]
  | VVar n => match var_get n vs with None => lit_null | Some raw => raw end
  end.

(* ------------------------------------------------------------------ variable extraction (value level) *)
(* variables_extraction.go EnterArgument: an argument that is already a variable is left alone;
   any other value is replaced by a (new or re-used) variable whose JSON text is ValueToJSON. *)
Definition extract_arg (vs : vars) (v : value) : option bytes :=
  match v with
  | VVar _ => None
  | _ => Some (value_to_json vs v)
  end.

(* variables_default_value_extraction.go EnterVariableDefinition: only when the variable is not
   supplied; a list-typed variable whose default is not null and whose text does not start with '['
   is wrapped once per list level. *)
Fixpoint wrap_lists (n : nat) (b : bytes) : bytes :=
  match n with O => b | S k => wrap_lists k (91 :: b ++ [93]) end.
Definition is_null_value (v : value) : bool := match v with VNull => true | _ => false end.
Definition default_extract (vs : vars) (vname : name) (list_wraps : nat) (default : value) : option bytes :=
  match var_get vname vs with
  | Some _ => None
  | None =>
    let b := value_to_json vs default in
    match b with
    | c :: _ =>
      if Nat.ltb 0 list_wraps && negb (is_null_value default) && negb (c =? 91) then Some (wrap_lists list_wraps b) else Some b
    | [] => Some b
    end
  end.

(* ------------------------------------------------------------------ forwarding (value level) *)
(* The upstream body template holds one context-variable segment per upstream variable [u];
   VariablesView().Get resolves it (through RemapVariables) to the client's variable [c].
   renderContextVariable writes `null` and records [u] as undefined when the lookup fails;
   cleanupVariables then deletes every key of body.variables whose value is null and whose name
   is in the undefined list.  [A] is the value domain (JSON trees); [is_null] its null test. *)
Section Forward.
  Variable A : Type.
  Variable a_null : A.
  Variable is_null : A -> bool.

  Fixpoint ctx_get (n : name) (ctx : list (name * A)) : option A :=
    match ctx with
    | [] => None
    | (k, v) :: r => if bytes_eqb n k then Some v else ctx_get n r
    end.

  Definition render_segment (ctx : list (name * A)) (uc : name * name) : (name * A) * bool :=
    match ctx_get (snd uc) ctx with
    | Some v => ((fst uc, v), false)
    | None => ((fst uc, a_null), true)
    end.

  Definition undefined_of (ctx : list (name * A)) (tmpl : list (name * name)) : list name :=
    map fst (filter (fun uc => snd (render_segment ctx uc)) tmpl).

  Definition forward (tmpl : list (name * name)) (ctx : list (name * A)) : list (name * A) :=
    let rendered := map (fun uc => fst (render_segment ctx uc)) tmpl in
    let undefined := undefined_of ctx tmpl in
    filter (fun kv => negb (is_null (snd kv) && mem_bytes (fst kv) undefined)) rendered.
End Forward.
