(* C15 history: the functions the repairs replaced, and what was wrong with them.  Kept so that
   the refutations found on the unrepaired code stay machine-checked:
     c15_fix_raw-control-char            quoted string content was copied verbatim (quotes.WrapBytes)
     c15_fix_block-blank-only            firstLine defaulted to 0 when every line was blank
     c15_fix_block-escaped-triple-quote  the escaped triple quote was never replaced
     c15_fix_default-null-list-wrapped   a null default of a list-typed variable was wrapped *)
From Gv Require Import lib.Bytes lib.Gql C15.Unicode C15.Model C15.Spec C15.Diag.
Open Scope N_scope.

(* writeJSONValue, ValueKindString, before the repairs *)
Definition block_lines_value_v0 (raw' : bytes) : bytes :=
  let lines := remove_indent (split_lines raw' []) in
  let first := match first_nonblank lines 0 with Some i => i | None => O end in
  let last := match last_nonblank lines 0 None with Some i => i | None => Nat.pred (length lines) end in
  join_lines (firstn (S last - first) (skipn first lines)).
Definition block_string_value_v0 (raw : bytes) : bytes := block_lines_value_v0 (block_rescan raw).
Definition string_to_json_v0 (raw : bytes) (block : bool) : bytes :=
  if block then json_encode_string (block_string_value_v0 raw) else wrap_quotes raw.

(* EnterVariableDefinition before the repair *)
Definition default_extract_v0 (vs : vars) (vname : name) (list_wraps : nat) (default : value) : option bytes :=
  match var_get vname vs with
  | Some _ => None
  | None =>
    let b := value_to_json vs default in
    match b with
    | c :: _ => if Nat.ltb 0 list_wraps && negb (c =? 91) then Some (wrap_lists list_wraps b) else Some b
    | [] => Some b
    end
  end.

(* a TAB b, in quotes: a valid GraphQL string whose verbatim copy is not JSON *)
Lemma hist_tab_invalid :
  lit_valid (VStr [97; 9; 98] false) /\ json_denote (string_to_json_v0 [97; 9; 98] false) = JInvalid.
Proof. split; vm_compute; reflexivity. Qed.

Definition differs_v0 (raw : bytes) : Prop :=
  lit_valid (VStr raw true) /\
  exists d, json_denote (string_to_json_v0 raw true) = JOk d /\ dval_eqb d (gql_denote [] (VStr raw true)) = false.

(* a BACKSLASH DQUOTE DQUOTE DQUOTE b *)
Lemma hist_escaped_triple_differs : differs_v0 [97; 92; 34; 34; 34; 98].
Proof. split; [vm_compute; reflexivity|]. eexists. split; vm_compute; reflexivity. Qed.
(* three spaces *)
Lemma hist_blank_differs : differs_v0 [32; 32; 32].
Proof. split; [vm_compute; reflexivity|]. eexists. split; vm_compute; reflexivity. Qed.

Lemma hist_default_null_wrapped :
  exists b, default_extract_v0 [] [118; 48] 1 VNull = Some b
            /\ exists d, json_denote b = JOk d /\ dval_eqb d (default_denote 1 (gql_denote [] VNull)) = false.
Proof. eexists. split; [vm_compute; reflexivity|]. eexists. split; vm_compute; reflexivity. Qed.
