(* C15 history: the functions the repairs replaced, and what was wrong with them.  Kept so that
   the refutations found on the unrepaired code stay machine-checked:
     c15_fix_raw-control-char            quoted string content was copied verbatim (quotes.WrapBytes)
     c15_fix_block-blank-only            firstLine defaulted to 0 when every line was blank
     c15_fix_block-escaped-triple-quote  the escaped triple quote was never replaced
     c15_fix_default-null-list-wrapped   a null default of a list-typed variable was wrapped
     c15_fix_block-quote-next-to-whitespace  readBlockString: a quote did not reset whitespaceCount and neither
                                         a quote nor a backslash set reachedFirstNonWhitespace, so the delimiter
                                         re-scan of BlockStringValueContentRawBytes stopped at a quote of the text
     c15_fix_braced-unicode-escape       a braced escape was copied into the JSON text as it is *)
From Gv Require Import lib.Bytes lib.Gql C15.Unicode C15.Model C15.Spec C15.Diag.
Open Scope N_scope.

(* writeJSONValue, ValueKindString, before the repairs *)
Definition block_lines_value_v0 (raw' : bytes) : bytes :=
  let lines := remove_indent (split_lines raw' []) in
  let first := match first_nonblank lines 0 with Some i => i | None => O end in
  let last := match last_nonblank lines 0 None with Some i => i | None => Nat.pred (length lines) end in
  join_lines (firstn (S last - first) (skipn first lines)).
Definition block_string_value_v0 (raw : bytes) : bytes := block_lines_value_v0 (block_rescan raw).
Definition string_to_json_v0 (raw : bytes) (block : bool) : bytes :=
  if block then json_encode_string (block_string_value_v0 raw) else wrap_quotes raw.

(* EnterVariableDefinition before the repair *)
Definition default_extract_v0 (vs : vars) (vname : name) (list_wraps : nat) (default : value) : option bytes :=
  match var_get vname vs with
  | Some _ => None
  | None =>
    let b := value_to_json vs default in
    match b with
    | c :: _ => if Nat.ltb 0 list_wraps && negb (c =? 91) then Some (wrap_lists list_wraps b) else Some b
    | [] => Some b
    end
  end.

(* lexer.readBlockString and ValueToJSON between those repairs and the last two (version 1) *)
Definition blex_step_v1 (st : blex) (b : byte) : blex :=
  if bl_closed st then st
  else if is_blockws b then
    {| bl_escaped := false; bl_quotes := 0; bl_ws := bl_ws st + 1; bl_reached := bl_reached st; bl_lead := bl_lead st; bl_closed := false |}
  else if b =? 34 then
    if bl_escaped st then
      {| bl_escaped := false; bl_quotes := bl_quotes st; bl_ws := bl_ws st; bl_reached := bl_reached st; bl_lead := bl_lead st; bl_closed := false |}
    else
      {| bl_escaped := false; bl_quotes := bl_quotes st + 1; bl_ws := bl_ws st; bl_reached := bl_reached st; bl_lead := bl_lead st;
         bl_closed := (bl_quotes st + 1 =? 3) |}
  else if b =? 92 then
    {| bl_escaped := negb (bl_escaped st); bl_quotes := 0; bl_ws := 0; bl_reached := bl_reached st; bl_lead := bl_lead st; bl_closed := false |}
  else
    {| bl_escaped := false; bl_quotes := 0; bl_ws := 0; bl_reached := true;
       bl_lead := if bl_reached st then bl_lead st else bl_ws st; bl_closed := false |}.

Definition blex_run_v1 (raw : bytes) : blex := fold_left blex_step_v1 raw blex0.
Definition block_rescan_v1 (raw : bytes) : bytes :=
  let bs := last_quote_before raw 0 (N.to_nat (bl_lead (blex_run_v1 raw))) 0 in
  let be := first_quote_from raw 0 (length raw - N.to_nat (bl_ws (blex_run_v1 raw)))%nat in
  firstn (be - bs) (skipn bs raw).
Definition block_string_value_v1 (raw : bytes) : bytes :=
  block_lines_value (replace_esc_triple O (block_rescan_v1 raw)).
Definition string_to_json_v1 (raw : bytes) (block : bool) : bytes :=
  if block then json_encode_string (block_string_value_v1 raw) else wrap_quotes (escape_ctl raw).

(* a TAB b, in quotes: a valid GraphQL string whose verbatim copy is not JSON *)
Lemma hist_tab_invalid :
  lit_valid (VStr [97; 9; 98] false) /\ json_denote (string_to_json_v0 [97; 9; 98] false) = JInvalid.
Proof. split; vm_compute; reflexivity. Qed.

Definition differs_v0 (raw : bytes) : Prop :=
  lit_valid (VStr raw true) /\
  exists d, json_denote (string_to_json_v0 raw true) = JOk d /\ dval_eqb d (gql_denote [] (VStr raw true)) = false.

(* a BACKSLASH DQUOTE DQUOTE DQUOTE b *)
Lemma hist_escaped_triple_differs : differs_v0 [97; 92; 34; 34; 34; 98].
Proof. split; [vm_compute; reflexivity|]. eexists. split; vm_compute; reflexivity. Qed.
(* three spaces *)
Lemma hist_blank_differs : differs_v0 [32; 32; 32].
Proof. split; [vm_compute; reflexivity|]. eexists. split; vm_compute; reflexivity. Qed.

Lemma hist_default_null_wrapped :
  exists b, default_extract_v0 [] [118; 48] 1 VNull = Some b
            /\ exists d, json_denote b = JOk d /\ dval_eqb d (default_denote 1 (gql_denote [] VNull)) = false.
Proof. eexists. split; [vm_compute; reflexivity|]. eexists. split; vm_compute; reflexivity. Qed.

(* BACKSLASH u { 4 1 }, in quotes: a valid GraphQL string (the letter A) whose copy is not JSON *)
Lemma hist_brace_invalid :
  lit_valid (VStr [92; 117; 123; 52; 49; 125] false) /\ json_denote (string_to_json_v1 [92; 117; 123; 52; 49; 125] false) = JInvalid.
Proof. split; vm_compute; reflexivity. Qed.

(* SPACE DQUOTE SPACE SPACE a, as a block string: the quote next to the trimmed white space was taken for the delimiter *)
Lemma hist_quote_ws_differs :
  lit_valid (VStr [32; 34; 32; 32; 97] true) /\
  exists d, json_denote (string_to_json_v1 [32; 34; 32; 32; 97] true) = JOk d
            /\ dval_eqb d (gql_denote [] (VStr [32; 34; 32; 32; 97] true)) = false.
Proof. split; [vm_compute; reflexivity|]. eexists. split; vm_compute; reflexivity. Qed.
Example hist_quote_ws_values :
  block_string_value_v1 [32; 34; 32; 32; 97] = [32; 32; 97] /\ block_string_value [32; 34; 32; 32; 97] = [32; 34; 32; 32; 97]
  /\ spec_block_value [32; 34; 32; 32; 97] = [32; 34; 32; 32; 97].
Proof. repeat split; vm_compute; reflexivity. Qed.
