(* C15 proofs, part 1: a quoted GraphQL string whose content is written between JSON quotation
   marks by writeJSONValue -- raw control characters escaped (c15_fix_raw-control-char), braced
   unicode escapes rewritten as one or two four-digit escapes (c15_fix_braced-unicode-escape), the
   rest copied -- is read back by the RFC 8259 string grammar as the value the GraphQL grammar gives
   it.  No hypothesis on the string is left. *)
From Gv Require Import lib.Bytes lib.Gql C15.Unicode C15.Model C15.Spec C15.Diag C15.ProofsEnc.
From Coq Require Import Lia ZifyN ZifyNat ZifyBool ZArith.
Open Scope N_scope.

Ltac Zify.zify_post_hook ::= Z.div_mod_to_equations.

Lemma hexval_hexdigit : forall k, k < 16 -> hexval (hexdigit k) = Some k.
Proof.
  intros k Hk. unfold hexdigit, hexval, is_digit.
  destruct (k <? 10) eqn:E.
  - assert (E1 : (48 <=? 48 + k) && (48 + k <=? 57) = true) by lia. rewrite E1. f_equal. lia.
  - assert (E1 : (48 <=? 87 + k) && (87 + k <=? 57) = false) by lia. rewrite E1.
    assert (E2 : (97 <=? 87 + k) && (87 + k <=? 102) = true) by lia. rewrite E2. f_equal. lia.
Qed.

Lemma hex4v_digits : forall n, n < 65536 ->
  hex4v (hexdigit (n / 4096)) (hexdigit ((n / 256) mod 16)) (hexdigit ((n / 16) mod 16)) (hexdigit (n mod 16)) = Some n.
Proof.
  intros n Hn. unfold hex4v. rewrite !hexval_hexdigit by lia. f_equal. lia.
Qed.

Lemma json_braced : forall cp X, cp <= 1114111 -> is_surrogate cp = false ->
  json_str true (92 :: braced_json cp ++ X) = opt_cons (utf8_encode cp) (json_str true X).
Proof.
  intros cp X Hmax Hs. unfold braced_json.
  destruct (65535 <? cp) eqn:Ebig.
  - (* a surrogate pair *)
    assert (E1 : (cp <=? 1114111) = true) by lia. rewrite E1.
    set (hi := 55296 + (cp - 65536) / 1024). set (lo := 56320 + (cp - 65536) mod 1024).
    assert (Hhi : hi < 65536 /\ is_high_surrogate hi = true) by (unfold hi, is_high_surrogate; lia).
    assert (Hlo : lo < 65536 /\ is_low_surrogate lo = true) by (unfold lo, is_low_surrogate; lia).
    assert (Hc : combine_surrogates hi lo = cp) by (unfold combine_surrogates, hi, lo; lia).
    unfold hex4_of. cbn [app json_str N.eqb Pos.eqb andb].
    rewrite (hex4v_digits hi (proj1 Hhi)). rewrite (proj2 Hhi).
    rewrite (hex4v_digits lo (proj1 Hlo)). rewrite (proj2 Hlo). rewrite Hc. reflexivity.
  - unfold hex4_of. cbn [app json_str N.eqb Pos.eqb].
    rewrite (hex4v_digits cp ltac:(lia)).
    assert (Eh : is_high_surrogate cp = false) by (unfold is_surrogate, is_high_surrogate in *; lia).
    rewrite Eh. reflexivity.
Qed.

Lemma hex_not_125 : forall b h, hexval b = Some h -> (b =? 125) = false.
Proof.
  intros b h. unfold hexval, is_digit.
  destruct ((48 <=? b) && (b <=? 57)) eqn:E1; [intros _; lia|].
  destruct ((97 <=? b) && (b <=? 102)) eqn:E2; [intros _; lia|].
  destruct ((65 <=? b) && (b <=? 70)) eqn:E3; [intros _; lia|discriminate].
Qed.

Lemma opt_app_some : forall pre o out, opt_app pre o = Some out -> exists t, o = Some t /\ out = pre ++ t.
Proof. intros pre [t|] out; simpl; intros H; inversion H; eauto. Qed.

Lemma gbrace_inv : forall s acc n out,
  gql_str (GBrace acc n) s = Some out ->
  exists hexs tail cp t, s = hexs ++ 125 :: tail /\ parse_hex_acc acc hexs = Some cp /\
     index_byte 125 s = Some (length hexs) /\ (0 < n + length hexs)%nat /\
     cp <= 1114111 /\ is_surrogate cp = false /\ gql_str GPlain tail = Some t /\ out = utf8_encode cp ++ t.
Proof.
  induction s as [|b r IH]; intros acc n out H; [discriminate H|].
  cbn [gql_str] in H.
  destruct (b =? 125) eqn:E125.
  - destruct (Nat.ltb 0 n && (acc <=? 1114111) && negb (is_surrogate acc)) eqn:Ec; [|discriminate H].
    apply opt_app_some in H. destruct H as (t & Ht & ->).
    exists [], r, acc, t. assert (b = 125) by lia. subst b.
    repeat split; try reflexivity; try lia; try assumption.
    destruct (is_surrogate acc); [simpl in Ec; lia|reflexivity].
  - destruct (hexval b) as [h|] eqn:Eh; [|discriminate H].
    destruct (acc * 16 + h <=? 1114111) eqn:El; [|discriminate H].
    apply IH in H. destruct H as (hexs & tail & cp & t & -> & Hp & Hi & Hn & Hcp & Hsur & Ht & ->).
    exists (b :: hexs), tail, cp, t. repeat split; try assumption.
    + cbn [parse_hex_acc]. rewrite Eh. assert (E : (acc * 16 + h <? 4294967296) = true) by lia. rewrite E. exact Hp.
    + cbn [index_byte app]. rewrite E125. cbn [app] in Hi. rewrite Hi. reflexivity.
    + simpl. lia.
Qed.

(* the braced escape as the model reads it *)
Lemma braced_escape_valid : forall hexs tail cp, hexs <> [] -> parse_hex_acc 0 hexs = Some cp ->
  index_byte 125 (hexs ++ 125 :: tail) = Some (length hexs) ->
  braced_escape (117 :: 123 :: hexs ++ 125 :: tail) = Some (braced_json cp, S (S (S (length hexs)))) /\
  skipn (S (S (S (length hexs)))) (117 :: 123 :: hexs ++ 125 :: tail) = tail.
Proof.
  intros hexs tail cp Hne Hp Hi. split.
  - unfold braced_escape. cbn [N.eqb Pos.eqb andb index_byte]. rewrite Hi.
    assert (E : Nat.ltb 2 (S (S (length hexs))) = true) by (destruct hexs; [congruence|simpl; reflexivity]).
    rewrite E. replace (S (S (length hexs)) - 2)%nat with (length hexs) by lia.
    rewrite firstn_app. rewrite Nat.sub_diag. cbn [firstn]. rewrite app_nil_r. rewrite firstn_all.
    unfold parse_hex32. destruct hexs; [congruence|]. rewrite Hp. reflexivity.
  - cbn [skipn]. clear. induction hexs as [|h hexs IH]; [reflexivity|exact IH].
Qed.

(* ---- the fuel of quoted_json_body is irrelevant once it covers the text ---- *)
Lemma qjb_fuel : forall f g s, (length s <= f)%nat -> (length s <= g)%nat ->
  quoted_json_body f s = quoted_json_body g s.
Proof.
  induction f as [|f IH]; intros g s Hf Hg.
  { destruct s; [|simpl in Hf; lia]. destruct g; reflexivity. }
  destruct s as [|c r]; [destruct g; reflexivity|].
  destruct g as [|g]; [simpl in Hg; lia|].
  simpl in Hf, Hg. cbn [quoted_json_body].
  destruct (c <? 32). { f_equal. apply IH; lia. }
  destruct (negb (c =? 92)). { f_equal. apply IH; lia. }
  destruct r as [|e r1]; [reflexivity|]. simpl in Hf, Hg.
  destruct (e =? 92). { do 2 f_equal. apply IH; lia. }
  destruct (braced_escape (e :: r1)) as [[out n]|].
  - do 2 f_equal. apply IH; rewrite skipn_length; cbn [length]; lia.
  - f_equal. apply IH; simpl; lia.
Qed.

Lemma qjb_S : forall f c r, quoted_json_body (S f) (c :: r) =
  if c <? 32 then [92; 117; 48; 48; hexdigit (c / 16); hexdigit (c mod 16)] ++ quoted_json_body f r
  else if negb (c =? 92) then c :: quoted_json_body f r
  else match r with
       | [] => [c]
       | e :: r1 =>
         if e =? 92 then c :: 92 :: quoted_json_body f r1
         else match braced_escape r with
              | Some (out, n) => c :: out ++ quoted_json_body f (skipn n r)
              | None => c :: quoted_json_body f r
              end
       end.
Proof. reflexivity. Qed.

Lemma qj_ctl : forall c r, (c <? 32) = true ->
  quoted_json (c :: r) = [92; 117; 48; 48; hexdigit (c / 16); hexdigit (c mod 16)] ++ quoted_json r.
Proof. intros c r H. unfold quoted_json. cbn [length]. rewrite qjb_S, H. reflexivity. Qed.
Lemma qj_plain : forall c r, (c <? 32) = false -> (c =? 92) = false -> quoted_json (c :: r) = c :: quoted_json r.
Proof. intros c r H1 H2. unfold quoted_json. cbn [length]. rewrite qjb_S, H1, H2. reflexivity. Qed.
Lemma qj_bsbs : forall r1, quoted_json (92 :: 92 :: r1) = 92 :: 92 :: quoted_json r1.
Proof.
  intros r1. unfold quoted_json. cbn [length]. rewrite qjb_S. cbn [N.ltb N.compare Pos.compare Pos.compare_cont N.eqb Pos.eqb negb].
  do 2 f_equal. apply qjb_fuel; lia.
Qed.
Lemma qj_bs_other : forall e r1, (e =? 92) = false -> braced_escape (e :: r1) = None ->
  quoted_json (92 :: e :: r1) = 92 :: quoted_json (e :: r1).
Proof.
  intros e r1 He Hb. unfold quoted_json. cbn [length]. rewrite qjb_S. cbn [N.ltb N.compare Pos.compare Pos.compare_cont N.eqb Pos.eqb negb].
  rewrite He, Hb. reflexivity.
Qed.
Lemma qj_bs_braced : forall e r1 out n, (e =? 92) = false -> braced_escape (e :: r1) = Some (out, n) ->
  quoted_json (92 :: e :: r1) = 92 :: out ++ quoted_json (skipn n (e :: r1)).
Proof.
  intros e r1 out n He Hb. unfold quoted_json. cbn [length]. rewrite qjb_S. cbn [N.ltb N.compare Pos.compare Pos.compare_cont N.eqb Pos.eqb negb].
  rewrite He, Hb. do 2 f_equal. apply qjb_fuel; rewrite ?skipn_length; cbn [length]; unfold bytes, byte in *; lia.
Qed.
Lemma braced_none_e : forall e r1, (e =? 117) = false -> braced_escape (e :: r1) = None.
Proof. intros e r1 H. unfold braced_escape. destruct r1; [reflexivity|]. rewrite H. reflexivity. Qed.
Lemma braced_none_a : forall a r, (a =? 123) = false -> braced_escape (117 :: a :: r) = None.
Proof. intros a r H. unfold braced_escape. rewrite H. rewrite Bool.andb_false_r. reflexivity. Qed.

Lemma hexval_not_special : forall b h, hexval b = Some h ->
  (b =? 92) = false /\ (b =? 123) = false /\ (b =? 34) = false /\ (32 <=? b) = true.
Proof.
  intros b h. unfold hexval, is_digit.
  destruct ((48 <=? b) && (b <=? 57)) eqn:E1.
  { intros _. repeat split; lia. }
  destruct ((97 <=? b) && (b <=? 102)) eqn:E2.
  { intros _. repeat split; lia. }
  destruct ((65 <=? b) && (b <=? 70)) eqn:E3.
  { intros _. repeat split; lia. }
  discriminate.
Qed.
Lemma hex4v_inv : forall a b c d cp, hex4v a b c d = Some cp ->
  exists x y z w, hexval a = Some x /\ hexval b = Some y /\ hexval c = Some z /\ hexval d = Some w.
Proof.
  intros a b c d cp. unfold hex4v.
  destruct (hexval a), (hexval b), (hexval c), (hexval d); try discriminate.
  intros _. eauto 10.
Qed.
Lemma qj_hex : forall b h r, hexval b = Some h -> quoted_json (b :: r) = b :: quoted_json r.
Proof. intros b h r H. destruct (hexval_not_special _ _ H) as (E1 & _ & _ & E4). apply qj_plain; lia. Qed.
Lemma escaped_char_same : forall e, json_escaped_char e = gql_escaped_char e.
Proof. reflexivity. Qed.
Lemma escaped_char_hi : forall e c, gql_escaped_char e = Some c -> (e <? 32) = false.
Proof.
  intros e c. unfold gql_escaped_char.
  repeat match goal with |- context [if ?x =? ?k then _ else _] => destruct (x =? k) eqn:?; [intros _; lia|] end.
  discriminate.
Qed.

Ltac rw H := let HH := fresh "HH" in pose proof H as HH; unfold bytes, byte in HH |- *; rewrite HH; clear HH.

Ltac useIH IHn r t rest Hg :=
  let E := fresh "E" in
  assert (E : json_str true (quoted_json r ++ 34 :: rest) = Some (t, rest))
    by (apply IHn; [unfold bytes, byte in *; simpl in *; try rewrite app_length in *; simpl in *; lia | exact Hg]);
  unfold bytes, byte in *; rewrite E; reflexivity.

Theorem quoted_string_agrees :
  forall n raw out rest,
    (length raw <= n)%nat ->
    gql_str GPlain raw = Some out ->
    json_str true (quoted_json raw ++ 34 :: rest) = Some (out, rest).
Proof.
  induction n; intros raw out rest Hlen Hg.
  { destruct raw; [|simpl in Hlen; lia]. simpl in Hg. inversion Hg. reflexivity. }
  destruct raw as [|b r].
  { simpl in Hg. inversion Hg. reflexivity. }
  simpl in Hlen.
  cbn [gql_str] in Hg.
  destruct (b =? 92) eqn:Eb.
  - (* an escape *)
    assert (b = 92) by lia. subst b.
    destruct r as [|e r1]; [discriminate|].
    simpl in Hlen.
    destruct (e =? 117) eqn:Ee.
    + assert (e = 117) by lia. subst e.
      destruct r1 as [|a r2]; [discriminate|].
      destruct (a =? 123) eqn:Ea.
      { (* the braced form *)
        assert (a = 123) by lia. subst a.
        apply gbrace_inv in Hg.
        destruct Hg as (hexs & tail & cp & t & -> & Hp & Hi & Hn & Hcp & Hsur & Ht & ->).
        assert (Hne : hexs <> []) by (destruct hexs; [simpl in Hn; lia|discriminate]).
        destruct (braced_escape_valid hexs tail cp Hne Hp Hi) as [Hbe Hsk].
        rw (qj_bs_braced 117 (123 :: hexs ++ 125 :: tail) _ _ eq_refl Hbe). rw Hsk.
        cbn [app]. rewrite <- app_assoc. rewrite json_braced by assumption.
        useIH IHn tail t rest Ht. }
      destruct r2 as [|b2 [|c2 [|d2 r3]]]; try discriminate.
      destruct (hex4v a b2 c2 d2) as [cp|] eqn:Eh; [|discriminate].
      destruct (hex4v_inv _ _ _ _ _ Eh) as (x & y & z & w & Ha & Hb2 & Hc2 & Hd2).
      simpl in Hlen.
      rw (qj_bs_other 117 _ eq_refl (braced_none_a a (b2 :: c2 :: d2 :: r3) Ea)).
      rw (fun r => qj_plain 117 r eq_refl eq_refl).
      rw (fun r => qj_hex _ _ r Ha). rw (fun r => qj_hex _ _ r Hb2). rw (fun r => qj_hex _ _ r Hc2). rw (fun r => qj_hex _ _ r Hd2).
      cbn [app json_str N.eqb Pos.eqb]. rewrite Eh.
      destruct (is_high_surrogate cp) eqn:Ehs.
      * destruct r3 as [|x1 [|x2 [|a' [|b' [|c' [|d' r4]]]]]]; try discriminate.
        destruct ((x1 =? 92) && (x2 =? 117)) eqn:Ex; [|discriminate].
        destruct (hex4v a' b' c' d') as [lo|] eqn:Eh2; [|discriminate].
        destruct (is_low_surrogate lo) eqn:Els; [|discriminate].
        apply opt_app_some in Hg. destruct Hg as (t & Hg & ->).
        destruct (hex4v_inv _ _ _ _ _ Eh2) as (x' & y' & z' & w' & Ha' & Hb' & Hc' & Hd').
        assert (x1 = 92 /\ x2 = 117) as [-> ->] by lia.
        destruct (hexval_not_special _ _ Ha') as (_ & E123 & _).
        rw (qj_bs_other 117 _ eq_refl (braced_none_a a' (b' :: c' :: d' :: r4) E123)).
        rw (fun r => qj_plain 117 r eq_refl eq_refl).
        rw (fun r => qj_hex _ _ r Ha'). rw (fun r => qj_hex _ _ r Hb'). rw (fun r => qj_hex _ _ r Hc'). rw (fun r => qj_hex _ _ r Hd').
        cbn [app N.eqb Pos.eqb andb]. rewrite Eh2, Els.
        useIH IHn r4 t rest Hg.
      * destruct (is_low_surrogate cp) eqn:Els; [discriminate|].
        apply opt_app_some in Hg. destruct Hg as (t & Hg & ->).
        useIH IHn r3 t rest Hg.
    + destruct (gql_escaped_char e) as [c|] eqn:Eg; [|discriminate].
      apply opt_app_some in Hg. destruct Hg as (t & Hg & ->).
      destruct (e =? 92) eqn:E92.
      * assert (e = 92) by lia. subst e. rw qj_bsbs.
        cbn [app json_str N.eqb Pos.eqb]. rewrite escaped_char_same, Eg.
        useIH IHn r1 t rest Hg.
      * rw (qj_bs_other e r1 E92 (braced_none_e e r1 Ee)).
        rw (qj_plain e r1 (escaped_char_hi _ _ Eg) E92).
        cbn [app json_str N.eqb Pos.eqb]. rewrite Ee. rewrite escaped_char_same, Eg.
        useIH IHn r1 t rest Hg.
  - (* a plain character *)
    destruct ((b =? 34) || (b =? 10) || (b =? 13)) eqn:Eq; [discriminate|].
    apply opt_app_some in Hg. destruct Hg as (t & Hg & ->).
    destruct (b <? 32) eqn:Hb32.
    + (* a raw control character, written as an escape *)
      rw (qj_ctl b r Hb32). rewrite <- app_assoc.
      rewrite ctl_escape_read by lia.
      useIH IHn r t rest Hg.
    + rw (qj_plain b r Hb32 Eb).
      cbn [app json_str]. rewrite Eb.
      assert (E34 : (b =? 34) = false) by lia. rewrite E34.
      rewrite Hb32. cbn [andb].
      useIH IHn r t rest Hg.
Qed.

Theorem quoted_string_preserved_proof : forall raw out rest,
  gql_str GPlain raw = Some out -> json_str true (quoted_json raw ++ 34 :: rest) = Some (out, rest).
Proof. intros raw out rest H. apply (quoted_string_agrees (length raw)); [apply le_n|exact H]. Qed.

(* names and other plain ASCII runs *)
Definition plain_byte (b : byte) : bool := (32 <=? b) && negb (b =? 34) && negb (b =? 92).
Lemma json_str_plain : forall s rest, forallb plain_byte s = true -> json_str true (s ++ 34 :: rest) = Some (s, rest).
Proof.
  induction s as [|b s IH]; intros rest H.
  - reflexivity.
  - simpl in H. apply Bool.andb_true_iff in H. destruct H as [Hb Hs].
    unfold plain_byte in Hb.
    cbn [app json_str].
    assert (E34 : (b =? 34) = false) by lia. assert (E92 : (b =? 92) = false) by lia.
    assert (E32 : (b <? 32) = false) by lia.
    rewrite E34, E92, E32. cbn [andb]. rewrite IH by exact Hs. reflexivity.
Qed.

Lemma name_plain : forall n, name_ok n = true -> forallb plain_byte n = true.
Proof.
  intros n H. destruct n as [|b r]; [reflexivity|].
  unfold name_ok in H. apply Bool.andb_true_iff in H. destruct H as [H1 H2].
  assert (P : forall c, is_name_cont c = true -> plain_byte c = true).
  { intros c Hc. unfold is_name_cont, is_name_start, is_upper, is_lower, is_digit in Hc. unfold plain_byte. lia. }
  simpl. rewrite P.
  - simpl. rewrite forallb_forall in *. intros x Hx. apply P. apply H2. exact Hx.
  - unfold is_name_cont. rewrite H1. reflexivity.
Qed.
