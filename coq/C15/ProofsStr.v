(* C15 proofs, part 1: a quoted GraphQL string whose content is copied between JSON quotation
   marks with its raw control characters escaped (c15_fix_raw-control-char) is read back by the
   RFC 8259 string grammar as the value the GraphQL grammar gives it -- provided it has no braced
   escape. *)
From Gv Require Import lib.Bytes lib.Gql C15.Unicode C15.Model C15.Spec C15.Diag C15.ProofsEnc.
From Coq Require Import Lia ZifyN ZifyNat ZifyBool ZArith.
Open Scope N_scope.

Lemma hexval_not_special : forall b h, hexval b = Some h ->
  (b =? 92) = false /\ (b =? 123) = false /\ (b =? 34) = false /\ (32 <=? b) = true.
Proof.
  intros b h. unfold hexval, is_digit.
  destruct ((48 <=? b) && (b <=? 57)) eqn:E1.
  { intros _. repeat split; lia. }
  destruct ((97 <=? b) && (b <=? 102)) eqn:E2.
  { intros _. repeat split; lia. }
  destruct ((65 <=? b) && (b <=? 70)) eqn:E3.
  { intros _. repeat split; lia. }
  discriminate.
Qed.

Lemma hex4v_inv : forall a b c d cp, hex4v a b c d = Some cp ->
  exists x y z w, hexval a = Some x /\ hexval b = Some y /\ hexval c = Some z /\ hexval d = Some w.
Proof.
  intros a b c d cp. unfold hex4v.
  destruct (hexval a), (hexval b), (hexval c), (hexval d); try discriminate.
  intros _. eauto 10.
Qed.

Lemma no_brace_u : forall b e a r, (b =? 92) = true -> (e =? 117) = true ->
  no_brace_escape (b :: e :: a :: r) = if a =? 123 then false else no_brace_escape (a :: r).
Proof. intros b e a r E1 E2. cbn [no_brace_escape]. rewrite E1, E2. reflexivity. Qed.
Lemma no_brace_esc : forall b e r, (b =? 92) = true -> (e =? 117) = false ->
  no_brace_escape (b :: e :: r) = no_brace_escape r.
Proof. intros b e r E1 E2. cbn [no_brace_escape]. rewrite E1, E2. reflexivity. Qed.
Lemma no_brace_plain : forall b r, (b =? 92) = false -> no_brace_escape (b :: r) = no_brace_escape r.
Proof. intros b r E1. cbn [no_brace_escape]. rewrite E1. reflexivity. Qed.

Lemma no_brace_skip_hex : forall b h r, hexval b = Some h -> no_brace_escape (b :: r) = no_brace_escape r.
Proof.
  intros b h r H. destruct (hexval_not_special _ _ H) as (E & _). apply no_brace_plain. exact E.
Qed.

Lemma has_raw_ctl_cons : forall b r, has_raw_ctl (b :: r) = false -> (b <? 32) = false /\ has_raw_ctl r = false.
Proof. intros b r. unfold has_raw_ctl. simpl. intros H. apply Bool.orb_false_iff in H. exact H. Qed.

Lemma escaped_char_same : forall e, json_escaped_char e = gql_escaped_char e.
Proof. reflexivity. Qed.

Lemma opt_app_some : forall pre o out, opt_app pre o = Some out -> exists t, o = Some t /\ out = pre ++ t.
Proof. intros pre [t|] out; simpl; intros H; inversion H; eauto. Qed.

(* ctl-freeness of a suffix after dropping k bytes *)
Lemma has_raw_ctl_skipn : forall k s, has_raw_ctl s = false -> has_raw_ctl (skipn k s) = false.
Proof.
  induction k; intros s H; simpl; auto.
  destruct s; auto. apply has_raw_ctl_cons in H. apply IHk. tauto.
Qed.

Lemma escape_ctl_hi : forall b r, (b <? 32) = false -> escape_ctl (b :: r) = b :: escape_ctl r.
Proof. intros b r H. cbn [escape_ctl]. rewrite H. reflexivity. Qed.
Lemma escape_ctl_lo : forall b r, (b <? 32) = true ->
  escape_ctl (b :: r) = [92; 117; 48; 48; hexdigit (b / 16); hexdigit (b mod 16)] ++ escape_ctl r.
Proof. intros b r H. cbn [escape_ctl]. rewrite H. reflexivity. Qed.
Lemma hex_hi : forall b h, hexval b = Some h -> (b <? 32) = false.
Proof. intros b h H. destruct (hexval_not_special _ _ H) as (_ & _ & _ & E). lia. Qed.
Lemma escaped_char_hi : forall e c, gql_escaped_char e = Some c -> (e <? 32) = false.
Proof.
  intros e c. unfold gql_escaped_char.
  repeat match goal with |- context [if ?x =? ?k then _ else _] => destruct (x =? k) eqn:?; [intros _; lia|] end.
  discriminate.
Qed.

Theorem quoted_string_agrees :
  forall n raw out rest,
    (length raw <= n)%nat ->
    gql_str GPlain raw = Some out ->
    no_brace_escape raw = true ->
    json_str true (escape_ctl raw ++ 34 :: rest) = Some (out, rest).
Proof.
  induction n; intros raw out rest Hlen Hg Hb.
  { destruct raw; [|simpl in Hlen; lia]. simpl in Hg. inversion Hg. reflexivity. }
  destruct raw as [|b r].
  { simpl in Hg. inversion Hg. reflexivity. }
  simpl in Hlen.
  cbn [gql_str] in Hg.
  destruct (b =? 92) eqn:Eb.
  - (* an escape *)
    destruct r as [|e r1]; [discriminate|].
    simpl in Hlen.
    rewrite escape_ctl_hi by lia.
    destruct (e =? 117) eqn:Ee.
    + rewrite (escape_ctl_hi e) by lia.
      destruct r1 as [|a r2]; [discriminate|].
      destruct (a =? 123) eqn:Ea.
      { rewrite (no_brace_u _ _ _ _ Eb Ee), Ea in Hb. discriminate. }
      destruct r2 as [|b2 [|c2 [|d2 r3]]]; try discriminate.
      destruct (hex4v a b2 c2 d2) as [cp|] eqn:Eh; [|discriminate].
      destruct (hex4v_inv _ _ _ _ _ Eh) as (x & y & z & w & Ha & Hb2 & Hc2 & Hd2).
      assert (Hb3 : no_brace_escape r3 = true).
      { rewrite (no_brace_u _ _ _ _ Eb Ee), Ea in Hb.
        rewrite (no_brace_skip_hex _ _ _ Ha), (no_brace_skip_hex _ _ _ Hb2), (no_brace_skip_hex _ _ _ Hc2), (no_brace_skip_hex _ _ _ Hd2) in Hb.
        exact Hb. }
      simpl in Hlen.
      rewrite (escape_ctl_hi a), (escape_ctl_hi b2), (escape_ctl_hi c2), (escape_ctl_hi d2) by (eapply hex_hi; eassumption).
      cbn [app json_str]. rewrite Eb.
      assert (E34 : (b =? 34) = false) by lia. rewrite E34.
      rewrite Ee. rewrite Eh. cbn [negb].
      destruct (is_high_surrogate cp) eqn:Ehs.
      * destruct r3 as [|x1 [|x2 [|a' [|b' [|c' [|d' r4]]]]]]; try discriminate.
        destruct ((x1 =? 92) && (x2 =? 117)) eqn:Ex; [|discriminate].
        destruct (hex4v a' b' c' d') as [lo|] eqn:Eh2; [|discriminate].
        destruct (is_low_surrogate lo) eqn:Els; [|discriminate].
        apply opt_app_some in Hg. destruct Hg as (t & Hg & ->).
        destruct (hex4v_inv _ _ _ _ _ Eh2) as (x' & y' & z' & w' & Ha' & Hb' & Hc' & Hd').
        assert (Hb4 : no_brace_escape r4 = true).
        { apply Bool.andb_true_iff in Ex. destruct Ex as [Ex1 Ex2].
          destruct (hexval_not_special _ _ Ha') as (_ & E123 & _).
          rewrite (no_brace_u _ _ _ _ Ex1 Ex2), E123 in Hb3.
          rewrite (no_brace_skip_hex _ _ _ Ha'), (no_brace_skip_hex _ _ _ Hb'), (no_brace_skip_hex _ _ _ Hc'), (no_brace_skip_hex _ _ _ Hd') in Hb3.
          exact Hb3. }
        rewrite (escape_ctl_hi x1), (escape_ctl_hi x2) by lia.
        rewrite (escape_ctl_hi a'), (escape_ctl_hi b'), (escape_ctl_hi c'), (escape_ctl_hi d') by (eapply hex_hi; eassumption).
        cbn [app]. rewrite Ex, Eh2, Els.
        rewrite (IHn r4 t rest); [reflexivity| simpl in Hlen; lia | exact Hg | exact Hb4].
      * destruct (is_low_surrogate cp) eqn:Els; [discriminate|].
        apply opt_app_some in Hg. destruct Hg as (t & Hg & ->).
        rewrite (IHn r3 t rest); [reflexivity| lia | exact Hg | exact Hb3].
    + destruct (gql_escaped_char e) as [c|] eqn:Eg; [|discriminate].
      apply opt_app_some in Hg. destruct Hg as (t & Hg & ->).
      assert (Hb1 : no_brace_escape r1 = true).
      { rewrite (no_brace_esc _ _ _ Eb Ee) in Hb. exact Hb. }
      rewrite (escape_ctl_hi e) by (eapply escaped_char_hi; eassumption).
      cbn [app json_str]. rewrite Eb.
      assert (E34 : (b =? 34) = false) by lia. rewrite E34.
      rewrite Ee. rewrite escaped_char_same, Eg.
      rewrite (IHn r1 t rest); [reflexivity| lia | exact Hg | exact Hb1].
  - (* a plain character *)
    destruct ((b =? 34) || (b =? 10) || (b =? 13)) eqn:Eq; [discriminate|].
    apply opt_app_some in Hg. destruct Hg as (t & Hg & ->).
    assert (Hb1 : no_brace_escape r = true).
    { rewrite (no_brace_plain _ _ Eb) in Hb. exact Hb. }
    destruct (b <? 32) eqn:Hb32.
    + (* a raw control character, written as an escape *)
      rewrite (escape_ctl_lo _ _ Hb32). rewrite <- app_assoc.
      rewrite ctl_escape_read by lia.
      assert (E := IHn r t rest ltac:(lia) Hg Hb1).
      unfold bytes, byte in *. rewrite E. reflexivity.
    + rewrite (escape_ctl_hi _ _ Hb32).
      cbn [app json_str]. rewrite Eb.
      assert (E34 : (b =? 34) = false) by lia. rewrite E34.
      rewrite Hb32. cbn [andb].
      rewrite (IHn r t rest); [reflexivity| lia | exact Hg | exact Hb1].
Qed.

(* names and other plain ASCII runs *)
Definition plain_byte (b : byte) : bool := (32 <=? b) && negb (b =? 34) && negb (b =? 92).
Lemma json_str_plain : forall s rest, forallb plain_byte s = true -> json_str true (s ++ 34 :: rest) = Some (s, rest).
Proof.
  induction s as [|b s IH]; intros rest H.
  - reflexivity.
  - simpl in H. apply Bool.andb_true_iff in H. destruct H as [Hb Hs].
    unfold plain_byte in Hb.
    cbn [app json_str].
    assert (E34 : (b =? 34) = false) by lia. assert (E92 : (b =? 92) = false) by lia.
    assert (E32 : (b <? 32) = false) by lia.
    rewrite E34, E92, E32. cbn [andb]. rewrite IH by exact Hs. reflexivity.
Qed.

Lemma name_plain : forall n, name_ok n = true -> forallb plain_byte n = true.
Proof.
  intros n H. destruct n as [|b r]; [reflexivity|].
  unfold name_ok in H. apply Bool.andb_true_iff in H. destruct H as [H1 H2].
  assert (P : forall c, is_name_cont c = true -> plain_byte c = true).
  { intros c Hc. unfold is_name_cont, is_name_start, is_upper, is_lower, is_digit in Hc. unfold plain_byte. lia. }
  simpl. rewrite P.
  - simpl. rewrite forallb_forall in *. intros x Hx. apply P. apply H2. exact Hx.
  - unfold is_name_cont. rewrite H1. reflexivity.
Qed.
