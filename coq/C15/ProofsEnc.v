(* C15 proofs, part 3: Go's JSON string encoder (escapeHTML off), as modelled, is inverted by the
   RFC 8259 string grammar on every text in which it meets no ill-formed UTF-8 sequence. *)
From Gv Require Import lib.Bytes lib.Gql C15.Unicode C15.Model C15.Spec C15.Diag.
From Coq Require Import Lia ZifyN ZifyNat ZifyBool ZArith.
Open Scope N_scope.

Fixpoint conts (k : nat) (s : bytes) : Prop :=
  match k with
  | O => True
  | S k' => match s with b :: r => is_cont b = true /\ conts k' r | [] => False end
  end.

Lemma seq_len_conts : forall b r n, utf8_seq_len (b :: r) = Some n -> (b <? 128) = false -> conts (Nat.pred n) r.
Proof.
  intros b r n H Hb. unfold utf8_seq_len in H. rewrite Hb in H.
  destruct (in_range 194 223 b) eqn:E2.
  { destruct r as [|b1 r]; [discriminate|]. destruct (is_cont b1) eqn:Ec; [|discriminate].
    inversion H; subst. simpl. auto. }
  destruct (in_range 224 239 b) eqn:E3.
  { destruct r as [|b1 [|b2 r]]; try discriminate.
    match type of H with (if ?c then _ else _) = _ => destruct c eqn:Ec; [|discriminate] end.
    inversion H; subst. simpl. apply Bool.andb_true_iff in Ec. destruct Ec as [E1 Ec2].
    split; [|split; auto].
    revert E1. unfold is_cont, in_range. destruct (b =? 224); destruct (b =? 237); cbv iota; intros; lia. }
  destruct (in_range 240 244 b) eqn:E4; [|discriminate].
  destruct r as [|b1 [|b2 [|b3 r]]]; try discriminate.
  match type of H with (if ?c then _ else _) = _ => destruct c eqn:Ec; [|discriminate] end.
  inversion H; subst. simpl.
  apply Bool.andb_true_iff in Ec. destruct Ec as [Ec Ec3].
  apply Bool.andb_true_iff in Ec. destruct Ec as [E1 Ec2].
  split; [|split; [|split]]; auto.
  revert E1. unfold is_cont, in_range. destruct (b =? 240); destruct (b =? 244); cbv iota; intros; lia.
Qed.

Lemma json_pass : forall b t, (32 <=? b) = true -> (b =? 34) = false -> (b =? 92) = false ->
  json_str true (b :: t) = opt_cons [b] (json_str true t).
Proof.
  intros b t H1 H2 H3. cbn [json_str]. rewrite H2, H3.
  assert (E : (b <? 32) = false) by lia. rewrite E. reflexivity.
Qed.

Definition hex_low_b (b : N) : bool :=
  match hex4v 48 48 (hexdigit (b / 16)) (hexdigit (b mod 16)) with Some x => x =? b | None => false end.
Lemma hex_low_all : forallb hex_low_b (map N.of_nat (seq 0 32)) = true.
Proof. vm_compute. reflexivity. Qed.
Lemma hex_low : forall b, b < 32 -> hex4v 48 48 (hexdigit (b / 16)) (hexdigit (b mod 16)) = Some b.
Proof.
  intros b H.
  assert (Hin : In b (map N.of_nat (seq 0 32))).
  { apply in_map_iff. exists (N.to_nat b). split; [lia|]. apply in_seq. lia. }
  pose proof (proj1 (forallb_forall _ _) hex_low_all b Hin) as Hb.
  unfold hex_low_b in Hb.
  destruct (hex4v 48 48 (hexdigit (b / 16)) (hexdigit (b mod 16))) as [x|]; [|discriminate].
  f_equal. lia.
Qed.

Lemma ctl_escape_read : forall b t, b < 32 ->
  json_str true ([92; 117; 48; 48; hexdigit (b / 16); hexdigit (b mod 16)] ++ t) = opt_cons [b] (json_str true t).
Proof.
  intros b t Hb.
  cbn [app json_str]. cbn [N.eqb Pos.eqb].
  rewrite (hex_low b Hb).
  assert (Eh : is_high_surrogate b = false) by (unfold is_high_surrogate; lia).
  rewrite Eh.
  assert (Eu : utf8_encode b = [b]) by (unfold utf8_encode; assert (E : (b <? 128) = true) by lia; rewrite E; reflexivity).
  rewrite Eu. reflexivity.
Qed.

Lemma escape_ascii_read : forall b t,
  (b <? 128) = true -> json_safe b = false ->
  json_str true (json_escape_ascii b ++ t) = opt_cons [b] (json_str true t).
Proof.
  intros b t Hlt Hs. unfold json_escape_ascii.
  destruct ((b =? 92) || (b =? 34)) eqn:E1.
  { assert (Hb : b = 92 \/ b = 34) by lia. destruct Hb; subst; reflexivity. }
  destruct (b =? 8) eqn:E8. { assert (b = 8) by lia. subst. reflexivity. }
  destruct (b =? 12) eqn:E12. { assert (b = 12) by lia. subst. reflexivity. }
  destruct (b =? 10) eqn:E10. { assert (b = 10) by lia. subst. reflexivity. }
  destruct (b =? 13) eqn:E13. { assert (b = 13) by lia. subst. reflexivity. }
  destruct (b =? 9) eqn:E9. { assert (b = 9) by lia. subst. reflexivity. }
  assert (Hb : b < 32). { unfold json_safe in Hs. lia. }
  apply ctl_escape_read. exact Hb.
Qed.

Lemma opt_cons_some : forall pre s rest, opt_cons pre (Some (s, rest)) = Some (pre ++ s, rest).
Proof. reflexivity. Qed.

Theorem encoder_read_back :
  forall n s k rest,
    (length s <= n)%nat -> conts k s -> utf8_ok k s = true ->
    json_str true (json_encode_body k s ++ 34 :: rest) = Some (s, rest).
Proof.
  induction n; intros s k rest Hlen Hc Hu.
  { destruct s; [|simpl in Hlen; lia]. destruct k; reflexivity. }
  destruct s as [|b r].
  { destruct k; reflexivity. }
  simpl in Hlen.
  destruct k as [|k'].
  - cbn [json_encode_body]. cbn [utf8_ok] in Hu.
    destruct (b <? 128) eqn:Elt.
    + destruct (json_safe b) eqn:Es.
      * cbn [app]. unfold json_safe in Es.
        rewrite json_pass by lia.
        rewrite (IHn r O rest); [reflexivity|lia|exact I|exact Hu].
      * rewrite <- app_assoc. rewrite (escape_ascii_read b _ Elt Es).
        rewrite (IHn r O rest); [reflexivity|lia|exact I|exact Hu].
    + destruct (utf8_seq_len (b :: r)) as [m|] eqn:Esl; [|discriminate].
      pose proof (seq_len_conts _ _ _ Esl Elt) as Hcs.
      assert (Hdefault : json_str true ((b :: json_encode_body (Nat.pred m) r) ++ 34 :: rest) = Some (b :: r, rest)).
      { cbn [app]. rewrite json_pass by lia.
        rewrite (IHn r (Nat.pred m) rest); [reflexivity|lia|exact Hcs|exact Hu]. }
      destruct r as [|b1 [|c r']]; try exact Hdefault.
      destruct ((b =? 226) && (b1 =? 128) && ((c =? 168) || (c =? 169))) eqn:Ecase; [|exact Hdefault].
      assert (Hb : b = 226) by lia. assert (Hb1 : b1 = 128) by lia. assert (Hcc : c = 168 \/ c = 169) by lia.
      subst b b1.
      assert (Hu' : utf8_ok O r' = true).
      { destruct Hcc; subst c; vm_compute in Esl; inversion Esl; subst m; exact Hu. }
      rewrite <- app_assoc.
      destruct Hcc; subst c.
      * change (json_str true ([92; 117; 50; 48; 50; hexdigit (168 - 160)] ++ json_encode_body O r' ++ 34 :: rest))
          with (opt_cons [226; 128; 168] (json_str true (json_encode_body O r' ++ 34 :: rest))).
        rewrite (IHn r' O rest); [reflexivity|simpl in Hlen; lia|exact I|exact Hu'].
      * change (json_str true ([92; 117; 50; 48; 50; hexdigit (169 - 160)] ++ json_encode_body O r' ++ 34 :: rest))
          with (opt_cons [226; 128; 169] (json_str true (json_encode_body O r' ++ 34 :: rest))).
        rewrite (IHn r' O rest); [reflexivity|simpl in Hlen; lia|exact I|exact Hu'].
  - cbn [json_encode_body]. cbn [utf8_ok] in Hu. simpl in Hc. destruct Hc as [Hcb Hc].
    cbn [app]. unfold is_cont, in_range in Hcb.
    rewrite json_pass by lia.
    rewrite (IHn r k' rest); [reflexivity|lia|exact Hc|exact Hu].
Qed.

Corollary encoded_string_read_back : forall s rest,
  utf8_ok O s = true -> json_str true (json_encode_body O s ++ 34 :: rest) = Some (s, rest).
Proof. intros s rest H. apply (encoder_read_back (length s)); [lia|exact I|exact H]. Qed.
