(* C15: neutral low-level utilities used by the model, by the GraphQL-side spec and by the
   JSON-side spec: hexadecimal digits, UTF-8 encoding of a code point, the UTF-8 well-formedness
   table (Unicode 15 table 3-7, the one Go's unicode/utf8 implements), UTF-16 surrogates.
   Definitions only. *)
From Gv Require Import lib.Bytes.
Open Scope N_scope.

(* ---- hexadecimal ---- *)
Definition hexval (b : byte) : option N :=
  if is_digit b then Some (b - 48)
  else if (97 <=? b) && (b <=? 102) then Some (b - 87)
  else if (65 <=? b) && (b <=? 70) then Some (b - 55)
  else None.

(* exactly four hex digits at the head *)
Definition hex4 (s : bytes) : option (N * bytes) :=
  match s with
  | a :: b :: c :: d :: r =>
    match hexval a, hexval b, hexval c, hexval d with
    | Some x, Some y, Some z, Some w => Some (x * 4096 + y * 256 + z * 16 + w, r)
    | _, _, _, _ => None
    end
  | _ => None
  end.

(* lower-case hex digit of a nibble, as Go's `0123456789abcdef`[n] *)
Definition hexdigit (n : N) : byte := if n <? 10 then 48 + n else 87 + n.

(* ---- surrogates ---- *)
Definition is_high_surrogate (c : N) : bool := (55296 <=? c) && (c <=? 56319).   (* D800..DBFF *)
Definition is_low_surrogate (c : N) : bool := (56320 <=? c) && (c <=? 57343).    (* DC00..DFFF *)
Definition is_surrogate (c : N) : bool := (55296 <=? c) && (c <=? 57343).
Definition combine_surrogates (hi lo : N) : N := 65536 + (hi - 55296) * 1024 + (lo - 56320).

(* ---- UTF-8 encoding of a code point (generalised: surrogates get the 3-byte form) ---- *)
Definition utf8_encode (c : N) : bytes :=
  if c <? 128 then [c]
  else if c <? 2048 then [192 + c / 64; 128 + c mod 64]
  else if c <? 65536 then [224 + c / 4096; 128 + (c / 64) mod 64; 128 + c mod 64]
  else [240 + c / 262144; 128 + (c / 4096) mod 64; 128 + (c / 64) mod 64; 128 + c mod 64].

(* ---- UTF-8 well-formedness: length of the well-formed sequence at the head, or None ----
   mirrors unicode/utf8.DecodeRune's acceptance (first-byte table + accept ranges):
     C2..DF 80..BF | E0 A0..BF 80..BF | E1..EC,EE..EF 80..BF 80..BF | ED 80..9F 80..BF
     F0 90..BF 80..BF 80..BF | F1..F3 80..BF x3 | F4 80..8F 80..BF 80..BF *)
Definition in_range (lo hi b : N) : bool := (lo <=? b) && (b <=? hi).
Definition is_cont (b : byte) : bool := in_range 128 191 b.

Definition utf8_seq_len (s : bytes) : option nat :=
  match s with
  | [] => None
  | b0 :: r =>
    if b0 <? 128 then Some 1%nat
    else if in_range 194 223 b0 then
      match r with b1 :: _ => if is_cont b1 then Some 2%nat else None | _ => None end
    else if in_range 224 239 b0 then
      match r with
      | b1 :: b2 :: _ =>
        let lo := if b0 =? 224 then 160 else 128 in
        let hi := if b0 =? 237 then 159 else 191 in
        if in_range lo hi b1 && is_cont b2 then Some 3%nat else None
      | _ => None
      end
    else if in_range 240 244 b0 then
      match r with
      | b1 :: b2 :: b3 :: _ =>
        let lo := if b0 =? 240 then 144 else 128 in
        let hi := if b0 =? 244 then 143 else 191 in
        if in_range lo hi b1 && is_cont b2 && is_cont b3 then Some 4%nat else None
      | _ => None
      end
    else None
  end.
