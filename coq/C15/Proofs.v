(* C15: refutation witnesses, examples, and the small lemmas about extraction and defaults. *)
From Gv Require Import lib.Bytes lib.Gql C15.Unicode C15.Model C15.Spec C15.Diag
  C15.ProofsStr C15.ProofsNum C15.ProofsEnc C15.ProofsBlock C15.ProofsRescan C15.ProofsJson C15.ProofsFwd C15.History.
From Coq Require Import Lia ZifyN ZifyNat ZifyBool ZArith.
Open Scope N_scope.

(* ---- witnesses (source spellings in the comments use the words TAB, BACKSLASH, DQUOTE) ---- *)
(* a TAB b      in quotes *)
Definition w_tab : value := VStr [97; 9; 98] false.
(* BACKSLASH u { 4 1 }   in quotes *)
Definition w_brace : value := VStr [92; 117; 123; 52; 49; 125] false.
(* a BACKSLASH DQUOTE DQUOTE DQUOTE b    as a block string *)
Definition w_esc_triple : value := VStr [97; 92; 34; 34; 34; 98] true.
(* SPACE DQUOTE SPACE SPACE a   as a block string *)
Definition w_quote_ws : value := VStr [32; 34; 32; 32; 97] true.
(* three spaces, as a block string *)
Definition w_blank : value := VStr [32; 32; 32] true.

(* (the refutations that used to stand here -- the braced escape copied as it is, the quote next to the
   white space the lexer trims -- are historical since c15_fix_braced-unicode-escape and
   c15_fix_block-quote-next-to-whitespace: History.hist_brace_invalid, History.hist_quote_ws_differs) *)
Definition differs (l : value) : Prop :=
  lit_valid l /\ exists d, json_denote (value_to_json [] l) = JOk d /\ dval_eqb d (gql_denote [] l) = false.

(* BACKSLASH u { 1 F 6 0 0 } BACKSLASH BACKSLASH u { 4 1 }  in quotes: a braced escape above U+FFFF followed by an
   escaped backslash and the plain text u{41} *)
Definition w_brace_big : value := VStr [92; 117; 123; 49; 70; 54; 48; 48; 125; 92; 92; 117; 123; 52; 49; 125] false.
(* a SPACE DQUOTE SPACE  as a block string *)
Definition w_quote_ws2 : value := VStr [97; 32; 34; 32] true.
Definition ex_repaired2 : value := VList [w_brace; w_brace_big; w_quote_ws; w_quote_ws2].
Example ex_repaired2_hyps : lit_valid ex_repaired2 /\ go_safe_b ex_repaired2 = true.
Proof. split; vm_compute; reflexivity. Qed.
Example ex_repaired2_text :
  (* [`\u0041`,`\ud83d\ude00\\u{41}`,` \`  a`,`a \` `] with ` standing for the quotation mark *)
  value_to_json [] ex_repaired2 =
  [91; 34; 92; 117; 48; 48; 52; 49; 34; 44; 34; 92; 117; 100; 56; 51; 100; 92; 117; 100; 101; 48; 48; 92; 92; 117; 123; 52; 49; 125; 34;
   44; 34; 32; 92; 34; 32; 32; 97; 34; 44; 34; 97; 32; 92; 34; 32; 34; 93]
  /\ gql_denote [] ex_repaired2 =
     DList [DStr [65]; DStr [240; 159; 152; 128; 92; 117; 123; 52; 49; 125]; DStr [32; 34; 32; 32; 97]; DStr [97; 32; 34; 32]].
Proof. split; vm_compute; reflexivity. Qed.
Example w_quote_ws_go : block_string_value [32; 34; 32; 32; 97] = [32; 34; 32; 32; 97]
                        /\ spec_block_value [32; 34; 32; 32; 97] = [32; 34; 32; 32; 97].
Proof. split; vm_compute; reflexivity. Qed.

(* the witnesses of the repaired defects now satisfy the hypotheses of the partial theorems *)
Definition ex_repaired : value := VList [w_tab; w_esc_triple; w_blank; VStr [10; 10] true].
Example ex_repaired_hyps : lit_valid ex_repaired /\ go_safe_b ex_repaired = true.
Proof. split; vm_compute; reflexivity. Qed.
Example ex_repaired_text :
  (* [`a\u0009b`,`a```b`,``,``] with ` standing for the quotation mark *)
  value_to_json [] ex_repaired =
  [91; 34; 97; 92; 117; 48; 48; 48; 57; 98; 34; 44; 34; 97; 92; 34; 92; 34; 92; 34; 98; 34; 44; 34; 34; 44; 34; 34; 93].
Proof. vm_compute. reflexivity. Qed.

(* ---- variable default values ---- *)
Definition v0 : name := [118; 48].
(* query($v0: [T] = null) with v0 omitted: null is stored, whatever the list depth *)
Lemma default_null_stays_null_proof : forall vs n w,
  var_get n vs = None -> default_extract vs n w VNull = Some lit_null.
Proof.
  intros vs n w H. unfold default_extract. rewrite H. cbn [value_to_json lit_null is_null_value negb].
  rewrite Bool.andb_false_r. reflexivity.
Qed.

Lemma default_preserved_partial_proof : forall vs e n d,
  vars_framed vs e -> var_get n vs = None -> lit_valid d -> go_safe_b d = true ->
  exists b, default_extract vs n 0 d = Some b /\ json_denote b = JOk (default_denote 0 (gql_denote e d)).
Proof.
  intros vs e n d Hvs Hn Hv Hs. exists (value_to_json vs d). split.
  - unfold default_extract. rewrite Hn. destruct (value_to_json vs d); reflexivity.
  - simpl. apply value_preserved_partial_proof; assumption.
Qed.

Lemma default_keeps_supplied_proof : forall vs n w d raw, var_get n vs = Some raw -> default_extract vs n w d = None.
Proof. intros vs n w d raw H. unfold default_extract. rewrite H. reflexivity. Qed.

(* ---- extraction ---- *)
Lemma extract_literal_proof : forall vs e l,
  vars_framed vs e -> lit_valid l -> go_safe_b l = true -> (forall n, l <> VVar n) ->
  exists b, extract_arg vs l = Some b /\ json_denote b = JOk (gql_denote e l).
Proof.
  intros vs e l Hvs Hv Hs Hn. exists (value_to_json vs l). split.
  - destruct l; try reflexivity. exfalso. apply (Hn n). reflexivity.
  - apply value_preserved_partial_proof; assumption.
Qed.

(* ---- an example satisfying every hypothesis: nested, with an escape, a surrogate pair, a block
   string with indentation, an exponent, an enum and two variables (one supplied, one not) ---- *)
Definition ex_v1 : name := [118; 49].
Definition ex_vars : vars := [(v0, [123; 34; 107; 34; 58; 110; 117; 108; 108; 125])].      (* v0 = {`k`:null} *)
Definition ex_env : denv := [(v0, DObj [([107], DNull)])].
Definition ex_lit : value :=
  VObj [ ([115], VStr [97; 92; 110; 92; 117; 68; 56; 51; 68; 92; 117; 68; 69; 48; 48; 92; 34] false);   (* s: a \n <U+1F600> \` *)
         ([98], VStr [10; 32; 32; 120; 10; 32; 32; 32; 32; 121; 13; 10; 32; 32] true);                        (* block, two lines *)
         ([108], VList [VFloat [45; 49; 46; 53; 101; 43; 49; 48]; VInt [48]; VEnum [82; 69; 68]; VVar v0; VVar ex_v1; VNull; VBool true]);
         ([111], VObj [ ([112], VVar ex_v1); ([113], VVar v0) ]) ].

Lemma ex_framed : vars_framed ex_vars ex_env.
Proof.
  intros n. unfold ex_vars, ex_env. simpl. destruct (bytes_eqb n v0).
  - eexists. split; [reflexivity|]. constructor.
    + eexists _, _. split; reflexivity.
    + intros fuel rest Hf _. simpl in Hf.
      do 3 (destruct fuel as [|fuel]; [lia|]). reflexivity.
  - reflexivity.
Qed.
Example ex_valid : lit_valid ex_lit /\ go_safe_b ex_lit = true.
Proof. split; vm_compute; reflexivity. Qed.
Example ex_preserved : json_denote (value_to_json ex_vars ex_lit) = JOk (gql_denote ex_env ex_lit).
Proof. apply value_preserved_partial_proof; [exact ex_framed|exact (proj1 ex_valid)|exact (proj2 ex_valid)]. Qed.
Example ex_text :
  value_to_json ex_vars ex_lit =
  (* {`s`:`a\n<U+1F600>\``,`b`:`x\n  y`,`l`:[-1.5e+10,0,`RED`,{`k`:null},null,null,true],`o`:{`q`:{`k`:null}}} *)
  [123; 34; 115; 34; 58; 34; 97; 92; 110; 92; 117; 68; 56; 51; 68; 92; 117; 68; 69; 48; 48; 92; 34; 34; 44;
   34; 98; 34; 58; 34; 120; 92; 110; 32; 32; 121; 34; 44;
   34; 108; 34; 58; 91; 45; 49; 46; 53; 101; 43; 49; 48; 44; 48; 44; 34; 82; 69; 68; 34; 44;
   123; 34; 107; 34; 58; 110; 117; 108; 108; 125; 44; 110; 117; 108; 108; 44; 110; 117; 108; 108; 44; 116; 114; 117; 101; 93; 44;
   34; 111; 34; 58; 123; 34; 113; 34; 58; 123; 34; 107; 34; 58; 110; 117; 108; 108; 125; 125; 125].
Proof. vm_compute. reflexivity. Qed.

(* the block string of the example meets the hypotheses of c15_block_value_agrees *)
Example ex_block_hyps :
  let raw := [10; 32; 32; 120; 10; 32; 32; 32; 32; 121; 13; 10; 32; 32] in
  rescan_exact raw = true /\ go_block_lexable raw = true.
Proof. repeat split; vm_compute; reflexivity. Qed.

(* default value example: query($v0: T = {s: `d`, n: [1.0e3]}) with v0 omitted *)
Definition ex_default : value := VObj [([115], VStr [100] false); ([110], VList [VFloat [49; 46; 48; 101; 51]])].
Example ex_default_hyps : vars_framed [] [] /\ var_get v0 [] = None /\ lit_valid ex_default /\ go_safe_b ex_default = true.
Proof. split; [intros n; reflexivity|]. repeat split; vm_compute; reflexivity. Qed.

(* forwarding example: upstream a <- client b (null), upstream b <- client a (omitted) *)
Definition na : name := [97].
Definition nb : name := [98].
Example ex_forward :
  forward_d [(na, nb); (nb, na)] [(nb, DNull)] = [(na, DNull)].
Proof. vm_compute. reflexivity. Qed.
Example ex_distinct : names_distinct [(na, nb); (nb, na)].
Proof. unfold names_distinct. simpl. repeat constructor; simpl; intuition discriminate. Qed.
