(* C15 proofs, part 2: a token of the GraphQL IntValue / FloatValue grammar, copied verbatim, is
   exactly the token the RFC 8259 number grammar reads at that place. *)
From Gv Require Import lib.Bytes lib.Gql C15.Unicode C15.Model C15.Spec C15.Diag.
From Coq Require Import Lia ZifyN ZifyNat ZifyBool ZArith.
Open Scope N_scope.

Definition nondigit_head (rest : bytes) : bool :=
  match rest with [] => true | c :: _ => negb (is_digit c) end.
(* what may follow a number inside the printed JSON: nothing, or a byte that cannot continue it *)
Definition num_delim (rest : bytes) : bool :=
  match rest with
  | [] => true
  | c :: _ => negb (is_digit c) && negb (c =? 46) && negb (c =? 101) && negb (c =? 69)
  end.

Lemma num_delim_nondigit : forall rest, num_delim rest = true -> nondigit_head rest = true.
Proof. intros [|c r]; simpl; auto. intros H. lia. Qed.

Lemma span_digits_split : forall s d t, span_digits s = (d, t) -> s = d ++ t.
Proof.
  induction s as [|b s IH]; intros d t H; simpl in H.
  - inversion H. reflexivity.
  - destruct (is_digit b).
    + destruct (span_digits s) as [d' t'] eqn:E. inversion H; subst. simpl. f_equal. apply IH. reflexivity.
    + inversion H. reflexivity.
Qed.

Lemma span_digits_ext : forall s d t rest,
  span_digits s = (d, t) -> (t = [] -> nondigit_head rest = true) -> span_digits (s ++ rest) = (d, t ++ rest).
Proof.
  induction s as [|b s IH]; intros d t rest H Hr; simpl in H.
  - inversion H; subst. simpl. specialize (Hr eq_refl).
    destruct rest as [|c r]; [reflexivity|]. simpl in *. destruct (is_digit c); [discriminate|reflexivity].
  - simpl. destruct (is_digit b) eqn:Eb.
    + destruct (span_digits s) as [d' t'] eqn:E. inversion H; subst.
      rewrite (IH d' t rest eq_refl Hr). reflexivity.
    + inversion H; subst. reflexivity.
Qed.

Lemma eat_ext : forall c s r rest, eat c s = Some r -> eat c (s ++ rest) = Some (r ++ rest).
Proof. intros c [|b s] r rest; simpl; [discriminate|]. destruct (b =? c); intros H; inversion H. reflexivity. Qed.
Lemma eat_none_ext : forall c s rest, eat c s = None -> s <> [] -> eat c (s ++ rest) = None.
Proof. intros c [|b s] rest H Hs; [congruence|]. simpl in *. destruct (b =? c); [discriminate|reflexivity]. Qed.
Lemma eat2_ext : forall c d s x r rest, eat2 c d s = Some (x, r) -> eat2 c d (s ++ rest) = Some (x, r ++ rest).
Proof. intros c d [|b s] x r rest; simpl; [discriminate|]. destruct ((b =? c) || (b =? d)); intros H; inversion H. reflexivity. Qed.
Lemma eat2_none_ext : forall c d s rest, eat2 c d s = None -> s <> [] -> eat2 c d (s ++ rest) = None.
Proof. intros c d [|b s] rest H Hs; [congruence|]. simpl in *. destruct ((b =? c) || (b =? d)); [discriminate|reflexivity]. Qed.

Lemma delim_eat46 : forall rest, num_delim rest = true -> eat 46 rest = None.
Proof. intros [|c r]; simpl; auto. intros H. destruct (c =? 46) eqn:E; [lia|reflexivity]. Qed.
Lemma delim_eat2e : forall rest, num_delim rest = true -> eat2 101 69 rest = None.
Proof. intros [|c r]; simpl; auto. intros H. destruct ((c =? 101) || (c =? 69)) eqn:E; [lia|reflexivity]. Qed.

Lemma eat_inv : forall c s r, eat c s = Some r -> s = c :: r.
Proof. intros c [|b s] r; simpl; [discriminate|]. destruct (b =? c) eqn:E; intros H; inversion H. subst. f_equal. lia. Qed.
Lemma eat2_inv : forall c d s x r, eat2 c d s = Some (x, r) -> s = x :: r.
Proof. intros c d [|b s] x r; simpl; [discriminate|]. destruct ((b =? c) || (b =? d)); intros H; inversion H. reflexivity. Qed.
Lemma eat2_digit_free : forall c d s x r, eat2 c d s = Some (x, r) -> c <> 0 -> True.
Proof. auto. Qed.

Lemma is_nil_true : forall s, is_nil s = true -> s = [].
Proof. intros [|]; simpl; congruence. Qed.

Definition gql_upart (s1 : bytes) : option bytes :=
  let (ip, rest) := span_digits s1 in
  if is_nil ip || leading_zero ip then None else Some rest.
Lemma gql_integer_part_unfold : forall tok,
  gql_integer_part tok = gql_upart (match eat 45 tok with Some r => r | None => tok end).
Proof. reflexivity. Qed.

Lemma gql_integer_part_nonempty : forall tok r, gql_integer_part tok = Some r -> tok <> [].
Proof. intros [|b t] r H; [|discriminate]. unfold gql_integer_part in H. simpl in H. discriminate. Qed.

(* the exponent stage *)
Lemma exp_stage : forall s r3 rest,
  gql_exponent s = Some r3 -> is_nil r3 = true -> num_delim rest = true ->
  json_scan_exp (s ++ rest) = Some (s, rest).
Proof.
  intros s r3 rest H Hn Hd. apply is_nil_true in Hn. subst r3.
  unfold gql_exponent in H. unfold json_scan_exp.
  destruct (eat2 101 69 s) as [[x r]|] eqn:E; [|discriminate].
  rewrite (eat2_ext _ _ _ _ _ rest E).
  pose proof (eat2_inv _ _ _ _ _ E) as Hs. subst s.
  destruct (eat2 45 43 r) as [[y r']|] eqn:E2.
  - rewrite (eat2_ext _ _ _ _ _ rest E2).
    pose proof (eat2_inv _ _ _ _ _ E2) as Hr. subst r.
    cbv zeta.
    destruct (span_digits r') as [ep t] eqn:Es.
    destruct (is_nil ep) eqn:En; [discriminate|]. inversion H; subst t.
    rewrite (span_digits_ext _ _ _ rest Es (fun _ => num_delim_nondigit _ Hd)).
    rewrite En. pose proof (span_digits_split _ _ _ Es) as Hsp. rewrite app_nil_r in Hsp. subst r'. reflexivity.
  - cbv zeta.
    destruct (span_digits r) as [ep t] eqn:Es.
    destruct (is_nil ep) eqn:En; [discriminate|]. inversion H; subst t.
    assert (Hne : r <> []).
    { intro Hr. subst r. simpl in Es. inversion Es; subst. discriminate. }
    rewrite (eat2_none_ext _ _ _ rest E2 Hne).
    rewrite (span_digits_ext _ _ _ rest Es (fun _ => num_delim_nondigit _ Hd)).
    rewrite En. pose proof (span_digits_split _ _ _ Es) as Hsp. rewrite app_nil_r in Hsp. subst r. reflexivity.
Qed.

Lemma exponent_head : forall s r3, gql_exponent s = Some r3 -> exists x r, s = x :: r /\ is_digit x = false /\ (x =? 46) = false.
Proof.
  intros s r3 H. unfold gql_exponent in H.
  destruct s as [|b r]; [discriminate|]. simpl in H.
  destruct ((b =? 101) || (b =? 69)) eqn:E; [|discriminate].
  exists b, r. split; [reflexivity|]. unfold is_digit. lia.
Qed.

Lemma scan_unsigned_int : forall s1 rest,
  gql_upart s1 = Some [] -> num_delim rest = true -> json_scan_unsigned (s1 ++ rest) = Some (s1, rest).
Proof.
  intros s1 rest E Hd. unfold gql_upart in E. unfold json_scan_unsigned.
  destruct (span_digits s1) as [ip t] eqn:Es.
  destruct (is_nil ip || leading_zero ip) eqn:Ez; [discriminate|]. inversion E; subst t.
  rewrite (span_digits_ext _ _ _ rest Es (fun _ => num_delim_nondigit _ Hd)).
  rewrite Ez. simpl app. unfold json_scan_frac, json_scan_exp.
  rewrite (delim_eat46 _ Hd). rewrite (delim_eat2e _ Hd).
  pose proof (span_digits_split _ _ _ Es) as Hsp. rewrite app_nil_r in Hsp.
  rewrite !app_nil_r. rewrite <- Hsp. reflexivity.
Qed.

Definition float_tail_ok (r1 : bytes) : bool :=
  match gql_fraction r1 with
  | Some r2 => is_nil r2 || match gql_exponent r2 with Some r3 => is_nil r3 | None => false end
  | None => match gql_exponent r1 with Some r3 => is_nil r3 | None => false end
  end.

Lemma scan_unsigned_float : forall s1 r1 rest,
  gql_upart s1 = Some r1 -> float_tail_ok r1 = true -> num_delim rest = true ->
  json_scan_unsigned (s1 ++ rest) = Some (s1, rest).
Proof.
  intros s1 r1 rest E H Hd. unfold gql_upart in E. unfold float_tail_ok in H. unfold json_scan_unsigned.
  destruct (span_digits s1) as [ip t] eqn:Es.
  destruct (is_nil ip || leading_zero ip) eqn:Ez; [discriminate|]. inversion E; subst t.
  pose proof (span_digits_split _ _ _ Es) as Hsp.
  destruct (gql_fraction r1) as [r2|] eqn:Ef.
  - (* fraction present *)
    unfold gql_fraction in Ef.
    destruct (eat 46 r1) as [r|] eqn:E46; [|discriminate].
    pose proof (eat_inv _ _ _ E46) as Hr1.
    destruct (span_digits r) as [fp t2] eqn:Esf.
    destruct (is_nil fp) eqn:Enf; [discriminate|]. inversion Ef; subst t2.
    pose proof (span_digits_split _ _ _ Esf) as Hspf.
    assert (Hr1ne : r1 <> []) by (rewrite Hr1; discriminate).
    rewrite (span_digits_ext _ _ _ rest Es (fun Hnil => False_ind _ (Hr1ne Hnil))).
    rewrite Ez. unfold json_scan_frac.
    rewrite (eat_ext _ _ _ rest E46).
    apply Bool.orb_true_iff in H. destruct H as [Hnil | Hexp].
    + apply is_nil_true in Hnil. subst r2.
      rewrite (span_digits_ext _ _ _ rest Esf (fun _ => num_delim_nondigit _ Hd)).
      rewrite Enf. simpl app. unfold json_scan_exp.
      rewrite (delim_eat2e _ Hd).
      rewrite app_nil_r in Hspf. subst r. subst r1.
      rewrite !app_nil_r. rewrite Hsp. reflexivity.
    + destruct (gql_exponent r2) as [r3|] eqn:Ee; [|discriminate].
      destruct (exponent_head _ _ Ee) as (x & rr & Hr2 & Hxd & _).
      assert (Hr2ne : r2 <> []) by (rewrite Hr2; discriminate).
      rewrite (span_digits_ext _ _ _ rest Esf (fun Hnil => False_ind _ (Hr2ne Hnil))).
      rewrite Enf.
      rewrite (exp_stage r2 r3 rest Ee Hexp Hd).
      subst r. subst r1.
      rewrite Hsp. simpl. repeat rewrite <- app_assoc. reflexivity.
  - (* exponent only *)
    destruct (gql_exponent r1) as [r3|] eqn:Ee; [|discriminate].
    destruct (exponent_head _ _ Ee) as (x & rr & Hr1 & Hxd & Hx46).
    assert (Hr1ne : r1 <> []) by (rewrite Hr1; discriminate).
    rewrite (span_digits_ext _ _ _ rest Es (fun Hnil => False_ind _ (Hr1ne Hnil))).
    rewrite Ez.
    assert (E46 : eat 46 (r1 ++ rest) = None).
    { rewrite Hr1. simpl. rewrite Hx46. reflexivity. }
    unfold json_scan_frac. rewrite E46.
    rewrite (exp_stage r1 r3 rest Ee H Hd).
    rewrite Hsp. simpl. reflexivity.
Qed.

Lemma scan_signed : forall tok rest,
  tok <> [] ->
  json_scan_unsigned ((match eat 45 tok with Some r => r | None => tok end) ++ rest)
    = Some (match eat 45 tok with Some r => r | None => tok end, rest) ->
  json_scan_number (tok ++ rest) = Some (tok, rest).
Proof.
  intros tok rest Hne H. unfold json_scan_number.
  destruct (eat 45 tok) as [r|] eqn:E.
  - rewrite (eat_ext _ _ _ rest E). rewrite H. apply eat_inv in E. subst tok. reflexivity.
  - rewrite (eat_none_ext _ _ rest E Hne). exact H.
Qed.

Theorem scan_int : forall tok rest,
  gql_int_ok tok = true -> num_delim rest = true -> json_scan_number (tok ++ rest) = Some (tok, rest).
Proof.
  intros tok rest H Hd. unfold gql_int_ok in H.
  destruct (gql_integer_part tok) as [r|] eqn:E; [|discriminate].
  apply is_nil_true in H. subst r.
  apply scan_signed; [exact (gql_integer_part_nonempty _ _ E)|].
  rewrite gql_integer_part_unfold in E. apply scan_unsigned_int; assumption.
Qed.

Theorem scan_float : forall tok rest,
  gql_float_ok tok = true -> num_delim rest = true -> json_scan_number (tok ++ rest) = Some (tok, rest).
Proof.
  intros tok rest H Hd. unfold gql_float_ok in H.
  destruct (gql_integer_part tok) as [r1|] eqn:E; [|discriminate].
  apply scan_signed; [exact (gql_integer_part_nonempty _ _ E)|].
  rewrite gql_integer_part_unfold in E. apply (scan_unsigned_float _ r1); assumption.
Qed.

(* first byte of a number token *)
Lemma integer_part_head : forall tok r, gql_integer_part tok = Some r ->
  exists c t, tok = c :: t /\ ((c =? 45) || is_digit c) = true.
Proof.
  intros tok r H. unfold gql_integer_part in H.
  destruct tok as [|c t]; [simpl in H; discriminate|].
  exists c, t. split; [reflexivity|].
  simpl in H. destruct (c =? 45) eqn:E; [reflexivity|].
  simpl in H. destruct (is_digit c) eqn:Ed; [reflexivity|]. simpl in H. discriminate.
Qed.
