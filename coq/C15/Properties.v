(* C15 property theorems: statements only; every proof is [exact lemma].
   [go_safe_b l] (Diag.v) is the explicit boolean hypothesis of the partial theorems: in every block
   string of [l] the Go lexer delimits the token as the specification does ([go_block_lexable]) and the
   value is well-formed UTF-8; quoted strings need no hypothesis.  (Before the repairs it also
   excluded raw control characters, escaped triple quotes, all-blank block strings, braced unicode
   escapes and quotes that the delimiter re-scan took for a delimiter; see the c15_history_ theorems.) *)
From Gv Require Import lib.Bytes lib.Gql C15.Unicode C15.Model C15.Spec C15.Diag C15.ProofsStr
  C15.ProofsBlock C15.ProofsRescan C15.ProofsJson C15.ProofsFwd C15.History C15.Proofs C15.Defaults C15.ProofsDefaults.
From Gv Require lib.Json C06.Model.
From Coq Require Import ZArith.

Theorem c15_vars_valid_json_partial : forall vs e l,
  vars_framed vs e -> lit_valid l -> go_safe_b l = true ->
  json_valid_b (value_to_json vs l) = true.
Proof. exact vars_valid_json_partial_proof. Qed.
Print Assumptions c15_vars_valid_json_partial.

Theorem c15_value_preserved_partial : forall vs e l,
  vars_framed vs e -> lit_valid l -> go_safe_b l = true ->
  json_denote (value_to_json vs l) = JOk (gql_denote e l).
Proof. exact value_preserved_partial_proof. Qed.
Print Assumptions c15_value_preserved_partial.

(* since c15_fix_block-quote-next-to-whitespace: the delimiter re-scan of BlockStringValueContentRawBytes
   returns the text between the delimiters for every text the Go lexer delimits ... *)
Theorem c15_rescan_exact : forall raw, go_block_lexable raw = true -> block_rescan raw = raw.
Proof. exact rescan_exact_proof. Qed.
Print Assumptions c15_rescan_exact.

(* ... hence Go's block string value is the specification's BlockStringValue() there (strengthened by
   c15_fix_block-blank-only, c15_fix_block-escaped-triple-quote and now c15_fix_block-quote-next-to-whitespace:
   the hypothesis [rescan_exact raw = true] is gone) *)
Theorem c15_block_value_agrees : forall raw,
  go_block_lexable raw = true -> block_string_value raw = spec_block_value raw.
Proof. exact block_value_agrees_lexable. Qed.
Print Assumptions c15_block_value_agrees.

(* since c15_fix_braced-unicode-escape: every spec-valid quoted string, braced escapes included, is written
   as a JSON string that RFC 8259 reads back as the value the GraphQL grammar gives it *)
Theorem c15_quoted_string_preserved : forall raw out rest,
  gql_str GPlain raw = Some out -> json_str true (quoted_json raw ++ 34 :: rest) = Some (out, rest).
Proof. exact quoted_string_preserved_proof. Qed.
Print Assumptions c15_quoted_string_preserved.

(* historical: the functions the repairs replaced (History.v) *)
Theorem c15_history_vars_valid_json_refuted_before_fix :
  lit_valid (VStr [97; 9; 98] false) /\ json_denote (string_to_json_v0 [97; 9; 98] false) = JInvalid.
Proof. exact hist_tab_invalid. Qed.
Print Assumptions c15_history_vars_valid_json_refuted_before_fix.

Theorem c15_history_escaped_triple_quote_refuted_before_fix :
  lit_valid (VStr [97; 92; 34; 34; 34; 98] true) /\
  exists d, json_denote (string_to_json_v0 [97; 92; 34; 34; 34; 98] true) = JOk d
            /\ dval_eqb d (gql_denote [] (VStr [97; 92; 34; 34; 34; 98] true)) = false.
Proof. exact hist_escaped_triple_differs. Qed.
Print Assumptions c15_history_escaped_triple_quote_refuted_before_fix.

Theorem c15_history_blank_block_refuted_before_fix :
  lit_valid (VStr [32; 32; 32] true) /\
  exists d, json_denote (string_to_json_v0 [32; 32; 32] true) = JOk d
            /\ dval_eqb d (gql_denote [] (VStr [32; 32; 32] true)) = false.
Proof. exact hist_blank_differs. Qed.
Print Assumptions c15_history_blank_block_refuted_before_fix.

Theorem c15_history_default_null_refuted_before_fix :
  exists b, default_extract_v0 [] [118; 48] 1 VNull = Some b
            /\ exists d, json_denote b = JOk d /\ dval_eqb d (default_denote 1 (gql_denote [] VNull)) = false.
Proof. exact hist_default_null_wrapped. Qed.
Print Assumptions c15_history_default_null_refuted_before_fix.

Theorem c15_extract_literal : forall vs e l,
  vars_framed vs e -> lit_valid l -> go_safe_b l = true -> (forall n, l <> VVar n) ->
  exists b, extract_arg vs l = Some b /\ json_denote b = JOk (gql_denote e l).
Proof. exact extract_literal_proof. Qed.
Print Assumptions c15_extract_literal.

Theorem c15_default_preserved_partial : forall vs e n d,
  vars_framed vs e -> var_get n vs = None -> lit_valid d -> go_safe_b d = true ->
  exists b, default_extract vs n 0 d = Some b /\ json_denote b = JOk (default_denote 0 (gql_denote e d)).
Proof. exact default_preserved_partial_proof. Qed.
Print Assumptions c15_default_preserved_partial.

(* since c15_fix_default-null-list-wrapped, for every list depth *)
Theorem c15_default_null_stays_null : forall vs n w,
  var_get n vs = None -> default_extract vs n w VNull = Some lit_null.
Proof. exact default_null_stays_null_proof. Qed.
Print Assumptions c15_default_null_stays_null.

Theorem c15_absent_stays_absent : forall tmpl ctx u c,
  names_distinct tmpl -> In (u, c) tmpl -> ctx_get dval c ctx = None ->
  out_get dval u (forward_d tmpl ctx) = None.
Proof. exact (absent_stays_absent_proof dval DNull is_dnull eq_refl). Qed.
Print Assumptions c15_absent_stays_absent.

Theorem c15_null_stays_null : forall tmpl ctx u c,
  names_distinct tmpl -> In (u, c) tmpl -> ctx_get dval c ctx = Some DNull ->
  out_get dval u (forward_d tmpl ctx) = Some DNull.
Proof. exact (fun tmpl ctx u c => supplied_value_forwarded_proof dval DNull is_dnull tmpl ctx u c DNull). Qed.
Print Assumptions c15_null_stays_null.

Theorem c15_value_forwarded : forall tmpl ctx u c v,
  names_distinct tmpl -> In (u, c) tmpl -> ctx_get dval c ctx = Some v ->
  out_get dval u (forward_d tmpl ctx) = Some v.
Proof. exact (supplied_value_forwarded_proof dval DNull is_dnull). Qed.
Print Assumptions c15_value_forwarded.

(* HISTORICAL (History.v, version 1 = the code before the last two repairs): a braced unicode escape was
   copied into the JSON text as it is ... *)
Theorem c15_history_braced_escape_refuted_before_fix :
  lit_valid (VStr [92; 117; 123; 52; 49; 125] false) /\
  json_denote (string_to_json_v1 [92; 117; 123; 52; 49; 125] false) = JInvalid.
Proof. exact hist_brace_invalid. Qed.
Print Assumptions c15_history_braced_escape_refuted_before_fix.

(* ... and a quote next to the white space the lexer trims was taken for the delimiter *)
Theorem c15_history_quote_next_to_whitespace_refuted_before_fix :
  lit_valid (VStr [32; 34; 32; 32; 97] true) /\
  exists d, json_denote (string_to_json_v1 [32; 34; 32; 32; 97] true) = JOk d
            /\ dval_eqb d (gql_denote [] (VStr [32; 34; 32; 32; 97] true)) = false.
Proof. exact hist_quote_ws_differs. Qed.
Print Assumptions c15_history_quote_next_to_whitespace_refuted_before_fix.

(* ---- input-field default injection (inject_input_default_values.go; the tree-level model of that code is C06's,
   C06.Model.inject, whose "present" test is presence of the key).  A member the client supplied is never replaced
   by a schema default: after processObjectOrListInput on an object of ANY type, every atomic member -- the edge
   value of each JSON kind: "" 0 false null [] as well as every other string / number / boolean -- is still there
   with the supplied value ... *)
Theorem c15_supplied_field_not_defaulted : forall q S reparse fuel t ms k x r b,
  C06.Model.q_inject_reparse q = false ->
  lib.Json.obj_get k ms = Some x -> atomic_value x = true ->
  C06.Model.inject q S reparse fuel t (lib.Json.JObj ms) = C06.Model.IOk r b ->
  lib.Json.jget k r = Some x.
Proof. exact supplied_field_not_defaulted_proof. Qed.
Print Assumptions c15_supplied_field_not_defaulted.

(* ... and in recursiveInjectInputFields also any value at all ({} and non-empty containers too) of a field of
   scalar / enum / custom scalar type *)
Theorem c15_supplied_scalar_field_not_defaulted : forall q S reparse fuel fs ms k x r b,
  C06.Model.q_inject_reparse q = false ->
  lib.Json.obj_get k ms = Some x ->
  (atomic_value x = true \/
   forall f, In f fs -> lib.Gql.iv_name f = k -> C06.Model.is_scalar_or_enum S (lib.Gql.iv_type f) = true) ->
  C06.Model.inject_fields q S (C06.Model.inject q S reparse fuel) (Some fs) (lib.Json.JObj ms) = C06.Model.IOk r b ->
  lib.Json.jget k r = Some x.
Proof. exact supplied_field_not_defaulted_fields. Qed.
Print Assumptions c15_supplied_scalar_field_not_defaulted.

(* the reading "present = jsonparser.Get returned a non-empty slice" (seeded/C15-m5) is refuted: Get returns the
   unquoted content of a string, the member "" looks absent and the default is written over it *)
Theorem c15_nonempty_means_present_refuted :
  exists S fs ms k r,
    lib.Json.obj_get k ms = Some (lib.Json.JStr []) /\
    inject_fields_nonempty_present C06.Model.go_quirks S (C06.Model.inject C06.Model.go_quirks S (fun _ => None) 8) fs (lib.Json.JObj ms)
      = C06.Model.IOk r true /\
    lib.Json.jget k r = Some (lib.Json.JStr t_anonymous) /\
    C06.Model.inject_fields C06.Model.go_quirks S (C06.Model.inject C06.Model.go_quirks S (fun _ => None) 8) (Some fs) (lib.Json.JObj ms)
      = C06.Model.IOk (lib.Json.JObj ms) false.
Proof. exact nonempty_present_overwrites. Qed.
Print Assumptions c15_nonempty_means_present_refuted.

(* the specification the check evaluates on Input.Variables and on the upstream request (Defaults.spec_defaults)
   keeps a supplied member of scalar type whatever its value *)
Theorem c15_spec_supplied_member_kept : forall fuel S n fs m k x f,
  ischema_get n S = Some fs -> dobj_get k m = Some x ->
  find_field k fs = Some f -> if_type f = IScalar ->
  exists m', spec_defaults (Datatypes.S fuel) S (IObj n) (DObj m) = DObj m' /\ dobj_get k m' = Some x.
Proof. exact spec_supplied_member_kept. Qed.
Print Assumptions c15_spec_supplied_member_kept.
