(* C15 proofs, part 4b: since c15_fix_block-quote-next-to-whitespace the lexer trims exactly the white
   space at the two ends of a block string, so the delimiter re-scan of BlockStringValueContentRawBytes
   (nearest quote before Literal.Start, nearest quote from Literal.End) finds the delimiters again for
   EVERY text the lexer delimits: [rescan_exact] is a theorem, no hypothesis. *)
From Gv Require Import lib.Bytes lib.Gql C15.Unicode C15.Model C15.Spec C15.Diag C15.ProofsBlock.
From Coq Require Import Lia ZifyN ZifyNat ZifyBool ZArith.
Open Scope N_scope.

Definition all_ws (l : bytes) : Prop := forallb is_blockws l = true.
Definition all_q (l : bytes) : Prop := forallb (fun b => b =? 34) l = true.

Lemma all_ws_app : forall a b, all_ws a -> all_ws b -> all_ws (a ++ b).
Proof. unfold all_ws. intros. rewrite forallb_app. rewrite H, H0. reflexivity. Qed.
Lemma all_q_app : forall a b, all_q a -> all_q b -> all_q (a ++ b).
Proof. unfold all_q. intros a b Ha Hb. rewrite forallb_app. apply andb_true_intro. split; assumption. Qed.
Lemma ws_not_quote : forall b, is_blockws b = true -> (b =? 34) = false.
Proof. intros b. unfold is_blockws. lia. Qed.

(* what the counters of the (not yet closed) lexer state mean for the text [p] read so far: [p] ends with
   bl_ws white space bytes followed by bl_quotes pending quotes, what precedes them ends in a byte that is not
   white space; once a byte that is not white space was seen, [p] starts with exactly bl_lead white space bytes *)
Definition ends_nonws (p0 : bytes) : Prop := p0 = [] \/ exists x y, p0 = x ++ [y] /\ is_blockws y = false.
Record inv (p : bytes) (st : blex) : Prop := {
  i_tail : exists p0 wss qs, p = p0 ++ wss ++ qs /\ N.of_nat (length wss) = bl_ws st /\ all_ws wss
           /\ N.of_nat (length qs) = bl_quotes st /\ all_q qs /\ (bl_reached st = false -> p0 = []) /\ ends_nonws p0;
  i_lead_r : bl_reached st = true ->
             exists w y rest, p = w ++ y :: rest /\ N.of_nat (length w) = bl_lead st /\ all_ws w /\ is_blockws y = false;
  i_lead_n : bl_reached st = false -> bl_lead st = 0;
  i_esc : bl_escaped st = true -> bl_quotes st = 0 /\ bl_ws st = 0 /\ bl_reached st = true
}.

Lemma inv0 : inv [] blex0.
Proof.
  constructor; cbn.
  - exists [], [], []. repeat split; try reflexivity. left. reflexivity.
  - discriminate.
  - reflexivity.
  - discriminate.
Qed.

Lemma len_snoc : forall (l : bytes) b, N.of_nat (length (l ++ [b])) = N.of_nat (length l) + 1.
Proof. intros. rewrite app_length. simpl. lia. Qed.

Ltac fin := repeat split; cbn [app length]; rewrite ?app_nil_r, <- ?app_assoc; cbn [app];
  try reflexivity; try assumption; try discriminate; try lia.
(* the text so far, extended by [b], still starts with the white space [w] and then [y] *)
Ltac keep_lead Hr b :=
  let w := fresh "w" in let y := fresh "y" in let rest := fresh "rest" in let Hw := fresh "Hw" in
  let Hl := fresh "Hl" in let Hww := fresh "Hww" in let Hy := fresh "Hy" in
  destruct (Hr eq_refl) as (w & y & rest & Hw & Hl & Hww & Hy); exists w, y, (rest ++ [b]); rewrite Hw; fin.

Lemma one_ws : forall b, is_blockws b = true -> all_ws [b].
Proof. intros b H. unfold all_ws. simpl. rewrite H. reflexivity. Qed.
Lemma one_q : forall b, (b =? 34) = true -> all_q [b].
Proof. intros b H. unfold all_q. simpl. rewrite H. reflexivity. Qed.
Lemma ends_snoc : forall p b, is_blockws b = false -> ends_nonws (p ++ [b]).
Proof. intros p b H. right. exists p, b. split; [reflexivity|exact H]. Qed.
Lemma quote_not_ws : forall b, (b =? 34) = true -> is_blockws b = false.
Proof. intros b H. unfold is_blockws. lia. Qed.
(* pending quotes: the text ends in a quote *)
Lemma ends_quotes : forall p0 wss qs, all_q qs -> qs <> [] -> ends_nonws (p0 ++ wss ++ qs).
Proof.
  intros p0 wss qs Hq Hne. destruct (exists_last Hne) as (q' & y & ->).
  right. exists (p0 ++ wss ++ q'), y. split; [rewrite <- !app_assoc; reflexivity|].
  apply quote_not_ws. unfold all_q in Hq. rewrite forallb_app in Hq. apply andb_prop in Hq. destruct Hq as [_ Hy].
  simpl in Hy. rewrite Bool.andb_true_r in Hy. exact Hy.
Qed.
Lemma qs_nonempty : forall (qs : bytes) n, N.of_nat (length qs) = n -> (n =? 0) = false -> qs <> [].
Proof. intros qs n H Hn E. subst qs. simpl in H. lia. Qed.
(* the first of the pending quotes, or else [b], is the byte after the leading white space *)
Lemma first_after_ws : forall wss qs b, all_q qs -> is_blockws b = false ->
  exists y rest, (wss ++ qs) ++ [b] = wss ++ y :: rest /\ is_blockws y = false.
Proof.
  intros wss qs b Hq Hb. destruct qs as [|q qs'].
  - exists b, []. rewrite app_nil_r. split; [reflexivity|exact Hb].
  - exists q, (qs' ++ [b]). split; [rewrite <- app_assoc; reflexivity|].
    apply quote_not_ws. unfold all_q in Hq. simpl in Hq. apply andb_prop in Hq. apply Hq.
Qed.

Lemma inv_step : forall p st b, inv p st -> bl_closed st = false -> bl_closed (blex_step st b) = false ->
  inv (p ++ [b]) (blex_step st b).
Proof.
  intros p st b [Ht Hr Hn He] Hc Hc'.
  destruct Ht as (p0 & wss & qs & Hp & Hws & Haws & Hqs & Haq & Hp0 & Hend).
  unfold blex_step in *. rewrite Hc in *.
  destruct (negb (bl_quotes st =? 0) && negb (b =? 34)) eqn:Eqc.
  - (* pending quotes become content *)
    assert (Hb34 : (b =? 34) = false) by lia.
    assert (Hqne : qs <> []) by (apply (qs_nonempty qs _ Hqs); lia).
    destruct (is_blockws b) eqn:Ews.
    + constructor; cbn.
      * exists (p0 ++ wss ++ qs), [b], []. subst p. fin; [apply one_ws; assumption|apply ends_quotes; assumption].
      * intros _. destruct (bl_reached st) eqn:Er.
        -- keep_lead Hr b.
        -- subst p. rewrite (Hp0 eq_refl). cbn [app].
           destruct qs as [|q qs']; [congruence|]. exists wss, q, (qs' ++ [b]). fin.
           apply quote_not_ws. unfold all_q in Haq. simpl in Haq. apply andb_prop in Haq. apply Haq.
      * discriminate.
      * discriminate.
    + rewrite Hb34 in *. destruct (b =? 92) eqn:E92.
      * constructor; cbn.
        -- exists (p ++ [b]), [], []. fin. apply ends_snoc; assumption.
        -- intros _. destruct (bl_reached st) eqn:Er.
           ++ keep_lead Hr b.
           ++ subst p. rewrite (Hp0 eq_refl). cbn [app].
              destruct (first_after_ws wss qs b Haq Ews) as (y & rest & Hy & Hyw). exists wss, y, rest. rewrite Hy. fin.
        -- discriminate.
        -- intros _. fin.
      * constructor; cbn.
        -- exists (p ++ [b]), [], []. fin. apply ends_snoc; assumption.
        -- intros _. destruct (bl_reached st) eqn:Er.
           ++ keep_lead Hr b.
           ++ subst p. rewrite (Hp0 eq_refl). cbn [app].
              destruct (first_after_ws wss qs b Haq Ews) as (y & rest & Hy & Hyw). exists wss, y, rest. rewrite Hy. fin.
        -- discriminate.
        -- discriminate.
  - (* no pending quotes, or another quote *)
    destruct (is_blockws b) eqn:Ews.
    + (* white space with no pending quote *)
      assert (Hq0 : bl_quotes st = 0) by (pose proof (ws_not_quote b Ews); lia).
      assert (Hqs0 : qs = []) by (destruct qs; [reflexivity|simpl in Hqs; lia]).
      subst qs. rewrite app_nil_r in Hp.
      constructor; cbn.
      * exists p0, (wss ++ [b]), []. subst p. fin.
        -- rewrite app_length. simpl. lia.
        -- apply all_ws_app; [assumption|apply one_ws; assumption].
      * intros Er. rewrite Er in Hr. keep_lead Hr b.
      * assumption.
      * discriminate.
    + destruct (b =? 34) eqn:E34.
      * destruct (bl_escaped st) eqn:Ee.
        -- (* an escaped quote is content *)
           destruct (He eq_refl) as (Hq0 & Hw0 & Hr1).
           constructor; cbn.
           ++ exists (p ++ [b]), [], []. fin. apply ends_snoc; assumption.
           ++ intros Er. rewrite Er in Hr. keep_lead Hr b.
           ++ assumption.
           ++ discriminate.
        -- constructor; cbn.
           ++ exists p0, wss, (qs ++ [b]). subst p. fin.
              ** rewrite app_length. simpl. lia.
              ** apply all_q_app; [assumption|apply one_q; assumption].
           ++ intros Er. rewrite Er in Hr. keep_lead Hr b.
           ++ assumption.
           ++ discriminate.
      * (* backslash or any other character, no pending quote *)
        assert (Hq0 : bl_quotes st = 0) by lia.
        assert (Hqs0 : qs = []) by (destruct qs; [reflexivity|simpl in Hqs; lia]).
        subst qs. rewrite app_nil_r in Hp.
        destruct (b =? 92) eqn:E92.
        -- constructor; cbn.
           ++ exists (p ++ [b]), [], []. fin. apply ends_snoc; assumption.
           ++ intros _. destruct (bl_reached st) eqn:Er.
              ** keep_lead Hr b.
              ** exists wss, b, []. subst p. rewrite (Hp0 eq_refl). fin.
           ++ discriminate.
           ++ intros _. fin.
        -- constructor; cbn.
           ++ exists (p ++ [b]), [], []. fin. apply ends_snoc; assumption.
           ++ intros _. destruct (bl_reached st) eqn:Er.
              ** keep_lead Hr b.
              ** exists wss, b, []. subst p. rewrite (Hp0 eq_refl). fin.
           ++ discriminate.
           ++ discriminate.
Qed.

Lemma step_closed : forall st b, bl_closed st = true -> blex_step st b = st.
Proof. intros st b H. unfold blex_step. rewrite H. reflexivity. Qed.
(* a closed state stays closed *)
Lemma closed_stays : forall l st, bl_closed st = true -> bl_closed (fold_left blex_step l st) = true.
Proof.
  induction l as [|b l IH]; intros st H; [exact H|]. simpl. apply IH. unfold blex_step. rewrite H. exact H.
Qed.

Lemma inv_run : forall p, bl_closed (blex_run p) = false -> inv p (blex_run p).
Proof.
  unfold blex_run. induction p as [|b p IH] using rev_ind; intros Hc.
  - exact inv0.
  - rewrite fold_left_app in *. cbn [fold_left] in *.
    destruct (bl_closed (fold_left blex_step p blex0)) eqn:Ec.
    + rewrite (step_closed _ b Ec) in Hc. congruence.
    + apply inv_step; [apply IH; reflexivity|exact Ec|exact Hc].
Qed.

(* ---- the two scans ---- *)
Lemma last_quote_none : forall s i limit found,
  (forall k b, nth_error s k = Some b -> (i + k < limit)%nat -> (b =? 34) = false) ->
  last_quote_before s i limit found = found.
Proof.
  induction s as [|b r IH]; intros i limit found H; [reflexivity|].
  cbn [last_quote_before]. destruct (Nat.ltb i limit) eqn:El; [|reflexivity].
  rewrite (H O b eq_refl) by lia. apply IH. intros k c Hk Hlt. apply (H (S k) c Hk). lia.
Qed.

Lemma first_quote_none : forall s i from,
  (forall k b, nth_error s k = Some b -> (from <= i + k)%nat -> (b =? 34) = false) ->
  first_quote_from s i from = (i + length s)%nat.
Proof.
  induction s as [|b r IH]; intros i from H; [simpl; lia|].
  cbn [first_quote_from]. destruct (Nat.leb from i) eqn:El.
  - rewrite (H O b eq_refl) by lia. simpl. rewrite IH; [simpl; lia|].
    intros k c Hk Hle. apply (H (S k) c Hk). lia.
  - simpl. rewrite IH; [simpl; lia|]. intros k c Hk Hle. apply (H (S k) c Hk). lia.
Qed.

Lemma all_ws_nth : forall w k b, all_ws w -> nth_error w k = Some b -> (b =? 34) = false.
Proof.
  intros w k b Hw Hk. apply ws_not_quote. unfold all_ws in Hw. rewrite forallb_forall in Hw.
  apply Hw. eapply nth_error_In. exact Hk.
Qed.

Theorem rescan_exact_proof : forall raw, go_block_lexable raw = true -> block_rescan raw = raw.
Proof.
  intros raw Hg. unfold go_block_lexable in Hg.
  repeat (apply Bool.andb_true_iff in Hg; destruct Hg as [Hg ?]).
  assert (Hc : bl_closed (blex_run raw) = false) by (destruct (bl_closed (blex_run raw)); [discriminate|reflexivity]).
  destruct (inv_run raw Hc) as [Ht Hr Hn _].
  destruct Ht as (p0 & wss & qs & Hp & Hws & Haws & Hqs & Haq & Hp0 & _).
  assert (Hqs0 : qs = []) by (destruct qs; [reflexivity|simpl in Hqs; lia]).
  subst qs. rewrite app_nil_r in Hp.
  unfold block_rescan, block_start, block_end.
  assert (E1 : last_quote_before raw 0 (N.to_nat (bl_lead (blex_run raw))) 0 = O).
  { apply last_quote_none. intros k b Hk Hlt.
    destruct (bl_reached (blex_run raw)) eqn:Er.
    - destruct (Hr eq_refl) as (w & y & rest & Hw & Hl & Hww & _).
      rewrite Hw in Hk. rewrite nth_error_app1 in Hk by lia. eapply all_ws_nth; eassumption.
    - rewrite (Hn eq_refl) in Hlt. simpl in Hlt. lia. }
  assert (E2 : first_quote_from raw 0 (length raw - N.to_nat (bl_ws (blex_run raw))) = length raw).
  { rewrite first_quote_none; [reflexivity|]. intros k b Hk Hle.
    assert (Hlen : length raw = (length p0 + length wss)%nat) by (rewrite Hp at 1; apply app_length).
    rewrite Hp in Hk. rewrite nth_error_app2 in Hk by lia. eapply all_ws_nth; eassumption. }
  rewrite E1, E2. simpl. rewrite Nat.sub_0_r. apply firstn_all.
Qed.

Theorem rescan_exact_lexable : forall raw, go_block_lexable raw = true -> rescan_exact raw = true.
Proof.
  intros raw H. unfold rescan_exact. rewrite (rescan_exact_proof raw H).
  clear H. induction raw as [|b r IH]; [reflexivity|]. simpl. rewrite N.eqb_refl. exact IH.
Qed.

(* Go's BlockStringValueContentBytes is the specification's BlockStringValue() on every delimited text *)
Theorem block_value_agrees_lexable : forall raw,
  go_block_lexable raw = true -> block_string_value raw = spec_block_value raw.
Proof. intros raw H. apply block_value_agrees. apply rescan_exact_lexable. exact H. Qed.
