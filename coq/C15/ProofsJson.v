(* C15 proofs, part 5: the JSON text ValueToJSON writes for a literal is read by the RFC 8259
   parser as the value the GraphQL specification gives the literal. *)
From Gv Require Import lib.Bytes lib.Gql C15.Unicode C15.Model C15.Spec C15.Diag
  C15.ProofsStr C15.ProofsNum C15.ProofsEnc C15.ProofsBlock C15.ProofsRescan.
From Coq Require Import Lia ZifyN ZifyNat ZifyBool ZArith.
Open Scope N_scope.

(* [byte] and [bytes] are aliases of N and list N; rewriting is syntactic about them, so equations
   are normalised before use *)
Ltac nrw H :=
  let E := fresh "E" in
  pose proof H as E; unfold bytes, byte in E; unfold bytes, byte; rewrite E; clear E.

(* ---- nested induction on literals ---- *)
Section ValueInd.
  Variable P : value -> Prop.
  Hypothesis Hvar : forall n, P (VVar n).
  Hypothesis Hint : forall r, P (VInt r).
  Hypothesis Hfloat : forall r, P (VFloat r).
  Hypothesis Hstr : forall r b, P (VStr r b).
  Hypothesis Hbool : forall b, P (VBool b).
  Hypothesis Hnull : P VNull.
  Hypothesis Henum : forall n, P (VEnum n).
  Hypothesis Hlist : forall l, Forall P l -> P (VList l).
  Hypothesis Hobj : forall m, Forall (fun kv => P (snd kv)) m -> P (VObj m).
  Fixpoint value_ind' (v : value) : P v :=
    match v with
    | VVar n => Hvar n
    | VInt r => Hint r
    | VFloat r => Hfloat r
    | VStr r b => Hstr r b
    | VBool b => Hbool b
    | VNull => Hnull
    | VEnum n => Henum n
    | VList l => Hlist l ((fix go (l : list value) : Forall P l :=
                             match l with [] => Forall_nil _ | x :: r => Forall_cons _ (value_ind' x) (go r) end) l)
    | VObj m => Hobj m ((fix go (m : list (name * value)) : Forall (fun kv => P (snd kv)) m :=
                           match m with [] => Forall_nil _ | kv :: r => Forall_cons _ (value_ind' (snd kv)) (go r) end) m)
    end.
End ValueInd.

(* ---- what may start a value, what may follow one ---- *)
Definition value_start (c : byte) : bool :=
  (c =? 110) || (c =? 116) || (c =? 102) || (c =? 34) || (c =? 91) || (c =? 123) || (c =? 45) || is_digit c.
Definition delim (rest : bytes) : bool :=
  match rest with [] => true | c :: _ => (c =? 44) || (c =? 93) || (c =? 125) end.

Lemma delim_num : forall rest, delim rest = true -> num_delim rest = true.
Proof. intros [|c r]; simpl; auto. unfold is_digit. lia. Qed.

Lemma value_start_facts : forall c, value_start c = true ->
  is_jws c = false /\ (c =? 93) = false /\ (c =? 125) = false /\ (c =? 44) = false.
Proof. intros c H. unfold value_start, is_digit in H. unfold is_jws. lia. Qed.

Lemma skip_ws_start : forall c r, is_jws c = false -> skip_ws (c :: r) = c :: r.
Proof. intros c r H. simpl. rewrite H. reflexivity. Qed.

(* ---- the variables' texts: each is a self-delimiting JSON value ---- *)
Record var_framed (raw : bytes) (d : dval) : Prop := {
  vf_start : exists c r, raw = c :: r /\ value_start c = true;
  vf_parse : forall fuel (rest : bytes), (2 * length raw <= fuel)%nat -> delim rest = true ->
                               parse_value true fuel (raw ++ rest) = POk d rest }.
Definition vars_framed (vs : vars) (e : denv) : Prop :=
  forall n, match var_get n vs with
            | Some raw => exists d, denv_get n e = Some d /\ var_framed raw d
            | None => denv_get n e = None
            end.

Section WithVars.
  Variable vs : vars.
  Variable e : denv.
  Hypothesis Hvs : vars_framed vs e.

  Definition print := value_to_json vs.
  Definition den := gql_denote e.

  (* the property proved for each literal *)
  Definition good (v : value) : Prop :=
    lit_valid_b v = true -> go_safe_b v = true ->
    (exists c r, print v = c :: r /\ value_start c = true) /\
    (forall fuel (rest : bytes), (2 * length (print v) <= fuel)%nat -> delim rest = true ->
                       parse_value true fuel (print v ++ rest) = POk (den v) rest).

  (* unfolding the local fixpoints *)
  Lemma print_list : forall items,
    print (VList items) = 91 :: join_comma (map print items) ++ [93].
  Proof.
    intros items. reflexivity.
  Qed.
  Lemma den_list : forall items, den (VList items) = DList (map den items).
  Proof.
    intros items. reflexivity.
  Qed.

  Definition kept (fields : list (name * value)) : list (name * value) :=
    filter (fun kx => negb (field_skipped vs (snd kx))) fields.
  Definition member_text (kx : name * value) : bytes := wrap_quotes (fst kx) ++ 58 :: print (snd kx).

  Lemma print_obj : forall fields,
    print (VObj fields) = 123 :: join_comma (map member_text (kept fields)) ++ [125].
  Proof.
    intros fields. unfold print. cbn [value_to_json]. do 3 f_equal.
    induction fields as [|[k x] r IH]; [reflexivity|]. simpl.
    destruct (field_skipped vs x); simpl; [exact IH|]. f_equal. exact IH.
  Qed.

  Lemma skipped_unprovided : forall x, var_unprovided e x = field_skipped vs x.
  Proof.
    intros [n| | | | | | | |]; try reflexivity. simpl.
    specialize (Hvs n). destruct (var_get n vs) as [raw|].
    - destruct Hvs as (d & Hd & _). rewrite Hd. reflexivity.
    - rewrite Hvs. reflexivity.
  Qed.

  Lemma den_obj : forall fields,
    den (VObj fields) = DObj (map (fun kx => (fst kx, den (snd kx))) (kept fields)).
  Proof.
    intros fields. unfold den. cbn [gql_denote]. f_equal.
    induction fields as [|[k x] r IH]; [reflexivity|]. simpl.
    rewrite skipped_unprovided. destruct (field_skipped vs x); simpl; [exact IH|]. f_equal. exact IH.
  Qed.

  Lemma valid_list : forall items, lit_valid_b (VList items) = true -> Forall (fun x => lit_valid_b x = true) items.
  Proof.
    intros items. cbn [lit_valid_b]. induction items as [|x r IH]; intros H; constructor.
    - apply Bool.andb_true_iff in H. tauto.
    - apply IH. apply Bool.andb_true_iff in H. tauto.
  Qed.
  Lemma safe_list : forall items, go_safe_b (VList items) = true -> Forall (fun x => go_safe_b x = true) items.
  Proof.
    intros items. cbn [go_safe_b]. induction items as [|x r IH]; intros H; constructor.
    - apply Bool.andb_true_iff in H. tauto.
    - apply IH. apply Bool.andb_true_iff in H. tauto.
  Qed.
  Lemma valid_obj : forall fields, lit_valid_b (VObj fields) = true ->
    Forall (fun kx => name_ok (fst kx) = true /\ lit_valid_b (snd kx) = true) fields.
  Proof.
    intros fields. cbn [lit_valid_b]. induction fields as [|[k x] r IH]; intros H; constructor.
    - simpl. apply Bool.andb_true_iff in H. destruct H as [H _]. apply Bool.andb_true_iff in H. tauto.
    - apply IH. apply Bool.andb_true_iff in H. tauto.
  Qed.
  Lemma safe_obj : forall fields, go_safe_b (VObj fields) = true -> Forall (fun kx => go_safe_b (snd kx) = true) fields.
  Proof.
    intros fields. cbn [go_safe_b]. induction fields as [|[k x] r IH]; intros H; constructor.
    - simpl. apply Bool.andb_true_iff in H. tauto.
    - apply IH. apply Bool.andb_true_iff in H. tauto.
  Qed.

  Lemma join_comma_cons2 : forall (p q : bytes) r, join_comma (p :: q :: r) = p ++ 44 :: join_comma (q :: r).
  Proof. reflexivity. Qed.

  (* ---- array elements ---- *)
  Lemma elems_parse : forall items,
    items <> [] ->
    Forall (fun x => (exists c r, print x = c :: r /\ value_start c = true) /\
                     (forall fuel (rest : bytes), (2 * length (print x) <= fuel)%nat -> delim rest = true ->
                                        parse_value true fuel (print x ++ rest) = POk (den x) rest)) items ->
    forall fuel (rest : bytes), (2 * length (join_comma (map print items)) + 1 <= fuel)%nat ->
      parse_elems true fuel (join_comma (map print items) ++ 93 :: rest) = POk (map den items) rest.
  Proof.
    induction items as [|x xs IH]; intros Hne HF fuel rest Hfuel; [congruence|].
    inversion HF as [|? ? [_ Hx] HFs]; subst.
    destruct fuel as [|f]; [lia|].
    destruct xs as [|y ys].
    - cbn [map join_comma] in *. cbn [parse_elems].
      nrw (Hx f (93 :: rest) ltac:(lia) eq_refl).
      cbn [skip_ws is_jws N.eqb Pos.eqb orb]. reflexivity.
    - cbn [map] in *. rewrite join_comma_cons2 in *. rewrite app_length in Hfuel. cbn [length] in Hfuel.
      cbn [parse_elems]. rewrite <- app_assoc. cbn [app].
      nrw (Hx f (44 :: join_comma (print y :: map print ys) ++ 93 :: rest) ltac:(lia) eq_refl).
      cbn [skip_ws is_jws N.eqb Pos.eqb orb].
      nrw (IH ltac:(discriminate) HFs f rest ltac:(cbn [map]; lia)).
      reflexivity.
  Qed.

  (* ---- object members ---- *)
  Lemma members_parse : forall fields,
    fields <> [] ->
    Forall (fun kx => name_ok (fst kx) = true /\
                      (forall fuel (rest : bytes), (2 * length (print (snd kx)) <= fuel)%nat -> delim rest = true ->
                                         parse_value true fuel (print (snd kx) ++ rest) = POk (den (snd kx)) rest)) fields ->
    forall fuel (rest : bytes), (2 * length (join_comma (map member_text fields)) + 1 <= fuel)%nat ->
      parse_members true fuel (join_comma (map member_text fields) ++ 125 :: rest)
      = POk (map (fun kx => (fst kx, den (snd kx))) fields) rest.
  Proof.
    induction fields as [|[k x] xs IH]; intros Hne HF fuel rest Hfuel; [congruence|].
    inversion HF as [|? ? [Hk Hx] HFs]; subst. simpl in Hk, Hx.
    destruct fuel as [|f]; [lia|].
    assert (Hmt : forall tail, member_text (k, x) ++ tail = 34 :: k ++ 34 :: 58 :: print x ++ tail).
    { intros tail. unfold member_text, wrap_quotes. simpl. rewrite <- !app_assoc. reflexivity. }
    assert (Hml : length (member_text (k, x)) = (length k + 3 + length (print x))%nat).
    { unfold member_text, wrap_quotes. simpl. rewrite !app_length. simpl. lia. }
    destruct xs as [|y ys].
    - cbn [map join_comma] in *. cbn [parse_members].
      rewrite Hmt. cbn [skip_ws is_jws N.eqb Pos.eqb orb eat].
      nrw (json_str_plain k (58 :: print x ++ 125 :: rest) (name_plain _ Hk)).
      cbn [skip_ws is_jws N.eqb Pos.eqb orb eat].
      nrw (Hx f (125 :: rest) ltac:(lia) eq_refl).
      cbn [skip_ws is_jws N.eqb Pos.eqb orb]. reflexivity.
    - cbn [map] in *. rewrite join_comma_cons2 in *. rewrite app_length in Hfuel. cbn [length] in Hfuel.
      cbn [parse_members]. rewrite <- app_assoc. rewrite Hmt.
      cbn [skip_ws is_jws N.eqb Pos.eqb orb eat].
      cbn [app].
      nrw (json_str_plain k (58 :: print x ++ 44 :: join_comma (member_text y :: map member_text ys) ++ 125 :: rest) (name_plain _ Hk)).
      cbn [skip_ws is_jws N.eqb Pos.eqb orb eat].
      nrw (Hx f (44 :: join_comma (member_text y :: map member_text ys) ++ 125 :: rest) ltac:(lia) eq_refl).
      cbn [skip_ws is_jws N.eqb Pos.eqb orb].
      nrw (IH ltac:(discriminate) HFs f rest ltac:(cbn [map]; lia)).
      reflexivity.
  Qed.

  Lemma dispatch_other : forall c, ((c =? 45) || is_digit c) = true ->
    (c =? 110) = false /\ (c =? 116) = false /\ (c =? 102) = false /\ (c =? 34) = false /\ (c =? 91) = false /\ (c =? 123) = false.
  Proof. intros c H. unfold is_digit in H. lia. Qed.

  Lemma number_case : forall (raw : bytes) fuel (rest : bytes),
    (exists c t, raw = c :: t /\ ((c =? 45) || is_digit c) = true) ->
    json_scan_number (raw ++ rest) = Some (raw, rest) ->
    (2 * length raw <= fuel)%nat ->
    parse_value true fuel (raw ++ rest) = POk (num_denote raw) rest.
  Proof.
    intros raw fuel rest (c & t & -> & Hc) Hs Hf.
    destruct fuel as [|f]; [simpl in Hf; lia|].
    cbn [parse_value]. cbn [app] in *.
    assert (Hws : is_jws c = false) by (unfold is_jws; unfold is_digit in Hc; lia).
    rewrite (skip_ws_start _ _ Hws).
    destruct (dispatch_other c Hc) as (E1 & E2 & E3 & E4 & E5 & E6).
    rewrite E1, E2, E3, E4, E5, E6, Hc, Hs. reflexivity.
  Qed.

  Lemma string_case : forall (body str : bytes) fuel (rest : bytes),
    json_str true (body ++ 34 :: rest) = Some (str, rest) ->
    (1 <= fuel)%nat ->
    parse_value true fuel ((34 :: body ++ [34]) ++ rest) = POk (DStr str) rest.
  Proof.
    intros body str fuel rest Hs Hf. destruct fuel as [|f]; [lia|].
    cbn [parse_value app]. rewrite <- app_assoc. cbn [app].
    cbn [skip_ws is_jws N.eqb Pos.eqb orb]. nrw Hs. reflexivity.
  Qed.

  Theorem all_good : forall v, good v.
  Proof.
    induction v using value_ind'; unfold good; intros Hv Hsafe.
    - (* variable *)
      unfold print, den. cbn [value_to_json gql_denote]. specialize (Hvs n).
      destruct (var_get n vs) as [raw|].
      + destruct Hvs as (d & Hd & [Hst Hp]). rewrite Hd. split; [exact Hst|exact Hp].
      + rewrite Hvs. split.
        * exists 110, [117; 108; 108]. split; reflexivity.
        * intros fuel rest Hf _. destruct fuel; [simpl in Hf; lia|]. reflexivity.
    - (* int *)
      unfold print, den. cbn [value_to_json gql_denote]. cbn [lit_valid_b] in Hv.
      assert (Hh : exists c t, r = c :: t /\ ((c =? 45) || is_digit c) = true).
      { unfold gql_int_ok in Hv. destruct (gql_integer_part r) eqn:E; [|discriminate]. exact (integer_part_head _ _ E). }
      split.
      + destruct Hh as (c & t & -> & Hc). exists c, t. split; [reflexivity|]. unfold value_start. unfold is_digit in *. lia.
      + intros fuel rest Hf Hd. apply number_case; [exact Hh| |exact Hf].
        apply scan_int; [exact Hv|apply delim_num; exact Hd].
    - (* float *)
      unfold print, den. cbn [value_to_json gql_denote]. cbn [lit_valid_b] in Hv.
      assert (Hh : exists c t, r = c :: t /\ ((c =? 45) || is_digit c) = true).
      { unfold gql_float_ok in Hv. destruct (gql_integer_part r) eqn:E; [|discriminate]. exact (integer_part_head _ _ E). }
      split.
      + destruct Hh as (c & t & -> & Hc). exists c, t. split; [reflexivity|]. unfold value_start. unfold is_digit in *. lia.
      + intros fuel rest Hf Hd. apply number_case; [exact Hh| |exact Hf].
        apply scan_float; [exact Hv|apply delim_num; exact Hd].
    - (* strings *)
      unfold print, den. destruct b.
      + (* block *)
        cbn [value_to_json gql_denote]. cbn [go_safe_b] in Hsafe. unfold block_safe in Hsafe.
        apply Bool.andb_true_iff in Hsafe. destruct Hsafe as [Hsafe ?].
        split.
        * exists 34, (json_encode_body O (block_string_value r) ++ [34]). split; reflexivity.
        * intros fuel rest Hf _. unfold json_encode_string.
          rewrite <- (block_value_agrees_lexable r) by assumption.
          apply string_case; [|unfold json_encode_string in Hf; simpl in Hf; lia].
          apply encoded_string_read_back. assumption.
      + (* quoted *)
        cbn [value_to_json gql_denote]. cbn [lit_valid_b] in Hv.
        destruct (gql_str GPlain r) as [out|] eqn:Eg; [|discriminate].
        split.
        * exists 34, (quoted_json r ++ [34]). split; reflexivity.
        * intros fuel rest Hf _. unfold wrap_quotes.
          apply string_case; [|unfold wrap_quotes in Hf; simpl in Hf; lia].
          apply (quoted_string_agrees (length r)); auto.
    - (* bool *)
      unfold print, den. cbn [value_to_json gql_denote]. split.
      + destruct b; [exists 116, [114; 117; 101]|exists 102, [97; 108; 115; 101]]; split; reflexivity.
      + intros fuel rest Hf _. destruct fuel; [destruct b; simpl in Hf; lia|]. destruct b; reflexivity.
    - (* null *)
      unfold print, den. cbn [value_to_json gql_denote]. split.
      + exists 110, [117; 108; 108]. split; reflexivity.
      + intros fuel rest Hf _. destruct fuel; [simpl in Hf; lia|]. reflexivity.
    - (* enum *)
      unfold print, den. cbn [value_to_json gql_denote]. cbn [lit_valid_b] in Hv.
      repeat (apply Bool.andb_true_iff in Hv; destruct Hv as [Hv ?]).
      split.
      + exists 34, (n ++ [34]). split; reflexivity.
      + intros fuel rest Hf _. unfold wrap_quotes.
        apply string_case; [|unfold wrap_quotes in Hf; simpl in Hf; lia].
        apply json_str_plain. apply name_plain. exact Hv.
    - (* list *)
      rewrite print_list, den_list. split.
      + eexists _, _. split; reflexivity.
      + intros fuel rest Hf Hd.
        assert (HF : Forall (fun x => (exists c r, print x = c :: r /\ value_start c = true) /\
                     (forall fuel (rest : bytes), (2 * length (print x) <= fuel)%nat -> delim rest = true ->
                                        parse_value true fuel (print x ++ rest) = POk (den x) rest)) l).
        { pose proof (valid_list _ Hv) as H1. pose proof (safe_list _ Hsafe) as H2.
          rewrite Forall_forall in *. intros x Hin. apply (H x Hin); auto. }
        destruct fuel as [|f]; [simpl in Hf; lia|].
        cbn [parse_value app]. cbn [skip_ws is_jws N.eqb Pos.eqb orb].
        rewrite <- app_assoc. cbn [app].
        destruct l as [|x xs].
        * cbn [map join_comma app skip_ws is_jws N.eqb Pos.eqb orb eat]. reflexivity.
        * inversion HF as [|? ? [(c & r & Hpr & Hc) _] _]; subst.
          destruct (value_start_facts c Hc) as (Hws & E93 & _).
          assert (Hhead : exists t, join_comma (map print (x :: xs)) ++ 93 :: rest = c :: t).
          { cbn [map]. destruct xs; cbn [map join_comma]; rewrite Hpr; eexists; reflexivity. }
          destruct Hhead as (t & Hhead). rewrite Hhead at 1.
          rewrite (skip_ws_start _ _ Hws). cbn [eat]. rewrite E93.
          assert (Hbound : (2 * length (join_comma (map print (x :: xs))) + 1 <= f)%nat).
          { clear -Hf. cbn [length] in Hf. rewrite app_length in Hf. cbn [length] in Hf. lia. }
          nrw (elems_parse (x :: xs) ltac:(discriminate) HF f rest Hbound).
          reflexivity.
    - (* object *)
      rewrite print_obj, den_obj. split.
      + eexists _, _. split; reflexivity.
      + intros fuel rest Hf Hd.
        assert (HF : Forall (fun kx => name_ok (fst kx) = true /\
                      (forall fuel (rest : bytes), (2 * length (print (snd kx)) <= fuel)%nat -> delim rest = true ->
                                         parse_value true fuel (print (snd kx) ++ rest) = POk (den (snd kx)) rest)) (kept m)).
        { pose proof (valid_obj _ Hv) as H1. pose proof (safe_obj _ Hsafe) as H2.
          rewrite Forall_forall in *. intros kx Hin. unfold kept in Hin. apply filter_In in Hin. destruct Hin as [Hin _].
          destruct (H1 kx Hin) as [Hk Hvx]. split; [exact Hk|]. apply (H kx Hin); auto. }
        destruct fuel as [|f]; [simpl in Hf; lia|].
        cbn [parse_value app]. cbn [skip_ws is_jws N.eqb Pos.eqb orb].
        rewrite <- app_assoc. cbn [app].
        destruct (kept m) as [|[k x] xs] eqn:Ek.
        * cbn [map join_comma app skip_ws is_jws N.eqb Pos.eqb orb eat]. reflexivity.
        * assert (Hhead : exists t, join_comma (map member_text ((k, x) :: xs)) ++ 125 :: rest = 34 :: t).
          { cbn [map]. destruct xs; cbn [map join_comma]; unfold member_text, wrap_quotes; cbn [fst app]; eexists; reflexivity. }
          destruct Hhead as (t & Hhead). rewrite Hhead at 1.
          cbn [skip_ws is_jws N.eqb Pos.eqb orb eat].
          assert (Hbound : (2 * length (join_comma (map member_text ((k, x) :: xs))) + 1 <= f)%nat).
          { clear -Hf. cbn [length] in Hf. rewrite app_length in Hf. cbn [length] in Hf. lia. }
          nrw (members_parse ((k, x) :: xs) ltac:(discriminate) HF f rest Hbound).
          reflexivity.
  Qed.
End WithVars.

(* ---- the property theorems ---- *)
Theorem value_preserved_partial_proof : forall vs e l,
  vars_framed vs e -> lit_valid l -> go_safe_b l = true ->
  json_denote (value_to_json vs l) = JOk (gql_denote e l).
Proof.
  intros vs e l Hvs Hv Hs.
  destruct (all_good vs e Hvs l Hv Hs) as [_ Hp].
  unfold json_denote, json_denote_gen.
  specialize (Hp (json_fuel (value_to_json vs l)) []).
  rewrite app_nil_r in Hp. unfold print, den in Hp.
  rewrite Hp; [reflexivity| unfold json_fuel; lia | reflexivity].
Qed.

Theorem vars_valid_json_partial_proof : forall vs e l,
  vars_framed vs e -> lit_valid l -> go_safe_b l = true ->
  json_valid_b (value_to_json vs l) = true.
Proof.
  intros vs e l Hvs Hv Hs. unfold json_valid_b.
  rewrite (value_preserved_partial_proof vs e l Hvs Hv Hs). reflexivity.
Qed.
