(* C15 proofs, part 4: Go's BlockStringValueContentBytes (as modelled, with the repairs
   c15_fix_block-blank-only and c15_fix_block-escaped-triple-quote) computes the specification's
   BlockStringValue() whenever the delimiter re-scan returns the text between the delimiters. *)
From Gv Require Import lib.Bytes lib.Gql C15.Unicode C15.Model C15.Spec C15.Diag.
From Coq Require Import Lia ZifyN ZifyNat ZifyBool ZArith.
Open Scope N_scope.

Lemma bytes_eqb_eq : forall a b, bytes_eqb a b = true -> a = b.
Proof.
  induction a as [|x a IH]; intros [|y b] H; simpl in H; try discriminate; auto.
  apply Bool.andb_true_iff in H. destruct H as [H1 H2]. f_equal; [lia|auto].
Qed.

(* ---- 1. no escaped triple quote: nothing to unescape ---- *)
Lemma unescape_id : forall s, has_escaped_triple s = false -> block_unescape s = s.
Proof.
  induction s as [|b r IH]; intros H; [reflexivity|].
  cbn [has_escaped_triple] in H. cbn [block_unescape].
  destruct (starts_esc_triple (b :: r)); [discriminate|]. f_equal. apply IH. exact H.
Qed.

(* ---- 2. line splitting ---- *)
Lemma split_lines_eq : forall n s cur, (length s <= n)%nat -> split_lines s cur = sp_lines s cur.
Proof.
  induction n; intros s cur Hlen.
  { destruct s; [reflexivity|simpl in Hlen; lia]. }
  destruct s as [|b r]; [reflexivity|]. simpl in Hlen.
  cbn [split_lines sp_lines].
  destruct (b =? 10).
  { f_equal. apply IHn. lia. }
  destruct (b =? 13).
  { destruct r as [|c r'].
    - reflexivity.
    - simpl in Hlen. destruct (c =? 10); f_equal; apply IHn; simpl; lia. }
  apply IHn. lia.
Qed.

(* ---- 3. indentation and blank lines ---- *)
Lemma indent_eq : forall l, leading_ws_count l = sp_indent l.
Proof.
  induction l as [|b r IH]; [reflexivity|]. simpl. unfold sp_is_ws.
  rewrite Bool.orb_comm. destruct ((b =? 9) || (b =? 32)); [f_equal; exact IH|reflexivity].
Qed.
Lemma blank_eq : forall l, line_blank l = sp_blank l.
Proof.
  unfold line_blank, sp_blank. induction l as [|b r IH]; [reflexivity|].
  simpl. unfold sp_is_ws at 1. rewrite (Bool.orb_comm (b =? 32)).
  destruct ((b =? 9) || (b =? 32)) eqn:E.
  - simpl. exact IH.
  - simpl. reflexivity.
Qed.

Definition combine_ci (acc rest : option nat) : option nat :=
  match acc, rest with
  | None, x => x
  | Some c, None => Some c
  | Some c, Some d => Some (Nat.min c d)
  end.
Lemma common_indent_eq : forall tail acc, common_indent tail acc = combine_ci acc (sp_common_indent tail).
Proof.
  induction tail as [|l r IH]; intros acc.
  - destruct acc; reflexivity.
  - cbn [common_indent sp_common_indent]. rewrite indent_eq.
    destruct (Nat.ltb (sp_indent l) (length l)) eqn:E.
    + rewrite IH. destruct acc as [c|]; destruct (sp_common_indent r) as [d|]; simpl.
      * destruct (Nat.ltb (sp_indent l) c) eqn:E2; simpl; f_equal; lia.
      * destruct (Nat.ltb (sp_indent l) c) eqn:E2; simpl; f_equal; lia.
      * reflexivity.
      * reflexivity.
    + apply IH.
Qed.

Lemma skipn_min : forall (l : bytes) c, skipn (Nat.min (length l) c) l = skipn c l.
Proof.
  intros l c. destruct (Nat.leb c (length l)) eqn:E.
  - f_equal. lia.
  - rewrite (skipn_all2 l (n := c)) by lia. rewrite Nat.min_l by lia. apply skipn_all.
Qed.

Definition sp_remove_indent (lines : list bytes) : list bytes :=
  match lines with
  | [] => []
  | l0 :: tail =>
    match sp_common_indent tail with
    | None => lines
    | Some c => l0 :: map (skipn c) tail
    end
  end.
Lemma remove_indent_eq : forall lines, remove_indent lines = sp_remove_indent lines.
Proof.
  intros [|l0 tail]; [reflexivity|]. unfold remove_indent, sp_remove_indent.
  rewrite common_indent_eq. simpl.
  destruct (sp_common_indent tail) as [c|]; [|reflexivity].
  f_equal. apply map_ext. intros l. apply skipn_min.
Qed.

(* removing the common indentation does not change which lines are blank *)
Lemma blank_skipn : forall c l, sp_blank l = true -> sp_blank (skipn c l) = true.
Proof.
  induction c; intros l H; [exact H|]. destruct l as [|b r]; [reflexivity|].
  simpl in *. apply Bool.andb_true_iff in H. apply IHc. tauto.
Qed.
Lemma nonblank_skipn : forall c l, sp_blank l = false -> (c <= sp_indent l)%nat -> sp_blank (skipn c l) = false.
Proof.
  induction c; intros l H Hc; [exact H|]. destruct l as [|b r]; [discriminate|].
  simpl in *. destruct (sp_is_ws b); [|lia]. simpl in H. apply IHc; [exact H|lia].
Qed.
Lemma nonblank_indent_lt : forall l, sp_blank l = false -> Nat.ltb (sp_indent l) (length l) = true.
Proof.
  induction l as [|b r IH]; intros H; [discriminate|]. simpl in *.
  destruct (sp_is_ws b); simpl in *; [|reflexivity]. specialize (IH H). lia.
Qed.
Lemma common_indent_le : forall tail c l, sp_common_indent tail = Some c -> In l tail -> sp_blank l = false -> (c <= sp_indent l)%nat.
Proof.
  induction tail as [|x r IH]; intros c l Hc Hin Hb; [inversion Hin|].
  cbn [sp_common_indent] in Hc. destruct Hin as [->|Hin].
  - rewrite (nonblank_indent_lt _ Hb) in Hc. destruct (sp_common_indent r); inversion Hc; lia.
  - destruct (Nat.ltb (sp_indent x) (length x)).
    + destruct (sp_common_indent r) as [d|] eqn:Er.
      * inversion Hc. specialize (IH d l eq_refl Hin Hb). lia.
      * exfalso. clear -Er Hin Hb. induction r as [|y r IHr]; [inversion Hin|].
        cbn [sp_common_indent] in Er. destruct Hin as [->|Hin].
        { rewrite (nonblank_indent_lt _ Hb) in Er. destruct (sp_common_indent r); discriminate. }
        destruct (Nat.ltb (sp_indent y) (length y)); [destruct (sp_common_indent r); discriminate|]. auto.
    + apply (IH c l Hc Hin Hb).
Qed.

Lemma remove_indent_blankness : forall lines,
  map sp_blank (sp_remove_indent lines) = map sp_blank lines.
Proof.
  intros [|l0 tail]; [reflexivity|]. unfold sp_remove_indent.
  destruct (sp_common_indent tail) as [c|] eqn:Ec; [|reflexivity].
  simpl. f_equal. rewrite map_map. apply map_ext_in. intros l Hin.
  destruct (sp_blank l) eqn:Eb.
  - apply blank_skipn. exact Eb.
  - apply nonblank_skipn; [exact Eb|]. apply (common_indent_le tail c l Ec Hin Eb).
Qed.

(* ---- 5. selecting the lines to keep ---- *)
Definition trim_end (X : list bytes) : list bytes := rev (sp_drop_blank (rev X)).

Lemma trim_end_snoc : forall X l, trim_end (X ++ [l]) = if sp_blank l then trim_end X else X ++ [l].
Proof.
  intros X l. unfold trim_end. rewrite rev_unit. cbn [sp_drop_blank].
  destruct (sp_blank l); [reflexivity|]. simpl. rewrite rev_involutive. reflexivity.
Qed.

Lemma last_nonblank_snoc : forall X l i f,
  last_nonblank (X ++ [l]) i f = if line_blank l then last_nonblank X i f else Some (i + length X)%nat.
Proof.
  induction X as [|x X IH]; intros l i f.
  - simpl. destruct (line_blank l); [reflexivity|]. f_equal. lia.
  - simpl. rewrite IH. destruct (line_blank l); [reflexivity|]. f_equal. lia.
Qed.

Lemma trim_end_firstn : forall Y i j,
  last_nonblank Y i None = Some j ->
  trim_end Y = firstn (S (j - i)) Y /\ (i <= j < i + length Y)%nat.
Proof.
  induction Y as [|l Y IH] using rev_ind; intros i j H.
  - simpl in H. discriminate.
  - rewrite last_nonblank_snoc in H. rewrite trim_end_snoc. rewrite <- blank_eq.
    assert (Hal : length (Y ++ [l]) = S (length Y)) by (rewrite app_length; simpl; lia).
    destruct (line_blank l).
    + destruct (IH i j H) as [E B]. split; [|lia].
      rewrite E. rewrite firstn_app.
      replace (S (j - i) - length Y)%nat with O by lia. cbn [firstn]. rewrite app_nil_r. reflexivity.
    + inversion H; subst j. split; [|lia].
      replace (S (i + length Y - i))%nat with (length (Y ++ [l])) by lia.
      rewrite firstn_all. reflexivity.
Qed.

Lemma last_nonblank_blank_prefix : forall P Y i f,
  forallb line_blank P = true -> last_nonblank (P ++ Y) i f = last_nonblank Y (i + length P)%nat f.
Proof.
  induction P as [|p P IH]; intros Y i f H.
  - simpl. f_equal. lia.
  - simpl in H. apply Bool.andb_true_iff in H. destruct H as [Hp HP].
    simpl. rewrite Hp. rewrite IH by exact HP. f_equal. lia.
Qed.

Lemma first_nonblank_spec : forall L i,
  match first_nonblank L i with
  | Some j => exists k, j = (i + k)%nat /\ sp_drop_blank L = skipn k L /\ forallb line_blank (firstn k L) = true
                        /\ exists y Y, skipn k L = y :: Y /\ line_blank y = false
  | None => forallb line_blank L = true
  end.
Proof.
  induction L as [|l L IH]; intros i; [reflexivity|].
  cbn [first_nonblank sp_drop_blank]. rewrite <- blank_eq.
  destruct (line_blank l) eqn:E.
  - specialize (IH (S i)). destruct (first_nonblank L (S i)) as [j|].
    + destruct IH as (k & Hj & Hd & Hp & y & Y & Hs & Hy). exists (S k). repeat split.
      * lia.
      * exact Hd.
      * simpl. rewrite E. exact Hp.
      * exists y, Y. split; assumption.
    + simpl. rewrite E. exact IH.
  - exists O. repeat split; try reflexivity; try lia. exists l, L. split; [reflexivity|exact E].
Qed.

Lemma last_nonblank_some : forall Y i f, (exists y, In y Y /\ line_blank y = false) -> exists j, last_nonblank Y i f = Some j.
Proof.
  induction Y as [|l Y IH] using rev_ind; intros i f (y & Hin & Hy); [inversion Hin|].
  rewrite last_nonblank_snoc. destruct (line_blank l) eqn:E; [|eauto].
  apply IH. apply in_app_or in Hin. destruct Hin as [Hin|[->|[]]]; [eauto|congruence].
Qed.

Theorem select_lines : forall L,
  existsb (fun l => negb (line_blank l)) L = true ->
  firstn (S (match last_nonblank L 0 None with Some i => i | None => Nat.pred (length L) end)
          - (match first_nonblank L 0 with Some i => i | None => O end))
         (skipn (match first_nonblank L 0 with Some i => i | None => O end) L)
  = trim_end (sp_drop_blank L).
Proof.
  intros L Hex.
  pose proof (first_nonblank_spec L 0) as Hf.
  destruct (first_nonblank L 0) as [first|].
  - destruct Hf as (k & Hk & Hd & Hp & y & Y & Hs & Hy). simpl in Hk. subst first.
    rewrite Hd.
    assert (HL : L = firstn k L ++ skipn k L) by (symmetry; apply firstn_skipn).
    assert (Hlen : length (firstn k L) = k).
    { apply firstn_length_le. assert (length (skipn k L) > 0)%nat by (rewrite Hs; simpl; lia).
      rewrite skipn_length in H. lia. }
    assert (Hln : last_nonblank L 0 None = last_nonblank (skipn k L) k None).
    { rewrite HL at 1. rewrite last_nonblank_blank_prefix by exact Hp. rewrite Hlen. reflexivity. }
    destruct (last_nonblank_some (skipn k L) k None) as [j Hj].
    { exists y. split; [rewrite Hs; left; reflexivity|exact Hy]. }
    rewrite Hln, Hj.
    destruct (trim_end_firstn _ _ _ Hj) as [E B].
    rewrite E. f_equal. lia.
  - exfalso. apply existsb_exists in Hex. destruct Hex as (l & Hin & Hl).
    rewrite forallb_forall in Hf. rewrite (Hf l Hin) in Hl. discriminate.
Qed.

(* ---- 6. joining ---- *)
Lemma join_eq : forall L, join_lines L = sp_join L.
Proof.
  induction L as [|l L IH]; [reflexivity|]. destruct L as [|l' L']; [reflexivity|].
  change (join_lines (l :: l' :: L')) with (l ++ 10 :: join_lines (l' :: L')).
  change (sp_join (l :: l' :: L')) with (l ++ 10 :: sp_join (l' :: L')).
  rewrite IH. reflexivity.
Qed.

(* ---- the block string value ---- *)
Lemma existsb_map_blank : forall A B,
  map sp_blank A = map sp_blank B ->
  existsb (fun l => negb (line_blank l)) A = existsb (fun l => negb (line_blank l)) B.
Proof.
  induction A as [|a A IH]; intros [|b B] H; simpl in H; try discriminate; [reflexivity|].
  inversion H. simpl. rewrite !blank_eq. rewrite H1. f_equal. apply IH. exact H2.
Qed.

Lemma forallb_existsb_neg : forall (L : list bytes),
  forallb line_blank L = false -> existsb (fun l => negb (line_blank l)) L = true.
Proof.
  induction L as [|l L IH]; intros H; [discriminate|]. simpl in *.
  destruct (line_blank l); simpl in *; [apply IH; exact H|reflexivity].
Qed.

(* ---- bytes.ReplaceAll of the escaped triple quote is the specification's unescaping ---- *)
Fixpoint quotes_ahead (k : nat) (s : bytes) : Prop :=
  match k with
  | O => True
  | S k' => match s with b :: r => b = 34 /\ quotes_ahead k' r | [] => False end
  end.
Lemma starts_same : forall s, starts_bs_triple s = starts_esc_triple s.
Proof. reflexivity. Qed.
Lemma starts_quotes : forall b r, starts_esc_triple (b :: r) = true -> quotes_ahead 3 r.
Proof.
  intros b r H. unfold starts_esc_triple in H.
  destruct r as [|q1 [|q2 [|q3 r']]]; try discriminate.
  simpl. repeat split; lia.
Qed.
Lemma replace_is_unescape : forall s k, quotes_ahead k s -> replace_esc_triple k s = block_unescape s.
Proof.
  induction s as [|b r IH]; intros k Hq; [destruct k; reflexivity|].
  destruct k as [|k'].
  - cbn [replace_esc_triple block_unescape]. rewrite starts_same.
    destruct (starts_esc_triple (b :: r)) eqn:E.
    + apply IH. apply (starts_quotes b r E).
    + f_equal. apply IH. exact I.
  - simpl in Hq. destruct Hq as [-> Hq].
    cbn [replace_esc_triple block_unescape].
    match goal with |- context [starts_esc_triple ?x] => assert (E : starts_esc_triple x = false) end.
    { unfold starts_esc_triple. destruct r as [|q1 [|q2 [|q3 r']]]; reflexivity. }
    rewrite E. f_equal. apply IH. exact Hq.
Qed.

Lemma drop_blank_all : forall L, forallb line_blank L = true -> sp_drop_blank L = [].
Proof.
  induction L as [|l L IH]; intros H; [reflexivity|]. simpl in H. apply Bool.andb_true_iff in H.
  destruct H as [Hl HL]. cbn [sp_drop_blank]. rewrite <- blank_eq, Hl. apply IH. exact HL.
Qed.
Lemma first_nonblank_exists : forall L i j, first_nonblank L i = Some j -> existsb (fun l => negb (line_blank l)) L = true.
Proof.
  induction L as [|l L IH]; intros i j H; [discriminate|]. simpl in *.
  destruct (line_blank l); simpl; [apply (IH (S i) j H)|reflexivity].
Qed.

Theorem block_value_agrees : forall raw,
  rescan_exact raw = true -> block_string_value raw = spec_block_value raw.
Proof.
  intros raw Hr.
  unfold block_string_value. unfold rescan_exact in Hr. rewrite (bytes_eqb_eq _ _ Hr).
  rewrite (replace_is_unescape raw O I).
  unfold spec_block_value.
  set (u := block_unescape raw).
  unfold block_lines_value.
  rewrite (split_lines_eq (length u) u []) by lia.
  rewrite remove_indent_eq.
  change (match sp_lines u [] with
          | [] => []
          | l0 :: tail => match sp_common_indent tail with None => sp_lines u [] | Some c => l0 :: map (skipn c) tail end
          end) with (sp_remove_indent (sp_lines u [])).
  set (L := sp_remove_indent (sp_lines u [])).
  pose proof (select_lines L) as Hsel.
  pose proof (first_nonblank_spec L 0) as Hf.
  destruct (first_nonblank L 0) as [first|] eqn:Ef.
  - pose proof (Hsel (first_nonblank_exists L 0 first Ef)) as E. unfold trim_end in E.
    rewrite <- E. apply join_eq.
  - rewrite (drop_blank_all L Hf). reflexivity.
Qed.
