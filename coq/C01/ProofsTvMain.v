(* C01 / (5) translation validation, part 8: the theorem behind the validator that is run on real plans.

   [tv2_static_b] is evaluated on the translation [ds] of a real plan (universe free).  If it
   accepts, then for EVERY universe of the contract the gateway model executing the plan returns
   the JSON value a single server over the supergraph returns for the CLIENT's operation (object
   member order aside), and has errors iff that server has ([tv2_sound], [tv2_sound_execute]). *)
From Coq Require Import PeanoNat Lia Permutation.
From Gv Require Import lib.Bytes lib.Json lib.Gql lib.Exec
     C01.ProofsBase C01.ProofsFuel C01.ProofsSplit C01.ProofsSim C01.ProofsJoin C01.ProofsOverlap
     C01.ProofsTwoStep C01.ProofsViol C01.ProofsCtxBase C01.ProofsCtx C01.ProofsTwoStepWf C01.ProofsPlanAlg
     C01.ProofsPlan C01.ProofsPlanOk C01.ProofsDedup C01.ProofsListHop C01.ProofsListHopWf C01.ProofsListHopTn
     C01.ProofsTvStatic C01.ProofsTvDefs C01.ProofsTvHidden C01.ProofsPlanGen C01.ProofsPlan2 C01.ProofsPlan2Link
     C01.ProofsPlan2Root C01.ProofsTvOrder.
Open Scope N_scope.

Section TvMain.
  Variables (sc : schema) (subs : list schema) (frags : list fragment) (vdsM : list vardef) (supM : list (bytes * json)).
  Variables (g0 kq : nat).
  Variable decls : list (name * list name).
  Variable rdecls : list rdecl.
  Variable tn : bool.

  Notation vars := (pvars vdsM supM).
  Notation Q := (s_query sc).
  Notation flat_of' := (flat_of sc frags vdsM supM g0).

  (* the client's sub-selection (in the client's order) flattens *)
  Definition order_ok_b (d : dfield2) : bool :=
    match d2_fetch d with
    | Some (_, T, _) => flat_okb sc frags vdsM supM g0 T (map snd (d2_sel d))
    | None => true
    end.

  (* THE VALIDATOR *)
  Definition tv2_static_b (ds : list dfield2) : bool :=
    plan2_static_b sc subs frags vdsM supM g0 kq decls rdecls tn ds && forallb order_ok_b ds.

  Lemma hop_fuel_form (nn : bool) C b : (b + 4 <= C)%nat -> exists c, C = hop_fuel nn c /\ (b <= c)%nat.
  Proof.
    intros H. destruct nn.
    - exists (C - 4)%nat. unfold hop_fuel. split; lia.
    - exists (C - 3)%nat. unfold hop_fuel. split; lia.
  Qed.

  Lemma list_hop_fuel_form (nnl nni : bool) C b : (b + 7 <= C)%nat -> exists c, C = list_hop_fuel nnl nni c /\ (b <= c)%nat.
  Proof.
    intros H. unfold list_hop_fuel. cbv zeta. destruct nnl, nni.
    - exists (C - 6)%nat. split; lia.
    - exists (C - 5)%nat. split; lia.
    - exists (C - 5)%nat. split; lia.
    - exists (C - 4)%nat. split; lia.
  Qed.

  (* the monolith on the client's operation and on the plan theorem's operation *)
  Theorem mono_order U eQ C ds :
    tv2_static_b ds = true ->
    univ2_contract_b sc subs decls rdecls U = true -> find_entity U Q [] = Some eQ ->
    (g0 + g0 + 7 <= C)%nat -> (length ds < C)%nat ->
    sres_mpeq (mono_client2 U sc frags vdsM supM eQ C ds) (mono_ab2 U sc frags vdsM supM eQ C ds).
  Proof.
    intros Hok Hc HeQ HC Hlen. unfold tv2_static_b in Hok. apply andb_true_iff in Hok. destruct Hok as [Hok Hord].
    unfold univ2_contract_b in Hc. apply andb_true_iff in Hc. destruct Hc as [_ Hrl].
    unfold plan2_static_b in Hok. repeat (apply andb_true_iff in Hok; destruct Hok as [Hok ?]).
    match goal with H : forallb (field2_static_b _ _ _ _ _ _ _ _ _ _) ds = true |- _ => rename H into HF end.
    match goal with H : names_distinct _ = true |- _ => rename H into Hk end.
    unfold mono_client2, mono_ab2.
    rewrite (exec_fields_fold sc U frags vars Mono C Q {| ov_ent := eQ; ov_repr := None |} (map ab_sel2 ds)).
    rewrite (exec_fields_fold sc U frags vars Mono C Q {| ov_ent := eQ; ov_repr := None |} (map client_sel2 ds)).
    - rewrite !fold_right_map. apply fold_rel1. intros d Hin.
      rewrite forallb_forall in HF, Hord. specialize (HF d Hin). specialize (Hord d Hin).
      unfold field2_static_b in HF. apply andb_true_iff in HF. destruct HF as [HF Hfetch].
      repeat (apply andb_true_iff in HF; destruct HF as [HF ?]). apply negb_true_iff in HF.
      unfold order_ok_b in Hord.
      destruct (d2_fetch d) as [[[si T] ks]|] eqn:Efd.
      + unfold fetch2_static_b in Hfetch. cbv zeta in Hfetch.
        repeat (apply andb_true_iff in Hfetch; destruct Hfetch as [Hfetch ?]).
        destruct (find_type Q (s_types sc)) as [td|] eqn:Etd; [|discriminate].
        destruct (find_field (d2_name d) (td_fields td)) as [fd|] eqn:Efd'; [|discriminate].
        match goal with H : ty_eqb _ _ = true |- _ => apply ty_eqb_eq in H; rename H into Hty end.
        destruct (is_leaf_kind sc T) as [[|]|] eqn:Elk; try discriminate.
        match goal with H : keys_disjoint _ _ = true |- _ => rename H into Hdisj end.
        match goal with H : flat_okb _ _ _ _ _ _ (d2_selB d) = true |- _ => rename H into HokB end.
        match goal with H : flat_okb _ _ _ _ _ _ (d2_selA d) = true |- _ => rename H into HokA end.
        match goal with H : negb (bytes_eqb T s_Entity) = true |- _ => apply negb_true_iff in H; rename H into HnE end.
        match goal with H : declared_obj sc T = true |- _ => rename H into HdT end.
        assert (HflA : flatten sc frags vars g0 T (d2_selA d) = FlatOk (flat_of' T (d2_selA d))).
        { unfold flat_okb in HokA. unfold flat_of. destruct (flatten sc frags vars g0 T (d2_selA d)); [reflexivity|discriminate]. }
        assert (HflB : flatten sc frags vars g0 T (d2_selB d) = FlatOk (flat_of' T (d2_selB d))).
        { unfold flat_okb in HokB. unfold flat_of. destruct (flatten sc frags vars g0 T (d2_selB d)); [reflexivity|discriminate]. }
        assert (HflI : flatten sc frags vars g0 T (map snd (d2_sel d)) = FlatOk (flat_of' T (map snd (d2_sel d)))).
        { unfold flat_okb in Hord. unfold flat_of. destruct (flatten sc frags vars g0 T (map snd (d2_sel d))); [reflexivity|discriminate]. }
        unfold client_sel2, ab_sel2.
        assert (Hfacts : forall c, (g0 + g0 <= c)%nat ->
                   flatten sc frags vars c T (map snd (d2_sel d)) = FlatOk (flat_of' T (map snd (d2_sel d))) /\
                   flatten sc frags vars c T (sel_untagged (d2_sel d)) = FlatOk (flat_of' T (d2_selA d)) /\
                   flatten sc frags vars c T (sel_tagged (d2_sel d)) = FlatOk (flat_of' T (d2_selB d)) /\
                   flatten sc frags vars c T (sel_untagged (d2_sel d) ++ sel_tagged (d2_sel d)) =
                   FlatOk (flat_of' T (d2_selA d) ++ flat_of' T (d2_selB d))).
        { intros c Hc. assert (Hc1 : (g0 <= c)%nat) by (clear -Hc; lia).
          split; [apply flatten_mono_ok with (f := g0); [exact Hc1|exact HflI]|].
          split; [apply flatten_mono_ok with (f := g0); [exact Hc1|exact HflA]|].
          split; [apply flatten_mono_ok with (f := g0); [exact Hc1|exact HflB]|].
          apply flatten_mono_ok with (f := (g0 + g0)%nat); [exact Hc|]. apply flatten_app; [exact HflA|exact HflB]. }
        destruct (d2_shape d) as [nn|nnl nni] eqn:Esh; cbn [shape_ty] in Hty.
        2:{ assert (HC' : (g0 + g0 + 7 <= C)%nat) by exact HC.
            destruct (list_hop_fuel_form nnl nni C (g0 + g0)%nat HC') as (c & -> & Hc).
            destruct (Hfacts c Hc) as (HcI & HcA & HcB & HcAB).
            destruct (root_list_value U sc eQ HeQ td fd nnl nni T (d2_name d) Hrl Etd Efd' Hty) as (items & Hfv).
            exact (list_hop_order sc U frags vars T (d2_sel d) (flat_of' T (map snd (d2_sel d))) (flat_of' T (d2_selA d))
                                  (flat_of' T (d2_selB d)) c HdT HnE HcI HcA HcB HcAB Hdisj
                                  Q {| ov_ent := eQ; ov_repr := None |} (d2_alias d) (d2_name d) (d2_args d) [] nnl nni td fd items
                                  HF Etd Efd' Hty Elk Hfv). }
        assert (HC' : (g0 + g0 + 4 <= C)%nat) by (clear -HC; lia).
        destruct (hop_fuel_form nn C (g0 + g0)%nat HC') as (c & -> & Hc).
        assert (Hc1 : (g0 <= c)%nat) by (clear -Hc; lia).
        assert (HcI : flatten sc frags vars c T (map snd (d2_sel d)) = FlatOk (flat_of' T (map snd (d2_sel d))))
          by (apply flatten_mono_ok with (f := g0); [exact Hc1|exact HflI]).
        assert (HcA : flatten sc frags vars c T (sel_untagged (d2_sel d)) = FlatOk (flat_of' T (d2_selA d)))
          by (apply flatten_mono_ok with (f := g0); [exact Hc1|exact HflA]).
        assert (HcB : flatten sc frags vars c T (sel_tagged (d2_sel d)) = FlatOk (flat_of' T (d2_selB d)))
          by (apply flatten_mono_ok with (f := g0); [exact Hc1|exact HflB]).
        assert (HcAB : flatten sc frags vars c T (sel_untagged (d2_sel d) ++ sel_tagged (d2_sel d)) =
                       FlatOk (flat_of' T (d2_selA d) ++ flat_of' T (d2_selB d))).
        { apply flatten_mono_ok with (f := (g0 + g0)%nat); [exact Hc|]. apply flatten_app; [exact HflA|exact HflB]. }
        exact (hop_order sc U frags vars Q {| ov_ent := eQ; ov_repr := None |} (d2_alias d) (d2_name d) (d2_args d) [] nn T td fd
                         (d2_sel d) (flat_of' T (map snd (d2_sel d))) (flat_of' T (d2_selA d)) (flat_of' T (d2_selB d)) c
                         HF Etd Efd' Hty Elk HdT HnE HcI HcA HcB HcAB Hdisj).
      + (* no entity fetch: the field is the same on both sides *)
        unfold client_sel2, ab_sel2, d2_selA, d2_selB.
        rewrite (all_untagged_sel _ Hfetch), (sel_tagged_none _ Hfetch), app_nil_r.
        apply (rel1_refl (response_name (d2_alias d) (d2_name d))).
        destruct (single_field_shape sc U frags vars Mono C (d2_alias d) (d2_name d) (d2_args d) (map snd (d2_sel d)) Q
                    {| ov_ent := eQ; ov_repr := None |} []) as [[e H']|[v [e H']]];
          [left; exists e; exact H'|right; exists v, e; exact H'].
    - apply plain_sel2. intros d. unfold client_sel2. repeat eexists.
    - rewrite (keys_distinct_map_fields client_sel2 d2_key); [exact Hk|intros d; reflexivity].
    - rewrite map_length. exact Hlen.
    - apply plain_sel2. intros d. unfold ab_sel2. repeat eexists.
    - rewrite (keys_distinct_map_fields ab_sel2 d2_key); [exact Hk|intros d; reflexivity].
    - rewrite map_length. exact Hlen.
  Qed.

  (* ---- the theorem of the validator ---- *)
  Theorem tv2_sound ds :
    tv2_static_b ds = true ->
    forall (U : universe) (eQ : entity),
      univ2_contract_b sc subs decls rdecls U = true ->
      find_entity U Q [] = Some eQ ->
      forall fM fM' f1 f2 : nat,
        no_oof (snd (mono_ab2 U sc frags vdsM supM eQ fM ds)) = true ->
        no_oof (snd (mono_client2 U sc frags vdsM supM eQ fM' ds)) = true ->
        (length ds + 2 <= fM)%nat ->
        (plan2_fuel g0 fM ds <= f1)%nat -> (plan2_fuel g0 fM ds + g0 <= f2)%nat ->
        sres_peq (mono_client2 U sc frags vdsM supM eQ fM' ds)
                 (gateway2 U sc subs frags vdsM supM eQ g0 f1 f2 tn ds).
  Proof.
    intros Hok U eQ Hc HeQ fM fM' f1 f2 Hn Hn' HfM Hf1 Hf2.
    pose proof Hok as Hok'. unfold tv2_static_b in Hok'. apply andb_true_iff in Hok'. destruct Hok' as [Hp _].
    destruct (plan2_sound U sc subs frags vdsM supM eQ g0 kq f1 f2 fM decls rdecls tn HeQ ds Hp Hc Hn HfM Hf1 Hf2) as [G1 G2].
    set (C := (fM + fM' + g0 + g0 + 7 + length ds)%nat).
    assert (E1 : mono_ab2 U sc frags vdsM supM eQ C ds = mono_ab2 U sc frags vdsM supM eQ fM ds).
    { unfold mono_ab2 in *. apply exec_sels_fuel_mono; [unfold C; lia|exact Hn]. }
    assert (E2 : mono_client2 U sc frags vdsM supM eQ C ds = mono_client2 U sc frags vdsM supM eQ fM' ds).
    { unfold mono_client2 in *. apply exec_sels_fuel_mono; [unfold C; lia|exact Hn']. }
    assert (HC : (g0 + g0 + 7 <= C)%nat) by (unfold C; lia).
    assert (HL : (length ds < C)%nat) by (unfold C; lia).
    pose proof (mono_order U eQ C ds Hok Hc HeQ HC HL) as HO. rewrite E1, E2 in HO.
    apply sres_mpeq_peq in HO. destruct HO as [O1 O2].
    split; [rewrite G1; exact O1|tauto].
  Qed.

  (* the same with the monolith as [execute] on the client's document *)
  Theorem tv2_sound_execute ds :
    tv2_static_b ds = true ->
    forall (U : universe) (eQ : entity),
      univ2_contract_b sc subs decls rdecls U = true ->
      find_entity U Q [] = Some eQ ->
      forall fM fM' f1 f2 : nat,
        no_oof (snd (mono_ab2 U sc frags vdsM supM eQ fM ds)) = true ->
        no_oof (rs_errs (execute fM' sc U Mono (client_doc2 vdsM frags ds) None (JObj supM))) = true ->
        (length ds + 2 <= fM)%nat ->
        (plan2_fuel g0 fM ds <= f1)%nat -> (plan2_fuel g0 fM ds + g0 <= f2)%nat ->
        sres_peq (sres_of_response (execute fM' sc U Mono (client_doc2 vdsM frags ds) None (JObj supM)))
                 (gateway2 U sc subs frags vdsM supM eQ g0 f1 f2 tn ds).
  Proof.
    intros Hok U eQ Hc HeQ fM fM' f1 f2 Hn Hn' HfM Hf1 Hf2.
    unfold client_doc2 in *. rewrite (execute_query fM' sc U Mono vdsM _ frags (JObj supM) eQ HeQ) in Hn' |- *.
    rewrite sres_response_id. cbn [rs_errs response_of_sres] in Hn'.
    apply (tv2_sound ds Hok U eQ Hc HeQ fM fM' f1 f2 Hn Hn' HfM Hf1 Hf2).
  Qed.
End TvMain.
