(* C01 property theorems: the algebra of execution that every correct federation plan relies on,
   for ALL schemas, universes, documents and variables (fuel explicit).  Statements only; every
   proof is [exact lemma]; the lemmas live in C01/Proofs*.v.  Non-vacuity: C01/Examples.v.

   Vocabulary (definitions in C01/Proofs*.v):
   - [no_oof errs]            no XOutOfFuel among the errors
   - [split_merge ra rb]      members and errors concatenate; None (null propagation) in either makes
                              the result None; a violation in the first stops execution
   - [keys_disjoint la lb]    boolean on flatten results: no common response key
   - [shift_errs pre errs]    prefix every XErr path with [pre]
   - [repr_of e ks]           {"__typename": type of e, k: value of the FSc leaf k of e, ...}
   - [key_consistent decls U] boolean: for every entity and declared key exactly one entity matches
   - [sels_noent] / [frags_noent]  no field named _entities in the selections / fragments
   - [sel_reqs e fl]          names required by the FReq fields of [e] selected at top level of [fl]
   - [reqs_covered e fl kr]   those names are among the representation fields [kr]
   - [two_step] / [mono_hop]  the two-request composition and the monolithic execution (ProofsTwoStep.v)
   - [config_wf_b sc sc']     the subgraph schema sc' is a well-formed projection of the supergraph sc
   - [univ_ok_b sc' U]        objects reached through sc'-fields have sc'-declared object types
   - [req_ok_b sc' frags vars A k objty sels]  the request is executable on sc' (type conditions declared,
                              variables within A, a type-level dry run finds every selected field)
   - [dedup] / [undedup]      first occurrences of the representations / results mapped back by index
   - [two_step_list]          list hop: collect, de-duplicate, one _entities call, merge item-wise
   - [two_step_abs]           abstract hop: runtime type read from __typename (ProofsAbstractHop.v)
   - [plan_of] / [run_plan] / [plan_ok_b]  the depth-1 plan language, its execution and checker (ProofsPlan*.v)
   - [plan_static_b] / [univ_contract_b]  the plan checker split into a universe-free validator and an explicit,
                              checkable contract on the universe (ProofsTvStatic.v)
   - [dfield2] / [gateway2] / [tv2_static_b]  the form a REAL plan is translated to (one root fetch per root
                              subgraph, entity fetches with the planner's __typename, the client's selection order),
                              its execution as the gateway model, and the validator run on real plans
                              (ProofsPlan2*.v, ProofsTv*.v); [sres_weq] same data, errors iff; [sres_peq] / [jperm]
                              same JSON value up to the order of object members, errors iff
   - [ptree] / [rfield3] / [gateway3] / [tv3_static_b]  plan TREES: per position the client's items tagged with the
                              fetch that resolves them and the entity fetches of the position (which earlier sources are
                              asked for which representation fields -- several for @requires inputs of another
                              subgraph --, subgraph, representation fields), nested to any depth; the root
                              [__typename] answered by the gateway itself; [PAbs]: a field resolved per RUNTIME
                              type (interface / union positions): the client's and the source's selections verbatim
                              and one plan tree per concrete object type over the selections flattened at that type
                              ([gmerge]: the fields of one response key merged), [tv4_static_b]; a representation
                              field may be NESTED ( nk { inner leaves } ): [repr_of_n] / [repr_from_n] / [nkey_ok_b] /
                              [nkey_consistent] (ProofsNKey*.v), [tv5_static_b] with the nested key declarations; execution and
                              validator (ProofsPlan3*.v); [fuel_bound] fuel that always suffices without spreads
   Examples: Examples.v, ExamplesWf.v, ExamplesList.v, ExamplesAbstract.v, ExamplesPlan.v, ExamplesTv.v, ExamplesTv3.v *)
From Coq Require Import PeanoNat Lia.
From Gv Require Import lib.Bytes lib.Json lib.Gql lib.Exec
     C01.ProofsBase C01.ProofsFuel C01.ProofsSplit C01.ProofsSim C01.ProofsJoin C01.ProofsOverlap C01.ProofsTwoStep
     C01.ProofsCtxBase C01.ProofsCtx C01.ProofsTwoStepWf C01.ProofsDedup C01.ProofsViol C01.ProofsListHop C01.ProofsListHopWf C01.ProofsListHopTn C01.ProofsAbstractHop C01.ProofsPlanAlg C01.ProofsPlan C01.ProofsPlanOk
     C01.ProofsTvStatic C01.ProofsTvDefs C01.ProofsTvHidden C01.ProofsPlanGen C01.ProofsPlan2 C01.ProofsPlan2Link C01.ProofsPlan2Root C01.ProofsTvOrder C01.ProofsTvMain
     C01.ProofsFuelSuff C01.ProofsNKeyDefs C01.ProofsPlan3 C01.ProofsPlan3Keys C01.ProofsPlan3Fetch C01.ProofsPlan3Field C01.ProofsPlan3Step C01.ProofsPlan3Main.
Open Scope N_scope.

(* ---- E1: a result without XOutOfFuel does not change when more fuel is supplied ---- *)
Theorem fuel_monotone :
  forall (sc : schema) (U : universe) (frags : list fragment) (vars : list (bytes * json))
  (md : mode) (f f' : nat) (objty : name) (ov : oval) (sels : list selection)
  (path : list pel),
  (f <= f')%nat ->
  no_oof (snd (exec_sels sc U frags vars md f objty ov sels path)) = true ->
  exec_sels sc U frags vars md f' objty ov sels path =
  exec_sels sc U frags vars md f objty ov sels path.
Proof. exact ProofsFuel.exec_sels_fuel_mono. Qed.
Print Assumptions fuel_monotone.

Theorem fuel_monotone_field :
  forall (sc : schema) (U : universe) (frags : list fragment) (vars : list (bytes * json))
  (md : mode) (f f' : nat) (objty : name) (ov : oval) (key : name)
  (s : selection) (subs : list selection) (path : list pel),
  (f <= f')%nat ->
  no_oof (c_errs (exec_field sc U frags vars md f objty ov key s subs path)) = true ->
  exec_field sc U frags vars md f' objty ov key s subs path =
  exec_field sc U frags vars md f objty ov key s subs path.
Proof. exact ProofsFuel.exec_field_fuel_mono. Qed.
Print Assumptions fuel_monotone_field.

Theorem fuel_monotone_complete :
  forall (sc : schema) (U : universe) (frags : list fragment) (vars : list (bytes * json))
  (md : mode) (f f' : nat) (t : ty) (ov : oval) (fname : name) (cargs : list (bytes * json))
  (fv : fval) (subs : list selection) (path : list pel),
  (f <= f')%nat ->
  no_oof (c_errs (complete sc U frags vars md f t ov fname cargs fv subs path)) = true ->
  complete sc U frags vars md f' t ov fname cargs fv subs path =
  complete sc U frags vars md f t ov fname cargs fv subs path.
Proof. exact ProofsFuel.complete_fuel_mono. Qed.
Print Assumptions fuel_monotone_complete.

Theorem fuel_monotone_flatten :
  forall (sc : schema) (frags : list fragment) (vars : list (bytes * json)) 
  (f f' : nat) (objty : name) (sels : list selection),
  (f <= f')%nat ->
  flat_no_oof (flatten sc frags vars f objty sels) = true ->
  flatten sc frags vars f' objty sels = flatten sc frags vars f objty sels.
Proof. exact ProofsFuel.flatten_mono. Qed.
Print Assumptions fuel_monotone_flatten.

Theorem fuel_monotone_execute :
  forall (f f' : nat) (sc : schema) (U : universe) (md : mode) (doc : document)
  (opname : option name) (supplied : json),
  (f <= f')%nat ->
  no_oof (rs_errs (execute f sc U md doc opname supplied)) = true ->
  execute f' sc U md doc opname supplied = execute f sc U md doc opname supplied.
Proof. exact ProofsFuel.execute_fuel_mono. Qed.
Print Assumptions fuel_monotone_execute.


(* ---- E2: selection sets over one object can be executed independently and merged ---- *)
Theorem exec_split :
  forall (sc : schema) (U : universe) (frags : list fragment) (vars : list (bytes * json))
  (md : mode) (fa fb f : nat) (objty : name) (ov : oval) (A B : list selection)
  (path : list pel) (la lb : list selection),
  flatten sc frags vars fa objty A = FlatOk la ->
  flatten sc frags vars fb objty B = FlatOk lb ->
  keys_disjoint la lb = true ->
  no_oof (snd (exec_sels sc U frags vars md fa objty ov A path)) = true ->
  (fst (exec_sels sc U frags vars md fa objty ov A path) <> None ->
  no_oof (snd (exec_sels sc U frags vars md fb objty ov B path)) = true) ->
  (fa + fb <= f)%nat ->
  exec_sels sc U frags vars md f objty ov (A ++ B) path =
  split_merge (exec_sels sc U frags vars md fa objty ov A path)
  (exec_sels sc U frags vars md fb objty ov B path).
Proof. exact ProofsSplit.exec_split. Qed.
Print Assumptions exec_split.

Theorem exec_split_exact :
  forall (sc : schema) (U : universe) (frags : list fragment) (vars : list (bytes * json))
  (md : mode) (f : nat) (objty : name) (ov : oval) (A B : list selection)
  (path : list pel) (la lb : list selection),
  flatten sc frags vars f objty A = FlatOk la ->
  flatten sc frags vars f objty B = FlatOk lb ->
  flat_no_oof (flatten sc frags vars f objty (A ++ B)) = true ->
  keys_disjoint la lb = true ->
  exec_sels sc U frags vars md f objty ov (A ++ B) path =
  split_merge (exec_sels sc U frags vars md f objty ov A path)
  (exec_sels sc U frags vars md f objty ov B path).
Proof. exact ProofsSplit.exec_split_eq. Qed.
Print Assumptions exec_split_exact.

Theorem exec_split_overlap_groups :
  forall (sc : schema) (U : universe) (frags : list fragment) (vars : list (bytes * json))
  (md : mode) (f : nat) (objty : name) (ov : oval) (A B : list selection)
  (path : list pel) (la lb : list selection),
  flatten sc frags vars f objty A = FlatOk la ->
  flatten sc frags vars f objty B = FlatOk lb ->
  flat_no_oof (flatten sc frags vars f objty (A ++ B)) = true ->
  exec_sels sc U frags vars md f objty ov (A ++ B) path =
  split_merge
  (sels_go (exec_field sc U frags vars md (Init.Nat.pred f) objty ov) path
  (map (ext_group lb) (groups la)))
  (exec_flat sc U frags vars md f objty ov (new_keys la lb) path).
Proof. exact ProofsOverlap.exec_split_overlap_groups. Qed.
Print Assumptions exec_split_overlap_groups.

Theorem exec_split_overlap_partial :
  forall (sc : schema) (U : universe) (frags : list fragment) (vars : list (bytes * json))
  (md : mode) (f : nat) (objty : name) (ov : oval) (A B : list selection)
  (path : list pel) (la lb : list selection),
  flatten sc frags vars f objty A = FlatOk la ->
  flatten sc frags vars f objty B = FlatOk lb ->
  flat_no_oof (flatten sc frags vars f objty (A ++ B)) = true ->
  overlap_nosubs la lb = true ->
  exec_sels sc U frags vars md f objty ov (A ++ B) path =
  split_merge (exec_sels sc U frags vars md f objty ov A path)
  (exec_flat sc U frags vars md f objty ov (new_keys la lb) path).
Proof. exact ProofsOverlap.exec_split_overlap_partial. Qed.
Print Assumptions exec_split_overlap_partial.

Theorem exec_split_overlap_data_partial :
  forall (sc : schema) (U : universe) (frags : list fragment) (vars : list (bytes * json))
  (md : mode) (f : nat) (objty : name) (ov : oval) (A B : list selection)
  (path : list pel) (la lb : list selection),
  flatten sc frags vars f objty A = FlatOk la ->
  flatten sc frags vars f objty B = FlatOk lb ->
  flat_no_oof (flatten sc frags vars f objty (A ++ B)) = true ->
  overlap_nosubs la lb = true ->
  overlap_nosubs lb la = true ->
  overlap_same la lb ->
  fst (exec_sels sc U frags vars md f objty ov (A ++ B) path) =
  merge_opt (fst (exec_sels sc U frags vars md f objty ov A path))
  (fst (exec_sels sc U frags vars md f objty ov B path)).
Proof. exact ProofsOverlap.exec_split_overlap_data. Qed.
Print Assumptions exec_split_overlap_data_partial.


(* ---- relocation of the response path; subgraph mode == monolithic mode; the object under _entities; violations carry errors ---- *)
Theorem exec_path_shift :
  forall (sc : schema) (U : universe) (frags : list fragment) (vars : list (bytes * json))
  (md : mode) (pre : list pel) (f : nat) (objty : name) (ov : oval)
  (sels : list selection) (p : list pel),
  exec_sels sc U frags vars md f objty ov sels (pre ++ p) =
  shift_sres pre (exec_sels sc U frags vars md f objty ov sels p).
Proof. exact ProofsSim.exec_sels_path_shift. Qed.
Print Assumptions exec_path_shift.

Theorem exec_sub_eq_mono :
  forall (sc : schema) (U : universe) (frags : list fragment) (vars : list (bytes * json))
  (f : nat) (objty : name) (e : entity) (sels : list selection)
  (p : list pel),
  frags_noent frags = true ->
  sels_noent sels = true ->
  exec_sels sc U frags vars Sub f objty {| ov_ent := e; ov_repr := None |} sels p =
  exec_sels sc U frags vars Mono f objty {| ov_ent := e; ov_repr := None |} sels p.
Proof. exact ProofsSim.exec_sels_sub_mono. Qed.
Print Assumptions exec_sub_eq_mono.

Theorem exec_under_entities_eq_mono :
  forall (sc : schema) (U : universe) (frags : list fragment) (vars : list (bytes * json))
  (f : nat) (objty : name) (e : entity) (r : json) (sels : list selection)
  (pre : list pel) (fl : list selection),
  frags_noent frags = true ->
  sels_noent sels = true ->
  flatten sc frags vars f objty sels = FlatOk fl ->
  (forall s : selection,
  In s fl ->
  forall x : name,
  In x (fval_reqs (ent_fval e (sel_fname s))) ->
  req_read Sub (Some r) e x = req_read Mono None e x) ->
  exec_sels sc U frags vars Sub f objty {| ov_ent := e; ov_repr := Some r |} sels pre =
  shift_sres pre
  (exec_sels sc U frags vars Mono f objty {| ov_ent := e; ov_repr := None |} sels []).
Proof. exact ProofsSim.exec_sels_repr_sim. Qed.
Print Assumptions exec_under_entities_eq_mono.

Theorem null_propagation_has_errors :
  forall (sc : schema) (U : universe) (frags : list fragment) (vars : list (bytes * json))
  (md : mode) (f : nat) (objty : name) (ov : oval) (sels : list selection)
  (path : list pel) (errs : list xerr),
  exec_sels sc U frags vars md f objty ov sels path = (None, errs) -> errs <> [].
Proof. exact ProofsViol.exec_sels_none_errs. Qed.
Print Assumptions null_propagation_has_errors.


(* ---- E3: entity join ---- *)
Theorem key_consistent_identifies :
  forall (decls : list (name * list name)) (U : universe) (e : entity) (ks : list name),
  key_consistent decls U = true ->
  In e U -> In (en_type e, ks) decls -> find_by_repr U (repr_of e ks) = Some e.
Proof. exact ProofsJoin.key_consistent_find. Qed.
Print Assumptions key_consistent_identifies.

Theorem key_extended_identifies :
  forall (U : universe) (e : entity) (ks rs : list name),
  find_by_repr U (repr_of e ks) = Some e -> find_by_repr U (repr_of e (ks ++ rs)) = Some e.
Proof. exact ProofsJoin.find_by_repr_extend. Qed.
Print Assumptions key_extended_identifies.

Theorem entity_join_field :
  forall (sc : schema) (U : universe) (frags : list fragment) (vars : list (bytes * json))
  (fM f : nat) (T : name) (sel fl : list selection) (ovq : oval)
  (key : name) (a : option name) (args : list argument) (dirs : list directive)
  (ss : list selection) (path : list pel) (rs : list json) (es : list entity),
  kind_of sc T <> None ->
  frags_noent frags = true ->
  sels_noent sel = true ->
  reprs_of vars args = rs ->
  flatten sc frags vars fM T sel = FlatOk fl ->
  Forall2
  (fun (r : json) (e : entity) =>
  find_by_repr U r = Some e /\
  en_type e = T /\
  (forall s : selection,
  In s fl ->
  forall x : name,
  In x (fval_reqs (ent_fval e (sel_fname s))) ->
  req_read Sub (Some r) e x = req_read Mono None e x) /\
  no_oof (snd (mono_at sc U frags vars fM T sel e)) = true) rs es ->
  (fM + 2 <= f)%nat ->
  exec_field sc U frags vars Sub f (s_query sc) ovq key (SField a s_entities args dirs ss)
  [SInline (Some T) [] sel] path =
  {|
  c_json := JArr (fst (join_loop (mono_at sc U frags vars fM T sel) path 0 es));
  c_errs := snd (join_loop (mono_at sc U frags vars fM T sel) path 0 es);
  c_viol := false
  |}.
Proof. exact ProofsJoin.entity_join_field_list. Qed.
Print Assumptions entity_join_field.

Theorem entity_join :
  forall (sc : schema) (U : universe) (frags : list fragment)
  (decls : list (name * list name)) (fM f : nat) (vds : list vardef)
  (T : name) (sel : list selection) (supplied : json) (root : entity)
  (fl : list selection) (ks : list name) (e : entity),
  let vars := effective_vars (entities_op vds T sel) (supplied_members supplied) in
  let mono := exec_sels sc U frags vars Mono fM T {| ov_ent := e; ov_repr := None |} sel [] in
  key_consistent decls U = true ->
  In (T, ks) decls ->
  In e U ->
  en_type e = T ->
  find_entity U (s_query sc) [] = Some root ->
  kind_of sc T <> None ->
  frags_noent frags = true ->
  sels_noent sel = true ->
  assoc s_representations vars = Some (JArr [repr_of e ks]) ->
  flatten sc frags vars fM T sel = FlatOk fl ->
  sel_reqs e fl = [] ->
  no_oof (snd mono) = true ->
  (fM + 3 <= f)%nat ->
  execute f sc U Sub (entities_doc vds T sel frags) None supplied =
  {|
  rs_data := JObj [(s_entities, JArr [ojson (fst mono)])];
  rs_errs := shift_errs [PN s_entities; PI 0] (snd mono)
  |}.
Proof. exact ProofsJoin.entity_join_execute. Qed.
Print Assumptions entity_join.

Theorem entity_join_requires :
  forall (sc : schema) (U : universe) (frags : list fragment)
  (decls : list (name * list name)) (fM f : nat) (vds : list vardef)
  (T : name) (sel : list selection) (supplied : json) (root : entity)
  (fl : list selection) (ks rq : list name) (e : entity),
  let vars := effective_vars (entities_op vds T sel) (supplied_members supplied) in
  let mono := exec_sels sc U frags vars Mono fM T {| ov_ent := e; ov_repr := None |} sel [] in
  key_consistent decls U = true ->
  In (T, ks) decls ->
  In e U ->
  en_type e = T ->
  find_entity U (s_query sc) [] = Some root ->
  kind_of sc T <> None ->
  frags_noent frags = true ->
  sels_noent sel = true ->
  assoc s_representations vars = Some (JArr [repr_of e (ks ++ rq)]) ->
  flatten sc frags vars fM T sel = FlatOk fl ->
  reqs_covered e fl (ks ++ rq) = true ->
  no_oof (snd mono) = true ->
  (fM + 3 <= f)%nat ->
  execute f sc U Sub (entities_doc vds T sel frags) None supplied =
  {|
  rs_data := JObj [(s_entities, JArr [ojson (fst mono)])];
  rs_errs := shift_errs [PN s_entities; PI 0] (snd mono)
  |}.
Proof. exact ProofsJoin.entity_join_requires_execute. Qed.
Print Assumptions entity_join_requires.

Theorem entity_join_list :
  forall (sc : schema) (U : universe) (frags : list fragment)
  (decls : list (name * list name)) (fM f : nat) (vds : list vardef)
  (T : name) (sel : list selection) (supplied : json) (root : entity)
  (fl : list selection) (ks : list name) (es : list entity),
  let vars := effective_vars (entities_op vds T sel) (supplied_members supplied) in
  let mono := mono_at sc U frags vars fM T sel in
  key_consistent decls U = true ->
  In (T, ks) decls ->
  find_entity U (s_query sc) [] = Some root ->
  kind_of sc T <> None ->
  frags_noent frags = true ->
  sels_noent sel = true ->
  assoc s_representations vars = Some (JArr (map (fun e : entity => repr_of e ks) es)) ->
  flatten sc frags vars fM T sel = FlatOk fl ->
  Forall
  (fun e : entity =>
  In e U /\ en_type e = T /\ sel_reqs e fl = [] /\ no_oof (snd (mono e)) = true) es ->
  (fM + 3 <= f)%nat ->
  execute f sc U Sub (entities_doc vds T sel frags) None supplied =
  {|
  rs_data := JObj [(s_entities, JArr (map (fun e : entity => ojson (fst (mono e))) es))];
  rs_errs := snd (join_loop mono [PN s_entities] 0 es)
  |}.
Proof. exact ProofsJoin.entity_join_list_execute. Qed.
Print Assumptions entity_join_list.

Theorem entity_join_list_requires :
  forall (sc : schema) (U : universe) (frags : list fragment)
  (decls : list (name * list name)) (fM f : nat) (vds : list vardef)
  (T : name) (sel : list selection) (supplied : json) (root : entity)
  (fl : list selection) (ks rq : list name) (es : list entity),
  let vars := effective_vars (entities_op vds T sel) (supplied_members supplied) in
  let mono := mono_at sc U frags vars fM T sel in
  key_consistent decls U = true ->
  In (T, ks) decls ->
  find_entity U (s_query sc) [] = Some root ->
  kind_of sc T <> None ->
  frags_noent frags = true ->
  sels_noent sel = true ->
  assoc s_representations vars = Some (JArr (map (fun e : entity => repr_of e (ks ++ rq)) es)) ->
  flatten sc frags vars fM T sel = FlatOk fl ->
  Forall
  (fun e : entity =>
  In e U /\
  en_type e = T /\ reqs_covered e fl (ks ++ rq) = true /\ no_oof (snd (mono e)) = true) es ->
  (fM + 3 <= f)%nat ->
  execute f sc U Sub (entities_doc vds T sel frags) None supplied =
  {|
  rs_data := JObj [(s_entities, JArr (map (fun e : entity => ojson (fst (mono e))) es))];
  rs_errs := snd (join_loop mono [PN s_entities] 0 es)
  |}.
Proof. exact ProofsJoin.entity_join_list_requires_execute. Qed.
Print Assumptions entity_join_list_requires.


(* ---- E4: one entity hop, federated == monolithic ---- *)
Theorem federated_two_step :
  forall (U : universe) (sc : schema) (frags : list fragment) (vars : list (bytes * json))
  (sc1 : schema) (frags1 : list fragment) (vars1 : list (bytes * json))
  (sc2 : schema) (frags2 : list fragment) (vds2 : list vardef) (sup2 : list (bytes * json))
  (root2 : entity) (P : name) (eP : entity) (af : option name) (f : name)
  (args : list argument) (dirs : list directive) (path : list pel)
  (nn : bool) (n : name) (td : type_def) (fd : field_def) (T : name)
  (ks : list name) (selA selB flA flB : list selection) (g0 g2 : nat),
  bytes_eqb f s_typename = false ->
  find_type P (s_types sc) = Some td ->
  find_field f (td_fields td) = Some fd ->
  fd_type fd = (if nn then TNonNull (TNamed n) else TNamed n) ->
  is_leaf_kind sc n = Some false ->
  frags_noent frags1 = true ->
  sels_noent [SField af f args dirs (selA ++ key_sels ks)] = true ->
  (forall fuel : nat,
  exec_sels sc1 U frags1 vars1 Mono fuel P {| ov_ent := eP; ov_repr := None |}
  [SField af f args dirs (selA ++ key_sels ks)] path =
  exec_sels sc U frags vars Mono fuel P {| ov_ent := eP; ov_repr := None |}
  [SField af f args dirs (selA ++ key_sels ks)] path) ->
  kind_of sc2 T <> None ->
  frags_noent frags2 = true ->
  sels_noent selB = true ->
  find_entity U (s_query sc2) [] = Some root2 ->
  flatten sc frags vars g0 T selA = FlatOk flA ->
  flatten sc frags vars g0 T selB = FlatOk flB ->
  keys_disjoint flA flB = true ->
  keys_unaliased ks flA = true ->
  (forall e : entity,
  obj_target U (hop_cargs sc vars args fd) (hop_fv {| ov_ent := eP; ov_repr := None |} f) =
  Some (Some e) ->
  obj_type_ok sc n e = true ->
  en_type e = T /\
  find_by_repr U (repr_of e ks) = Some e /\
  forallb (key_field_ok sc e) ks = true /\
  (exists flB2 : list selection,
  flatten sc2 frags2 (vars2_of vds2 sup2 T selB (repr_of e ks)) g2 T selB = FlatOk flB2 /\
  reqs_covered e flB2 ks = true) /\
  (forall fuel : nat,
  exec_sels sc2 U frags2 (vars2_of vds2 sup2 T selB (repr_of e ks)) Mono fuel T
  {| ov_ent := e; ov_repr := None |} selB [] =
  exec_sels sc U frags vars Mono fuel T {| ov_ent := e; ov_repr := None |} selB [])) ->
  forall fM f1 f2 : nat,
  no_oof (snd (mono_hop U sc frags vars P eP af f args dirs path selA selB fM)) = true ->
  (two_step_fuel ks g0 fM <= f1)%nat ->
  (two_step_fuel ks g0 fM + g2 <= f2)%nat ->
  two_step U sc1 frags1 vars1 sc2 frags2 vds2 sup2 P eP af f args dirs path nn T ks selA selB
  flA f1 f2 = mono_hop U sc frags vars P eP af f args dirs path selA selB fM.
Proof. exact ProofsTwoStep.federated_two_step_main. Qed.
Print Assumptions federated_two_step.

Theorem federated_two_step_execute_bridge :
  forall (U : universe) (sc : schema) (frags : list fragment) (vdsM : list vardef)
  (supM : json) (sc1 : schema) (frags1 : list fragment) (vds1 : list vardef)
  (sup1 : json) (sc2 : schema) (frags2 : list fragment) (vds2 : list vardef)
  (sup2 : list (bytes * json)) (root : entity) (af : option name)
  (f : name) (args : list argument) (dirs : list directive) (nn : bool)
  (T : name) (ks : list name) (selA selB flA : list selection) (fM f1 f2 : nat),
  let varsM :=
  effective_vars (query_op vdsM [SField af f args dirs (selA ++ selB)])
  (supplied_members supM) in
  let vars1 :=
  effective_vars (query_op vds1 [SField af f args dirs (selA ++ key_sels ks)])
  (supplied_members sup1) in
  find_entity U (s_query sc) [] = Some root ->
  s_query sc1 = s_query sc ->
  two_step U sc1 frags1 vars1 sc2 frags2 vds2 sup2 (s_query sc) root af f args dirs [] nn T ks
  selA selB flA f1 f2 =
  mono_hop U sc frags varsM (s_query sc) root af f args dirs [] selA selB fM ->
  response_of_sres
  (step2 U sc2 frags2 vds2 sup2 af f [] nn T ks selB flA
  (sres_of_response
  (execute f1 sc1 U Sub
  (query_doc vds1 [SField af f args dirs (selA ++ key_sels ks)] frags1) None sup1))
  f2) =
  execute fM sc U Mono (query_doc vdsM [SField af f args dirs (selA ++ selB)] frags) None supM.
Proof. exact ProofsTwoStep.two_step_execute_bridge. Qed.
Print Assumptions federated_two_step_execute_bridge.


(* ---- (1) context agreement: a request executable on a well-formed subgraph schema runs identically on the supergraph ---- *)
Theorem req_ok_sound :
  forall (sc sc' : schema) (U : universe) (frags : list fragment)
  (vars vars' : list (bytes * json)) (A : bytes -> bool) (k : nat)
  (objty : name) (e : entity) (ro : option json) (sels : list selection)
  (path : list pel),
  config_wf_b sc sc' = true ->
  univ_ok_b sc' U = true ->
  (forall n : bytes, A n = true -> assoc n vars' = assoc n vars) ->
  req_ok_b sc' frags vars A k objty sels = true ->
  In e U ->
  en_type e = objty ->
  forall fuel : nat,
  exec_sels sc' U frags vars' Mono fuel objty {| ov_ent := e; ov_repr := ro |} sels path =
  exec_sels sc U frags vars Mono fuel objty {| ov_ent := e; ov_repr := ro |} sels path.
Proof. exact ProofsTwoStepWf.req_ok_sound. Qed.
Print Assumptions req_ok_sound.

Theorem req_ok_sound_same_vars :
  forall (sc sc' : schema) (U : universe) (frags : list fragment) 
  (vars : list (bytes * json)) (k : nat) (objty : name) (e : entity)
  (ro : option json) (sels : list selection) (path : list pel),
  config_wf_b sc sc' = true ->
  univ_ok_b sc' U = true ->
  req_ok_b sc' frags vars (fun _ : name => true) k objty sels = true ->
  In e U ->
  en_type e = objty ->
  forall fuel : nat,
  exec_sels sc' U frags vars Mono fuel objty {| ov_ent := e; ov_repr := ro |} sels path =
  exec_sels sc U frags vars Mono fuel objty {| ov_ent := e; ov_repr := ro |} sels path.
Proof. exact ProofsTwoStepWf.req_ok_sound_same_vars. Qed.
Print Assumptions req_ok_sound_same_vars.

Theorem entity_request_vars_agree :
  forall (vdsM : list vardef) (supM : list (bytes * json)) (T : name)
  (selB selsM : list selection),
  forallb (fun vd : vardef => not_repr (vd_name vd)) vdsM = true ->
  forall (r : json) (n : name),
  not_repr n = true ->
  assoc n (vars2_of vdsM supM T selB r) = assoc n (effective_vars (query_op vdsM selsM) supM).
Proof. exact ProofsTwoStepWf.vars2_agree_client. Qed.
Print Assumptions entity_request_vars_agree.

Theorem federated_two_step_wf :
  forall (U : universe) (sc : schema) (frags : list fragment) (vars : list (bytes * json))
  (sc1 sc2 : schema) (vds2 : list vardef) (sup2 : list (bytes * json))
  (root2 : entity) (P : name) (eP : entity) (af : option name) (f : name)
  (args : list argument) (dirs : list directive) (path : list pel)
  (nn : bool) (n : name) (td : type_def) (fd : field_def) (T : name)
  (ks : list name) (selA selB flA flB : list selection) (g0 k1 k2 : nat),
  bytes_eqb f s_typename = false ->
  find_type P (s_types sc) = Some td ->
  find_field f (td_fields td) = Some fd ->
  fd_type fd = (if nn then TNonNull (TNamed n) else TNamed n) ->
  is_leaf_kind sc n = Some false ->
  frags_noent frags = true ->
  sels_noent [SField af f args dirs (selA ++ key_sels ks)] = true ->
  sels_noent selB = true ->
  config_wf_b sc sc1 = true ->
  univ_ok_b sc1 U = true ->
  req_ok_b sc1 frags vars (fun _ : name => true) k1 P
  [SField af f args dirs (selA ++ key_sels ks)] = true ->
  In eP U ->
  en_type eP = P ->
  config_wf_b sc sc2 = true ->
  univ_ok_b sc2 U = true ->
  req_ok_b sc2 frags vars not_repr k2 T selB = true ->
  (forall (r : json) (m : name),
  not_repr m = true -> assoc m (vars2_of vds2 sup2 T selB r) = assoc m vars) ->
  find_entity U (s_query sc2) [] = Some root2 ->
  flatten sc frags vars g0 T selA = FlatOk flA ->
  flatten sc frags vars g0 T selB = FlatOk flB ->
  keys_disjoint flA flB = true ->
  keys_unaliased ks flA = true ->
  (forall e : entity,
  obj_target U (hop_cargs sc vars args fd) (hop_fv {| ov_ent := eP; ov_repr := None |} f) =
  Some (Some e) ->
  obj_type_ok sc n e = true ->
  en_type e = T /\
  find_by_repr U (repr_of e ks) = Some e /\
  forallb (key_field_ok sc e) ks = true /\ reqs_covered e flB ks = true) ->
  forall fM f1 f2 : nat,
  no_oof (snd (mono_hop U sc frags vars P eP af f args dirs path selA selB fM)) = true ->
  (two_step_fuel ks g0 fM <= f1)%nat ->
  (two_step_fuel ks g0 fM + g0 <= f2)%nat ->
  two_step U sc1 frags vars sc2 frags vds2 sup2 P eP af f args dirs path nn T ks selA selB flA
  f1 f2 = mono_hop U sc frags vars P eP af f args dirs path selA selB fM.
Proof. exact ProofsTwoStepWf.federated_two_step_wf_main. Qed.
Print Assumptions federated_two_step_wf.


(* ---- (2) list hop: de-duplicated batch fetch, results mapped back by index and merged item-wise ---- *)
Theorem dedup_transparent :
  forall (sc : schema) (U : universe) (frags : list fragment) (vars : list (bytes * json))
  (g : nat) (ovq : oval) (key : name) (a : option name) (args args' : list argument)
  (dirs : list directive) (ss subs : list selection) (path : list pel)
  (rs : list json),
  reprs_of vars args = rs ->
  reprs_of vars args' = dedup rs ->
  let r :=
  exec_field sc U frags vars Sub (S g) (s_query sc) ovq key
  (SField a s_entities args dirs ss) subs path in
  let r' :=
  exec_field sc U frags vars Sub (S g) (s_query sc) ovq key
  (SField a s_entities args' dirs ss) subs path in
  exists items' : list json,
  c_json r' = JArr items' /\
  c_json r = JArr (undedup rs items') /\ (c_errs r = [] <-> c_errs r' = []).
Proof. exact ProofsDedup.dedup_transparent_field. Qed.
Print Assumptions dedup_transparent.

Theorem federated_two_step_list :
  forall (U : universe) (sc : schema) (frags : list fragment) (vars : list (bytes * json))
  (sc1 : schema) (frags1 : list fragment) (vars1 : list (bytes * json))
  (sc2 : schema) (frags2 : list fragment) (vds2 : list vardef) (sup2 : list (bytes * json))
  (root2 : entity) (P : name) (eP : entity) (af : option name) (f : name)
  (args : list argument) (dirs : list directive) (path : list pel)
  (nnl nni : bool) (n : name) (td : type_def) (fd : field_def) (items : list fval)
  (T : name) (ks : list name) (selA selB flA flB flB2 : list selection)
  (g0 g2 : nat),
  bytes_eqb f s_typename = false ->
  find_type P (s_types sc) = Some td ->
  find_field f (td_fields td) = Some fd ->
  fd_type fd = list_ty nnl nni n ->
  is_leaf_kind sc n = Some false ->
  hop_fv {| ov_ent := eP; ov_repr := None |} f = FLst items ->
  frags_noent frags1 = true ->
  sels_noent [SField af f args dirs (selA ++ key_sels ks)] = true ->
  (forall fuel : nat,
  exec_sels sc1 U frags1 vars1 Mono fuel P {| ov_ent := eP; ov_repr := None |}
  [SField af f args dirs (selA ++ key_sels ks)] path =
  exec_sels sc U frags vars Mono fuel P {| ov_ent := eP; ov_repr := None |}
  [SField af f args dirs (selA ++ key_sels ks)] path) ->
  kind_of sc2 T <> None ->
  frags_noent frags2 = true ->
  sels_noent selB = true ->
  find_entity U (s_query sc2) [] = Some root2 ->
  flatten sc frags vars g0 T selA = FlatOk flA ->
  flatten sc frags vars g0 T selB = FlatOk flB ->
  keys_disjoint flA flB = true ->
  keys_unaliased ks flA = true ->
  (forall rs : list json,
  flatten sc2 frags2 (vars2l_of vds2 sup2 T selB rs) g2 T selB = FlatOk flB2) ->
  (forall (it : fval) (e : entity),
  In it items ->
  obj_target U (hop_cargs sc vars args fd) it = Some (Some e) ->
  obj_type_ok sc n e = true ->
  en_type e = T /\
  find_by_repr U (repr_of e ks) = Some e /\
  forallb (key_field_ok sc e) ks = true /\
  reqs_covered e flB2 ks = true /\
  (forall (rs : list json) (fuel : nat),
  exec_sels sc2 U frags2 (vars2l_of vds2 sup2 T selB rs) Mono fuel T
  {| ov_ent := e; ov_repr := None |} selB [] =
  exec_sels sc U frags vars Mono fuel T {| ov_ent := e; ov_repr := None |} selB [])) ->
  forall fM f1 f2 : nat,
  no_oof (snd (mono_hop U sc frags vars P eP af f args dirs path selA selB fM)) = true ->
  (list_hop_fuel_bound ks g0 fM <= f1)%nat ->
  (list_hop_fuel_bound ks g0 fM + g2 <= f2)%nat ->
  fst
  (two_step_list U sc1 frags1 vars1 sc2 frags2 vds2 sup2 P eP af f args dirs path nnl nni T
  ks selA selB flA f1 f2) =
  fst (mono_hop U sc frags vars P eP af f args dirs path selA selB fM) /\
  (snd
  (two_step_list U sc1 frags1 vars1 sc2 frags2 vds2 sup2 P eP af f args dirs path nnl nni T
  ks selA selB flA f1 f2) = [] <->
  snd (mono_hop U sc frags vars P eP af f args dirs path selA selB fM) = []).
Proof. exact ProofsListHop.federated_two_step_list_main. Qed.
Print Assumptions federated_two_step_list.

Theorem federated_two_step_list_wf :
  forall (U : universe) (sc : schema) (frags : list fragment) (vars : list (bytes * json))
  (sc1 sc2 : schema) (vds2 : list vardef) (sup2 : list (bytes * json))
  (root2 : entity) (P : name) (eP : entity) (af : option name) (f : name)
  (args : list argument) (dirs : list directive) (path : list pel)
  (nnl nni : bool) (n : name) (td : type_def) (fd : field_def) (items : list fval)
  (T : name) (ks : list name) (selA selB flA flB : list selection)
  (g0 k1 k2 : nat),
  bytes_eqb f s_typename = false ->
  find_type P (s_types sc) = Some td ->
  find_field f (td_fields td) = Some fd ->
  fd_type fd = list_ty nnl nni n ->
  is_leaf_kind sc n = Some false ->
  hop_fv {| ov_ent := eP; ov_repr := None |} f = FLst items ->
  frags_noent frags = true ->
  sels_noent [SField af f args dirs (selA ++ key_sels ks)] = true ->
  sels_noent selB = true ->
  config_wf_b sc sc1 = true ->
  univ_ok_b sc1 U = true ->
  req_ok_b sc1 frags vars (fun _ : name => true) k1 P
  [SField af f args dirs (selA ++ key_sels ks)] = true ->
  In eP U ->
  en_type eP = P ->
  config_wf_b sc sc2 = true ->
  univ_ok_b sc2 U = true ->
  req_ok_b sc2 frags vars not_repr k2 T selB = true ->
  (forall (rs : list json) (m : name),
  not_repr m = true -> assoc m (vars2l_of vds2 sup2 T selB rs) = assoc m vars) ->
  find_entity U (s_query sc2) [] = Some root2 ->
  flatten sc frags vars g0 T selA = FlatOk flA ->
  flatten sc frags vars g0 T selB = FlatOk flB ->
  keys_disjoint flA flB = true ->
  keys_unaliased ks flA = true ->
  (forall (it : fval) (e : entity),
  In it items ->
  obj_target U (hop_cargs sc vars args fd) it = Some (Some e) ->
  obj_type_ok sc n e = true ->
  en_type e = T /\
  find_by_repr U (repr_of e ks) = Some e /\
  forallb (key_field_ok sc e) ks = true /\ reqs_covered e flB ks = true) ->
  forall fM f1 f2 : nat,
  no_oof (snd (mono_hop U sc frags vars P eP af f args dirs path selA selB fM)) = true ->
  (list_hop_fuel_bound ks g0 fM <= f1)%nat ->
  (list_hop_fuel_bound ks g0 fM + g0 <= f2)%nat ->
  fst
  (two_step_list U sc1 frags vars sc2 frags vds2 sup2 P eP af f args dirs path nnl nni T ks
  selA selB flA f1 f2) =
  fst (mono_hop U sc frags vars P eP af f args dirs path selA selB fM) /\
  (snd
  (two_step_list U sc1 frags vars sc2 frags vds2 sup2 P eP af f args dirs path nnl nni T ks
  selA selB flA f1 f2) = [] <->
  snd (mono_hop U sc frags vars P eP af f args dirs path selA selB fM) = []).
Proof. exact ProofsListHopWf.federated_two_step_list_wf_main. Qed.
Print Assumptions federated_two_step_list_wf.


(* ---- (3) abstract hop: runtime type read from __typename, entity selection split per concrete type ---- *)
Theorem flatten_type_dispatch :
  forall (sc : schema) (frags : list fragment) (vars : list (bytes * json)) 
  (t : bytes) (s fl : list selection) (tbl : list (name * list selection))
  (f0 : nat),
  forallb (fun ts : name * list selection => declared_obj sc (fst ts)) tbl = true ->
  assoc t tbl = Some s ->
  unique_key t tbl = true ->
  flatten sc frags vars f0 t s = FlatOk fl ->
  flatten sc frags vars (f0 + length tbl + 1) t (type_frags tbl) = FlatOk fl.
Proof. exact ProofsAbstractHop.flatten_type_dispatch. Qed.
Print Assumptions flatten_type_dispatch.

Theorem exec_type_dispatch :
  forall (sc : schema) (U : universe) (frags : list fragment) (vars : list (bytes * json))
  (md : mode) (f0 f : nat) (t : bytes) (ov : oval) (tbl : list (name * list selection))
  (s fl : list selection) (p : list pel),
  forallb (fun ts : name * list selection => declared_obj sc (fst ts)) tbl = true ->
  assoc t tbl = Some s ->
  unique_key t tbl = true ->
  flatten sc frags vars f0 t s = FlatOk fl ->
  no_oof (snd (exec_sels sc U frags vars md f0 t ov s p)) = true ->
  (f0 + length tbl + 1 <= f)%nat ->
  exec_sels sc U frags vars md f t ov (type_frags tbl) p =
  exec_sels sc U frags vars md f0 t ov s p.
Proof. exact ProofsAbstractHop.exec_type_dispatch. Qed.
Print Assumptions exec_type_dispatch.

Theorem federated_two_step_abstract :
  forall (U : universe) (sc : schema) (frags : list fragment) (vars : list (bytes * json))
  (sc1 : schema) (frags1 : list fragment) (vars1 : list (bytes * json))
  (sc2 : schema) (frags2 : list fragment) (vds2 : list vardef) (sup2 : list (bytes * json))
  (root2 : entity) (P : name) (eP : entity) (af : option name) (f : name)
  (args : list argument) (dirs : list directive) (path : list pel)
  (nn : bool) (n : name) (td : type_def) (fd : field_def) (ks : list name)
  (selA selB : list selection) (tbl : list (name * list selection))
  (g0 g2 : nat),
  bytes_eqb f s_typename = false ->
  find_type P (s_types sc) = Some td ->
  find_field f (td_fields td) = Some fd ->
  fd_type fd = (if nn then TNonNull (TNamed n) else TNamed n) ->
  is_leaf_kind sc n = Some false ->
  frags_noent frags1 = true ->
  sels_noent [SField af f args dirs (selA ++ key_sels ks)] = true ->
  (forall fuel : nat,
  exec_sels sc1 U frags1 vars1 Mono fuel P {| ov_ent := eP; ov_repr := None |}
  [SField af f args dirs (selA ++ key_sels ks)] path =
  exec_sels sc U frags vars Mono fuel P {| ov_ent := eP; ov_repr := None |}
  [SField af f args dirs (selA ++ key_sels ks)] path) ->
  frags_noent frags2 = true ->
  sels_noent selB = true ->
  find_entity U (s_query sc2) [] = Some root2 ->
  (forall e : entity,
  obj_target U (hop_cargs sc vars args fd) (hop_fv {| ov_ent := eP; ov_repr := None |} f) =
  Some (Some e) ->
  obj_type_ok sc n e = true ->
  exists flA flB flB2 : list selection,
  assoc (en_type e) tbl = Some flA /\
  kind_of sc2 (en_type e) <> None /\
  flatten sc frags vars g0 (en_type e) selA = FlatOk flA /\
  flatten sc frags vars g0 (en_type e) selB = FlatOk flB /\
  keys_disjoint flA flB = true /\
  keys_unaliased ks flA = true /\
  find_by_repr U (repr_of e ks) = Some e /\
  forallb (key_field_ok sc e) ks = true /\
  flatten sc2 frags2 (vars2_of vds2 sup2 (en_type e) selB (repr_of e ks)) g2
  (en_type e) selB = FlatOk flB2 /\
  reqs_covered e flB2 ks = true /\
  (forall fuel : nat,
  exec_sels sc2 U frags2 (vars2_of vds2 sup2 (en_type e) selB (repr_of e ks)) Mono fuel
  (en_type e) {| ov_ent := e; ov_repr := None |} selB [] =
  exec_sels sc U frags vars Mono fuel (en_type e) {| ov_ent := e; ov_repr := None |} selB
  [])) ->
  forall fM f1 f2 : nat,
  no_oof (snd (mono_hop U sc frags vars P eP af f args dirs path selA selB fM)) = true ->
  (two_step_fuel ks g0 fM <= f1)%nat ->
  (two_step_fuel ks g0 fM + g2 <= f2)%nat ->
  two_step_abs U sc1 frags1 vars1 sc2 frags2 vds2 sup2 P eP af f args dirs path nn ks selA
  selB tbl f1 f2 = mono_hop U sc frags vars P eP af f args dirs path selA selB fM.
Proof. exact ProofsAbstractHop.federated_two_step_abstract_main. Qed.
Print Assumptions federated_two_step_abstract.


(* ---- (4) plan soundness, entity fetches at depth 1 under distinct root fields (partial: see the hypotheses of plan_ok_b) ---- *)
Theorem plan_state_algebra :
  forall (U : universe) (sc : schema) (frags : list fragment) (vdsM : list vardef)
  (supM : list (bytes * json)) (sc0 : schema) (eQ : entity) (g0 f1 f2 fM : nat)
  (ds : list dfield),
  Forall (link U sc frags vdsM supM sc0 eQ g0 f1 f2 fM) ds ->
  keys_distinct (map root_sel ds) = true ->
  (length ds + 2 <= f1)%nat ->
  (length ds + 2 <= fM)%nat ->
  no_oof (snd (mono_plan U sc frags vdsM supM eQ fM ds)) = true ->
  fst
  (run_fetches (efs U sc frags vdsM supM g0 f2 ds)
  (exec_sels sc0 U frags (pvars vdsM supM) Sub f1 (s_query sc)
  {| ov_ent := eQ; ov_repr := None |} (map root_sel ds) [])) =
  fst (mono_plan U sc frags vdsM supM eQ fM ds) /\
  (snd
  (run_fetches (efs U sc frags vdsM supM g0 f2 ds)
  (exec_sels sc0 U frags (pvars vdsM supM) Sub f1 (s_query sc)
  {| ov_ent := eQ; ov_repr := None |} (map root_sel ds) [])) = [] <->
  snd (mono_plan U sc frags vdsM supM eQ fM ds) = []).
Proof. exact ProofsPlan.plan_alg. Qed.
Print Assumptions plan_state_algebra.

Theorem plan_ok_sound_keys_partial :
  forall (U : universe) (sc : schema) (frags : list fragment) (vdsM : list vardef)
  (supM : list (bytes * json)) (sc0 : schema) (eQ : entity) (g0 kq f1 f2 fM : nat)
  (decls : list (name * list name)),
  find_entity U (s_query sc) [] = Some eQ ->
  forall ds : list dfield,
  plan_ok_b U sc frags vdsM supM sc0 g0 kq decls ds = true ->
  no_oof (snd (mono_plan U sc frags vdsM supM eQ fM ds)) = true ->
  (length ds + 2 <= fM)%nat ->
  (plan_fuel g0 fM ds <= f1)%nat ->
  (plan_fuel g0 fM ds + g0 <= f2)%nat ->
  fst (run_plan U sc frags vdsM supM eQ f1 f2 (plan_of sc frags vdsM supM sc0 g0 ds)) =
  fst (mono_plan U sc frags vdsM supM eQ fM ds) /\
  (snd (run_plan U sc frags vdsM supM eQ f1 f2 (plan_of sc frags vdsM supM sc0 g0 ds)) = [] <->
  snd (mono_plan U sc frags vdsM supM eQ fM ds) = []).
Proof. exact ProofsPlanOk.plan_ok_sound_keys_partial. Qed.
Print Assumptions plan_ok_sound_keys_partial.



(* ---- (5) translation validation: the validator that is RUN on the real planner's plans ---- *)
(* 5a. [plan_ok_b] reads the universe only through a checkable contract: a universe-free validator *)
Theorem plan_static_implies_plan_ok :
  forall (sc : schema) (frags : list fragment) (vdsM : list vardef) (supM : list (bytes * json))
  (sc0 : schema) (g0 kq : nat) (decls : list (name * list name)) (rdecls : list rdecl)
  (U : universe) (eQ : entity) (ds : list dfield),
  plan_static_b sc frags vdsM supM sc0 g0 kq decls rdecls ds = true ->
  univ_contract_b sc decls rdecls (plan_subs sc0 ds) U = true ->
  find_entity U (s_query sc) [] = Some eQ -> plan_ok_b U sc frags vdsM supM sc0 g0 kq decls ds = true.
Proof. exact ProofsTvStatic.plan_static_ok. Qed.
Print Assumptions plan_static_implies_plan_ok.

Theorem plan_ok_valid_all_universes :
  forall (sc : schema) (frags : list fragment) (vdsM : list vardef) (supM : list (bytes * json))
  (sc0 : schema) (g0 kq : nat) (decls : list (name * list name)) (rdecls : list rdecl)
  (ds : list dfield),
  plan_static_b sc frags vdsM supM sc0 g0 kq decls rdecls ds = true ->
  forall (U : universe) (eQ : entity),
  univ_contract_b sc decls rdecls (plan_subs sc0 ds) U = true ->
  find_entity U (s_query sc) [] = Some eQ ->
  forall fM f1 f2 : nat,
  no_oof (snd (mono_plan U sc frags vdsM supM eQ fM ds)) = true ->
  (length ds + 2 <= fM)%nat ->
  (plan_fuel g0 fM ds <= f1)%nat ->
  (plan_fuel g0 fM ds + g0 <= f2)%nat ->
  fst (run_plan U sc frags vdsM supM eQ f1 f2 (plan_of sc frags vdsM supM sc0 g0 ds)) =
  fst (mono_plan U sc frags vdsM supM eQ fM ds) /\
  (snd (run_plan U sc frags vdsM supM eQ f1 f2 (plan_of sc frags vdsM supM sc0 g0 ds)) = [] <->
  snd (mono_plan U sc frags vdsM supM eQ fM ds) = []).
Proof. exact ProofsTvStatic.plan_ok_valid_all_universes. Qed.
Print Assumptions plan_ok_valid_all_universes.

(* 5b. the planner's __typename at the head of every entity selection: same items with one more member, same errors *)
Theorem entities_typename_transparent :
  forall (sc : schema) (U : universe) (frags : list fragment) (vds : list vardef)
  (T : name) (selB : list selection) (supplied : json) (f : nat),
  sels_top_nokey s_typename selB = true ->
  no_oof (rs_errs (execute f sc U Sub (entities_doc vds T selB frags) None supplied)) = true ->
  rs_data (execute f sc U Sub (entities_doc vds T selB frags) None supplied) =
  strip_resp_data
  (rs_data (execute (S f) sc U Sub (entities_doc vds T (tn_sel :: selB) frags) None supplied)) /\
  rs_errs (execute (S f) sc U Sub (entities_doc vds T (tn_sel :: selB) frags) None supplied) =
  rs_errs (execute f sc U Sub (entities_doc vds T selB frags) None supplied).
Proof. exact ProofsTvHidden.execute_entities_tn. Qed.
Print Assumptions entities_typename_transparent.

(* 5c. the order of the selections of a selection set only permutes the members *)
Theorem exec_interleave :
  forall (sc : schema) (U : universe) (frags : list fragment) (vars : list (bytes * json))
  (md : mode) (C : nat) (objty : name) (ov : oval) (ts : list (bool * selection))
  (p : list pel) (flI flA flB : list selection),
  flatten sc frags vars C objty (map snd ts) = FlatOk flI ->
  flatten sc frags vars C objty (sel_untagged ts) = FlatOk flA ->
  flatten sc frags vars C objty (sel_tagged ts) = FlatOk flB ->
  flatten sc frags vars C objty (sel_untagged ts ++ sel_tagged ts) = FlatOk (flA ++ flB) ->
  keys_disjoint flA flB = true ->
  sres_p1 (exec_sels sc U frags vars md C objty ov (map snd ts) p)
  (exec_sels sc U frags vars md C objty ov (sel_untagged ts ++ sel_tagged ts) p).
Proof. exact ProofsTvOrder.exec_interleave. Qed.
Print Assumptions exec_interleave.

(* 5d. the plan algebra, generic in the kind of root field *)
Theorem plan_algebra_generic :
  forall (fld : Type) (key : fld -> name) (a_of m_of : fld -> sres) (tr : fld -> sres -> sres)
  (has_fetch : fld -> bool),
  (forall d : fld, one_member (key d) (a_of d)) ->
  (forall d : fld, one_member (key d) (m_of d)) ->
  (forall (d : fld) (e : list xerr), a_of d = (None, e) -> e <> []) ->
  (forall (d : fld) (e : list xerr), m_of d = (None, e) -> e <> []) ->
  (forall (d : fld) (e : list xerr), tr d (None, e) = (None, e)) ->
  (forall (d : fld) (o : option (list (bytes * json))) (e : list xerr),
  fst (tr d (o, e)) = fst (tr d (o, [])) /\
  (snd (tr d (o, e)) = [] <-> e = [] /\ snd (tr d (o, [])) = [])) ->
  (forall d : fld, has_fetch d = false -> forall r : sres, tr d r = r) ->
  forall ds : list fld,
  Forall (wlink fld a_of m_of tr) ds ->
  names_distinct (map key ds) = true ->
  no_oof (snd (Mfold fld m_of ds)) = true ->
  sres_weq (run_fetches (gefs fld key tr has_fetch ds) (Rfold fld a_of ds)) (Mfold fld m_of ds).
Proof. exact ProofsPlanGen.gen_alg. Qed.
Print Assumptions plan_algebra_generic.

(* 5e. the gateway model on a translated real plan: several root subgraphs, entity fetches with the planner's
   __typename, @requires inputs in the representation -- data of the monolith (root part first), errors iff *)
Theorem plan2_sound :
  forall (U : universe) (sc : schema) (subs : list schema) (frags : list fragment)
  (vdsM : list vardef) (supM : list (bytes * json)) (eQ : entity) (g0 kq f1 f2 fM : nat)
  (decls : list (name * list name)) (rdecls : list rdecl) (tn : bool),
  find_entity U (s_query sc) [] = Some eQ ->
  forall ds : list dfield2,
  plan2_static_b sc subs frags vdsM supM g0 kq decls rdecls tn ds = true ->
  univ2_contract_b sc subs decls rdecls U = true ->
  no_oof (snd (mono_ab2 U sc frags vdsM supM eQ fM ds)) = true ->
  (length ds + 2 <= fM)%nat ->
  (plan2_fuel g0 fM ds <= f1)%nat ->
  (plan2_fuel g0 fM ds + g0 <= f2)%nat ->
  sres_weq (gateway2 U sc subs frags vdsM supM eQ g0 f1 f2 tn ds)
  (mono_ab2 U sc frags vdsM supM eQ fM ds).
Proof. exact ProofsPlan2Root.plan2_sound. Qed.
Print Assumptions plan2_sound.

(* 5f. the monolith on the client's operation and on the plan theorem's operation: same JSON value *)
Theorem mono_order :
  forall (sc : schema) (subs : list schema) (frags : list fragment) (vdsM : list vardef)
  (supM : list (bytes * json)) (g0 kq : nat) (decls : list (name * list name))
  (rdecls : list rdecl) (tn : bool) (U : universe) (eQ : entity) (C : nat)
  (ds : list dfield2),
  tv2_static_b sc subs frags vdsM supM g0 kq decls rdecls tn ds = true ->
  univ2_contract_b sc subs decls rdecls U = true ->
  find_entity U (s_query sc) [] = Some eQ ->
  (g0 + g0 + 7 <= C)%nat ->
  (length ds < C)%nat ->
  sres_mpeq (mono_client2 U sc frags vdsM supM eQ C ds) (mono_ab2 U sc frags vdsM supM eQ C ds).
Proof. exact ProofsTvMain.mono_order. Qed.
Print Assumptions mono_order.

(* 5g. THE THEOREM OF THE VALIDATOR: tv2_static_b accepts the translation of a real plan  ->  for every universe
   of the contract the gateway model returns the JSON value a single server over the supergraph returns for
   the client's operation (object member order aside), and has errors iff that server has *)
Theorem plan_ok_valid_all_universes_real_plans :
  forall (sc : schema) (subs : list schema) (frags : list fragment) (vdsM : list vardef)
  (supM : list (bytes * json)) (g0 kq : nat) (decls : list (name * list name))
  (rdecls : list rdecl) (tn : bool) (ds : list dfield2),
  tv2_static_b sc subs frags vdsM supM g0 kq decls rdecls tn ds = true ->
  forall (U : universe) (eQ : entity),
  univ2_contract_b sc subs decls rdecls U = true ->
  find_entity U (s_query sc) [] = Some eQ ->
  forall fM fM' f1 f2 : nat,
  no_oof (snd (mono_ab2 U sc frags vdsM supM eQ fM ds)) = true ->
  no_oof (snd (mono_client2 U sc frags vdsM supM eQ fM' ds)) = true ->
  (length ds + 2 <= fM)%nat ->
  (plan2_fuel g0 fM ds <= f1)%nat ->
  (plan2_fuel g0 fM ds + g0 <= f2)%nat ->
  sres_peq (mono_client2 U sc frags vdsM supM eQ fM' ds)
  (gateway2 U sc subs frags vdsM supM eQ g0 f1 f2 tn ds).
Proof. exact ProofsTvMain.tv2_sound. Qed.
Print Assumptions plan_ok_valid_all_universes_real_plans.

Theorem plan_ok_valid_all_universes_execute :
  forall (sc : schema) (subs : list schema) (frags : list fragment) (vdsM : list vardef)
  (supM : list (bytes * json)) (g0 kq : nat) (decls : list (name * list name))
  (rdecls : list rdecl) (tn : bool) (ds : list dfield2),
  tv2_static_b sc subs frags vdsM supM g0 kq decls rdecls tn ds = true ->
  forall (U : universe) (eQ : entity),
  univ2_contract_b sc subs decls rdecls U = true ->
  find_entity U (s_query sc) [] = Some eQ ->
  forall fM fM' f1 f2 : nat,
  no_oof (snd (mono_ab2 U sc frags vdsM supM eQ fM ds)) = true ->
  no_oof (rs_errs (execute fM' sc U Mono (client_doc2 vdsM frags ds) None (JObj supM))) = true ->
  (length ds + 2 <= fM)%nat ->
  (plan2_fuel g0 fM ds <= f1)%nat ->
  (plan2_fuel g0 fM ds + g0 <= f2)%nat ->
  sres_peq (sres_of_response (execute fM' sc U Mono (client_doc2 vdsM frags ds) None (JObj supM)))
  (gateway2 U sc subs frags vdsM supM eQ g0 f1 f2 tn ds).
Proof. exact ProofsTvMain.tv2_sound_execute. Qed.
Print Assumptions plan_ok_valid_all_universes_execute.

(* ---- (6) translation validation of NESTED plans: plan trees (ProofsPlan3*.v), entity fetches below entity fetches,
        several fetches per position, lists at any level; no fuel side condition on the results ---- *)

(* 6a. fuel sufficiency: without fragment spreads, fuel [fuel_bound sc sels] = size * (2 * type depth + 3) + 1
   is enough -- the result carries no XOutOfFuel (so E1 makes it the result at every larger fuel) *)
Theorem exec_sels_fuel_sufficient :
  forall (sc : schema) (U : universe) (vars : list (bytes * json)) (md : mode)
         (f : nat) (objty : name) (ov : oval) (sels : list selection) (path : list pel),
  sels_nospread sels = true ->
  (fuel_bound sc sels <= f)%nat ->
  no_oof (snd (exec_sels sc U [] vars md f objty ov sels path)) = true.
Proof. exact ProofsFuelSuff.exec_sels_fuel_sufficient. Qed.
Print Assumptions exec_sels_fuel_sufficient.

Theorem execute_fuel_sufficient :
  forall (f : nat) (sc : schema) (U : universe) (md : mode) (doc : document)
         (opname : option name) (supplied : json),
  doc_frags doc = [] ->
  (forall o : operation, In o (doc_ops doc) -> sels_nospread (op_sels o) = true) ->
  (doc_fuel_bound sc doc <= f)%nat ->
  no_oof (rs_errs (execute f sc U md doc opname supplied)) = true.
Proof. exact ProofsFuelSuff.execute_fuel_sufficient_doc. Qed.
Print Assumptions execute_fuel_sufficient.

(* 6b. one entity fetch of a plan tree: the _entities request for entity [e] (representation read from the members
   [m] merged so far, planner __typename added and stripped when [tn]) returns the data the monolith computes for
   the selection on [e], and has errors iff the monolith has *)
Theorem plan_tree_fetch_one :
  forall (U : universe) (sc : schema) (subs : list schema) (vdsM : list vardef)
         (supM : list (bytes * json)) (eQ : entity) (f2 : nat) (tn : bool),
  find_entity U (s_query sc) [] = Some eQ ->
  forallb (fun vd : vardef => not_repr (vd_name vd)) vdsM = true ->
  forall (T : name) (sel : list selection) (m : list (bytes * json)) (si : nat)
         (ks : list name) (e : entity) (kq : nat),
  In e U ->
  en_type e = T ->
  config_wf_b sc (sub_at sc subs si) = true ->
  univ_ok_b (sub_at sc subs si) U = true ->
  plain_sels sel ->
  sels_nospread sel = true ->
  sels_noent sel = true ->
  req_ok_b (sub_at sc subs si) [] (pvars vdsM supM) not_repr kq T sel = true ->
  repr_from ks m = repr_of e ks ->
  find_by_repr U (repr_of e ks) = Some e ->
  reqs_covered e sel ks = true ->
  (fuel_bound sc sel + 10 <= f2)%nat ->
  let X := exec_sels sc U [] (pvars vdsM supM) Mono f2 T {| ov_ent := e; ov_repr := None |} sel [] in
  fst (fetch_one U sc subs [] vdsM supM f2 tn T sel m si ks []) = fst X /\
  (snd (fetch_one U sc subs [] vdsM supM f2 tn T sel m si ks []) = [] <-> snd X = []).
Proof. exact ProofsPlan3Fetch.fetch_one_spec_flat. Qed.
Print Assumptions plan_tree_fetch_one.

(* 6c. the induction over plan trees, one level each: [PS_at k] = every statically accepted plan tree of depth <= k,
   run at an entity of its type, agrees with the monolith on that entity (and the source's answer carries the runtime
   type under __typename when asked for it); [FL_at k] = the same for one field whose objects have the object type of
   the plan tree below (object or list valued, ANY field value -- null, a non-list under a list type, errors);
   [FA_at k] = the same for one field resolved per RUNTIME type (interface / union positions).
   [ab]: positions resolved per runtime type allowed by the validator *)
Theorem plan_tree_field_step :
  forall (U : universe) (sc : schema) (subs : list schema) (vdsM : list vardef)
         (supM : list (bytes * json)) (f2 kq : nat) (tn : bool) (decls : list (name * list name))
         (rdecls : list rdecl) (ndecls : list (name * (list name * nkspec))) (ab : bool) (k : nat),
  PS_at U sc subs vdsM supM f2 kq tn decls rdecls ndecls ab k ->
  FL_at U sc subs vdsM supM f2 kq tn decls rdecls ndecls ab (S k).
Proof. exact ProofsPlan3Field.FL_step. Qed.
Print Assumptions plan_tree_field_step.

Theorem plan_tree_abstract_field_step :
  forall (U : universe) (sc : schema) (subs : list schema) (vdsM : list vardef)
         (supM : list (bytes * json)) (f2 kq : nat) (tn : bool) (decls : list (name * list name))
         (rdecls : list rdecl) (ndecls : list (name * (list name * nkspec))) (ab : bool) (k : nat),
  (ab = true -> types_ok_b sc U = true) ->
  PS_at U sc subs vdsM supM f2 kq tn decls rdecls ndecls ab k ->
  FA_at U sc subs vdsM supM f2 kq tn decls rdecls ndecls ab (S k).
Proof. exact ProofsPlan3Field.FA_step. Qed.
Print Assumptions plan_tree_abstract_field_step.

Theorem plan_tree_position_step :
  forall (U : universe) (sc : schema) (subs : list schema) (vdsM : list vardef)
         (supM : list (bytes * json)) (eQ : entity) (f2 kq : nat) (tn : bool)
         (decls : list (name * list name)) (rdecls : list rdecl) (ndecls : list (name * (list name * nkspec))) (ab : bool) (k : nat),
  find_entity U (s_query sc) [] = Some eQ ->
  forallb (fun vd : vardef => not_repr (vd_name vd)) vdsM = true ->
  forallb (config_wf_b sc) subs = true ->
  univ3_contract_b sc subs decls rdecls U = true ->
  nkey_contract_b sc ndecls U = true ->
  ndecls_wf_b ndecls = true ->
  FL_at U sc subs vdsM supM f2 kq tn decls rdecls ndecls ab k ->
  FA_at U sc subs vdsM supM f2 kq tn decls rdecls ndecls ab k ->
  PS_at U sc subs vdsM supM f2 kq tn decls rdecls ndecls ab (S k).
Proof. exact ProofsPlan3Step.PS_step. Qed.
Print Assumptions plan_tree_position_step.

(* 6d. THE THEOREM OF THE TREE VALIDATOR: tv3_static_b accepts the plan tree a real plan is translated to  ->
   for EVERY universe of the contract (univ3_contract_b = univ_contract_b: subgraph schemas, declared keys,
   declared @requires; plan independent) and every fuel >= ds_need (computable from the plan),
   the gateway model returns exactly the data a single server over the supergraph returns for the client's
   operation, and has errors iff that server has.  No no_oof hypothesis (6a). *)
Theorem plan_tree_valid_all_universes :
  forall (sc : schema) (subs : list schema) (vdsM : list vardef) (supM : list (bytes * json))
         (kq : nat) (decls : list (name * list name)) (rdecls : list rdecl) (tn : bool)
         (k : nat) (ds : list rfield3),
  tv3_static_b sc subs [] vdsM supM kq decls rdecls k ds = true ->
  forall (U : universe) (eQ : entity),
  univ3_contract_b sc subs decls rdecls U = true ->
  find_entity U (s_query sc) [] = Some eQ ->
  forall F : nat,
  (ds_need sc ds <= F)%nat ->
  sres_weq (gateway3 U sc subs [] vdsM supM eQ F F tn k ds) (mono_client3 U sc [] vdsM supM eQ F ds).
Proof. exact ProofsPlan3Main.tv3_sound. Qed.
Print Assumptions plan_tree_valid_all_universes.

Theorem plan_tree_valid_all_universes_execute :
  forall (sc : schema) (subs : list schema) (vdsM : list vardef) (supM : list (bytes * json))
         (kq : nat) (decls : list (name * list name)) (rdecls : list rdecl) (tn : bool)
         (k : nat) (ds : list rfield3),
  tv3_static_b sc subs [] vdsM supM kq decls rdecls k ds = true ->
  forall (U : universe) (eQ : entity),
  univ3_contract_b sc subs decls rdecls U = true ->
  find_entity U (s_query sc) [] = Some eQ ->
  forall F : nat,
  (ds_need sc ds <= F)%nat ->
  sres_weq (gateway3 U sc subs [] vdsM supM eQ F F tn k ds)
           (sres_of_response (execute F sc U Mono (client_doc3 vdsM [] ds) None (JObj supM))).
Proof. exact ProofsPlan3Main.tv3_sound_execute. Qed.
Print Assumptions plan_tree_valid_all_universes_execute.

(* 6e. THE THEOREM OF THE TREE VALIDATOR WITH POSITIONS RESOLVED PER RUNTIME TYPE ([PAbs]: interface / union positions, or
   selections with inline fragments; one plan tree per concrete object type, over the client's and the source's selections
   flattened at that type; the gateway model reads the runtime type off the __typename member of the source's object):
   tv4_static_b accepts  ->  for EVERY universe of the contract univ4_contract_b (= univ3_contract_b and: every entity has a
   declared object type) and every fuel >= ds_need, gateway model == monolith (same data, errors iff).  No no_oof hypothesis. *)
Theorem plan_tree_abstract_valid_all_universes :
  forall (sc : schema) (subs : list schema) (vdsM : list vardef) (supM : list (bytes * json))
         (kq : nat) (decls : list (name * list name)) (rdecls : list rdecl) (tn : bool)
         (k : nat) (ds : list rfield3),
  tv4_static_b sc subs [] vdsM supM kq decls rdecls k ds = true ->
  forall (U : universe) (eQ : entity),
  univ4_contract_b sc subs decls rdecls U = true ->
  find_entity U (s_query sc) [] = Some eQ ->
  forall F : nat,
  (ds_need sc ds <= F)%nat ->
  sres_weq (gateway3 U sc subs [] vdsM supM eQ F F tn k ds) (mono_client3 U sc [] vdsM supM eQ F ds).
Proof. exact ProofsPlan3Main.tv4_sound. Qed.
Print Assumptions plan_tree_abstract_valid_all_universes.

Theorem plan_tree_abstract_valid_all_universes_execute :
  forall (sc : schema) (subs : list schema) (vdsM : list vardef) (supM : list (bytes * json))
         (kq : nat) (decls : list (name * list name)) (rdecls : list rdecl) (tn : bool)
         (k : nat) (ds : list rfield3),
  tv4_static_b sc subs [] vdsM supM kq decls rdecls k ds = true ->
  forall (U : universe) (eQ : entity),
  univ4_contract_b sc subs decls rdecls U = true ->
  find_entity U (s_query sc) [] = Some eQ ->
  forall F : nat,
  (ds_need sc ds <= F)%nat ->
  sres_weq (gateway3 U sc subs [] vdsM supM eQ F F tn k ds)
           (sres_of_response (execute F sc U Mono (client_doc3 vdsM [] ds) None (JObj supM))).
Proof. exact ProofsPlan3Main.tv4_sound_execute. Qed.
Print Assumptions plan_tree_abstract_valid_all_universes_execute.

(* 6f. KEYS WITH ONE LEVEL OF NESTING ( @key(fields: "id nk { code }") ): a representation field is a leaf or a nested field
   (name, inner leaves); the source is asked  nk { inner }  and the representation carries the object of the inner leaves
   ([repr_of_n] / [repr_from_n], ProofsNKeyDefs.v).  tv5_static_b ([ndecls]: per type the nested key declared for it) accepts  ->
   for EVERY universe of univ5_contract_b (= univ4_contract_b and: the declared nested key identifies the entities of its type,
   its leaf part are plain non-null leaves, its nested part references to existing entities with plain non-null inner leaves)
   gateway model == monolith.  No no_oof hypothesis. *)
Theorem plan_tree_fetch_one_repr :
  forall (U : universe) (sc : schema) (subs : list schema) (vdsM : list vardef)
         (supM : list (bytes * json)) (eQ : entity) (f2 : nat) (tn : bool),
  find_entity U (s_query sc) [] = Some eQ ->
  forallb (fun vd : vardef => not_repr (vd_name vd)) vdsM = true ->
  forall (T : name) (sel : list selection) (m : list (bytes * json)) (si : nat)
         (ks : list name) (kn : nkspec) (r : json) (e : entity) (kq : nat),
  In e U ->
  en_type e = T ->
  config_wf_b sc (sub_at sc subs si) = true ->
  univ_ok_b (sub_at sc subs si) U = true ->
  plain_sels sel ->
  sels_nospread sel = true ->
  sels_noent sel = true ->
  req_ok_b (sub_at sc subs si) [] (pvars vdsM supM) not_repr kq T sel = true ->
  repr_from_n ks kn m = r ->
  find_by_repr U r = Some e ->
  (forall s : selection, In s sel -> forall x : name, In x (fval_reqs (ent_fval e (sel_fname s))) ->
                         req_read Sub (Some r) e x = req_read Mono None e x) ->
  (fuel_bound sc sel + 10 <= f2)%nat ->
  let X := exec_sels sc U [] (pvars vdsM supM) Mono f2 T {| ov_ent := e; ov_repr := None |} sel [] in
  fst (fetch_one U sc subs [] vdsM supM f2 tn T sel m si ks kn) = fst X /\
  (snd (fetch_one U sc subs [] vdsM supM f2 tn T sel m si ks kn) = [] <-> snd X = []).
Proof. exact ProofsPlan3Fetch.fetch_one_spec. Qed.
Print Assumptions plan_tree_fetch_one_repr.

Theorem plan_tree_nested_keys_valid_all_universes :
  forall (sc : schema) (subs : list schema) (vdsM : list vardef) (supM : list (bytes * json))
         (kq : nat) (decls : list (name * list name)) (rdecls : list rdecl) (tn : bool)
         (ndecls : list (name * (list name * nkspec))) (k : nat) (ds : list rfield3),
  tv5_static_b sc subs [] vdsM supM kq decls rdecls ndecls k ds = true ->
  forall (U : universe) (eQ : entity),
  univ5_contract_b sc subs decls rdecls ndecls U = true ->
  find_entity U (s_query sc) [] = Some eQ ->
  forall F : nat,
  (ds_need sc ds <= F)%nat ->
  sres_weq (gateway3 U sc subs [] vdsM supM eQ F F tn k ds) (mono_client3 U sc [] vdsM supM eQ F ds).
Proof. exact ProofsPlan3Main.tv5_sound. Qed.
Print Assumptions plan_tree_nested_keys_valid_all_universes.

Theorem plan_tree_nested_keys_valid_all_universes_execute :
  forall (sc : schema) (subs : list schema) (vdsM : list vardef) (supM : list (bytes * json))
         (kq : nat) (decls : list (name * list name)) (rdecls : list rdecl) (tn : bool)
         (ndecls : list (name * (list name * nkspec))) (k : nat) (ds : list rfield3),
  tv5_static_b sc subs [] vdsM supM kq decls rdecls ndecls k ds = true ->
  forall (U : universe) (eQ : entity),
  univ5_contract_b sc subs decls rdecls ndecls U = true ->
  find_entity U (s_query sc) [] = Some eQ ->
  forall F : nat,
  (ds_need sc ds <= F)%nat ->
  sres_weq (gateway3 U sc subs [] vdsM supM eQ F F tn k ds)
           (sres_of_response (execute F sc U Mono (client_doc3 vdsM [] ds) None (JObj supM))).
Proof. exact ProofsPlan3Main.tv5_sound_execute. Qed.
Print Assumptions plan_tree_nested_keys_valid_all_universes_execute.
