(* C01 -- federated execution equals monolithic execution.
   The theorems of this property (exec_split, entity_join, req_ok_sound, plan_ok_sound; see
   DESIGN.md) are stated over coq/lib/Exec.v and are added by the coordinator.  Until then this
   file only records, as a checked example, the comparison the differential check uses:
   json_eqb is tree equality with raw number tokens and is sensitive to member order (the check
   reports an order-only difference under its own clause, field_order). *)
From Gv Require Import lib.Bytes lib.Json.
From Coq Require Import List NArith.
Import ListNotations.
Open Scope N_scope.

Example json_eqb_member_order_sensitive :
  json_eqb (JObj [([97], JNum [49]); ([98], JNull)]) (JObj [([98], JNull); ([97], JNum [49])]) = false
  /\ json_eqb (JObj [([97], JNum [49]); ([98], JNull)]) (JObj [([97], JNum [49]); ([98], JNull)]) = true
  /\ json_eqb (JNum [49]) (JNum [49; 46; 48]) = false.
Proof. repeat split; reflexivity. Qed.
