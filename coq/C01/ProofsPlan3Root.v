(* C01 / (6): the root of a plan tree: one request per root subgraph, every root field filled. *)
From Coq Require Import PeanoNat Lia.
From Gv Require Import lib.Bytes lib.Json lib.Gql lib.Exec
     C01.ProofsBase C01.ProofsFuel C01.ProofsSplit C01.ProofsSim C01.ProofsJoin C01.ProofsOverlap
     C01.ProofsTwoStep C01.ProofsViol C01.ProofsCtxBase C01.ProofsCtx C01.ProofsTwoStepWf C01.ProofsPlanAlg
     C01.ProofsPlan C01.ProofsPlanOk C01.ProofsDedup C01.ProofsListHop
     C01.ProofsTvStatic C01.ProofsTvDefs C01.ProofsTvHidden C01.ProofsPlanGen C01.ProofsPlan2 C01.ProofsPlan2Link
     C01.ProofsPlan2Root C01.ProofsFuelSuff C01.ProofsNKeyDefs C01.ProofsPlan3 C01.ProofsPlan3Keys C01.ProofsPlan3Fetch C01.ProofsPlan3Pos.
Open Scope N_scope.

Section Root3.
  Variable U : universe.
  Variables (sc : schema) (subs : list schema) (vdsM : list vardef) (supM : list (bytes * json)).
  Variable eQ : entity.
  Variables (F kq : nat).
  Variable tn : bool.
  Variable decls : list (name * list name).
  Variable rdecls : list rdecl.
  Variable ndecls : list (name * (list name * nkspec)).
  Variable ab : bool.
  Variable k : nat.

  Notation vars := (pvars vdsM supM).
  Notation Q := (s_query sc).
  Notation ovQ := {| ov_ent := eQ; ov_repr := None |}.

  Hypothesis HeQ : find_entity U Q [] = Some eQ.
  Hypothesis Hc : univ3_contract_b sc subs decls rdecls U = true.
  Hypothesis HFL : FL_at U sc subs vdsM supM F kq tn decls rdecls ndecls ab k.
  Hypothesis HFA : FA_at U sc subs vdsM supM F kq tn decls rdecls ndecls ab k.

  (* the per-field results, totalised: on a selection that is not a plain field (never the case in an accepted plan) the
     result is an invalid-request error, so that the shape facts of the plan algebra hold for every field *)
  Definition guard (sel : selection) (r : sres) : sres := if plain_field sel then r else (None, [XInvalid []]).
  Definition a_of3 (d : rfield3) : sres :=
    guard (item_proj (r3_item d)) (exec_sels (sub_at sc subs (r3_root d)) U [] vars Sub F Q ovQ [item_proj (r3_item d)] []).
  Definition m_of3 (d : rfield3) : sres :=
    guard (item_client (r3_item d)) (mex U sc vdsM supM F Q eQ [item_client (r3_item d)] []).
  Definition tr_of3 (d : rfield3) (r : sres) : sres :=
    match r3_item d with
    | PKeep _ => r
    | PDown a n args sh T' sub => tr3 U sc subs vdsM supM F tn k (response_name a n) sh T' sub r
    | PAbs a n args sh T' csel rsel alts => tr3a U sc subs vdsM supM F tn k (response_name a n) sh alts r
    end.
  Definition has_fetch3 (d : rfield3) : bool := match r3_item d with PKeep _ => false | _ => true end.

  Lemma tr3a_prefix key sh alts o e :
    fst (tr3a U sc subs vdsM supM F tn k key sh alts (o, e)) = fst (tr3a U sc subs vdsM supM F tn k key sh alts (o, [])) /\
    (snd (tr3a U sc subs vdsM supM F tn k key sh alts (o, e)) = [] <->
     e = [] /\ snd (tr3a U sc subs vdsM supM F tn k key sh alts (o, [])) = []).
  Proof.
    unfold tr3a. destruct o as [[|[k0 v] [|? ?]]|]; cbn [fst snd app]; try tauto.
    rewrite app_nil_iff. tauto.
  Qed.

  Lemma tr3_none key sh T' sub e : tr3 U sc subs vdsM supM F tn k key sh T' sub (None, e) = (None, e).
  Proof. reflexivity. Qed.

  Lemma tr3_prefix key sh T' sub o e :
    fst (tr3 U sc subs vdsM supM F tn k key sh T' sub (o, e)) = fst (tr3 U sc subs vdsM supM F tn k key sh T' sub (o, [])) /\
    (snd (tr3 U sc subs vdsM supM F tn k key sh T' sub (o, e)) = [] <->
     e = [] /\ snd (tr3 U sc subs vdsM supM F tn k key sh T' sub (o, [])) = []).
  Proof.
    unfold tr3. destruct o as [[|[k0 v] [|? ?]]|]; cbn [fst snd app]; try tauto.
    rewrite app_nil_iff. tauto.
  Qed.

  Lemma need_item_le ds d : In d ds -> (item_need sc (r3_item d) <= ds_need sc ds)%nat.
  Proof.
    intros H. unfold ds_need. apply Nat.le_trans with (m := fold_right Nat.max O (map (fun d => item_need sc (r3_item d)) ds)); [|lia].
    clear -H. induction ds as [|x l IH]; [destruct H|]. cbn [map fold_right]. destruct H as [->|H]; [lia|specialize (IH H); lia].
  Qed.

  Lemma fuel_bound_single_le s l : In s l -> (fuel_bound sc [s] <= fuel_bound sc l)%nat.
  Proof.
    intros H. unfold fuel_bound. apply Nat.add_le_mono_r. apply Nat.mul_le_mono_r.
    induction l as [|x l IH]; [destruct H|]. rewrite (sels_size_cons x l). destruct H as [Hx|H].
    - subst x. rewrite (sels_size_cons s []), sels_size_nil. lia.
    - specialize (IH H). lia.
  Qed.

  Theorem root3_sound ds :
    tvg_static_b sc subs [] vdsM supM kq ab decls rdecls ndecls k ds = true ->
    (ds_need sc ds <= F)%nat ->
    sres_weq (gateway3 U sc subs [] vdsM supM eQ F F tn k ds) (mono_client3 U sc [] vdsM supM eQ F ds).
  Proof.
    intros Hok HF'. unfold tvg_static_b in Hok.
    apply andb_true_iff in Hok. destruct Hok as [Hok HFs].
    apply andb_true_iff in Hok. destruct Hok as [Hok Hnr].
    apply andb_true_iff in Hok. destruct Hok as [Hwfs Hk].
    apply andb_true_iff in Hwfs. destruct Hwfs as [_ Hwfs].
    pose proof Hc as Hcu. unfold univ3_contract_b in Hcu.
    destruct (find_entity_In _ _ _ _ HeQ) as [HeU HeT].
    rewrite forallb_forall in HFs.
    assert (Hst : forall d, In d ds -> item_static_b sc subs [] vdsM supM kq ab decls rdecls ndecls k Q (r3_item d) = true).
    { intros d Hd. specialize (HFs d Hd). unfold rfield3_static_b in HFs. apply andb_true_iff in HFs. apply HFs. }
    assert (Hpl : forall d, In d ds -> (exists a n args ss, item_proj (r3_item d) = SField a n args [] ss) /\
                                      (exists a n args ss, item_client (r3_item d) = SField a n args [] ss)).
    { intros d Hd. apply (item_static_plain sc subs vdsM supM kq ab decls rdecls ndecls k Q). apply Hst. exact Hd. }
    assert (Hlen : (length ds < F)%nat).
    { apply Nat.lt_le_trans with (m := ds_need sc ds); [|exact HF'].
      unfold ds_need. apply Nat.lt_le_trans with (m := fuel_bound sc (map (fun d => item_client (r3_item d)) ds)); [|lia].
      unfold fuel_bound. pose proof (length_le_sels_size (map (fun d => item_client (r3_item d)) ds)) as Hl. rewrite map_length in Hl.
      unfold level_cost. nia. }
    assert (Hgp : forall d, In d ds -> plain_field (item_proj (r3_item d)) = true /\ plain_field (item_client (r3_item d)) = true).
    { intros d Hd. destruct (Hpl d Hd) as [(a & n & args & ss & ->) (a' & n' & args' & ss' & ->)]. split; reflexivity. }
    (* the monolith, field by field *)
    assert (HM : mono_client3 U sc [] vdsM supM eQ F ds = Mfold rfield3 m_of3 ds).
    { unfold mono_client3. rewrite exec_fields_fold.
      - rewrite fold_right_map. unfold Mfold.
        assert (Hin : forall d, In d ds -> In d ds) by auto. revert Hin. generalize ds at 1 3 4 as l.
        induction l as [|d l IH]; intros Hin; [reflexivity|]. cbn [fold_right]. rewrite IH; [|intros x Hx; apply Hin; right; exact Hx].
        unfold m_of3, guard, mex. rewrite (proj2 (Hgp d (Hin d (or_introl eq_refl)))). reflexivity.
      - apply Forall_forall. intros s Hs. apply in_map_iff in Hs. destruct Hs as (d & <- & Hd). apply (Hpl d Hd).
      - rewrite (keys_distinct_map_fields (fun d => item_client (r3_item d)) r3_key); [exact Hk|intros d; apply item_client_key].
      - rewrite map_length. exact Hlen. }
    rewrite HM.
    (* the root fetches *)
    assert (Hresp : forall g, root_resp3 U sc subs [] vdsM supM eQ F g ds = Rfold rfield3 a_of3 (fields_of3 g ds)).
    { intros g. unfold root_resp3. rewrite exec_fields_fold.
      - rewrite fold_right_map. unfold Rfold.
        assert (Hg : forall d, In d (fields_of3 g ds) -> r3_root d = g /\ In d ds).
        { intros d Hd. apply filter_In in Hd. split; [apply Nat.eqb_eq; apply Hd|apply Hd]. }
        revert Hg. generalize (fields_of3 g ds) as l.
        induction l as [|d l IH]; intros Hg; [reflexivity|]. cbn [fold_right]. rewrite IH; [|intros x Hx; apply Hg; right; exact Hx].
        destruct (Hg d (or_introl eq_refl)) as [Hr Hd].
        unfold a_of3, guard. rewrite (proj1 (Hgp d Hd)), Hr. reflexivity.
      - apply Forall_forall. intros s Hs. apply in_map_iff in Hs. destruct Hs as (d & <- & Hd). apply filter_In in Hd. apply (Hpl d (proj1 Hd)).
      - rewrite (keys_distinct_map_fields (fun d => item_proj (r3_item d)) r3_key).
        + apply names_distinct_filter. exact Hk.
        + intros d. unfold r3_key. destruct (r3_item d); reflexivity.
      - rewrite map_length. unfold fields_of3. pose proof (filter_length_le (fun d => Nat.eqb (r3_root d) g) ds). lia. }
    assert (Hshape_a : forall d, one_member (r3_key d) (a_of3 d)).
    { intros d. unfold a_of3, guard, r3_key.
      destruct (item_proj (r3_item d)) as [a n args [|? ?] ss| |] eqn:Ep; cbn [plain_field]; try (left; eexists; reflexivity).
      assert (Hkk : item_key (r3_item d) = response_name a n).
      { destruct (r3_item d) as [s|a' n' args' sh T' sub|a' n' args' sh T' csel rsel alts]; cbn [item_proj] in Ep;
          [subst s; reflexivity|injection Ep as <- <- _ _; reflexivity|injection Ep as <- <- _ _; reflexivity]. }
      rewrite Hkk.
      destruct (single_field_shape (sub_at sc subs (r3_root d)) U [] vars Sub F a n args ss Q ovQ []) as [[e H]|[v [e H]]];
        [left; exists e; exact H|right; exists v, e; exact H]. }
    assert (Hshape_m : forall d, one_member (r3_key d) (m_of3 d)).
    { intros d. unfold m_of3, guard, mex, r3_key.
      destruct (item_client (r3_item d)) as [a n args [|? ?] ss| |] eqn:Ep; cbn [plain_field]; try (left; eexists; reflexivity).
      assert (Hkk : item_key (r3_item d) = response_name a n).
      { destruct (r3_item d) as [s|a' n' args' sh T' sub|a' n' args' sh T' csel rsel alts]; cbn [item_client] in Ep;
          [subst s; reflexivity|injection Ep as <- <- _ _; reflexivity|injection Ep as <- <- _ _; reflexivity]. }
      rewrite Hkk.
      destruct (single_field_shape sc U [] vars Mono F a n args ss Q ovQ []) as [[e H]|[v [e H]]];
        [left; exists e; exact H|right; exists v, e; exact H]. }
    assert (Hnone_a : forall d e, a_of3 d = (None, e) -> e <> []).
    { intros d e. unfold a_of3, guard. destruct (plain_field (item_proj (r3_item d))).
      - intros H. apply (exec_sels_none_errs _ U [] vars Sub _ _ _ _ _ _ H).
      - intros H. injection H as <-. discriminate. }
    assert (Hnone_m : forall d e, m_of3 d = (None, e) -> e <> []).
    { intros d e. unfold m_of3, guard, mex. destruct (plain_field (item_client (r3_item d))).
      - intros H. apply (exec_sels_none_errs _ U [] vars Mono _ _ _ _ _ _ H).
      - intros H. injection H as <-. discriminate. }
    (* the merged root answers, read in the client's order *)
    assert (HR : sres_weq (root_state3 U sc subs [] vdsM supM eQ F ds) (Rfold rfield3 a_of3 ds)).
    { assert (Heq : root_state3 U sc subs [] vdsM supM eQ F ds = root_state_abs rfield3 r3_key a_of3 r3_root ds).
      { unfold root_state3, root_state_abs, roots_of3, groups_of. cbv zeta.
        assert (Hm : map (fun g => root_resp3 U sc subs [] vdsM supM eQ F g ds) (nat_nodup (map r3_root ds)) =
                     map (fun g => Rfold rfield3 a_of3 (group_fields rfield3 r3_root g ds)) (nat_nodup (map r3_root ds))).
        { apply map_ext. intros g. apply Hresp. }
        rewrite Hm. destruct (existsb _ _); [reflexivity|]. f_equal. f_equal. apply map_ext. intros d. rewrite (Hresp (r3_root d)). reflexivity. }
      rewrite Heq. apply root_state_abs_weq; assumption. }
    (* every root field is linked *)
    assert (Hlink : Forall (wlink rfield3 a_of3 m_of3 tr_of3) ds).
    { apply Forall_forall. intros d Hd Hn.
      pose proof (HFs d Hd) as Hs. unfold rfield3_static_b in Hs.
      apply andb_true_iff in Hs. destruct Hs as [Hs Hit].
      apply andb_true_iff in Hs. destruct Hs as [Hcase Hne].
      assert (Ha : a_of3 d = mex U sc vdsM supM F Q eQ [item_proj (r3_item d)] []).
      { unfold a_of3, guard, mex. rewrite (proj1 (Hgp d Hd)).
        rewrite (exec_sels_sub_mono (sub_at sc subs (r3_root d)) U [] vars F Q eQ _ [] eq_refl Hne).
        destruct (is_typename_leaf (r3_item d)).
        - (* resolved by the gateway itself: the supergraph's own answer *)
          apply Nat.eqb_eq in Hcase. rewrite Hcase. unfold sub_at. rewrite nth_overflow by apply Nat.le_refl. reflexivity.
        - apply andb_true_iff in Hcase. destruct Hcase as [Hs Hreq].
          apply andb_true_iff in Hs. destruct Hs as [_ Hr0]. apply Nat.ltb_lt in Hr0.
          assert (Hwf0 : config_wf_b sc (sub_at sc subs (r3_root d)) = true)
            by (rewrite forallb_forall in Hwfs; apply Hwfs; unfold sub_at; apply nth_In; exact Hr0).
          assert (Hu0 : univ_ok_b (sub_at sc subs (r3_root d)) U = true)
            by (apply (univ_contract_sub sc decls rdecls subs U _ Hcu); unfold sub_at; apply nth_In; exact Hr0).
          apply (req_ok_sound_same_vars sc (sub_at sc subs (r3_root d)) U [] vars kq Q eQ None _ [] Hwf0 Hu0 Hreq HeU HeT F). }
      assert (Hm : m_of3 d = mex U sc vdsM supM F Q eQ [item_client (r3_item d)] []).
      { unfold m_of3, guard. rewrite (proj2 (Hgp d Hd)). reflexivity. }
      rewrite Ha, Hm. unfold tr_of3.
      destruct (r3_item d) as [s|a n args sh T' sub|a n args sh T' csel rsel alts] eqn:Ei.
      - cbn [item_proj item_client]. apply sres_weq_refl.
      - cbn [item_proj item_client].
        apply (HFL Q eQ a n args sh T' sub [] []); [exact Hit|exact HeU|exact HeT|].
        pose proof (need_item_le ds d Hd) as Hle. rewrite Ei in Hle. clear -Hle HF'. lia.
      - cbn [item_proj item_client].
        apply (HFA Q eQ a n args sh T' csel rsel alts [] []); [exact Hit|exact HeU|exact HeT|].
        pose proof (need_item_le ds d Hd) as Hle. rewrite Ei in Hle. clear -Hle HF'. lia. }
    (* the plan algebra *)
    assert (HnoofM : no_oof (snd (Mfold rfield3 m_of3 ds)) = true).
    { rewrite <- HM. unfold mono_client3. apply exec_sels_fuel_sufficient.
      - apply forallb_forall. intros s Hs. apply in_map_iff in Hs. destruct Hs as (d & <- & Hd).
        apply (proj2 (static_nospread sc subs vdsM supM kq ab decls rdecls ndecls k) Q (r3_item d) (Hst d Hd)).
      - clear -HF'. unfold ds_need in HF'. lia. }
    assert (Hgen : sres_weq (run_fetches (gefs rfield3 r3_key tr_of3 has_fetch3 ds) (Rfold rfield3 a_of3 ds)) (Mfold rfield3 m_of3 ds)).
    { apply (gen_alg rfield3 r3_key a_of3 m_of3 tr_of3 has_fetch3); try assumption.
      - intros d e. unfold tr_of3. destruct (r3_item d); reflexivity.
      - intros d o e. unfold tr_of3. destruct (r3_item d); [cbn [fst snd]; tauto|apply tr3_prefix|apply tr3a_prefix].
      - intros d Hh r. unfold tr_of3, has_fetch3 in *. destruct (r3_item d); [reflexivity|discriminate|discriminate]. }
    (* the model's fetch list is the algebra's *)
    assert (Hfs : run_fetches (item_fetches (lift U sc subs [] vdsM supM F tn k) (lifta U sc subs [] vdsM supM F tn k) (map (fun d => (r3_root d, r3_item d)) ds))
                              (root_state3 U sc subs [] vdsM supM eQ F ds) =
                  run_fetches (gefs rfield3 r3_key tr_of3 has_fetch3 ds) (root_state3 U sc subs [] vdsM supM eQ F ds)).
    { apply run_fetches_ext. clear. induction ds as [|d l IH]; [constructor|].
      cbn [map]. unfold item_fetches, gefs in *. cbn [flat_map snd]. unfold has_fetch3 at 1, ffun, r3_key at 1 2 3, tr_of3 at 1.
      destruct (r3_item d) as [s|a n args sh T' sub|a n args sh T' csel rsel alts]; cbn [app]; [exact IH| |].
      - constructor; [|exact IH]. cbn [fst snd item_key]. split; [reflexivity|]. intros v. unfold tr3. cbn [fst snd app].
        destruct (vres_sres (response_name a n) (lift U sc subs [] vdsM supM F tn k sh T' sub v)); reflexivity.
      - constructor; [|exact IH]. cbn [fst snd item_key]. split; [reflexivity|]. intros v. unfold tr3a. cbn [fst snd app].
        destruct (vres_sres (response_name a n) (lifta U sc subs [] vdsM supM F tn k sh alts v)); reflexivity. }
    unfold gateway3. rewrite Hfs.
    destruct HR as [R1 R2].
    destruct (root_state3 U sc subs [] vdsM supM eQ F ds) as [oR eR] eqn:ER.
    destruct (Rfold rfield3 a_of3 ds) as [oF eF] eqn:EF. cbn [fst snd] in R1, R2. subst oF.
    rewrite (run_fetches_errs _ oR eR). rewrite (run_fetches_errs _ oR eF) in Hgen.
    destruct Hgen as [G1 G2]. cbn [fst snd] in G1, G2 |- *. split; [exact G1|]. cbn [snd].
    rewrite app_nil_iff. rewrite app_nil_iff in G2. tauto.
  Qed.
End Root3.
