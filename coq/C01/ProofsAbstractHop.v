(* C01 / (3): abstract hop.  The field returns an interface / union of entities; the runtime type is
   read from __typename of the first response; the entity selection is split per concrete type. *)
From Coq Require Import PeanoNat Lia.
From Gv Require Import lib.Bytes lib.Json lib.Gql lib.Exec
     C01.ProofsBase C01.ProofsFuel C01.ProofsSplit C01.ProofsSim C01.ProofsJoin C01.ProofsOverlap
     C01.ProofsTwoStep C01.ProofsCtxBase.
Open Scope N_scope.

(* ---- one inline fragment per concrete object type: only the runtime type's fragment applies ---- *)
Definition type_frags (tbl : list (name * list selection)) : list selection :=
  map (fun ts => SInline (Some (fst ts)) [] (snd ts)) tbl.
Fixpoint unique_key (t : name) (tbl : list (name * list selection)) : bool :=
  match tbl with
  | [] => true
  | (t', _) :: r => if bytes_eqb t t' then negb (existsb (fun ts => bytes_eqb t (fst ts)) r) else unique_key t r
  end.

Section Dispatch.
  Variable sc : schema.
  Variable frags : list fragment.
  Variable vars : list (bytes * json).

  Lemma type_applies_obj t c : declared_obj sc c = true -> type_applies sc t c = bytes_eqb t c.
  Proof.
    unfold declared_obj, type_applies. destruct (find_type c (s_types sc)) as [td|]; [|discriminate].
    destruct (td_kind td); try discriminate. intros _. apply orb_false_r.
  Qed.
  Lemma declared_obj_kind c : declared_obj sc c = true -> kind_of sc c <> None.
  Proof.
    unfold declared_obj, kind_of. destruct (builtin_scalar c); [discriminate|].
    destruct (find_type c (s_types sc)); discriminate.
  Qed.

  Lemma flatten_frags_none t : forall tbl f,
      forallb (fun ts => declared_obj sc (fst ts)) tbl = true ->
      existsb (fun ts => bytes_eqb t (fst ts)) tbl = false ->
      (length tbl < f)%nat ->
      flatten sc frags vars f t (type_frags tbl) = FlatOk [].
  Proof.
    induction tbl as [|[t' s'] r IH]; intros f Hd Hn Hlen.
    - destruct f; [simpl in Hlen; lia|reflexivity].
    - destruct f as [|f]; [simpl in Hlen; lia|]. cbn [type_frags map fst snd]. rewrite flatten_S_cons.
      cbn [forallb fst] in Hd. apply andb_true_iff in Hd. destruct Hd as [Hd1 Hd2].
      cbn [existsb fst] in Hn. apply orb_false_iff in Hn. destruct Hn as [Hn1 Hn2].
      cbn [flat_here included negb].
      pose proof (declared_obj_kind t' Hd1) as Hk. destruct (kind_of sc t'); [|contradiction].
      rewrite (type_applies_obj t t' Hd1), Hn1. fold (type_frags r).
      rewrite (IH f Hd2 Hn2); [reflexivity|simpl in Hlen; lia].
  Qed.

  (* per-runtime-type split of the flattened selection *)
  Theorem flatten_type_dispatch t s fl : forall tbl f0,
      forallb (fun ts => declared_obj sc (fst ts)) tbl = true ->
      assoc t tbl = Some s -> unique_key t tbl = true ->
      flatten sc frags vars f0 t s = FlatOk fl ->
      flatten sc frags vars (f0 + length tbl + 1) t (type_frags tbl) = FlatOk fl.
  Proof.
    induction tbl as [|[t' s'] r IH]; intros f0 Hd Ha Hu Hfl; [discriminate|].
    cbn [type_frags map fst snd length]. replace (f0 + S (length r) + 1)%nat with (S (f0 + length r + 1)) by lia.
    rewrite flatten_S_cons.
    cbn [forallb fst] in Hd. apply andb_true_iff in Hd. destruct Hd as [Hd1 Hd2].
    cbn [assoc] in Ha. cbn [unique_key] in Hu. cbn [flat_here included negb].
    pose proof (declared_obj_kind t' Hd1) as Hk. destruct (kind_of sc t'); [|contradiction].
    rewrite (type_applies_obj t t' Hd1). fold (type_frags r).
    destruct (bytes_eqb t t') eqn:E.
    - injection Ha as <-. apply negb_true_iff in Hu.
      rewrite (flatten_mono_ok sc frags vars f0 _ t s' fl); [|lia|exact Hfl].
      rewrite (flatten_frags_none t r _ Hd2 Hu); [|lia]. cbn [flat_seq]. rewrite app_nil_r. reflexivity.
    - rewrite (IH f0 Hd2 Ha Hu Hfl). reflexivity.
  Qed.
End Dispatch.

(* ---- the abstract hop ---- *)
Section AbstractHop.
  Variable U : universe.
  Variables (sc : schema) (frags : list fragment) (vars : list (bytes * json)).
  Variables (sc1 : schema) (frags1 : list fragment) (vars1 : list (bytes * json)).
  Variables (sc2 : schema) (frags2 : list fragment) (vds2 : list vardef) (sup2 : list (bytes * json)).
  Variable root2 : entity.
  Variables (P : name) (eP : entity) (af : option name) (f : name) (args : list argument) (dirs : list directive).
  Variable path : list pel.
  Variables (nn : bool) (n : name) (td : type_def) (fd : field_def).
  (* the common key, the client's sub-selection split in the part subgraph 1 resolves and the part
     subgraph 2 resolves, and, per possible runtime type, the flattened client fields of subgraph 1 *)
  Variables (ks : list name) (selA selB : list selection) (tbl : list (name * list selection)).
  Variables (g0 g2 : nat).

  Notation ovP := {| ov_ent := eP; ov_repr := None |}.
  Notation kf := (response_name af f).
  Notation p' := (path ++ [PN (response_name af f)]).
  Notation fld X := (SField af f args dirs X).

  (* step 2: the runtime type is read from __typename of the object subgraph 1 returned *)
  Definition step2_abs (R1 : sres) (f2 : nat) : sres :=
    match R1 with
    | (Some [(_, JObj l1)], _) =>
      match get_member s_typename l1 with
      | JStr t => match assoc t tbl with
                  | Some flA => step2 U sc2 frags2 vds2 sup2 af f path nn t ks selB flA R1 f2
                  | None => R1
                  end
      | _ => R1
      end
    | _ => R1
    end.
  Definition two_step_abs (f1 f2 : nat) : sres :=
    step2_abs (exec_sels sc1 U frags1 vars1 Sub f1 P ovP [fld (selA ++ key_sels ks)] path) f2.

  Hypothesis Hname : bytes_eqb f s_typename = false.
  Hypothesis Htd : find_type P (s_types sc) = Some td.
  Hypothesis Hfd : find_field f (td_fields td) = Some fd.
  Hypothesis Hty : fd_type fd = if nn then TNonNull (TNamed n) else TNamed n.
  Hypothesis Hcomp : is_leaf_kind sc n = Some false.
  Hypothesis Hfr1 : frags_noent frags1 = true.
  Hypothesis Hs1 : sels_noent [fld (selA ++ key_sels ks)] = true.
  Hypothesis H1 : forall fuel,
      exec_sels sc1 U frags1 vars1 Mono fuel P ovP [fld (selA ++ key_sels ks)] path =
      exec_sels sc U frags vars Mono fuel P ovP [fld (selA ++ key_sels ks)] path.
  Hypothesis Hfr2 : frags_noent frags2 = true.
  Hypothesis HsB : sels_noent selB = true.
  Hypothesis Hroot2 : find_entity U (s_query sc2) [] = Some root2.
  (* whatever entity f resolves to, with runtime type t = en_type e *)
  Hypothesis Hent : forall e,
      obj_target U (hop_cargs sc vars args fd) (hop_fv ovP f) = Some (Some e) ->
      obj_type_ok sc n e = true ->
      exists flA flB flB2,
        assoc (en_type e) tbl = Some flA /\
        kind_of sc2 (en_type e) <> None /\
        flatten sc frags vars g0 (en_type e) selA = FlatOk flA /\
        flatten sc frags vars g0 (en_type e) selB = FlatOk flB /\
        keys_disjoint flA flB = true /\ keys_unaliased ks flA = true /\
        find_by_repr U (repr_of e ks) = Some e /\
        forallb (key_field_ok sc e) ks = true /\
        flatten sc2 frags2 (vars2_of vds2 sup2 (en_type e) selB (repr_of e ks)) g2 (en_type e) selB = FlatOk flB2 /\
        reqs_covered e flB2 ks = true /\
        (forall fuel,
            exec_sels sc2 U frags2 (vars2_of vds2 sup2 (en_type e) selB (repr_of e ks)) Mono fuel (en_type e)
                      {| ov_ent := e; ov_repr := None |} selB [] =
            exec_sels sc U frags vars Mono fuel (en_type e) {| ov_ent := e; ov_repr := None |} selB []).

  Lemma step2_abs_null errs f2 :
    step2_abs (field_result nn kf p' (cnull errs)) f2 = field_result nn kf p' (cnull errs).
  Proof. unfold field_result, nonnull_wrap, cnull. destruct nn; cbn; reflexivity. Qed.

  Lemma step1_transport_abs C f1 :
    (hop_fuel nn C <= f1)%nat ->
    no_oof (snd (exec_sels sc U frags vars Mono (hop_fuel nn C) P ovP [fld (selA ++ key_sels ks)] path)) = true ->
    exec_sels sc1 U frags1 vars1 Sub f1 P ovP [fld (selA ++ key_sels ks)] path =
    exec_sels sc U frags vars Mono (hop_fuel nn C) P ovP [fld (selA ++ key_sels ks)] path.
  Proof.
    intros Hle Hn. rewrite (exec_sels_sub_mono sc1 U frags1 vars1 f1 P eP _ path Hfr1 Hs1).
    rewrite H1. apply exec_sels_fuel_mono; assumption.
  Qed.

  Theorem federated_two_step_abstract_main fM f1 f2 :
    no_oof (snd (mono_hop U sc frags vars P eP af f args dirs path selA selB fM)) = true ->
    (two_step_fuel ks g0 fM <= f1)%nat -> (two_step_fuel ks g0 fM + g2 <= f2)%nat ->
    two_step_abs f1 f2 = mono_hop U sc frags vars P eP af f args dirs path selA selB fM.
  Proof.
    intros Hn Hf1 Hf2. unfold two_step_fuel in *.
    destruct (two_step_arith fM g0 g2 (length ks) f1 f2 nn Hf1 Hf2)
      as (HC1 & HCM & Hc1 & Hc2 & Hc3 & Hc4 & Hc5 & Hc6 & Hc7 & Hc8 & Hc9).
    set (C := (fM + g0 + g0 + length ks + 6)%nat) in *. clearbody C.
    unfold mono_hop in *.
    assert (HM : exec_sels sc U frags vars Mono (hop_fuel nn C) P ovP [fld (selA ++ selB)] path =
                 exec_sels sc U frags vars Mono fM P ovP [fld (selA ++ selB)] path)
      by (apply exec_sels_fuel_mono; assumption).
    rewrite <- HM. rewrite <- HM in Hn. clear HM.
    unfold two_step_abs.
    pose proof (hop_exec sc U frags vars P ovP af f args dirs path nn n td fd Hname Htd Hfd Hty Hcomp C (selA ++ selB)) as HMe.
    rewrite HMe in Hn |- *. clear HMe.
    pose proof (hop_exec sc U frags vars P ovP af f args dirs path nn n td fd Hname Htd Hfd Hty Hcomp C (selA ++ key_sels ks)) as HR.
    unfold hop_path, hop_key in Hn, HR |- *.
    destruct (included vars dirs).
    2:{ rewrite (step1_transport_abs C f1 HC1); rewrite HR; reflexivity. }
    unfold complete_obj in Hn, HR |- *.
    destruct (obj_target U (hop_cargs sc vars args fd) (hop_fv ovP f)) as [[e|]|] eqn:Et.
    2:{ rewrite (step1_transport_abs C f1 HC1); rewrite HR; [apply step2_abs_null|exact Hn]. }
    2:{ rewrite (step1_transport_abs C f1 HC1); rewrite HR; [apply step2_abs_null|exact Hn]. }
    destruct (obj_type_ok sc n e) eqn:Eok; cbn [negb] in Hn, HR |- *.
    2:{ rewrite (step1_transport_abs C f1 HC1); rewrite HR; [apply step2_abs_null|exact Hn]. }
    destruct (Hent e eq_refl Eok) as (flA & flB & flB2 & Htbl & Hk2 & HflA & HflB & Hdisj & Hunal & Hfind & Hkeys & HflB2 & Hreq & H2).
    rewrite obj_cres_let in Hn, HR |- *.
    set (T := en_type e) in *.
    set (ov := {| ov_ent := e; ov_repr := None |}) in Hn, HR, H2 |- *.
    assert (HfA : flatten sc frags vars C T selA = FlatOk flA) by (apply flatten_mono_ok with (f := g0); [exact Hc1|exact HflA]).
    assert (HfB : flatten sc frags vars C T selB = FlatOk flB) by (apply flatten_mono_ok with (f := g0); [exact Hc1|exact HflB]).
    assert (HfK : flatten sc frags vars C T (key_sels ks) = FlatOk (key_sels ks)) by (apply flatten_key_sels; exact Hc3).
    assert (HfAB : flatten sc frags vars C T (selA ++ selB) = FlatOk (flA ++ flB)).
    { apply flatten_mono_ok with (f := (g0 + g0)%nat); [exact Hc2|]. apply flatten_app; assumption. }
    assert (HfAK : flatten sc frags vars C T (selA ++ key_sels ks) = FlatOk (flA ++ key_sels ks)).
    { apply flatten_mono_ok with (f := (g0 + (length ks + 2))%nat); [exact Hc4|]. apply flatten_app; [exact HflA|].
      apply flatten_key_sels. exact Hc9. }
    rewrite (exec_split_eq sc U frags vars Mono C T ov selA selB p' flA flB HfA HfB) in Hn |- *;
      try (rewrite HfAB; reflexivity); try exact Hdisj.
    rewrite (exec_split_overlap_partial sc U frags vars Mono C T ov selA (key_sels ks) p' flA (key_sels ks) HfA HfK) in HR.
    2:{ rewrite HfAK. reflexivity. }
    2:{ unfold overlap_nosubs. apply forallb_forall. intros x Hx. unfold key_sels in Hx. apply in_map_iff in Hx.
        destruct Hx as (k & <- & _). cbn. apply orb_true_r. }
    assert (HK : exec_flat sc U frags vars Mono C T ov (new_keys flA (key_sels ks)) p' =
                 (Some (added_members e ks flA), [])).
    { unfold T, ov.
      apply (keys_exec_flat sc U frags vars e ks Hkeys (new_keys flA (key_sels ks)) C p');
        [apply (added_sels_keys sc e ks Hkeys flA)|exact Hc5]. }
    rewrite HK in HR.
    rewrite (exec_sels_flat sc U frags vars Mono C T ov selA p' flA HfA) in Hn, HR |- *.
    destruct (exec_flat sc U frags vars Mono C T ov flA p') as [[la|] ea] eqn:HEA.
    2:{ unfold split_merge in *. cbn [fst snd] in *. unfold obj_cres in *. cbn [fst snd] in *.
        rewrite (step1_transport_abs C f1 HC1); rewrite HR; [apply step2_abs_null|exact Hn]. }
    rewrite (exec_sels_path_nil sc U frags vars Mono p' C T ov selB) in Hn |- *.
    destruct (exec_sels sc U frags vars Mono C T ov selB []) as [oB eB] eqn:HEB.
    unfold split_merge, shift_sres in Hn, HR |- *. cbn [fst snd] in Hn, HR |- *.
    rewrite app_nil_r in HR.
    assert (Hnea : no_oof ea = true /\ no_oof eB = true).
    { apply field_result_noof in Hn. cbn [snd] in Hn. rewrite no_oof_app, no_oof_shift in Hn.
      apply andb_true_iff in Hn. exact Hn. }
    destruct Hnea as [Hnea HneB].
    rewrite (step1_transport_abs C f1 HC1); rewrite HR; [|apply field_result_noof; exact Hnea].
    assert (HR1 : field_result nn kf p' (obj_cres (Some (la ++ added_members e ks flA), ea)) =
                  (Some [(kf, JObj (la ++ added_members e ks flA))], ea)).
    { unfold field_result, obj_cres, nonnull_wrap. cbn [fst snd]. destruct nn; reflexivity. }
    rewrite HR1.
    assert (HEA' : exec_flat sc U frags vars Mono C (en_type e) {| ov_ent := e; ov_repr := None |} flA p' = (Some la, ea))
      by exact HEA.
    (* the runtime type read from the first response *)
    unfold step2_abs.
    rewrite (get_member_key sc U frags vars e ks Hkeys flA la ea C p' Hunal Hc5 HEA' s_typename (or_introl eq_refl)).
    unfold key_val. rewrite bytes_eqb_refl. fold T. rewrite Htbl.
    unfold step2.
    rewrite (repr_from_keys sc U frags vars e ks Hkeys flA la ea C p' Hunal Hc5 HEA').
    assert (HB2 : mono_at sc2 U frags2 (vars2_of vds2 sup2 T selB (repr_of e ks)) (C + g2) T selB e = (oB, eB)).
    { unfold mono_at. fold ov. rewrite H2. rewrite <- HEB. apply exec_sels_fuel_mono; [exact Hc8|]. rewrite HEB. exact HneB. }
    rewrite (entity_join_execute_list sc2 U frags2 (C + g2) f2 (rep_vd :: vds2) T selB
               (JObj ((s_representations, JArr [repr_of e ks]) :: sup2)) root2 flB2 [repr_of e ks] [e]
               Hroot2 Hk2 Hfr2 HsB).
    - cbn [supplied_members]. fold (vars2_of vds2 sup2 T selB (repr_of e ks)). cbn [join_loop]. rewrite HB2.
      cbn [fst snd rs_data rs_errs app]. rewrite app_nil_r.
      change [PN s_entities; PI 0] with ([PN s_entities] ++ [PI 0]) at 1.
      rewrite rebase_shift.
      unfold merge_at.
      rewrite (keep_selected_members sc U frags vars e ks flA la ea C p' HEA').
      destruct oB as [lb|]; reflexivity.
    - cbn [supplied_members]. exact (vars2_repr vds2 sup2 T selB (repr_of e ks)).
    - cbn [supplied_members]. apply flatten_mono_ok with (f := g2); [exact Hc7|exact HflB2].
    - cbn [supplied_members]. constructor; [|constructor].
      split; [exact Hfind|]. split; [reflexivity|]. split.
      + apply reqs_covered_agree. exact Hreq.
      + fold (vars2_of vds2 sup2 T selB (repr_of e ks)). rewrite HB2. exact HneB.
    - exact Hc6.
  Qed.
End AbstractHop.

(* per-runtime-type split at the level of execution: on an object of type [t] the list of
   per-type fragments executes exactly [t]'s own fragment *)
Theorem exec_type_dispatch sc U frags vars md f0 f t ov tbl s fl p :
  forallb (fun ts => declared_obj sc (fst ts)) tbl = true ->
  assoc t tbl = Some s -> unique_key t tbl = true ->
  flatten sc frags vars f0 t s = FlatOk fl ->
  no_oof (snd (exec_sels sc U frags vars md f0 t ov s p)) = true ->
  (f0 + length tbl + 1 <= f)%nat ->
  exec_sels sc U frags vars md f t ov (type_frags tbl) p = exec_sels sc U frags vars md f0 t ov s p.
Proof.
  intros Hd Ha Hu Hfl Hn Hle.
  destruct f0 as [|g0]; [rewrite flatten_0 in Hfl; discriminate|].
  destruct f as [|g]; [lia|].
  rewrite exec_sels_S. rewrite exec_sels_S in Hn. rewrite exec_sels_S.
  rewrite (flatten_mono_ok sc frags vars (S g0 + length tbl + 1) (S g) t (type_frags tbl) fl Hle
             (flatten_type_dispatch sc frags vars t s fl tbl (S g0) Hd Ha Hu Hfl)).
  rewrite Hfl in Hn |- *.
  apply sels_go_ext_noof; [|exact Hn].
  intros key s0 subs p0 Hp. apply exec_field_fuel_mono; [lia|exact Hp].
Qed.
