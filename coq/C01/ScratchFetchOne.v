(* C01 / (6): one entity fetch of the plan-tree gateway model, characterised by monolithic execution. *)
From Coq Require Import PeanoNat Lia.
From Gv Require Import lib.Bytes lib.Json lib.Gql lib.Exec
     C01.ProofsBase C01.ProofsFuel C01.ProofsSplit C01.ProofsSim C01.ProofsJoin C01.ProofsOverlap
     C01.ProofsTwoStep C01.ProofsViol C01.ProofsCtxBase C01.ProofsCtx C01.ProofsTwoStepWf C01.ProofsPlanAlg
     C01.ProofsPlan C01.ProofsPlanOk C01.ProofsDedup C01.ProofsListHop C01.ProofsListHopWf
     C01.ProofsTvStatic C01.ProofsTvDefs C01.ProofsTvHidden C01.ProofsPlanGen C01.ProofsPlan2 C01.ProofsFuelSuff C01.ProofsPlan3.
Open Scope N_scope.

Definition plain_sels (l : list selection) : Prop := Forall (fun s => exists a n args ss, s = SField a n args [] ss) l.

Section FetchOne.
  Variable U : universe.
  Variables (sc : schema) (subs : list schema) (vdsM : list vardef) (supM : list (bytes * json)).
  Variable eQ : entity.
  Variable f2 : nat.
  Variable tn : bool.
  Notation vars := (pvars vdsM supM).

  Hypothesis HeQ : find_entity U (s_query sc) [] = Some eQ.
  Hypothesis Hnr : forallb (fun vd => not_repr (vd_name vd)) vdsM = true.

  (* TO PROVE *)
  Lemma fetch_one_spec (T : name) (sel : list selection) (m : list (bytes * json)) (si : nat) (ks : list name) (e : entity) (kq : nat) :
    In e U -> en_type e = T ->
    config_wf_b sc (sub_at sc subs si) = true -> univ_ok_b (sub_at sc subs si) U = true ->
    plain_sels sel -> sels_nospread sel = true -> sels_noent sel = true ->
    req_ok_b (sub_at sc subs si) [] vars not_repr kq T sel = true ->
    repr_from ks m = repr_of e ks ->
    find_by_repr U (repr_of e ks) = Some e ->
    reqs_covered e sel ks = true ->
    (fuel_bound sc sel + 10 <= f2)%nat ->
    let X := exec_sels sc U [] vars Mono f2 T {| ov_ent := e; ov_repr := None |} sel [] in
    fst (fetch_one U sc subs [] vdsM supM f2 tn T sel m si ks) = fst X /\
    (snd (fetch_one U sc subs [] vdsM supM f2 tn T sel m si ks) = [] <-> snd X = []).
  Proof.
  Abort.
End FetchOne.
