(* C01 / E5: non-vacuity.  A two-type universe (Query, Product) split over two subgraphs; E3 and E4
   are instantiated on it (all hypotheses discharged) and the same requests are evaluated through
   [execute] in both modes by [vm_compute]. *)
From Coq Require Import PeanoNat Lia.
From Gv Require Import lib.Bytes lib.Json lib.Gql lib.Exec
     C01.ProofsBase C01.ProofsFuel C01.ProofsSplit C01.ProofsSim C01.ProofsJoin C01.ProofsOverlap C01.ProofsTwoStep.
Open Scope N_scope.

Definition bQuery : bytes := [81;117;101;114;121].
Definition bProduct : bytes := [80;114;111;100;117;99;116].
Definition bproduct : bytes := [112;114;111;100;117;99;116].
Definition bid : bytes := [105;100].
Definition bname : bytes := [110;97;109;101].
Definition bprice : bytes := [112;114;105;99;101].
Definition bshipping : bytes := [115;104;105;112;112;105;110;103].
Definition bID : bytes := [73;68].
Definition bString : bytes := [83;116;114;105;110;103].
Definition bInt : bytes := [73;110;116].
Definition bp1 : bytes := [112;49].
Definition bp2 : bytes := [112;50].
Definition bChair : bytes := [67;104;97;105;114].
Definition bTable : bytes := [84;97;98;108;101].
Definition b10 : bytes := [49;48].
Definition b20 : bytes := [50;48].

Definition fdef (n : name) (t : ty) : field_def := {| fd_name := n; fd_args := []; fd_type := t; fd_dirs := [] |}.
Definition objt (n : name) (fs : list field_def) : type_def :=
  {| td_kind := KObject; td_name := n; td_implements := []; td_fields := fs; td_members := [];
     td_enum_values := []; td_input_fields := []; td_dirs := [] |}.
Definition mk_schema (ts : list type_def) : schema :=
  {| s_query := bQuery; s_mutation := None; s_subscription := None; s_types := ts; s_directives := [] |}.

(* supergraph:  type Query { product: Product }
                type Product { id: ID!  name: String  price: Int  shipping: String /* requires price */ } *)
Definition S0 : schema :=
  mk_schema [objt bQuery [fdef bproduct (TNamed bProduct)];
             objt bProduct [fdef bid (TNonNull (TNamed bID)); fdef bname (TNamed bString);
                            fdef bprice (TNamed bInt); fdef bshipping (TNamed bString)]].
(* subgraph 1 owns Query.product, Product.id, Product.name *)
Definition S1 : schema :=
  mk_schema [objt bQuery [fdef bproduct (TNamed bProduct)];
             objt bProduct [fdef bid (TNonNull (TNamed bID)); fdef bname (TNamed bString)]].
(* subgraph 2 owns Product.id (key), Product.price, Product.shipping *)
Definition S2 : schema :=
  mk_schema [objt bQuery [];
             objt bProduct [fdef bid (TNonNull (TNamed bID)); fdef bprice (TNamed bInt); fdef bshipping (TNamed bString)]].

Definition e_root : entity := {| en_type := bQuery; en_key := []; en_fields := [(bproduct, FRef bProduct bp1)] |}.
Definition e_p1 : entity :=
  {| en_type := bProduct; en_key := bp1;
     en_fields := [(bid, FSc (JStr bp1)); (bname, FSc (JStr bChair)); (bprice, FSc (JNum b10)); (bshipping, FReq [bprice])] |}.
Definition e_p2 : entity :=
  {| en_type := bProduct; en_key := bp2;
     en_fields := [(bid, FSc (JStr bp2)); (bname, FSc (JStr bTable)); (bprice, FSc (JNum b20)); (bshipping, FReq [bprice])] |}.
Definition U0 : universe := [e_root; e_p1; e_p2].
Definition decls0 : list (name * list name) := [(bProduct, [bid])].

Definition fld (n : name) (ss : list selection) : selection := SField None n [] [] ss.
Definition query (ss : list selection) : document :=
  [DOp {| op_kind := OpQuery; op_name := None; op_vars := []; op_dirs := []; op_sels := ss |}].
Definition reps (l : list json) : json := JObj [(s_representations, JArr l)].

(* ---- evaluation through [execute] ---- *)
(* monolithic: { product { name price } } *)
Example ex_mono :
  execute 20 S0 U0 Mono (query [fld bproduct [fld bname []; fld bprice []]]) None (JObj []) =
  {| rs_data := JObj [(bproduct, JObj [(bname, JStr bChair); (bprice, JNum b10)])]; rs_errs := [] |}.
Proof. vm_compute. reflexivity. Qed.

Example ex_key_consistent : key_consistent decls0 U0 = true.
Proof. vm_compute. reflexivity. Qed.

(* subgraph 1: { product { name __typename id } } *)
Example ex_sub1 :
  execute 20 S1 U0 Sub (query [fld bproduct ([fld bname []] ++ key_sels [bid])]) None (JObj []) =
  {| rs_data := JObj [(bproduct, JObj [(bname, JStr bChair); (s_typename, JStr bProduct); (bid, JStr bp1)])];
     rs_errs := [] |}.
Proof. vm_compute. reflexivity. Qed.

(* subgraph 2: query($representations:[_Any!]!){_entities(representations:$representations){... on Product{price}}} *)
Example ex_sub2 :
  execute 20 S2 U0 Sub (entities_doc [rep_vd] bProduct [fld bprice []] []) None (reps [repr_of e_p1 [bid]]) =
  {| rs_data := JObj [(s_entities, JArr [JObj [(bprice, JNum b10)]])]; rs_errs := [] |}.
Proof. vm_compute. reflexivity. Qed.

(* two representations: the i-th item is the i-th entity *)
Example ex_sub2_list :
  execute 20 S2 U0 Sub (entities_doc [rep_vd] bProduct [fld bprice []] []) None
          (reps [repr_of e_p2 [bid]; repr_of e_p1 [bid]]) =
  {| rs_data := JObj [(s_entities, JArr [JObj [(bprice, JNum b20)]; JObj [(bprice, JNum b10)]])]; rs_errs := [] |}.
Proof. vm_compute. reflexivity. Qed.

(* a @requires field: monolithic value ... *)
Example ex_requires_mono :
  execute 20 S0 U0 Mono (query [fld bproduct [fld bshipping []]]) None (JObj []) =
  {| rs_data := JObj [(bproduct, JObj [(bshipping, JStr [115;104;105;112;112;105;110;103;91;49;48;93])])]; rs_errs := [] |}.
Proof. vm_compute. reflexivity. Qed.
(* ... is reproduced by the subgraph only if the representation carries the required field *)
Example ex_requires_sub_carried :
  execute 20 S2 U0 Sub (entities_doc [rep_vd] bProduct [fld bshipping []] []) None (reps [repr_of e_p1 ([bid] ++ [bprice])]) =
  {| rs_data := JObj [(s_entities, JArr [JObj [(bshipping, JStr [115;104;105;112;112;105;110;103;91;49;48;93])]])]; rs_errs := [] |}.
Proof. vm_compute. reflexivity. Qed.
(* counterexample to [entity_join] without its side condition [sel_reqs e fl = []]: key-only representation *)
Example ex_requires_sub_missing :
  execute 20 S2 U0 Sub (entities_doc [rep_vd] bProduct [fld bshipping []] []) None (reps [repr_of e_p1 [bid]]) =
  {| rs_data := JObj [(s_entities, JArr [JObj [(bshipping, JNull)]])];
     rs_errs := [XErr [PN s_entities; PI 0; PN bshipping]] |}.
Proof. vm_compute. reflexivity. Qed.

(* ---- E3 applies ---- *)
Example entity_join_applies : forall f, (13 <= f)%nat ->
  execute f S2 U0 Sub (entities_doc [rep_vd] bProduct [fld bprice []] []) None (reps [repr_of e_p1 [bid]]) =
  {| rs_data := JObj [(s_entities, JArr [JObj [(bprice, JNum b10)]])]; rs_errs := [] |}.
Proof.
  intros f Hf.
  rewrite (entity_join_execute S2 U0 [] decls0 10 f [rep_vd] bProduct [fld bprice []]
             (reps [repr_of e_p1 [bid]]) e_root [fld bprice []] [bid] e_p1).
  - vm_compute. reflexivity.
  - vm_compute. reflexivity.
  - left. reflexivity.
  - right. left. reflexivity.
  - reflexivity.
  - vm_compute. reflexivity.
  - vm_compute. discriminate.
  - reflexivity.
  - reflexivity.
  - vm_compute. reflexivity.
  - vm_compute. reflexivity.
  - vm_compute. reflexivity.
  - vm_compute. reflexivity.
  - lia.
Qed.

Example entity_join_requires_applies : forall f, (13 <= f)%nat ->
  execute f S2 U0 Sub (entities_doc [rep_vd] bProduct [fld bshipping []] []) None (reps [repr_of e_p1 ([bid] ++ [bprice])]) =
  {| rs_data := JObj [(s_entities, JArr [JObj [(bshipping, JStr [115;104;105;112;112;105;110;103;91;49;48;93])]])]; rs_errs := [] |}.
Proof.
  intros f Hf.
  rewrite (entity_join_requires_execute S2 U0 [] decls0 10 f [rep_vd] bProduct [fld bshipping []]
             (reps [repr_of e_p1 ([bid] ++ [bprice])]) e_root [fld bshipping []] [bid] [bprice] e_p1).
  - vm_compute. reflexivity.
  - vm_compute. reflexivity.
  - left. reflexivity.
  - right. left. reflexivity.
  - reflexivity.
  - vm_compute. reflexivity.
  - vm_compute. discriminate.
  - reflexivity.
  - reflexivity.
  - vm_compute. reflexivity.
  - vm_compute. reflexivity.
  - vm_compute. reflexivity.
  - vm_compute. reflexivity.
  - lia.
Qed.

(* ---- E4 applies ---- *)
(* a closed statement about all fuels: finitely many cases, then fuel monotonicity *)
Ltac all_fuels12 :=
  let N := constr:(12%nat) in
  let fuel := fresh "fuel" in
  intros fuel;
  do 12 (destruct fuel as [|fuel]; [vm_compute; reflexivity|]);
  match goal with
  | |- exec_sels ?s1 ?u ?fr1 ?v1 ?m ?fl ?t ?ov ?ss ?p = exec_sels ?s2 ?u ?fr2 ?v2 ?m ?fl ?t ?ov ?ss ?p =>
    rewrite (exec_sels_fuel_mono s1 u fr1 v1 m N fl t ov ss p); [|lia|vm_compute; reflexivity];
    rewrite (exec_sels_fuel_mono s2 u fr2 v2 m N fl t ov ss p); [|lia|vm_compute; reflexivity];
    vm_compute; reflexivity
  end.

Lemma sub1_agrees : forall fuel,
  exec_sels S1 U0 [] [] Mono fuel bQuery {| ov_ent := e_root; ov_repr := None |}
            [SField None bproduct [] [] ([fld bname []] ++ key_sels [bid])] [] =
  exec_sels S0 U0 [] [] Mono fuel bQuery {| ov_ent := e_root; ov_repr := None |}
            [SField None bproduct [] [] ([fld bname []] ++ key_sels [bid])] [].
Proof. all_fuels12. Qed.

Lemma sub2_agrees : forall fuel,
  exec_sels S2 U0 [] (vars2_of [] [] bProduct [fld bprice []] (repr_of e_p1 [bid])) Mono fuel bProduct
            {| ov_ent := e_p1; ov_repr := None |} [fld bprice []] [] =
  exec_sels S0 U0 [] [] Mono fuel bProduct {| ov_ent := e_p1; ov_repr := None |} [fld bprice []] [].
Proof. all_fuels12. Qed.

Example federated_two_step_applies : forall f1 f2, (40 <= f1)%nat -> (50 <= f2)%nat ->
  two_step U0 S1 [] [] S2 [] [] [] bQuery e_root None bproduct [] [] [] false bProduct [bid]
           [fld bname []] [fld bprice []] [fld bname []] f1 f2 =
  (Some [(bproduct, JObj [(bname, JStr bChair); (bprice, JNum b10)])], []).
Proof.
  intros f1 f2 Hf1 Hf2.
  rewrite (federated_two_step_main U0 S0 [] [] S1 [] [] S2 [] [] [] e_root bQuery e_root None bproduct [] [] []
             false bProduct
             (objt bQuery [fdef bproduct (TNamed bProduct)]) (fdef bproduct (TNamed bProduct))
             bProduct [bid] [fld bname []] [fld bprice []] [fld bname []] [fld bprice []] 5 5) with (fM := 12%nat).
  - vm_compute. reflexivity.
  - reflexivity.
  - reflexivity.
  - reflexivity.
  - reflexivity.
  - vm_compute. reflexivity.
  - reflexivity.
  - reflexivity.
  - exact sub1_agrees.
  - vm_compute. discriminate.
  - reflexivity.
  - reflexivity.
  - reflexivity.
  - vm_compute. reflexivity.
  - vm_compute. reflexivity.
  - reflexivity.
  - vm_compute. reflexivity.
  - intros e He _. vm_compute in He. injection He as <-.
    split; [reflexivity|]. split; [vm_compute; reflexivity|]. split; [vm_compute; reflexivity|]. split.
    + exists [fld bprice []]. split; vm_compute; reflexivity.
    + exact sub2_agrees.
  - vm_compute. reflexivity.
  - vm_compute. lia.
  - vm_compute. lia.
Qed.

(* the same composition evaluated: step 1 on subgraph 1, step 2 on subgraph 2, merged *)
Example ex_two_step_eval :
  two_step U0 S1 [] [] S2 [] [] [] bQuery e_root None bproduct [] [] [] false bProduct [bid]
           [fld bname []] [fld bprice []] [fld bname []] 20 20 =
  mono_hop U0 S0 [] [] bQuery e_root None bproduct [] [] [] [fld bname []] [fld bprice []] 20.
Proof. vm_compute. reflexivity. Qed.

(* the client also selects the key field and __typename: they are answered by step 1, the
   planner adds nothing twice, and the merge keeps them *)
Example ex_two_step_overlap_eval :
  two_step U0 S1 [] [] S2 [] [] [] bQuery e_root None bproduct [] [] [] false bProduct [bid]
           [fld bid []; fld bname []; fld s_typename []] [fld bprice []]
           [fld bid []; fld bname []; fld s_typename []] 20 20 =
  (Some [(bproduct, JObj [(bid, JStr bp1); (bname, JStr bChair); (s_typename, JStr bProduct); (bprice, JNum b10)])], []).
Proof. vm_compute. reflexivity. Qed.

(* ---- the same composition through [execute] at both ends ---- *)
Example ex_two_step_execute :
  response_of_sres
    (step2 U0 S2 [] [] [] None bproduct [] false bProduct [bid] [fld bprice []] [fld bname []]
           (sres_of_response
              (execute 20 S1 U0 Sub (query_doc [] [SField None bproduct [] [] ([fld bname []] ++ key_sels [bid])] []) None (JObj [])))
           20) =
  execute 20 S0 U0 Mono (query_doc [] [SField None bproduct [] [] ([fld bname []] ++ [fld bprice []])] []) None (JObj []).
Proof. vm_compute. reflexivity. Qed.

(* ---- E2 applies ---- *)
Example exec_split_applies : forall f, (10 <= f)%nat ->
  exec_sels S0 U0 [] [] Mono f bProduct {| ov_ent := e_p1; ov_repr := None |} ([fld bname []] ++ [fld bprice []]) [] =
  (Some [(bname, JStr bChair); (bprice, JNum b10)], []).
Proof.
  intros f Hf.
  rewrite (exec_split S0 U0 [] [] Mono 5 5 f bProduct _ [fld bname []] [fld bprice []] [] [fld bname []] [fld bprice []]);
    try (vm_compute; reflexivity). lia.
Qed.

(* overlapping identical leaves: { id name } and { id price } *)
Example ex_overlap_eval :
  fst (exec_sels S0 U0 [] [] Mono 10 bProduct {| ov_ent := e_p1; ov_repr := None |}
                 ([fld bid []; fld bname []] ++ [fld bid []; fld bprice []]) []) =
  merge_opt (fst (exec_sels S0 U0 [] [] Mono 10 bProduct {| ov_ent := e_p1; ov_repr := None |} [fld bid []; fld bname []] []))
            (fst (exec_sels S0 U0 [] [] Mono 10 bProduct {| ov_ent := e_p1; ov_repr := None |} [fld bid []; fld bprice []] [])).
Proof. vm_compute. reflexivity. Qed.

(* ---- side conditions that cannot be dropped (concrete counterexamples) ---- *)
(* E3 without [sels_noent]: a selection that itself asks for [_entities] on an entity of the query
   type is answered in subgraph mode but is invalid in monolithic mode *)
Definition sel_ent : list selection :=
  [SField None s_entities [(s_representations, VList [])] [] [fld s_typename []]].
Example ex_noent_needed_sub :
  execute 20 S2 U0 Sub (entities_doc [rep_vd] bQuery sel_ent []) None (reps [repr_of e_root []]) =
  {| rs_data := JObj [(s_entities, JArr [JObj [(s_entities, JArr [])]])]; rs_errs := [] |}.
Proof. vm_compute. reflexivity. Qed.
Example ex_noent_needed_mono :
  exec_sels S2 U0 [] [] Mono 20 bQuery {| ov_ent := e_root; ov_repr := None |} sel_ent [] =
  (None, [XInvalid s_entities]).
Proof. vm_compute. reflexivity. Qed.
Example ex_noent_key_consistent : key_consistent [(bQuery, [])] U0 = true.
Proof. vm_compute. reflexivity. Qed.

(* E2: with a non-null violation in A the errors of B are NOT appended (B is not executed) *)
Definition S0nn : schema :=
  mk_schema [objt bQuery [fdef bproduct (TNamed bProduct)];
             objt bProduct [fdef bid (TNonNull (TNamed bID)); fdef bname (TNonNull (TNamed bString));
                            fdef bprice (TNonNull (TNamed bInt))]].
Definition e_bad : entity :=
  {| en_type := bProduct; en_key := bp1; en_fields := [(bid, FSc (JStr bp1)); (bname, FErr); (bprice, FErr)] |}.
Example ex_split_violation :
  exec_sels S0nn [e_bad] [] [] Mono 10 bProduct {| ov_ent := e_bad; ov_repr := None |} ([fld bname []] ++ [fld bprice []]) [] =
  (None, [XErr [PN bname]]) /\
  exec_sels S0nn [e_bad] [] [] Mono 10 bProduct {| ov_ent := e_bad; ov_repr := None |} [fld bprice []] [] =
  (None, [XErr [PN bprice]]).
Proof. split; vm_compute; reflexivity. Qed.
