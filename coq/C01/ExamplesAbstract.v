(* C01 / (3): abstract hop evaluated. *)
From Coq Require Import PeanoNat Lia.
From Gv Require Import lib.Bytes lib.Json lib.Gql lib.Exec
     C01.ProofsBase C01.ProofsFuel C01.ProofsSplit C01.ProofsSim C01.ProofsJoin C01.ProofsOverlap
     C01.ProofsTwoStep C01.ProofsCtxBase C01.ProofsCtx C01.ProofsTwoStepWf C01.ProofsAbstractHop C01.Examples C01.ExamplesWf.
Open Scope N_scope.

Definition ba1 : bytes := [97;49].
Definition ba2 : bytes := [97;50].
Definition bb1f : bytes := [98;49].
Definition bx : bytes := [120].
Definition by_ : bytes := [121].
Definition bka : bytes := [107;97].
Definition bkb : bytes := [107;98].
(* supergraph: interface Node {id} ; A implements Node {id a1 a2} ; B implements Node {id b1} ; Query.node: Node *)
Definition SA0 : schema :=
  mk_schema [tdef KObject bQuery [] [fdef bnode (TNamed bNode)];
             tdef KInterface bNode [] [fdef bid (TNonNull (TNamed bID))];
             tdef KObject bA [bNode] [fdef bid (TNonNull (TNamed bID)); fdef ba1 (TNamed bString); fdef ba2 (TNamed bString)];
             tdef KObject bB [bNode] [fdef bid (TNonNull (TNamed bID)); fdef bb1f (TNamed bString)]].
(* subgraph 1 owns node, id, a1 ; subgraph 2 owns id, a2, b1 *)
Definition SA1 : schema :=
  mk_schema [tdef KObject bQuery [] [fdef bnode (TNamed bNode)];
             tdef KInterface bNode [] [fdef bid (TNonNull (TNamed bID))];
             tdef KObject bA [bNode] [fdef bid (TNonNull (TNamed bID)); fdef ba1 (TNamed bString)];
             tdef KObject bB [bNode] [fdef bid (TNonNull (TNamed bID))]].
Definition SA2 : schema :=
  mk_schema [tdef KObject bQuery [] [];
             tdef KInterface bNode [] [fdef bid (TNonNull (TNamed bID))];
             tdef KObject bA [bNode] [fdef bid (TNonNull (TNamed bID)); fdef ba2 (TNamed bString)];
             tdef KObject bB [bNode] [fdef bid (TNonNull (TNamed bID)); fdef bb1f (TNamed bString)]].
Definition e_a : entity :=
  {| en_type := bA; en_key := bka; en_fields := [(bid, FSc (JStr bka)); (ba1, FSc (JStr bx)); (ba2, FSc (JStr by_))] |}.
Definition e_b : entity :=
  {| en_type := bB; en_key := bkb; en_fields := [(bid, FSc (JStr bkb)); (bb1f, FSc (JStr by_))] |}.
Definition rootN (t k : bytes) : entity := {| en_type := bQuery; en_key := []; en_fields := [(bnode, FRef t k)] |}.
Definition UA (t k : bytes) : universe := [rootN t k; e_a; e_b].

(* client:  node { id ... on A { a1 }   ... on A { a2 } ... on B { b1 } } *)
Definition selA0 : list selection := [fld bid []; SInline (Some bA) [] [fld ba1 []]].
Definition tblB : list (name * list selection) := [(bA, [fld ba2 []]); (bB, [fld bb1f []])].
Definition selB0 : list selection := type_frags tblB.
(* per runtime type: the client's flattened subgraph-1 fields *)
Definition tblA : list (name * list selection) := [(bA, [fld bid []; fld ba1 []]); (bB, [fld bid []])].

Example ex_abs_A :
  two_step_abs (UA bA bka) SA1 [] [] SA2 [] [] [] bQuery (rootN bA bka) None bnode [] [] [] false [bid] selA0 selB0 tblA 30 30 =
  mono_hop (UA bA bka) SA0 [] [] bQuery (rootN bA bka) None bnode [] [] [] selA0 selB0 30 /\
  mono_hop (UA bA bka) SA0 [] [] bQuery (rootN bA bka) None bnode [] [] [] selA0 selB0 30 =
  (Some [(bnode, JObj [(bid, JStr bka); (ba1, JStr bx); (ba2, JStr by_)])], []).
Proof. split; vm_compute; reflexivity. Qed.

Example ex_abs_B :
  two_step_abs (UA bB bkb) SA1 [] [] SA2 [] [] [] bQuery (rootN bB bkb) None bnode [] [] [] false [bid] selA0 selB0 tblA 30 30 =
  mono_hop (UA bB bkb) SA0 [] [] bQuery (rootN bB bkb) None bnode [] [] [] selA0 selB0 30 /\
  mono_hop (UA bB bkb) SA0 [] [] bQuery (rootN bB bkb) None bnode [] [] [] selA0 selB0 30 =
  (Some [(bnode, JObj [(bid, JStr bkb); (bb1f, JStr by_)])], []).
Proof. split; vm_compute; reflexivity. Qed.

(* the per-type split of the entity selection *)
Example ex_type_dispatch :
  flatten SA2 [] [] 10 bB selB0 = FlatOk [fld bb1f []] /\ flatten SA2 [] [] 10 bA selB0 = FlatOk [fld ba2 []].
Proof. split; vm_compute; reflexivity. Qed.

Example ex_abs_wf_bools :
  config_wf_b SA0 SA1 = true /\ config_wf_b SA0 SA2 = true /\
  univ_ok_b SA1 (UA bA bka) = true /\ univ_ok_b SA2 (UA bA bka) = true /\
  req_ok_b SA1 [] [] (fun _ => true) 6 bQuery [SField None bnode [] [] (selA0 ++ key_sels [bid])] = true /\
  req_ok_b SA2 [] [] not_repr 6 bA selB0 = true /\ req_ok_b SA2 [] [] not_repr 6 bB selB0 = true.
Proof. repeat split; vm_compute; reflexivity. Qed.
