(* C01 / (5) translation validation, part 1: the plan checker split into a universe-free validator
   [plan_static_b] (what is evaluated on the real planner's output) and an explicit, checkable
   contract on the data universe [univ_contract_b] (what the federation lab's generator promises):

     plan_static_b ... ds = true  ->  forall U, univ_contract_b ... U = true -> plan_ok_b U ... ds = true

   so that acceptance of a plan by the validator means gateway == monolith for EVERY universe of the
   contract ([plan_ok_valid_all_universes]).

   [plan_ok_b] reads the universe in exactly four places:
     (U1) [univ_ok_b sub U] for the root subgraph and every entity-fetch subgraph: objects reached
          through a field the subgraph declares have a type the subgraph declares;
     (U2) [key_consistent decls U]: a representation built from a declared key matches one entity;
     (U3) the key fields of the fetched type are plain non-null leaves ([key_field_ok]);
     (U4) [reqs_covered e flB ks]: what the [FReq] fields selected by the entity fetch read is in the
          representation;
     and [find_entity U (s_query sub) []] (the root object exists), which follows from
     [config_wf_b sc sub] and the root object of the supergraph.
   (U4) mixes the plan and the data; it is split through a declaration [rdecls] of the @requires
   fields (type, field, inputs): the universe may hold [FReq rs] only at a declared field with
   [rs] among the declared inputs ([ent_contract_b]), and the validator checks that the declared
   inputs of every selected field are in the representation ([reqs_static_b]). *)
From Coq Require Import PeanoNat Lia.
From Gv Require Import lib.Bytes lib.Json lib.Gql lib.Exec
     C01.ProofsBase C01.ProofsFuel C01.ProofsSplit C01.ProofsSim C01.ProofsJoin C01.ProofsOverlap
     C01.ProofsTwoStep C01.ProofsViol C01.ProofsCtxBase C01.ProofsCtx C01.ProofsTwoStepWf C01.ProofsPlanAlg
     C01.ProofsPlan C01.ProofsPlanOk.
Open Scope N_scope.

(* @requires declarations of the configuration: (type, field, input field names) *)
Definition rdecl := (name * name * list name)%type.
Fixpoint rdecl_find (rd : list rdecl) (T f : name) : option (list name) :=
  match rd with
  | [] => None
  | (t, g, rs) :: r => if bytes_eqb t T && bytes_eqb g f then Some rs else rdecl_find r T f
  end.

Definition plan_subs (sc0 : schema) (ds : list dfield) : list schema :=
  sc0 :: flat_map (fun d => match df_fetch d with Some phi => [ef_sub phi] | None => [] end) ds.

Section TvStatic.
  Variables (sc : schema) (frags : list fragment) (vdsM : list vardef) (supM : list (bytes * json)).
  Variable sc0 : schema.
  Variables (g0 kq : nat).
  Variable decls : list (name * list name).
  Variable rdecls : list rdecl.

  Notation vars := (pvars vdsM supM).
  Notation Q := (s_query sc).
  Notation flat_of' := (flat_of sc frags vdsM supM g0).

  (* the declared inputs of every selected @requires field are carried by the representation *)
  Definition reqs_static_b (T : name) (fl : list selection) (ks : list name) : bool :=
    forallb (fun s => match rdecl_find rdecls T (sel_fname s) with
                      | Some rs => forallb (fun x => mem_bytes x ks && negb (bytes_eqb x s_typename)) rs
                      | None => true
                      end) fl.

  (* [fetch_ok_b] without its three reads of the universe *)
  Definition fetch_static_b (d : dfield) (phi : efetch) : bool :=
    let T := ef_T phi in let ks := ef_ks phi in let selB := ef_sel phi in let sub := ef_sub phi in
    match find_type Q (s_types sc) with
    | Some td =>
      match find_field (df_name d) (td_fields td) with
      | Some fd => ty_eqb (fd_type fd) (if df_nn d then TNonNull (TNamed T) else TNamed T)
      | None => false
      end
    | None => false
    end &&
    match is_leaf_kind sc T with Some false => true | _ => false end &&
    declared_obj sc T && negb (bytes_eqb T s_Entity) &&
    sels_noent selB &&
    config_wf_b sc sub && req_ok_b sub frags vars not_repr kq T selB &&
    flat_okb sc frags vdsM supM g0 T (df_selA d) && flat_okb sc frags vdsM supM g0 T selB &&
    keys_disjoint (flat_of' T (df_selA d)) (flat_of' T selB) &&
    keys_unaliased ks (flat_of' T (df_selA d)) &&
    key_declared decls T ks &&
    reqs_static_b T (flat_of' T selB) ks.

  Definition field_static_b (d : dfield) : bool :=
    negb (bytes_eqb (df_name d) s_typename) &&
    sels_noent [root_sel d] &&
    req_ok_b sc0 frags vars (fun _ => true) kq Q [root_sel d] &&
    match df_fetch d with Some phi => fetch_static_b d phi | None => true end.

  (* the universe-free validator *)
  Definition plan_static_b (ds : list dfield) : bool :=
    frags_noent frags && config_wf_b sc sc0 &&
    keys_distinct (map root_sel ds) &&
    forallb (fun vd => not_repr (vd_name vd)) vdsM &&
    forallb field_static_b ds.

  (* ---- the universe contract (plan independent: subgraph schemas, declared keys, declared @requires) ---- *)
  Definition ent_contract_b (e : entity) : bool :=
    (* (U3) declared key fields are plain non-null leaves *)
    forallb (fun d => negb (bytes_eqb (fst d) (en_type e)) || forallb (key_field_ok sc e) (snd d)) decls &&
    (* (U4) computed fields only where @requires is declared, reading declared inputs only *)
    forallb (fun kv => match rdecl_find rdecls (en_type e) (fst kv) with
                       | Some rs => forallb (fun x => mem_bytes x rs) (fval_reqs (snd kv))
                       | None => match fval_reqs (snd kv) with [] => true | _ => false end
                       end) (en_fields e) &&
    (* (U3') declared @requires inputs are plain non-null leaves *)
    forallb (fun rd : rdecl => negb (bytes_eqb (fst (fst rd)) (en_type e)) || forallb (key_field_ok sc e) (snd rd)) rdecls.

  Lemma ent_contract_keys e :
    ent_contract_b e = true ->
    forallb (fun d => negb (bytes_eqb (fst d) (en_type e)) || forallb (key_field_ok sc e) (snd d)) decls = true.
  Proof. unfold ent_contract_b. intros H. apply andb_true_iff in H. destruct H as [H _]. apply andb_true_iff in H. apply H. Qed.
  Lemma ent_contract_reqs e :
    ent_contract_b e = true ->
    forallb (fun kv => match rdecl_find rdecls (en_type e) (fst kv) with
                       | Some rs => forallb (fun x => mem_bytes x rs) (fval_reqs (snd kv))
                       | None => match fval_reqs (snd kv) with [] => true | _ => false end
                       end) (en_fields e) = true.
  Proof. unfold ent_contract_b. intros H. apply andb_true_iff in H. destruct H as [H _]. apply andb_true_iff in H. apply H. Qed.
  Lemma ent_contract_inputs e :
    ent_contract_b e = true ->
    forallb (fun rd : rdecl => negb (bytes_eqb (fst (fst rd)) (en_type e)) || forallb (key_field_ok sc e) (snd rd)) rdecls = true.
  Proof. unfold ent_contract_b. intros H. apply andb_true_iff in H. apply H. Qed.

  Definition univ_contract_b (subs : list schema) (U : universe) : bool :=
    forallb (fun s => univ_ok_b s U) subs &&    (* (U1) *)
    key_consistent decls U &&                  (* (U2) *)
    forallb ent_contract_b U.

  Lemma key_declared_fields T ks e :
    key_declared decls T ks = true -> ent_contract_b e = true -> en_type e = T ->
    forallb (key_field_ok sc e) ks = true.
  Proof.
    intros Hd He HT. apply key_declared_In in Hd. apply ent_contract_keys in He.
    rewrite forallb_forall in He.
    specialize (He _ Hd). cbn [fst snd] in He. rewrite HT, bytes_eqb_refl in He. exact He.
  Qed.

  Lemma reqs_static_covered T fl ks e :
    reqs_static_b T fl ks = true -> ent_contract_b e = true -> en_type e = T ->
    reqs_covered e fl ks = true.
  Proof.
    intros Hs He HT. unfold reqs_covered, sel_reqs. apply forallb_forall. intros x Hx.
    apply in_flat_map in Hx. destruct Hx as (s & Hs_in & Hx).
    unfold reqs_static_b in Hs. rewrite forallb_forall in Hs. specialize (Hs s Hs_in).
    apply ent_contract_reqs in He. rewrite forallb_forall in He.
    unfold ent_fval in Hx. destruct (assoc (sel_fname s) (en_fields e)) as [v|] eqn:Ea; [|destruct Hx].
    specialize (He _ (assoc_In _ _ _ Ea)). cbn [fst snd] in He. rewrite HT in He.
    destruct (rdecl_find rdecls T (sel_fname s)) as [rs|].
    - rewrite forallb_forall in He. specialize (He x Hx). apply mem_bytes_In in He.
      rewrite forallb_forall in Hs. apply (Hs x He).
    - destruct (fval_reqs v); [destruct Hx|discriminate].
  Qed.

  Lemma univ_contract_sub subs U s :
    univ_contract_b subs U = true -> In s subs -> univ_ok_b s U = true.
  Proof.
    intros H Hin. unfold univ_contract_b in H. apply andb_true_iff in H. destruct H as [H _].
    apply andb_true_iff in H. destruct H as [H _]. rewrite forallb_forall in H. apply H. exact Hin.
  Qed.

  Lemma fetch_static_ok U eQ ds d phi :
    univ_contract_b (plan_subs sc0 ds) U = true -> find_entity U Q [] = Some eQ ->
    In d ds -> df_fetch d = Some phi ->
    fetch_static_b d phi = true -> fetch_ok_b U sc frags vdsM supM g0 kq decls d phi = true.
  Proof.
    intros Hc HeQ Hin Hfd Hs. unfold fetch_static_b in Hs. cbv zeta in Hs.
    repeat (apply andb_true_iff in Hs; destruct Hs as [Hs ?]).
    match goal with H : reqs_static_b _ _ _ = true |- _ => rename H into Hreq end.
    match goal with H : key_declared _ _ _ = true |- _ => rename H into Hkd end.
    match goal with H : config_wf_b sc (ef_sub phi) = true |- _ => rename H into Hwf end.
    assert (Hsub : univ_ok_b (ef_sub phi) U = true).
    { apply (univ_contract_sub _ _ _ Hc). unfold plan_subs. right. apply in_flat_map. exists d. split; [exact Hin|].
      rewrite Hfd. left. reflexivity. }
    assert (Hroot : find_entity U (s_query (ef_sub phi)) [] = Some eQ).
    { pose proof Hwf as Hq. unfold config_wf_b in Hq. repeat (apply andb_true_iff in Hq; destruct Hq as [Hq ?]).
      apply bytes_eqb_eq in Hq. rewrite Hq. exact HeQ. }
    assert (Hents : forallb (fun e => negb (bytes_eqb (en_type e) (ef_T phi)) ||
                                      (forallb (key_field_ok sc e) (ef_ks phi) &&
                                       reqs_covered e (flat_of' (ef_T phi) (ef_sel phi)) (ef_ks phi))) U = true).
    { apply forallb_forall. intros e He.
      destruct (bytes_eqb (en_type e) (ef_T phi)) eqn:ET; [|reflexivity]. cbn [negb orb].
      apply bytes_eqb_eq in ET.
      assert (Hec : ent_contract_b e = true).
      { unfold univ_contract_b in Hc. apply andb_true_iff in Hc. destruct Hc as [_ Hc].
        rewrite forallb_forall in Hc. apply Hc. exact He. }
      rewrite (key_declared_fields _ _ _ Hkd Hec ET), (reqs_static_covered _ _ _ _ Hreq Hec ET). reflexivity. }
    unfold fetch_ok_b. cbv zeta. rewrite Hroot, Hsub, Hents.
    repeat match goal with H : ?x = true |- context [?x] => rewrite H end. reflexivity.
  Qed.

  Theorem plan_static_ok U eQ ds :
    plan_static_b ds = true ->
    univ_contract_b (plan_subs sc0 ds) U = true -> find_entity U Q [] = Some eQ ->
    plan_ok_b U sc frags vdsM supM sc0 g0 kq decls ds = true.
  Proof.
    intros Hs Hc HeQ. unfold plan_static_b in Hs.
    repeat (apply andb_true_iff in Hs; destruct Hs as [Hs ?]).
    match goal with H : forallb field_static_b ds = true |- _ => rename H into HF end.
    assert (Hu0 : univ_ok_b sc0 U = true) by (apply (univ_contract_sub _ _ _ Hc); left; reflexivity).
    assert (Hkc : key_consistent decls U = true).
    { unfold univ_contract_b in Hc. apply andb_true_iff in Hc. destruct Hc as [Hc _].
      apply andb_true_iff in Hc. apply Hc. }
    assert (HF' : forallb (field_ok_b U sc frags vdsM supM sc0 g0 kq decls) ds = true).
    { apply forallb_forall. intros d Hin. rewrite forallb_forall in HF. specialize (HF d Hin).
      unfold field_static_b in HF. unfold field_ok_b.
      apply andb_true_iff in HF. destruct HF as [HF Hfetch].
      rewrite HF. cbn [andb].
      destruct (df_fetch d) as [phi|] eqn:Efd; [|reflexivity].
      apply (fetch_static_ok U eQ ds d phi Hc HeQ Hin Efd). exact Hfetch. }
    unfold plan_ok_b. rewrite Hu0, Hkc, HF'.
    repeat match goal with H : ?x = true |- context [?x] => rewrite H end. reflexivity.
  Qed.

  (* the validator accepts  ->  for every universe of the contract, the plan executed as [run_plan]
     returns the monolithic data and has errors iff the monolith has *)
  Theorem plan_ok_valid_all_universes ds :
    plan_static_b ds = true ->
    forall (U : universe) (eQ : entity),
      univ_contract_b (plan_subs sc0 ds) U = true ->
      find_entity U Q [] = Some eQ ->
      forall fM f1 f2 : nat,
        no_oof (snd (mono_plan U sc frags vdsM supM eQ fM ds)) = true ->
        (length ds + 2 <= fM)%nat ->
        (plan_fuel g0 fM ds <= f1)%nat ->
        (plan_fuel g0 fM ds + g0 <= f2)%nat ->
        fst (run_plan U sc frags vdsM supM eQ f1 f2 (plan_of sc frags vdsM supM sc0 g0 ds)) =
        fst (mono_plan U sc frags vdsM supM eQ fM ds) /\
        (snd (run_plan U sc frags vdsM supM eQ f1 f2 (plan_of sc frags vdsM supM sc0 g0 ds)) = [] <->
         snd (mono_plan U sc frags vdsM supM eQ fM ds) = []).
  Proof.
    intros Hs U eQ Hc HeQ fM f1 f2 Hn HfM Hf1 Hf2.
    apply (plan_ok_sound_keys_partial U sc frags vdsM supM sc0 eQ g0 kq f1 f2 fM decls HeQ ds); try assumption.
    apply (plan_static_ok U eQ ds Hs Hc HeQ).
  Qed.
End TvStatic.

(* ---- representations that carry more than a declared key (the inputs of @requires fields) ---- *)
Definition names_incl (a b : list name) : bool := forallb (fun x => mem_bytes x b) a.
(* some declared key of [T] is among the representation fields *)
Definition key_covered (decls : list (name * list name)) (T : name) (ks : list name) : bool :=
  existsb (fun d => bytes_eqb (fst d) T && names_incl (snd d) ks) decls.
(* every representation field is a field of a declared key of [T] or a declared @requires input of [T] *)
Definition repr_fields_ok (decls : list (name * list name)) (rdecls : list rdecl) (T : name) (ks : list name) : bool :=
  forallb (fun x => existsb (fun d => bytes_eqb (fst d) T && mem_bytes x (snd d)) decls ||
                    existsb (fun rd : rdecl => bytes_eqb (fst (fst rd)) T && mem_bytes x (snd rd)) rdecls) ks.

Lemma repr_members_incl e k ks kv :
  names_incl k ks = true -> In kv (repr_members e k) -> In kv (repr_members e ks).
Proof.
  unfold names_incl, repr_members. intros Hi Hin. apply in_flat_map in Hin. destruct Hin as (x & Hx & Hkv).
  rewrite forallb_forall in Hi. specialize (Hi x Hx). apply mem_bytes_In in Hi.
  apply in_flat_map. exists x. split; assumption.
Qed.

Lemma find_by_repr_superset U e k ks :
  names_incl k ks = true -> find_by_repr U (repr_of e k) = Some e -> find_by_repr U (repr_of e ks) = Some e.
Proof.
  intros Hi. rewrite !find_by_repr_find. intros H. apply (find_stronger _ _ _ _ H); [|apply repr_match_self].
  intros x. unfold repr_match_ent, repr_of. cbn [obj_get]. rewrite !bytes_eqb_refl.
  intros Hx. apply andb_true_iff in Hx. destruct Hx as [H1 H2]. rewrite H1. cbn [andb].
  cbn [repr_matches forallb] in *. rewrite bytes_eqb_refl in *. cbn [andb] in *.
  rewrite forallb_forall in H2. apply forallb_forall. intros kv Hkv. apply H2. apply (repr_members_incl e k ks kv Hi Hkv).
Qed.

Lemma key_covered_find decls U e ks :
  key_consistent decls U = true -> In e U -> key_covered decls (en_type e) ks = true ->
  find_by_repr U (repr_of e ks) = Some e.
Proof.
  intros Hkc He Hc. unfold key_covered in Hc. apply existsb_exists in Hc. destruct Hc as ([t k] & Hin & H).
  cbn [fst snd] in H. apply andb_true_iff in H. destruct H as [Ht Hi]. apply bytes_eqb_eq in Ht. subst t.
  apply (find_by_repr_superset U e k ks Hi). apply (key_consistent_find decls U e k Hkc He Hin).
Qed.

Lemma repr_fields_contract sc decls rdecls T ks e :
  repr_fields_ok decls rdecls T ks = true -> ent_contract_b sc decls rdecls e = true -> en_type e = T ->
  forallb (key_field_ok sc e) ks = true.
Proof.
  intros Hr He HT. apply forallb_forall. intros x Hx. unfold repr_fields_ok in Hr. rewrite forallb_forall in Hr.
  specialize (Hr x Hx). apply orb_true_iff in Hr. destruct Hr as [Hr|Hr]; apply existsb_exists in Hr.
  - destruct Hr as ([t k] & Hd & H). cbn [fst snd] in H. apply andb_true_iff in H. destruct H as [Ht Hm]. apply bytes_eqb_eq in Ht. subst t.
    pose proof (ent_contract_keys sc decls rdecls e He) as Hk. rewrite forallb_forall in Hk. specialize (Hk _ Hd).
    cbn [fst snd] in Hk. rewrite HT, bytes_eqb_refl in Hk. cbn [negb orb] in Hk. rewrite forallb_forall in Hk. apply Hk. apply mem_bytes_In. exact Hm.
  - destruct Hr as ([[t g] rs] & Hd & H). cbn [fst snd] in H. apply andb_true_iff in H. destruct H as [Ht Hm]. apply bytes_eqb_eq in Ht. subst t.
    pose proof (ent_contract_inputs sc decls rdecls e He) as Hk. rewrite forallb_forall in Hk. specialize (Hk _ Hd).
    cbn [fst snd] in Hk. rewrite HT, bytes_eqb_refl in Hk. cbn [negb orb] in Hk. rewrite forallb_forall in Hk. apply Hk. apply mem_bytes_In. exact Hm.
Qed.
