(* C01 / (6): the POSITION step of the induction over plan trees. *)
From Coq Require Import PeanoNat Lia.
From Gv Require Import lib.Bytes lib.Json lib.Gql lib.Exec
     C01.ProofsBase C01.ProofsFuel C01.ProofsSplit C01.ProofsSim C01.ProofsJoin C01.ProofsOverlap
     C01.ProofsTwoStep C01.ProofsViol C01.ProofsCtxBase C01.ProofsCtx C01.ProofsTwoStepWf C01.ProofsPlanAlg
     C01.ProofsPlan C01.ProofsPlanOk C01.ProofsDedup C01.ProofsListHop
     C01.ProofsTvStatic C01.ProofsTvDefs C01.ProofsTvHidden C01.ProofsPlanGen C01.ProofsPlan2 C01.ProofsPlan2Link
     C01.ProofsPlan2Root C01.ProofsFuelSuff C01.ProofsNKeyDefs C01.ProofsNKeyExec C01.ProofsNKeyRepr C01.ProofsPlan3 C01.ProofsPlan3Keys C01.ProofsPlan3Fetch C01.ProofsPlan3Pos.
Open Scope N_scope.

Lemma exec_path_indep' sc U frags vars md f objty ov sels (q1 q2 : list pel) :
  sres_weq (exec_sels sc U frags vars md f objty ov sels q1) (exec_sels sc U frags vars md f objty ov sels q2).
Proof.
  rewrite (exec_sels_path_nil sc U frags vars md q1), (exec_sels_path_nil sc U frags vars md q2).
  unfold shift_sres, sres_weq. cbn [fst snd]. split; [reflexivity|]. rewrite !shift_errs_nil. tauto.
Qed.

Lemma fuel_bound_le_size sc l l' : (sels_size l <= sels_size l')%nat -> (fuel_bound sc l <= fuel_bound sc l')%nat.
Proof. intros H. unfold fuel_bound. apply Nat.add_le_mono_r. apply Nat.mul_le_mono_r. exact H. Qed.

Lemma sels_size_in s l : In s l -> (sels_size [s] <= sels_size l)%nat.
Proof.
  induction l as [|x l IH]; intros H; [destruct H|]. rewrite (sels_size_cons x l). destruct H as [Hx|H].
  - subst x. rewrite (sels_size_cons s []), sels_size_nil. lia.
  - specialize (IH H). lia.
Qed.
Lemma sels_size_filter_map {A} (g : A -> selection) (p : A -> bool) l :
  (sels_size (map g (filter p l)) <= sels_size (map g l))%nat.
Proof.
  induction l as [|x l IH]; [apply Nat.le_refl|]. cbn [filter map]. destruct (p x); cbn [map]; rewrite ?sels_size_cons; lia.
Qed.

Lemma fetch_all_prefix U sc subs frags vdsM supM f2 tn T items all : forall fs srcs j,
    exists more, fst (fetch_all U sc subs frags vdsM supM f2 tn T items all srcs j fs) = srcs ++ more /\ length more = length fs.
Proof.
  induction fs as [|[[from si] ks] r IH]; intros srcs j.
  - exists []. cbn. rewrite app_nil_r. split; reflexivity.
  - cbn [fetch_all].
    destruct (if forallb _ from then _ else (None, [])) as [o e].
    destruct (IH (srcs ++ [o]) (S j)) as (more & Hm & Hl).
    destruct (fetch_all U sc subs frags vdsM supM f2 tn T items all (srcs ++ [o]) (S j) r) as [os es]. cbn [fst] in *.
    exists (o :: more). rewrite Hm, <- app_assoc. cbn [app length]. rewrite Hl. split; reflexivity.
Qed.

Lemma child_need_gen sc (l : list (nat * pitem)) d :
  In d l ->
  (sub_need sc (snd d) <=
   (fix go (l : list (nat * pitem)) : nat :=
      match l with
      | [] => O
      | (_, it) :: r => Nat.max (sub_need sc it) (go r)
      end) l)%nat.
Proof.
  intros Hd. induction l as [|[t it] l IH]; [destruct Hd|].
  destruct Hd as [<-|Hd].
  - cbn [snd]. apply Nat.le_max_l.
  - eapply Nat.le_trans; [apply IH; exact Hd|apply Nat.le_max_r].
Qed.

(* ---- leaf / nested representation fields ---- *)
Lemma kl_of_in all x : In x (kl_of all) <-> In (x, []) all.
Proof.
  unfold kl_of. rewrite in_map_iff. split.
  - intros ([y yi] & <- & H). apply filter_In in H. destruct H as [H1 H2]. cbn [snd fst] in *. destruct yi; [exact H1|discriminate].
  - intros H. exists (x, []). split; [reflexivity|]. apply filter_In. split; [exact H|reflexivity].
Qed.
Lemma kn_dedup_in seen all y : In y (kn_dedup seen all) -> In y all /\ snd y <> [] /\ ~ In (fst y) seen.
Proof.
  revert seen. induction all as [|x r IH]; intros seen H; [destruct H|]. cbn [kn_dedup] in H.
  destruct (is_nil (snd x) || mem_bytes (fst x) seen) eqn:E.
  - destruct (IH _ H) as (H1 & H2 & H3). split; [right; exact H1|split; assumption].
  - apply orb_false_iff in E. destruct E as [E1 E2]. destruct H as [<-|H].
    + split; [left; reflexivity|]. split; [destruct (snd x); [discriminate|discriminate]|].
      intros Hin. apply mem_bytes_In in Hin. congruence.
    + destruct (IH _ H) as (H1 & H2 & H3). split; [right; exact H1|]. split; [exact H2|]. intros Hin. apply H3. right. exact Hin.
Qed.
Lemma kn_dedup_names seen all x : In x all -> snd x <> [] -> ~ In (fst x) seen -> In (fst x) (map fst (kn_dedup seen all)).
Proof.
  revert seen. induction all as [|y r IH]; intros seen H Hn Hs; [destruct H|]. cbn [kn_dedup].
  destruct (is_nil (snd y) || mem_bytes (fst y) seen) eqn:E.
  - destruct H as [->|H]; [|apply IH; assumption].
    apply orb_true_iff in E. destruct E as [E|E]; [destruct (snd x); [contradiction|discriminate]|apply mem_bytes_In in E; contradiction].
  - cbn [map]. destruct H as [->|H]; [left; reflexivity|].
    destruct (bytes_eqb (fst x) (fst y)) eqn:Exy; [left; apply bytes_eqb_eq in Exy; symmetry; exact Exy|].
    right. apply IH; [exact H|exact Hn|]. intros [Hin|Hin]; [rewrite Hin, bytes_eqb_refl in Exy; discriminate|contradiction].
Qed.
Lemma kn_dedup_distinct seen all : names_distinct (map fst (kn_dedup seen all)) = true.
Proof.
  revert seen. induction all as [|x r IH]; intros seen; [reflexivity|]. cbn [kn_dedup].
  destruct (is_nil (snd x) || mem_bytes (fst x) seen); [apply IH|].
  cbn [map names_distinct]. rewrite IH, andb_true_r. apply negb_true_iff.
  destruct (mem_bytes (fst x) (map fst (kn_dedup (fst x :: seen) r))) eqn:E; [|reflexivity]. exfalso.
  apply mem_bytes_In in E. apply in_map_iff in E. destruct E as (y & Hy & Hin). destruct (kn_dedup_in _ _ _ Hin) as (_ & _ & H3).
  apply H3. left. symmetry. exact Hy.
Qed.
Lemma kn_of_in all y : In y (kn_of all) -> In y all /\ snd y <> [].
Proof. intros H. destruct (kn_dedup_in [] all y H) as (H1 & H2 & _). split; assumption. Qed.
Lemma kn_of_names all x : In x all -> snd x <> [] -> In (fst x) (map fst (kn_of all)).
Proof. intros H Hn. apply (kn_dedup_names [] all x H Hn). intros []. Qed.
Lemma nsels_distinct kn : names_distinct (map fst kn) = true -> keys_distinct (nsels kn) = true.
Proof. intros H. unfold nsels. rewrite (keys_distinct_map_fields nsel fst); [exact H|intros x; reflexivity]. Qed.

Section PSStep.
  Variable U : universe.
  Variables (sc : schema) (subs : list schema) (vdsM : list vardef) (supM : list (bytes * json)).
  Variable eQ : entity.
  Variables (f2 kq : nat).
  Variable tn : bool.
  Variable decls : list (name * list name).
  Variable rdecls : list rdecl.
  Variable ndecls : list (name * (list name * nkspec)).
  Variable ab : bool.
  Variable k : nat.

  Notation vars := (pvars vdsM supM).
  Notation mex' := (mex U sc vdsM supM).

  Hypothesis HeQ : find_entity U (s_query sc) [] = Some eQ.
  Hypothesis Hnr : forallb (fun vd => not_repr (vd_name vd)) vdsM = true.
  Hypothesis Hwfs : forallb (config_wf_b sc) subs = true.
  Hypothesis Hc : univ3_contract_b sc subs decls rdecls U = true.
  Hypothesis Hnc : nkey_contract_b sc ndecls U = true.
  Hypothesis Hnwf : ndecls_wf_b ndecls = true.
  Hypothesis HFL : FL_at U sc subs vdsM supM f2 kq tn decls rdecls ndecls ab k.
  Hypothesis HFA : FA_at U sc subs vdsM supM f2 kq tn decls rdecls ndecls ab k.

  (* ---- one position ---- *)
  Variables (T : name) (e : entity) (p : list pel).
  Variables (items : list (nat * pitem)) (fetches : list (fetch3)).
  Hypothesis HeU : In e U.
  Hypothesis HeT : en_type e = T.
  Hypothesis Hst : pt_static_b sc subs [] vdsM supM kq ab decls rdecls ndecls (S k) T (PT items fetches) = true.
  Hypothesis Hneed : (pt_need sc (PT items fetches) <= f2)%nat.

  Notation fld3 := (nat * pitem)%type.
  Definition key3 (d : fld3) : name := item_key (snd d).
  Definition q_of (t : nat) : list pel := match t with O => p | S _ => [] end.
  Definition guard3 (sel : selection) (r : sres) : sres := if plain_field sel then r else (None, [XInvalid []]).
  Definition a_of_p (d : fld3) : sres := guard3 (item_proj (snd d)) (mex' f2 T e [item_proj (snd d)] (q_of (fst d))).
  Definition m_of_p (d : fld3) : sres := guard3 (item_client (snd d)) (mex' f2 T e [item_client (snd d)] p).
  Definition tr_of_p (d : fld3) (r : sres) : sres :=
    match snd d with
    | PKeep _ => r
    | PDown a n args sh T' sub => tr3 U sc subs vdsM supM f2 tn k (response_name a n) sh T' sub r
    | PAbs a n args sh T' csel rsel alts => tr3a U sc subs vdsM supM f2 tn k (response_name a n) sh alts r
    end.
  Definition hasf_p (d : fld3) : bool := match snd d with PKeep _ => false | _ => true end.
  Definition part_p (t : nat) : list fld3 := filter (fun d => Nat.eqb (fst d) t) items.
  Definition A_p (t : nat) : list selection := map (fun d => item_proj (snd d)) (part_p t).
  Definition all_p (t : nat) : list (name * list name) := flat_map (keys_of t) (filter (deps_on t) fetches).
  Definition ks_p (t : nat) : list name := kl_of (all_p t).
  Definition kn_p (t : nat) : nkspec := kn_of (all_p t).
  Definition extra_p (t : nat) : list (bytes * json) :=
    match filter (deps_on t) fetches with
    | [] => []
    | _ => added_members e (ks_p t) (A_p t) ++ nmembers U e (kn_p t)
    end.

  (* the conjuncts of the static check *)
  Lemma st_parts :
    declared_obj sc T = true /\ bytes_eqb T s_Entity = false /\
    names_distinct (map key3 items) = true /\
    forallb (fun ti : fld3 => Nat.leb (fst ti) (length fetches)) items = true /\
    forallb (fun ti : fld3 => item_unaliased (fetch_keys fetches) (snd ti)) items = true /\
    fetches_static_b sc subs [] vdsM supM kq decls rdecls ndecls T items fetches 1%nat fetches = true /\
    forallb (fun ti : fld3 => item_static_b sc subs [] vdsM supM kq ab decls rdecls ndecls k T (snd ti)) items = true.
  Proof.
    pose proof Hst as H. cbn [pt_static_b] in H.
    apply andb_true_iff in H. destruct H as [H H7].
    apply andb_true_iff in H. destruct H as [H H6].
    apply andb_true_iff in H. destruct H as [H Hnn].
    apply andb_true_iff in H. destruct H as [H H5].
    apply andb_true_iff in H. destruct H as [H H4].
    apply andb_true_iff in H. destruct H as [H H3].
    apply andb_true_iff in H. destruct H as [H1 H2]. apply negb_true_iff in H2.
    repeat split; assumption.
  Qed.
  (* a nested key field is no item of the position and no leaf representation field *)
  Lemma st_nn k0 : In k0 (fetch_nnames fetches) -> ~ In k0 (map key3 items) /\ ~ In k0 (fetch_keys fetches).
  Proof.
    pose proof Hst as H. cbn [pt_static_b] in H.
    apply andb_true_iff in H. destruct H as [H _].
    apply andb_true_iff in H. destruct H as [H _].
    apply andb_true_iff in H. destruct H as [_ Hnn].
    intros Hk. rewrite forallb_forall in Hnn. specialize (Hnn k0 Hk). apply andb_true_iff in Hnn. destruct Hnn as [N1 N2].
    apply negb_true_iff in N1, N2. split; intros Hin; apply mem_bytes_In in Hin.
    - unfold key3 in Hin. congruence.
    - congruence.
  Qed.

  Lemma items_plain_p d : In d items ->
    plain_field (item_proj (snd d)) = true /\ plain_field (item_client (snd d)) = true.
  Proof.
    intros Hd. destruct st_parts as (_ & _ & _ & _ & _ & _ & Hit). rewrite forallb_forall in Hit.
    destruct (item_static_plain sc subs vdsM supM kq ab decls rdecls ndecls k T (snd d) (Hit d Hd)) as [(a & n & args & ss & ->) (a' & n' & args' & ss' & ->)].
    split; reflexivity.
  Qed.

  Lemma plain_A t : plain_sels (A_p t).
  Proof.
    apply Forall_forall. intros s Hs. unfold A_p in Hs. apply in_map_iff in Hs. destruct Hs as (d & <- & Hd).
    apply filter_In in Hd. destruct st_parts as (_ & _ & _ & _ & _ & _ & Hit). rewrite forallb_forall in Hit.
    apply (item_static_plain sc subs vdsM supM kq ab decls rdecls ndecls k T (snd d) (Hit d (proj1 Hd))).
  Qed.

  Lemma item_proj_key_p d : In d items -> sel_key (item_proj (snd d)) = key3 d.
  Proof. intros Hd. unfold key3. destruct (snd d); reflexivity. Qed.

  Lemma distinct_A t : keys_distinct (A_p t) = true.
  Proof.
    unfold A_p. rewrite (keys_distinct_map_fields (fun d : fld3 => item_proj (snd d)) key3).
    - apply names_distinct_filter. apply st_parts.
    - intros d. unfold key3. destruct (snd d); reflexivity.
  Qed.

  Definition children_need : nat :=
    (fix go (l : list (nat * pitem)) : nat :=
       match l with
       | [] => O
       | (_, it) :: r => Nat.max (sub_need sc it) (go r)
       end) items.
  Lemma pt_need_unfold :
    pt_need sc (PT items fetches) =
    Nat.max (fuel_bound sc (pt_proj (PT items fetches)) + 10)
      (Nat.max (fuel_bound sc (pt_client (PT items fetches)) + 10)
         (Nat.max (fold_right Nat.max O (map (fun j => (fuel_bound sc (src_proj j items fetches) + 10)%nat) (seq 1 (length fetches))))
            children_need)).
  Proof. reflexivity. Qed.
  Lemma need_parts :
    (fuel_bound sc (pt_proj (PT items fetches)) + 10 <= f2)%nat /\ (fuel_bound sc (pt_client (PT items fetches)) + 10 <= f2)%nat /\
    (fold_right Nat.max O (map (fun j => (fuel_bound sc (src_proj j items fetches) + 10)%nat) (seq 1 (length fetches))) <= f2)%nat /\
    (children_need <= f2)%nat.
  Proof.
    pose proof Hneed as H. rewrite pt_need_unfold in H.
    apply Nat.max_lub_iff in H. destruct H as [H1 H]. apply Nat.max_lub_iff in H. destruct H as [H2 H].
    apply Nat.max_lub_iff in H. destruct H as [H3 H4]. repeat split; assumption.
  Qed.
  Lemma need_client : (fuel_bound sc (pt_client (PT items fetches)) + 10 <= f2)%nat.
  Proof. apply need_parts. Qed.
  Lemma need_proj0 : (fuel_bound sc (pt_proj (PT items fetches)) + 10 <= f2)%nat.
  Proof. apply need_parts. Qed.

  Lemma length_items_lt : (length items + 6 <= f2)%nat.
  Proof.
    pose proof need_client as H. rewrite pt_client_eq in H. unfold fuel_bound in H.
    pose proof (length_le_sels_size (map (fun ti : fld3 => item_client (snd ti)) items)) as Hl. rewrite map_length in Hl.
    pose proof (arith_flat (sels_size (map (fun ti : fld3 => item_client (snd ti)) items)) (schema_ty_depth sc)) as Ha.
    unfold level_cost in H. clear -H Hl Ha. lia.
  Qed.

  (* ---- the per-field results of the sources ---- *)
  Lemma a_of_items d : In d items -> a_of_p d = mex' f2 T e [item_proj (snd d)] (q_of (fst d)).
  Proof. intros Hd. unfold a_of_p, guard3. rewrite (proj1 (items_plain_p d Hd)). reflexivity. Qed.
  Lemma m_of_items d : In d items -> m_of_p d = mex' f2 T e [item_client (snd d)] p.
  Proof. intros Hd. unfold m_of_p, guard3. rewrite (proj2 (items_plain_p d Hd)). reflexivity. Qed.

  Lemma length_A t : (length (A_p t) <= length items)%nat.
  Proof. unfold A_p, part_p. rewrite map_length. apply filter_length_le. Qed.

  Lemma exec_A t : mex' f2 T e (A_p t) (q_of t) = Rfold fld3 a_of_p (part_p t).
  Proof.
    unfold mex. rewrite (exec_fields_fold_p sc U vars Mono f2 T _ (A_p t) (q_of t) (plain_A t) (distinct_A t)).
    2:{ pose proof (length_A t). pose proof length_items_lt. lia. }
    unfold A_p. rewrite fold_right_map. unfold Rfold.
    assert (Hg : forall d, In d (part_p t) -> fst d = t /\ In d items).
    { intros d Hd. apply filter_In in Hd. split; [apply Nat.eqb_eq; apply Hd|apply Hd]. }
    revert Hg. generalize (part_p t) as l.
    induction l as [|d l IH]; intros Hg; [reflexivity|]. cbn [fold_right]. rewrite IH; [|intros x Hx; apply Hg; right; exact Hx].
    destruct (Hg d (or_introl eq_refl)) as [Ht Hd]. rewrite (a_of_items d Hd), Ht. reflexivity.
  Qed.

  (* ---- the keys of the position ---- *)
  Lemma e_contract : ent_contract_b sc decls rdecls e = true.
  Proof.
    pose proof Hc as H. unfold univ3_contract_b in H.
    unfold univ_contract_b in H. apply andb_true_iff in H. destruct H as [_ H]. rewrite forallb_forall in H. apply H. exact HeU.
  Qed.

  Lemma ne_contract : nent_contract_b sc ndecls U e = true.
  Proof.
    pose proof Hnc as H. unfold nkey_contract_b in H. apply andb_true_iff in H. destruct H as [_ H].
    rewrite forallb_forall in H. apply H. exact HeU.
  Qed.
  Lemma Hnk_p : nkey_consistent ndecls U = true.
  Proof. pose proof Hnc as H. unfold nkey_contract_b in H. apply andb_true_iff in H. apply H. Qed.

  (* the nested key declared for the type of the position: its parts are fine on [e]; one declaration per type *)
  Lemma ndecl_parts d : In d ndecls -> fst d = T ->
    forallb (key_field_ok sc e) (fst (snd d)) = true /\ forallb (nkey_ok_b sc U e) (snd (snd d)) = true /\
    names_distinct (map fst (snd (snd d))) = true /\ forallb ninner_distinct_b (snd (snd d)) = true.
  Proof.
    intros Hd HT.
    pose proof ne_contract as H. unfold nent_contract_b in H. rewrite forallb_forall in H. specialize (H d Hd).
    rewrite HT, HeT, bytes_eqb_refl in H. cbn [negb orb] in H. apply andb_true_iff in H. destruct H as [H1 H2].
    pose proof Hnwf as W. unfold ndecls_wf_b in W. apply andb_true_iff in W. destruct W as [_ W]. rewrite forallb_forall in W.
    specialize (W d Hd). apply andb_true_iff in W. destruct W as [W1 W2]. repeat split; assumption.
  Qed.
  Lemma ndecl_unique d d' : In d ndecls -> In d' ndecls -> fst d = fst d' -> d = d'.
  Proof.
    pose proof Hnwf as W. unfold ndecls_wf_b in W. apply andb_true_iff in W. destruct W as [W _].
    revert W. generalize ndecls as l. induction l as [|x l IH]; intros W Hd Hd' Hf; [destruct Hd|].
    cbn [map names_distinct] in W. apply andb_true_iff in W. destruct W as [W1 W2]. apply negb_true_iff in W1.
    destruct Hd as [<-|Hd], Hd' as [<-|Hd'].
    - reflexivity.
    - exfalso. assert (Hm : mem_bytes (fst x) (map fst l) = true) by (apply mem_bytes_In; rewrite Hf; apply in_map; exact Hd'). congruence.
    - exfalso. assert (Hm : mem_bytes (fst x) (map fst l) = true) by (apply mem_bytes_In; rewrite <- Hf; apply in_map; exact Hd). congruence.
    - apply IH; assumption.
  Qed.
  Lemma distinct_names_eq (l : nkspec) x y : names_distinct (map fst l) = true -> In x l -> In y l -> fst x = fst y -> x = y.
  Proof.
    induction l as [|z l IH]; intros W Hx Hy Hf; [destruct Hx|].
    cbn [map names_distinct] in W. apply andb_true_iff in W. destruct W as [W1 W2]. apply negb_true_iff in W1.
    destruct Hx as [<-|Hx], Hy as [<-|Hy].
    - reflexivity.
    - exfalso. assert (Hm : mem_bytes (fst z) (map fst l) = true) by (apply mem_bytes_In; rewrite Hf; apply in_map; exact Hy). congruence.
    - exfalso. assert (Hm : mem_bytes (fst z) (map fst l) = true) by (apply mem_bytes_In; rewrite <- Hf; apply in_map; exact Hx). congruence.
    - apply IH; assumption.
  Qed.

  (* the static facts of the fetch at index j (1-based) *)
  Lemma fetch_static_at : forall fs j pre from si ks r,
      fetches_static_b sc subs [] vdsM supM kq decls rdecls ndecls T items fetches j fs = true ->
      fs = pre ++ (from, si, ks) :: r ->
      (from <> [] /\ (forall d, In d from -> (fst d < j + length pre)%nat) /\
       names_incl ks (map fst (flat_map snd from)) = true /\ names_incl (map fst (flat_map snd from)) ks = true) /\ (si < length subs)%nat /\
      key_static_b decls ndecls T (fetch_kl from ks) (fetch_kn from) = true /\ repr_fields_ok_n decls rdecls ndecls T (fetch_kl from ks) = true /\
      forallb (fun x : name * list name => if is_nil (snd x) then negb (mem_bytes (fst x) (map fst (fetch_kn from)))
                                           else existsb (fun y : name * list name => nk_eqb [x] [y]) (fetch_kn from)) (flat_map snd from) = true /\
      sels_noent (src_proj (j + length pre) items fetches) = true /\
      req_ok_b (sub_at sc subs si) [] vars not_repr kq T (src_proj (j + length pre) items fetches) = true /\
      reqs_static_b rdecls T (src_proj (j + length pre) items fetches) (fetch_kl from ks) = true /\
      fetches_static_b sc subs [] vdsM supM kq decls rdecls ndecls T items fetches (S (j + length pre)) r = true.
  Proof.
    intros fs j pre. revert fs j. induction pre as [|[[f0 s0] k0] pre IH]; intros fs j from si ks r H ->.
    - cbn [app fetches_static_b length] in *. rewrite Nat.add_0_r.
      apply andb_true_iff in H. destruct H as [H H8].
      apply andb_true_iff in H. destruct H as [H H7].
      apply andb_true_iff in H. destruct H as [H H6].
      apply andb_true_iff in H. destruct H as [H H5].
      apply andb_true_iff in H. destruct H as [H Hcons].
      apply andb_true_iff in H. destruct H as [H H4].
      apply andb_true_iff in H. destruct H as [H H3].
      apply andb_true_iff in H. destruct H as [H1 H2]. apply Nat.ltb_lt in H2.
      apply andb_true_iff in H1. destruct H1 as [H1 H1d].
      apply andb_true_iff in H1. destruct H1 as [H1 H1c].
      apply andb_true_iff in H1. destruct H1 as [H1a H1b].
      repeat split; try assumption.
      + intros ->. discriminate.
      + intros d Hd. rewrite forallb_forall in H1b. apply Nat.ltb_lt. apply H1b. exact Hd.
    - cbn [app fetches_static_b] in H. apply andb_true_iff in H. destruct H as [_ H].
      specialize (IH _ (S j) from si ks r H eq_refl). cbn [length]. rewrite <- Nat.add_succ_comm. exact IH.
  Qed.

  Lemma fetch_static_in from si ks : In (from, si, ks) fetches ->
    (from <> [] /\ (forall d, In d from -> (fst d < length fetches)%nat) /\
     names_incl ks (map fst (flat_map snd from)) = true /\ names_incl (map fst (flat_map snd from)) ks = true) /\
    key_static_b decls ndecls T (fetch_kl from ks) (fetch_kn from) = true /\ repr_fields_ok_n decls rdecls ndecls T (fetch_kl from ks) = true /\
    forallb (fun x : name * list name => if is_nil (snd x) then negb (mem_bytes (fst x) (map fst (fetch_kn from)))
                                         else existsb (fun y : name * list name => nk_eqb [x] [y]) (fetch_kn from)) (flat_map snd from) = true.
  Proof.
    intros Hin. apply in_split in Hin. destruct Hin as (pre & r & Hf).
    destruct st_parts as (_ & _ & _ & _ & _ & Hfs & _).
    destruct (fetch_static_at fetches 1%nat pre from si ks r Hfs Hf) as ((Hne & Hlt & Hi1 & Hi2) & _ & Hk & Hr & Hcons & _).
    split; [|repeat split; assumption].
    split; [exact Hne|]. split; [|split; assumption].
    intros d Hd. specialize (Hlt d Hd). rewrite Hf, app_length. cbn [length]. clear -Hlt. lia.
  Qed.

  Lemma names_incl_In a b : names_incl a b = true -> forall x, In x a -> In x b.
  Proof. unfold names_incl. intros H x Hx. rewrite forallb_forall in H. apply mem_bytes_In. apply H. exact Hx. Qed.

  (* the leaf representation fields of a fetch are plain non-null leaves of [e] *)
  Lemma fetch_keys_ok from si ks : In (from, si, ks) fetches -> forallb (key_field_ok sc e) (fetch_kl from ks) = true.
  Proof.
    intros Hin. destruct (fetch_static_in from si ks Hin) as (_ & _ & Hrf & _).
    apply forallb_forall. intros x Hx. unfold repr_fields_ok_n in Hrf. rewrite forallb_forall in Hrf. specialize (Hrf x Hx).
    apply orb_true_iff in Hrf. destruct Hrf as [Hrf|Hrf]; [apply orb_true_iff in Hrf; destruct Hrf as [Hrf|Hrf]|]; apply existsb_exists in Hrf.
    - destruct Hrf as ([t k1] & Hd & H). cbn [fst snd] in H. apply andb_true_iff in H. destruct H as [Ht Hm]. apply bytes_eqb_eq in Ht. subst t.
      pose proof (ent_contract_keys sc decls rdecls e e_contract) as Hk. rewrite forallb_forall in Hk. specialize (Hk _ Hd).
      cbn [fst snd] in Hk. rewrite HeT, bytes_eqb_refl in Hk. cbn [negb orb] in Hk. rewrite forallb_forall in Hk. apply Hk. apply mem_bytes_In. exact Hm.
    - destruct Hrf as ([[t g] rs] & Hd & H). cbn [fst snd] in H. apply andb_true_iff in H. destruct H as [Ht Hm]. apply bytes_eqb_eq in Ht. subst t.
      pose proof (ent_contract_inputs sc decls rdecls e e_contract) as Hk. rewrite forallb_forall in Hk. specialize (Hk _ Hd).
      cbn [fst snd] in Hk. rewrite HeT, bytes_eqb_refl in Hk. cbn [negb orb] in Hk. rewrite forallb_forall in Hk. apply Hk. apply mem_bytes_In. exact Hm.
    - destruct Hrf as (d & Hd & H). apply andb_true_iff in H. destruct H as [Ht Hm]. apply bytes_eqb_eq in Ht.
      destruct (ndecl_parts d Hd Ht) as (Hk & _). rewrite forallb_forall in Hk. apply Hk. apply mem_bytes_In. exact Hm.
  Qed.

  (* the nested representation fields of a fetch are those of the nested key declared for the type *)
  Lemma fetch_kn_decl from si ks : In (from, si, ks) fetches ->
    fetch_kn from = [] \/ exists d, In d ndecls /\ fst d = T /\ fetch_kn from = snd (snd d) /\ names_incl (fst (snd d)) (fetch_kl from ks) = true.
  Proof.
    intros Hin. destruct (fetch_static_in from si ks Hin) as (_ & Hk & _).
    unfold key_static_b in Hk. apply orb_true_iff in Hk. destruct Hk as [Hk|Hk].
    - left. apply andb_true_iff in Hk. destruct Hk as [Hk _]. destruct (fetch_kn from); [reflexivity|discriminate].
    - right. apply existsb_exists in Hk. destruct Hk as (d & Hd & H).
      apply andb_true_iff in H. destruct H as [H H3]. apply andb_true_iff in H. destruct H as [H1 H2].
      apply bytes_eqb_eq in H1. apply nk_eqb_eq in H3. exists d. repeat split; assumption.
  Qed.
  Lemma dep_entry_nested from si ks x : In (from, si, ks) fetches -> In x (flat_map snd from) -> snd x <> [] ->
    In x (fetch_kn from) /\ exists d, In d ndecls /\ fst d = T /\ In x (snd (snd d)).
  Proof.
    intros Hin Hx Hn. destruct (fetch_static_in from si ks Hin) as (_ & _ & _ & Hcons).
    rewrite forallb_forall in Hcons. specialize (Hcons x Hx). destruct (snd x) as [|i0 ir] eqn:Es; [contradiction|]. cbn [is_nil] in Hcons.
    apply existsb_exists in Hcons. destruct Hcons as (y & Hy & Heq). apply nk_eqb_eq in Heq. injection Heq as <-.
    split; [exact Hy|].
    destruct (fetch_kn_decl from si ks Hin) as [E|(d & Hd & HT & E & _)]; [rewrite E in Hy; destruct Hy|].
    exists d. split; [exact Hd|]. split; [exact HT|]. rewrite <- E. exact Hy.
  Qed.
  Lemma dep_entry_leaf from si ks x : In (from, si, ks) fetches -> In (x, []) (flat_map snd from) -> In x (fetch_kl from ks).
  Proof.
    intros Hin Hx. destruct (fetch_static_in from si ks Hin) as ((_ & _ & _ & Hi2) & _ & _ & Hcons).
    rewrite forallb_forall in Hcons. specialize (Hcons _ Hx). cbn [snd is_nil fst] in Hcons. apply negb_true_iff in Hcons.
    unfold fetch_kl. apply filter_In. split.
    - apply (names_incl_In _ _ Hi2). apply in_map_iff. exists (x, []). split; [reflexivity|exact Hx].
    - rewrite Hcons. reflexivity.
  Qed.
  (* a leaf representation field of a fetch is asked of one of its dependencies as a leaf *)
  Lemma fetch_kl_entry from si ks x : In (from, si, ks) fetches -> In x (fetch_kl from ks) -> In (x, []) (flat_map snd from).
  Proof.
    intros Hin Hx. destruct (fetch_static_in from si ks Hin) as ((_ & _ & Hi1 & _) & _ & _ & Hcons).
    unfold fetch_kl in Hx. apply filter_In in Hx. destruct Hx as [Hx Hnn]. apply negb_true_iff in Hnn.
    apply (names_incl_In _ _ Hi1) in Hx. apply in_map_iff in Hx. destruct Hx as ([y yi] & Hy & Hin'). cbn [fst] in Hy. subst y.
    destruct yi as [|i0 ir]; [exact Hin'|]. exfalso.
    rewrite forallb_forall in Hcons. specialize (Hcons _ Hin'). cbn [snd is_nil] in Hcons.
    apply existsb_exists in Hcons. destruct Hcons as (y & Hy & Heq). apply nk_eqb_eq in Heq. injection Heq as <-.
    assert (Hm : mem_bytes x (map fst (fetch_kn from)) = true) by (apply mem_bytes_In; apply in_map_iff; exists (x, i0 :: ir); split; [reflexivity|exact Hy]).
    congruence.
  Qed.

  Lemma keys_of_in t f x : In x (keys_of t f) -> In x (flat_map snd (fst (fst f))).
  Proof.
    unfold keys_of. intros H. apply in_flat_map in H. destruct H as (d & Hd & Hx). apply filter_In in Hd.
    apply in_flat_map. exists d. split; [apply Hd|exact Hx].
  Qed.
  Lemma all_p_in t x : In x (all_p t) -> exists from si ks, In (from, si, ks) fetches /\ In x (flat_map snd from).
  Proof.
    unfold all_p. intros Hx. apply in_flat_map in Hx. destruct Hx as ([[from si] ks] & Hf & Hx).
    apply filter_In in Hf. exists from, si, ks. split; [apply Hf|]. apply (keys_of_in t _ x Hx).
  Qed.

  Lemma ks_p_in t x : In x (ks_p t) -> exists from si ks, In (from, si, ks) fetches /\ In x (fetch_kl from ks).
  Proof.
    unfold ks_p. intros Hx. apply kl_of_in in Hx. destruct (all_p_in t _ Hx) as (from & si & ks & Hf & Hin).
    exists from, si, ks. split; [exact Hf|]. apply (dep_entry_leaf from si ks x Hf Hin).
  Qed.
  Lemma kn_p_in t x : In x (kn_p t) -> exists d, In d ndecls /\ fst d = T /\ In x (snd (snd d)).
  Proof.
    unfold kn_p. intros Hx. apply kn_of_in in Hx. destruct Hx as [Hx Hn]. destruct (all_p_in t _ Hx) as (from & si & ks & Hf & Hin).
    apply (dep_entry_nested from si ks x Hf Hin Hn).
  Qed.
  Lemma kn_p_nnames t x : In x (kn_p t) -> In (fst x) (fetch_nnames fetches).
  Proof.
    unfold kn_p. intros Hx. apply kn_of_in in Hx. destruct Hx as [Hx Hn]. destruct (all_p_in t _ Hx) as (from & si & ks & Hf & Hin).
    unfold fetch_nnames. apply in_flat_map. exists (from, si, ks). split; [exact Hf|]. cbn [fst]. unfold fetch_kn. apply (kn_of_names _ x Hin Hn).
  Qed.

  Lemma ks_p_ok t : forallb (key_field_ok sc e) (ks_p t) = true.
  Proof.
    apply forallb_forall. intros x Hx. destruct (ks_p_in t x Hx) as (from & si & ks & Hf & Hk).
    pose proof (fetch_keys_ok from si ks Hf) as H. rewrite forallb_forall in H. apply H. exact Hk.
  Qed.
  Lemma kn_p_ok t : forallb (nkey_ok_b sc U e) (kn_p t) = true /\ forallb ninner_distinct_b (kn_p t) = true /\ keys_distinct (nsels (kn_p t)) = true.
  Proof.
    split; [|split].
    - apply forallb_forall. intros x Hx. destruct (kn_p_in t x Hx) as (d & Hd & HT & Hin). destruct (ndecl_parts d Hd HT) as (_ & H & _).
      rewrite forallb_forall in H. apply H. exact Hin.
    - apply forallb_forall. intros x Hx. destruct (kn_p_in t x Hx) as (d & Hd & HT & Hin). destruct (ndecl_parts d Hd HT) as (_ & _ & _ & H).
      rewrite forallb_forall in H. apply H. exact Hin.
    - apply nsels_distinct. unfold kn_p, kn_of. apply kn_dedup_distinct.
  Qed.

  Lemma fetch_keys_key_ok x : In x (fetch_keys fetches) -> key_ok sc e x = true.
  Proof.
    unfold fetch_keys. intros [<-|Hx]; unfold key_ok; [rewrite bytes_eqb_refl; reflexivity|].
    apply in_flat_map in Hx. destruct Hx as ([[from si] ks] & Hf & Hx). cbn [fst snd] in Hx.
    pose proof (fetch_keys_ok from si ks Hf) as H. rewrite forallb_forall in H. rewrite (H x Hx). apply orb_true_r.
  Qed.

  Lemma ks_p_in_fetch_keys t x : In x (key_names (ks_p t)) -> In x (fetch_keys fetches).
  Proof.
    unfold key_names, fetch_keys. intros [<-|Hx]; [left; reflexivity|]. right.
    destruct (ks_p_in t x Hx) as (from & si & ks & Hf & Hk). apply in_flat_map. exists (from, si, ks). split; [exact Hf|exact Hk].
  Qed.

  (* a client field whose response key is a key name is that very field *)
  Lemma unaliased_A t s : In s (A_p t) -> In (sel_key s) (fetch_keys fetches) ->
                          match s with SField _ n _ _ _ => n = sel_key s | _ => False end.
  Proof.
    intros Hs Hk. unfold A_p in Hs. apply in_map_iff in Hs. destruct Hs as (d & <- & Hd). apply filter_In in Hd. destruct Hd as [Hd _].
    destruct st_parts as (_ & _ & _ & _ & Hun & _). rewrite forallb_forall in Hun. specialize (Hun d Hd).
    unfold item_unaliased in Hun. rewrite (item_proj_key_p d Hd) in Hk. unfold key3 in Hk.
    apply mem_bytes_In in Hk. rewrite Hk in Hun. cbn [negb orb] in Hun.
    destruct (snd d) as [s|a n args sh T' sub|a n args sh T' csel rsel alts]; [|discriminate|discriminate]. destruct s as [a n args dirs ss| |]; try discriminate.
    cbn [item_proj]. apply bytes_eqb_eq in Hun. exact Hun.
  Qed.

  Lemma keys_unaliased_A t : keys_unaliased (ks_p t) (A_p t) = true.
  Proof.
    unfold keys_unaliased. apply forallb_forall. intros s Hs.
    destruct (mem_bytes (sel_key s) (key_names (ks_p t))) eqn:Em; [|reflexivity]. cbn [negb orb].
    apply mem_bytes_In in Em. pose proof (unaliased_A t s Hs (ks_p_in_fetch_keys t _ Em)) as H.
    destruct s as [a n args dirs ss| |]; try contradiction. apply bytes_eqb_eq. exact H.
  Qed.

  (* source [t] as the monolith answers its request: the members of its fields, then the key members, then the nested key members *)
  Lemma keys_from_eq t : keys_from t fetches =
    match filter (deps_on t) fetches with [] => [] | _ => key_sels (ks_p t) ++ nsels (kn_p t) end.
  Proof. unfold keys_from, ks_p, kn_p, all_p. destruct (filter (deps_on t) fetches); reflexivity. Qed.

  Lemma need_src_b t : (t <= length fetches)%nat -> (fuel_bound sc (src_proj t items fetches) + 10 <= f2)%nat.
  Proof.
    intros Ht. destruct t as [|j].
    - rewrite <- pt_proj_eq. apply need_proj0.
    - destruct need_parts as (_ & _ & H & _). eapply Nat.le_trans; [|exact H].
      assert (Hin : In (S j) (seq 1 (length fetches))) by (apply in_seq; lia).
      clear -Hin. induction (seq 1 (length fetches)) as [|x l IH]; [destruct Hin|]. cbn [map fold_right].
      destruct Hin as [->|Hin]; [apply Nat.le_max_l|]. eapply Nat.le_trans; [apply IH; exact Hin|apply Nat.le_max_r].
  Qed.
  Lemma need_src t : (t <= length fetches)%nat -> (length (A_p t) + length (ks_p t) + 6 <= f2)%nat.
  Proof.
    intros Ht. pose proof (need_src_b t Ht) as Hb.
    unfold fuel_bound in Hb. unfold src_proj in Hb. fold (part_p t) in Hb. fold (A_p t) in Hb. rewrite sels_size_app in Hb.
    pose proof (length_le_sels_size (A_p t)) as H1.
    assert (H2 : (length (ks_p t) <= sels_size (keys_from t fetches) + 1)%nat).
    { rewrite keys_from_eq. destruct (filter (deps_on t) fetches) as [|f fs] eqn:Ef.
      - unfold ks_p, all_p. rewrite Ef. cbn. lia.
      - rewrite sels_size_app. pose proof (length_le_sels_size (key_sels (ks_p t))) as H. unfold key_sels, key_names in H. rewrite map_length in H.
        cbn [length] in H. unfold key_sels, key_names. lia. }
    pose proof (arith_flat (sels_size (A_p t) + sels_size (keys_from t fetches)) (schema_ty_depth sc)) as Ha.
    unfold level_cost in Hb. clear -Hb H1 H2 Ha. lia.
  Qed.
  Lemma need_src_n t : (t <= length fetches)%nat -> filter (deps_on t) fetches <> [] ->
    (length (A_p t ++ key_sels (ks_p t)) + fuel_bound sc (nsels (kn_p t)) + 6 <= f2)%nat.
  Proof.
    intros Ht Hne. pose proof (need_src_b t Ht) as Hb.
    unfold src_proj in Hb. fold (part_p t) in Hb. fold (A_p t) in Hb. rewrite keys_from_eq in Hb.
    destruct (filter (deps_on t) fetches); [contradiction|]. rewrite app_assoc in Hb.
    unfold fuel_bound in *. rewrite sels_size_app in Hb.
    pose proof (length_le_sels_size (A_p t ++ key_sels (ks_p t))) as H1.
    unfold level_cost in *. clear -Hb H1. nia.
  Qed.

  Definition X_p (t : nat) : sres := mex' f2 T e (src_proj t items fetches) (q_of t).

  Lemma nn_not_in_A t x : In x (kn_p t) -> has_key (fst x) (A_p t ++ key_sels (ks_p t)) = false.
  Proof.
    intros Hx. destruct (st_nn (fst x) (kn_p_nnames t x Hx)) as [N1 N2].
    destruct (has_key (fst x) (A_p t ++ key_sels (ks_p t))) eqn:E; [|reflexivity]. exfalso.
    apply has_key_In in E. rewrite map_app in E. apply in_app_or in E. destruct E as [E|E].
    - apply N1. unfold A_p in E. rewrite map_map in E. apply in_map_iff in E. destruct E as (d & Hk & Hd). apply filter_In in Hd.
      rewrite (item_proj_key_p d (proj1 Hd)) in Hk. rewrite <- Hk. apply in_map. apply Hd.
    - apply N2. apply (ks_p_in_fetch_keys t). unfold key_sels in E. rewrite map_map in E. apply in_map_iff in E.
      destruct E as (k1 & Hk & Hin). cbn in Hk. rewrite <- Hk. exact Hin.
  Qed.

  Lemma src_exec t : (t <= length fetches)%nat ->
    X_p t = match Rfold fld3 a_of_p (part_p t) with
            | (Some la, ea) => (Some (la ++ extra_p t), ea)
            | (None, ea) => (None, ea)
            end.
  Proof.
    intros Ht. unfold X_p, src_proj. fold (part_p t). fold (A_p t). rewrite <- exec_A.
    rewrite keys_from_eq. unfold extra_p.
    destruct (filter (deps_on t) fetches) as [|f0 fs0] eqn:Ef.
    - rewrite app_nil_r. destruct (mex' f2 T e (A_p t) (q_of t)) as [[la|] ea]; [rewrite app_nil_r|]; reflexivity.
    - assert (Hne : filter (deps_on t) fetches <> []) by (rewrite Ef; discriminate).
      destruct (kn_p_ok t) as (Hok & Hid & Hkd).
      rewrite app_assoc. unfold mex. rewrite <- HeT.
      rewrite (exec_app_nsels sc U vars e (A_p t ++ key_sels (ks_p t)) (kn_p t) (q_of t) f2).
      + rewrite (exec_with_keys sc U vars e (A_p t) (ks_p t) (q_of t) f2 (plain_A t) (ks_p_ok t) (keys_unaliased_A t) (need_src t Ht)).
        destruct (exec_sels sc U [] vars Mono f2 (en_type e) {| ov_ent := e; ov_repr := None |} (A_p t) (q_of t)) as [[la|] ea]; [rewrite app_assoc|]; reflexivity.
      + apply Forall_app. split; [apply plain_A|apply plain_key_sels].
      + unfold keys_disjoint. apply forallb_forall. intros s Hs. apply negb_true_iff.
        destruct (has_key (sel_key s) (nsels (kn_p t))) eqn:E; [|reflexivity]. exfalso.
        apply has_key_In in E. unfold nsels in E. rewrite map_map in E. apply in_map_iff in E. destruct E as (x & Hk & Hx).
        cbn [nsel sel_key response_name] in Hk.
        pose proof (nn_not_in_A t x Hx) as Hn.
        assert (Hh : has_key (fst x) (A_p t ++ key_sels (ks_p t)) = true).
        { apply has_key_In. rewrite Hk. apply in_map. exact Hs. }
        congruence.
      + exact Hkd.
      + exact Hok.
      + exact Hid.
      + apply (need_src_n t Ht Hne).
  Qed.

  Lemma src_keyvals t la ea : (t <= length fetches)%nat ->
    Rfold fld3 a_of_p (part_p t) = (Some la, ea) -> keyvals_ok e (fetch_keys fetches) (la ++ extra_p t).
  Proof.
    intros Ht HR. rewrite <- exec_A in HR. unfold mex in HR. rewrite <- HeT in HR.
    intros k0 v Hin HK. apply in_app_or in Hin. destruct Hin as [Hin|Hin].
    - refine (plain_members_keyvals sc U vars e (A_p t) (fetch_keys fetches) (q_of t) f2 la ea (plain_A t) (distinct_A t) _
                                    fetch_keys_key_ok (unaliased_A t) HR k0 v Hin HK).
      pose proof (need_src t Ht). lia.
    - unfold extra_p in Hin. destruct (filter _ fetches); [destruct Hin|]. apply in_app_or in Hin. destruct Hin as [Hin|Hin].
      + apply (added_members_keyvals e (ks_p t) (A_p t) k0 v Hin).
      + exfalso. destruct (nmembers_in U e (kn_p t) k0 v Hin) as (inner & e' & Hx & _).
        destruct (st_nn k0 (kn_p_nnames t (k0, inner) Hx)) as [_ N2]. apply N2. exact HK.
  Qed.

  Lemma la_keys t la ea : (t <= length fetches)%nat -> Rfold fld3 a_of_p (part_p t) = (Some la, ea) -> map fst la = map sel_key (A_p t).
  Proof.
    intros Ht HR. rewrite <- exec_A in HR. unfold mex in HR. rewrite <- HeT in HR.
    apply (plain_members sc U vars e (A_p t) (q_of t) f2 la ea (plain_A t) (distinct_A t)); [|exact HR].
    pose proof (need_src t Ht). lia.
  Qed.

  Lemma src_present t la ea from si ks l x : (t <= length fetches)%nat ->
    Rfold fld3 a_of_p (part_p t) = (Some la, ea) -> In (from, si, ks) fetches -> In (t, l) from -> In x (key_names (kl_of l)) ->
    In x (map fst (la ++ extra_p t)).
  Proof.
    intros Ht HR Hf Hd Hx.
    pose proof (la_keys t la ea Ht HR) as Hm.
    assert (Hin : In (from, si, ks) (filter (deps_on t) fetches)).
    { apply filter_In. split; [exact Hf|]. unfold deps_on. cbn [fst]. apply existsb_exists. exists (t, l). split; [exact Hd|apply Nat.eqb_refl]. }
    unfold extra_p. destruct (filter (deps_on t) fetches) as [|f0 fs0] eqn:Ef; [destruct Hin|].
    rewrite app_assoc, map_app. apply in_or_app. left.
    apply key_present; [|exact Hm].
    unfold key_names in *. destruct Hx as [<-|Hx]; [left; reflexivity|]. right.
    unfold ks_p. apply kl_of_in. apply kl_of_in in Hx. unfold all_p. rewrite Ef. apply in_flat_map. exists (from, si, ks). split; [exact Hin|].
    unfold keys_of. cbn [fst]. apply in_flat_map. exists (t, l). split; [|exact Hx].
    apply filter_In. split; [exact Hd|apply Nat.eqb_refl].
  Qed.
  Lemma src_present_n t la ea from si ks l y : (t <= length fetches)%nat ->
    Rfold fld3 a_of_p (part_p t) = (Some la, ea) -> In (from, si, ks) fetches -> In (t, l) from -> In y l -> snd y <> [] ->
    In (fst y) (map fst (la ++ extra_p t)).
  Proof.
    intros Ht HR Hf Hd Hy Hn.
    assert (Hin : In (from, si, ks) (filter (deps_on t) fetches)).
    { apply filter_In. split; [exact Hf|]. unfold deps_on. cbn [fst]. apply existsb_exists. exists (t, l). split; [exact Hd|apply Nat.eqb_refl]. }
    assert (Hall : In y (all_p t)).
    { unfold all_p. apply in_flat_map. exists (from, si, ks). split; [exact Hin|]. unfold keys_of. cbn [fst]. apply in_flat_map. exists (t, l).
      split; [apply filter_In; split; [exact Hd|apply Nat.eqb_refl]|exact Hy]. }
    unfold extra_p. destruct (filter (deps_on t) fetches) as [|f0 fs0] eqn:Ef; [destruct Hin|].
    rewrite !map_app. apply in_or_app. right. apply in_or_app. right.
    pose proof (kn_of_names (all_p t) y Hall Hn) as Hk. fold (kn_p t) in Hk. apply in_map_iff in Hk. destruct Hk as (y' & Hfy & Hy').
    destruct (kn_p_ok t) as (Hok & _). rewrite forallb_forall in Hok. specialize (Hok y' Hy').
    destruct (nmember_shape sc U e y' Hok) as (e' & _ & _ & Hm).
    rewrite <- Hfy. apply in_map_iff. exists (fst y', JObj (map (fun i => (i, key_val e' i)) (snd y'))). split; [reflexivity|].
    unfold nmembers. apply in_flat_map. exists y'. split; [exact Hy'|]. rewrite Hm. left. reflexivity.
  Qed.
  (* the members under a nested key name: the object of the inner leaves of the entity the field refers to *)
  Lemma src_nvals t la ea k0 v : (t <= length fetches)%nat ->
    Rfold fld3 a_of_p (part_p t) = (Some la, ea) -> In (k0, v) (la ++ extra_p t) -> In k0 (fetch_nnames fetches) ->
    exists x d e', In d ndecls /\ fst d = T /\ In x (snd (snd d)) /\ fst x = k0 /\ nref U e k0 = Some e' /\
                   v = JObj (map (fun i => (i, key_val e' i)) (snd x)).
  Proof.
    intros Ht HR Hin Hnn. destruct (st_nn k0 Hnn) as [N1 N2].
    apply in_app_or in Hin. destruct Hin as [Hin|Hin].
    - exfalso. apply N1. pose proof (la_keys t la ea Ht HR) as Hm.
      assert (Hk : In k0 (map fst la)) by (apply in_map_iff; exists (k0, v); split; [reflexivity|exact Hin]).
      rewrite Hm in Hk. unfold A_p in Hk. rewrite map_map in Hk. apply in_map_iff in Hk. destruct Hk as (d & Hk & Hd). apply filter_In in Hd.
      rewrite (item_proj_key_p d (proj1 Hd)) in Hk. rewrite <- Hk. apply in_map. apply Hd.
    - unfold extra_p in Hin. destruct (filter _ fetches); [destruct Hin|]. apply in_app_or in Hin. destruct Hin as [Hin|Hin].
      + exfalso. apply N2. destruct (added_members_keyvals e (ks_p t) (A_p t) k0 v Hin) as [_ Hk]. apply (ks_p_in_fetch_keys t k0 Hk).
      + unfold nmembers in Hin. apply in_flat_map in Hin. destruct Hin as (x & Hx & Hm).
        destruct (kn_p_ok t) as (Hok & _). rewrite forallb_forall in Hok. specialize (Hok x Hx).
        destruct (nmember_shape sc U e x Hok) as (e' & Hr & _ & Hsh). rewrite Hsh in Hm. destruct Hm as [Hm|[]]. injection Hm as <- <-.
        destruct (kn_p_in t x Hx) as (d & Hd & HT & Hxd). exists x, d, e'. repeat split; assumption.
  Qed.

  (* ---- the entity fetches of the position, one after the other ---- *)
  Definition good_srcs (srcs : list (option (list (bytes * json)))) : Prop :=
    forall t, (t < length srcs)%nat ->
              exists la ea, Rfold fld3 a_of_p (part_p t) = (Some la, ea) /\ nth t srcs None = Some (la ++ extra_p t).

  Lemma in_merged kv srcs : In kv (merged srcs) -> exists t m, (t < length srcs)%nat /\ nth t srcs None = Some m /\ In kv m.
  Proof.
    unfold merged. intros H. apply in_flat_map in H. destruct H as (o & Ho & Hkv). destruct o as [m|]; [|destruct Hkv].
    apply In_nth with (d := None) in Ho. destruct Ho as (t & Ht & Hn). exists t, m. repeat split; assumption.
  Qed.
  Lemma merged_incl t m srcs : (t < length srcs)%nat -> nth t srcs None = Some m -> forall kv, In kv m -> In kv (merged srcs).
  Proof.
    intros Ht Hn kv Hkv. unfold merged. apply in_flat_map. exists (Some m). split; [rewrite <- Hn; apply nth_In; exact Ht|exact Hkv].
  Qed.

  Lemma merged_keyvals srcs : (length srcs <= S (length fetches))%nat -> good_srcs srcs ->
                              keyvals_ok e (fetch_keys fetches) (merged srcs).
  Proof.
    intros Hl Hg k0 v Hin HK. destruct (in_merged _ _ Hin) as (t & m & Ht & Hn & Hm).
    destruct (Hg t Ht) as (la & ea & HR & Hs). rewrite Hs in Hn. injection Hn as <-.
    apply (src_keyvals t la ea); [lia|exact HR|exact Hm|exact HK].
  Qed.

  Lemma plain_src t : plain_sels (src_proj t items fetches).
  Proof.
    unfold src_proj. fold (part_p t). fold (A_p t). apply Forall_app. split; [apply plain_A|].
    unfold keys_from. destruct (filter _ fetches); [constructor|apply Forall_app; split; [apply plain_key_sels|apply plain_nsels]].
  Qed.

  Lemma Hkc_p : key_consistent decls U = true.
  Proof.
    pose proof Hc as H. unfold univ3_contract_b in H.
    unfold univ_contract_b in H. apply andb_true_iff in H. destruct H as [H _]. apply andb_true_iff in H. apply H.
  Qed.
  Lemma Hcu_p : univ_contract_b sc decls rdecls subs U = true.
  Proof. exact Hc. Qed.

  Lemma rfold_none_errs l ea : Rfold fld3 a_of_p l = (None, ea) -> ea <> [].
  Proof.
    apply (fold_none_errs fld3 a_of_p).
    intros d e0. unfold a_of_p, guard3. destruct (plain_field (item_proj (snd d))).
    - intros H. apply (exec_sels_none_errs _ U [] vars Mono _ _ _ _ _ _ H).
    - intros H. injection H as <-. discriminate.
  Qed.

  Lemma fetch_loop : forall fs pre srcs,
      fetches = pre ++ fs -> length srcs = S (length pre) -> good_srcs srcs ->
      forall srcs' es, fetch_all U sc subs [] vdsM supM f2 tn T items fetches srcs (S (length pre)) fs = (srcs', es) ->
      (good_srcs srcs' /\ length srcs' = S (length fetches) /\
       (es = [] <-> forall t, (S (length pre) <= t < S (length fetches))%nat -> snd (Rfold fld3 a_of_p (part_p t)) = []))
      \/ (existsb (fun o : option (list (bytes * json)) => is_none o) srcs' = true /\ es <> [] /\
          exists t, (t <= length fetches)%nat /\ fst (Rfold fld3 a_of_p (part_p t)) = None).
  Proof.
    induction fs as [|[[from si] ks] rest IH]; intros pre srcs Hf Hl Hg srcs' es Hfa.
    - cbn [fetch_all] in Hfa. injection Hfa as <- <-. left. rewrite app_nil_r in Hf. subst pre.
      split; [exact Hg|]. split; [exact Hl|]. split; [intros _ t Ht; clear -Ht; lia|reflexivity].
    - set (j := S (length pre)) in *.
      destruct st_parts as (_ & _ & _ & _ & _ & Hfs & _).
      destruct (fetch_static_at fetches 1%nat pre from si ks rest Hfs Hf) as ((Hdne & Hfrom & Hinc1 & Hinc2) & Hsi & Hkcov & Hrf & Hcons & Hne & Hreq & Hrq & _).
      change (1 + length pre)%nat with j in *.
      assert (Hlenf : length fetches = (length pre + S (length rest))%nat) by (rewrite Hf, app_length; reflexivity).
      assert (Hjle : (j <= length fetches)%nat) by (unfold j; clear -Hlenf; lia).
      assert (Hinf : In (from, si, ks) fetches) by (rewrite Hf; apply in_or_app; right; left; reflexivity).
      cbn [fetch_all] in Hfa.
      assert (Hfl : forall d, In d from -> (fst d < length srcs)%nat) by (intros d Hd; rewrite Hl; apply Hfrom; exact Hd).
      assert (Hall : forallb (fun d : nat * list (name * list name) => negb (is_none (nth (fst d) srcs None))) from = true).
      { apply forallb_forall. intros d Hd. destruct (Hg (fst d) (Hfl d Hd)) as (la0 & ea0 & _ & Hs0). rewrite Hs0. reflexivity. }
      rewrite Hall in Hfa.
      set (kl := fetch_kl from ks) in *. set (kn := fetch_kn from) in *.
      pose proof (fetch_keys_ok from si ks Hinf) as Hklok. fold kl in Hklok.
      (* the nested fields are those of the declared nested key, fine on [e] *)
      assert (Hknd : forall x, In x kn -> exists d, In d ndecls /\ fst d = T /\ In x (snd (snd d))).
      { intros x Hx. unfold kn, fetch_kn in Hx. destruct (kn_of_in _ _ Hx) as [Hx1 Hx2].
        apply (dep_entry_nested from si ks x Hinf Hx1 Hx2). }
      assert (Hknok : forall x, In x kn -> nkey_ok_b sc U e x = true).
      { intros x Hx. destruct (Hknd x Hx) as (d & Hd & HT & Hxd). destruct (ndecl_parts d Hd HT) as (_ & H & _).
        rewrite forallb_forall in H. apply H. exact Hxd. }
      (* the representation *)
      assert (Hrepr : repr_from_n kl kn (merged srcs) = repr_of_n U e kl kn).
      { apply (merged_repr_n_ok sc U e kl kn (fetch_keys fetches) (merged srcs)).
        - exact Hklok.
        - intros x Hx. unfold key_names, fetch_keys in *. destruct Hx as [<-|Hx]; [left; reflexivity|right].
          apply in_flat_map. exists (from, si, ks). split; [exact Hinf|exact Hx].
        - apply merged_keyvals; [clear -Hl Hjle; unfold j in *; lia|exact Hg].
        - intros x Hx.
          assert (Hsrc : exists t l, In (t, l) from /\ In x (key_names (kl_of l))).
          { unfold key_names in Hx. destruct Hx as [<-|Hx].
            - destruct from as [|[t l] r0]; [contradiction|]. exists t, l. split; left; reflexivity.
            - pose proof (fetch_kl_entry from si ks x Hinf Hx) as He. apply in_flat_map in He. destruct He as ([t l] & Hd & Hxl).
              exists t, l. split; [exact Hd|right; apply kl_of_in; exact Hxl]. }
          destruct Hsrc as (t & l & Hd & Hxl). pose proof (Hfl _ Hd) as Htl. cbn [fst] in Htl.
          destruct (Hg t Htl) as (laf & eaf & HRf & Hsf).
          assert (Hp : In x (map fst (laf ++ extra_p t))).
          { apply (src_present t laf eaf from si ks l x); [clear -Htl Hl Hjle; unfold j in *; lia|exact HRf|exact Hinf|exact Hd|exact Hxl]. }
          apply in_map_iff in Hp. destruct Hp as (kv & <- & Hkv). apply in_map. apply (merged_incl t _ srcs Htl Hsf kv Hkv).
        - exact Hknok.
        - intros y Hy. unfold kn, fetch_kn in Hy. destruct (kn_of_in _ _ Hy) as [Hy1 Hy2].
          apply in_flat_map in Hy1. destruct Hy1 as ([t l] & Hd & Hyl). pose proof (Hfl _ Hd) as Htl. cbn [fst] in Htl.
          destruct (Hg t Htl) as (laf & eaf & HRf & Hsf).
          assert (Hp : In (fst y) (map fst (laf ++ extra_p t))).
          { apply (src_present_n t laf eaf from si ks l y); [clear -Htl Hl Hjle; unfold j in *; lia|exact HRf|exact Hinf|exact Hd|exact Hyl|exact Hy2]. }
          apply in_map_iff in Hp. destruct Hp as (kv & Hk & Hkv). rewrite <- Hk. apply in_map. apply (merged_incl t _ srcs Htl Hsf kv Hkv).
        - intros x e' v Hx Hr Hin.
          destruct (in_merged _ _ Hin) as (t & m & Ht & Hn & Hm).
          destruct (Hg t Ht) as (la & ea & HR & Hs). rewrite Hs in Hn. injection Hn as <-.
          assert (Hnn : In (fst x) (fetch_nnames fetches)).
          { unfold fetch_nnames. apply in_flat_map. exists (from, si, ks). split; [exact Hinf|]. cbn [fst]. apply in_map. exact Hx. }
          destruct (src_nvals t la ea (fst x) v) as (x' & d' & e'' & Hd' & HT' & Hx' & Hfx & Hr' & Hv);
            [clear -Ht Hl Hjle; unfold j in *; lia|exact HR|exact Hm|exact Hnn|].
          destruct (Hknd x Hx) as (d & Hd & HT & Hxd).
          assert (Edd : d = d') by (apply ndecl_unique; [exact Hd|exact Hd'|rewrite HT, HT'; reflexivity]). subst d'.
          destruct (ndecl_parts d Hd HT) as (_ & _ & Hnd & _).
          assert (Exx : x' = x) by (apply (distinct_names_eq (snd (snd d)) x' x Hnd Hx' Hxd Hfx)). subst x'.
          rewrite Hr in Hr'. injection Hr' as <-. exact Hv. }
      assert (Hwf : config_wf_b sc (sub_at sc subs si) = true)
        by (rewrite forallb_forall in Hwfs; apply Hwfs; unfold sub_at; apply nth_In; exact Hsi).
      assert (Hun : univ_ok_b (sub_at sc subs si) U = true)
        by (apply (univ_contract_sub sc decls rdecls subs U _ Hcu_p); unfold sub_at; apply nth_In; exact Hsi).
      assert (Hfind : find_by_repr U (repr_of_n U e kl kn) = Some e).
      { unfold key_static_b in Hkcov. fold kl kn in Hkcov. apply orb_true_iff in Hkcov. destruct Hkcov as [Hk|Hk].
        - apply andb_true_iff in Hk. destruct Hk as [Hnil Hcov]. destruct kn; [|discriminate]. rewrite repr_of_n_nil.
          apply (key_covered_find decls U e kl Hkc_p HeU). rewrite HeT. exact Hcov.
        - apply existsb_exists in Hk. destruct Hk as (d & Hd & H).
          apply andb_true_iff in H. destruct H as [H H3]. apply andb_true_iff in H. destruct H as [H1 H2].
          apply bytes_eqb_eq in H1. apply nk_eqb_eq in H3.
          apply (nkey_covered_find ndecls U e (fst (snd d)) kl kn Hnk_p HeU); [|exact H2].
          rewrite HeT, <- H1, H3. destruct d as [dn [dk dq]]. exact Hd. }
      assert (Hreqs : forall s0, In s0 (src_proj j items fetches) -> forall x, In x (fval_reqs (ent_fval e (sel_fname s0))) ->
                                 req_read Sub (Some (repr_of_n U e kl kn)) e x = req_read Mono None e x).
      { apply (reqs_agree_n_leaves sc U e (src_proj j items fetches) kl kn); [|exact Hklok].
        apply (reqs_static_covered sc decls rdecls T _ kl e Hrq e_contract HeT). }
      assert (Hnsp : sels_nospread (src_proj j items fetches) = true)
        by (apply (proj1 (static_nospread sc subs vdsM supM kq ab decls rdecls ndecls (S k)) T (PT items fetches) Hst j)).
      assert (Hfuel : (fuel_bound sc (src_proj j items fetches) + 10 <= f2)%nat) by (apply (need_src_b j Hjle)).
      pose proof (fetch_one_spec U sc subs vdsM supM eQ f2 tn HeQ Hnr T (src_proj j items fetches) (merged srcs) si kl kn
                                 (repr_of_n U e kl kn) e kq
                                 HeU HeT Hwf Hun (plain_src j) Hnsp Hne Hreq Hrepr Hfind Hreqs Hfuel) as Hspec.
      cbv zeta in Hspec. destruct Hspec as [Hs1 Hs2].
      assert (HX : exec_sels sc U [] vars Mono f2 T {| ov_ent := e; ov_repr := None |} (src_proj j items fetches) [] = X_p j)
        by (unfold X_p, mex, q_of, j; reflexivity).
      rewrite HX in Hs1, Hs2. rewrite (src_exec j Hjle) in Hs1, Hs2.
      destruct (fetch_one U sc subs [] vdsM supM f2 tn T (src_proj j items fetches) (merged srcs) si kl kn) as [o eo] eqn:Efo.
      cbn [fst snd] in Hs1, Hs2.
      destruct (fetch_all U sc subs [] vdsM supM f2 tn T items fetches (srcs ++ [o]) (S j) rest) as [os es'] eqn:Erest.
      injection Hfa as <- <-.
      destruct (Rfold fld3 a_of_p (part_p j)) as [[laj|] eaj] eqn:ERj; cbn [fst snd] in Hs1, Hs2.
      + (* the entity object is there *)
        subst o.
        assert (Hg' : good_srcs (srcs ++ [Some (laj ++ extra_p j)])).
        { intros t Ht. rewrite app_length in Ht. cbn [length] in Ht.
          destruct (Nat.lt_ge_cases t (length srcs)) as [Hlt|Hge].
          - rewrite app_nth1 by exact Hlt. apply Hg. exact Hlt.
          - assert (t = j) by (clear -Hl Ht Hge; unfold j; lia). subst t.
            exists laj, eaj. split; [exact ERj|]. replace j with (length srcs) by (rewrite Hl; reflexivity).
            rewrite nth_middle. reflexivity. }
        assert (Hf' : fetches = (pre ++ [(from, si, ks)]) ++ rest) by (rewrite <- app_assoc; exact Hf).
        assert (Hl' : length (srcs ++ [Some (laj ++ extra_p j)]) = S (length (pre ++ [(from, si, ks)])))
          by (rewrite !app_length; cbn [length]; rewrite Hl; clear; lia).
        assert (Hj' : S (length (pre ++ [(from, si, ks)])) = S j) by (rewrite app_length; cbn [length]; unfold j; clear; lia).
        rewrite <- Hj' in Erest.
        destruct (IH (pre ++ [(from, si, ks)]) _ Hf' Hl' Hg' os es' Erest) as [(G1 & G2 & G3)|(B1 & B2 & B3)].
        * left. split; [exact G1|]. split; [exact G2|]. rewrite Hj' in G3. rewrite app_nil_iff, Hs2, G3. split.
          -- intros [Hej Hr] t Ht. destruct (Nat.eq_dec t j) as [->|Hne']; [rewrite ERj; exact Hej|apply Hr; clear -Ht Hne'; lia].
          -- intros Hr. split; [specialize (Hr j); rewrite ERj in Hr; apply Hr; clear -Hjle; lia|]. intros t Ht. apply Hr. clear -Ht. lia.
        * right. split; [exact B1|]. split; [|exact B3]. intros Hn. apply app_eq_nil in Hn. apply B2. apply Hn.
      + (* the entity object is null: a violation in the fetched part *)
        right. subst o.
        destruct (fetch_all_prefix U sc subs [] vdsM supM f2 tn T items fetches rest (srcs ++ [None]) (S j)) as (more & Hm & _).
        rewrite Erest in Hm. cbn [fst] in Hm. subst os.
        split; [rewrite !existsb_app; cbn [existsb is_none]; rewrite orb_true_r; reflexivity|].
        split.
        * intros Hn. apply app_eq_nil in Hn. destruct Hn as [Hn _]. apply (rfold_none_errs _ _ ERj). apply Hs2. exact Hn.
        * exists j. split; [exact Hjle|rewrite ERj; reflexivity].
  Qed.

  (* ---- the fields of the position: shapes, links ---- *)
  Lemma shape_a_p d : one_member (key3 d) (a_of_p d).
  Proof.
    unfold a_of_p, guard3, key3.
    destruct (item_proj (snd d)) as [a n args [|? ?] ss| |] eqn:Ep; cbn [plain_field]; try (left; eexists; reflexivity).
    assert (Hkk : item_key (snd d) = response_name a n).
    { destruct (snd d) as [s|a' n' args' sh T' sub|a' n' args' sh T' csel rsel alts]; cbn [item_proj] in Ep;
        [subst s; reflexivity|injection Ep as <- <- _ _; reflexivity|injection Ep as <- <- _ _; reflexivity]. }
    rewrite Hkk. unfold mex.
    destruct (single_field_shape sc U [] vars Mono f2 a n args ss T {| ov_ent := e; ov_repr := None |} (q_of (fst d))) as [[e0 H]|[v [e0 H]]];
      [left; exists e0; exact H|right; exists v, e0; exact H].
  Qed.
  Lemma shape_m_p d : one_member (key3 d) (m_of_p d).
  Proof.
    unfold m_of_p, guard3, key3.
    destruct (item_client (snd d)) as [a n args [|? ?] ss| |] eqn:Ep; cbn [plain_field]; try (left; eexists; reflexivity).
    assert (Hkk : item_key (snd d) = response_name a n).
    { destruct (snd d) as [s|a' n' args' sh T' sub|a' n' args' sh T' csel rsel alts]; cbn [item_client] in Ep;
        [subst s; reflexivity|injection Ep as <- <- _ _; reflexivity|injection Ep as <- <- _ _; reflexivity]. }
    rewrite Hkk. unfold mex.
    destruct (single_field_shape sc U [] vars Mono f2 a n args ss T {| ov_ent := e; ov_repr := None |} p) as [[e0 H]|[v [e0 H]]];
      [left; exists e0; exact H|right; exists v, e0; exact H].
  Qed.
  Lemma none_a_p d e0 : a_of_p d = (None, e0) -> e0 <> [].
  Proof.
    unfold a_of_p, guard3. destruct (plain_field (item_proj (snd d))).
    - intros H. apply (exec_sels_none_errs _ U [] vars Mono _ _ _ _ _ _ H).
    - intros H. injection H as <-. discriminate.
  Qed.
  Lemma none_m_p d e0 : m_of_p d = (None, e0) -> e0 <> [].
  Proof.
    unfold m_of_p, guard3. destruct (plain_field (item_client (snd d))).
    - intros H. apply (exec_sels_none_errs _ U [] vars Mono _ _ _ _ _ _ H).
    - intros H. injection H as <-. discriminate.
  Qed.

  Lemma child_need_le d : In d items -> (sub_need sc (snd d) <= children_need)%nat.
  Proof. apply child_need_gen. Qed.

  Lemma item_need_p d : In d items -> (item_need sc (snd d) <= f2)%nat.
  Proof.
    intros Hd. unfold item_need.
    assert (H1 : (fuel_bound sc [item_proj (snd d)] + 10 <= f2)%nat).
    { assert (Ht : (fst d <= length fetches)%nat).
      { destruct st_parts as (_ & _ & _ & Htag & _). rewrite forallb_forall in Htag. apply Nat.leb_le. apply (Htag d Hd). }
      assert (Hb : (fuel_bound sc (src_proj (fst d) items fetches) + 10 <= f2)%nat).
      { destruct (fst d) as [|j] eqn:Et.
        - rewrite <- pt_proj_eq. apply need_proj0.
        - destruct need_parts as (_ & _ & H & _). eapply Nat.le_trans; [|exact H].
          assert (Hin : In (S j) (seq 1 (length fetches))) by (apply in_seq; clear -Ht; lia).
          clear -Hin. induction (seq 1 (length fetches)) as [|x l IHl]; [destruct Hin|]. cbn [map fold_right].
          destruct Hin as [->|Hin]; [apply Nat.le_max_l|]. eapply Nat.le_trans; [apply IHl; exact Hin|apply Nat.le_max_r]. }
      eapply Nat.le_trans; [|exact Hb]. apply Nat.add_le_mono_r. apply fuel_bound_le_size.
      unfold src_proj. rewrite sels_size_app.
      assert (Hin : In (item_proj (snd d)) (map (fun ti : fld3 => item_proj (snd ti)) (filter (fun ti : fld3 => Nat.eqb (fst ti) (fst d)) items))).
      { apply in_map_iff. exists d. split; [reflexivity|]. apply filter_In. split; [exact Hd|apply Nat.eqb_refl]. }
      pose proof (sels_size_in _ _ Hin) as Hs. clear -Hs. lia. }
    assert (H2 : (fuel_bound sc [item_client (snd d)] + 10 <= f2)%nat).
    { eapply Nat.le_trans; [|apply need_client]. apply Nat.add_le_mono_r. apply fuel_bound_le_size.
      rewrite pt_client_eq. apply sels_size_in. apply in_map_iff. exists d. split; [reflexivity|exact Hd]. }
    assert (H3 : (sub_need sc (snd d) <= f2)%nat).
    { eapply Nat.le_trans; [apply (child_need_le d Hd)|apply need_parts]. }
    apply Nat.max_lub; [exact H1|apply Nat.max_lub; [exact H2|exact H3]].
  Qed.

  Lemma wlink_p d : In d items -> wlink fld3 a_of_p m_of_p tr_of_p d.
  Proof.
    intros Hd Hn. rewrite (a_of_items d Hd), (m_of_items d Hd). unfold tr_of_p.
    pose proof (item_need_p d Hd) as Hneedd.
    destruct st_parts as (_ & _ & _ & _ & _ & _ & Hit). rewrite forallb_forall in Hit. specialize (Hit d Hd).
    destruct (snd d) as [s|a n args sh T' sub|a n args sh T' csel rsel alts] eqn:Ei.
    - cbn [item_proj item_client]. unfold mex. apply exec_path_indep'.
    - cbn [item_proj item_client]. apply (HFL T e a n args sh T' sub p (q_of (fst d)) Hit HeU HeT Hneedd).
    - cbn [item_proj item_client]. apply (HFA T e a n args sh T' csel rsel alts p (q_of (fst d)) Hit HeU HeT Hneedd).
  Qed.

  Lemma noof_m_p d : In d items -> no_oof (snd (m_of_p d)) = true.
  Proof.
    intros Hd. rewrite (m_of_items d Hd). unfold mex. apply exec_sels_fuel_sufficient.
    - cbn [sels_nospread forallb]. rewrite andb_true_r.
      destruct st_parts as (_ & _ & _ & _ & _ & _ & Hit). rewrite forallb_forall in Hit.
      apply (proj2 (static_nospread sc subs vdsM supM kq ab decls rdecls ndecls k) T (snd d) (Hit d Hd)).
    - pose proof (item_need_p d Hd) as H. unfold item_need in H.
      apply Nat.max_lub_iff in H. destruct H as [_ H]. apply Nat.max_lub_iff in H. destruct H as [H _]. clear -H. lia.
  Qed.

  Lemma mono_fold : mex' f2 T e (pt_client (PT items fetches)) p = Mfold fld3 m_of_p items.
  Proof.
    rewrite pt_client_eq. unfold mex.
    destruct st_parts as (_ & _ & Hk & _ & _ & _ & Hit).
    rewrite (exec_fields_fold_p sc U vars Mono f2 T _ (map (fun ti : fld3 => item_client (snd ti)) items) p).
    - rewrite fold_right_map. unfold Mfold.
      assert (Hin : forall d, In d items -> In d items) by auto. revert Hin. generalize items at 1 3 4 as l.
      induction l as [|d l IH]; intros Hin; [reflexivity|]. cbn [fold_right]. rewrite IH; [|intros x Hx; apply Hin; right; exact Hx].
      rewrite (m_of_items d (Hin d (or_introl eq_refl))). reflexivity.
    - apply (items_plain sc subs vdsM supM kq ab decls rdecls ndecls k T items Hit).
    - rewrite (keys_distinct_map_fields (fun ti : fld3 => item_client (snd ti)) key3); [exact Hk|intros d; apply item_client_key].
    - rewrite map_length. pose proof length_items_lt. lia.
  Qed.

  (* a violation in some source is a violation of the client's selection *)
  Lemma bad_mono t : (t <= length fetches)%nat -> fst (Rfold fld3 a_of_p (part_p t)) = None -> fst (Mfold fld3 m_of_p items) = None.
  Proof.
    intros Ht Hn. rewrite (Rfold_fst fld3 key3 a_of_p shape_a_p) in Hn.
    destruct (forallb (fun d => is_some (aval fld3 a_of_p d)) (part_p t)) eqn:Ea; [discriminate|].
    assert (Hex : exists d, In d (part_p t) /\ is_some (aval fld3 a_of_p d) = false).
    { clear -Ea. induction (part_p t) as [|x l IH]; [discriminate|]. cbn [forallb] in Ea. apply andb_false_iff in Ea.
      destruct Ea as [H|H]; [exists x; split; [left; reflexivity|exact H]|].
      destruct (IH H) as (d & Hd & Hv). exists d. split; [right; exact Hd|exact Hv]. }
    destruct Hex as (d & Hd & Hv). apply filter_In in Hd. destruct Hd as [Hd _].
    destruct (aval_shape fld3 key3 a_of_p shape_a_p d) as [(e0 & Ha & _)|(v & e0 & _ & Hav)]; [|rewrite Hav in Hv; discriminate].
    destruct (wlink_p d Hd (noof_m_p d Hd)) as [W1 _]. rewrite Ha in W1.
    assert (Htn : tr_of_p d (None, e0) = (None, e0)) by (unfold tr_of_p; destruct (snd d); reflexivity).
    rewrite Htn in W1. cbn [fst] in W1.
    change (Mfold fld3 m_of_p items) with (Rfold fld3 m_of_p items). rewrite (Rfold_fst fld3 key3 m_of_p shape_m_p).
    destruct (forallb (fun d0 => is_some (aval fld3 m_of_p d0)) items) eqn:Em; [|reflexivity].
    rewrite forallb_forall in Em. specialize (Em d Hd). unfold aval in Em. destruct (m_of_p d) as [[l|] ?]; cbn [fst] in W1; discriminate.
  Qed.

  Lemma good_all_some srcs : good_srcs srcs -> existsb (fun o : option (list (bytes * json)) => is_none o) srcs = false.
  Proof.
    intros Hg. destruct (existsb _ srcs) eqn:Ee; [|reflexivity]. exfalso.
    apply existsb_exists in Ee. destruct Ee as (o & Ho & Hn). destruct o; [discriminate|].
    apply In_nth with (d := None) in Ho. destruct Ho as (t & Ht & Hnth). destruct (Hg t Ht) as (la & ea & _ & Hs). congruence.
  Qed.

  (* the model's fetch list is the algebra's *)
  Lemma fetches_ext st :
    run_fetches (item_fetches (lift U sc subs [] vdsM supM f2 tn k) (lifta U sc subs [] vdsM supM f2 tn k) items) st =
    run_fetches (gefs fld3 key3 tr_of_p hasf_p items) st.
  Proof.
    apply run_fetches_ext. clear. induction items as [|d l IH]; [constructor|].
    unfold item_fetches, gefs in *. cbn [flat_map]. unfold hasf_p at 1, ffun, key3 at 1 2 3, tr_of_p at 1.
    destruct (snd d) as [s|a n args sh T' sub|a n args sh T' csel rsel alts]; cbn [app]; [exact IH| |].
    - constructor; [|exact IH]. cbn [fst snd item_key]. split; [reflexivity|]. intros v. unfold tr3. cbn [fst snd app].
      destruct (vres_sres (response_name a n) (lift U sc subs [] vdsM supM f2 tn k sh T' sub v)); reflexivity.
    - constructor; [|exact IH]. cbn [fst snd item_key]. split; [reflexivity|]. intros v. unfold tr3a. cbn [fst snd app].
      destruct (vres_sres (response_name a n) (lifta U sc subs [] vdsM supM f2 tn k sh alts v)); reflexivity.
  Qed.

  (* the projection's answer carries the runtime type under __typename when the projection asks for it *)
  Lemma src0_typename l1 e1 :
    mex' f2 T e (pt_proj (PT items fetches)) p = (Some l1, e1) ->
    has_tn_sel (pt_proj (PT items fetches)) = true -> get_member s_typename l1 = JStr T.
  Proof.
    rewrite pt_proj_eq. change (mex' f2 T e (src_proj 0 items fetches) p) with (X_p 0).
    rewrite (src_exec 0 (Nat.le_0_l _)).
    destruct (Rfold fld3 a_of_p (part_p 0)) as [[la0|] ea0] eqn:ER0; [|discriminate].
    intros H Htn. injection H as <- <-.
    pose proof (src_keyvals 0 la0 ea0 (Nat.le_0_l _) ER0) as Hkv.
    assert (Hpres : existsb (fun kv : bytes * json => bytes_eqb s_typename (fst kv)) (la0 ++ extra_p 0) = true).
    { unfold has_tn_sel, src_proj in Htn. fold (part_p 0) in Htn. fold (A_p 0) in Htn.
      apply existsb_exists in Htn. destruct Htn as (s0 & Hs & Hs0).
      destruct s0 as [[?|] n0 [|? ?] [|? ?] [|? ?]| |]; try discriminate. apply bytes_eqb_eq in Hs0. subst n0.
      assert (Hm : map fst la0 = map sel_key (A_p 0)).
      { pose proof ER0 as HR. rewrite <- exec_A in HR. unfold mex in HR. rewrite <- HeT in HR.
        apply (plain_members sc U vars e (A_p 0) (q_of 0) f2 la0 ea0 (plain_A 0) (distinct_A 0)); [|exact HR].
        pose proof (need_src 0 (Nat.le_0_l _)). lia. }
      apply in_app_or in Hs. destruct Hs as [Hs|Hs].
      - apply existsb_exists.
        assert (Hk : In s_typename (map fst la0)).
        { rewrite Hm. apply in_map_iff. exists (SField None s_typename [] [] []). split; [reflexivity|exact Hs]. }
        apply in_map_iff in Hk. destruct Hk as (kv & Hk & Hkv'). exists kv. split; [apply in_or_app; left; exact Hkv'|].
        rewrite Hk. apply bytes_eqb_refl.
      - unfold keys_from in Hs. unfold extra_p.
        destruct (filter (deps_on 0) fetches) as [|f0 fs0] eqn:Ef; [destruct Hs|].
        assert (Hp : In s_typename (map fst (la0 ++ added_members e (ks_p 0) (A_p 0)))).
        { apply key_present; [left; reflexivity|exact Hm]. }
        apply in_map_iff in Hp. destruct Hp as (kv & Hk & Hkv'). apply existsb_exists. exists kv. split.
        + rewrite app_assoc. apply in_or_app. left. exact Hkv'.
        + rewrite Hk. apply bytes_eqb_refl. }
    unfold get_member. rewrite (obj_get_uniform s_typename (la0 ++ extra_p 0) (key_val e s_typename)).
    - unfold key_val. rewrite bytes_eqb_refl, HeT. reflexivity.
    - intros k' v Hin Hk. apply bytes_eqb_eq in Hk. subst k'. apply (Hkv s_typename v Hin). left. reflexivity.
    - exact Hpres.
  Qed.

  Theorem PS_here :
    match mex' f2 T e (pt_proj (PT items fetches)) p with
    | (Some l1, e1) =>
      fst (fill U sc subs [] vdsM supM f2 tn (S k) T (PT items fetches) l1) = fst (mex' f2 T e (pt_client (PT items fetches)) p) /\
      (e1 ++ snd (fill U sc subs [] vdsM supM f2 tn (S k) T (PT items fetches) l1) = [] <->
       snd (mex' f2 T e (pt_client (PT items fetches)) p) = []) /\
      (has_tn_sel (pt_proj (PT items fetches)) = true -> get_member s_typename l1 = JStr T)
    | (None, _) => fst (mex' f2 T e (pt_client (PT items fetches)) p) = None
    end.
  Proof.
    enough (HH : match mex' f2 T e (pt_proj (PT items fetches)) p with
    | (Some l1, e1) =>
      (fst (fill U sc subs [] vdsM supM f2 tn (S k) T (PT items fetches) l1) = fst (mex' f2 T e (pt_client (PT items fetches)) p) /\
      (e1 ++ snd (fill U sc subs [] vdsM supM f2 tn (S k) T (PT items fetches) l1) = [] <->
       snd (mex' f2 T e (pt_client (PT items fetches)) p) = []))
    | (None, _) => fst (mex' f2 T e (pt_client (PT items fetches)) p) = None
    end).
    { pose proof src0_typename as HT.
      destruct (mex' f2 T e (pt_proj (PT items fetches)) p) as [[l1|] e1]; [|exact HH].
      destruct HH as [H1 H2]. split; [exact H1|]. split; [exact H2|]. intros Htn. apply (HT l1 e1 eq_refl Htn). }
    rewrite mono_fold. rewrite pt_proj_eq. change (mex' f2 T e (src_proj 0 items fetches) p) with (X_p 0).
    rewrite (src_exec 0 (Nat.le_0_l _)).
    destruct (Rfold fld3 a_of_p (part_p 0)) as [[la0|] ea0] eqn:ER0.
    2:{ apply (bad_mono 0 (Nat.le_0_l _)). rewrite ER0. reflexivity. }
    set (l1 := la0 ++ extra_p 0).
    assert (HnoofM : no_oof (snd (Mfold fld3 m_of_p items)) = true).
    { rewrite <- mono_fold. unfold mex. apply exec_sels_fuel_sufficient.
      - apply (proj2 (proj1 (static_nospread sc subs vdsM supM kq ab decls rdecls ndecls (S k)) T (PT items fetches) Hst 0%nat)).
      - pose proof need_client as H. clear -H. lia. }
    assert (Hgen : sres_weq (run_fetches (gefs fld3 key3 tr_of_p hasf_p items) (Rfold fld3 a_of_p items)) (Mfold fld3 m_of_p items)).
    { apply (gen_alg fld3 key3 a_of_p m_of_p tr_of_p hasf_p shape_a_p shape_m_p none_a_p none_m_p).
      - intros d e0. unfold tr_of_p. destruct (snd d); reflexivity.
      - intros d o e0. unfold tr_of_p. destruct (snd d); [cbn [fst snd]; tauto| |].
        + unfold tr3. destruct o as [[|[k0 v] [|? ?]]|]; cbn [fst snd app]; try tauto. rewrite app_nil_iff. tauto.
        + unfold tr3a. destruct o as [[|[k0 v] [|? ?]]|]; cbn [fst snd app]; try tauto. rewrite app_nil_iff. tauto.
      - intros d Hh r. unfold tr_of_p, hasf_p in *. destruct (snd d); [reflexivity|discriminate|discriminate].
      - apply Forall_forall. intros d Hd. apply wlink_p. exact Hd.
      - apply st_parts.
      - exact HnoofM. }
    cbn [fill].
    destruct (fetch_all U sc subs [] vdsM supM f2 tn T items fetches [Some l1] 1%nat fetches) as [srcs' ferrs] eqn:Efa.
    assert (Hg0 : good_srcs [Some l1]).
    { intros t Ht. cbn [length] in Ht. assert (t = 0%nat) by (clear -Ht; lia). subst t. exists la0, ea0. split; [exact ER0|reflexivity]. }
    destruct (fetch_loop fetches [] [Some l1] eq_refl eq_refl Hg0 srcs' ferrs Efa) as [(G1 & G2 & G3)|(B1 & B2 & t & Bt & Bn)].
    - (* every source answered *)
      rewrite (good_all_some srcs' G1). rewrite fetches_ext.
      (* the members read back in the client's order *)
      pose proof (readback_weq fld3 key3 a_of_p (fun d : fld3 => fst d) shape_a_p none_a_p items (proj1 (proj2 (proj2 st_parts))) srcs' (ea0 ++ ferrs)) as HRB.
      assert (HRB' : sres_weq (readback fld3 key3 (fun d : fld3 => fst d) items srcs' (ea0 ++ ferrs)) (Rfold fld3 a_of_p items)).
      { apply HRB.
        - intros d Hd. rewrite G2. destruct st_parts as (_ & _ & _ & Htag & _). rewrite forallb_forall in Htag.
          pose proof (Htag d Hd) as Hle. apply Nat.leb_le in Hle. clear -Hle. lia.
        - intros t Ht. destruct (G1 t Ht) as (la & ea & HR & Hs). change (part fld3 (fun d : fld3 => fst d) items t) with (part_p t).
          rewrite HR. cbn [fst]. exists (extra_p t). exact Hs.
        - rewrite app_nil_iff, G3. split.
          + intros [He0 Hr] t Ht. change (part fld3 (fun d : fld3 => fst d) items t) with (part_p t).
            destruct t as [|j]; [rewrite ER0; exact He0|apply Hr; rewrite G2 in Ht; clear -Ht; cbn [length]; lia].
          + intros Hr. split.
            * specialize (Hr 0%nat). change (part fld3 (fun d : fld3 => fst d) items 0) with (part_p 0) in Hr. rewrite ER0 in Hr.
              apply Hr. rewrite G2. clear. lia.
            * intros t Ht. specialize (Hr t). change (part fld3 (fun d : fld3 => fst d) items t) with (part_p t) in Hr.
              apply Hr. rewrite G2. cbn [length] in Ht. clear -Ht. lia. }
      unfold readback in HRB'. rewrite (good_all_some srcs' G1) in HRB'.
      set (ms := map (fun ti : fld3 => (item_key (snd ti), get_member (item_key (snd ti)) match nth (fst ti) srcs' None with Some m => m | None => [] end)) items) in *.
      change (map (fun d : fld3 => (key3 d, get_member (key3 d) match nth (fst d) srcs' None with Some m => m | None => [] end)) items) with ms in HRB'.
      destruct HRB' as [R1 R2]. cbn [fst snd] in R1, R2.
      destruct (Rfold fld3 a_of_p items) as [oF eF] eqn:EF. cbn [fst snd] in R1, R2. subst oF.
      rewrite (run_fetches_errs _ (Some ms) ferrs). rewrite (run_fetches_errs _ (Some ms) eF) in Hgen.
      destruct Hgen as [Ge1 Ge2]. cbn [fst snd] in Ge1, Ge2 |- *. split; [exact Ge1|].
      rewrite app_assoc, app_nil_iff. rewrite app_nil_iff in Ge2. tauto.
    - (* some source is missing: a violation *)
      rewrite B1. cbn [fst snd]. pose proof (bad_mono t Bt Bn) as HM.
      split; [symmetry; exact HM|].
      split.
      + intros Hn. apply app_eq_nil in Hn. destruct Hn as [_ Hn]. contradiction.
      + intros Hn. exfalso. destruct (Mfold fld3 m_of_p items) as [oM eM] eqn:EM. cbn [fst snd] in HM, Hn. subst oM eM.
        apply (fold_none_errs fld3 m_of_p none_m_p items [] EM). reflexivity.
  Qed.
End PSStep.

(* the POSITION step *)
Theorem PS_step U sc subs vdsM supM eQ f2 kq tn decls rdecls ndecls ab k :
  find_entity U (s_query sc) [] = Some eQ ->
  forallb (fun vd => not_repr (vd_name vd)) vdsM = true ->
  forallb (config_wf_b sc) subs = true ->
  univ3_contract_b sc subs decls rdecls U = true ->
  nkey_contract_b sc ndecls U = true ->
  ndecls_wf_b ndecls = true ->
  FL_at U sc subs vdsM supM f2 kq tn decls rdecls ndecls ab k ->
  FA_at U sc subs vdsM supM f2 kq tn decls rdecls ndecls ab k ->
  PS_at U sc subs vdsM supM f2 kq tn decls rdecls ndecls ab (S k).
Proof.
  intros HeQ Hnr Hwfs Hc Hnc Hnwf HFL HFA T [items fetches] e p Hst HeU HeT Hneed.
  apply (PS_here U sc subs vdsM supM eQ f2 kq tn decls rdecls ndecls ab k HeQ Hnr Hwfs Hc Hnc Hnwf HFL HFA T e p items fetches HeU HeT Hst Hneed).
Qed.
Print Assumptions PS_step.
