(* C01 / (5) translation validation, part 4: the plan form a REAL plan is translated to, its
   execution as the gateway model, the subgraph requests the model sends, and the universe-free
   validator.

   A [dfield2] is one root field of the planner's operation with what the real plan does for it:
     [d2_root]   which subgraph's root fetch resolves the field (index into the configuration's
                 subgraph schemas [subs]) -- a real plan has one root fetch per subgraph involved;
     [d2_shape]  the field returns one object or a list of objects;
     [d2_sel]    the client's sub-selection in the CLIENT's order, each top-level selection tagged
                 false (resolved by the root fetch) or true (resolved by the entity fetch);
     [d2_fetch]  the entity fetch at this field: subgraph, entity type, representation fields.
   Execution ([gateway2]): the root fetches (one request per root subgraph, Sub mode), their answers
   merged and read in the order of the client's fields; then every entity fetch applied to the
   member at its response key ([step2] / [step2h] / the list variants).  With [tn] the entity
   requests start with the planner's [__typename]. *)
From Coq Require Import PeanoNat Lia.
From Gv Require Import lib.Bytes lib.Json lib.Gql lib.Exec
     C01.ProofsBase C01.ProofsFuel C01.ProofsSplit C01.ProofsSim C01.ProofsJoin C01.ProofsOverlap
     C01.ProofsTwoStep C01.ProofsViol C01.ProofsCtxBase C01.ProofsCtx C01.ProofsTwoStepWf C01.ProofsPlanAlg
     C01.ProofsPlan C01.ProofsPlanOk C01.ProofsDedup C01.ProofsListHop
     C01.ProofsTvStatic C01.ProofsTvDefs C01.ProofsTvHidden C01.ProofsPlanGen.
Open Scope N_scope.

Inductive fshape := ShObj (nn : bool) | ShList (nnl nni : bool).

Record dfield2 := {
  d2_alias : option name; d2_name : name; d2_args : list argument;
  d2_shape : fshape;
  d2_root : nat;
  d2_sel : list (bool * selection);
  d2_fetch : option (nat * name * list name) }.

Definition d2_key (d : dfield2) : name := response_name (d2_alias d) (d2_name d).
Definition d2_selA (d : dfield2) : list selection := sel_untagged (d2_sel d).
Definition d2_selB (d : dfield2) : list selection := sel_tagged (d2_sel d).
Definition d2_has_fetch (d : dfield2) : bool := match d2_fetch d with Some _ => true | None => false end.

(* the field as the root fetch asks for it: the root part plus __typename and the representation fields *)
Definition root_sel2 (d : dfield2) : selection :=
  SField (d2_alias d) (d2_name d) (d2_args d) []
         (d2_selA d ++ match d2_fetch d with Some (_, _, ks) => key_sels ks | None => [] end).
(* the client's field, root part first *)
Definition ab_sel2 (d : dfield2) : selection :=
  SField (d2_alias d) (d2_name d) (d2_args d) [] (d2_selA d ++ d2_selB d).
(* the client's field verbatim *)
Definition client_sel2 (d : dfield2) : selection :=
  SField (d2_alias d) (d2_name d) (d2_args d) [] (map snd (d2_sel d)).
Definition client_doc2 (vdsM : list vardef) (frags : list fragment) (ds : list dfield2) : document :=
  query_doc vdsM (map client_sel2 ds) frags.

Definition shape_ty (sh : fshape) (T : name) : ty :=
  match sh with
  | ShObj nn => if nn then TNonNull (TNamed T) else TNamed T
  | ShList nnl nni => list_ty nnl nni T
  end.

(* the root subgraphs involved, in order of first use *)
Fixpoint nat_mem (x : nat) (l : list nat) : bool :=
  match l with [] => false | y :: r => Nat.eqb x y || nat_mem x r end.
Fixpoint nat_nodup (l : list nat) : list nat :=
  match l with [] => [] | x :: r => if nat_mem x r then nat_nodup r else x :: nat_nodup r end.
Definition roots_of (ds : list dfield2) : list nat := nat_nodup (map d2_root ds).
Definition fields_of (g : nat) (ds : list dfield2) : list dfield2 := filter (fun d => Nat.eqb (d2_root d) g) ds.

(* ---- the subgraph requests of the model ---- *)
Inductive mreq :=
| MRoot (sub : nat) (doc : document)
| MEntity (key : name) (sub : nat) (doc : document) (repr_fields : list name) (is_list : bool).

Definition model_requests2 (vdsM : list vardef) (frags : list fragment) (tn : bool) (ds : list dfield2) : list mreq :=
  map (fun g => MRoot g (query_doc vdsM (map root_sel2 (fields_of g ds)) frags)) (roots_of ds) ++
  flat_map (fun d => match d2_fetch d with
                     | Some (si, T, ks) =>
                       [MEntity (d2_key d) si
                                (entities_doc (rep_vd :: vdsM) T (ent_sel tn (d2_selB d)) frags)
                                (key_names ks)
                                (match d2_shape d with ShList _ _ => true | ShObj _ => false end)]
                     | None => []
                     end) ds.

Section Plan2.
  Variable U : universe.
  Variables (sc : schema) (subs : list schema) (frags : list fragment) (vdsM : list vardef) (supM : list (bytes * json)).
  Variable eQ : entity.
  Variables (g0 f1 f2 fM : nat).
  Variable tn : bool.

  Notation vars := (pvars vdsM supM).
  Notation ovQ := {| ov_ent := eQ; ov_repr := None |}.
  Notation Q := (s_query sc).

  Definition sub_at (i : nat) : schema := nth i subs sc.

  (* per field: the root answer, the monolithic answer (root part first), the entity fetch *)
  Definition a_of2 (d : dfield2) : sres := exec_sels (sub_at (d2_root d)) U frags vars Sub f1 Q ovQ [root_sel2 d] [].
  Definition m_of2 (d : dfield2) : sres := exec_sels sc U frags vars Mono fM Q ovQ [ab_sel2 d] [].
  Definition tr2 (d : dfield2) (r : sres) : sres :=
    match d2_fetch d with
    | None => r
    | Some (si, T, ks) =>
      let flA := flat_of sc frags vdsM supM g0 T (d2_selA d) in
      match d2_shape d with
      | ShObj nn =>
        if tn then step2h U (sub_at si) frags vdsM supM (Some (d2_key d)) (d2_key d) [] nn T ks (d2_selB d) flA r f2
        else step2 U (sub_at si) frags vdsM supM (Some (d2_key d)) (d2_key d) [] nn T ks (d2_selB d) flA r f2
      | ShList nnl nni =>
        if tn then step2h_list U (sub_at si) frags vdsM supM (Some (d2_key d)) (d2_key d) nnl nni T ks (d2_selB d) flA r f2
        else step2_list U (sub_at si) frags vdsM supM (Some (d2_key d)) (d2_key d) nnl nni T ks (d2_selB d) flA r f2
      end
    end.

  (* ---- the root fetches: one request per root subgraph; the answers read in the client's order ---- *)
  Definition root_resp (g : nat) (ds : list dfield2) : sres :=
    exec_sels (sub_at g) U frags vars Sub f1 Q ovQ (map root_sel2 (fields_of g ds)) [].
  Definition is_none {A} (o : option A) : bool := match o with None => true | Some _ => false end.
  Definition root_state (ds : list dfield2) : sres :=
    let resps := map (fun g => root_resp g ds) (roots_of ds) in
    let errs := flat_map snd resps in
    if existsb (fun r => is_none (fst r)) resps then (None, errs)
    else (Some (map (fun d => (d2_key d,
                               get_member (d2_key d) (match fst (root_resp (d2_root d) ds) with Some l => l | None => [] end))) ds),
          errs).

  (* ---- the gateway model and the monolith ---- *)
  Definition gateway2 (ds : list dfield2) : sres :=
    run_fetches (gefs dfield2 d2_key tr2 d2_has_fetch ds) (root_state ds).
  Definition mono_ab2 (ds : list dfield2) : sres := exec_sels sc U frags vars Mono fM Q ovQ (map ab_sel2 ds) [].
  Definition mono_client2 (ds : list dfield2) : sres := exec_sels sc U frags vars Mono fM Q ovQ (map client_sel2 ds) [].
End Plan2.

(* ---- the universe-free validator ---- *)
Section Static2.
  Variables (sc : schema) (subs : list schema) (frags : list fragment) (vdsM : list vardef) (supM : list (bytes * json)).
  Variables (g0 kq : nat).
  Variable decls : list (name * list name).
  Variable rdecls : list rdecl.
  Variable tn : bool.

  Notation vars := (pvars vdsM supM).
  Notation Q := (s_query sc).
  Notation flat_of' := (flat_of sc frags vdsM supM g0).
  Notation sub_at' := (sub_at sc subs).

  Definition fetch2_static_b (d : dfield2) (si : nat) (T : name) (ks : list name) : bool :=
    let selA := d2_selA d in let selB := d2_selB d in
    Nat.ltb si (length subs) &&
    match find_type Q (s_types sc) with
    | Some td =>
      match find_field (d2_name d) (td_fields td) with
      | Some fd => ty_eqb (fd_type fd) (shape_ty (d2_shape d) T)
      | None => false
      end
    | None => false
    end &&
    match is_leaf_kind sc T with Some false => true | _ => false end &&
    declared_obj sc T && negb (bytes_eqb T s_Entity) &&
    sels_noent selB &&
    req_ok_b (sub_at' si) frags vars not_repr kq T selB &&
    flat_okb sc frags vdsM supM g0 T selA && flat_okb sc frags vdsM supM g0 T selB &&
    keys_disjoint (flat_of' T selA) (flat_of' T selB) &&
    keys_unaliased ks (flat_of' T selA) &&
    key_covered decls T ks && repr_fields_ok decls rdecls T ks &&
    reqs_static_b rdecls T (flat_of' T selB) ks &&
    (negb tn || sels_top_nokey s_typename selB).

  Definition field2_static_b (d : dfield2) : bool :=
    negb (bytes_eqb (d2_name d) s_typename) &&
    sels_noent [root_sel2 d] &&
    Nat.ltb (d2_root d) (length subs) &&
    req_ok_b (sub_at' (d2_root d)) frags vars (fun _ => true) kq Q [root_sel2 d] &&
    match d2_fetch d with
    | Some (si, T, ks) => fetch2_static_b d si T ks
    | None => forallb (fun x => negb (fst x)) (d2_sel d)
    end.

  Definition plan2_static_b (ds : list dfield2) : bool :=
    frags_noent frags &&
    forallb (config_wf_b sc) subs &&
    names_distinct (map d2_key ds) &&
    forallb (fun vd => not_repr (vd_name vd)) vdsM &&
    forallb field2_static_b ds.

  (* (U5) the list-typed fields of the root object hold lists *)
  Definition is_list_ty (t : ty) : bool :=
    match t with TList _ | TNonNull (TList _) => true | _ => false end.
  Definition root_lists_b (U : universe) : bool :=
    match find_entity U Q [], find_type Q (s_types sc) with
    | Some eQ, Some td =>
      forallb (fun fd => negb (is_list_ty (fd_type fd)) ||
                         match field_fval {| ov_ent := eQ; ov_repr := None |} (fd_name fd) with FLst _ => true | _ => false end)
              (td_fields td)
    | _, _ => true
    end.

  (* the universe contract: subgraph schemas, declared keys, declared @requires (plan independent) *)
  Definition univ2_contract_b (U : universe) : bool :=
    univ_contract_b sc decls rdecls subs U && root_lists_b U.

  Definition plan2_ks (ds : list dfield2) : nat :=
    fold_right (fun d acc => Nat.max (match d2_fetch d with Some (_, _, ks) => length ks | None => O end) acc) O ds.
  Definition plan2_fuel (fM : nat) (ds : list dfield2) : nat := (fM + g0 + g0 + plan2_ks ds + length ds + 14)%nat.
End Static2.
