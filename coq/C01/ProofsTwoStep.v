(* C01 / E4: the two-step federated execution of one entity hop equals monolithic execution. *)
From Coq Require Import PeanoNat Lia.
From Gv Require Import lib.Bytes lib.Json lib.Gql lib.Exec
     C01.ProofsBase C01.ProofsFuel C01.ProofsSplit C01.ProofsSim C01.ProofsJoin C01.ProofsOverlap.
Open Scope N_scope.

(* ---- re-rooting of subgraph error paths ---- *)
Definition pel_eqb (a b : pel) : bool :=
  match a, b with PN x, PN y => bytes_eqb x y | PI i, PI j => N.eqb i j | _, _ => false end.
Lemma pel_eqb_refl a : pel_eqb a a = true.
Proof. destruct a; cbn; [apply bytes_eqb_refl|apply N.eqb_refl]. Qed.
Fixpoint strip_prefix (pre q : list pel) : option (list pel) :=
  match pre with
  | [] => Some q
  | a :: pre' => match q with b :: q' => if pel_eqb a b then strip_prefix pre' q' else None | [] => None end
  end.
Definition rebase_err (pre new : list pel) (e : xerr) : xerr :=
  match e with
  | XErr q => match strip_prefix pre q with Some q' => XErr (new ++ q') | None => e end
  | _ => e
  end.
Definition rebase_errs (pre new : list pel) (l : list xerr) : list xerr := map (rebase_err pre new) l.
Lemma strip_prefix_app pre q : strip_prefix pre (pre ++ q) = Some q.
Proof. induction pre as [|a pre IH]; [reflexivity|]. cbn. rewrite pel_eqb_refl. exact IH. Qed.
Lemma rebase_shift pre new l : rebase_errs pre new (shift_errs pre l) = shift_errs new l.
Proof.
  unfold rebase_errs, shift_errs. rewrite map_map. apply map_ext. intros [q| |]; cbn; [|reflexivity..].
  rewrite strip_prefix_app. reflexivity.
Qed.

(* ---- key selections ---- *)
Definition key_names (ks : list name) : list name := s_typename :: ks.
Definition key_sel (k : name) : selection := SField None k [] [] [].
Definition key_sels (ks : list name) : list selection := map key_sel (key_names ks).

Definition key_val (e : entity) (k : name) : json :=
  if bytes_eqb k s_typename then JStr (en_type e)
  else match assoc k (en_fields e) with Some (FSc j) => j | _ => JNull end.

Lemma mem_bytes_In x l : mem_bytes x l = true <-> In x l.
Proof.
  induction l as [|y l IH]; cbn; [split; [discriminate|intros []]|].
  rewrite orb_true_iff, IH, bytes_eqb_eq. split; intros [H|H]; auto.
Qed.

Section KeyFields.
  Variable sc : schema.
  Variable U : universe.
  Variable frags : list fragment.
  Variable vars : list (bytes * json).

  Definition leaf_ty (t : ty) : bool :=
    match t with
    | TNamed n | TNonNull (TNamed n) => match is_leaf_kind sc n with Some true => true | _ => false end
    | _ => false
    end.
  (* a key field: a declared leaf field (scalar / enum, possibly non-null) whose value in [e] is a
     plain non-null [FSc] *)
  Definition key_field_ok (e : entity) (k : name) : bool :=
    negb (bytes_eqb k s_typename) &&
    match find_type (en_type e) (s_types sc) with
    | Some td =>
      match find_field k (td_fields td) with
      | Some fd => leaf_ty (fd_type fd) &&
                   match assoc k (en_fields e) with
                   | Some (FSc j) => match j with JNull => false | _ => true end
                   | _ => false
                   end
      | None => false
      end
    | None => false
    end.
  Definition key_ok (e : entity) (k : name) : bool := bytes_eqb k s_typename || key_field_ok e k.

  Lemma key_field_exec g e ro key a k args dirs ss subs p :
    key_ok e k = true ->
    exec_field sc U frags vars Mono (S (S (S g))) (en_type e) {| ov_ent := e; ov_repr := ro |} key
               (SField a k args dirs ss) subs p =
    {| c_json := key_val e k; c_errs := []; c_viol := false |}.
  Proof.
    intros Hk. rewrite exec_field_S. unfold key_val, key_ok, key_field_ok in *.
    destruct (bytes_eqb k s_typename); [reflexivity|]. cbn [orb negb andb] in Hk.
    unfold is_entities.
    destruct (find_type (en_type e) (s_types sc)) as [td|]; [|discriminate].
    destruct (find_field k (td_fields td)) as [fd|]; [|discriminate].
    apply andb_true_iff in Hk. destruct Hk as [Hty Hv].
    unfold field_fval. cbn [ov_ent].
    destruct (assoc k (en_fields e)) as [[j| | | | | | |]|]; try discriminate.
    unfold leaf_ty in Hty.
    destruct (fd_type fd) as [n|t'|[n|t'|t']]; try discriminate.
    - rewrite complete_S. destruct (is_leaf_kind sc n) as [[|]|]; try discriminate. reflexivity.
    - rewrite complete_S, complete_S. destruct (is_leaf_kind sc n) as [[|]|]; try discriminate.
      cbn [leaf_value]. unfold nonnull_wrap. cbn [c_json]. destruct j; try reflexivity. discriminate.
  Qed.

  Lemma flatten_plain_fields : forall l fuel objty,
      Forall (fun s => exists a n args ss, s = SField a n args [] ss) l ->
      (length l < fuel)%nat ->
      flatten sc frags vars fuel objty l = FlatOk l.
  Proof.
    induction l as [|s l IH]; intros fuel objty HF Hlen.
    - destruct fuel; [simpl in Hlen; lia|reflexivity].
    - destruct fuel as [|fuel]; [simpl in Hlen; lia|]. rewrite flatten_S_cons.
      inversion HF as [|? ? (a & n & args & ss & ->) Hrest]; subst.
      cbn [flat_here included]. rewrite (IH fuel objty Hrest); [reflexivity|simpl in Hlen; lia].
  Qed.

  Lemma flatten_key_sels ks fuel objty :
    (length ks + 2 <= fuel)%nat -> flatten sc frags vars fuel objty (key_sels ks) = FlatOk (key_sels ks).
  Proof.
    intros H. apply flatten_plain_fields.
    - unfold key_sels. apply Forall_forall. intros s Hs. apply in_map_iff in Hs. destruct Hs as (k & <- & _).
      exists None, k, [], []. reflexivity.
    - unfold key_sels, key_names. rewrite map_length. simpl. lia.
  Qed.
End KeyFields.

(* ---- results of [sels_go] as a map over the groups ---- *)
Lemma sels_go_members ef p gs l errs :
  sels_go ef p gs = (Some l, errs) ->
  l = map (fun g : grp => (fst (fst g), c_json (ef (fst (fst g)) (snd (fst g)) (snd g) (p ++ [PN (fst (fst g))])))) gs.
Proof.
  revert l errs. induction gs as [|[[key s] subs] rest IH]; intros l errs H; cbn [sels_go] in H.
  - injection H as <- <-. reflexivity.
  - destruct (c_viol (ef key s subs (p ++ [PN key]))); [discriminate|].
    destruct (sels_go ef p rest) as [[l'|] e2]; [|discriminate].
    injection H as <- <-. cbn [map fst snd]. f_equal. apply (IH l' e2). reflexivity.
Qed.

Lemma sels_go_const ef p gs (val : name -> json) :
  Forall (fun g : grp => forall p', ef (fst (fst g)) (snd (fst g)) (snd g) p' =
                                    {| c_json := val (fst (fst g)); c_errs := []; c_viol := false |}) gs ->
  sels_go ef p gs = (Some (map (fun g : grp => (fst (fst g), val (fst (fst g)))) gs), []).
Proof.
  induction gs as [|[[key s] subs] rest IH]; intros HF; [reflexivity|].
  inversion HF as [|? ? Hg Hrest]; subst. cbn [fst snd] in Hg.
  cbn [sels_go]. rewrite Hg. cbn [c_viol c_json c_errs]. rewrite (IH Hrest). reflexivity.
Qed.

Lemma obj_get_uniform k (l : list (bytes * json)) w :
  (forall k' v, In (k', v) l -> bytes_eqb k k' = true -> v = w) ->
  existsb (fun kv => bytes_eqb k (fst kv)) l = true ->
  obj_get k l = Some w.
Proof.
  induction l as [|[k' v] l IH]; intros Hall Hex; [discriminate|].
  cbn [obj_get existsb fst] in *. destruct (bytes_eqb k k') eqn:E.
  - f_equal. apply (Hall k' v); [left; reflexivity|exact E].
  - cbn [orb] in Hex. apply IH; [|exact Hex]. intros k'' v' Hin. apply Hall. right. exact Hin.
Qed.

Lemma groups_key_exists : forall n fl k,
    (length fl <= n)%nat -> has_key k fl = true ->
    existsb (fun g : grp => bytes_eqb k (fst (fst g))) (groups fl) = true.
Proof.
  induction n as [|n IH]; intros fl k Hlen Hk.
  - destruct fl; [discriminate|simpl in Hlen; lia].
  - destruct fl as [|s rest]; [discriminate|]. rewrite groups_cons. cbn [existsb fst].
    unfold has_key in Hk. cbn [existsb] in Hk. fold (has_key k rest) in Hk.
    unfold same_key in Hk at 1.
    destruct (bytes_eqb (sel_key s) k) eqn:Es.
    + rewrite bytes_eqb_sym, Es. reflexivity.
    + cbn [orb] in Hk. rewrite bytes_eqb_sym, Es. cbn [orb].
      apply IH.
      * pose proof (filter_length_le (fun x => negb (same_key (sel_key s) x)) rest). simpl in Hlen. lia.
      * unfold has_key. rewrite existsb_filter_imp; [exact Hk|].
        intros y Hy. unfold same_key in *. apply bytes_eqb_eq in Hy. rewrite Hy.
        rewrite bytes_eqb_sym, Es. reflexivity.
Qed.

Lemma filter_keep_all {A} (p : A -> bool) l : forallb p l = true -> filter p l = l.
Proof.
  induction l as [|x l IH]; [reflexivity|]. cbn. intros H. apply andb_true_iff in H. destruct H as [H1 H2].
  rewrite H1, (IH H2). reflexivity.
Qed.
Lemma filter_drop_all {A} (p : A -> bool) l : forallb (fun x => negb (p x)) l = true -> filter p l = [].
Proof.
  induction l as [|x l IH]; [reflexivity|]. cbn. intros H. apply andb_true_iff in H. destruct H as [H1 H2].
  apply negb_true_iff in H1. rewrite H1. apply IH. exact H2.
Qed.

(* ---- one field hop ---- *)
Definition obj_cres (r : sres) : cres :=
  match fst r with
  | Some l => {| c_json := JObj l; c_errs := snd r; c_viol := false |}
  | None => cnull (snd r)
  end.
(* how the value of an object-typed field (nullable or not) becomes the one-member result of its
   parent selection set *)
Definition field_result (nn : bool) (kf : name) (p' : list pel) (c : cres) : sres :=
  let c' := if nn then nonnull_wrap p' c else c in
  if c_viol c' then (None, c_errs c') else (Some [(kf, c_json c')], c_errs c').

Lemma field_result_noof nn kf p' r :
  no_oof (snd (field_result nn kf p' (obj_cres r))) = true <-> no_oof (snd r) = true.
Proof.
  destruct r as [[l|] errs]; unfold field_result, obj_cres, nonnull_wrap, cnull; cbn [fst snd c_json c_errs c_viol];
    destruct nn; cbn [fst snd c_json c_errs c_viol]; try tauto.
  destruct errs; cbn; tauto.
Qed.

Definition hop_fuel (nn : bool) (c : nat) : nat := S (S (S (if nn then S c else c))).

Section Hop.
  Variable sc : schema.
  Variable U : universe.
  Variable frags : list fragment.
  Variable vars : list (bytes * json).
  Variables (P : name) (ovP : oval) (af : option name) (f : name) (args : list argument) (dirs : list directive).
  Variable path : list pel.
  Variables (nn : bool) (n : name) (td : type_def) (fd : field_def).

  Definition hop_key : name := response_name af f.
  Definition hop_path : list pel := path ++ [PN hop_key].
  Definition hop_cargs : list (bytes * json) := coerce_args sc vars (fd_args fd) args.
  Definition hop_fv : fval := field_fval ovP f.

  Hypothesis Hname : bytes_eqb f s_typename = false.
  Hypothesis Htd : find_type P (s_types sc) = Some td.
  Hypothesis Hfd : find_field f (td_fields td) = Some fd.
  Hypothesis Hty : fd_type fd = if nn then TNonNull (TNamed n) else TNamed n.
  Hypothesis Hcomp : is_leaf_kind sc n = Some false.

  Lemma hop_exec c X :
    exec_sels sc U frags vars Mono (hop_fuel nn c) P ovP [SField af f args dirs X] path =
    if included vars dirs then
      field_result nn hop_key hop_path (complete_obj sc U frags vars Mono c n hop_cargs hop_fv X hop_path)
    else (Some [], []).
  Proof.
    unfold hop_fuel. rewrite exec_sels_S, flatten_S_cons, flatten_S_nil. cbn [flat_here].
    destruct (included vars dirs); cbn [flat_seq app length]; [|reflexivity].
    change (group 2 [SField af f args dirs X]) with (groups [SField af f args dirs X]). rewrite groups_cons. cbn [filter flat_map sel_subs sel_key].
    rewrite groups_nil, !app_nil_r. cbn [sels_go].
    fold hop_key. fold hop_path.
    assert (Hf : exec_field sc U frags vars Mono (S (S (if nn then S c else c))) P ovP hop_key
                            (SField af f args dirs X) X hop_path =
                 (if nn then nonnull_wrap hop_path else fun r => r)
                   (complete_obj sc U frags vars Mono c n hop_cargs hop_fv X hop_path)).
    { rewrite exec_field_S, Hname. unfold is_entities. rewrite Htd, Hfd, Hty.
      fold hop_cargs. fold hop_fv.
      destruct nn.
      - rewrite complete_S, complete_S, Hcomp. reflexivity.
      - rewrite complete_S, Hcomp. reflexivity. }
    rewrite Hf. unfold field_result. destruct nn; cbn beta;
      match goal with |- context [c_viol ?r] => destruct (c_viol r) end; rewrite ?app_nil_r; reflexivity.
  Qed.
End Hop.

(* ---- the second request and the merge ---- *)
Definition rep_vd : vardef :=
  {| vd_name := s_representations;
     vd_type := TNonNull (TList (TNonNull (TNamed [95;65;110;121])));
     vd_default := None; vd_dirs := [] |}.
Definition vars2_of (vds2 : list vardef) (sup2 : list (bytes * json)) (T : name) (selB : list selection) (r : json)
  : list (bytes * json) :=
  effective_vars (entities_op (rep_vd :: vds2) T selB) ((s_representations, JArr [r]) :: sup2).
Lemma vars2_repr vds2 sup2 T selB r : assoc s_representations (vars2_of vds2 sup2 T selB r) = Some (JArr [r]).
Proof.
  unfold vars2_of, effective_vars. cbn [op_vars entities_op flat_map vd_name rep_vd assoc].
  rewrite bytes_eqb_refl. cbn [app assoc]. rewrite bytes_eqb_refl. reflexivity.
Qed.

Definition get_member (k : name) (l : list (bytes * json)) : json :=
  match obj_get k l with Some v => v | None => JNull end.
(* the representation read off the first response: __typename and the key fields *)
Definition repr_from (ks : list name) (l1 : list (bytes * json)) : json :=
  JObj (map (fun k => (k, get_member k l1)) (key_names ks)).
(* render only what the client selected (drops planner-added key fields) *)
Definition keep_selected (flA : list selection) (l1 : list (bytes * json)) : list (bytes * json) :=
  filter (fun kv => has_key (fst kv) flA) l1.
(* merge the entity object [x] into the object at response key [kf] *)
Definition merge_at (nn : bool) (kf : name) (p' : list pel) (flA : list selection)
           (l1 : list (bytes * json)) (x : json) (errs : list xerr) : sres :=
  field_result nn kf p'
    (obj_cres (match x with JObj lb => Some (keep_selected flA l1 ++ lb) | _ => None end, errs)).
(* client fields whose response key is a key name must be that very field *)
Definition keys_unaliased (ks : list name) (fl : list selection) : bool :=
  forallb (fun s => negb (mem_bytes (sel_key s) (key_names ks)) ||
                    match s with SField _ n _ _ _ => bytes_eqb n (sel_key s) | _ => false end) fl.

Lemma obj_cres_let (r : sres) :
  (let '(o, errs) := r in
   match o with
   | Some l => {| c_json := JObj l; c_errs := errs; c_viol := false |}
   | None => cnull errs
   end) = obj_cres r.
Proof. destruct r as [[l|] errs]; reflexivity. Qed.

Lemma existsb_map {A B} (g : A -> B) (p : B -> bool) l : existsb p (map g l) = existsb (fun x => p (g x)) l.
Proof. induction l as [|x l IH]; [reflexivity|]. cbn. rewrite IH. reflexivity. Qed.

Section KeyRead.
  Variable sc : schema.
  Variable U : universe.
  Variable frags : list fragment.
  Variable vars : list (bytes * json).
  Variable e : entity.
  Variable ks : list name.
  Hypothesis Hks : forallb (key_field_ok sc e) ks = true.

  Lemma key_names_ok k : In k (key_names ks) -> key_ok sc e k = true.
  Proof.
    intros [<-|Hin]; unfold key_ok; [rewrite bytes_eqb_refl; reflexivity|].
    rewrite forallb_forall in Hks. rewrite (Hks k Hin). apply orb_true_r.
  Qed.

  Lemma repr_members_keys : repr_members e ks = map (fun k => (k, key_val e k)) ks.
  Proof.
    clear -Hks. induction ks as [|k l IH]; [reflexivity|].
    cbn [forallb] in Hks. apply andb_true_iff in Hks. destruct Hks as [Hk Hl].
    unfold repr_members in *. cbn [flat_map map]. rewrite (IH Hl).
    unfold key_field_ok in Hk. unfold key_val.
    destruct (bytes_eqb k s_typename); [discriminate|]. cbn [negb andb] in Hk.
    destruct (find_type (en_type e) (s_types sc)) as [td|]; [|discriminate].
    destruct (find_field k (td_fields td)) as [fd|]; [|discriminate].
    apply andb_true_iff in Hk. destruct Hk as [_ Hv].
    destruct (assoc k (en_fields e)) as [[j| | | | | | |]|]; try discriminate. reflexivity.
  Qed.

  Lemma keys_exec_flat l c p :
    Forall (fun x => exists k, x = key_sel k /\ key_ok sc e k = true) l -> (4 <= c)%nat ->
    exec_flat sc U frags vars Mono c (en_type e) {| ov_ent := e; ov_repr := None |} l p =
    (Some (map (fun g : grp => (fst (fst g), key_val e (fst (fst g)))) (groups l)), []).
  Proof.
    intros HF Hc. unfold exec_flat. apply sels_go_const.
    apply (groups_Forall (fun x => exists k, x = key_sel k /\ key_ok sc e k = true)) with (n := length l);
      [|lia|exact HF].
    intros s same (k & -> & Hk) _ p0. cbn [fst snd sel_key key_sel response_name].
    destruct c as [|[|[|[|c]]]]; try lia. cbn [pred]. unfold key_sel. apply key_field_exec. exact Hk.
  Qed.

  Variables (flA : list selection) (la : list (bytes * json)) (ea : list xerr) (c : nat) (p : list pel).
  Hypothesis Hunal : keys_unaliased ks flA = true.
  Hypothesis Hc : (4 <= c)%nat.
  Hypothesis HEA : exec_flat sc U frags vars Mono c (en_type e) {| ov_ent := e; ov_repr := None |} flA p = (Some la, ea).

  Definition added_sels : list selection := new_keys flA (key_sels ks).
  Definition added_members : list (bytes * json) :=
    map (fun g : grp => (fst (fst g), key_val e (fst (fst g)))) (groups added_sels).

  Lemma added_sels_keys : Forall (fun x => exists k, x = key_sel k /\ key_ok sc e k = true) added_sels.
  Proof.
    apply Forall_forall. intros x Hx. unfold added_sels, new_keys in Hx. apply filter_In in Hx.
    destruct Hx as [Hx _]. unfold key_sels in Hx. apply in_map_iff in Hx. destruct Hx as (k & <- & Hk).
    exists k. split; [reflexivity|apply key_names_ok; exact Hk].
  Qed.

  Lemma get_member_key k :
    In k (key_names ks) -> get_member k (la ++ added_members) = key_val e k.
  Proof.
    intros Hk. unfold get_member. rewrite (obj_get_uniform k (la ++ added_members) (key_val e k)); [reflexivity| |].
    - intros k' v Hin Hkk. apply bytes_eqb_eq in Hkk. subst k'. apply in_app_or in Hin. destruct Hin as [Hin|Hin].
      + unfold exec_flat in HEA. apply sels_go_members in HEA. rewrite HEA in Hin.
        apply in_map_iff in Hin. destruct Hin as ([[kg s] subs] & Heq & Hg). cbn [fst snd] in Heq.
        injection Heq as -> <-.
        pose proof (groups_first_in flA) as HF1. rewrite Forall_forall in HF1. specialize (HF1 _ Hg). cbn [fst snd] in HF1.
        pose proof (groups_key_of flA) as HF2. rewrite Forall_forall in HF2. specialize (HF2 _ Hg). cbn [fst snd] in HF2.
        unfold keys_unaliased in Hunal. rewrite forallb_forall in Hunal. specialize (Hunal s HF1).
        rewrite <- HF2 in Hunal. apply mem_bytes_In in Hk. rewrite Hk in Hunal. cbn [negb orb] in Hunal.
        destruct s as [a n0 args0 dirs0 ss0| |]; try discriminate.
        apply bytes_eqb_eq in Hunal. subst n0.
        destruct c as [|[|[|[|c']]]]; try lia. cbn [pred].
        rewrite key_field_exec; [reflexivity|]. apply key_names_ok. apply mem_bytes_In. exact Hk.
      + unfold added_members in Hin. apply in_map_iff in Hin. destruct Hin as (g & Heq & _).
        injection Heq as -> <-. reflexivity.
    - rewrite existsb_app. apply orb_true_iff.
      destruct (has_key k flA) eqn:Eh.
      + left. unfold exec_flat in HEA. apply sels_go_members in HEA. rewrite HEA, existsb_map. cbn [fst].
        apply (groups_key_exists (length flA)); [lia|exact Eh].
      + right. unfold added_members. rewrite existsb_map. cbn [fst].
        apply (groups_key_exists (length added_sels)); [lia|].
        unfold has_key. apply existsb_exists. exists (key_sel k). split.
        * unfold added_sels, new_keys. apply filter_In. split; [unfold key_sels; apply in_map; exact Hk|].
          cbn [sel_key key_sel response_name]. rewrite Eh. reflexivity.
        * unfold same_key. cbn. apply bytes_eqb_refl.
  Qed.

  Lemma repr_from_keys : repr_from ks (la ++ added_members) = repr_of e ks.
  Proof.
    unfold repr_from, repr_of. rewrite repr_members_keys. f_equal.
    unfold key_names. cbn [map]. f_equal.
    - rewrite get_member_key; [|left; reflexivity]. unfold key_val. rewrite bytes_eqb_refl. reflexivity.
    - apply map_ext_in. intros k Hk. rewrite get_member_key; [reflexivity|right; exact Hk].
  Qed.

  Lemma keep_selected_members : keep_selected flA (la ++ added_members) = la.
  Proof.
    unfold keep_selected. rewrite filter_app.
    rewrite (filter_keep_all _ la), (filter_drop_all _ added_members); [apply app_nil_r| |].
    - unfold added_members. apply forallb_forall. intros kv Hin. apply in_map_iff in Hin.
      destruct Hin as ([[kg s] subs] & <- & Hg). cbn [fst snd].
      pose proof (groups_first_in added_sels) as HF1. rewrite Forall_forall in HF1. specialize (HF1 _ Hg). cbn [fst snd] in HF1.
      pose proof (groups_key_of added_sels) as HF2. rewrite Forall_forall in HF2. specialize (HF2 _ Hg). cbn [fst snd] in HF2.
      unfold added_sels, new_keys in HF1. apply filter_In in HF1. destruct HF1 as [_ HF1]. rewrite HF2. exact HF1.
    - unfold exec_flat in HEA. apply sels_go_members in HEA. rewrite HEA.
      apply forallb_forall. intros kv Hin. apply in_map_iff in Hin. destruct Hin as (g & <- & Hg). cbn [fst].
      pose proof (groups_has_key flA) as HF. rewrite Forall_forall in HF. apply (HF _ Hg).
  Qed.
End KeyRead.

Lemma two_step_arith fM g0 g2 lk f1 f2 (nn : bool) :
  (fM + g0 + g0 + lk + 10 <= f1)%nat -> (fM + g0 + g0 + lk + 10 + g2 <= f2)%nat ->
  let C := (fM + g0 + g0 + lk + 6)%nat in
  (hop_fuel nn C <= f1)%nat /\ (fM <= hop_fuel nn C)%nat /\ (g0 <= C)%nat /\ (g0 + g0 <= C)%nat /\
  (lk + 2 <= C)%nat /\ (g0 + (lk + 2) <= C)%nat /\ (4 <= C)%nat /\ (C + g2 + 3 <= f2)%nat /\
  (g2 <= C + g2)%nat /\ (C <= C + g2)%nat /\ (lk + 2 <= lk + 2)%nat.
Proof. intros H1 H2 C. unfold hop_fuel, C. destruct nn; repeat split; lia. Qed.

(* ---- E4 ---- *)
Section TwoStep.
  Variable U : universe.
  (* supergraph context *)
  Variables (sc : schema) (frags : list fragment) (vars : list (bytes * json)).
  (* subgraph 1 context *)
  Variables (sc1 : schema) (frags1 : list fragment) (vars1 : list (bytes * json)).
  (* subgraph 2 context: schema, fragments, further variable definitions and values *)
  Variables (sc2 : schema) (frags2 : list fragment) (vds2 : list vardef) (sup2 : list (bytes * json)).
  Variable root2 : entity.
  (* the hop: field [f] of object type [P], executed on [eP] at [path] *)
  Variables (P : name) (eP : entity) (af : option name) (f : name) (args : list argument) (dirs : list directive).
  Variable path : list pel.
  Variables (nn : bool) (n : name) (td : type_def) (fd : field_def).
  (* the entity type, its key, the two parts of the sub-selection *)
  Variables (T : name) (ks : list name) (selA selB : list selection) (flA flB : list selection).
  Variables (g0 g2 : nat).

  Notation ovP := {| ov_ent := eP; ov_repr := None |}.
  Notation kf := (response_name af f).
  Notation p' := (path ++ [PN (response_name af f)]).
  Notation vars2 := (vars2_of vds2 sup2 T selB).
  Notation fld X := (SField af f args dirs X).

  (* step 2, given the result of step 1 *)
  Definition step2 (R1 : sres) (f2 : nat) : sres :=
    match R1 with
    | (Some [(_, JObj l1)], errs1) =>
      let resp := execute f2 sc2 U Sub (entities_doc (rep_vd :: vds2) T selB frags2) None
                          (JObj ((s_representations, JArr [repr_from ks l1]) :: sup2)) in
      match rs_data resp with
      | JObj [(_, JArr [x])] =>
        merge_at nn kf p' flA l1 x (errs1 ++ rebase_errs [PN s_entities; PI 0] p' (rs_errs resp))
      | _ => R1
      end
    | _ => R1
    end.
  (* subgraph 1 resolves [f { selA, __typename, keys }]; subgraph 2 resolves [selB] via [_entities] *)
  Definition two_step (f1 f2 : nat) : sres :=
    step2 (exec_sels sc1 U frags1 vars1 Sub f1 P ovP [fld (selA ++ key_sels ks)] path) f2.

  Definition mono_hop (fM : nat) : sres :=
    exec_sels sc U frags vars Mono fM P ovP [fld (selA ++ selB)] path.

  (* [f] is a field of [P] in the supergraph, of a (possibly non-null) composite named type *)
  Hypothesis Hname : bytes_eqb f s_typename = false.
  Hypothesis Htd : find_type P (s_types sc) = Some td.
  Hypothesis Hfd : find_field f (td_fields td) = Some fd.
  Hypothesis Hty : fd_type fd = if nn then TNonNull (TNamed n) else TNamed n.
  Hypothesis Hcomp : is_leaf_kind sc n = Some false.
  (* subgraph 1 answers its request like the supergraph would *)
  Hypothesis Hfr1 : frags_noent frags1 = true.
  Hypothesis Hs1 : sels_noent [fld (selA ++ key_sels ks)] = true.
  Hypothesis H1 : forall fuel,
      exec_sels sc1 U frags1 vars1 Mono fuel P ovP [fld (selA ++ key_sels ks)] path =
      exec_sels sc U frags vars Mono fuel P ovP [fld (selA ++ key_sels ks)] path.
  (* subgraph 2 *)
  Hypothesis Hk2 : kind_of sc2 T <> None.
  Hypothesis Hfr2 : frags_noent frags2 = true.
  Hypothesis HsB : sels_noent selB = true.
  Hypothesis Hroot2 : find_entity U (s_query sc2) [] = Some root2.
  (* the client's sub-selection on [T] *)
  Hypothesis HflA : flatten sc frags vars g0 T selA = FlatOk flA.
  Hypothesis HflB : flatten sc frags vars g0 T selB = FlatOk flB.
  Hypothesis Hdisj : keys_disjoint flA flB = true.
  Hypothesis Hunal : keys_unaliased ks flA = true.
  (* whatever entity [f] resolves to: it has type [T], its key identifies it, its key fields are
     plain non-null leaves, the representation covers what [selB] requires, and subgraph 2 resolves
     [selB] on it like the supergraph *)
  Hypothesis Hent : forall e,
      obj_target U (hop_cargs sc vars args fd) (hop_fv ovP f) = Some (Some e) ->
      obj_type_ok sc n e = true ->
      en_type e = T /\
      find_by_repr U (repr_of e ks) = Some e /\
      forallb (key_field_ok sc e) ks = true /\
      (exists flB2, flatten sc2 frags2 (vars2 (repr_of e ks)) g2 T selB = FlatOk flB2 /\
                    reqs_covered e flB2 ks = true) /\
      (forall fuel,
          exec_sels sc2 U frags2 (vars2 (repr_of e ks)) Mono fuel T {| ov_ent := e; ov_repr := None |} selB [] =
          exec_sels sc U frags vars Mono fuel T {| ov_ent := e; ov_repr := None |} selB []).

  Lemma step2_null errs f2 :
    step2 (field_result nn kf p' (cnull errs)) f2 = field_result nn kf p' (cnull errs).
  Proof. unfold field_result, nonnull_wrap, cnull. destruct nn; cbn; reflexivity. Qed.

  Lemma step1_transport C f1 :
    (hop_fuel nn C <= f1)%nat ->
    no_oof (snd (exec_sels sc U frags vars Mono (hop_fuel nn C) P ovP [fld (selA ++ key_sels ks)] path)) = true ->
    exec_sels sc1 U frags1 vars1 Sub f1 P ovP [fld (selA ++ key_sels ks)] path =
    exec_sels sc U frags vars Mono (hop_fuel nn C) P ovP [fld (selA ++ key_sels ks)] path.
  Proof.
    intros Hle Hn. rewrite (exec_sels_sub_mono sc1 U frags1 vars1 f1 P eP _ path Hfr1 Hs1).
    rewrite H1. apply exec_sels_fuel_mono; assumption.
  Qed.

  Definition two_step_fuel (fM : nat) : nat := (fM + g0 + g0 + length ks + 10)%nat.

  Theorem federated_two_step_main fM f1 f2 :
    no_oof (snd (mono_hop fM)) = true ->
    (two_step_fuel fM <= f1)%nat -> (two_step_fuel fM + g2 <= f2)%nat ->
    two_step f1 f2 = mono_hop fM.
  Proof.
    intros Hn Hf1 Hf2. unfold two_step_fuel in *.
    destruct (two_step_arith fM g0 g2 (length ks) f1 f2 nn Hf1 Hf2)
      as (HC1 & HCM & Hc1 & Hc2 & Hc3 & Hc4 & Hc5 & Hc6 & Hc7 & Hc8 & Hc9).
    set (C := (fM + g0 + g0 + length ks + 6)%nat) in *. clearbody C.
    unfold mono_hop in *.
    assert (HM : exec_sels sc U frags vars Mono (hop_fuel nn C) P ovP [fld (selA ++ selB)] path =
                 exec_sels sc U frags vars Mono fM P ovP [fld (selA ++ selB)] path)
      by (apply exec_sels_fuel_mono; assumption).
    rewrite <- HM. rewrite <- HM in Hn. clear HM.
    unfold two_step.
    pose proof (hop_exec sc U frags vars P ovP af f args dirs path nn n td fd Hname Htd Hfd Hty Hcomp C (selA ++ selB)) as HMe.
    rewrite HMe in Hn |- *. clear HMe.
    pose proof (hop_exec sc U frags vars P ovP af f args dirs path nn n td fd Hname Htd Hfd Hty Hcomp C (selA ++ key_sels ks)) as HR.
    unfold hop_path, hop_key in Hn, HR |- *.
    destruct (included vars dirs).
    2:{ rewrite (step1_transport C f1 HC1); rewrite HR; reflexivity. }
    unfold complete_obj in Hn, HR |- *.
    destruct (obj_target U (hop_cargs sc vars args fd) (hop_fv ovP f)) as [[e|]|] eqn:Et.
    2:{ rewrite (step1_transport C f1 HC1); rewrite HR; [apply step2_null|exact Hn]. }
    2:{ rewrite (step1_transport C f1 HC1); rewrite HR; [apply step2_null|exact Hn]. }
    destruct (obj_type_ok sc n e) eqn:Eok; cbn [negb] in Hn, HR |- *.
    2:{ rewrite (step1_transport C f1 HC1); rewrite HR; [apply step2_null|exact Hn]. }
    destruct (Hent e eq_refl Eok) as (HT & Hfind & Hkeys & (flB2 & HflB2 & Hreq) & H2).
    rewrite obj_cres_let in Hn, HR |- *. rewrite HT in Hn, HR |- *.
    set (ov := {| ov_ent := e; ov_repr := None |}) in Hn, HR |- *.
    (* flatten facts at fuel C *)
    assert (HfA : flatten sc frags vars C T selA = FlatOk flA) by (apply flatten_mono_ok with (f := g0); [exact Hc1|exact HflA]).
    assert (HfB : flatten sc frags vars C T selB = FlatOk flB) by (apply flatten_mono_ok with (f := g0); [exact Hc1|exact HflB]).
    assert (HfK : flatten sc frags vars C T (key_sels ks) = FlatOk (key_sels ks)) by (apply flatten_key_sels; exact Hc3).
    assert (HfAB : flatten sc frags vars C T (selA ++ selB) = FlatOk (flA ++ flB)).
    { apply flatten_mono_ok with (f := (g0 + g0)%nat); [exact Hc2|]. apply flatten_app; assumption. }
    assert (HfAK : flatten sc frags vars C T (selA ++ key_sels ks) = FlatOk (flA ++ key_sels ks)).
    { apply flatten_mono_ok with (f := (g0 + (length ks + 2))%nat); [exact Hc4|]. apply flatten_app; [exact HflA|].
      apply flatten_key_sels. exact Hc9. }
    (* the monolithic object: selA and selB split *)
    rewrite (exec_split_eq sc U frags vars Mono C T ov selA selB p' flA flB HfA HfB) in Hn |- *;
      try (rewrite HfAB; reflexivity); try exact Hdisj.
    (* step 1: selA and the key selections *)
    rewrite (exec_split_overlap_partial sc U frags vars Mono C T ov selA (key_sels ks) p' flA (key_sels ks) HfA HfK) in HR.
    2:{ rewrite HfAK. reflexivity. }
    2:{ unfold overlap_nosubs. apply forallb_forall. intros x Hx. unfold key_sels in Hx. apply in_map_iff in Hx.
        destruct Hx as (k & <- & _). cbn. apply orb_true_r. }
    assert (HK : exec_flat sc U frags vars Mono C T ov (new_keys flA (key_sels ks)) p' =
                 (Some (added_members e ks flA), [])).
    { rewrite <- HT. unfold ov.
      apply (keys_exec_flat sc U frags vars e ks Hkeys (new_keys flA (key_sels ks)) C p');
        [apply (added_sels_keys sc e ks Hkeys flA)|exact Hc5]. }
    rewrite HK in HR.
    rewrite (exec_sels_flat sc U frags vars Mono C T ov selA p' flA HfA) in Hn, HR |- *.
    destruct (exec_flat sc U frags vars Mono C T ov flA p') as [[la|] ea] eqn:HEA.
    2:{ (* violation inside selA: the object at f is null in both *)
      unfold split_merge in *. cbn [fst snd] in *. unfold obj_cres in *. cbn [fst snd] in *.
      rewrite (step1_transport C f1 HC1); rewrite HR; [apply step2_null|exact Hn]. }
    (* selA succeeded with members la *)
    rewrite (exec_sels_path_nil sc U frags vars Mono p' C T ov selB) in Hn |- *.
    destruct (exec_sels sc U frags vars Mono C T ov selB []) as [oB eB] eqn:HEB.
    unfold split_merge, shift_sres in Hn, HR |- *. cbn [fst snd] in Hn, HR |- *.
    rewrite app_nil_r in HR.
    assert (Hnea : no_oof ea = true /\ no_oof eB = true).
    { apply field_result_noof in Hn. cbn [snd] in Hn. rewrite no_oof_app, no_oof_shift in Hn.
      apply andb_true_iff in Hn. exact Hn. }
    destruct Hnea as [Hnea HneB].
    rewrite (step1_transport C f1 HC1); rewrite HR; [|apply field_result_noof; exact Hnea].
    (* step 1 returned the object  la ++ added key members *)
    assert (HR1 : field_result nn kf p' (obj_cres (Some (la ++ added_members e ks flA), ea)) =
                  (Some [(kf, JObj (la ++ added_members e ks flA))], ea)).
    { unfold field_result, obj_cres, nonnull_wrap. cbn [fst snd]. destruct nn; reflexivity. }
    rewrite HR1. unfold step2.
    assert (HEA' : exec_flat sc U frags vars Mono C (en_type e) {| ov_ent := e; ov_repr := None |} flA p' = (Some la, ea))
      by (rewrite HT; exact HEA).
    rewrite (repr_from_keys sc U frags vars e ks Hkeys flA la ea C p' Hunal Hc5 HEA').
    (* step 2: the entity request *)
    assert (HB2 : mono_at sc2 U frags2 (vars2 (repr_of e ks)) (C + g2) T selB e = (oB, eB)).
    { unfold mono_at. rewrite H2. fold ov. rewrite <- HEB. apply exec_sels_fuel_mono; [exact Hc8|]. rewrite HEB. exact HneB. }
    rewrite (entity_join_execute_list sc2 U frags2 (C + g2) f2 (rep_vd :: vds2) T selB
               (JObj ((s_representations, JArr [repr_of e ks]) :: sup2)) root2 flB2 [repr_of e ks] [e]
               Hroot2 Hk2 Hfr2 HsB).
    - cbn [supplied_members]. fold (vars2 (repr_of e ks)). cbn [join_loop]. rewrite HB2.
      cbn [fst snd rs_data rs_errs app]. rewrite app_nil_r.
      change [PN s_entities; PI 0] with ([PN s_entities] ++ [PI 0]) at 1.
      rewrite rebase_shift.
      unfold merge_at.
      rewrite (keep_selected_members sc U frags vars e ks flA la ea C p' HEA').
      destruct oB as [lb|]; reflexivity.
    - cbn [supplied_members]. exact (vars2_repr vds2 sup2 T selB (repr_of e ks)).
    - cbn [supplied_members]. apply flatten_mono_ok with (f := g2); [exact Hc7|exact HflB2].
    - cbn [supplied_members]. constructor; [|constructor].
      split; [exact Hfind|]. split; [exact HT|]. split.
      + apply reqs_covered_agree. exact Hreq.
      + fold (vars2 (repr_of e ks)). rewrite HB2. exact HneB.
    - exact Hc6.
  Qed.
End TwoStep.

(* ---- the same through [execute], for a hop at the root ---- *)
Definition sres_of_response (r : response) : sres :=
  (match rs_data r with JObj l => Some l | _ => None end, rs_errs r).
Definition response_of_sres (r : sres) : response := {| rs_data := ojson (fst r); rs_errs := snd r |}.
Lemma sres_response_id r : sres_of_response (response_of_sres r) = r.
Proof. destruct r as [[l|] e]; reflexivity. Qed.

Definition query_op (vds : list vardef) (sels : list selection) : operation :=
  {| op_kind := OpQuery; op_name := None; op_vars := vds; op_dirs := []; op_sels := sels |}.
Definition query_doc (vds : list vardef) (sels : list selection) (frags : list fragment) : document :=
  DOp (query_op vds sels) :: map DFrag frags.

Lemma execute_query f sc U md vds sels frags supplied root :
  find_entity U (s_query sc) [] = Some root ->
  execute f sc U md (query_doc vds sels frags) None supplied =
  response_of_sres (exec_sels sc U frags (effective_vars (query_op vds sels) (supplied_members supplied)) md f
                              (s_query sc) {| ov_ent := root; ov_repr := None |} sels []).
Proof.
  intros Hroot. unfold execute, query_doc. cbn [pick_op doc_ops]. rewrite doc_ops_map.
  cbn [op_kind query_op root_type]. rewrite Hroot. cbn [doc_frags]. rewrite doc_frags_map.
  cbn [op_sels]. unfold supplied_members, response_of_sres, ojson.
  destruct (exec_sels _ _ _ _ _ _ _ _ _ _) as [r errs]. reflexivity.
Qed.

(* [two_step = mono_hop] at the root object is the equality of the two [execute] responses: the
   client operation on the monolith, and step 2 applied to subgraph 1's response *)
Theorem two_step_execute_bridge
        U sc frags vdsM supM sc1 frags1 vds1 sup1 sc2 frags2 vds2 sup2 root af f args dirs nn T ks selA selB flA fM f1 f2 :
  let varsM := effective_vars (query_op vdsM [SField af f args dirs (selA ++ selB)]) (supplied_members supM) in
  let vars1 := effective_vars (query_op vds1 [SField af f args dirs (selA ++ key_sels ks)]) (supplied_members sup1) in
  find_entity U (s_query sc) [] = Some root -> s_query sc1 = s_query sc ->
  two_step U sc1 frags1 vars1 sc2 frags2 vds2 sup2 (s_query sc) root af f args dirs [] nn T ks selA selB flA f1 f2 =
  mono_hop U sc frags varsM (s_query sc) root af f args dirs [] selA selB fM ->
  response_of_sres
    (step2 U sc2 frags2 vds2 sup2 af f [] nn T ks selB flA
           (sres_of_response
              (execute f1 sc1 U Sub (query_doc vds1 [SField af f args dirs (selA ++ key_sels ks)] frags1) None sup1)) f2) =
  execute fM sc U Mono (query_doc vdsM [SField af f args dirs (selA ++ selB)] frags) None supM.
Proof.
  intros varsM vars1 Hroot Hq H.
  rewrite (execute_query fM sc U Mono vdsM _ frags supM root Hroot).
  rewrite (execute_query f1 sc1 U Sub vds1 _ frags1 sup1 root); [|rewrite Hq; exact Hroot].
  rewrite sres_response_id. fold varsM. fold vars1. rewrite Hq.
  unfold two_step, mono_hop in H. rewrite H. reflexivity.
Qed.
