(* C01 / (6): the algebra of one object position of a plan tree. *)
From Coq Require Import PeanoNat Lia.
From Gv Require Import lib.Bytes lib.Json lib.Gql lib.Exec
     C01.ProofsBase C01.ProofsFuel C01.ProofsSplit C01.ProofsSim C01.ProofsJoin C01.ProofsOverlap
     C01.ProofsTwoStep C01.ProofsViol C01.ProofsCtxBase C01.ProofsCtx C01.ProofsTwoStepWf C01.ProofsPlanAlg
     C01.ProofsPlan C01.ProofsPlanOk C01.ProofsDedup C01.ProofsListHop
     C01.ProofsTvStatic C01.ProofsTvDefs C01.ProofsTvHidden C01.ProofsPlanGen C01.ProofsPlan2 C01.ProofsPlan2Link
     C01.ProofsPlan2Root C01.ProofsFuelSuff C01.ProofsNKeyDefs C01.ProofsPlan3 C01.ProofsPlan3Keys C01.ProofsPlan3Fetch.
Open Scope N_scope.

(* ---- several sources, each the fold of its own fields plus further members, read back in field order ---- *)
Section Readback.
  Variable fld : Type.
  Variable key : fld -> name.
  Variable a_of : fld -> sres.
  Variable tag : fld -> nat.

  Hypothesis Hshape_a : forall d, one_member (key d) (a_of d).
  Hypothesis Hnone_a : forall d e, a_of d = (None, e) -> e <> [].

  Notation Rfold' := (Rfold fld a_of).
  Notation aval' := (aval fld a_of).
  Notation the_val' := (the_val fld a_of).

  Variable ds : list fld.
  Hypothesis Hk : names_distinct (map key ds) = true.
  Variable srcs : list (option (list (bytes * json))).
  Variable E : list xerr.
  Definition part (t : nat) : list fld := filter (fun d => Nat.eqb (tag d) t) ds.
  Hypothesis Htags : forall d, In d ds -> (tag d < length srcs)%nat.
  Hypothesis Hsrc : forall t, (t < length srcs)%nat ->
      match fst (Rfold' (part t)) with
      | Some la => exists extra, nth t srcs None = Some (la ++ extra)
      | None => nth t srcs None = None
      end.
  Hypothesis HE : E = [] <-> (forall t, (t < length srcs)%nat -> snd (Rfold' (part t)) = []).

  Definition readback : sres :=
    if existsb (fun o : option (list (bytes * json)) => is_none o) srcs then (None, E)
    else (Some (map (fun d => (key d, get_member (key d) (match nth (tag d) srcs None with Some m => m | None => [] end))) ds), E).

  Lemma in_part d : In d ds -> In d (part (tag d)).
  Proof. intros H. apply filter_In. split; [exact H|apply Nat.eqb_refl]. Qed.

  Lemma get_member_app_l k (la extra : list (bytes * json)) :
    existsb (fun kv => bytes_eqb k (fst kv)) la = true -> get_member k (la ++ extra) = get_member k la.
  Proof.
    unfold get_member. induction la as [|[k' v] la IH]; [discriminate|]. cbn [existsb fst app obj_get].
    destruct (bytes_eqb k k'); [reflexivity|]. cbn [orb]. exact IH.
  Qed.

  Lemma all_some_srcs :
    forallb (fun d => is_some (aval' d)) ds = negb (existsb (fun o : option (list (bytes * json)) => is_none o) srcs).
  Proof.
    destruct (forallb (fun d => is_some (aval' d)) ds) eqn:Eall.
    - symmetry. apply negb_true_iff. destruct (existsb _ srcs) eqn:Ee; [|reflexivity]. exfalso.
      apply existsb_exists in Ee. destruct Ee as (o & Ho & Hnone). destruct o; [discriminate|].
      apply In_nth with (d := None) in Ho. destruct Ho as (t & Ht & Hnth).
      specialize (Hsrc t Ht). rewrite (Rfold_fst fld key a_of Hshape_a) in Hsrc.
      assert (Hsub : forallb (fun d => is_some (aval' d)) (part t) = true).
      { apply forallb_forall. intros d Hd. apply filter_In in Hd. rewrite forallb_forall in Eall. apply Eall. apply Hd. }
      rewrite Hsub in Hsrc. cbn [fst] in Hsrc. destruct Hsrc as (extra & Hs). congruence.
    - symmetry. apply negb_false_iff.
      assert (Hex : exists d, In d ds /\ is_some (aval' d) = false).
      { clear -Eall. induction ds as [|x l IH]; [discriminate|]. cbn [forallb] in Eall. apply andb_false_iff in Eall.
        destruct Eall as [H|H]; [exists x; split; [left; reflexivity|exact H]|].
        destruct (IH H) as (d & Hd & Hv). exists d. split; [right; exact Hd|exact Hv]. }
      destruct Hex as (d & Hd & Hv).
      pose proof (Hsrc (tag d) (Htags d Hd)) as Hs. rewrite (Rfold_fst fld key a_of Hshape_a) in Hs.
      destruct (forallb (fun d0 => is_some (aval' d0)) (part (tag d))) eqn:Eg.
      + rewrite forallb_forall in Eg. specialize (Eg d (in_part d Hd)). congruence.
      + cbn [fst] in Hs. apply existsb_exists. exists None. split; [|reflexivity].
        rewrite <- Hs. apply nth_In. apply Htags. exact Hd.
  Qed.

  Theorem readback_weq : sres_weq readback (Rfold' ds).
  Proof.
    unfold readback. pose proof all_some_srcs as Hall.
    split.
    - rewrite (Rfold_fst fld key a_of Hshape_a).
      destruct (existsb (fun o : option (list (bytes * json)) => is_none o) srcs) eqn:Ee;
        cbn [negb] in Hall; rewrite Hall; cbn [fst]; [reflexivity|].
      f_equal. apply map_ext_in. intros d Hd. f_equal.
      pose proof (Hsrc (tag d) (Htags d Hd)) as Hs. rewrite (Rfold_fst fld key a_of Hshape_a) in Hs.
      assert (Hsub : forallb (fun d0 => is_some (aval' d0)) (part (tag d)) = true).
      { apply forallb_forall. intros x Hx. apply filter_In in Hx. rewrite forallb_forall in Hall. apply Hall. apply Hx. }
      rewrite Hsub in Hs. cbn [fst] in Hs. destruct Hs as (extra & ->).
      rewrite get_member_app_l.
      + apply (get_member_map fld key a_of); [|apply in_part; exact Hd]. apply names_distinct_filter. exact Hk.
      + apply existsb_exists. exists (key d, the_val' d). split; [|cbn [fst]; apply bytes_eqb_refl].
        apply in_map_iff. exists d. split; [reflexivity|apply in_part; exact Hd].
    - rewrite (Rfold_snd fld key a_of Hshape_a Hnone_a).
      assert (Hs : E = [] <-> (forall d, In d ds -> snd (a_of d) = [])).
      { rewrite HE. split.
        - intros H d Hd. apply (proj1 (Rfold_snd fld key a_of Hshape_a Hnone_a _) (H (tag d) (Htags d Hd)) d (in_part d Hd)).
        - intros H t Ht. apply (Rfold_snd fld key a_of Hshape_a Hnone_a). intros d Hd. apply filter_In in Hd. apply H. apply Hd. }
      destruct (existsb _ srcs); cbn [snd]; exact Hs.
  Qed.
End Readback.

(* ---- the shape of the selections of a position ---- *)
Lemma pt_client_eq items fetches : pt_client (PT items fetches) = map (fun ti => item_client (snd ti)) items.
Proof.
  cbn [pt_client]. induction items as [|[t it] r IH]; [reflexivity|]. cbn [map snd]. f_equal. exact IH.
Qed.

Lemma pt_proj_eq items fetches : pt_proj (PT items fetches) = src_proj 0 items fetches.
Proof.
  cbn [pt_proj]. unfold src_proj. f_equal.
  induction items as [|[t it] r IH]; [reflexivity|]. cbn [filter fst]. destruct (Nat.eqb t 0); cbn [map snd]; [f_equal|]; exact IH.
Qed.


Lemma item_proj_key it : plain_field (item_client it) = true -> sel_key (item_proj it) = item_key it.
Proof. destruct it; reflexivity. Qed.
Lemma item_client_key it : sel_key (item_client it) = item_key it.
Proof. destruct it; reflexivity. Qed.

Section ItemShape.
  Variables (sc : schema) (subs : list schema) (vdsM : list vardef) (supM : list (bytes * json)) (kq : nat).
  Variables (ab : bool) (decls : list (name * list name)) (rdecls : list rdecl) (ndecls : list (name * (list name * nkspec))).
  Notation item_static' := (item_static_b sc subs [] vdsM supM kq ab decls rdecls ndecls).

  Lemma item_static_plain k T it :
    item_static' k T it = true ->
    (exists a n args ss, item_proj it = SField a n args [] ss) /\ (exists a n args ss, item_client it = SField a n args [] ss).
  Proof.
    destruct k as [|k]; [discriminate|]. cbn [item_static_b]. destruct it as [s|a n args sh T' sub|a n args sh T' csel rsel alts].
    - intros H. apply andb_true_iff in H. destruct H as [H _]. destruct s as [a n args [|? ?] ss| |]; try discriminate.
      cbn [item_proj item_client]. split; repeat eexists.
    - intros _. cbn [item_proj item_client]. split; repeat eexists.
    - intros _. cbn [item_proj item_client]. split; repeat eexists.
  Qed.

  Lemma items_plain k T (l : list (nat * pitem)) :
    forallb (fun ti => item_static' k T (snd ti)) l = true ->
    plain_sels (map (fun ti => item_proj (snd ti)) l) /\ plain_sels (map (fun ti => item_client (snd ti)) l).
  Proof.
    intros H. rewrite forallb_forall in H. split; apply Forall_forall; intros s Hs; apply in_map_iff in Hs;
      destruct Hs as (ti & <- & Hin); destruct (item_static_plain k T (snd ti) (H ti Hin)) as [H1 H2]; assumption.
  Qed.
End ItemShape.

Lemma keys_distinct_items (sel : pitem -> selection) (l : list (nat * pitem)) :
  (forall it, sel_key (sel it) = item_key it) ->
  names_distinct (map (fun ti => item_key (snd ti)) l) = true ->
  keys_distinct (map (fun ti => sel (snd ti)) l) = true.
Proof.
  intros Hs H. rewrite (keys_distinct_map_fields (fun ti => sel (snd ti)) (fun ti : nat * pitem => item_key (snd ti))); [exact H|].
  intros x. apply Hs.
Qed.

Lemma run_fetches_ext (fs fs' : list (name * fetch_fun)) st :
  Forall2 (fun a b => fst a = fst b /\ forall v, snd a v = snd b v) fs fs' -> run_fetches fs st = run_fetches fs' st.
Proof.
  intros H. revert st. induction H as [|[k F] [k' F'] l l' [Hk HF] _ IH]; intros st; [reflexivity|].
  cbn [fst snd] in Hk, HF. subst k'. rewrite !run_fetches_cons.
  assert (Ha : apply_fetch k F st = apply_fetch k F' st).
  { unfold apply_fetch. destruct st as [[ms|] errs]; [|reflexivity]. destruct (obj_get k ms); [rewrite HF; reflexivity|reflexivity]. }
  rewrite Ha. apply IH.
Qed.

(* ---- accepted plan trees contain no fragment spreads (fuel sufficiency applies) ---- *)
Lemma key_sels_nospread ks : sels_nospread (key_sels ks) = true.
Proof. unfold key_sels. induction (key_names ks) as [|x l IH]; [reflexivity|]. cbn. exact IH. Qed.
Lemma nsels_nospread kn : sels_nospread (nsels kn) = true.
Proof.
  unfold sels_nospread, nsels. apply forallb_forall. intros s Hs. apply in_map_iff in Hs. destruct Hs as (x & <- & _).
  unfold nsel. rewrite nospread_field. unfold sels_nospread. apply forallb_forall. intros s0 Hs0. apply in_map_iff in Hs0.
  destruct Hs0 as (i & <- & _). reflexivity.
Qed.
Lemma keys_from_nospread t fetches : sels_nospread (keys_from t fetches) = true.
Proof.
  unfold keys_from. destruct (filter _ fetches); [reflexivity|].
  rewrite nospread_app, key_sels_nospread, nsels_nospread. reflexivity.
Qed.

Section Nospread.
  Variables (sc : schema) (subs : list schema) (vdsM : list vardef) (supM : list (bytes * json)) (kq : nat).
  Variables (ab : bool) (decls : list (name * list name)) (rdecls : list rdecl) (ndecls : list (name * (list name * nkspec))).
  Notation pt_static' := (pt_static_b sc subs [] vdsM supM kq ab decls rdecls ndecls).
  Notation item_static' := (item_static_b sc subs [] vdsM supM kq ab decls rdecls ndecls).

  Lemma static_nospread : forall k,
      (forall T pt, pt_static' k T pt = true ->
                    forall t, sels_nospread (src_proj t (pt_items pt) (pt_fetches pt)) = true /\ sels_nospread (pt_client pt) = true) /\
      (forall T it, item_static' k T it = true -> sel_nospread (item_proj it) = true /\ sel_nospread (item_client it) = true).
  Proof.
    induction k as [|k [IHp IHi]]; [split; intros; discriminate|]. split.
    - intros T [items fetches] H t. cbn [pt_static_b] in H. apply andb_true_iff in H. destruct H as [_ HI].
      rewrite forallb_forall in HI. cbn [pt_items pt_fetches]. rewrite pt_client_eq. split.
      + unfold src_proj. rewrite nospread_app, keys_from_nospread, andb_true_r.
        apply forallb_forall. intros s Hs. apply in_map_iff in Hs. destruct Hs as (ti & <- & Hin). apply filter_In in Hin.
        apply (IHi T (snd ti) (HI ti (proj1 Hin))).
      + apply forallb_forall. intros s Hs. apply in_map_iff in Hs. destruct Hs as (ti & <- & Hin).
        apply (IHi T (snd ti) (HI ti Hin)).
    - intros T [s|a n args sh T' sub|a n args sh T' csel rsel alts] H; cbn [item_static_b] in H.
      + apply andb_true_iff in H. destruct H as [_ H]. cbn [item_proj item_client]. split; exact H.
      + apply andb_true_iff in H. destruct H as [_ HS].
        destruct sub as [items fetches]. destruct (IHp T' _ HS 0%nat) as [H1 H2]. cbn [pt_items pt_fetches] in H1.
        cbn [item_proj item_client]. rewrite !nospread_field. rewrite pt_proj_eq. split; assumption.
      + apply andb_true_iff in H. destruct H as [H _].
        apply andb_true_iff in H. destruct H as [H Hr].
        apply andb_true_iff in H. destruct H as [_ Hc].
        cbn [item_proj item_client]. rewrite !nospread_field. split; assumption.
  Qed.
End Nospread.
