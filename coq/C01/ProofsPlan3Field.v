(* C01 / (6): the FIELD step of the induction over plan trees: a composite field whose sub-selection is a plan tree. *)
From Coq Require Import PeanoNat Lia.
From Gv Require Import lib.Bytes lib.Json lib.Gql lib.Exec
     C01.ProofsBase C01.ProofsFuel C01.ProofsSplit C01.ProofsSim C01.ProofsJoin C01.ProofsOverlap
     C01.ProofsTwoStep C01.ProofsViol C01.ProofsCtxBase C01.ProofsCtx C01.ProofsTwoStepWf C01.ProofsPlanAlg
     C01.ProofsPlan C01.ProofsPlanOk C01.ProofsDedup C01.ProofsListHop
     C01.ProofsTvStatic C01.ProofsTvDefs C01.ProofsTvHidden C01.ProofsPlanGen C01.ProofsPlan2 C01.ProofsFuelSuff C01.ProofsPlan3.
Open Scope N_scope.

(* ---- unfolding of the client's selection / the projection of a plan tree ---- *)
Lemma pt_client_eq items f : pt_client (PT items f) = map (fun ti => item_client (snd ti)) items.
Proof.
  induction items as [|[t it] r IH]; [reflexivity|].
  change (pt_client (PT ((t, it) :: r) f)) with (item_client it :: pt_client (PT r f)).
  rewrite IH. reflexivity.
Qed.

Lemma pt_proj_eq items f :
  pt_proj (PT items f) =
  map (fun ti => item_proj (snd ti)) (filter (fun ti => Nat.eqb (fst ti) 0) items) ++ keys_from 0 f.
Proof.
  assert (H : forall l, (fix go (l : list (nat * pitem)) : list selection :=
                           match l with [] => [] | (t, it) :: r => if Nat.eqb t 0 then item_proj it :: go r else go r end) l =
                        map (fun ti => item_proj (snd ti)) (filter (fun ti => Nat.eqb (fst ti) 0) l)).
  { induction l as [|[t it] r IH]; [reflexivity|]. cbn [filter fst]. destruct (Nat.eqb t 0); [cbn [map snd]; f_equal|]; exact IH. }
  change (pt_proj (PT items f)) with
      ((fix go (l : list (nat * pitem)) : list selection :=
          match l with [] => [] | (t, it) :: r => if Nat.eqb t 0 then item_proj it :: go r else go r end) items ++ keys_from 0 f).
  rewrite H. reflexivity.
Qed.

Lemma key_sels_nospread ks : sels_nospread (key_sels ks) = true.
Proof.
  unfold sels_nospread, key_sels. apply forallb_forall. intros s Hs. apply in_map_iff in Hs.
  destruct Hs as (k & <- & _). reflexivity.
Qed.
Lemma keys_from_nospread t f : sels_nospread (keys_from t f) = true.
Proof. unfold keys_from. destruct (filter _ f); [reflexivity|apply key_sels_nospread]. Qed.

Section NoSpread.
  Variables (sc : schema) (subs : list schema) (frags : list fragment) (vdsM : list vardef) (supM : list (bytes * json)).
  Variable kq : nat.
  Variable decls : list (name * list name).
  Variable rdecls : list rdecl.

  Lemma static_nospread : forall k,
      (forall T pt, pt_static_b sc subs frags vdsM supM kq decls rdecls k T pt = true ->
                    sels_nospread (pt_proj pt) = true /\ sels_nospread (pt_client pt) = true) /\
      (forall T it, item_static_b sc subs frags vdsM supM kq decls rdecls k T it = true ->
                    sel_nospread (item_proj it) = true /\ sel_nospread (item_client it) = true).
  Proof.
    induction k as [|k [IHp IHi]]; [split; intros; discriminate|].
    split.
    - intros T [items fetches] H. cbn [pt_static_b] in H.
      apply andb_true_iff in H. destruct H as [_ H].
      rewrite forallb_forall in H.
      rewrite pt_client_eq, pt_proj_eq. split.
      + rewrite nospread_app, keys_from_nospread, andb_true_r.
        apply forallb_forall. intros s Hs. apply in_map_iff in Hs. destruct Hs as (ti & <- & Hti).
        apply filter_In in Hti. destruct Hti as [Hti _]. apply (IHi T _ (H ti Hti)).
      + apply forallb_forall. intros s Hs. apply in_map_iff in Hs. destruct Hs as (ti & <- & Hti).
        apply (IHi T _ (H ti Hti)).
    - intros T [s|a n args sh T' sub] H; cbn [item_static_b] in H.
      + apply andb_true_iff in H. destruct H as [_ H]. cbn [item_proj item_client]. split; exact H.
      + apply andb_true_iff in H. destruct H as [_ H].
        destruct (IHp T' sub H) as [H1 H2].
        change (item_proj (PDown a n args sh T' sub)) with (SField a n args [] (pt_proj sub)).
        change (item_client (PDown a n args sh T' sub)) with (SField a n args [] (pt_client sub)).
        rewrite !nospread_field. split; assumption.
  Qed.
End NoSpread.

Lemma exec_path_indep sc U frags vars md f objty ov sels (q1 q2 : list pel) :
  fst (exec_sels sc U frags vars md f objty ov sels q1) = fst (exec_sels sc U frags vars md f objty ov sels q2) /\
  (snd (exec_sels sc U frags vars md f objty ov sels q1) = [] <-> snd (exec_sels sc U frags vars md f objty ov sels q2) = []).
Proof.
  rewrite (exec_sels_path_nil sc U frags vars md q1), (exec_sels_path_nil sc U frags vars md q2).
  unfold shift_sres. cbn [fst snd]. split; [reflexivity|]. rewrite !shift_errs_nil. tauto.
Qed.

(* ---- a list-typed composite field, whatever the universe holds in it ---- *)
Definition list_src (fv : fval) : option (list fval) :=
  match fv with
  | FLst items => Some items
  | FSc (JArr js) => Some (map FSc js)
  | _ => None
  end.
Definition list_null_errs (fv : fval) (p' : list pel) : list xerr :=
  match fv with
  | FNullRef => []
  | FSc JNull => []
  | _ => [XErr p']
  end.
Lemma list_null_errs_iff fv q' p' : list_null_errs fv q' = [] <-> list_null_errs fv p' = [].
Proof. destruct fv as [j| | | | | | |]; try destruct j; cbn; split; try tauto; discriminate. Qed.

Section LVal.
  Variable sc : schema.
  Variable U : universe.
  Variable frags : list fragment.
  Variable vars : list (bytes * json).
  Variables (ovP : oval) (f : name) (nni : bool) (n : name) (cargs : list (bytes * json)).
  Hypothesis Hcomp : is_leaf_kind sc n = Some false.

  Notation ity := (if nni then TNonNull (TNamed n) else TNamed n).

  Lemma item_complete_g c X it q :
    complete sc U frags vars Mono (if nni then S (S c) else S c) ity ovP f cargs it X q =
    item_c U sc frags vars nni n cargs c X it q.
  Proof.
    unfold item_c, itemwrap. destruct nni.
    - rewrite complete_S, complete_S, Hcomp. reflexivity.
    - rewrite complete_S, Hcomp. reflexivity.
  Qed.

  Lemma complete_obj_FSc c c' j X q :
    complete_obj sc U frags vars Mono c n cargs (FSc j) X q = complete_obj sc U frags vars Mono c' n cargs (FSc j) X q.
  Proof. unfold complete_obj. cbn [obj_target]. destruct j; reflexivity. Qed.

  Lemma list_value c X fv p' :
    (1 <= c)%nat ->
    complete sc U frags vars Mono (S (if nni then S (S c) else S c)) (TList ity) ovP f cargs fv X p' =
    match list_src fv with
    | Some items => list_finish (lst_loop (item_c U sc frags vars nni n cargs c X) p' 0 items)
    | None => cnull (list_null_errs fv p')
    end.
  Proof.
    intros Hc1. rewrite complete_S.
    destruct fv as [j|t0 k0| |l| | |t0 a0|fs]; cbn [list_src list_null_errs]; try reflexivity.
    - destruct j; try reflexivity.
      destruct c as [|c']; [clear -Hc1; lia|].
      assert (Hg : (if nni then S (S (S c')) else S (S c')) = S (if nni then S (S c') else S c')) by (destruct nni; reflexivity).
      rewrite Hg, complete_S. f_equal. apply lst_loop_ext_in. intros it q Hin.
      apply in_map_iff in Hin. destruct Hin as (j & <- & _).
      rewrite item_complete_g. unfold item_c. rewrite (complete_obj_FSc c' (S c')). reflexivity.
    - f_equal. apply lst_loop_ext_in. intros it q _. apply item_complete_g.
  Qed.
End LVal.

Section LField.
  Variable sc : schema.
  Variable U : universe.
  Variable frags : list fragment.
  Variable vars : list (bytes * json).
  Variables (P : name) (ovP : oval) (af : option name) (f : name) (args : list argument).
  Variable path : list pel.
  Variables (nnl nni : bool) (n : name) (td : type_def) (fd : field_def).

  Hypothesis Hname : bytes_eqb f s_typename = false.
  Hypothesis Htd : find_type P (s_types sc) = Some td.
  Hypothesis Hfd : find_field f (td_fields td) = Some fd.
  Hypothesis Hty : fd_type fd = list_ty nnl nni n.
  Hypothesis Hcomp : is_leaf_kind sc n = Some false.

  Lemma list_field_exec c X :
    (1 <= c)%nat ->
    exec_sels sc U frags vars Mono (list_hop_fuel nnl nni c) P ovP [SField af f args [] X] path =
    field_result nnl (hop_key af f) (hop_path af f path)
      (match list_src (hop_fv ovP f) with
       | Some items => list_finish (lst_loop (item_c U sc frags vars nni n (hop_cargs sc vars args fd) c X) (hop_path af f path) 0 items)
       | None => cnull (list_null_errs (hop_fv ovP f) (hop_path af f path))
       end).
  Proof.
    intros Hc1.
    unfold list_hop_fuel. cbv zeta. rewrite exec_sels_S, flatten_S_cons, flatten_S_nil. cbn [flat_here included].
    cbn [flat_seq app length].
    change (group 2 [SField af f args [] X]) with (groups [SField af f args [] X]). rewrite groups_cons.
    cbn [filter flat_map sel_subs sel_key]. rewrite groups_nil, !app_nil_r. cbn [sels_go].
    fold (hop_key af f). fold (hop_path af f path).
    set (g := if nni then S (S c) else S c).
    set (V := match list_src (hop_fv ovP f) with
              | Some items => list_finish (lst_loop (item_c U sc frags vars nni n (hop_cargs sc vars args fd) c X) (hop_path af f path) 0 items)
              | None => cnull (list_null_errs (hop_fv ovP f) (hop_path af f path))
              end).
    assert (Hl : complete sc U frags vars Mono (S g) (TList (if nni then TNonNull (TNamed n) else TNamed n))
                          ovP f (hop_cargs sc vars args fd) (hop_fv ovP f) X (hop_path af f path) = V).
    { unfold g, V. apply list_value; assumption. }
    assert (Hf : exec_field sc U frags vars Mono (S (if nnl then S (S g) else S g)) P ovP (hop_key af f)
                            (SField af f args [] X) X (hop_path af f path) =
                 (if nnl then nonnull_wrap (hop_path af f path) else fun r => r) V).
    { rewrite exec_field_S, Hname. unfold is_entities. rewrite Htd, Hfd, Hty.
      fold (hop_cargs sc vars args fd). change (field_fval ovP f) with (hop_fv ovP f). unfold list_ty. cbv zeta.
      destruct nnl; [rewrite complete_S|]; rewrite Hl; reflexivity. }
    rewrite Hf. unfold field_result. destruct nnl; cbn beta;
      match goal with |- context [c_viol ?r] => destruct (c_viol r) end; rewrite ?app_nil_r; reflexivity.
  Qed.
End LField.

Section FLStep.
  Variable U : universe.
  Variables (sc : schema) (subs : list schema) (vdsM : list vardef) (supM : list (bytes * json)).
  Variables (f2 kq : nat).
  Variable tn : bool.
  Variable decls : list (name * list name).
  Variable rdecls : list rdecl.

  Notation vars := (pvars vdsM supM).
  Notation fill' := (fill U sc subs [] vdsM supM f2 tn).
  Notation lift' := (lift U sc subs [] vdsM supM f2 tn).
  Notation tr3' := (tr3 U sc subs vdsM supM f2 tn).

  Definition lobj (k : nat) (T' : name) (sub : ptree) (nn : bool) (x : json) : vres :=
    match x with
    | JObj l => match fill' k T' sub l with
                | (Some l', e) => (JObj l', e, false)
                | (None, e) => (JNull, e, nn)
                end
    | _ => (x, [], false)
    end.

  Lemma lift_S k sh T' sub v :
    lift' (S k) sh T' sub v =
    match sh with
    | ShObj nn => lobj k T' sub nn v
    | ShList nnl nni =>
      match v with
      | JArr xs =>
        let rs := map (lobj k T' sub nni) xs in
        let errs := flat_map (fun r : vres => snd (fst r)) rs in
        if existsb (fun r : vres => snd r) rs then (JNull, errs, nnl)
        else (JArr (map (fun r : vres => fst (fst r)) rs), errs, false)
      | _ => (v, [], false)
      end
    end.
  Proof. reflexivity. Qed.

  Section Inner.
    Variables (k : nat) (T' : name) (sub : ptree).
    Hypothesis HPS : PS_at U sc subs vdsM supM f2 kq tn decls rdecls k.
    Hypothesis Hsub : pt_static_b sc subs [] vdsM supM kq decls rdecls k T' sub = true.
    Hypothesis HdT : declared_obj sc T' = true.
    Hypothesis HnE : bytes_eqb T' s_Entity = false.
    Hypothesis Hneed : (pt_need sc sub <= f2)%nat.

    Definition item_inv (nn : bool) (c1 cM : cres) : Prop :=
      (c_viol cM = true -> c_errs cM <> []) /\
      (c_viol c1 = true -> c_viol cM = true /\ c_errs c1 <> []) /\
      (c_viol c1 = false ->
       let r := lobj k T' sub nn (c_json c1) in
       fst (fst r) = c_json cM /\ snd r = c_viol cM /\ (c_errs c1 ++ snd (fst r) = [] <-> c_errs cM = [])).

    Lemma item_inv_null nn q1 q2 errs1 errs2 :
      (errs1 = [] <-> errs2 = []) -> item_inv nn (itemwrap nn q1 (cnull errs1)) (itemwrap nn q2 (cnull errs2)).
    Proof.
      intros He. unfold item_inv, itemwrap, nonnull_wrap, cnull. destruct nn; cbn [c_json c_errs c_viol lobj fst snd].
      - split; [intros _; destruct errs2; discriminate|]. split; [intros _; split; [reflexivity|destruct errs1; discriminate]|discriminate].
      - split; [discriminate|]. split; [discriminate|]. intros _. rewrite app_nil_r. repeat split; tauto.
    Qed.

    Lemma item_step nn cargs it q1 q2 :
      item_inv nn (itemwrap nn q1 (complete_obj sc U [] vars Mono f2 T' cargs it (pt_proj sub) q1))
                  (itemwrap nn q2 (complete_obj sc U [] vars Mono f2 T' cargs it (pt_client sub) q2)).
    Proof.
      unfold complete_obj.
      destruct (obj_target U cargs it) as [[e'|]|] eqn:Et.
      2:{ apply item_inv_null. tauto. }
      2:{ apply item_inv_null. split; discriminate. }
      destruct (obj_type_ok sc T' e') eqn:Eok; cbn [negb].
      2:{ apply item_inv_null. split; discriminate. }
      assert (HTe : en_type e' = T') by (apply (obj_type_ok_object sc); assumption).
      assert (HinU : In e' U) by (apply (obj_target_In _ _ _ _ Et)).
      rewrite HTe.
      pose proof (HPS T' sub e' q1 Hsub HinU HTe Hneed) as HP. unfold mex in HP.
      pose proof (exec_path_indep sc U [] vars Mono f2 T' {| ov_ent := e'; ov_repr := None |} (pt_client sub) q1 q2) as [HI1 HI2].
      destruct (exec_sels sc U [] vars Mono f2 T' {| ov_ent := e'; ov_repr := None |} (pt_proj sub) q1) as [[l1|] e1] eqn:E1.
      - destruct HP as [HP1 HP2]. rewrite HI1 in HP1. rewrite HI2 in HP2.
        destruct (exec_sels sc U [] vars Mono f2 T' {| ov_ent := e'; ov_repr := None |} (pt_client sub) q2) as [[l2|] e2] eqn:E2;
          cbn [fst snd] in HP1, HP2.
        + unfold item_inv, itemwrap, nonnull_wrap. destruct nn; cbn [c_json c_errs c_viol lobj];
            (split; [discriminate|]); (split; [discriminate|]); intros _;
            destruct (fill' k T' sub l1) as [[l'|] fe]; cbn [fst snd] in HP1, HP2 |- *; try discriminate;
            injection HP1 as ->; repeat split; tauto.
        + assert (He2 : e2 <> []) by (apply (exec_sels_none_errs sc U [] vars Mono _ _ _ _ _ _ E2)).
          unfold item_inv, itemwrap, nonnull_wrap, cnull. destruct nn; cbn [c_json c_errs c_viol lobj].
          * split; [intros _; destruct e2; [congruence|discriminate]|]. split; [discriminate|]. intros _.
            destruct (fill' k T' sub l1) as [[l'|] fe]; cbn [fst snd] in HP1, HP2 |- *; try discriminate.
            split; [reflexivity|]. split; [reflexivity|]. destruct e2; [congruence|]. rewrite HP2. split; discriminate.
          * split; [discriminate|]. split; [discriminate|]. intros _.
            destruct (fill' k T' sub l1) as [[l'|] fe]; cbn [fst snd] in HP1, HP2 |- *; try discriminate.
            split; [reflexivity|]. split; [reflexivity|]. exact HP2.
      - rewrite HI1 in HP.
        assert (He1 : e1 <> []) by (apply (exec_sels_none_errs sc U [] vars Mono _ _ _ _ _ _ E1)).
        destruct (exec_sels sc U [] vars Mono f2 T' {| ov_ent := e'; ov_repr := None |} (pt_client sub) q2) as [[l2|] e2] eqn:E2;
          cbn [fst] in HP; [discriminate|].
        assert (He2 : e2 <> []) by (apply (exec_sels_none_errs sc U [] vars Mono _ _ _ _ _ _ E2)).
        apply item_inv_null. tauto.
    Qed.

    (* ---- the two list loops ---- *)
    Definition loop_inv (nni : bool) (L1 LM : list json * list xerr * bool) : Prop :=
      (snd LM = true -> snd (fst LM) <> []) /\
      (snd L1 = true -> snd LM = true /\ snd (fst L1) <> []) /\
      (snd L1 = false ->
       let rs := map (lobj k T' sub nni) (fst (fst L1)) in
       map (fun r : vres => fst (fst r)) rs = fst (fst LM) /\
       existsb (fun r : vres => snd r) rs = snd LM /\
       (snd (fst L1) ++ flat_map (fun r : vres => snd (fst r)) rs = [] <-> snd (fst LM) = [])).

    Lemma loop_step nni (cf1 cfM : fval -> list pel -> cres) q1 q2 items :
      (forall it i, item_inv nni (cf1 it (q1 ++ [PI i])) (cfM it (q2 ++ [PI i]))) ->
      forall i, loop_inv nni (lst_loop cf1 q1 i items) (lst_loop cfM q2 i items).
    Proof.
      intros H. induction items as [|it rest IH]; intros i.
      - cbn [lst_loop]. unfold loop_inv. cbn [fst snd map existsb flat_map app].
        split; [discriminate|]. split; [discriminate|]. intros _. repeat split; tauto.
      - cbn [lst_loop]. specialize (IH (i + 1)).
        destruct (lst_loop cf1 q1 (i + 1) rest) as [[out1 errs1] viol1].
        destruct (lst_loop cfM q2 (i + 1) rest) as [[outM errsM] violM].
        destruct IH as (I1 & I2 & I3). cbn [fst snd] in I1, I2, I3.
        destruct (H it i) as (J1 & J2 & J3).
        unfold loop_inv. cbn [fst snd].
        split; [|split].
        + intros Hor. apply orb_true_iff in Hor. intros Hn. apply app_nil_iff in Hn. destruct Hn as [Hn1 Hn2].
          destruct Hor as [Hv|Hv]; [apply (J1 Hv Hn1)|apply (I1 Hv Hn2)].
        + intros Hor. apply orb_true_iff in Hor. destruct Hor as [Hv|Hv].
          * destruct (J2 Hv) as [K1 K2]. rewrite K1. split; [reflexivity|].
            intros Hn. apply app_nil_iff in Hn. apply K2. apply Hn.
          * destruct (I2 Hv) as [K1 K2]. rewrite K1, orb_true_r. split; [reflexivity|].
            intros Hn. apply app_nil_iff in Hn. apply K2. apply Hn.
        + intros Hor. apply orb_false_iff in Hor. destruct Hor as [Hv1 Hv2].
          specialize (J3 Hv1). specialize (I3 Hv2). cbv zeta in J3, I3 |- *.
          destruct J3 as (K1 & K2 & K3). destruct I3 as (K4 & K5 & K6).
          cbn [map existsb flat_map].
          split; [rewrite K1, K4; reflexivity|]. split; [rewrite K2, K5; reflexivity|].
          rewrite !app_nil_iff in *. tauto.
    Qed.

    (* ---- from the value of the field to the one-member result ---- *)
    Lemma obj_final nn key q' p' (c1 cM : cres) :
      item_inv nn (itemwrap nn q' c1) (itemwrap nn p' cM) ->
      sres_weq (tr3' (S k) key (ShObj nn) T' sub (field_result nn key q' c1)) (field_result nn key p' cM).
    Proof.
      intros (J1 & J2 & J3). unfold field_result.
      change (if nn then nonnull_wrap q' c1 else c1) with (itemwrap nn q' c1).
      change (if nn then nonnull_wrap p' cM else cM) with (itemwrap nn p' cM).
      destruct (c_viol (itemwrap nn q' c1)) eqn:Ev1.
      - destruct (J2 eq_refl) as [K1 K2]. rewrite K1. cbn [tr3]. split; [reflexivity|]. cbn [snd].
        specialize (J1 K1). tauto.
      - specialize (J3 eq_refl). cbv zeta in J3. destruct J3 as (K1 & K2 & K3).
        unfold tr3. rewrite lift_S.
        destruct (lobj k T' sub nn (c_json (itemwrap nn q' c1))) as [[v fe] viol]. cbn [fst snd] in K1, K2, K3.
        rewrite <- K2. subst v. unfold vres_sres.
        destruct viol; cbn [fst snd]; (split; [reflexivity|exact K3]).
    Qed.

    Lemma list_final nnl nni key q' p' L1 LM :
      loop_inv nni L1 LM ->
      sres_weq (tr3' (S k) key (ShList nnl nni) T' sub (field_result nnl key q' (list_finish L1)))
               (field_result nnl key p' (list_finish LM)).
    Proof.
      destruct L1 as [[out1 errs1] viol1]. destruct LM as [[outM errsM] violM].
      intros (I1 & I2 & I3). cbn [fst snd] in I1, I2, I3. unfold list_finish.
      destruct viol1.
      - destruct (I2 eq_refl) as [-> K2]. specialize (I1 eq_refl).
        unfold field_result, nonnull_wrap, cnull. destruct nnl; cbn [c_json c_errs c_viol tr3 fst snd].
        + split; [reflexivity|]. cbn [snd]. destruct errs1, errsM; try congruence; split; discriminate.
        + rewrite lift_S. cbn [vres_sres fst snd]. rewrite app_nil_r. split; [reflexivity|]. cbn [snd]. tauto.
      - specialize (I3 eq_refl). cbv zeta in I3. destruct I3 as (K1 & K2 & K3).
        assert (HL : field_result nnl key q' {| c_json := JArr out1; c_errs := errs1; c_viol := false |} =
                     (Some [(key, JArr out1)], errs1)).
        { unfold field_result, nonnull_wrap. destruct nnl; reflexivity. }
        rewrite HL. unfold tr3. rewrite lift_S. cbv zeta. rewrite K2.
        destruct violM.
        + specialize (I1 eq_refl).
          unfold field_result, nonnull_wrap, cnull, vres_sres. destruct nnl; cbn [c_json c_errs c_viol fst snd].
          * split; [reflexivity|]. cbn [snd]. destruct errsM; [congruence|]. rewrite K3. split; discriminate.
          * split; [reflexivity|]. cbn [snd]. exact K3.
        + rewrite K1.
          assert (HR : field_result nnl key p' {| c_json := JArr outM; c_errs := errsM; c_viol := false |} =
                       (Some [(key, JArr outM)], errsM)).
          { unfold field_result, nonnull_wrap. destruct nnl; reflexivity. }
          rewrite HR. unfold vres_sres. cbn [fst snd]. split; [reflexivity|exact K3].
    Qed.
    Lemma null_final nnl nni key q' p' errs1 errs2 :
      (errs1 = [] <-> errs2 = []) ->
      sres_weq (tr3' (S k) key (ShList nnl nni) T' sub (field_result nnl key q' (cnull errs1)))
               (field_result nnl key p' (cnull errs2)).
    Proof.
      intros He. unfold field_result, nonnull_wrap, cnull. destruct nnl; cbn [c_json c_errs c_viol tr3 fst snd].
      - split; [reflexivity|]. cbn [snd]. destruct errs1, errs2; split; discriminate.
      - rewrite lift_S. cbn [vres_sres fst snd]. rewrite app_nil_r. split; [reflexivity|]. cbn [snd]. exact He.
    Qed.
  End Inner.

  Lemma pt_static_obj k T pt :
    pt_static_b sc subs [] vdsM supM kq decls rdecls k T pt = true ->
    declared_obj sc T = true /\ bytes_eqb T s_Entity = false.
  Proof.
    destruct k as [|k]; [discriminate|]. destruct pt as [items fetches]. cbn [pt_static_b]. intros H.
    repeat (apply andb_true_iff in H; destruct H as [H ?]).
    split; [exact H|]. apply negb_true_iff. assumption.
  Qed.

  Lemma item_need_PDown a n args sh T' sub :
    (item_need sc (PDown a n args sh T' sub) <= f2)%nat ->
    (fuel_bound sc [SField a n args [] (pt_proj sub)] <= f2)%nat /\
    (fuel_bound sc [SField a n args [] (pt_client sub)] <= f2)%nat /\
    (pt_need sc sub <= f2)%nat.
  Proof.
    unfold item_need.
    change (item_proj (PDown a n args sh T' sub)) with (SField a n args [] (pt_proj sub)).
    change (item_client (PDown a n args sh T' sub)) with (SField a n args [] (pt_client sub)).
    intros H.
    apply Nat.max_lub_iff in H. destruct H as [H1 H]. apply Nat.max_lub_iff in H. destruct H as [H2 H3].
    repeat split; [clear -H1; lia|clear -H2; lia|exact H3].
  Qed.

  Lemma FL_step k :
    PS_at U sc subs vdsM supM f2 kq tn decls rdecls k ->
    FL_at U sc subs vdsM supM f2 kq tn decls rdecls (S k).
  Proof.
    intros HPS T e a n args sh T' sub p q Hst HeU HeT Hneed.
    cbn [item_static_b] in Hst.
    apply andb_true_iff in Hst. destruct Hst as [Hst Hsub].
    apply andb_true_iff in Hst. destruct Hst as [Hst Hleaf].
    apply andb_true_iff in Hst. destruct Hst as [Hname Hfty]. apply negb_true_iff in Hname.
    destruct (is_leaf_kind sc T') as [[|]|] eqn:Elk; try discriminate. clear Hleaf.
    destruct (pt_static_obj k T' sub Hsub) as [HdT HnE].
    unfold field_ty_ok in Hfty.
    destruct (find_type T (s_types sc)) as [td|] eqn:Etd; [|discriminate].
    destruct (find_field n (td_fields td)) as [fd|] eqn:Efd; [|discriminate].
    apply ty_eqb_eq in Hfty.
    destruct (item_need_PDown a n args sh T' sub Hneed) as (Hb1 & Hb2 & Hb3).
    destruct (proj1 (static_nospread sc subs [] vdsM supM kq decls rdecls k) T' sub Hsub) as [Hns1 Hns2].
    set (ov := {| ov_ent := e; ov_repr := None |}).
    assert (Hn1 : no_oof (snd (exec_sels sc U [] vars Mono f2 T ov [SField a n args [] (pt_proj sub)] q)) = true).
    { apply exec_sels_fuel_sufficient; [|exact Hb1]. rewrite nospread_cons, nospread_field, Hns1. reflexivity. }
    assert (Hn2 : no_oof (snd (exec_sels sc U [] vars Mono f2 T ov [SField a n args [] (pt_client sub)] p)) = true).
    { apply exec_sels_fuel_sufficient; [|exact Hb2]. rewrite nospread_cons, nospread_field, Hns2. reflexivity. }
    unfold mex. fold ov.
    destruct sh as [nn|nnl nni]; cbn [shape_ty] in Hfty.
    - assert (Hle : (f2 <= hop_fuel nn f2)%nat) by (unfold hop_fuel; clear; destruct nn; lia).
      rewrite <- (exec_sels_fuel_mono sc U [] vars Mono f2 (hop_fuel nn f2) T ov _ q Hle Hn1).
      rewrite <- (exec_sels_fuel_mono sc U [] vars Mono f2 (hop_fuel nn f2) T ov _ p Hle Hn2).
      rewrite (hop_exec sc U [] vars T ov a n args [] q nn T' td fd Hname Etd Efd Hfty Elk f2).
      rewrite (hop_exec sc U [] vars T ov a n args [] p nn T' td fd Hname Etd Efd Hfty Elk f2).
      cbn [included].
      apply obj_final. apply (item_step k T' sub HPS Hsub HdT HnE Hb3).
    - assert (Hle : (f2 <= list_hop_fuel nnl nni f2)%nat) by (unfold list_hop_fuel; clear; destruct nnl, nni; lia).
      assert (H1f : (1 <= f2)%nat) by (clear -Hb1; unfold fuel_bound in Hb1; lia).
      rewrite <- (exec_sels_fuel_mono sc U [] vars Mono f2 (list_hop_fuel nnl nni f2) T ov _ q Hle Hn1).
      rewrite <- (exec_sels_fuel_mono sc U [] vars Mono f2 (list_hop_fuel nnl nni f2) T ov _ p Hle Hn2).
      rewrite (list_field_exec sc U [] vars T ov a n args q nnl nni T' td fd Hname Etd Efd Hfty Elk f2 _ H1f).
      rewrite (list_field_exec sc U [] vars T ov a n args p nnl nni T' td fd Hname Etd Efd Hfty Elk f2 _ H1f).
      destruct (list_src (hop_fv ov n)) as [items|].
      + apply list_final. apply loop_step. intros it i. unfold item_c.
        apply (item_step k T' sub HPS Hsub HdT HnE Hb3).
      + apply null_final. apply list_null_errs_iff.
  Qed.
End FLStep.

Print Assumptions FL_step.
