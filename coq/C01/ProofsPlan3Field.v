(* C01 / (6): the FIELD step of the induction over plan trees: a composite field whose sub-selection is a plan tree. *)
From Coq Require Import PeanoNat Lia.
From Gv Require Import lib.Bytes lib.Json lib.Gql lib.Exec
     C01.ProofsBase C01.ProofsFuel C01.ProofsSplit C01.ProofsSim C01.ProofsJoin C01.ProofsOverlap
     C01.ProofsTwoStep C01.ProofsViol C01.ProofsCtxBase C01.ProofsCtx C01.ProofsTwoStepWf C01.ProofsPlanAlg
     C01.ProofsPlan C01.ProofsPlanOk C01.ProofsDedup C01.ProofsListHop
     C01.ProofsTvStatic C01.ProofsTvDefs C01.ProofsTvHidden C01.ProofsPlanGen C01.ProofsPlan2 C01.ProofsFuelSuff C01.ProofsSelEq C01.ProofsSelMerge C01.ProofsNKeyDefs C01.ProofsNKeyExec C01.ProofsPlan3 C01.ProofsPlan3Keys C01.ProofsPlan3Fetch.
Open Scope N_scope.

(* ---- unfolding of the client's selection / the projection of a plan tree ---- *)
Lemma pt_client_eq items f : pt_client (PT items f) = map (fun ti => item_client (snd ti)) items.
Proof.
  induction items as [|[t it] r IH]; [reflexivity|].
  change (pt_client (PT ((t, it) :: r) f)) with (item_client it :: pt_client (PT r f)).
  rewrite IH. reflexivity.
Qed.

Lemma pt_proj_eq items f :
  pt_proj (PT items f) =
  map (fun ti => item_proj (snd ti)) (filter (fun ti => Nat.eqb (fst ti) 0) items) ++ keys_from 0 f.
Proof.
  assert (H : forall l, (fix go (l : list (nat * pitem)) : list selection :=
                           match l with [] => [] | (t, it) :: r => if Nat.eqb t 0 then item_proj it :: go r else go r end) l =
                        map (fun ti => item_proj (snd ti)) (filter (fun ti => Nat.eqb (fst ti) 0) l)).
  { induction l as [|[t it] r IH]; [reflexivity|]. cbn [filter fst]. destruct (Nat.eqb t 0); [cbn [map snd]; f_equal|]; exact IH. }
  change (pt_proj (PT items f)) with
      ((fix go (l : list (nat * pitem)) : list selection :=
          match l with [] => [] | (t, it) :: r => if Nat.eqb t 0 then item_proj it :: go r else go r end) items ++ keys_from 0 f).
  rewrite H. reflexivity.
Qed.

Lemma key_sels_nospread ks : sels_nospread (key_sels ks) = true.
Proof.
  unfold sels_nospread, key_sels. apply forallb_forall. intros s Hs. apply in_map_iff in Hs.
  destruct Hs as (k & <- & _). reflexivity.
Qed.
Lemma nsels_nospread kn : sels_nospread (nsels kn) = true.
Proof.
  unfold sels_nospread, nsels. apply forallb_forall. intros s Hs. apply in_map_iff in Hs. destruct Hs as (x & <- & _).
  unfold nsel. rewrite nospread_field. unfold sels_nospread. apply forallb_forall. intros s0 Hs0. apply in_map_iff in Hs0.
  destruct Hs0 as (i & <- & _). reflexivity.
Qed.
Lemma keys_from_nospread t fetches : sels_nospread (keys_from t fetches) = true.
Proof.
  unfold keys_from. destruct (filter _ fetches); [reflexivity|].
  rewrite nospread_app, key_sels_nospread, nsels_nospread. reflexivity.
Qed.

Section NoSpread.
  Variables (sc : schema) (subs : list schema) (frags : list fragment) (vdsM : list vardef) (supM : list (bytes * json)).
  Variable kq : nat.
  Variable decls : list (name * list name).
  Variable rdecls : list rdecl.
  Variable ndecls : list (name * (list name * nkspec)).
  Variable ab : bool.

  Lemma static_nospread : forall k,
      (forall T pt, pt_static_b sc subs frags vdsM supM kq ab decls rdecls ndecls k T pt = true ->
                    sels_nospread (pt_proj pt) = true /\ sels_nospread (pt_client pt) = true) /\
      (forall T it, item_static_b sc subs frags vdsM supM kq ab decls rdecls ndecls k T it = true ->
                    sel_nospread (item_proj it) = true /\ sel_nospread (item_client it) = true).
  Proof.
    induction k as [|k [IHp IHi]]; [split; intros; discriminate|].
    split.
    - intros T [items fetches] H. cbn [pt_static_b] in H.
      apply andb_true_iff in H. destruct H as [_ H].
      rewrite forallb_forall in H.
      rewrite pt_client_eq, pt_proj_eq. split.
      + rewrite nospread_app, keys_from_nospread, andb_true_r.
        apply forallb_forall. intros s Hs. apply in_map_iff in Hs. destruct Hs as (ti & <- & Hti).
        apply filter_In in Hti. destruct Hti as [Hti _]. apply (IHi T _ (H ti Hti)).
      + apply forallb_forall. intros s Hs. apply in_map_iff in Hs. destruct Hs as (ti & <- & Hti).
        apply (IHi T _ (H ti Hti)).
    - intros T [s|a n args sh T' sub|a n args sh T' csel rsel alts] H; cbn [item_static_b] in H.
      + apply andb_true_iff in H. destruct H as [_ H]. cbn [item_proj item_client]. split; exact H.
      + apply andb_true_iff in H. destruct H as [_ H].
        destruct (IHp T' sub H) as [H1 H2].
        change (item_proj (PDown a n args sh T' sub)) with (SField a n args [] (pt_proj sub)).
        change (item_client (PDown a n args sh T' sub)) with (SField a n args [] (pt_client sub)).
        rewrite !nospread_field. split; assumption.
      + apply andb_true_iff in H. destruct H as [H _].
        apply andb_true_iff in H. destruct H as [H Hr].
        apply andb_true_iff in H. destruct H as [_ Hc].
        cbn [item_proj item_client]. rewrite !nospread_field. split; assumption.
  Qed.
End NoSpread.

Lemma exec_path_indep sc U frags vars md f objty ov sels (q1 q2 : list pel) :
  fst (exec_sels sc U frags vars md f objty ov sels q1) = fst (exec_sels sc U frags vars md f objty ov sels q2) /\
  (snd (exec_sels sc U frags vars md f objty ov sels q1) = [] <-> snd (exec_sels sc U frags vars md f objty ov sels q2) = []).
Proof.
  rewrite (exec_sels_path_nil sc U frags vars md q1), (exec_sels_path_nil sc U frags vars md q2).
  unfold shift_sres. cbn [fst snd]. split; [reflexivity|]. rewrite !shift_errs_nil. tauto.
Qed.

(* ---- a list-typed composite field, whatever the universe holds in it ---- *)
Definition list_src (fv : fval) : option (list fval) :=
  match fv with
  | FLst items => Some items
  | FSc (JArr js) => Some (map FSc js)
  | _ => None
  end.
Definition list_null_errs (fv : fval) (p' : list pel) : list xerr :=
  match fv with
  | FNullRef => []
  | FSc JNull => []
  | _ => [XErr p']
  end.
Lemma list_null_errs_iff fv q' p' : list_null_errs fv q' = [] <-> list_null_errs fv p' = [].
Proof. destruct fv as [j| | | | | | |]; try destruct j; cbn; split; try tauto; discriminate. Qed.

Section LVal.
  Variable sc : schema.
  Variable U : universe.
  Variable frags : list fragment.
  Variable vars : list (bytes * json).
  Variables (ovP : oval) (f : name) (nni : bool) (n : name) (cargs : list (bytes * json)).
  Hypothesis Hcomp : is_leaf_kind sc n = Some false.

  Notation ity := (if nni then TNonNull (TNamed n) else TNamed n).

  Lemma item_complete_g c X it q :
    complete sc U frags vars Mono (if nni then S (S c) else S c) ity ovP f cargs it X q =
    item_c U sc frags vars nni n cargs c X it q.
  Proof.
    unfold item_c, itemwrap. destruct nni.
    - rewrite complete_S, complete_S, Hcomp. reflexivity.
    - rewrite complete_S, Hcomp. reflexivity.
  Qed.

  Lemma complete_obj_FSc c c' j X q :
    complete_obj sc U frags vars Mono c n cargs (FSc j) X q = complete_obj sc U frags vars Mono c' n cargs (FSc j) X q.
  Proof. unfold complete_obj. cbn [obj_target]. destruct j; reflexivity. Qed.

  Lemma list_value c X fv p' :
    (1 <= c)%nat ->
    complete sc U frags vars Mono (S (if nni then S (S c) else S c)) (TList ity) ovP f cargs fv X p' =
    match list_src fv with
    | Some items => list_finish (lst_loop (item_c U sc frags vars nni n cargs c X) p' 0 items)
    | None => cnull (list_null_errs fv p')
    end.
  Proof.
    intros Hc1. rewrite complete_S.
    destruct fv as [j|t0 k0| |l| | |t0 a0|fs]; cbn [list_src list_null_errs]; try reflexivity.
    - destruct j; try reflexivity.
      destruct c as [|c']; [clear -Hc1; lia|].
      assert (Hg : (if nni then S (S (S c')) else S (S c')) = S (if nni then S (S c') else S c')) by (destruct nni; reflexivity).
      rewrite Hg, complete_S. f_equal. apply lst_loop_ext_in. intros it q Hin.
      apply in_map_iff in Hin. destruct Hin as (j & <- & _).
      rewrite item_complete_g. unfold item_c. rewrite (complete_obj_FSc c' (S c')). reflexivity.
    - f_equal. apply lst_loop_ext_in. intros it q _. apply item_complete_g.
  Qed.
End LVal.

Section LField.
  Variable sc : schema.
  Variable U : universe.
  Variable frags : list fragment.
  Variable vars : list (bytes * json).
  Variables (P : name) (ovP : oval) (af : option name) (f : name) (args : list argument).
  Variable path : list pel.
  Variables (nnl nni : bool) (n : name) (td : type_def) (fd : field_def).

  Hypothesis Hname : bytes_eqb f s_typename = false.
  Hypothesis Htd : find_type P (s_types sc) = Some td.
  Hypothesis Hfd : find_field f (td_fields td) = Some fd.
  Hypothesis Hty : fd_type fd = list_ty nnl nni n.
  Hypothesis Hcomp : is_leaf_kind sc n = Some false.

  Lemma list_field_exec c X :
    (1 <= c)%nat ->
    exec_sels sc U frags vars Mono (list_hop_fuel nnl nni c) P ovP [SField af f args [] X] path =
    field_result nnl (hop_key af f) (hop_path af f path)
      (match list_src (hop_fv ovP f) with
       | Some items => list_finish (lst_loop (item_c U sc frags vars nni n (hop_cargs sc vars args fd) c X) (hop_path af f path) 0 items)
       | None => cnull (list_null_errs (hop_fv ovP f) (hop_path af f path))
       end).
  Proof.
    intros Hc1.
    unfold list_hop_fuel. cbv zeta. rewrite exec_sels_S, flatten_S_cons, flatten_S_nil. cbn [flat_here included].
    cbn [flat_seq app length].
    change (group 2 [SField af f args [] X]) with (groups [SField af f args [] X]). rewrite groups_cons.
    cbn [filter flat_map sel_subs sel_key]. rewrite groups_nil, !app_nil_r. cbn [sels_go].
    fold (hop_key af f). fold (hop_path af f path).
    set (g := if nni then S (S c) else S c).
    set (V := match list_src (hop_fv ovP f) with
              | Some items => list_finish (lst_loop (item_c U sc frags vars nni n (hop_cargs sc vars args fd) c X) (hop_path af f path) 0 items)
              | None => cnull (list_null_errs (hop_fv ovP f) (hop_path af f path))
              end).
    assert (Hl : complete sc U frags vars Mono (S g) (TList (if nni then TNonNull (TNamed n) else TNamed n))
                          ovP f (hop_cargs sc vars args fd) (hop_fv ovP f) X (hop_path af f path) = V).
    { unfold g, V. apply list_value; assumption. }
    assert (Hf : exec_field sc U frags vars Mono (S (if nnl then S (S g) else S g)) P ovP (hop_key af f)
                            (SField af f args [] X) X (hop_path af f path) =
                 (if nnl then nonnull_wrap (hop_path af f path) else fun r => r) V).
    { rewrite exec_field_S, Hname. unfold is_entities. rewrite Htd, Hfd, Hty.
      fold (hop_cargs sc vars args fd). change (field_fval ovP f) with (hop_fv ovP f). unfold list_ty. cbv zeta.
      destruct nnl; [rewrite complete_S|]; rewrite Hl; reflexivity. }
    rewrite Hf. unfold field_result. destruct nnl; cbn beta;
      match goal with |- context [c_viol ?r] => destruct (c_viol r) end; rewrite ?app_nil_r; reflexivity.
  Qed.
End LField.


(* ---- from the value of a composite field to its one-member result, for ANY way [LO] of processing the objects ---- *)
Section GenFinal.
  Variable LO : bool -> json -> vres.
  Hypothesis HLOnull : forall nn, LO nn JNull = (JNull, [], false).

  Definition trG (key : name) (sh : fshape) (r : sres) : sres :=
    match r with
    | (Some [(_, v)], e0) => let x := vres_sres key (lift_shape LO sh v) in (fst x, e0 ++ snd x)
    | _ => r
    end.

  Definition item_inv (nn : bool) (c1 cM : cres) : Prop :=
    (c_viol cM = true -> c_errs cM <> []) /\
    (c_viol c1 = true -> c_viol cM = true /\ c_errs c1 <> []) /\
    (c_viol c1 = false ->
     let r := LO nn (c_json c1) in
     fst (fst r) = c_json cM /\ snd r = c_viol cM /\ (c_errs c1 ++ snd (fst r) = [] <-> c_errs cM = [])).

  Lemma item_inv_null nn q1 q2 errs1 errs2 :
    (errs1 = [] <-> errs2 = []) -> item_inv nn (itemwrap nn q1 (cnull errs1)) (itemwrap nn q2 (cnull errs2)).
  Proof.
    intros He. unfold item_inv, itemwrap, nonnull_wrap, cnull. destruct nn; cbn [c_json c_errs c_viol fst snd].
    - split; [intros _; destruct errs2; discriminate|]. split; [intros _; split; [reflexivity|destruct errs1; discriminate]|discriminate].
    - split; [discriminate|]. split; [discriminate|]. intros _. rewrite HLOnull. cbn [fst snd]. rewrite app_nil_r. repeat split; tauto.
  Qed.

  (* an object value: the source's result [r1] processed by [LO] against the monolith's result [rM] *)
  Definition objres (r : sres) : cres :=
    match r with
    | (Some l, errs) => {| c_json := JObj l; c_errs := errs; c_viol := false |}
    | (None, errs) => cnull errs
    end.
  Lemma item_inv_obj nn q1 q2 (r1 rM : sres) :
    (fst r1 = None -> snd r1 <> []) -> (fst rM = None -> snd rM <> []) ->
    match r1 with
    | (Some l1, e1) =>
      exists (F : option (list (bytes * json)) * list xerr),
      LO nn (JObj l1) = (match F with (Some l', e) => (JObj l', e, false) | (None, e) => (JNull, e, nn) end) /\
      fst F = fst rM /\ (e1 ++ snd F = [] <-> snd rM = [])
    | (None, _) => fst rM = None
    end ->
    item_inv nn (itemwrap nn q1 (objres r1)) (itemwrap nn q2 (objres rM)).
  Proof.
    intros Hn1 HnM HP. destruct r1 as [[l1|] e1]; cbn [fst snd] in *.
    - destruct HP as ([oF eF] & HLO & HP1 & HP2). cbn [fst snd] in HP1, HP2.
      destruct rM as [[l2|] e2]; cbn [fst snd] in *.
      + subst oF. unfold item_inv, itemwrap, nonnull_wrap, objres. destruct nn; cbn [c_json c_errs c_viol];
          (split; [discriminate|]); (split; [discriminate|]); intros _; rewrite HLO; cbn [fst snd]; repeat split; tauto.
      + subst oF. assert (He2 : e2 <> []) by (apply HnM; reflexivity).
        unfold item_inv, itemwrap, nonnull_wrap, objres, cnull. destruct nn; cbn [c_json c_errs c_viol].
        * split; [intros _; destruct e2; [congruence|discriminate]|]. split; [discriminate|]. intros _.
          rewrite HLO. cbn [fst snd]. split; [reflexivity|]. split; [reflexivity|]. destruct e2; [congruence|]. rewrite HP2. split; discriminate.
        * split; [discriminate|]. split; [discriminate|]. intros _. rewrite HLO. cbn [fst snd].
          split; [reflexivity|]. split; [reflexivity|]. exact HP2.
    - assert (He1 : e1 <> []) by (apply Hn1; reflexivity).
      destruct rM as [[l2|] e2]; cbn [fst snd] in *; [discriminate|].
      assert (He2 : e2 <> []) by (apply HnM; reflexivity).
      unfold objres. apply item_inv_null. tauto.
  Qed.

  (* ---- the two list loops ---- *)
  Definition loop_inv (nni : bool) (L1 LM : list json * list xerr * bool) : Prop :=
    (snd LM = true -> snd (fst LM) <> []) /\
    (snd L1 = true -> snd LM = true /\ snd (fst L1) <> []) /\
    (snd L1 = false ->
     let rs := map (LO nni) (fst (fst L1)) in
     map (fun r : vres => fst (fst r)) rs = fst (fst LM) /\
     existsb (fun r : vres => snd r) rs = snd LM /\
     (snd (fst L1) ++ flat_map (fun r : vres => snd (fst r)) rs = [] <-> snd (fst LM) = [])).

  Lemma loop_step nni (cf1 cfM : fval -> list pel -> cres) q1 q2 items :
    (forall it i, item_inv nni (cf1 it (q1 ++ [PI i])) (cfM it (q2 ++ [PI i]))) ->
    forall i, loop_inv nni (lst_loop cf1 q1 i items) (lst_loop cfM q2 i items).
  Proof.
    intros H. induction items as [|it rest IH]; intros i.
    - cbn [lst_loop]. unfold loop_inv. cbn [fst snd map existsb flat_map app].
      split; [discriminate|]. split; [discriminate|]. intros _. repeat split; tauto.
    - cbn [lst_loop]. specialize (IH (i + 1)).
      destruct (lst_loop cf1 q1 (i + 1) rest) as [[out1 errs1] viol1].
      destruct (lst_loop cfM q2 (i + 1) rest) as [[outM errsM] violM].
      destruct IH as (I1 & I2 & I3). cbn [fst snd] in I1, I2, I3.
      destruct (H it i) as (J1 & J2 & J3).
      unfold loop_inv. cbn [fst snd].
      split; [|split].
      + intros Hor. apply orb_true_iff in Hor. intros Hn. apply app_nil_iff in Hn. destruct Hn as [Hn1 Hn2].
        destruct Hor as [Hv|Hv]; [apply (J1 Hv Hn1)|apply (I1 Hv Hn2)].
      + intros Hor. apply orb_true_iff in Hor. destruct Hor as [Hv|Hv].
        * destruct (J2 Hv) as [K1 K2]. rewrite K1. split; [reflexivity|].
          intros Hn. apply app_nil_iff in Hn. apply K2. apply Hn.
        * destruct (I2 Hv) as [K1 K2]. rewrite K1, orb_true_r. split; [reflexivity|].
          intros Hn. apply app_nil_iff in Hn. apply K2. apply Hn.
      + intros Hor. apply orb_false_iff in Hor. destruct Hor as [Hv1 Hv2].
        specialize (J3 Hv1). specialize (I3 Hv2). cbv zeta in J3, I3 |- *.
        destruct J3 as (K1 & K2 & K3). destruct I3 as (K4 & K5 & K6).
        cbn [map existsb flat_map].
        split; [rewrite K1, K4; reflexivity|]. split; [rewrite K2, K5; reflexivity|].
        rewrite !app_nil_iff in *. tauto.
  Qed.

  Lemma obj_final nn key q' p' (c1 cM : cres) :
    item_inv nn (itemwrap nn q' c1) (itemwrap nn p' cM) ->
    sres_weq (trG key (ShObj nn) (field_result nn key q' c1)) (field_result nn key p' cM).
  Proof.
    intros (J1 & J2 & J3). unfold field_result.
    change (if nn then nonnull_wrap q' c1 else c1) with (itemwrap nn q' c1).
    change (if nn then nonnull_wrap p' cM else cM) with (itemwrap nn p' cM).
    destruct (c_viol (itemwrap nn q' c1)) eqn:Ev1.
    - destruct (J2 eq_refl) as [K1 K2]. rewrite K1. cbn [trG]. split; [reflexivity|]. cbn [snd].
      specialize (J1 K1). tauto.
    - specialize (J3 eq_refl). cbv zeta in J3. destruct J3 as (K1 & K2 & K3).
      unfold trG. cbn [lift_shape].
      destruct (LO nn (c_json (itemwrap nn q' c1))) as [[v fe] viol]. cbn [fst snd] in K1, K2, K3.
      rewrite <- K2. subst v. unfold vres_sres.
      destruct viol; cbn [fst snd]; (split; [reflexivity|exact K3]).
  Qed.

  Lemma list_final nnl nni key q' p' L1 LM :
    loop_inv nni L1 LM ->
    sres_weq (trG key (ShList nnl nni) (field_result nnl key q' (list_finish L1)))
             (field_result nnl key p' (list_finish LM)).
  Proof.
    destruct L1 as [[out1 errs1] viol1]. destruct LM as [[outM errsM] violM].
    intros (I1 & I2 & I3). cbn [fst snd] in I1, I2, I3. unfold list_finish.
    destruct viol1.
    - destruct (I2 eq_refl) as [-> K2]. specialize (I1 eq_refl).
      unfold field_result, nonnull_wrap, cnull. destruct nnl; cbn [c_json c_errs c_viol trG fst snd].
      + split; [reflexivity|]. cbn [snd]. destruct errs1, errsM; try congruence; split; discriminate.
      + cbn [lift_shape vres_sres fst snd]. rewrite app_nil_r. split; [reflexivity|]. cbn [snd]. tauto.
    - specialize (I3 eq_refl). cbv zeta in I3. destruct I3 as (K1 & K2 & K3).
      assert (HL : field_result nnl key q' {| c_json := JArr out1; c_errs := errs1; c_viol := false |} =
                   (Some [(key, JArr out1)], errs1)).
      { unfold field_result, nonnull_wrap. destruct nnl; reflexivity. }
      rewrite HL. unfold trG. cbn [lift_shape]. cbv zeta. rewrite K2.
      destruct violM.
      + specialize (I1 eq_refl).
        unfold field_result, nonnull_wrap, cnull, vres_sres. destruct nnl; cbn [c_json c_errs c_viol fst snd].
        * split; [reflexivity|]. cbn [snd]. destruct errsM; [congruence|]. rewrite K3. split; discriminate.
        * split; [reflexivity|]. cbn [snd]. exact K3.
      + rewrite K1.
        assert (HR : field_result nnl key p' {| c_json := JArr outM; c_errs := errsM; c_viol := false |} =
                     (Some [(key, JArr outM)], errsM)).
        { unfold field_result, nonnull_wrap. destruct nnl; reflexivity. }
        rewrite HR. unfold vres_sres. cbn [fst snd]. split; [reflexivity|exact K3].
  Qed.
  Lemma null_final nnl nni key q' p' errs1 errs2 :
    (errs1 = [] <-> errs2 = []) ->
    sres_weq (trG key (ShList nnl nni) (field_result nnl key q' (cnull errs1)))
             (field_result nnl key p' (cnull errs2)).
  Proof.
    intros He. unfold field_result, nonnull_wrap, cnull. destruct nnl; cbn [c_json c_errs c_viol trG fst snd].
    - split; [reflexivity|]. cbn [snd]. destruct errs1, errs2; split; discriminate.
    - cbn [lift_shape vres_sres fst snd]. rewrite app_nil_r. split; [reflexivity|]. cbn [snd]. exact He.
  Qed.

  (* ---- a composite field, object or list valued, given the step for one object value ---- *)
  Section GenField.
    Variable U : universe.
    Variable sc : schema.
    Variable vars : list (bytes * json).
    Variables (f2 : nat) (T : name) (e : entity) (a : option name) (n : name) (args : list argument) (sh : fshape) (T' : name).
    Variables (X1 XM : list selection) (p q : list pel).
    Hypothesis Hname : bytes_eqb n s_typename = false.
    Hypothesis Hfty : field_ty_ok sc T n sh T' = true.
    Hypothesis Elk : is_leaf_kind sc T' = Some false.
    Hypothesis Hns1 : sels_nospread X1 = true.
    Hypothesis HnsM : sels_nospread XM = true.
    Hypothesis Hb1 : (fuel_bound sc [SField a n args [] X1] <= f2)%nat.
    Hypothesis HbM : (fuel_bound sc [SField a n args [] XM] <= f2)%nat.
    Hypothesis Hstep : forall nn cargs it q1 q2,
        item_inv nn (itemwrap nn q1 (complete_obj sc U [] vars Mono f2 T' cargs it X1 q1))
                    (itemwrap nn q2 (complete_obj sc U [] vars Mono f2 T' cargs it XM q2)).

    Lemma gen_field :
      sres_weq (trG (response_name a n) sh
                    (exec_sels sc U [] vars Mono f2 T {| ov_ent := e; ov_repr := None |} [SField a n args [] X1] q))
               (exec_sels sc U [] vars Mono f2 T {| ov_ent := e; ov_repr := None |} [SField a n args [] XM] p).
    Proof.
      unfold field_ty_ok in Hfty.
      destruct (find_type T (s_types sc)) as [td|] eqn:Etd; [|discriminate].
      destruct (find_field n (td_fields td)) as [fd|] eqn:Efd; [|discriminate].
      apply ty_eqb_eq in Hfty.
      set (ov := {| ov_ent := e; ov_repr := None |}).
      assert (Hn1 : no_oof (snd (exec_sels sc U [] vars Mono f2 T ov [SField a n args [] X1] q)) = true).
      { apply exec_sels_fuel_sufficient; [|exact Hb1]. rewrite nospread_cons, nospread_field, Hns1. reflexivity. }
      assert (Hn2 : no_oof (snd (exec_sels sc U [] vars Mono f2 T ov [SField a n args [] XM] p)) = true).
      { apply exec_sels_fuel_sufficient; [|exact HbM]. rewrite nospread_cons, nospread_field, HnsM. reflexivity. }
      destruct sh as [nn|nnl nni]; cbn [shape_ty] in Hfty.
      - assert (Hle : (f2 <= hop_fuel nn f2)%nat) by (unfold hop_fuel; clear; destruct nn; lia).
        rewrite <- (exec_sels_fuel_mono sc U [] vars Mono f2 (hop_fuel nn f2) T ov _ q Hle Hn1).
        rewrite <- (exec_sels_fuel_mono sc U [] vars Mono f2 (hop_fuel nn f2) T ov _ p Hle Hn2).
        rewrite (hop_exec sc U [] vars T ov a n args [] q nn T' td fd Hname Etd Efd Hfty Elk f2).
        rewrite (hop_exec sc U [] vars T ov a n args [] p nn T' td fd Hname Etd Efd Hfty Elk f2).
        cbn [included].
        apply obj_final. apply Hstep.
      - assert (Hle : (f2 <= list_hop_fuel nnl nni f2)%nat) by (unfold list_hop_fuel; clear; destruct nnl, nni; lia).
        assert (H1f : (1 <= f2)%nat) by (clear -Hb1; unfold fuel_bound in Hb1; lia).
        rewrite <- (exec_sels_fuel_mono sc U [] vars Mono f2 (list_hop_fuel nnl nni f2) T ov _ q Hle Hn1).
        rewrite <- (exec_sels_fuel_mono sc U [] vars Mono f2 (list_hop_fuel nnl nni f2) T ov _ p Hle Hn2).
        rewrite (list_field_exec sc U [] vars T ov a n args q nnl nni T' td fd Hname Etd Efd Hfty Elk f2 _ H1f).
        rewrite (list_field_exec sc U [] vars T ov a n args p nnl nni T' td fd Hname Etd Efd Hfty Elk f2 _ H1f).
        destruct (list_src (hop_fv ov n)) as [items|].
        + apply list_final. apply loop_step. intros it i. unfold item_c. apply Hstep.
        + apply null_final. apply list_null_errs_iff.
    Qed.
  End GenField.
End GenFinal.

Section FLStep.
  Variable U : universe.
  Variables (sc : schema) (subs : list schema) (vdsM : list vardef) (supM : list (bytes * json)).
  Variables (f2 kq : nat).
  Variable tn : bool.
  Variable decls : list (name * list name).
  Variable rdecls : list rdecl.
  Variable ndecls : list (name * (list name * nkspec)).
  Variable ab : bool.

  Notation vars := (pvars vdsM supM).
  Notation fill' := (fill U sc subs [] vdsM supM f2 tn).
  Notation lift' := (lift U sc subs [] vdsM supM f2 tn).
  Notation lifta' := (lifta U sc subs [] vdsM supM f2 tn).
  Notation tr3' := (tr3 U sc subs vdsM supM f2 tn).
  Notation tr3a' := (tr3a U sc subs vdsM supM f2 tn).

  Definition lobj (k : nat) (T' : name) (sub : ptree) (nn : bool) (x : json) : vres :=
    match x with
    | JObj l => match fill' k T' sub l with
                | (Some l', e) => (JObj l', e, false)
                | (None, e) => (JNull, e, nn)
                end
    | _ => (x, [], false)
    end.
  Definition lobja (k : nat) (alts : list (name * bool * ptree)) (nn : bool) (x : json) : vres :=
    match x with
    | JObj l =>
      match get_member s_typename l with
      | JStr C =>
        match find_alt C alts with
        | Some (h, sub) => match fill' k C sub (if h then drop_tn l else l) with
                           | (Some l', e) => (JObj l', e, false)
                           | (None, e) => (JNull, e, nn)
                           end
        | None => (x, [], false)
        end
      | _ => (x, [], false)
      end
    | _ => (x, [], false)
    end.

  Lemma lift_S k sh T' sub v : lift' (S k) sh T' sub v = lift_shape (lobj k T' sub) sh v.
  Proof. reflexivity. Qed.
  Lemma lifta_S k sh alts v : lifta' (S k) sh alts v = lift_shape (lobja k alts) sh v.
  Proof. reflexivity. Qed.
  Lemma tr3_trG k key sh T' sub r : tr3' (S k) key sh T' sub r = trG (lobj k T' sub) key sh r.
  Proof. reflexivity. Qed.
  Lemma tr3a_trG k key sh alts r : tr3a' (S k) key sh alts r = trG (lobja k alts) key sh r.
  Proof. reflexivity. Qed.

  Lemma pt_static_obj k T pt :
    pt_static_b sc subs [] vdsM supM kq ab decls rdecls ndecls k T pt = true ->
    declared_obj sc T = true /\ bytes_eqb T s_Entity = false.
  Proof.
    destruct k as [|k]; [discriminate|]. destruct pt as [items fetches]. cbn [pt_static_b]. intros H.
    repeat (apply andb_true_iff in H; destruct H as [H ?]).
    split; [exact H|]. apply negb_true_iff. assumption.
  Qed.

  (* ---- one object value below a field whose type is the object type of the plan tree ---- *)
  Section Inner.
    Variables (k : nat) (T' : name) (sub : ptree).
    Hypothesis HPS : PS_at U sc subs vdsM supM f2 kq tn decls rdecls ndecls ab k.
    Hypothesis Hsub : pt_static_b sc subs [] vdsM supM kq ab decls rdecls ndecls k T' sub = true.
    Hypothesis Hneed : (pt_need sc sub <= f2)%nat.

    Lemma item_step nn cargs it q1 q2 :
      item_inv (lobj k T' sub) nn
               (itemwrap nn q1 (complete_obj sc U [] vars Mono f2 T' cargs it (pt_proj sub) q1))
               (itemwrap nn q2 (complete_obj sc U [] vars Mono f2 T' cargs it (pt_client sub) q2)).
    Proof.
      destruct (pt_static_obj k T' sub Hsub) as [HdT HnE].
      assert (HLn : forall nn0, lobj k T' sub nn0 JNull = (JNull, [], false)) by reflexivity.
      unfold complete_obj.
      destruct (obj_target U cargs it) as [[e'|]|] eqn:Et.
      2:{ apply (item_inv_null _ HLn). tauto. }
      2:{ apply (item_inv_null _ HLn). split; discriminate. }
      destruct (obj_type_ok sc T' e') eqn:Eok; cbn [negb].
      2:{ apply (item_inv_null _ HLn). split; discriminate. }
      assert (HTe : en_type e' = T') by (apply (obj_type_ok_object sc); assumption).
      assert (HinU : In e' U) by (apply (obj_target_In _ _ _ _ Et)).
      rewrite HTe.
      pose proof (HPS T' sub e' q1 Hsub HinU HTe Hneed) as HP. unfold mex in HP.
      pose proof (exec_path_indep sc U [] vars Mono f2 T' {| ov_ent := e'; ov_repr := None |} (pt_client sub) q1 q2) as [HI1 HI2].
      set (r1 := exec_sels sc U [] vars Mono f2 T' {| ov_ent := e'; ov_repr := None |} (pt_proj sub) q1) in *.
      set (rM := exec_sels sc U [] vars Mono f2 T' {| ov_ent := e'; ov_repr := None |} (pt_client sub) q2) in *.
      change (let '(o, errs) := r1 in match o with Some l => {| c_json := JObj l; c_errs := errs; c_viol := false |} | None => cnull errs end)
        with (objres r1).
      change (let '(o, errs) := rM in match o with Some l => {| c_json := JObj l; c_errs := errs; c_viol := false |} | None => cnull errs end)
        with (objres rM).
      apply (item_inv_obj _ HLn).
      - destruct r1 as [o1 e1] eqn:E1. cbn [fst snd]. intros ->. apply (exec_sels_none_errs sc U [] vars Mono _ _ _ _ _ _ E1).
      - destruct rM as [oM eM] eqn:EM. cbn [fst snd]. intros ->. apply (exec_sels_none_errs sc U [] vars Mono _ _ _ _ _ _ EM).
      - destruct r1 as [[l1|] e1].
        + destruct HP as (HP1 & HP2 & _). exists (fill' k T' sub l1). split; [reflexivity|].
          rewrite HI1 in HP1. rewrite HI2 in HP2. split; assumption.
        + rewrite HI1 in HP. exact HP.
    Qed.
  End Inner.

  Lemma item_need_PDown a n args sh T' sub :
    (item_need sc (PDown a n args sh T' sub) <= f2)%nat ->
    (fuel_bound sc [SField a n args [] (pt_proj sub)] <= f2)%nat /\
    (fuel_bound sc [SField a n args [] (pt_client sub)] <= f2)%nat /\
    (pt_need sc sub <= f2)%nat.
  Proof.
    unfold item_need.
    change (item_proj (PDown a n args sh T' sub)) with (SField a n args [] (pt_proj sub)).
    change (item_client (PDown a n args sh T' sub)) with (SField a n args [] (pt_client sub)).
    cbn [sub_need]. intros H.
    apply Nat.max_lub_iff in H. destruct H as [H1 H]. apply Nat.max_lub_iff in H. destruct H as [H2 H3].
    repeat split; [clear -H1; lia|clear -H2; lia|exact H3].
  Qed.

  Lemma FL_step k :
    PS_at U sc subs vdsM supM f2 kq tn decls rdecls ndecls ab k ->
    FL_at U sc subs vdsM supM f2 kq tn decls rdecls ndecls ab (S k).
  Proof.
    intros HPS T e a n args sh T' sub p q Hst HeU HeT Hneed.
    cbn [item_static_b] in Hst.
    apply andb_true_iff in Hst. destruct Hst as [Hst Hsub].
    apply andb_true_iff in Hst. destruct Hst as [Hst Hleaf].
    apply andb_true_iff in Hst. destruct Hst as [Hname Hfty]. apply negb_true_iff in Hname.
    destruct (is_leaf_kind sc T') as [[|]|] eqn:Elk; try discriminate. clear Hleaf.
    destruct (item_need_PDown a n args sh T' sub Hneed) as (Hb1 & Hb2 & Hb3).
    destruct (proj1 (static_nospread sc subs [] vdsM supM kq decls rdecls ndecls ab k) T' sub Hsub) as [Hns1 Hns2].
    rewrite tr3_trG. unfold mex.
    apply (gen_field (lobj k T' sub) U sc vars f2 T e a n args sh T' (pt_proj sub) (pt_client sub) p q
                     Hname Hfty Elk Hns1 Hns2 Hb1 Hb2).
    intros nn cargs it q1 q2. apply (item_step k T' sub HPS Hsub Hb3).
  Qed.

  (* ---- a field resolved per runtime type ---- *)
  Lemma exec_flat_eq f C ov X fl p kf :
    flatten sc [] vars kf C X = FlatOk fl -> (kf <= f)%nat -> plain_sels fl -> (length fl < f)%nat ->
    exec_sels sc U [] vars Mono f C ov X p = exec_sels sc U [] vars Mono f C ov fl p.
  Proof.
    intros Hfl Hle Hpl Hlen.
    assert (H1 : flatten sc [] vars f C X = FlatOk fl).
    { rewrite (flatten_mono sc [] vars kf f C X Hle); [exact Hfl|rewrite Hfl; reflexivity]. }
    assert (H2 : flatten sc [] vars f C fl = FlatOk fl) by (apply flatten_plain; assumption).
    rewrite (exec_sels_flat sc U [] vars Mono f C ov X p fl H1), (exec_sels_flat sc U [] vars Mono f C ov fl p fl H2). reflexivity.
  Qed.

  Lemma pt_static_plain k T pt :
    pt_static_b sc subs [] vdsM supM kq ab decls rdecls ndecls k T pt = true -> plain_sels (pt_proj pt) /\ plain_sels (pt_client pt).
  Proof.
    destruct k as [|k]; [discriminate|]. destruct pt as [items fetches]. cbn [pt_static_b]. intros H.
    apply andb_true_iff in H. destruct H as [_ H]. rewrite forallb_forall in H.
    assert (Hit : forall ti, In ti items -> (exists a n args ss, item_proj (snd ti) = SField a n args [] ss) /\
                                            (exists a n args ss, item_client (snd ti) = SField a n args [] ss)).
    { intros ti Hti. specialize (H ti Hti). destruct k as [|k']; [discriminate|]. cbn [item_static_b] in H.
      destruct (snd ti) as [s0|a n args sh T' sub|a n args sh T' csel rsel alts]; cbn [item_proj item_client].
      - apply andb_true_iff in H. destruct H as [H _]. destruct s0 as [a n args [|? ?] ss| |]; try discriminate. split; repeat eexists.
      - split; repeat eexists.
      - split; repeat eexists. }
    rewrite pt_proj_eq, pt_client_eq. split.
    - apply Forall_app. split.
      + apply Forall_forall. intros s0 Hs. apply in_map_iff in Hs. destruct Hs as (ti & <- & Hti). apply filter_In in Hti. apply (Hit ti (proj1 Hti)).
      + unfold keys_from. destruct (filter _ fetches); [constructor|apply Forall_app; split; [apply plain_key_sels|apply plain_nsels]].
    - apply Forall_forall. intros s0 Hs. apply in_map_iff in Hs. destruct Hs as (ti & <- & Hti). apply (Hit ti Hti).
  Qed.

  Lemma alts_need_find csel rsel alts C h sub :
    find_alt C alts = Some (h, sub) -> (pt_need sc sub <= alts_need sc csel rsel alts)%nat.
  Proof.
    unfold alts_need. induction alts as [|[[C' h'] pt] r IH]; [discriminate|]. cbn [find_alt].
    destruct (bytes_eqb C C'); [intros H; injection H as <- <-; apply Nat.le_max_l|].
    intros H. eapply Nat.le_trans; [apply IH; exact H|apply Nat.le_max_r].
  Qed.
  Lemma alts_need_fuel csel rsel alts : (abs_fuel csel rsel <= alts_need sc csel rsel alts)%nat.
  Proof.
    unfold alts_need. induction alts as [|[[C' h'] pt] r IH]; [apply Nat.le_refl|]. eapply Nat.le_trans; [exact IH|apply Nat.le_max_r].
  Qed.

  Section InnerAbs.
    Variables (k : nat) (T' : name) (csel rsel : list selection) (alts : list (name * bool * ptree)).
    Hypothesis HPS : PS_at U sc subs vdsM supM f2 kq tn decls rdecls ndecls ab k.
    Hypothesis HnE : bytes_eqb T' s_Entity = false.
    Hypothesis Hty : types_ok_b sc U = true.
    Hypothesis Halts :
      forallb (fun td => negb (is_obj_kind (td_kind td) && type_applies sc (td_name td) T') ||
                         match find_alt (td_name td) alts with
                         | Some (h, sub) =>
                           flat_merged_is (flatten sc [] vars (abs_fuel csel rsel) (td_name td) csel) (pt_client sub) &&
                           flat_is (flatten sc [] vars (abs_fuel csel rsel) (td_name td) rsel)
                                   (if h then tn_sel :: pt_proj sub else pt_proj sub) &&
                           (if h then sels_top_nokey s_typename (pt_proj sub) else has_tn_sel (pt_proj sub)) &&
                           pt_static_b sc subs [] vdsM supM kq ab decls rdecls ndecls k (td_name td) sub
                         | None => false
                         end) (s_types sc) = true.
    Hypothesis Hneed : (alts_need sc csel rsel alts <= f2)%nat.

    Lemma item_step_abs nn cargs it q1 q2 :
      item_inv (lobja k alts) nn
               (itemwrap nn q1 (complete_obj sc U [] vars Mono f2 T' cargs it rsel q1))
               (itemwrap nn q2 (complete_obj sc U [] vars Mono f2 T' cargs it csel q2)).
    Proof.
      assert (HLn : forall nn0, lobja k alts nn0 JNull = (JNull, [], false)) by reflexivity.
      unfold complete_obj.
      destruct (obj_target U cargs it) as [[e'|]|] eqn:Et.
      2:{ apply (item_inv_null _ HLn). tauto. }
      2:{ apply (item_inv_null _ HLn). split; discriminate. }
      destruct (obj_type_ok sc T' e') eqn:Eok; cbn [negb].
      2:{ apply (item_inv_null _ HLn). split; discriminate. }
      assert (HinU : In e' U) by (apply (obj_target_In _ _ _ _ Et)).
      set (C := en_type e') in *.
      assert (HdC : declared_obj sc C = true).
      { unfold types_ok_b in Hty. rewrite forallb_forall in Hty. apply (Hty e' HinU). }
      pose proof HdC as HdC'. unfold declared_obj in HdC'.
      destruct (find_type C (s_types sc)) as [td|] eqn:Eft; [|discriminate].
      destruct (find_type_In _ _ _ Eft) as [Hin Hnm].
      assert (Happ : type_applies sc C T' = true).
      { unfold obj_type_ok in Eok. change [95; 69; 110; 116; 105; 116; 121] with s_Entity in Eok.
        destruct (kind_of sc T'); [|congruence].
        unfold possible in Eok. change [95; 69; 110; 116; 105; 116; 121] with s_Entity in Eok. rewrite HnE in Eok. exact Eok. }
      pose proof Halts as Ha. rewrite forallb_forall in Ha. specialize (Ha td Hin). rewrite Hnm, HdC', Happ in Ha. cbn [andb negb orb] in Ha.
      destruct (find_alt C alts) as [[h sub]|] eqn:Efa; [|discriminate].
      apply andb_true_iff in Ha. destruct Ha as [Ha Hsub].
      apply andb_true_iff in Ha. destruct Ha as [Ha Htn].
      apply andb_true_iff in Ha. destruct Ha as [Hfc Hfr].
      destruct (flatten sc [] vars (abs_fuel csel rsel) C csel) as [lc|] eqn:Efc; [|discriminate]. cbn [flat_merged_is] in Hfc. apply sels_eqb_eq in Hfc.
      destruct (flatten sc [] vars (abs_fuel csel rsel) C rsel) as [lr|] eqn:Efr; [|discriminate]. cbn [flat_is] in Hfr. apply sels_eqb_eq in Hfr. subst lr.
      assert (Hns : (pt_need sc sub <= f2)%nat) by (eapply Nat.le_trans; [apply (alts_need_find csel rsel alts C h sub Efa)|exact Hneed]).
      assert (Hfu : (abs_fuel csel rsel <= f2)%nat) by (eapply Nat.le_trans; [apply (alts_need_fuel csel rsel alts)|exact Hneed]).
      destruct (pt_static_plain k C sub Hsub) as [Hpp Hpc].
      assert (Hlp : (length (pt_proj sub) + 5 < f2)%nat /\ (length (pt_client sub) < f2)%nat).
      { destruct sub as [items fetches]. cbn [pt_need] in Hns.
        pose proof (length_le_sels_size (pt_proj (PT items fetches))) as L1.
        pose proof (length_le_sels_size (pt_client (PT items fetches))) as L2.
        pose proof (arith_flat (sels_size (pt_proj (PT items fetches))) (schema_ty_depth sc)) as A1.
        pose proof (arith_flat (sels_size (pt_client (PT items fetches))) (schema_ty_depth sc)) as A2.
        apply Nat.max_lub_iff in Hns. destruct Hns as [N1 N2]. apply Nat.max_lub_iff in N2. destruct N2 as [N2 _].
        unfold fuel_bound, level_cost in N1, N2. clear -L1 L2 A1 A2 N1 N2. split; lia. }
      set (ov' := {| ov_ent := e'; ov_repr := None |}).
      rewrite (exec_sels_gmerge sc U [] vars Mono _ f2 C ov' csel lc q2 Efc Hfu); [|rewrite Hfc; exact (proj2 Hlp)]. rewrite Hfc.
      pose proof (HPS C sub e' q1 Hsub HinU eq_refl Hns) as HP. unfold mex in HP. fold ov' in HP.
      pose proof (exec_path_indep sc U [] vars Mono f2 C ov' (pt_client sub) q1 q2) as [HI1 HI2].
      set (r1 := exec_sels sc U [] vars Mono f2 C ov' (pt_proj sub) q1) in *.
      set (rM := exec_sels sc U [] vars Mono f2 C ov' (pt_client sub) q2) in *.
      (* what the source answers for its own selection *)
      assert (Hreal : exec_sels sc U [] vars Mono f2 C ov' rsel q1 =
                      if h then match r1 with
                                | (Some l1, e1) => (Some ((s_typename, JStr C) :: l1), e1)
                                | (None, e1) => (None, e1)
                                end
                      else r1).
      { destruct h.
        - assert (Hpl : plain_sels (tn_sel :: pt_proj sub)).
          { constructor; [exists None, s_typename, [], []; reflexivity|exact Hpp]. }
          rewrite (exec_flat_eq f2 C ov' rsel (tn_sel :: pt_proj sub) q1 _ Efr Hfu Hpl); [|cbn [length]; clear -Hlp; lia].
          change (tn_sel :: pt_proj sub) with ([tn_sel] ++ pt_proj sub).
          assert (Hf1 : flatten sc [] vars f2 C [tn_sel] = FlatOk [tn_sel]).
          { apply flatten_plain; [constructor; [exists None, s_typename, [], []; reflexivity|constructor]|cbn [length]; clear -Hlp; lia]. }
          assert (Hf2 : flatten sc [] vars f2 C (pt_proj sub) = FlatOk (pt_proj sub)) by (apply flatten_plain; [exact Hpp|clear -Hlp; lia]).
          rewrite (exec_split_eq sc U [] vars Mono f2 C ov' [tn_sel] (pt_proj sub) q1 [tn_sel] (pt_proj sub) Hf1 Hf2).
          + assert (Ht : exec_sels sc U [] vars Mono f2 C ov' [tn_sel] q1 = (Some [(s_typename, JStr C)], [])).
            { pose proof (exec_key_field sc U vars e' s_typename None [] [] q1 f2) as Hk. cbv zeta in Hk. fold C in Hk. fold ov' in Hk.
              unfold tn_sel, key_sel. rewrite Hk; [unfold key_val; rewrite bytes_eqb_refl; reflexivity| |clear -Hlp; lia].
              unfold key_ok. rewrite bytes_eqb_refl. reflexivity. }
            rewrite Ht. fold r1. unfold split_merge. cbn [fst snd app]. destruct r1 as [[l1|] e1]; reflexivity.
          + cbn [app]. rewrite flatten_plain; [reflexivity|exact Hpl|cbn [length]; clear -Hlp; lia].
          + cbn [keys_disjoint forallb]. rewrite andb_true_r. apply negb_true_iff.
            apply (flatten_top_nokey sc [] vars s_typename f2 C (pt_proj sub) (pt_proj sub) Htn Hf2).
        - rewrite (exec_flat_eq f2 C ov' rsel (pt_proj sub) q1 _ Efr Hfu Hpp); [reflexivity|clear -Hlp; lia]. }
      rewrite Hreal.
      set (rR := if h then match r1 with (Some l1, e1) => (Some ((s_typename, JStr C) :: l1), e1) | (None, e1) => (None, e1) end else r1).
      change (let '(o, errs) := rR in match o with Some l => {| c_json := JObj l; c_errs := errs; c_viol := false |} | None => cnull errs end)
        with (objres rR).
      change (let '(o, errs) := rM in match o with Some l => {| c_json := JObj l; c_errs := errs; c_viol := false |} | None => cnull errs end)
        with (objres rM).
      assert (Hn1 : fst r1 = None -> snd r1 <> []).
      { destruct r1 as [o1 e1] eqn:E1. cbn [fst snd]. intros ->. apply (exec_sels_none_errs sc U [] vars Mono _ _ _ _ _ _ E1). }
      apply (item_inv_obj _ HLn).
      - unfold rR. destruct h; [|exact Hn1]. destruct r1 as [[l1|] e1]; cbn [fst snd] in *; [discriminate|exact Hn1].
      - destruct rM as [oM eM] eqn:EM. cbn [fst snd]. intros ->. apply (exec_sels_none_errs sc U [] vars Mono _ _ _ _ _ _ EM).
      - unfold rR. destruct r1 as [[l1|] e1].
        + destruct HP as (HP1 & HP2 & HP3). rewrite HI1 in HP1. rewrite HI2 in HP2.
          destruct h.
          * exists (fill' k C sub l1). split; [|split; assumption].
            unfold lobja. unfold get_member. cbn [obj_get]. rewrite bytes_eqb_refl. rewrite Efa. cbn [drop_tn]. rewrite bytes_eqb_refl. reflexivity.
          * exists (fill' k C sub l1). split; [|split; assumption].
            unfold lobja. rewrite (HP3 Htn), Efa. reflexivity.
        + rewrite HI1 in HP. destruct h; exact HP.
    Qed.
  End InnerAbs.

  Lemma item_need_PAbs a n args sh T' csel rsel alts :
    (item_need sc (PAbs a n args sh T' csel rsel alts) <= f2)%nat ->
    (fuel_bound sc [SField a n args [] rsel] <= f2)%nat /\
    (fuel_bound sc [SField a n args [] csel] <= f2)%nat /\
    (alts_need sc csel rsel alts <= f2)%nat.
  Proof.
    unfold item_need. cbn [item_proj item_client sub_need]. intros H.
    apply Nat.max_lub_iff in H. destruct H as [H1 H]. apply Nat.max_lub_iff in H. destruct H as [H2 H3].
    repeat split; [clear -H1; lia|clear -H2; lia|exact H3].
  Qed.

  Lemma FA_step k :
    (ab = true -> types_ok_b sc U = true) ->
    PS_at U sc subs vdsM supM f2 kq tn decls rdecls ndecls ab k ->
    FA_at U sc subs vdsM supM f2 kq tn decls rdecls ndecls ab (S k).
  Proof.
    intros Hty HPS T e a n args sh T' csel rsel alts p q Hst HeU HeT Hneed.
    cbn [item_static_b] in Hst.
    apply andb_true_iff in Hst. destruct Hst as [Hst Halts].
    apply andb_true_iff in Hst. destruct Hst as [Hst Hnr].
    apply andb_true_iff in Hst. destruct Hst as [Hst Hnc].
    apply andb_true_iff in Hst. destruct Hst as [Hst HnE]. apply negb_true_iff in HnE.
    apply andb_true_iff in Hst. destruct Hst as [Hst Hleaf].
    apply andb_true_iff in Hst. destruct Hst as [Hst Hfty].
    apply andb_true_iff in Hst. destruct Hst as [Hab Hname]. apply negb_true_iff in Hname.
    destruct (is_leaf_kind sc T') as [[|]|] eqn:Elk; try discriminate. clear Hleaf.
    destruct (item_need_PAbs a n args sh T' csel rsel alts Hneed) as (Hb1 & Hb2 & Hb3).
    rewrite tr3a_trG. unfold mex.
    apply (gen_field (lobja k alts) U sc vars f2 T e a n args sh T' rsel csel p q Hname Hfty Elk Hnr Hnc Hb1 Hb2).
    intros nn cargs it q1 q2. apply (item_step_abs k T' csel rsel alts HPS HnE (Hty Hab) Halts Hb3).
  Qed.
End FLStep.

Print Assumptions FL_step.
Print Assumptions FA_step.
