(* C01 / (6): one entity fetch of the plan-tree gateway model, characterised by monolithic execution. *)
From Coq Require Import PeanoNat Lia.
From Gv Require Import lib.Bytes lib.Json lib.Gql lib.Exec
     C01.ProofsBase C01.ProofsFuel C01.ProofsSplit C01.ProofsSim C01.ProofsJoin C01.ProofsOverlap
     C01.ProofsTwoStep C01.ProofsViol C01.ProofsCtxBase C01.ProofsCtx C01.ProofsTwoStepWf C01.ProofsPlanAlg
     C01.ProofsPlan C01.ProofsPlanOk C01.ProofsDedup C01.ProofsListHop C01.ProofsListHopWf
     C01.ProofsTvStatic C01.ProofsTvDefs C01.ProofsTvHidden C01.ProofsPlanGen C01.ProofsPlan2 C01.ProofsFuelSuff C01.ProofsNKeyDefs C01.ProofsPlan3 C01.ProofsPlan3Keys.
Open Scope N_scope.


Section FetchOne.
  Variable U : universe.
  Variables (sc : schema) (subs : list schema) (vdsM : list vardef) (supM : list (bytes * json)).
  Variable eQ : entity.
  Variable f2 : nat.
  Variable tn : bool.
  Notation vars := (pvars vdsM supM).

  Hypothesis HeQ : find_entity U (s_query sc) [] = Some eQ.
  Hypothesis Hnr : forallb (fun vd => not_repr (vd_name vd)) vdsM = true.

  Lemma length_le_sels_size (l : list selection) : (length l <= sels_size l)%nat.
  Proof.
    induction l as [|x l IH]; [apply Nat.le_refl|]. rewrite sels_size_cons. cbn [length].
    pose proof (sel_size_pos x) as Hp. clear -IH Hp. lia.
  Qed.

  (* the entity request without the planner's __typename, at any sufficient fuel *)
  Lemma ent_req_resp (T : name) (sel : list selection) (si : nat) (r : json) (e : entity) (kq g fX : nat) :
    In e U -> en_type e = T ->
    config_wf_b sc (sub_at sc subs si) = true -> univ_ok_b (sub_at sc subs si) U = true ->
    plain_sels sel -> sels_nospread sel = true -> sels_noent sel = true ->
    req_ok_b (sub_at sc subs si) [] vars not_repr kq T sel = true ->
    find_by_repr U r = Some e ->
    (forall s, In s sel -> forall x, In x (fval_reqs (ent_fval e (sel_fname s))) ->
                                     req_read Sub (Some r) e x = req_read Mono None e x) ->
    (fuel_bound sc sel + 4 <= g)%nat -> (fuel_bound sc sel <= fX)%nat ->
    let X := exec_sels sc U [] vars Mono fX T {| ov_ent := e; ov_repr := None |} sel [] in
    execute g (sub_at sc subs si) U Sub (entities_doc (rep_vd :: vdsM) T sel []) None
            (JObj ((s_representations, JArr [r]) :: supM)) =
    {| rs_data := JObj [(s_entities, JArr [ojson (fst X)])];
       rs_errs := shift_errs [PN s_entities; PI 0] (snd X) |}.
  Proof.
    intros HeU HT Hwf Hu Hpl Hns Hne Hreq Hfind Hcov Hg HfX X.
    set (sc2 := sub_at sc subs si) in *.
    set (fb := fuel_bound sc sel) in *.
    assert (Hroot2 : find_entity U (s_query sc2) [] = Some eQ).
    { pose proof Hwf as Hq. unfold config_wf_b in Hq. repeat (apply andb_true_iff in Hq; destruct Hq as [Hq ?]).
      apply bytes_eqb_eq in Hq. rewrite Hq. exact HeQ. }
    assert (Hk2 : kind_of sc2 T <> None).
    { pose proof Hreq as Hr2. unfold req_ok_b in Hr2.
      apply andb_true_iff in Hr2. destruct Hr2 as [Hr2 _]. apply andb_true_iff in Hr2. destruct Hr2 as [_ HdT].
      unfold declared_obj in HdT. unfold kind_of. destruct (builtin_scalar T); [discriminate|].
      destruct (find_type T (s_types sc2)); discriminate. }
    assert (Hlen : (length sel < fb + 1)%nat).
    { pose proof (length_le_sels_size sel) as H1. pose proof (arith_flat (sels_size sel) (schema_ty_depth sc)) as H2.
      unfold fb, fuel_bound, level_cost. clear -H1 H2. lia. }
    assert (Hsame : forall fuel,
               exec_sels sc2 U [] (vars2_of vdsM supM T sel r) Mono fuel T {| ov_ent := e; ov_repr := None |} sel [] =
               exec_sels sc U [] vars Mono fuel T {| ov_ent := e; ov_repr := None |} sel []).
    { intros fuel.
      apply (req_ok_sound sc sc2 U [] vars (vars2_of vdsM supM T sel r) not_repr kq T e None sel [] Hwf Hu
                          (vars2_agree_client vdsM supM T sel [] Hnr r) Hreq HeU HT). }
    assert (HnX : forall fuel, (fb <= fuel)%nat ->
               no_oof (snd (exec_sels sc U [] vars Mono fuel T {| ov_ent := e; ov_repr := None |} sel [])) = true).
    { intros fuel Hle. apply exec_sels_fuel_sufficient; assumption. }
    assert (HXeq : forall fuel, (fb <= fuel)%nat ->
               exec_sels sc U [] vars Mono fuel T {| ov_ent := e; ov_repr := None |} sel [] = X).
    { intros fuel Hle. unfold X.
      rewrite (exec_sels_fuel_mono sc U [] vars Mono fb fuel T _ sel [] Hle (HnX fb (Nat.le_refl _))).
      rewrite (exec_sels_fuel_mono sc U [] vars Mono fb fX T _ sel [] HfX (HnX fb (Nat.le_refl _))). reflexivity. }
    assert (Hmono : mono_at sc2 U [] (vars2_of vdsM supM T sel r) (fb + 1) T sel e = X).
    { unfold mono_at. rewrite Hsame. apply HXeq. clear. lia. }
    rewrite (entity_join_execute_list sc2 U [] (fb + 1) g (rep_vd :: vdsM) T sel
               (JObj ((s_representations, JArr [r]) :: supM)) eQ sel [r] [e] Hroot2 Hk2 eq_refl Hne).
    - cbn [supplied_members]. fold (vars2_of vdsM supM T sel r). cbn [join_loop]. rewrite Hmono.
      cbn [fst snd app]. rewrite app_nil_r. reflexivity.
    - cbn [supplied_members]. exact (vars2_repr vdsM supM T sel r).
    - cbn [supplied_members]. apply flatten_plain_fields; [exact Hpl|exact Hlen].
    - cbn [supplied_members]. constructor; [|constructor].
      split; [exact Hfind|]. split; [exact HT|]. split.
      + exact Hcov.
      + fold (vars2_of vdsM supM T sel r). rewrite Hmono. unfold X. apply HnX. exact HfX.
    - clear -Hg. lia.
  Qed.

  (* TO PROVE *)
  Lemma fetch_one_spec (T : name) (sel : list selection) (m : list (bytes * json)) (si : nat) (ks : list name) (kn : nkspec)
        (r : json) (e : entity) (kq : nat) :
    In e U -> en_type e = T ->
    config_wf_b sc (sub_at sc subs si) = true -> univ_ok_b (sub_at sc subs si) U = true ->
    plain_sels sel -> sels_nospread sel = true -> sels_noent sel = true ->
    req_ok_b (sub_at sc subs si) [] vars not_repr kq T sel = true ->
    repr_from_n ks kn m = r ->
    find_by_repr U r = Some e ->
    (forall s, In s sel -> forall x, In x (fval_reqs (ent_fval e (sel_fname s))) ->
                                     req_read Sub (Some r) e x = req_read Mono None e x) ->
    (fuel_bound sc sel + 10 <= f2)%nat ->
    let X := exec_sels sc U [] vars Mono f2 T {| ov_ent := e; ov_repr := None |} sel [] in
    fst (fetch_one U sc subs [] vdsM supM f2 tn T sel m si ks kn) = fst X /\
    (snd (fetch_one U sc subs [] vdsM supM f2 tn T sel m si ks kn) = [] <-> snd X = []).
  Proof.
    intros HeU HT Hwf Hu Hpl Hns Hne Hreq Hrep Hfind Hcov Hf2 X.
    assert (Hg : (fuel_bound sc sel + 4 <= f2)%nat) by (clear -Hf2; lia).
    assert (HfX : (fuel_bound sc sel <= f2)%nat) by (clear -Hf2; lia).
    pose proof (ent_req_resp T sel si r e kq f2 f2 HeU HT Hwf Hu Hpl Hns Hne Hreq Hfind Hcov Hg HfX) as HR.
    cbv zeta in HR. fold X in HR.
    assert (HnX : no_oof (snd X) = true) by (apply exec_sels_fuel_sufficient; assumption).
    unfold fetch_one, ent_sel3. rewrite Hrep.
    destruct (add_tn tn sel) eqn:Eadd.
    - (* with the planner's __typename *)
      unfold add_tn in Eadd. apply andb_true_iff in Eadd. destruct Eadd as [_ Hnk].
      assert (Hn : no_oof (rs_errs (execute f2 (sub_at sc subs si) U Sub (entities_doc (rep_vd :: vdsM) T sel []) None
                                            (JObj ((s_representations, JArr [r]) :: supM)))) = true).
      { rewrite HR. cbn [rs_errs]. rewrite no_oof_shift. exact HnX. }
      destruct (execute_entities_tn (sub_at sc subs si) U [] (rep_vd :: vdsM) T sel
                  (JObj ((s_representations, JArr [r]) :: supM)) f2 Hnk Hn) as [Hd He].
      rewrite HR in Hd, He. cbn [rs_data rs_errs] in Hd, He. rewrite He.
      destruct (rs_data (execute (S f2) (sub_at sc subs si) U Sub (entities_doc (rep_vd :: vdsM) T (tn_sel :: sel) []) None
                                 (JObj ((s_representations, JArr [r]) :: supM))))
        as [| | | | |[|[k1 x] [|? ?]]]; cbn [strip_resp_data] in Hd; try discriminate.
      2:{ destruct x; discriminate Hd. }
      destruct x as [| | | |[|y [|? ?]]|]; cbn [map] in Hd; try discriminate.
      injection Hd as _ Hy. rewrite <- Hy. cbn [fst snd].
      split; [destruct (fst X); reflexivity|].
      destruct (ojson (fst X)); cbn [snd]; apply shift_errs_nil.
    - rewrite HR. cbn [rs_data rs_errs]. split.
      + destruct (fst X); reflexivity.
      + destruct (ojson (fst X)); cbn [snd]; apply shift_errs_nil.
  Qed.
  (* flat keys: the representation of [e] from the fields [ks] *)
  Lemma fetch_one_spec_flat (T : name) (sel : list selection) (m : list (bytes * json)) (si : nat) (ks : list name) (e : entity) (kq : nat) :
    In e U -> en_type e = T ->
    config_wf_b sc (sub_at sc subs si) = true -> univ_ok_b (sub_at sc subs si) U = true ->
    plain_sels sel -> sels_nospread sel = true -> sels_noent sel = true ->
    req_ok_b (sub_at sc subs si) [] vars not_repr kq T sel = true ->
    repr_from ks m = repr_of e ks ->
    find_by_repr U (repr_of e ks) = Some e ->
    reqs_covered e sel ks = true ->
    (fuel_bound sc sel + 10 <= f2)%nat ->
    let X := exec_sels sc U [] vars Mono f2 T {| ov_ent := e; ov_repr := None |} sel [] in
    fst (fetch_one U sc subs [] vdsM supM f2 tn T sel m si ks []) = fst X /\
    (snd (fetch_one U sc subs [] vdsM supM f2 tn T sel m si ks []) = [] <-> snd X = []).
  Proof.
    intros HeU HT Hwf Hu Hpl Hns Hne Hreq Hrep Hfind Hcov Hf2.
    apply (fetch_one_spec T sel m si ks [] (repr_of e ks) e kq HeU HT Hwf Hu Hpl Hns Hne Hreq); try assumption.
    - rewrite repr_from_n_nil. exact Hrep.
    - apply reqs_covered_agree. exact Hcov.
  Qed.
End FetchOne.

Print Assumptions fetch_one_spec.
Print Assumptions fetch_one_spec_flat.
