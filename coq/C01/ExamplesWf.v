(* C01: [federated_two_step_wf] instantiated on S0 / S1 / S2 of Examples.v: every schema-agreement
   obligation is a boolean evaluated by [vm_compute]. *)
From Coq Require Import PeanoNat Lia.
From Gv Require Import lib.Bytes lib.Json lib.Gql lib.Exec
     C01.ProofsBase C01.ProofsFuel C01.ProofsSplit C01.ProofsSim C01.ProofsJoin C01.ProofsOverlap
     C01.ProofsTwoStep C01.ProofsCtxBase C01.ProofsCtx C01.ProofsTwoStepWf C01.Examples.
Open Scope N_scope.

Example ex_config_wf_1 : config_wf_b S0 S1 = true. Proof. vm_compute. reflexivity. Qed.
Example ex_config_wf_2 : config_wf_b S0 S2 = true. Proof. vm_compute. reflexivity. Qed.
Example ex_univ_ok_1 : univ_ok_b S1 U0 = true. Proof. vm_compute. reflexivity. Qed.
Example ex_univ_ok_2 : univ_ok_b S2 U0 = true. Proof. vm_compute. reflexivity. Qed.
(* the first request is executable on subgraph 1, the second on subgraph 2 ... *)
Example ex_req_ok_1 :
  req_ok_b S1 [] [] (fun _ => true) 6 bQuery [SField None bproduct [] [] ([fld bname []] ++ key_sels [bid])] = true.
Proof. vm_compute. reflexivity. Qed.
Example ex_req_ok_2 : req_ok_b S2 [] [] not_repr 6 bProduct [fld bprice []] = true.
Proof. vm_compute. reflexivity. Qed.
(* ... and a request for a field the subgraph does not own is rejected *)
Example ex_req_not_ok : req_ok_b S1 [] [] (fun _ => true) 6 bProduct [fld bprice []] = false.
Proof. vm_compute. reflexivity. Qed.
(* a subgraph whose field type disagrees with the supergraph is rejected *)
Definition S1bad : schema :=
  mk_schema [objt bQuery [fdef bproduct (TNamed bProduct)];
             objt bProduct [fdef bid (TNamed bID); fdef bname (TNamed bString)]].
Example ex_config_not_wf : config_wf_b S0 S1bad = false. Proof. vm_compute. reflexivity. Qed.

Example req_ok_sound_applies : forall fuel,
  exec_sels S1 U0 [] [] Mono fuel bQuery {| ov_ent := e_root; ov_repr := None |}
            [SField None bproduct [] [] ([fld bname []] ++ key_sels [bid])] [] =
  exec_sels S0 U0 [] [] Mono fuel bQuery {| ov_ent := e_root; ov_repr := None |}
            [SField None bproduct [] [] ([fld bname []] ++ key_sels [bid])] [].
Proof.
  apply (req_ok_sound_same_vars S0 S1 U0 [] [] 6 bQuery e_root None _ [] ex_config_wf_1 ex_univ_ok_1 ex_req_ok_1);
    [left; reflexivity|reflexivity].
Qed.

Example federated_two_step_wf_applies : forall f1 f2, (40 <= f1)%nat -> (50 <= f2)%nat ->
  two_step U0 S1 [] [] S2 [] [] [] bQuery e_root None bproduct [] [] [] false bProduct [bid]
           [fld bname []] [fld bprice []] [fld bname []] f1 f2 =
  (Some [(bproduct, JObj [(bname, JStr bChair); (bprice, JNum b10)])], []).
Proof.
  intros f1 f2 Hf1 Hf2.
  rewrite (federated_two_step_wf_main U0 S0 [] [] S1 S2 [] [] e_root bQuery e_root None bproduct [] [] []
             false bProduct
             (objt bQuery [fdef bproduct (TNamed bProduct)]) (fdef bproduct (TNamed bProduct))
             bProduct [bid] [fld bname []] [fld bprice []] [fld bname []] [fld bprice []] 5 6 6) with (fM := 12%nat);
    match goal with
    | |- forall _, _ => idtac
    | |- (_ <= _)%nat => vm_compute; lia
    | |- In _ _ => left; reflexivity
    | _ => vm_compute; reflexivity
    end.
  - intros r m Hm. unfold vars2_of, effective_vars. cbn. unfold not_repr in Hm. apply negb_true_iff in Hm. rewrite Hm. reflexivity.
  - intros e He _. vm_compute in He. injection He as <-. repeat split; vm_compute; reflexivity.
Qed.

(* ---- why [univ_ok_b] is needed (it was not in the brief): an abstract field of the subgraph that
   resolves to an object type the subgraph does not declare ---- *)
Definition bNode : bytes := [78;111;100;101].
Definition bnode : bytes := [110;111;100;101].
Definition bA : bytes := [65].
Definition bB : bytes := [66].
Definition bb1 : bytes := [98;49].
Definition tdef (k : type_kind) (n : name) (impl : list name) (fs : list field_def) : type_def :=
  {| td_kind := k; td_name := n; td_implements := impl; td_fields := fs; td_members := [];
     td_enum_values := []; td_input_fields := []; td_dirs := [] |}.
Definition Ssup : schema :=
  mk_schema [tdef KObject bQuery [] [fdef bnode (TNamed bNode)];
             tdef KInterface bNode [] [fdef bid (TNamed bID)];
             tdef KObject bA [bNode] [fdef bid (TNamed bID)];
             tdef KObject bB [bNode] [fdef bid (TNamed bID)]].
Definition Ssub : schema :=
  mk_schema [tdef KObject bQuery [] [fdef bnode (TNamed bNode)];
             tdef KInterface bNode [] [fdef bid (TNamed bID)];
             tdef KObject bA [bNode] [fdef bid (TNamed bID)]].
Definition Uab : universe :=
  [{| en_type := bQuery; en_key := []; en_fields := [(bnode, FRef bB bb1)] |};
   {| en_type := bB; en_key := bb1; en_fields := [(bid, FSc (JStr bb1))] |}].
Example ex_univ_needed :
  config_wf_b Ssup Ssub = true /\
  req_ok_b Ssub [] [] (fun _ => true) 6 bQuery [fld bnode [fld bid []]] = true /\
  univ_ok_b Ssub Uab = false /\
  execute 20 Ssub Uab Mono (query [fld bnode [fld bid []]]) None (JObj []) =
    {| rs_data := JObj [(bnode, JNull)]; rs_errs := [XErr [PN bnode]] |} /\
  execute 20 Ssup Uab Mono (query [fld bnode [fld bid []]]) None (JObj []) =
    {| rs_data := JObj [(bnode, JObj [(bid, JStr bb1)])]; rs_errs := [] |}.
Proof. repeat split; vm_compute; reflexivity. Qed.
