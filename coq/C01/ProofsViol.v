(* C01: a non-null violation always comes with at least one error. *)
From Coq Require Import PeanoNat Lia.
From Gv Require Import lib.Bytes lib.Json lib.Gql lib.Exec C01.ProofsBase.
Open Scope N_scope.

Lemma sels_go_none_errs ef path gs errs :
  (forall key s subs p, c_viol (ef key s subs p) = true -> c_errs (ef key s subs p) <> []) ->
  sels_go ef path gs = (None, errs) -> errs <> [].
Proof.
  intros Hef. revert errs. induction gs as [|[[key s] subs] rest IH]; intros errs H; cbn [sels_go] in H; [discriminate|].
  destruct (c_viol (ef key s subs (path ++ [PN key]))) eqn:Ev.
  - injection H as <-. apply Hef. exact Ev.
  - destruct (sels_go ef path rest) as [[l|] e2]; [discriminate|]. injection H as <-.
    specialize (IH e2 eq_refl). intros Hn. apply app_eq_nil in Hn. destruct Hn as [_ Hn]. contradiction.
Qed.

Lemma lst_loop_viol_errs (cf : fval -> list pel -> cres) path items :
  (forall it p, c_viol (cf it p) = true -> c_errs (cf it p) <> []) ->
  forall i, snd (lst_loop cf path i items) = true -> snd (fst (lst_loop cf path i items)) <> [].
Proof.
  intros Hcf. induction items as [|it rest IH]; intros i H; [discriminate|]. cbn [lst_loop] in *.
  specialize (IH (i + 1)). destruct (lst_loop cf path (i + 1) rest) as [[out errs] viol]. cbn [fst snd] in *.
  intros Hn. apply app_eq_nil in Hn. destruct Hn as [H1 H2].
  destruct (c_viol (cf it (path ++ [PI i]))) eqn:Ev; [apply (Hcf _ _ Ev); exact H1|].
  cbn [orb] in H. apply (IH H). exact H2.
Qed.

Section Viol.
  Variable sc : schema.
  Variable U : universe.
  Variable frags : list fragment.
  Variable vars : list (bytes * json).
  Variable md : mode.

  Definition viol_errs_at (f : nat) : Prop :=
    (forall objty ov sels path errs, exec_sels sc U frags vars md f objty ov sels path = (None, errs) -> errs <> []) /\
    (forall objty ov key s subs path,
        c_viol (exec_field sc U frags vars md f objty ov key s subs path) = true ->
        c_errs (exec_field sc U frags vars md f objty ov key s subs path) <> []) /\
    (forall t ov fname cargs fv subs path,
        c_viol (complete sc U frags vars md f t ov fname cargs fv subs path) = true ->
        c_errs (complete sc U frags vars md f t ov fname cargs fv subs path) <> []).

  Lemma viol_errs_all : forall f, viol_errs_at f.
  Proof.
    induction f as [|f [IHs [IHf IHc]]].
    - split; [|split]; intros.
      + rewrite exec_sels_0 in H. injection H as <-. discriminate.
      + rewrite exec_field_0. discriminate.
      + rewrite complete_0. discriminate.
    - split; [|split].
      + intros objty ov sels path errs H. rewrite exec_sels_S in H.
        destruct (flatten sc frags vars (S f) objty sels) as [fl|e]; [|injection H as <-; discriminate].
        apply (sels_go_none_errs _ _ _ _ (fun key s subs p => IHf objty ov key s subs p) H).
      + intros objty ov key s subs path. rewrite exec_field_S.
        destruct s as [a fname args dirs ss| |]; try (intros _; discriminate).
        destruct (bytes_eqb fname s_typename); [discriminate|].
        destruct (is_entities sc md fname objty); [discriminate|].
        destruct (find_type objty (s_types sc)) as [td|]; [|intros _; discriminate].
        destruct (find_field fname (td_fields td)) as [fd|]; [|intros _; discriminate].
        apply IHc.
      + intros t ov fname cargs fv subs path. rewrite complete_S.
        destruct t as [n|t'|t'].
        * destruct (is_leaf_kind sc n) as [[|]|]; [|unfold complete_obj|discriminate].
          -- destruct fv; cbn [leaf_value]; try discriminate.
             match goal with |- context [if ?b then _ else _] => destruct b end; discriminate.
          -- destruct (obj_target U cargs fv) as [[e|]|]; try discriminate.
             destruct (negb (obj_type_ok sc n e)); [discriminate|].
             destruct (exec_sels sc U frags vars md f (en_type e) _ subs path) as [[l|] errs]; discriminate.
        * destruct fv as [j|t0 k| |l| | |t0 a|fs]; try discriminate.
          -- destruct j; try discriminate. apply IHc.
          -- unfold list_finish. destruct (lst_loop _ path 0 l) as [[out errs] viol]. destruct viol; discriminate.
        * unfold nonnull_wrap.
          destruct (c_json (complete sc U frags vars md f t' ov fname cargs fv subs path)) eqn:Ej; try apply IHc.
          intros _. cbn [c_errs]. destruct (c_errs _); discriminate.
  Qed.

  Lemma exec_sels_none_errs f objty ov sels path errs :
    exec_sels sc U frags vars md f objty ov sels path = (None, errs) -> errs <> [].
  Proof. apply (viol_errs_all f). Qed.
  Lemma complete_viol_errs f t ov fname cargs fv subs path :
    c_viol (complete sc U frags vars md f t ov fname cargs fv subs path) = true ->
    c_errs (complete sc U frags vars md f t ov fname cargs fv subs path) <> [].
  Proof. apply (viol_errs_all f). Qed.
End Viol.
