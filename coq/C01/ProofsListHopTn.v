(* C01 / (5): the list hop with the REAL entity request (selection starting with the planner's __typename).
   [list_resp_noof]: under the hypotheses of the list-hop theorem the batch entity request of the model does not
   run out of fuel, hence ([step2h_list_eq]) the loader step with the real request is the step of the theorem. *)
From Coq Require Import PeanoNat Lia.
From Gv Require Import lib.Bytes lib.Json lib.Gql lib.Exec
     C01.ProofsBase C01.ProofsFuel C01.ProofsSplit C01.ProofsSim C01.ProofsJoin C01.ProofsOverlap
     C01.ProofsTwoStep C01.ProofsDedup C01.ProofsViol C01.ProofsCtxBase C01.ProofsCtx C01.ProofsTwoStepWf
     C01.ProofsListHop C01.ProofsListHopWf C01.ProofsTvDefs C01.ProofsTvHidden.
Open Scope N_scope.

Lemma join_loop_noof (mono : entity -> sres) path es : forall i,
    (forall e, In e es -> no_oof (snd (mono e)) = true) -> no_oof (snd (join_loop mono path i es)) = true.
Proof.
  induction es as [|e es IH]; intros i H; [reflexivity|]. cbn [join_loop].
  specialize (IH (i + 1) (fun x Hx => H x (or_intror Hx))).
  destruct (join_loop mono path (i + 1) es) as [its ers]. cbn [snd] in *.
  rewrite no_oof_app, no_oof_shift, (H e (or_introl eq_refl)), IH. reflexivity.
Qed.

Section FetchNoof.
  Variable U : universe.
  Variables (sc : schema) (frags : list fragment) (vars : list (bytes * json)).
  Variables (sc2 : schema) (frags2 : list fragment) (vds2 : list vardef) (sup2 : list (bytes * json)).
  Variable root2 : entity.
  Variables (T : name) (ks : list name) (selB flB2 : list selection).
  Variables (C g2 : nat).

  Hypothesis Hk2 : kind_of sc2 T <> None.
  Hypothesis Hfr2 : frags_noent frags2 = true.
  Hypothesis HsB : sels_noent selB = true.
  Hypothesis Hroot2 : find_entity U (s_query sc2) [] = Some root2.

  Lemma fetch_list_noof rs f2 :
    flatten sc2 frags2 (vars2l_of vds2 sup2 T selB rs) g2 T selB = FlatOk flB2 ->
    Forall (good_repr U sc frags vars sc2 frags2 vds2 sup2 T ks selB flB2 C rs) rs -> (C + g2 + 3 <= f2)%nat ->
    no_oof (rs_errs (execute f2 sc2 U Sub (entities_doc (rep_vd :: vds2) T selB frags2) None
                             (JObj ((s_representations, JArr rs) :: sup2)))) = true.
  Proof.
    intros Hfl Hgood Hle.
    set (ent_of := fun r => match find_by_repr U r with Some e => e | None => root2 end).
    set (v2 := vars2l_of vds2 sup2 T selB rs).
    assert (Hmono : forall r, In r rs -> mono_at sc2 U frags2 v2 (C + g2) T selB (ent_of r) = EB0 U sc frags vars T selB C (ent_of r) /\
                                          find_by_repr U r = Some (ent_of r) /\ no_oof (snd (EB0 U sc frags vars T selB C (ent_of r))) = true).
    { intros r Hr. rewrite Forall_forall in Hgood. destruct (Hgood r Hr) as (e & Hf & HT & Hre & Hrq & Hn & H2).
      unfold ent_of. rewrite Hf. split; [|split; [reflexivity|exact Hn]]. unfold mono_at. fold v2 in H2. rewrite H2.
      unfold EB0. apply exec_sels_fuel_mono; [lia|exact Hn]. }
    rewrite (entity_join_execute_list sc2 U frags2 (C + g2) f2 (rep_vd :: vds2) T selB
               (JObj ((s_representations, JArr rs) :: sup2)) root2 flB2 rs (map ent_of rs) Hroot2 Hk2 Hfr2 HsB).
    - cbn [supplied_members rs_errs]. fold (vars2l_of vds2 sup2 T selB rs). fold v2.
      apply join_loop_noof. intros e He. apply in_map_iff in He. destruct He as (r & <- & Hr).
      destruct (Hmono r Hr) as (Hm & _ & Hn). rewrite Hm. exact Hn.
    - cbn [supplied_members]. exact (vars2l_repr vds2 sup2 T selB rs).
    - cbn [supplied_members]. apply flatten_mono_ok with (f := g2); [lia|exact Hfl].
    - cbn [supplied_members]. fold (vars2l_of vds2 sup2 T selB rs). fold v2.
      apply Forall2_map_r. apply Forall_forall. intros r Hr.
      destruct (Hmono r Hr) as (Hm & Hf & Hn'). rewrite Forall_forall in Hgood.
      destruct (Hgood r Hr) as (e & Hf' & HT & Hre & Hrq & Hn & H2).
      assert (He : ent_of r = e) by (unfold ent_of; rewrite Hf'; reflexivity). rewrite He in *.
      split; [exact Hf'|]. split; [exact HT|]. split.
      + rewrite Hre. apply reqs_covered_agree. exact Hrq.
      + rewrite Hm. exact Hn.
    - lia.
  Qed.
End FetchNoof.

Section ListHopTn.
  Variable U : universe.
  Variables (sc : schema) (frags : list fragment) (vars : list (bytes * json)).
  Variables (sc1 : schema) (frags1 : list fragment) (vars1 : list (bytes * json)).
  Variables (sc2 : schema) (frags2 : list fragment) (vds2 : list vardef) (sup2 : list (bytes * json)).
  Variable root2 : entity.
  Variables (P : name) (eP : entity) (af : option name) (f : name) (args : list argument) (dirs : list directive).
  Variable path : list pel.
  Variables (nnl nni : bool) (n : name) (td : type_def) (fd : field_def).
  Variable items : list fval.
  Variables (T : name) (ks : list name) (selA selB : list selection) (flA flB flB2 : list selection).
  Variables (g0 g2 : nat).

  Notation ovP := {| ov_ent := eP; ov_repr := None |}.
  Notation kf := (response_name af f).
  Notation p' := (path ++ [PN (response_name af f)]).
  Notation fld X := (SField af f args dirs X).
  Notation cargs := (hop_cargs sc vars args fd).

  Hypothesis Hname : bytes_eqb f s_typename = false.
  Hypothesis Htd : find_type P (s_types sc) = Some td.
  Hypothesis Hfd : find_field f (td_fields td) = Some fd.
  Hypothesis Hty : fd_type fd = list_ty nnl nni n.
  Hypothesis Hcomp : is_leaf_kind sc n = Some false.
  Hypothesis Hfv : hop_fv ovP f = FLst items.
  Hypothesis Hfr1 : frags_noent frags1 = true.
  Hypothesis Hs1 : sels_noent [fld (selA ++ key_sels ks)] = true.
  Hypothesis H1 : forall fuel,
      exec_sels sc1 U frags1 vars1 Mono fuel P ovP [fld (selA ++ key_sels ks)] path =
      exec_sels sc U frags vars Mono fuel P ovP [fld (selA ++ key_sels ks)] path.
  Hypothesis Hk2 : kind_of sc2 T <> None.
  Hypothesis Hfr2 : frags_noent frags2 = true.
  Hypothesis HsB : sels_noent selB = true.
  Hypothesis Hroot2 : find_entity U (s_query sc2) [] = Some root2.
  Hypothesis HflA : flatten sc frags vars g0 T selA = FlatOk flA.
  Hypothesis HflB : flatten sc frags vars g0 T selB = FlatOk flB.
  Hypothesis Hdisj : keys_disjoint flA flB = true.
  Hypothesis Hunal : keys_unaliased ks flA = true.
  Hypothesis HflB2 : forall rs, flatten sc2 frags2 (vars2l_of vds2 sup2 T selB rs) g2 T selB = FlatOk flB2.
  Hypothesis Hent : forall it e,
      In it items -> obj_target U cargs it = Some (Some e) -> obj_type_ok sc n e = true ->
      en_type e = T /\ find_by_repr U (repr_of e ks) = Some e /\ forallb (key_field_ok sc e) ks = true /\
      reqs_covered e flB2 ks = true /\
      (forall rs fuel,
          exec_sels sc2 U frags2 (vars2l_of vds2 sup2 T selB rs) Mono fuel T {| ov_ent := e; ov_repr := None |} selB [] =
          exec_sels sc U frags vars Mono fuel T {| ov_ent := e; ov_repr := None |} selB []).

  (* the batch request of the model, for the list the root subgraph returned, does not run out of fuel *)
  Lemma list_resp_noof fM f1 f2 k xs errs1 :
    no_oof (snd (mono_hop U sc frags vars P eP af f args dirs path selA selB fM)) = true ->
    (list_hop_fuel_bound ks g0 fM <= f1)%nat -> (list_hop_fuel_bound ks g0 fM + g2 <= f2)%nat ->
    exec_sels sc1 U frags1 vars1 Sub f1 P ovP [fld (selA ++ key_sels ks)] path = (Some [(k, JArr xs)], errs1) ->
    no_oof (rs_errs (resp2l U sc2 frags2 vds2 sup2 T ks selB xs f2)) = true.
  Proof.
    intros Hn Hf1 Hf2 HR. unfold list_hop_fuel_bound in *.
    destruct (list_hop_arith fM g0 g2 (length ks) f1 f2 nnl nni Hf1 Hf2)
      as (HC1 & HCM & Hc1 & Hc2 & Hc3 & Hc4 & Hc5 & Hc6 & Hc9).
    set (C := (fM + g0 + g0 + length ks + 6)%nat) in *. clearbody C.
    unfold mono_hop in *.
    assert (HM : exec_sels sc U frags vars Mono (list_hop_fuel nnl nni C) P ovP [fld (selA ++ selB)] path =
                 exec_sels sc U frags vars Mono fM P ovP [fld (selA ++ selB)] path)
      by (apply exec_sels_fuel_mono; assumption).
    rewrite <- HM in Hn. clear HM.
    pose proof (list_hop_exec sc U frags vars P ovP af f args dirs path nnl nni n td fd items Hname Htd Hfd Hty Hcomp Hfv C) as Hex.
    unfold hop_path, hop_key in Hex.
    rewrite (Hex (selA ++ selB)) in Hn.
    assert (Htr : no_oof (snd (exec_sels sc U frags vars Mono (list_hop_fuel nnl nni C) P ovP [fld (selA ++ key_sels ks)] path)) = true ->
                  exec_sels sc1 U frags1 vars1 Sub f1 P ovP [fld (selA ++ key_sels ks)] path =
                  exec_sels sc U frags vars Mono (list_hop_fuel nnl nni C) P ovP [fld (selA ++ key_sels ks)] path).
    { intros Hn1. rewrite (exec_sels_sub_mono sc1 U frags1 vars1 f1 P eP _ path Hfr1 Hs1).
      rewrite H1. apply exec_sels_fuel_mono; assumption. }
    rewrite (Hex (selA ++ key_sels ks)) in Htr.
    destruct (included vars dirs).
    2:{ rewrite (Htr eq_refl) in HR. discriminate. }
    assert (HfA : flatten sc frags vars C T selA = FlatOk flA) by (apply flatten_mono_ok with (f := g0); [exact Hc1|exact HflA]).
    assert (HfB : flatten sc frags vars C T selB = FlatOk flB) by (apply flatten_mono_ok with (f := g0); [exact Hc1|exact HflB]).
    assert (HfK : flatten sc frags vars C T (key_sels ks) = FlatOk (key_sels ks)) by (apply flatten_key_sels; exact Hc3).
    assert (HfAB : flatten sc frags vars C T (selA ++ selB) = FlatOk (flA ++ flB)).
    { apply flatten_mono_ok with (f := (g0 + g0)%nat); [exact Hc2|]. apply flatten_app; assumption. }
    assert (HfAK : flatten sc frags vars C T (selA ++ key_sels ks) = FlatOk (flA ++ key_sels ks)).
    { apply flatten_mono_ok with (f := (g0 + (length ks + 2))%nat); [exact Hc4|]. apply flatten_app; [exact HflA|].
      apply flatten_key_sels. exact Hc9. }
    assert (Hoks : forall it, In it items -> item_ents_ok U sc n cargs T ks it).
    { intros it Hin e He Hok. destruct (Hent it e Hin He Hok) as (Ha & Hb & Hc & _). repeat split; assumption. }
    pose proof (list_rel U sc frags vars nni n cargs T ks selA selB flA flB C HfA HfB HfK HfAB HfAK Hdisj Hunal Hc5
                         items p' Hoks 0) as HRl.
    unfold list_rel_stmt in HRl. cbv zeta in HRl.
    destruct (lst_loop (item_c U sc frags vars nni n cargs C (selA ++ key_sels ks)) p' 0 items) as [[out1 e1] viol1] eqn:EL1.
    destruct (lst_loop (item_c U sc frags vars nni n cargs C (selA ++ selB)) p' 0 items) as [[outM errsM] violM] eqn:ELM.
    cbn [fst snd] in HRl. destruct HRl as (I1 & I2 & I3 & I4 & I5 & I6).
    assert (HnM : no_oof errsM = true).
    { apply field_result_noof_gen in Hn. rewrite list_finish_errs in Hn. exact Hn. }
    destruct (I6 HnM) as [Hn1 Hnr].
    rewrite Htr in HR; [|apply field_result_noof_gen; rewrite list_finish_errs; exact Hn1].
    unfold list_finish in HR.
    destruct viol1.
    - (* the list is null after step 1: the root answer is not an array *)
      exfalso. unfold field_result, nonnull_wrap, cnull in HR. destruct nnl; cbn in HR; discriminate.
    - assert (HR1 : field_result nnl kf p' {| c_json := JArr out1; c_errs := e1; c_viol := false |} =
                    (Some [(kf, JArr out1)], e1)).
      { unfold field_result, nonnull_wrap. destruct nnl; reflexivity. }
      rewrite HR1 in HR. injection HR as _ <- _.
      unfold resp2l. set (rs := dedup (collect_reprs ks out1)).
      apply (fetch_list_noof U sc frags vars sc2 frags2 vds2 sup2 root2 T ks selB flB2 C g2 Hk2 Hfr2 HsB Hroot2 rs f2 (HflB2 rs)); [|exact Hc6].
      apply Forall_forall. intros r Hr. unfold rs in Hr. apply (proj1 (dedup_in _ _)) in Hr.
      destruct (I5 r Hr) as (it & Hin & e & He & Hok & ->).
      destruct (Hent it e Hin He Hok) as (HT & Hfind & Hkeys & Hrq & H2).
      exists e. split; [exact Hfind|]. split; [exact HT|]. split; [reflexivity|]. split; [exact Hrq|]. split.
      + specialize (Hnr _ Hr). unfold errs_sem in Hnr. rewrite Hfind in Hnr. exact Hnr.
      + intros fuel. apply H2.
  Qed.
End ListHopTn.

(* ---- with the schema-agreement hypotheses replaced by the booleans of ProofsCtx, and the theorem ---- *)
Section ListHopTnWf.
  Variable U : universe.
  Variables (sc : schema) (frags : list fragment) (vars : list (bytes * json)).
  Variables (sc1 sc2 : schema) (vds2 : list vardef) (sup2 : list (bytes * json)).
  Variable root2 : entity.
  Variables (P : name) (eP : entity) (af : option name) (f : name) (args : list argument) (dirs : list directive).
  Variable path : list pel.
  Variables (nnl nni : bool) (n : name) (td : type_def) (fd : field_def).
  Variable items : list fval.
  Variables (T : name) (ks : list name) (selA selB : list selection) (flA flB : list selection).
  Variables (g0 k1 k2 : nat).

  Notation ovP := {| ov_ent := eP; ov_repr := None |}.
  Notation fld X := (SField af f args dirs X).

  Hypothesis Hname : bytes_eqb f s_typename = false.
  Hypothesis Htd : find_type P (s_types sc) = Some td.
  Hypothesis Hfd : find_field f (td_fields td) = Some fd.
  Hypothesis Hty : fd_type fd = list_ty nnl nni n.
  Hypothesis Hcomp : is_leaf_kind sc n = Some false.
  Hypothesis Hfv : hop_fv ovP f = FLst items.
  Hypothesis Hfr : frags_noent frags = true.
  Hypothesis Hs1 : sels_noent [fld (selA ++ key_sels ks)] = true.
  Hypothesis HsB : sels_noent selB = true.
  Hypothesis Hwf1 : config_wf_b sc sc1 = true.
  Hypothesis Hu1 : univ_ok_b sc1 U = true.
  Hypothesis Hreq1 : req_ok_b sc1 frags vars (fun _ => true) k1 P [fld (selA ++ key_sels ks)] = true.
  Hypothesis HeP : In eP U.
  Hypothesis HeT : en_type eP = P.
  Hypothesis Hwf2 : config_wf_b sc sc2 = true.
  Hypothesis Hu2 : univ_ok_b sc2 U = true.
  Hypothesis Hreq2 : req_ok_b sc2 frags vars not_repr k2 T selB = true.
  Hypothesis Hv2 : forall rs m, not_repr m = true -> assoc m (vars2l_of vds2 sup2 T selB rs) = assoc m vars.
  Hypothesis Hroot2 : find_entity U (s_query sc2) [] = Some root2.
  Hypothesis HflA : flatten sc frags vars g0 T selA = FlatOk flA.
  Hypothesis HflB : flatten sc frags vars g0 T selB = FlatOk flB.
  Hypothesis Hdisj : keys_disjoint flA flB = true.
  Hypothesis Hunal : keys_unaliased ks flA = true.
  Hypothesis Hent : forall it e,
      In it items -> obj_target U (hop_cargs sc vars args fd) it = Some (Some e) -> obj_type_ok sc n e = true ->
      en_type e = T /\ find_by_repr U (repr_of e ks) = Some e /\
      forallb (key_field_ok sc e) ks = true /\ reqs_covered e flB ks = true.
  Hypothesis Hnk : sels_top_nokey s_typename selB = true.

  Definition two_step_list_h (f1 f2 : nat) : sres :=
    step2h_list U sc2 frags vds2 sup2 af f nnl nni T ks selB flA
                (exec_sels sc1 U frags vars Sub f1 P ovP [fld (selA ++ key_sels ks)] path) f2.

  Theorem federated_two_step_list_tn_wf_main fM f1 f2 :
    no_oof (snd (mono_hop U sc frags vars P eP af f args dirs path selA selB fM)) = true ->
    (list_hop_fuel_bound ks g0 fM <= f1)%nat -> (list_hop_fuel_bound ks g0 fM + g0 <= f2)%nat ->
    fst (two_step_list_h f1 f2) = fst (mono_hop U sc frags vars P eP af f args dirs path selA selB fM) /\
    (snd (two_step_list_h f1 f2) = [] <-> snd (mono_hop U sc frags vars P eP af f args dirs path selA selB fM) = []).
  Proof.
    intros Hn Hf1 Hf2.
    pose proof (federated_two_step_list_wf_main U sc frags vars sc1 sc2 vds2 sup2 root2 P eP af f args dirs path nnl nni n td fd
                  items T ks selA selB flA flB g0 k1 k2 Hname Htd Hfd Hty Hcomp Hfv Hfr Hs1 HsB Hwf1 Hu1 Hreq1 HeP HeT Hwf2 Hu2
                  Hreq2 Hv2 Hroot2 HflA HflB Hdisj Hunal Hent fM f1 f2 Hn Hf1 Hf2) as Hmain.
    unfold two_step_list_h. unfold two_step_list in Hmain.
    rewrite step2h_list_eq; [exact Hmain|exact Hnk|].
    intros k xs errs1 HR.
    pose proof Hreq2 as Hr2. unfold req_ok_b in Hr2.
    apply andb_true_iff in Hr2. destruct Hr2 as [Hr2 _]. apply andb_true_iff in Hr2. destruct Hr2 as [Hr2 HdT].
    apply andb_true_iff in Hr2. destruct Hr2 as [Hfs2 HsynB].
    apply (list_resp_noof U sc frags vars sc1 frags vars sc2 frags vds2 sup2 root2 P eP af f args dirs path
             nnl nni n td fd items T ks selA selB flA flB flB g0 g0 Hname Htd Hfd Hty Hcomp Hfv Hfr Hs1) with (fM := fM) (f1 := f1) (k := k) (errs1 := errs1);
      try assumption.
    - intros fuel. apply (req_ok_sound_same_vars sc sc1 U frags vars k1 P eP None _ path Hwf1 Hu1 Hreq1 HeP HeT).
    - unfold declared_obj in HdT. unfold kind_of. destruct (builtin_scalar T); [discriminate|].
      destruct (find_type T (s_types sc2)); discriminate.
    - intros rs.
      rewrite (flatten_agree sc sc2 frags vars (vars2l_of vds2 sup2 T selB rs) not_repr
                             (wf_kind_of_decl sc sc2 Hwf2) (wf_type_applies sc sc2 Hwf2) (Hv2 rs) Hfs2 g0 T selB HdT HsynB).
      exact HflB.
    - intros it e Hin He Hok. destruct (Hent it e Hin He Hok) as (HT & Hfind & Hkeys & Hreq).
      split; [exact HT|]. split; [exact Hfind|]. split; [exact Hkeys|]. split; [exact Hreq|].
      intros rs fuel.
      apply (req_ok_sound sc sc2 U frags vars (vars2l_of vds2 sup2 T selB rs) not_repr k2 T e None selB [] Hwf2 Hu2 (Hv2 rs) Hreq2);
        [apply (obj_target_In _ _ _ _ He)|exact HT].
  Qed.
End ListHopTnWf.
