(* C01 / (5) translation validation, part 5: every field of a plan the validator accepts is linked
   ([wlink]): what its entity fetch makes of the root answer has the data of the monolithic answer
   for the field, and errors iff -- for every universe of the contract. *)
From Coq Require Import PeanoNat Lia.
From Gv Require Import lib.Bytes lib.Json lib.Gql lib.Exec
     C01.ProofsBase C01.ProofsFuel C01.ProofsSplit C01.ProofsSim C01.ProofsJoin C01.ProofsOverlap
     C01.ProofsTwoStep C01.ProofsViol C01.ProofsCtxBase C01.ProofsCtx C01.ProofsTwoStepWf C01.ProofsPlanAlg
     C01.ProofsPlan C01.ProofsPlanOk C01.ProofsDedup C01.ProofsListHop C01.ProofsListHopWf C01.ProofsListHopTn
     C01.ProofsTvStatic C01.ProofsTvDefs C01.ProofsTvHidden C01.ProofsPlanGen C01.ProofsPlan2.
Open Scope N_scope.

Lemma sel_tagged_none ts : forallb (fun x : bool * selection => negb (fst x)) ts = true -> sel_tagged ts = [].
Proof.
  induction ts as [|[b s] r IH]; [reflexivity|]. cbn [forallb fst]. intros H. apply andb_true_iff in H. destruct H as [H1 H2].
  unfold sel_tagged. cbn [filter fst]. destruct b; [discriminate|]. apply IH. exact H2.
Qed.

Lemma plan2_ks_le ds d si T ks : In d ds -> d2_fetch d = Some (si, T, ks) -> (length ks <= plan2_ks ds)%nat.
Proof.
  induction ds as [|x r IH]; intros Hin Hf; [destruct Hin|]. cbn [plan2_ks fold_right]. destruct Hin as [->|Hin].
  - rewrite Hf. lia.
  - specialize (IH Hin Hf). unfold plan2_ks in IH. lia.
Qed.

Section Link2.
  Variable U : universe.
  Variables (sc : schema) (subs : list schema) (frags : list fragment) (vdsM : list vardef) (supM : list (bytes * json)).
  Variable eQ : entity.
  Variables (g0 kq f1 f2 fM : nat).
  Variable decls : list (name * list name).
  Variable rdecls : list rdecl.
  Variable tn : bool.

  Notation vars := (pvars vdsM supM).
  Notation Q := (s_query sc).
  Notation flat_of' := (flat_of sc frags vdsM supM g0).
  Notation sub_at' := (sub_at sc subs).
  Notation a_of' := (a_of2 U sc subs frags vdsM supM eQ f1).
  Notation m_of' := (m_of2 U sc frags vdsM supM eQ fM).
  Notation tr' := (tr2 U sc subs frags vdsM supM g0 f2 tn).

  Hypothesis HeQ : find_entity U Q [] = Some eQ.

  Lemma sub_at_wf i : forallb (config_wf_b sc) subs = true -> (i < length subs)%nat -> config_wf_b sc (sub_at' i) = true.
  Proof. intros H Hi. rewrite forallb_forall in H. apply H. unfold sub_at. apply nth_In. exact Hi. Qed.
  Lemma sub_at_univ i : univ_contract_b sc decls rdecls subs U = true -> (i < length subs)%nat -> univ_ok_b (sub_at' i) U = true.
  Proof. intros H Hi. apply (univ_contract_sub sc decls rdecls subs U _ H). unfold sub_at. apply nth_In. exact Hi. Qed.

  (* (U5): a list-typed field of the root object holds a list *)
  Lemma root_list_value td fd nnl nni T f :
    root_lists_b sc U = true -> find_type Q (s_types sc) = Some td -> find_field f (td_fields td) = Some fd ->
    fd_type fd = list_ty nnl nni T -> exists items, hop_fv {| ov_ent := eQ; ov_repr := None |} f = FLst items.
  Proof.
    intros H Htd Hfd Hty. unfold root_lists_b in H. rewrite HeQ, Htd in H. rewrite forallb_forall in H.
    destruct (find_field_In _ _ _ Hfd) as [Hin Hn]. specialize (H fd Hin). rewrite Hty, Hn in H.
    assert (Hl : is_list_ty (list_ty nnl nni T) = true) by (unfold list_ty; destruct nnl, nni; reflexivity).
    rewrite Hl in H. cbn [negb orb] in H. unfold hop_fv.
    destruct (field_fval {| ov_ent := eQ; ov_repr := None |} f) as [j|t0 k| |l| | |t0 a|fs]; try discriminate.
    exists l. reflexivity.
  Qed.

  Lemma link2_of ds d :
    plan2_static_b sc subs frags vdsM supM g0 kq decls rdecls tn ds = true ->
    univ2_contract_b sc subs decls rdecls U = true ->
    In d ds -> (plan2_fuel g0 fM ds <= f1)%nat -> (plan2_fuel g0 fM ds + g0 <= f2)%nat ->
    wlink dfield2 a_of' m_of' tr' d.
  Proof.
    intros Hok Hc Hin Hf1 Hf2 Hn. unfold plan2_static_b in Hok.
    unfold univ2_contract_b in Hc. apply andb_true_iff in Hc. destruct Hc as [Hc Hrl].
    repeat (apply andb_true_iff in Hok; destruct Hok as [Hok ?]).
    match goal with H : forallb (field2_static_b _ _ _ _ _ _ _ _ _ _) ds = true |- _ => rename H into HF end.
    match goal with H : forallb (fun vd => not_repr (vd_name vd)) vdsM = true |- _ => rename H into Hnr end.
    match goal with H : forallb (config_wf_b sc) subs = true |- _ => rename H into Hwfs end.
    rename Hok into Hfr.
    assert (Hkc : key_consistent decls U = true).
    { pose proof Hc as Hc'. unfold univ_contract_b in Hc'. apply andb_true_iff in Hc'. destruct Hc' as [Hc' _].
      apply andb_true_iff in Hc'. apply Hc'. }
    assert (Hecs : forall e, In e U -> ent_contract_b sc decls rdecls e = true).
    { intros e He. pose proof Hc as Hc'. unfold univ_contract_b in Hc'. apply andb_true_iff in Hc'. destruct Hc' as [_ Hc'].
      rewrite forallb_forall in Hc'. apply Hc'. exact He. }
    rewrite forallb_forall in HF. specialize (HF d Hin). unfold field2_static_b in HF.
    apply andb_true_iff in HF. destruct HF as [HF Hfetch].
    apply andb_true_iff in HF. destruct HF as [HF Hreq1].
    apply andb_true_iff in HF. destruct HF as [HF Hr0]. apply Nat.ltb_lt in Hr0.
    apply andb_true_iff in HF. destruct HF as [Hname Hs1]. apply negb_true_iff in Hname.
    destruct (find_entity_In _ _ _ _ HeQ) as [HeU HeT].
    pose proof (sub_at_wf _ Hwfs Hr0) as Hwf0. pose proof (sub_at_univ _ Hc Hr0) as Hu0.
    unfold wlink, a_of2, m_of2, tr2 in *.
    destruct (d2_fetch d) as [[[si T] ks]|] eqn:Efd.
    - (* a field with an entity fetch *)
      unfold fetch2_static_b in Hfetch. cbv zeta in Hfetch.
      repeat (apply andb_true_iff in Hfetch; destruct Hfetch as [Hfetch ?]).
      apply Nat.ltb_lt in Hfetch.
      destruct (find_type Q (s_types sc)) as [td|] eqn:Etd; [|discriminate].
      destruct (find_field (d2_name d) (td_fields td)) as [fd|] eqn:Efd'; [|discriminate].
      match goal with H : ty_eqb _ _ = true |- _ => apply ty_eqb_eq in H; rename H into Hty end.
      destruct (is_leaf_kind sc T) as [[|]|] eqn:Elk; try discriminate.
      match goal with H : (negb tn || _) = true |- _ => rename H into Htn end.
      match goal with H : reqs_static_b _ _ _ _ = true |- _ => rename H into Hrq end.
      match goal with H : key_covered decls _ _ = true |- _ => rename H into Hkd end.
      match goal with H : repr_fields_ok decls rdecls _ _ = true |- _ => rename H into Hrf end.
      match goal with H : keys_unaliased _ _ = true |- _ => rename H into Hunal end.
      match goal with H : keys_disjoint _ _ = true |- _ => rename H into Hdisj end.
      match goal with H : flat_okb _ _ _ _ _ _ (d2_selB d) = true |- _ => rename H into HokB end.
      match goal with H : flat_okb _ _ _ _ _ _ (d2_selA d) = true |- _ => rename H into HokA end.
      match goal with H : req_ok_b (sub_at' si) _ _ _ _ _ _ = true |- _ => rename H into Hreq2 end.
      match goal with H : sels_noent (d2_selB d) = true |- _ => rename H into HsB end.
      match goal with H : negb (bytes_eqb T s_Entity) = true |- _ => rename H into HnE end.
      match goal with H : declared_obj sc T = true |- _ => rename H into HdT end.
      apply negb_true_iff in HnE.
      pose proof (sub_at_wf _ Hwfs Hfetch) as Hwf2. pose proof (sub_at_univ _ Hc Hfetch) as Hu2.
      assert (Hroot2 : find_entity U (s_query (sub_at' si)) [] = Some eQ).
      { pose proof Hwf2 as Hq. unfold config_wf_b in Hq. repeat (apply andb_true_iff in Hq; destruct Hq as [Hq ?]).
        apply bytes_eqb_eq in Hq. rewrite Hq. exact HeQ. }
      assert (HflA : flatten sc frags vars g0 T (d2_selA d) = FlatOk (flat_of' T (d2_selA d))).
      { unfold flat_okb in HokA. unfold flat_of. destruct (flatten sc frags vars g0 T (d2_selA d)); [reflexivity|discriminate]. }
      assert (HflB : flatten sc frags vars g0 T (d2_selB d) = FlatOk (flat_of' T (d2_selB d))).
      { unfold flat_okb in HokB. unfold flat_of. destruct (flatten sc frags vars g0 T (d2_selB d)); [reflexivity|discriminate]. }
      pose proof (plan2_ks_le ds d si T ks Hin Efd) as Hks.
      assert (Hb1 : (two_step_fuel ks g0 fM <= f1)%nat)
        by (clear -Hks Hf1; unfold two_step_fuel, plan2_fuel in *; lia).
      assert (Hb2 : (two_step_fuel ks g0 fM + g0 <= f2)%nat)
        by (clear -Hks Hf2; unfold two_step_fuel, plan2_fuel in *; lia).
      unfold root_sel2 in Hs1, Hreq1 |- *. unfold ab_sel2 in Hn |- *. rewrite Efd in Hs1, Hreq1 |- *.
      assert (Hents : forall e, In e U -> en_type e = T ->
                                find_by_repr U (repr_of e ks) = Some e /\ forallb (key_field_ok sc e) ks = true /\
                                reqs_covered e (flat_of' T (d2_selB d)) ks = true).
      { intros e HinU HTe. split; [|split].
        - apply (key_covered_find decls); [exact Hkc|exact HinU|]. rewrite HTe. exact Hkd.
        - apply (repr_fields_contract sc decls rdecls T ks e Hrf (Hecs e HinU) HTe).
        - apply (reqs_static_covered sc decls rdecls T _ ks e Hrq (Hecs e HinU) HTe). }
      destruct (d2_shape d) as [nn|nnl nni] eqn:Esh; cbn [shape_ty] in Hty.
      2:{ (* a list of entities *)
        destruct (root_list_value td fd nnl nni T (d2_name d) Hrl Etd Efd' Hty) as (items & Hfv).
        assert (Hbl1 : (list_hop_fuel_bound ks g0 fM <= f1)%nat)
          by (clear -Hks Hf1; unfold list_hop_fuel_bound, plan2_fuel in *; lia).
        assert (Hbl2 : (list_hop_fuel_bound ks g0 fM + g0 <= f2)%nat)
          by (clear -Hks Hf2; unfold list_hop_fuel_bound, plan2_fuel in *; lia).
        assert (HentL : forall it e, In it items ->
                    obj_target U (hop_cargs sc vars (d2_args d) fd) it = Some (Some e) -> obj_type_ok sc T e = true ->
                    en_type e = T /\ find_by_repr U (repr_of e ks) = Some e /\
                    forallb (key_field_ok sc e) ks = true /\ reqs_covered e (flat_of' T (d2_selB d)) ks = true).
        { intros it e _ He Hok'.
          assert (HTe : en_type e = T) by (apply (obj_type_ok_object sc); assumption).
          assert (HinU : In e U) by (apply (obj_target_In _ _ _ _ He)).
          split; [exact HTe|]. apply Hents; assumption. }
        destruct tn.
        - cbn [negb orb] in Htn.
          exact (federated_two_step_list_tn_wf_main U sc frags vars (sub_at' (d2_root d)) (sub_at' si) vdsM supM eQ Q eQ
                   (d2_alias d) (d2_name d) (d2_args d) [] [] nnl nni T td fd items T ks
                   (d2_selA d) (d2_selB d) (flat_of' T (d2_selA d)) (flat_of' T (d2_selB d)) g0 kq kq
                   Hname Etd Efd' Hty Elk Hfv Hfr Hs1 HsB Hwf0 Hu0 Hreq1 HeU HeT Hwf2 Hu2 Hreq2
                   (vars2l_agree_client vdsM supM T (d2_selB d) [] Hnr) Hroot2 HflA HflB Hdisj Hunal HentL Htn fM f1 f2 Hn Hbl1 Hbl2).
        - exact (federated_two_step_list_wf_main U sc frags vars (sub_at' (d2_root d)) (sub_at' si) vdsM supM eQ Q eQ
                   (d2_alias d) (d2_name d) (d2_args d) [] [] nnl nni T td fd items T ks
                   (d2_selA d) (d2_selB d) (flat_of' T (d2_selA d)) (flat_of' T (d2_selB d)) g0 kq kq
                   Hname Etd Efd' Hty Elk Hfv Hfr Hs1 HsB Hwf0 Hu0 Hreq1 HeU HeT Hwf2 Hu2 Hreq2
                   (vars2l_agree_client vdsM supM T (d2_selB d) [] Hnr) Hroot2 HflA HflB Hdisj Hunal HentL fM f1 f2 Hn Hbl1 Hbl2). }
      assert (Hmain :
                step2 U (sub_at' si) frags vdsM supM (Some (d2_key d)) (d2_key d) [] nn T ks (d2_selB d) (flat_of' T (d2_selA d))
                      (exec_sels (sub_at' (d2_root d)) U frags vars Sub f1 Q {| ov_ent := eQ; ov_repr := None |}
                                 [SField (d2_alias d) (d2_name d) (d2_args d) [] (d2_selA d ++ key_sels ks)] []) f2 =
                exec_sels sc U frags vars Mono fM Q {| ov_ent := eQ; ov_repr := None |}
                          [SField (d2_alias d) (d2_name d) (d2_args d) [] (d2_selA d ++ d2_selB d)] []).
      { apply (federated_two_step_wf_main U sc frags vars (sub_at' (d2_root d)) (sub_at' si) vdsM supM eQ Q eQ
                 (d2_alias d) (d2_name d) (d2_args d) [] [] nn T td fd T ks
                 (d2_selA d) (d2_selB d) (flat_of' T (d2_selA d)) (flat_of' T (d2_selB d)) g0 kq kq);
          try assumption.
        + apply (vars2_agree_client vdsM supM T (d2_selB d) [] Hnr).
        + intros e He Hok'.
          assert (HTe : en_type e = T) by (apply (obj_type_ok_object sc); assumption).
          assert (HinU : In e U) by (apply (obj_target_In _ _ _ _ He)).
          split; [exact HTe|]. apply Hents; assumption. }
      destruct tn.
      + (* the real request: with the planner's __typename *)
        cbn [negb orb] in Htn.
        rewrite step2h_eq; [rewrite Hmain; apply sres_weq_refl|exact Htn|].
        intros k l1 errs1 HR1. apply (step2_resp_noof U (sub_at' si) frags vdsM supM (Some (d2_key d)) (d2_key d) [] nn T ks
                                        (d2_selB d) (flat_of' T (d2_selA d)) k l1 errs1 f2).
        * clear -Hb2. unfold two_step_fuel in Hb2. lia.
        * rewrite <- HR1. rewrite Hmain. exact Hn.
      + rewrite Hmain. apply sres_weq_refl.
    - (* a field resolved entirely by its root subgraph *)
      unfold root_sel2, ab_sel2 in *. rewrite Efd in *.
      unfold d2_selB in *. rewrite (sel_tagged_none _ Hfetch) in *. rewrite !app_nil_r in *.
      rewrite (exec_sels_sub_mono (sub_at' (d2_root d)) U frags vars f1 Q eQ _ [] Hfr Hs1).
      rewrite (req_ok_sound_same_vars sc (sub_at' (d2_root d)) U frags vars kq Q eQ None _ [] Hwf0 Hu0 Hreq1 HeU HeT f1).
      rewrite (exec_sels_fuel_mono sc U frags vars Mono fM f1); [apply sres_weq_refl| |exact Hn].
      clear -Hf1. unfold plan2_fuel in *. lia.
  Qed.
End Link2.
