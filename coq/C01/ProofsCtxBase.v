(* C01 / context agreement, part 1: decidable equalities on types and values, the composition
   contract [config_wf_b sc sc'] (subgraph schema sc' vs supergraph sc), the universe contract
   [univ_ok_b sc' U], and the agreement facts they yield. *)
From Coq Require Import PeanoNat Lia.
From Gv Require Import lib.Bytes lib.Json lib.Gql lib.Exec C01.ProofsBase.
Open Scope N_scope.

(* ---- nested induction on values ---- *)
Section ValueInd.
  Variable P : value -> Prop.
  Hypothesis Hvar : forall n, P (VVar n).
  Hypothesis Hint : forall r, P (VInt r).
  Hypothesis Hfloat : forall r, P (VFloat r).
  Hypothesis Hstr : forall r b, P (VStr r b).
  Hypothesis Hbool : forall b, P (VBool b).
  Hypothesis Hnull : P VNull.
  Hypothesis Henum : forall n, P (VEnum n).
  Hypothesis Hlist : forall l, Forall P l -> P (VList l).
  Hypothesis Hobj : forall fs, Forall (fun kv => P (snd kv)) fs -> P (VObj fs).
  Fixpoint value_ind' (v : value) : P v :=
    match v with
    | VVar n => Hvar n
    | VInt r => Hint r
    | VFloat r => Hfloat r
    | VStr r b => Hstr r b
    | VBool b => Hbool b
    | VNull => Hnull
    | VEnum n => Henum n
    | VList l => Hlist l ((fix go (l : list value) : Forall P l :=
                             match l with [] => Forall_nil _ | x :: r => Forall_cons _ (value_ind' x) (go r) end) l)
    | VObj fs => Hobj fs ((fix go (m : list (name * value)) : Forall (fun kv => P (snd kv)) m :=
                             match m with [] => Forall_nil _ | kv :: r => Forall_cons _ (value_ind' (snd kv)) (go r) end) fs)
    end.
End ValueInd.

(* ---- equalities ---- *)
Fixpoint ty_eqb (a b : ty) : bool :=
  match a, b with
  | TNamed x, TNamed y => bytes_eqb x y
  | TList x, TList y => ty_eqb x y
  | TNonNull x, TNonNull y => ty_eqb x y
  | _, _ => false
  end.
Lemma ty_eqb_eq a b : ty_eqb a b = true -> a = b.
Proof.
  revert b. induction a as [x|x IH|x IH]; intros [y|y|y] H; cbn in H; try discriminate.
  - apply bytes_eqb_eq in H. congruence.
  - f_equal. apply IH. exact H.
  - f_equal. apply IH. exact H.
Qed.

Fixpoint value_eqb (a b : value) {struct a} : bool :=
  match a, b with
  | VVar x, VVar y => bytes_eqb x y
  | VInt x, VInt y => bytes_eqb x y
  | VFloat x, VFloat y => bytes_eqb x y
  | VStr x bx, VStr y bY => bytes_eqb x y && Bool.eqb bx bY
  | VBool x, VBool y => Bool.eqb x y
  | VNull, VNull => true
  | VEnum x, VEnum y => bytes_eqb x y
  | VList x, VList y =>
    (fix go (x y : list value) : bool :=
       match x, y with
       | [], [] => true
       | a :: x', b :: y' => value_eqb a b && go x' y'
       | _, _ => false
       end) x y
  | VObj x, VObj y =>
    (fix go (x y : list (name * value)) : bool :=
       match x, y with
       | [], [] => true
       | (ka, a) :: x', (kb, b) :: y' => bytes_eqb ka kb && value_eqb a b && go x' y'
       | _, _ => false
       end) x y
  | _, _ => false
  end.

Lemma value_eqb_eq : forall a b, value_eqb a b = true -> a = b.
Proof.
  induction a as [n|r|r|r bl|bl| |n|l IH|fs IH] using value_ind'; intros b H; destruct b; cbn [value_eqb] in H; try discriminate.
  - apply bytes_eqb_eq in H. congruence.
  - apply bytes_eqb_eq in H. congruence.
  - apply bytes_eqb_eq in H. congruence.
  - apply andb_true_iff in H. destruct H as [H1 H2]. apply bytes_eqb_eq in H1. apply eqb_prop in H2. congruence.
  - apply eqb_prop in H. congruence.
  - reflexivity.
  - apply bytes_eqb_eq in H. congruence.
  - f_equal. revert items H. induction IH as [|x l Hx HF IHl]; intros [|y l1] H; try discriminate; [reflexivity|].
    apply andb_true_iff in H. destruct H as [H1 H2]. f_equal; [apply Hx; exact H1|apply IHl; exact H2].
  - f_equal. revert fields H. induction IH as [|[k v] m Hx HF IHm]; intros [|[k1 v1] m1] H; try discriminate; [reflexivity|].
    apply andb_true_iff in H. destruct H as [H12 H3]. apply andb_true_iff in H12. destruct H12 as [H1 H2].
    apply bytes_eqb_eq in H1. cbn [snd] in Hx. apply Hx in H2. f_equal; [congruence|apply IHm; exact H3].
Qed.

Definition opt_value_eqb (a b : option value) : bool :=
  match a, b with Some x, Some y => value_eqb x y | None, None => true | _, _ => false end.
Definition opt_bytes_eqb (a b : option bytes) : bool :=
  match a, b with Some x, Some y => bytes_eqb x y | None, None => true | _, _ => false end.

(* what execution reads of an input value definition *)
Definition iv_core (d : inputvalue_def) : name * ty * option value := (iv_name d, iv_type d, iv_default d).
Definition iv_core_eqb (d d2 : inputvalue_def) : bool :=
  bytes_eqb (iv_name d) (iv_name d2) && ty_eqb (iv_type d) (iv_type d2) && opt_value_eqb (iv_default d) (iv_default d2).
Fixpoint ivs_core_eqb (l l2 : list inputvalue_def) : bool :=
  match l, l2 with
  | [], [] => true
  | d :: r, d2 :: r2 => iv_core_eqb d d2 && ivs_core_eqb r r2
  | _, _ => false
  end.
Lemma iv_core_eqb_eq d d2 : iv_core_eqb d d2 = true -> iv_core d = iv_core d2.
Proof.
  unfold iv_core_eqb, iv_core. intros H. apply andb_true_iff in H. destruct H as [H12 H3].
  apply andb_true_iff in H12. destruct H12 as [H1 H2].
  apply bytes_eqb_eq in H1. apply ty_eqb_eq in H2.
  assert (iv_default d = iv_default d2).
  { destruct (iv_default d), (iv_default d2); cbn in H3; try discriminate; [f_equal; apply value_eqb_eq; exact H3|reflexivity]. }
  congruence.
Qed.
Lemma ivs_core_eqb_eq l l2 : ivs_core_eqb l l2 = true -> map iv_core l = map iv_core l2.
Proof.
  revert l2. induction l as [|d r IH]; intros [|d2 r2] H; cbn in H; try discriminate; [reflexivity|].
  apply andb_true_iff in H. destruct H as [H1 H2]. cbn [map]. f_equal; [apply iv_core_eqb_eq; exact H1|apply IH; exact H2].
Qed.

(* ---- variables used by values ---- *)
Fixpoint value_vars_in (A : name -> bool) (v : value) : bool :=
  match v with
  | VVar n => A n
  | VList l => forallb (value_vars_in A) l
  | VObj fs => forallb (fun kv => value_vars_in A (snd kv)) fs
  | _ => true
  end.
Definition value_closed (v : value) : bool := value_vars_in (fun _ => false) v.

Lemma lit_json_agree (A : name -> bool) vars vars' :
  (forall n, A n = true -> assoc n vars' = assoc n vars) ->
  forall v, value_vars_in A v = true -> lit_json vars' v = lit_json vars v.
Proof.
  intros HA. induction v as [n|r|r|r bl|bl| |n|l IH|fs IH] using value_ind'; intros Hv; try reflexivity.
  - cbn in *. apply HA. exact Hv.
  - cbn [lit_json]. f_equal. f_equal. cbn [value_vars_in] in Hv.
    induction IH as [|x l Hx HF IHl]; [reflexivity|].
    cbn [forallb] in Hv. apply andb_true_iff in Hv. destruct Hv as [H1 H2].
    rewrite (Hx H1), (IHl H2). reflexivity.
  - cbn [lit_json]. f_equal. f_equal. cbn [value_vars_in] in Hv.
    induction IH as [|[k x] m Hx HF IHm]; [reflexivity|].
    cbn [forallb snd] in Hv, Hx. apply andb_true_iff in Hv. destruct Hv as [H1 H2].
    rewrite (Hx H1), (IHm H2). reflexivity.
Qed.

Lemma lit_json_closed vars vars' v : value_closed v = true -> lit_json vars' v = lit_json vars v.
Proof. apply (lit_json_agree (fun _ => false)). intros n H. discriminate. Qed.

(* ---- declared types ---- *)
Definition declared (sc : schema) (n : name) : bool :=
  match find_type n (s_types sc) with Some _ => true | None => false end.
Definition is_obj_kind (k : type_kind) : bool := match k with KObject => true | _ => false end.
Definition is_iface_kind (k : type_kind) : bool := match k with KInterface => true | _ => false end.
Definition is_input_kind (k : type_kind) : bool := match k with KInputObject => true | _ => false end.
Definition declared_obj (sc : schema) (n : name) : bool :=
  match find_type n (s_types sc) with Some td => is_obj_kind (td_kind td) | None => false end.
Definition type_ref_ok (sc : schema) (n : name) : bool := builtin_scalar n || declared sc n.
Definition kind_eqb (a b : type_kind) : bool :=
  match a, b with
  | KScalar, KScalar | KObject, KObject | KInterface, KInterface | KUnion, KUnion
  | KEnum, KEnum | KInputObject, KInputObject => true
  | _, _ => false
  end.
Lemma kind_eqb_eq a b : kind_eqb a b = true -> a = b.
Proof. destruct a, b; cbn; intros H; try discriminate; reflexivity. Qed.

Lemma find_type_In n ts td : find_type n ts = Some td -> In td ts /\ td_name td = n.
Proof.
  induction ts as [|t r IH]; cbn; [discriminate|].
  destruct (bytes_eqb n (td_name t)) eqn:E.
  - intros H. injection H as <-. apply bytes_eqb_eq in E. split; [left; reflexivity|congruence].
  - intros H. destruct (IH H) as [H1 H2]. split; [right; exact H1|exact H2].
Qed.
Lemma find_field_In n fs fd : find_field n fs = Some fd -> In fd fs /\ fd_name fd = n.
Proof.
  induction fs as [|t r IH]; cbn; [discriminate|].
  destruct (bytes_eqb n (fd_name t)) eqn:E.
  - intros H. injection H as <-. apply bytes_eqb_eq in E. split; [left; reflexivity|congruence].
  - intros H. destruct (IH H) as [H1 H2]. split; [right; exact H1|exact H2].
Qed.

(* ---- the composition contract ---- *)
Definition ivs_ok (sc' : schema) (l : list inputvalue_def) : bool :=
  forallb (fun d => type_ref_ok sc' (named_of (iv_type d)) &&
                    match iv_default d with Some v => value_closed v | None => true end) l.

Definition field_wf (sc' : schema) (td : type_def) (fd : field_def) : bool :=
  type_ref_ok sc' (named_of (fd_type fd)) && ivs_ok sc' (fd_args fd) &&
  match find_field (fd_name fd) (td_fields td) with
  | Some fd2 => ty_eqb (fd_type fd) (fd_type fd2) && ivs_core_eqb (fd_args fd) (fd_args fd2)
  | None => false
  end.

Definition type_wf (sc sc' : schema) (td' : type_def) : bool :=
  (negb (builtin_scalar (td_name td')) || kind_eqb (td_kind td') KScalar) &&
  match find_type (td_name td') (s_types sc) with
  | None => false
  | Some td =>
    kind_eqb (td_kind td') (td_kind td) &&
    forallb (field_wf sc' td) (td_fields td') &&
    (* implements: agreement on the interfaces sc' declares *)
    forallb (fun tc => negb (is_iface_kind (td_kind tc)) ||
                       Bool.eqb (mem_bytes (td_name tc) (td_implements td')) (mem_bytes (td_name tc) (td_implements td)))
            (s_types sc') &&
    (* union membership: agreement on the object types sc' declares *)
    forallb (fun to => negb (is_obj_kind (td_kind to)) ||
                       Bool.eqb (mem_bytes (td_name to) (td_members td')) (mem_bytes (td_name to) (td_members td)))
            (s_types sc') &&
    ivs_ok sc' (td_input_fields td') && ivs_core_eqb (td_input_fields td') (td_input_fields td)
  end.

Definition config_wf_b (sc sc' : schema) : bool :=
  bytes_eqb (s_query sc') (s_query sc) &&
  opt_bytes_eqb (s_mutation sc') (s_mutation sc) &&
  opt_bytes_eqb (s_subscription sc') (s_subscription sc) &&
  forallb (type_wf sc sc') (s_types sc') &&
  (* built-in scalar names are not input objects in the supergraph *)
  forallb (fun td => negb (builtin_scalar (td_name td)) || negb (is_input_kind (td_kind td))) (s_types sc).

Section Wf.
  Variables sc sc' : schema.
  Hypothesis Hwf : config_wf_b sc sc' = true.

  Lemma wf_types : forallb (type_wf sc sc') (s_types sc') = true.
  Proof.
    pose proof Hwf as H. unfold config_wf_b in H. apply andb_true_iff in H. destruct H as [H _].
    apply andb_true_iff in H. apply H.
  Qed.
  Lemma wf_builtin : forallb (fun td => negb (builtin_scalar (td_name td)) || negb (is_input_kind (td_kind td))) (s_types sc) = true.
  Proof. pose proof Hwf as H. unfold config_wf_b in H. apply andb_true_iff in H. apply H. Qed.

  Lemma wf_type n td' : find_type n (s_types sc') = Some td' -> type_wf sc sc' td' = true /\ td_name td' = n.
  Proof.
    intros H. apply find_type_In in H. destruct H as [H1 H2]. split; [|exact H2].
    pose proof wf_types as HF. rewrite forallb_forall in HF. apply HF. exact H1.
  Qed.

  Lemma wf_find n td' :
    find_type n (s_types sc') = Some td' ->
    exists td, find_type n (s_types sc) = Some td /\ td_kind td' = td_kind td.
  Proof.
    intros H. destruct (wf_type n td' H) as [Hw Hn]. unfold type_wf in Hw.
    apply andb_true_iff in Hw. destruct Hw as [_ Hw]. rewrite Hn in Hw.
    destruct (find_type n (s_types sc)) as [td|]; [|discriminate].
    exists td. split; [reflexivity|].
    repeat (apply andb_true_iff in Hw; destruct Hw as [Hw ?]). apply kind_eqb_eq. exact Hw.
  Qed.

  Lemma wf_kind_of n : type_ref_ok sc' n = true -> kind_of sc' n = kind_of sc n.
  Proof.
    unfold type_ref_ok, kind_of, declared. destruct (builtin_scalar n); [reflexivity|]. cbn [orb].
    destruct (find_type n (s_types sc')) as [td'|] eqn:E; [|discriminate]. intros _.
    destruct (wf_find n td' E) as (td & -> & ->). reflexivity.
  Qed.
  Lemma wf_kind_of_decl n : declared sc' n = true -> kind_of sc' n = kind_of sc n.
  Proof. intros H. apply wf_kind_of. unfold type_ref_ok. rewrite H. apply orb_true_r. Qed.
  Lemma wf_is_leaf_kind n : type_ref_ok sc' n = true -> is_leaf_kind sc' n = is_leaf_kind sc n.
  Proof. intros H. unfold is_leaf_kind. rewrite (wf_kind_of n H). reflexivity. Qed.

  Lemma wf_field objty td' fname fd :
    find_type objty (s_types sc') = Some td' -> find_field fname (td_fields td') = Some fd ->
    type_ref_ok sc' (named_of (fd_type fd)) = true /\ ivs_ok sc' (fd_args fd) = true /\
    exists td fd2, find_type objty (s_types sc) = Some td /\ find_field fname (td_fields td) = Some fd2 /\
                   fd_type fd = fd_type fd2 /\ map iv_core (fd_args fd) = map iv_core (fd_args fd2).
  Proof.
    intros Ht Hf. destruct (wf_type objty td' Ht) as [Hw Hn]. unfold type_wf in Hw.
    apply andb_true_iff in Hw. destruct Hw as [_ Hw]. rewrite Hn in Hw.
    destruct (find_type objty (s_types sc)) as [td|]; [|discriminate].
    repeat (apply andb_true_iff in Hw; destruct Hw as [Hw ?]).
    match goal with H : forallb (field_wf sc' td) _ = true |- _ => rename H into HF end.
    rewrite forallb_forall in HF. destruct (find_field_In _ _ _ Hf) as [Hin Hname].
    specialize (HF fd Hin). unfold field_wf in HF. rewrite Hname in HF.
    apply andb_true_iff in HF. destruct HF as [HF1 HF2]. apply andb_true_iff in HF1. destruct HF1 as [Hr Hi].
    split; [exact Hr|]. split; [exact Hi|].
    destruct (find_field fname (td_fields td)) as [fd2|] eqn:Ef2; [|discriminate].
    apply andb_true_iff in HF2. destruct HF2 as [Hq1 Hq2].
    exists td, fd2. split; [reflexivity|]. split; [exact Ef2|].
    split; [apply ty_eqb_eq; exact Hq1|apply ivs_core_eqb_eq; exact Hq2].
  Qed.

  Lemma wf_input n td' :
    find_type n (s_types sc') = Some td' ->
    exists td, find_type n (s_types sc) = Some td /\ td_kind td' = td_kind td /\
               ivs_ok sc' (td_input_fields td') = true /\
               map iv_core (td_input_fields td') = map iv_core (td_input_fields td).
  Proof.
    intros H. destruct (wf_type n td' H) as [Hw Hn]. unfold type_wf in Hw.
    apply andb_true_iff in Hw. destruct Hw as [_ Hw]. rewrite Hn in Hw.
    destruct (find_type n (s_types sc)) as [td|]; [|discriminate].
    repeat (apply andb_true_iff in Hw; destruct Hw as [Hw ?]).
    exists td. split; [reflexivity|]. split; [apply kind_eqb_eq; exact Hw|].
    split; [assumption|apply ivs_core_eqb_eq; assumption].
  Qed.

  Lemma wf_type_applies o c :
    declared_obj sc' o = true -> declared sc' c = true -> type_applies sc' o c = type_applies sc o c.
  Proof.
    unfold declared_obj, declared, type_applies. intros Ho Hc. f_equal.
    destruct (find_type c (s_types sc')) as [tc'|] eqn:Ec; [|discriminate].
    destruct (find_type o (s_types sc')) as [to'|] eqn:Eo; [|discriminate].
    destruct (wf_find c tc' Ec) as (tc & Hfc & Hkc). rewrite Hfc, <- Hkc.
    destruct (wf_type o to' Eo) as [Hwo Hno]. destruct (wf_type c tc' Ec) as [Hwc Hnc].
    destruct (find_type_In _ _ _ Ec) as [Hinc _]. destruct (find_type_In _ _ _ Eo) as [Hino _].
    destruct (td_kind tc') eqn:Ek; try reflexivity.
    - (* interface *)
      unfold type_wf in Hwo. apply andb_true_iff in Hwo. destruct Hwo as [_ Hwo]. rewrite Hno in Hwo.
      destruct (find_type o (s_types sc)) as [to|]; [|discriminate].
      repeat (apply andb_true_iff in Hwo; destruct Hwo as [Hwo ?]).
      match goal with H : forallb (fun tc => negb (is_iface_kind _) || _) _ = true |- _ => rename H into HF end.
      rewrite forallb_forall in HF. specialize (HF tc' Hinc). rewrite Ek, Hnc in HF. cbn in HF.
      apply eqb_prop in HF. exact HF.
    - (* union *)
      unfold type_wf in Hwc. apply andb_true_iff in Hwc. destruct Hwc as [_ Hwc]. rewrite Hnc, Hfc in Hwc.
      repeat (apply andb_true_iff in Hwc; destruct Hwc as [Hwc ?]).
      match goal with H : forallb (fun to => negb (is_obj_kind _) || _) _ = true |- _ => rename H into HF end.
      rewrite forallb_forall in HF. specialize (HF to' Hino). rewrite Hno in HF.
      destruct (is_obj_kind (td_kind to')); [|discriminate]. cbn in HF. apply eqb_prop in HF. exact HF.
  Qed.
End Wf.

(* ---- the universe contract: objects reachable through sc'-fields have sc'-declared types ---- *)
Fixpoint fval_refs (fv : fval) : list name :=
  match fv with
  | FRef t _ => [t]
  | FLookup t _ => [t]
  | FLst l => flat_map fval_refs l
  | _ => []
  end.
Definition refs_ok (sc' : schema) (fv : fval) : bool := forallb (declared_obj sc') (fval_refs fv).
Definition ent_ok_b (sc' : schema) (e : entity) : bool :=
  match find_type (en_type e) (s_types sc') with
  | Some td =>
    forallb (fun kv => match find_field (fst kv) (td_fields td) with
                       | Some _ => refs_ok sc' (snd kv)
                       | None => true
                       end) (en_fields e)
  | None => true
  end.
Definition univ_ok_b (sc' : schema) (U : universe) : bool := forallb (ent_ok_b sc') U.

Lemma assoc_In {A} k (l : list (bytes * A)) v : assoc k l = Some v -> In (k, v) l.
Proof.
  induction l as [|[k' v'] l IH]; cbn; [discriminate|].
  destruct (bytes_eqb k k') eqn:E.
  - intros H. injection H as <-. apply bytes_eqb_eq in E. subst. left. reflexivity.
  - intros H. right. apply IH. exact H.
Qed.

Lemma ent_ok_field sc' e ro td fname fd :
  ent_ok_b sc' e = true -> find_type (en_type e) (s_types sc') = Some td ->
  find_field fname (td_fields td) = Some fd ->
  refs_ok sc' (field_fval {| ov_ent := e; ov_repr := ro |} fname) = true.
Proof.
  intros He Ht Hf. unfold ent_ok_b in He. rewrite Ht in He. rewrite forallb_forall in He.
  unfold field_fval. cbn [ov_ent]. destruct (assoc fname (en_fields e)) as [v|] eqn:Ea; [|reflexivity].
  specialize (He (fname, v) (assoc_In _ _ _ Ea)). cbn [fst snd] in He. rewrite Hf in He. exact He.
Qed.

Lemma find_entity_In U t k e : find_entity U t k = Some e -> In e U /\ en_type e = t.
Proof.
  induction U as [|x r IH]; cbn; [discriminate|].
  destruct (bytes_eqb (en_type x) t && bytes_eqb (en_key x) k) eqn:E.
  - intros H. injection H as <-. apply andb_true_iff in E. destruct E as [E _]. apply bytes_eqb_eq in E.
    split; [left; reflexivity|exact E].
  - intros H. destruct (IH H) as [H1 H2]. split; [right; exact H1|exact H2].
Qed.
