(* C01: fuel sufficiency.  For selections without fragment spreads, executed with an empty fragment
   list, a computable amount of fuel (linear in the size of the selections, with a factor given by
   the deepest list / non-null nesting of the field types of the schema) is enough: the execution
   never reports [XOutOfFuel], whatever the data universe. *)
From Coq Require Import PeanoNat Lia ZifyNat ZifyN ZifyBool.
From Gv Require Import lib.Bytes lib.Json lib.Gql lib.Exec C01.ProofsBase C01.ProofsFuel.
Open Scope N_scope.
Local Open Scope nat_scope.

(* ---- the side condition and the bound ---- *)
Fixpoint sel_nospread (s : selection) : bool :=
  match s with
  | SField _ _ _ _ ss => forallb sel_nospread ss
  | SInline _ _ ss => forallb sel_nospread ss
  | SSpread _ _ => false
  end.
Definition sels_nospread (l : list selection) : bool := forallb sel_nospread l.

Fixpoint ty_depth (t : ty) : nat :=
  match t with
  | TNamed _ => 0
  | TList t' => S (ty_depth t')
  | TNonNull t' => S (ty_depth t')
  end.
Definition maxl (l : list nat) : nat := fold_right Nat.max 0 l.
Definition schema_ty_depth (sc : schema) : nat :=
  maxl (map (fun td => maxl (map (fun fd => ty_depth (fd_type fd)) (td_fields td))) (s_types sc)).

(* fuel consumed per nesting level of fields: one step of [exec_sels], one of [exec_field], and at
   most [2 * depth + 1] of [complete] (a list level costs two steps when the list is stored as one
   JSON array) *)
Definition level_cost (sc : schema) : nat := 2 * schema_ty_depth sc + 3.
Definition fuel_bound (sc : schema) (sels : list selection) : nat := sels_size sels * level_cost sc + 1.

(* ---- small facts ---- *)
Lemma maxl_in x l : In x l -> x <= maxl l.
Proof.
  induction l as [|y l IH]; [intros []|].
  intros [->|H]; unfold maxl in *; cbn [fold_right]; [lia|]. specialize (IH H). lia.
Qed.

Lemma find_type_in n ts td : find_type n ts = Some td -> In td ts.
Proof.
  induction ts as [|t r IH]; [discriminate|]. cbn [find_type].
  destruct (bytes_eqb n (td_name t)); [intros [= ->]; left; reflexivity|intros H; right; auto].
Qed.
Lemma find_field_in n fs fd : find_field n fs = Some fd -> In fd fs.
Proof.
  induction fs as [|t r IH]; [discriminate|]. cbn [find_field].
  destruct (bytes_eqb n (fd_name t)); [intros [= ->]; left; reflexivity|intros H; right; auto].
Qed.

Lemma field_depth_le sc objty td fname fd :
  find_type objty (s_types sc) = Some td -> find_field fname (td_fields td) = Some fd ->
  ty_depth (fd_type fd) <= schema_ty_depth sc.
Proof.
  intros H1 H2. apply find_type_in in H1. apply find_field_in in H2. unfold schema_ty_depth.
  transitivity (maxl (map (fun fd => ty_depth (fd_type fd)) (td_fields td))).
  - apply maxl_in. exact (in_map (fun fd => ty_depth (fd_type fd)) _ _ H2).
  - apply maxl_in.
    exact (in_map (fun td => maxl (map (fun fd => ty_depth (fd_type fd)) (td_fields td))) _ _ H1).
Qed.

(* fuel [complete] needs to get through the wrappers of a type *)
Fixpoint ty_cost (t : ty) : nat :=
  match t with
  | TNamed _ => 1
  | TList t' => S (S (ty_cost t'))
  | TNonNull t' => S (ty_cost t')
  end.
Definition ccost (t : ty) (fv : fval) : nat :=
  match t with
  | TList t' => match fv with FLst _ => S (ty_cost t') | _ => ty_cost t end
  | _ => ty_cost t
  end.
Lemma ty_cost_le t : ty_cost t <= 2 * ty_depth t + 1.
Proof. induction t; cbn [ty_cost ty_depth]; lia. Qed.
Lemma ccost_le t fv : ccost t fv <= ty_cost t.
Proof. destruct t; cbn [ccost ty_cost]; try lia. destruct fv; lia. Qed.

(* sizes *)
Lemma sel_size_field a n args d ss : sel_size (SField a n args d ss) = S (sels_size ss).
Proof. reflexivity. Qed.
Lemma sel_size_inline c d ss : sel_size (SInline c d ss) = S (sels_size ss).
Proof. reflexivity. Qed.
Lemma sels_size_nil : sels_size [] = 0.
Proof. reflexivity. Qed.
Lemma sels_size_cons s l : sels_size (s :: l) = sel_size s + sels_size l.
Proof. reflexivity. Qed.
Lemma sels_size_app a b : sels_size (a ++ b) = sels_size a + sels_size b.
Proof. induction a as [|x a IH]; [reflexivity|]. cbn [app]. rewrite !sels_size_cons, IH. lia. Qed.
Lemma sel_size_pos s : 1 <= sel_size s.
Proof. destruct s; [rewrite sel_size_field|rewrite sel_size_inline|cbn [sel_size]]; lia. Qed.
Lemma sel_subs_size s : sels_size (sel_subs s) + 1 <= sel_size s.
Proof.
  destruct s; cbn [sel_subs]; [rewrite sel_size_field|rewrite sel_size_inline, sels_size_nil|rewrite sels_size_nil; cbn [sel_size]]; lia.
Qed.
Lemma sels_size_filter p l : sels_size (filter p l) <= sels_size l.
Proof.
  induction l as [|x l IH]; [cbn [filter]; lia|]. cbn [filter].
  destruct (p x); rewrite !sels_size_cons; lia.
Qed.
Lemma flat_map_subs_size l : sels_size (flat_map sel_subs l) + length l <= sels_size l.
Proof.
  induction l as [|x l IH]; [cbn [flat_map length]; rewrite sels_size_nil; lia|].
  cbn [flat_map length]. rewrite sels_size_app, sels_size_cons.
  pose proof (sel_subs_size x). lia.
Qed.

(* absence of spreads *)
Lemma nospread_cons s l : sels_nospread (s :: l) = sel_nospread s && sels_nospread l.
Proof. reflexivity. Qed.
Lemma nospread_app a b : sels_nospread (a ++ b) = sels_nospread a && sels_nospread b.
Proof. apply forallb_app. Qed.
Lemma nospread_field a n args d ss : sel_nospread (SField a n args d ss) = sels_nospread ss.
Proof. reflexivity. Qed.
Lemma nospread_inline c d ss : sel_nospread (SInline c d ss) = sels_nospread ss.
Proof. reflexivity. Qed.
Lemma nospread_filter p l : sels_nospread l = true -> sels_nospread (filter p l) = true.
Proof.
  induction l as [|x l IH]; [reflexivity|]. rewrite nospread_cons. intros H.
  apply andb_true_iff in H. destruct H as [H1 H2]. cbn [filter].
  destruct (p x); [rewrite nospread_cons, H1|]; auto.
Qed.
Lemma nospread_subs s : sel_nospread s = true -> sels_nospread (sel_subs s) = true.
Proof. destruct s; cbn [sel_subs]; [rewrite nospread_field; auto|reflexivity|reflexivity]. Qed.
Lemma nospread_flat_map_subs l : sels_nospread l = true -> sels_nospread (flat_map sel_subs l) = true.
Proof.
  induction l as [|x l IH]; [reflexivity|]. rewrite nospread_cons. intros H.
  apply andb_true_iff in H. destruct H as [H1 H2]. cbn [flat_map].
  rewrite nospread_app, (nospread_subs _ H1), (IH H2). reflexivity.
Qed.

(* the merged sub-selections of every group are strictly smaller than the flattened list *)
Lemma groups_sub : forall n l, length l <= n ->
  forall g, In g (groups l) ->
    sels_size (snd g) + 1 <= sels_size l /\
    (sels_nospread l = true -> sels_nospread (snd g) = true).
Proof.
  induction n as [|n IH]; intros l Hlen g Hg.
  - destruct l; [rewrite groups_nil in Hg; destruct Hg|simpl in Hlen; lia].
  - destruct l as [|s rest]; [rewrite groups_nil in Hg; destruct Hg|].
    rewrite groups_cons in Hg. destruct Hg as [<-|Hg].
    + cbn [snd]. split.
      * pose proof (flat_map_subs_size (s :: filter (same_key (sel_key s)) rest)) as H1.
        pose proof (sels_size_filter (same_key (sel_key s)) rest) as H2.
        rewrite !sels_size_cons in *. cbn [length] in H1. lia.
      * intros Hn. apply nospread_flat_map_subs. rewrite nospread_cons in *.
        apply andb_true_iff in Hn. destruct Hn as [Hn1 Hn2].
        rewrite Hn1, (nospread_filter _ _ Hn2). reflexivity.
    + pose proof (filter_length_le (fun x => negb (same_key (sel_key s) x)) rest) as Hf.
      assert (Hl : length (filter (fun x => negb (same_key (sel_key s) x)) rest) <= n)
        by (simpl in Hlen; lia).
      destruct (IH _ Hl g Hg) as [H1 H2]. split.
      * pose proof (sels_size_filter (fun x => negb (same_key (sel_key s) x)) rest) as H3.
        rewrite sels_size_cons. lia.
      * intros Hn. apply H2. apply nospread_filter. rewrite nospread_cons in Hn.
        apply andb_true_iff in Hn. apply Hn.
Qed.

(* ---- flatten ---- *)
Lemma flatten_suff sc vars : forall f objty sels,
  sels_nospread sels = true -> sels_size sels + 1 <= f ->
  match flatten sc [] vars f objty sels with
  | FlatOk fl => sels_nospread fl = true /\ sels_size fl <= sels_size sels
  | FlatBad e => is_oof e = false
  end.
Proof.
  induction f as [|f IH]; intros objty sels Hn Hle; [lia|].
  destruct sels as [|s rest].
  - rewrite flatten_S_nil. split; [reflexivity|lia].
  - rewrite flatten_S_cons. rewrite nospread_cons in Hn. apply andb_true_iff in Hn. destruct Hn as [Hs Hr].
    rewrite sels_size_cons in *. pose proof (sel_size_pos s) as Hp.
    assert (Hrest := IH objty rest Hr ltac:(lia)).
    assert (Hhere : match flat_here sc [] vars (flatten sc [] vars f objty) objty s with
                    | FlatOk l => sels_nospread l = true /\ sels_size l <= sel_size s
                    | FlatBad e => is_oof e = false
                    end).
    { destruct s as [a n args dirs ss|cond dirs ss|n dirs]; cbn [flat_here].
      - destruct (included vars dirs).
        + split; [rewrite nospread_cons, Hs; reflexivity|rewrite sels_size_cons, sels_size_nil; lia].
        + split; [reflexivity|rewrite sels_size_nil; lia].
      - destruct (negb (included vars dirs)); [split; [reflexivity|rewrite sels_size_nil; lia]|].
        rewrite nospread_inline in Hs. rewrite sel_size_inline in Hle.
        assert (Hsub : match flatten sc [] vars f objty ss with
                       | FlatOk l => sels_nospread l = true /\ sels_size l <= sel_size (SInline cond dirs ss)
                       | FlatBad e => is_oof e = false
                       end).
        { assert (Hi := IH objty ss Hs ltac:(lia)).
          destruct (flatten sc [] vars f objty ss); [|exact Hi].
          rewrite sel_size_inline. destruct Hi; split; [assumption|lia]. }
        destruct cond as [c|]; [|exact Hsub].
        destruct (kind_of sc c).
        + destruct (type_applies sc objty c); [exact Hsub|split; [reflexivity|rewrite sels_size_nil; lia]].
        + destruct (bytes_eqb c _); [exact Hsub|reflexivity].
      - cbn in Hs. discriminate. }
    destruct (flat_here sc [] vars (flatten sc [] vars f objty) objty s) as [l1|e1]; cbn [flat_seq]; [|exact Hhere].
    destruct (flatten sc [] vars f objty rest) as [l2|e2]; [|exact Hrest].
    destruct Hhere as [Ha1 Ha2]. destruct Hrest as [Hb1 Hb2].
    rewrite nospread_app, sels_size_app, Ha1, Hb1. split; [reflexivity|lia].
Qed.

(* ---- the named loops ---- *)
Lemma sels_go_noof ef path gs :
  (forall key s subs p, In (key, s, subs) gs -> no_oof (c_errs (ef key s subs p)) = true) ->
  no_oof (snd (sels_go ef path gs)) = true.
Proof.
  induction gs as [|[[key s] subs] rest IH]; intros H; [reflexivity|].
  cbn [sels_go].
  assert (H0 : no_oof (c_errs (ef key s subs (path ++ [PN key]))) = true) by (apply H; left; reflexivity).
  assert (IH' : no_oof (snd (sels_go ef path rest)) = true) by (apply IH; intros; apply H; right; assumption).
  destruct (c_viol (ef key s subs (path ++ [PN key]))).
  - cbn [snd]. exact H0.
  - destruct (sels_go ef path rest) as [o e2]. cbn [snd] in *.
    rewrite no_oof_app, H0, IH'. reflexivity.
Qed.

Lemma ent_loop_noof U es subs path reprs :
  (forall t ov p, no_oof (snd (es t ov subs p)) = true) ->
  forall i, no_oof (snd (ent_loop U es subs path i reprs)) = true.
Proof.
  intros H. induction reprs as [|r rest IH]; intros i; [reflexivity|].
  cbn [ent_loop]. unfold ent_item. specialize (IH (i + 1)%N).
  destruct (find_by_repr U r) as [e|].
  - specialize (H (en_type e) {| ov_ent := e; ov_repr := Some r |} (path ++ [PI i])).
    destruct (es (en_type e) {| ov_ent := e; ov_repr := Some r |} subs (path ++ [PI i])) as [o e2].
    destruct (ent_loop U es subs path (i + 1)%N rest) as [its es'].
    cbn [snd] in *. rewrite no_oof_app, H, IH. reflexivity.
  - destruct (ent_loop U es subs path (i + 1)%N rest) as [its es'].
    cbn [snd app] in *. exact IH.
Qed.

Lemma lst_loop_noof (cf : fval -> list pel -> cres) path items :
  (forall it p, no_oof (c_errs (cf it p)) = true) ->
  forall i, no_oof (snd (fst (lst_loop cf path i items))) = true.
Proof.
  intros H. induction items as [|it rest IH]; intros i; [reflexivity|].
  cbn [lst_loop]. specialize (IH (i + 1)%N).
  destruct (lst_loop cf path (i + 1)%N rest) as [[out errs] viol].
  cbn [fst snd] in *. rewrite no_oof_app, H, IH. reflexivity.
Qed.

Lemma leaf_value_noof md ov fname cargs fv path :
  no_oof (c_errs (leaf_value md ov fname cargs fv path)) = true.
Proof.
  destruct fv; unfold leaf_value; try reflexivity.
  match goal with |- context [if ?b then _ else _] => destruct b end; reflexivity.
Qed.

Lemma nonnull_wrap_noof_intro path r :
  no_oof (c_errs r) = true -> no_oof (c_errs (nonnull_wrap path r)) = true.
Proof.
  intros H. unfold nonnull_wrap. destruct (c_json r); try exact H.
  cbn [c_errs]. destruct (c_errs r); [reflexivity|exact H].
Qed.

(* ---- arithmetic, kept out of the big contexts ---- *)
Lemma arith_flat n d : n + 1 <= n * (2 * d + 3) + 1.
Proof. nia. Qed.
Lemma arith_group a n d f :
  a + 1 <= n -> n * (2 * d + 3) + 1 <= S f -> a * (2 * d + 3) + 1 + 2 * d + 2 <= f.
Proof. nia. Qed.

Section Suff.
  Variable sc : schema.
  Variable U : universe.
  Variable vars : list (bytes * json).
  Variable md : mode.

  Notation exec_sels' := (exec_sels sc U [] vars md).
  Notation exec_field' := (exec_field sc U [] vars md).
  Notation complete' := (complete sc U [] vars md).

  Definition suff_at (f : nat) : Prop :=
    (forall objty ov sels path,
        sels_nospread sels = true -> fuel_bound sc sels <= f ->
        no_oof (snd (exec_sels' f objty ov sels path)) = true) /\
    (forall objty ov key s subs path,
        sels_nospread subs = true -> fuel_bound sc subs + 2 * schema_ty_depth sc + 2 <= f ->
        no_oof (c_errs (exec_field' f objty ov key s subs path)) = true) /\
    (forall t ov fname cargs fv subs path,
        sels_nospread subs = true -> ccost t fv + fuel_bound sc subs <= f ->
        no_oof (c_errs (complete' f t ov fname cargs fv subs path)) = true).

  Lemma suff_all : forall f, suff_at f.
  Proof.
    induction f as [|f [IHs [IHf IHc]]].
    - repeat split; intros.
      + unfold fuel_bound in *. lia.
      + unfold fuel_bound in *. lia.
      + unfold fuel_bound in *. lia.
    - repeat split.
      + (* exec_sels *)
        intros objty ov sels path Hn Hle. rewrite exec_sels_S.
        assert (Hfle : sels_size sels + 1 <= S f).
        { clear -Hle. unfold fuel_bound, level_cost in Hle.
          pose proof (arith_flat (sels_size sels) (schema_ty_depth sc)). lia. }
        pose proof (flatten_suff sc vars (S f) objty sels Hn Hfle) as Hfl.
        destruct (flatten sc [] vars (S f) objty sels) as [fl|e].
        * destruct Hfl as [Hfn Hfs]. apply sels_go_noof. intros key s subs p Hin.
          destruct (groups_sub (length fl) fl (le_n _) _ Hin) as [Hs1 Hs2]. cbn [snd] in *.
          apply IHf; [apply Hs2; exact Hfn|].
          clear -Hle Hs1 Hfs. unfold fuel_bound, level_cost in *.
          assert (Hle' : sels_size fl * (2 * schema_ty_depth sc + 3) + 1 <= S f).
          { pose proof (Nat.mul_le_mono_r _ _ (2 * schema_ty_depth sc + 3) Hfs). lia. }
          apply (arith_group _ _ _ _ Hs1 Hle').
        * cbn [snd no_oof forallb]. rewrite Hfl. reflexivity.
      + (* exec_field *)
        intros objty ov key s subs path Hn Hle. rewrite exec_field_S.
        destruct s as [a fname args dirs ss| |]; try reflexivity.
        destruct (bytes_eqb fname s_typename); [reflexivity|].
        destruct (is_entities sc md fname objty).
        * cbn [c_errs]. apply ent_loop_noof. intros t ov' p. apply IHs; [exact Hn|].
          clear -Hle. lia.
        * destruct (find_type objty (s_types sc)) as [td|] eqn:Et; [|reflexivity].
          destruct (find_field fname (td_fields td)) as [fd|] eqn:Ef; [|reflexivity].
          apply IHc; [exact Hn|].
          pose proof (field_depth_le _ _ _ _ _ Et Ef) as Hd.
          pose proof (ty_cost_le (fd_type fd)) as Hc.
          pose proof (ccost_le (fd_type fd) (field_fval ov fname)) as Hcc.
          clear -Hle Hd Hc Hcc. lia.
      + (* complete *)
        intros t ov fname cargs fv subs path Hn Hle. rewrite complete_S.
        destruct t as [n|t'|t'].
        * cbn [ccost ty_cost] in Hle.
          destruct (is_leaf_kind sc n) as [[|]|]; [apply leaf_value_noof| |reflexivity].
          unfold complete_obj.
          destruct (obj_target U cargs fv) as [[e|]|]; try reflexivity.
          destruct (negb (obj_type_ok sc n e)); [reflexivity|].
          assert (He : no_oof (snd (exec_sels' f (en_type e) {| ov_ent := e; ov_repr := None |} subs path)) = true).
          { apply IHs; [exact Hn|]. clear -Hle. lia. }
          destruct (exec_sels' f (en_type e) {| ov_ent := e; ov_repr := None |} subs path) as [o errs].
          cbn [snd] in He. destruct o; exact He.
        * destruct fv as [j|t0 k| |l| | |t0 a|fs]; try reflexivity.
          -- destruct j; try reflexivity. apply IHc; [exact Hn|].
             cbn [ccost ty_cost] in *. clear -Hle. lia.
          -- rewrite list_finish_errs. apply lst_loop_noof. intros it p. apply IHc; [exact Hn|].
             pose proof (ccost_le t' it) as Hcc. cbn [ccost] in Hle. clear -Hle Hcc. lia.
        * apply nonnull_wrap_noof_intro. apply IHc; [exact Hn|].
          pose proof (ccost_le t' fv) as Hcc. cbn [ccost ty_cost] in Hle. clear -Hle Hcc. lia.
  Qed.
End Suff.

Theorem exec_sels_fuel_sufficient :
  forall sc U vars md f objty ov sels path,
    sels_nospread sels = true -> (fuel_bound sc sels <= f)%nat ->
    no_oof (snd (exec_sels sc U [] vars md f objty ov sels path)) = true.
Proof. intros. apply (suff_all sc U vars md f); assumption. Qed.

(* ---- whole requests ---- *)
Lemma pick_op_in d opname o : pick_op d opname = Some o -> In o (doc_ops d).
Proof.
  unfold pick_op. destruct opname as [n|].
  - intros H. apply find_some in H. apply H.
  - destruct (doc_ops d) as [|o1 [|o2 r]]; intros [= <-]; left; reflexivity.
Qed.

Theorem execute_fuel_sufficient :
  forall f sc U md doc opname supplied,
    doc_frags doc = [] ->
    (forall o, In o (doc_ops doc) -> sels_nospread (op_sels o) = true) ->
    (forall o, In o (doc_ops doc) -> (fuel_bound sc (op_sels o) <= f)%nat) ->
    no_oof (rs_errs (execute f sc U md doc opname supplied)) = true.
Proof.
  intros f sc U md doc opname supplied Hfr Hns Hle. unfold execute.
  destruct (pick_op doc opname) as [o|] eqn:Ep; [|reflexivity].
  apply pick_op_in in Ep.
  destruct (root_type sc (op_kind o)) as [rt|]; [|reflexivity].
  destruct (find_entity U rt []) as [root|]; [|reflexivity].
  rewrite Hfr.
  pose proof (exec_sels_fuel_sufficient sc U
                (effective_vars o match supplied with JObj m => m | _ => [] end) md f rt
                {| ov_ent := root; ov_repr := None |} (op_sels o) [] (Hns o Ep) (Hle o Ep)) as H.
  destruct (exec_sels sc U [] _ md f rt _ (op_sels o) []) as [r errs].
  cbn [rs_errs snd] in *. exact H.
Qed.

(* a bound in terms of the document alone *)
Definition doc_fuel_bound (sc : schema) (d : document) : nat := doc_size d * level_cost sc + 1.

Lemma op_size_le_doc d o : In o (doc_ops d) -> sels_size (op_sels o) <= doc_size d.
Proof.
  induction d as [|x d IH]; [intros []|].
  destruct x as [o'|fr]; cbn [doc_ops].
  - intros [->|H]; unfold doc_size in *; cbn [fold_right]; [lia|]. specialize (IH H). lia.
  - intros H. specialize (IH H). unfold doc_size in *. cbn [fold_right]. lia.
Qed.

Corollary execute_fuel_sufficient_doc :
  forall f sc U md doc opname supplied,
    doc_frags doc = [] ->
    (forall o, In o (doc_ops doc) -> sels_nospread (op_sels o) = true) ->
    (doc_fuel_bound sc doc <= f)%nat ->
    no_oof (rs_errs (execute f sc U md doc opname supplied)) = true.
Proof.
  intros f sc U md doc opname supplied Hfr Hns Hle.
  apply execute_fuel_sufficient; [exact Hfr|exact Hns|].
  intros o Ho. pose proof (op_size_le_doc _ _ Ho) as Hs.
  unfold doc_fuel_bound, fuel_bound in *.
  pose proof (Nat.mul_le_mono_r _ _ (level_cost sc) Hs). lia.
Qed.
