(* C01 / (6): executing a list of plain fields together with key selections; reading representations off merged members. *)
From Coq Require Import PeanoNat Lia.
From Gv Require Import lib.Bytes lib.Json lib.Gql lib.Exec
     C01.ProofsBase C01.ProofsFuel C01.ProofsSplit C01.ProofsSim C01.ProofsJoin C01.ProofsOverlap
     C01.ProofsTwoStep C01.ProofsViol C01.ProofsPlanAlg C01.ProofsPlan C01.ProofsPlan2Root.
Open Scope N_scope.

Definition plain_sels (l : list selection) : Prop := Forall (fun s => exists a n args ss, s = SField a n args [] ss) l.
(* every member whose key is one of [K] holds the entity's value of that key field *)
Definition keyvals_ok (e : entity) (K : list name) (m : list (bytes * json)) : Prop :=
  forall k v, In (k, v) m -> In k K -> v = key_val e k.

Lemma plain_key_sels ks : plain_sels (key_sels ks).
Proof.
  unfold plain_sels, key_sels. apply Forall_forall. intros s Hs. apply in_map_iff in Hs. destruct Hs as (k & <- & _).
  exists None, k, [], []. reflexivity.
Qed.

Lemma has_key_In k l : has_key k l = true <-> In k (map sel_key l).
Proof.
  unfold has_key. rewrite existsb_exists, in_map_iff. split.
  - intros (x & Hx & Hk). unfold same_key in Hk. apply bytes_eqb_eq in Hk. exists x. split; assumption.
  - intros (x & Hk & Hx). exists x. split; [exact Hx|]. unfold same_key. rewrite Hk. apply bytes_eqb_refl.
Qed.

Lemma existsb_key_In k (l : list (bytes * json)) :
  existsb (fun kv => bytes_eqb k (fst kv)) l = true <-> In k (map fst l).
Proof.
  rewrite existsb_exists, in_map_iff. split.
  - intros (x & Hx & Hk). apply bytes_eqb_eq in Hk. exists x. split; [symmetry; exact Hk|exact Hx].
  - intros (x & Hk & Hx). exists x. split; [exact Hx|]. rewrite Hk. apply bytes_eqb_refl.
Qed.

Section Keys.
  Variable sc : schema.
  Variable U : universe.
  Variable vars : list (bytes * json).
  Notation mexv C e sels p := (exec_sels sc U [] vars Mono C (en_type e) {| ov_ent := e; ov_repr := None |} sels p).

  (* (A1) a list of plain, distinctly keyed fields executes field by field -- at any path *)
  Lemma exec_fields_fold_p md f objty ov (l : list selection) p :
    plain_sels l -> keys_distinct l = true -> (length l < f)%nat ->
    exec_sels sc U [] vars md f objty ov l p =
    fold_right (fun s acc => split_merge (exec_sels sc U [] vars md f objty ov [s] p) acc) (Some [], []) l.
  Proof.
    unfold plain_sels. induction l as [|s l IH]; intros HF Hk Hlen.
    - cbn [fold_right]. apply exec_nil. simpl in Hlen. lia.
    - rewrite (exec_cons_split sc U [] vars md f objty ov s l p); [|exact HF|exact Hk|exact Hlen].
      cbn [fold_right]. f_equal. apply IH.
      + inversion HF; assumption.
      + cbn [keys_distinct] in Hk. apply andb_true_iff in Hk. apply Hk.
      + simpl in Hlen. lia.
  Qed.

  (* (A3) a key field (or __typename) alone *)
  Lemma exec_key_field e k a args ss p C :
    key_ok sc e k = true -> (5 <= C)%nat ->
    mexv C e [SField a k args [] ss] p = (Some [(response_name a k, key_val e k)], []).
  Proof.
    intros Hk HC. destruct C as [|[|[|[|[|g]]]]]; try lia. clear HC.
    rewrite exec_sels_S, flatten_S_cons, flatten_S_nil. cbn [flat_here included flat_seq app length].
    change (group 2 [SField a k args [] ss]) with (groups [SField a k args [] ss]). rewrite groups_cons.
    cbn [filter flat_map sel_subs sel_key]. rewrite groups_nil. cbn [sels_go].
    rewrite key_field_exec; [|exact Hk]. reflexivity.
  Qed.

  (* (A2) plain fields followed by key selections: the members of the fields, then the key members not among them *)
  Lemma exec_with_keys e A ks p C :
    plain_sels A -> forallb (key_field_ok sc e) ks = true -> keys_unaliased ks A = true ->
    (length A + length ks + 6 <= C)%nat ->
    mexv C e (A ++ key_sels ks) p =
    match mexv C e A p with
    | (Some la, ea) => (Some (la ++ added_members e ks A), ea)
    | (None, ea) => (None, ea)
    end.
  Proof.
    intros HA Hks _ HC.
    assert (HfA : flatten sc [] vars C (en_type e) A = FlatOk A).
    { apply flatten_plain_fields; [exact HA|clear - HC; lia]. }
    assert (HfK : flatten sc [] vars C (en_type e) (key_sels ks) = FlatOk (key_sels ks)).
    { apply flatten_key_sels. clear - HC; lia. }
    assert (HfAK : flatten sc [] vars C (en_type e) (A ++ key_sels ks) = FlatOk (A ++ key_sels ks)).
    { apply flatten_plain_fields.
      - apply Forall_app. split; [exact HA|apply plain_key_sels].
      - rewrite app_length. unfold key_sels, key_names. rewrite map_length. cbn [length]. clear - HC; lia. }
    rewrite (exec_split_overlap_partial sc U [] vars Mono C (en_type e) {| ov_ent := e; ov_repr := None |}
               A (key_sels ks) p A (key_sels ks) HfA HfK).
    2:{ rewrite HfAK. reflexivity. }
    2:{ unfold overlap_nosubs. apply forallb_forall. intros x Hx. unfold key_sels in Hx. apply in_map_iff in Hx.
        destruct Hx as (k & <- & _). cbn. apply orb_true_r. }
    rewrite (keys_exec_flat sc U [] vars e ks Hks (new_keys A (key_sels ks)) C p);
      [|apply (added_sels_keys sc e ks Hks A)|clear - HC; lia].
    fold (added_sels ks A). fold (added_members e ks A).
    destruct (mexv C e A p) as [[la|] ea]; unfold split_merge; cbn [fst snd]; rewrite ?app_nil_r; reflexivity.
  Qed.

  Lemma added_members_keyvals e ks A k v :
    In (k, v) (added_members e ks A) -> v = key_val e k /\ In k (key_names ks).
  Proof.
    intros Hin. unfold added_members in Hin. apply in_map_iff in Hin. destruct Hin as ([[kg s] subs] & Heq & Hg).
    cbn [fst snd] in Heq. injection Heq as -> <-. split; [reflexivity|].
    pose proof (groups_first_in (added_sels ks A)) as HF1. rewrite Forall_forall in HF1. specialize (HF1 _ Hg). cbn [fst snd] in HF1.
    pose proof (groups_key_of (added_sels ks A)) as HF2. rewrite Forall_forall in HF2. specialize (HF2 _ Hg). cbn [fst snd] in HF2.
    unfold added_sels, new_keys in HF1. apply filter_In in HF1. destruct HF1 as [HF1 _].
    unfold key_sels in HF1. apply in_map_iff in HF1. destruct HF1 as (k0 & <- & Hk0).
    rewrite HF2. cbn. exact Hk0.
  Qed.

  (* every key name is a response key of [A] or of the added members *)
  Lemma key_present e ks A la k :
    In k (key_names ks) -> map fst la = map sel_key A (* the members of A, one per field *) ->
    In k (map fst (la ++ added_members e ks A)).
  Proof.
    intros Hk Hla. rewrite map_app. apply in_or_app.
    destruct (has_key k A) eqn:Eh.
    - left. rewrite Hla. apply has_key_In. exact Eh.
    - right. apply existsb_key_In. unfold added_members. rewrite existsb_map. cbn [fst].
      apply (groups_key_exists (length (added_sels ks A))); [apply le_n|].
      unfold has_key. apply existsb_exists. exists (key_sel k). split.
      + unfold added_sels, new_keys. apply filter_In. split; [unfold key_sels; apply in_map; exact Hk|].
        cbn [sel_key key_sel response_name]. rewrite Eh. reflexivity.
      + unfold same_key. cbn. apply bytes_eqb_refl.
  Qed.

  (* the shape of the result of a list headed by a plain field *)
  Lemma plain_cons_inv e s A p C la ea :
    plain_sels (s :: A) -> keys_distinct (s :: A) = true -> (length (s :: A) < C)%nat ->
    mexv C e (s :: A) p = (Some la, ea) ->
    exists v e1 lb e2, mexv C e [s] p = (Some [(sel_key s, v)], e1) /\ mexv C e A p = (Some lb, e2) /\
                       la = (sel_key s, v) :: lb.
  Proof.
    intros HF Hk Hlen H.
    rewrite (exec_cons_split sc U [] vars Mono C (en_type e) _ s A p HF Hk Hlen) in H.
    inversion HF as [|? ? (a & n & args & ss & ->) _]; subst.
    destruct (single_field_shape sc U [] vars Mono C a n args ss (en_type e) {| ov_ent := e; ov_repr := None |} p)
      as [[e1 H1]|[v [e1 H1]]]; rewrite H1 in H; unfold split_merge in H; cbn [fst snd] in H; [discriminate|].
    destruct (mexv C e A p) as [[lb|] e2]; cbn [fst snd] in H; [|discriminate].
    injection H as <- <-. exists v, e1, lb, e2. cbn [sel_key]. repeat split; try reflexivity. exact H1.
  Qed.

  (* (A5) the members of plain, distinctly keyed fields: one per field, in order; fields named like keys hold key values *)
  Lemma plain_members e A p C la ea :
    plain_sels A -> keys_distinct A = true -> (length A < C)%nat ->
    mexv C e A p = (Some la, ea) -> map fst la = map sel_key A.
  Proof.
    revert la ea. induction A as [|s A IH]; intros la ea HF Hk Hlen H.
    - rewrite exec_nil in H by (simpl in Hlen; lia). injection H as <- <-. reflexivity.
    - destruct (plain_cons_inv e s A p C la ea HF Hk Hlen H) as (v & e1 & lb & e2 & H1 & H2 & ->).
      cbn [map fst]. f_equal. apply (IH lb e2); [| | |exact H2].
      + inversion HF; assumption.
      + cbn [keys_distinct] in Hk. apply andb_true_iff in Hk. apply Hk.
      + simpl in Hlen. lia.
  Qed.

  Lemma plain_members_keyvals e A K p C la ea :
    plain_sels A -> keys_distinct A = true -> (length A + 5 <= C)%nat ->
    (forall k, In k K -> key_ok sc e k = true) ->
    (* a field whose response key is in K is the field of that name *)
    (forall s, In s A -> In (sel_key s) K -> match s with SField _ n _ _ _ => n = sel_key s | _ => False end) ->
    mexv C e A p = (Some la, ea) -> keyvals_ok e K la.
  Proof.
    revert la ea. induction A as [|s A IH]; intros la ea HF Hk Hlen HK Hun H.
    - rewrite exec_nil in H by (clear - Hlen; lia). injection H as <- <-. intros k v [].
    - assert (Hlen' : (length (s :: A) < C)%nat) by (clear - Hlen; simpl in *; lia).
      destruct (plain_cons_inv e s A p C la ea HF Hk Hlen' H) as (v & e1 & lb & e2 & H1 & H2 & ->).
      assert (IH' : keyvals_ok e K lb).
      { apply (IH lb e2); [| | |exact HK| |exact H2].
        - inversion HF; assumption.
        - cbn [keys_distinct] in Hk. apply andb_true_iff in Hk. apply Hk.
        - clear - Hlen. simpl in Hlen. lia.
        - intros s0 Hs0. apply Hun. right. exact Hs0. }
      intros k0 v0 [Heq|Hin] Hk0; [|apply (IH' k0 v0 Hin Hk0)].
      injection Heq as <- <-.
      specialize (Hun s (or_introl eq_refl) Hk0).
      inversion HF as [|? ? (a & n & args & ss & ->) _]; subst.
      cbn [sel_key] in Hun, Hk0, H1 |- *.
      assert (Hok : key_ok sc e n = true) by (apply HK; rewrite Hun; exact Hk0).
      rewrite (exec_key_field e n a args ss p C Hok) in H1 by (clear - Hlen; lia).
      injection H1 as H1 _. rewrite <- Hun. symmetry. exact H1.
  Qed.

  (* (A4) the representation read off any member list that holds the key values *)
  Lemma merged_repr e ks K m :
    forallb (key_field_ok sc e) ks = true ->
    (forall k, In k (key_names ks) -> In k K) ->
    keyvals_ok e K m ->
    (forall k, In k (key_names ks) -> In k (map fst m)) ->
    repr_from ks m = repr_of e ks.
  Proof.
    intros Hks HK Hm Hpres.
    assert (Hget : forall k, In k (key_names ks) -> get_member k m = key_val e k).
    { intros k Hk. unfold get_member. rewrite (obj_get_uniform k m (key_val e k)); [reflexivity| |].
      - intros k' v Hin Hkk. apply bytes_eqb_eq in Hkk. subst k'. apply (Hm k v Hin). apply HK. exact Hk.
      - apply existsb_key_In. apply Hpres. exact Hk. }
    unfold repr_from, repr_of. rewrite (repr_members_keys sc e ks Hks). f_equal.
    unfold key_names in *. cbn [map]. f_equal.
    - rewrite Hget; [|left; reflexivity]. unfold key_val. rewrite bytes_eqb_refl. reflexivity.
    - apply map_ext_in. intros k Hk. rewrite Hget; [reflexivity|right; exact Hk].
  Qed.
End Keys.
