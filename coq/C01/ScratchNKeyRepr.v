(* C01 / (6): representations with one level of nested key fields: matching, lookup, @requires reads, reading them off
   merged members. *)
From Coq Require Import PeanoNat Lia.
From Gv Require Import lib.Bytes lib.Json lib.Gql lib.Exec
     C01.ProofsBase C01.ProofsSim C01.ProofsJoin C01.ProofsTwoStep C01.ProofsCtxBase
     C01.ProofsTvStatic C01.ProofsPlan3Keys C01.ProofsNKeyDefs.
Open Scope N_scope.

(* ---- members of the nested part ---- *)
Lemma nmembers_in U e kn k v :
  In (k, v) (nmembers U e kn) ->
  exists inner e', In (k, inner) kn /\ nref U e k = Some e' /\ v = JObj (repr_members e' inner).
Proof.
  unfold nmembers. intros H. apply in_flat_map in H. destruct H as ([k0 inner] & Hx & H).
  unfold nmember in H. cbn [fst snd] in H.
  destruct (nref U e k0) as [e'|] eqn:En; [|destruct H].
  destruct H as [H|[]]. injection H as <- <-. exists inner, e'. auto.
Qed.

Lemma nref_assoc U e k e' :
  nref U e k = Some e' -> exists t' k', assoc k (en_fields e) = Some (FRef t' k') /\ find_entity U t' k' = Some e'.
Proof.
  unfold nref. destruct (assoc k (en_fields e)) as [[j|t' k'| | | | | |]|]; try discriminate.
  intros H. exists t', k'. auto.
Qed.

Lemma repr_matches_members U f e ks : repr_matches U (S f) e (repr_members e ks) = true.
Proof.
  cbn [repr_matches]. apply forallb_forall. intros [k j] Hin. apply repr_members_in in Hin.
  destruct (bytes_eqb k s_typename); [reflexivity|]. rewrite Hin. apply json_eqb_refl.
Qed.

Lemma repr_matches_nmembers U f e kn : repr_matches U (S (S f)) e (nmembers U e kn) = true.
Proof.
  cbn [repr_matches]. apply forallb_forall. intros [k v] Hin.
  apply nmembers_in in Hin. destruct Hin as (inner & e' & _ & Hn & ->).
  destruct (bytes_eqb k s_typename); [reflexivity|].
  apply nref_assoc in Hn. destruct Hn as (t' & k' & Ha & Hf). rewrite Ha, Hf.
  apply forallb_forall. intros [k2 j] Hin. apply repr_members_in in Hin.
  destruct (bytes_eqb k2 s_typename); [reflexivity|]. rewrite Hin. apply json_eqb_refl.
Qed.

Lemma repr_matches_app U f e a b :
  repr_matches U f e (a ++ b) = repr_matches U f e a && repr_matches U f e b.
Proof. destruct f as [|f]; [reflexivity|]. cbn [repr_matches]. apply forallb_app. Qed.

Lemma repr_matches_cons_tn U f e v m :
  repr_matches U (S f) e ((s_typename, v) :: m) = repr_matches U (S f) e m.
Proof. cbn [repr_matches forallb]. rewrite bytes_eqb_refl. reflexivity. Qed.

(* (6) *)
Lemma repr_of_n_typename U e ks kn :
  exists members, repr_of_n U e ks kn = JObj members /\ obj_get s_typename members = Some (JStr (en_type e)).
Proof.
  eexists. split; [reflexivity|]. cbn [obj_get]. rewrite bytes_eqb_refl. reflexivity.
Qed.
Lemma repr_of_n_obj_get_typename U e ks kn :
  obj_get s_typename ((s_typename, JStr (en_type e)) :: repr_members e ks ++ nmembers U e kn) = Some (JStr (en_type e)).
Proof. cbn [obj_get]. rewrite bytes_eqb_refl. reflexivity. Qed.

Lemma repr_match_ent_n U e ks kn x :
  repr_match_ent U (repr_of_n U e ks kn) x =
  bytes_eqb (en_type x) (en_type e) && (repr_matches U 8 x (repr_members e ks) && repr_matches U 8 x (nmembers U e kn)).
Proof.
  unfold repr_match_ent, repr_of_n. rewrite repr_of_n_obj_get_typename.
  rewrite repr_matches_cons_tn, repr_matches_app. reflexivity.
Qed.

(* (1) holds without any side condition: a member under [__typename] is skipped by [repr_matches], and a nested member
   exists only where the entity holds a reference to an existing entity *)
Lemma repr_match_self_n0 U e ks kn : repr_match_ent U (repr_of_n U e ks kn) e = true.
Proof.
  rewrite repr_match_ent_n, bytes_eqb_refl, repr_matches_members, repr_matches_nmembers. reflexivity.
Qed.

Lemma repr_match_self_n sc U e ks kn :
  (forall x, In x kn -> nkey_ok_b sc U e x = true) -> repr_match_ent U (repr_of_n U e ks kn) e = true.
Proof. intros _. apply repr_match_self_n0. Qed.

(* (2) *)
Theorem nkey_consistent_find0 ndecls U e ks kn :
  nkey_consistent ndecls U = true -> In e U -> In (en_type e, (ks, kn)) ndecls ->
  find_by_repr U (repr_of_n U e ks kn) = Some e.
Proof.
  intros Hk He Hd. unfold nkey_consistent in Hk. rewrite forallb_forall in Hk.
  specialize (Hk e He). rewrite forallb_forall in Hk. specialize (Hk _ Hd). cbn [fst snd] in Hk.
  rewrite bytes_eqb_refl in Hk. cbn [negb orb] in Hk. apply Nat.eqb_eq in Hk.
  rewrite find_by_repr_find. apply find_unique; [exact Hk|exact He|apply repr_match_self_n0].
Qed.

Theorem nkey_consistent_find sc ndecls U e ks kn :
  nkey_consistent ndecls U = true -> In e U -> In (en_type e, (ks, kn)) ndecls ->
  (forall x, In x kn -> nkey_ok_b sc U e x = true) ->
  find_by_repr U (repr_of_n U e ks kn) = Some e.
Proof. intros Hk He Hd _. apply (nkey_consistent_find0 ndecls U e ks kn Hk He Hd). Qed.

(* (3) *)
Lemma find_by_repr_superset_n0 U e k0 ks kn :
  names_incl k0 ks = true ->
  find_by_repr U (repr_of_n U e k0 kn) = Some e ->
  find_by_repr U (repr_of_n U e ks kn) = Some e.
Proof.
  intros Hi. rewrite !find_by_repr_find. intros H. apply (find_stronger _ _ _ _ H); [|apply repr_match_self_n0].
  intros x. rewrite !repr_match_ent_n. intros Hx.
  apply andb_true_iff in Hx. destruct Hx as [H1 Hx]. apply andb_true_iff in Hx. destruct Hx as [H2 H3].
  rewrite H1, H3, andb_true_r. cbn [andb].
  cbn [repr_matches] in *. rewrite forallb_forall in H2. apply forallb_forall.
  intros kv Hkv. apply H2. apply (repr_members_incl e k0 ks kv Hi Hkv).
Qed.

Lemma find_by_repr_superset_n sc U e k0 ks kn :
  names_incl k0 ks = true ->
  find_by_repr U (repr_of_n U e k0 kn) = Some e ->
  (forall x, In x kn -> nkey_ok_b sc U e x = true) ->
  find_by_repr U (repr_of_n U e ks kn) = Some e.
Proof. intros Hi H _. apply (find_by_repr_superset_n0 U e k0 ks kn Hi H). Qed.

(* further nested members of the entity still identify it, too *)
Lemma find_by_repr_extend_n U e ks kn kn' :
  find_by_repr U (repr_of_n U e ks kn) = Some e ->
  find_by_repr U (repr_of_n U e ks (kn ++ kn')) = Some e.
Proof.
  rewrite !find_by_repr_find. intros H. apply (find_stronger _ _ _ _ H); [|apply repr_match_self_n0].
  intros x. rewrite !repr_match_ent_n. intros Hx.
  apply andb_true_iff in Hx. destruct Hx as [H1 Hx]. apply andb_true_iff in Hx. destruct Hx as [H2 H3].
  rewrite H1, H2. cbn [andb].
  unfold nmembers in H3. rewrite flat_map_app, repr_matches_app in H3. apply andb_true_iff in H3. apply H3.
Qed.

Lemma nkey_covered_find ndecls U e k0 ks kn :
  nkey_consistent ndecls U = true -> In e U -> In (en_type e, (k0, kn)) ndecls -> names_incl k0 ks = true ->
  find_by_repr U (repr_of_n U e ks kn) = Some e.
Proof.
  intros Hk He Hd Hi. apply (find_by_repr_superset_n0 U e k0 ks kn Hi).
  apply (nkey_consistent_find0 ndecls U e k0 kn Hk He Hd).
Qed.

(* ---- (4) what a required field reads ---- *)
Lemma obj_get_app_some x (a b : list (bytes * json)) v : obj_get x a = Some v -> obj_get x (a ++ b) = Some v.
Proof.
  induction a as [|[k w] a IH]; [discriminate|]. cbn [app obj_get]. destruct (bytes_eqb x k); auto.
Qed.
Lemma obj_get_app_none x (a b : list (bytes * json)) : obj_get x a = None -> obj_get x (a ++ b) = obj_get x b.
Proof.
  induction a as [|[k w] a IH]; [reflexivity|]. cbn [app obj_get]. destruct (bytes_eqb x k); [discriminate|auto].
Qed.
Lemma obj_get_in x (l : list (bytes * json)) v : obj_get x l = Some v -> In (x, v) l.
Proof.
  induction l as [|[k w] l IH]; [discriminate|]. cbn [obj_get]. destruct (bytes_eqb x k) eqn:E.
  - apply bytes_eqb_eq in E. subst k. intros H. injection H as ->. left. reflexivity.
  - intros H. right. apply IH. exact H.
Qed.

(* a nested member sits under the name of a reference field only *)
Lemma obj_get_nmembers_ref U e kn x v :
  obj_get x (nmembers U e kn) = Some v ->
  In x (map fst kn) /\ exists t' k', assoc x (en_fields e) = Some (FRef t' k').
Proof.
  intros H. apply obj_get_in in H. apply nmembers_in in H. destruct H as (inner & e' & Hin & Hn & _). split.
  - apply in_map_iff. exists (x, inner). split; [reflexivity|exact Hin].
  - apply nref_assoc in Hn. destruct Hn as (t' & k' & Ha & _). exists t', k'. exact Ha.
Qed.

(* the general form: a required name that is a plain value of the entity, or is not a nested key name *)
Lemma req_read_repr_n U e ks kn x :
  mem_bytes x ks = true -> bytes_eqb x s_typename = false ->
  ((exists j, assoc x (en_fields e) = Some (FSc j)) \/ ~ In x (map fst kn)) ->
  req_read Sub (Some (repr_of_n U e ks kn)) e x = req_read Mono None e x.
Proof.
  intros Hm Ht Hside. unfold req_read, repr_of_n. cbn [obj_get]. rewrite Ht.
  pose proof (obj_get_repr_members e x ks) as Hg. rewrite Hm in Hg.
  destruct (obj_get x (repr_members e ks)) as [w|] eqn:Ea.
  - rewrite (obj_get_app_some x _ _ w Ea). exact Hg.
  - rewrite (obj_get_app_none x _ _ Ea). rewrite <- Hg.
    destruct (obj_get x (nmembers U e kn)) as [v|] eqn:En; [|reflexivity].
    exfalso. apply obj_get_nmembers_ref in En. destruct En as (Hin & t' & k' & Ha).
    destruct Hside as [(j & Hj)|Hno]; [congruence|exact (Hno Hin)].
Qed.

Lemma reqs_agree_n U e fl ks kn :
  reqs_covered e fl ks = true ->
  (forall x, In x kn -> ~ In (fst x) ks) ->
  forall s, In s fl -> forall x, In x (fval_reqs (ent_fval e (sel_fname s))) ->
                       req_read Sub (Some (repr_of_n U e ks kn)) e x = req_read Mono None e x.
Proof.
  intros Hc Hdis s Hs x Hx. unfold reqs_covered in Hc. rewrite forallb_forall in Hc.
  assert (Hin : In x (sel_reqs e fl)) by (apply in_flat_map; exists s; split; assumption).
  specialize (Hc x Hin). apply andb_true_iff in Hc. destruct Hc as [Hm Ht]. apply negb_true_iff in Ht.
  apply req_read_repr_n; [exact Hm|exact Ht|]. right. intros Hk.
  apply in_map_iff in Hk. destruct Hk as (y & <- & Hy). apply (Hdis y Hy). apply mem_bytes_In. exact Hm.
Qed.

(* the same when the leaf part consists of plain leaves ([key_field_ok]), without disjointness *)
Lemma reqs_agree_n_leaves sc U e fl ks kn :
  reqs_covered e fl ks = true ->
  forallb (key_field_ok sc e) ks = true ->
  forall s, In s fl -> forall x, In x (fval_reqs (ent_fval e (sel_fname s))) ->
                       req_read Sub (Some (repr_of_n U e ks kn)) e x = req_read Mono None e x.
Proof.
  intros Hc Hks s Hs x Hx. unfold reqs_covered in Hc. rewrite forallb_forall in Hc.
  assert (Hin : In x (sel_reqs e fl)) by (apply in_flat_map; exists s; split; assumption).
  specialize (Hc x Hin). apply andb_true_iff in Hc. destruct Hc as [Hm Ht]. apply negb_true_iff in Ht.
  apply req_read_repr_n; [exact Hm|exact Ht|]. left.
  rewrite forallb_forall in Hks. apply mem_bytes_In in Hm. specialize (Hks x Hm).
  unfold key_field_ok in Hks. apply andb_true_iff in Hks. destruct Hks as [_ Hks].
  destruct (find_type (en_type e) (s_types sc)) as [td|]; [|discriminate].
  destruct (find_field x (td_fields td)) as [fd|]; [|discriminate].
  apply andb_true_iff in Hks. destruct Hks as [_ Hv].
  destruct (assoc x (en_fields e)) as [[j| | | | | | |]|]; try discriminate. exists j. reflexivity.
Qed.

(* ---- (5) reading the representation off merged members ---- *)
Lemma nkey_ok_parts sc U e x :
  nkey_ok_b sc U e x = true ->
  bytes_eqb (fst x) s_typename = false /\
  exists e', nref U e (fst x) = Some e' /\ forallb (key_field_ok sc e') (snd x) = true.
Proof.
  unfold nkey_ok_b. intros H. apply andb_true_iff in H. destruct H as [Ht H]. apply negb_true_iff in Ht.
  split; [exact Ht|].
  destruct (find_type (en_type e) (s_types sc)) as [td|]; [|discriminate].
  destruct (find_field (fst x) (td_fields td)) as [fd|]; [|discriminate].
  assert (Hgen : forall T', (match is_leaf_kind sc T' with Some false => true | _ => false end &&
                  match nref U e (fst x) with
                  | Some e' => obj_type_ok sc T' e' && forallb (key_field_ok sc e') (snd x)
                  | None => false
                  end) = true ->
                 exists e', nref U e (fst x) = Some e' /\ forallb (key_field_ok sc e') (snd x) = true).
  { intros T' H0. apply andb_true_iff in H0. destruct H0 as [_ H0].
    destruct (nref U e (fst x)) as [e'|]; [|discriminate].
    apply andb_true_iff in H0. destruct H0 as [_ H0]. exists e'. auto. }
  destruct (fd_type fd) as [n|t'|[n|t'|t']]; try discriminate; apply (Hgen _ H).
Qed.

Lemma get_member_keyvals e' inner i :
  In i inner -> get_member i (map (fun i0 => (i0, key_val e' i0)) inner) = key_val e' i.
Proof.
  intros Hi. unfold get_member. rewrite (obj_get_uniform i _ (key_val e' i)); [reflexivity| |].
  - intros k' v Hin Hkk. apply bytes_eqb_eq in Hkk. subst k'.
    apply in_map_iff in Hin. destruct Hin as (i0 & Heq & _). injection Heq as -> <-. reflexivity.
  - apply existsb_key_In. rewrite map_map. cbn [fst]. rewrite map_id. exact Hi.
Qed.

Lemma proj_inner_keyvals sc e' inner :
  forallb (key_field_ok sc e') inner = true ->
  proj_inner inner (JObj (map (fun i => (i, key_val e' i)) inner)) = JObj (repr_members e' inner).
Proof.
  intros Hok. unfold proj_inner. rewrite (repr_members_keys sc e' inner Hok). f_equal.
  apply map_ext_in. intros i Hi. rewrite get_member_keyvals; [reflexivity|exact Hi].
Qed.

Lemma merged_repr_n sc U e ks kn K m :
  forallb (key_field_ok sc e) ks = true ->
  (forall k, In k (key_names ks) -> In k K) ->
  keyvals_ok e K m ->
  (forall k, In k (key_names ks) -> In k (map fst m)) ->
  (forall x, In x kn ->
     exists e', nref U e (fst x) = Some e' /\ forallb (key_field_ok sc e') (snd x) = true /\
                In (fst x) (map fst m) /\
                forall v, In (fst x, v) m -> v = JObj (map (fun i => (i, key_val e' i)) (snd x))) ->
  repr_from_n ks kn m = repr_of_n U e ks kn.
Proof.
  intros Hks HK Hm Hpres Hn.
  pose proof (merged_repr sc e ks K m Hks HK Hm Hpres) as Hflat.
  unfold repr_from, repr_of, key_names in Hflat. cbn [map] in Hflat. injection Hflat as Htn Hflat.
  unfold repr_from_n, repr_of_n, key_names. cbn [map app]. rewrite Htn, Hflat. f_equal. f_equal. f_equal.
  clear - Hn. unfold nmembers. induction kn as [|x kn IH]; [reflexivity|].
  cbn [map flat_map]. rewrite IH by (intros y Hy; apply Hn; right; exact Hy).
  destruct (Hn x (or_introl eq_refl)) as (e' & Hr & Hok & Hin & Hv).
  unfold nmember. rewrite Hr. cbn [app]. f_equal. f_equal.
  assert (Hg : get_member (fst x) m = JObj (map (fun i => (i, key_val e' i)) (snd x))).
  { unfold get_member. rewrite (obj_get_uniform (fst x) m (JObj (map (fun i => (i, key_val e' i)) (snd x)))); [reflexivity| |].
    - intros k' v Hkv Hkk. apply bytes_eqb_eq in Hkk. subst k'. apply Hv. exact Hkv.
    - apply existsb_key_In. exact Hin. }
  rewrite Hg. apply (proj_inner_keyvals sc e' (snd x) Hok).
Qed.

(* the same with [nkey_ok_b] supplying the referenced entity and its inner leaves *)
Lemma merged_repr_n_ok sc U e ks kn K m :
  forallb (key_field_ok sc e) ks = true ->
  (forall k, In k (key_names ks) -> In k K) ->
  keyvals_ok e K m ->
  (forall k, In k (key_names ks) -> In k (map fst m)) ->
  (forall x, In x kn -> nkey_ok_b sc U e x = true) ->
  (forall x, In x kn -> In (fst x) (map fst m)) ->
  (forall x e' v, In x kn -> nref U e (fst x) = Some e' -> In (fst x, v) m ->
                  v = JObj (map (fun i => (i, key_val e' i)) (snd x))) ->
  repr_from_n ks kn m = repr_of_n U e ks kn.
Proof.
  intros Hks HK Hm Hpres Hok Hin Hv. apply (merged_repr_n sc U e ks kn K m Hks HK Hm Hpres).
  intros x Hx. destruct (nkey_ok_parts sc U e x (Hok x Hx)) as (_ & e' & Hr & Hl).
  exists e'. split; [exact Hr|]. split; [exact Hl|]. split; [apply Hin; exact Hx|].
  intros v Hkv. apply (Hv x e' v Hx Hr Hkv).
Qed.

Check repr_match_self_n0.
Check repr_match_self_n.
Check nkey_consistent_find0.
Check nkey_consistent_find.
Check find_by_repr_superset_n0.
Check find_by_repr_superset_n.
Check find_by_repr_extend_n.
Check nkey_covered_find.
Check req_read_repr_n.
Check reqs_agree_n.
Check reqs_agree_n_leaves.
Check nkey_ok_parts.
Check proj_inner_keyvals.
Check merged_repr_n.
Check merged_repr_n_ok.
Check repr_of_n_typename.
Check repr_of_n_obj_get_typename.
Check repr_match_ent_n.

Print Assumptions repr_match_self_n.
Print Assumptions nkey_consistent_find.
Print Assumptions find_by_repr_superset_n.
Print Assumptions find_by_repr_extend_n.
Print Assumptions nkey_covered_find.
Print Assumptions reqs_agree_n.
Print Assumptions reqs_agree_n_leaves.
Print Assumptions merged_repr_n.
Print Assumptions merged_repr_n_ok.
Print Assumptions repr_of_n_typename.
