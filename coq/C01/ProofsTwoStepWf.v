(* C01: [req_ok_sound] packaged, and E4 with the schema-agreement hypotheses H1/H2 replaced by the
   booleans [config_wf_b] / [univ_ok_b] / [req_ok_b]. *)
From Coq Require Import PeanoNat Lia.
From Gv Require Import lib.Bytes lib.Json lib.Gql lib.Exec
     C01.ProofsBase C01.ProofsFuel C01.ProofsSplit C01.ProofsSim C01.ProofsJoin C01.ProofsOverlap
     C01.ProofsTwoStep C01.ProofsCtxBase C01.ProofsCtx.
Open Scope N_scope.

(* (1) context agreement, final form *)
Theorem req_ok_sound sc sc' U frags vars vars' A k objty e ro sels path :
  config_wf_b sc sc' = true -> univ_ok_b sc' U = true ->
  (forall n, A n = true -> assoc n vars' = assoc n vars) ->
  req_ok_b sc' frags vars A k objty sels = true -> In e U -> en_type e = objty ->
  forall fuel,
    exec_sels sc' U frags vars' Mono fuel objty {| ov_ent := e; ov_repr := ro |} sels path =
    exec_sels sc U frags vars Mono fuel objty {| ov_ent := e; ov_repr := ro |} sels path.
Proof.
  intros Hwf Hu HA Hreq Hin HT.
  apply (req_ok_sound_gen sc sc' U frags vars vars' A Hwf Hu HA) with (k := k); try assumption.
  unfold req_ok_b in Hreq. repeat (apply andb_true_iff in Hreq; destruct Hreq as [Hreq ?]). exact Hreq.
Qed.

(* same variables: A = everything *)
Corollary req_ok_sound_same_vars sc sc' U frags vars k objty e ro sels path :
  config_wf_b sc sc' = true -> univ_ok_b sc' U = true ->
  req_ok_b sc' frags vars (fun _ => true) k objty sels = true -> In e U -> en_type e = objty ->
  forall fuel,
    exec_sels sc' U frags vars Mono fuel objty {| ov_ent := e; ov_repr := ro |} sels path =
    exec_sels sc U frags vars Mono fuel objty {| ov_ent := e; ov_repr := ro |} sels path.
Proof. intros Hwf Hu. apply (req_ok_sound sc sc' U frags vars vars (fun _ => true)); auto. Qed.

(* the variables of the entity request built from the client's variable definitions and values *)
Definition not_repr (n : name) : bool := negb (bytes_eqb n s_representations).
Lemma vars2_of_client vdsM supM T selB r selsM :
  forallb (fun vd => not_repr (vd_name vd)) vdsM = true ->
  vars2_of vdsM supM T selB r = (s_representations, JArr [r]) :: effective_vars (query_op vdsM selsM) supM.
Proof.
  intros Hn. unfold vars2_of, effective_vars. cbn [op_vars entities_op query_op flat_map vd_name rep_vd assoc].
  rewrite bytes_eqb_refl. cbn [app]. f_equal.
  induction vdsM as [|vd l IH]; [reflexivity|]. cbn [forallb] in Hn. apply andb_true_iff in Hn. destruct Hn as [H1 H2].
  cbn [flat_map]. rewrite (IH H2). f_equal. cbn [assoc]. unfold not_repr in H1. apply negb_true_iff in H1. rewrite H1. reflexivity.
Qed.
Lemma vars2_agree_client vdsM supM T selB selsM :
  forallb (fun vd => not_repr (vd_name vd)) vdsM = true ->
  forall r n, not_repr n = true ->
              assoc n (vars2_of vdsM supM T selB r) = assoc n (effective_vars (query_op vdsM selsM) supM).
Proof.
  intros Hn r n Hnr. rewrite (vars2_of_client vdsM supM T selB r selsM Hn). cbn [assoc].
  unfold not_repr in Hnr. apply negb_true_iff in Hnr. rewrite Hnr. reflexivity.
Qed.

Lemma obj_target_In U cargs fv e : obj_target U cargs fv = Some (Some e) -> In e U.
Proof.
  unfold obj_target. destruct fv as [j|t0 k0| |l| | |t0 a0|fs]; try discriminate.
  - destruct j; discriminate.
  - destruct (find_entity U t0 k0) eqn:E; [|discriminate]. intros H. injection H as <-. apply (find_entity_In _ _ _ _ E).
  - destruct (assoc a0 cargs); [|discriminate]. intros H. injection H as H. apply (find_entity_In _ _ _ _ H).
Qed.

Section TwoStepWf.
  Variable U : universe.
  Variables (sc : schema) (frags : list fragment) (vars : list (bytes * json)).
  Variables (sc1 sc2 : schema) (vds2 : list vardef) (sup2 : list (bytes * json)).
  Variable root2 : entity.
  Variables (P : name) (eP : entity) (af : option name) (f : name) (args : list argument) (dirs : list directive).
  Variable path : list pel.
  Variables (nn : bool) (n : name) (td : type_def) (fd : field_def).
  Variables (T : name) (ks : list name) (selA selB : list selection) (flA flB : list selection).
  Variables (g0 k1 k2 : nat).

  Notation ovP := {| ov_ent := eP; ov_repr := None |}.
  Notation fld X := (SField af f args dirs X).
  Notation vars2 := (vars2_of vds2 sup2 T selB).

  Hypothesis Hname : bytes_eqb f s_typename = false.
  Hypothesis Htd : find_type P (s_types sc) = Some td.
  Hypothesis Hfd : find_field f (td_fields td) = Some fd.
  Hypothesis Hty : fd_type fd = if nn then TNonNull (TNamed n) else TNamed n.
  Hypothesis Hcomp : is_leaf_kind sc n = Some false.
  Hypothesis Hfr : frags_noent frags = true.
  Hypothesis Hs1 : sels_noent [fld (selA ++ key_sels ks)] = true.
  Hypothesis HsB : sels_noent selB = true.
  (* subgraph 1: a well-formed projection of the supergraph on which the first request is executable *)
  Hypothesis Hwf1 : config_wf_b sc sc1 = true.
  Hypothesis Hu1 : univ_ok_b sc1 U = true.
  Hypothesis Hreq1 : req_ok_b sc1 frags vars (fun _ => true) k1 P [fld (selA ++ key_sels ks)] = true.
  Hypothesis HeP : In eP U.
  Hypothesis HeT : en_type eP = P.
  (* subgraph 2 *)
  Hypothesis Hwf2 : config_wf_b sc sc2 = true.
  Hypothesis Hu2 : univ_ok_b sc2 U = true.
  Hypothesis Hreq2 : req_ok_b sc2 frags vars not_repr k2 T selB = true.
  Hypothesis Hv2 : forall r m, not_repr m = true -> assoc m (vars2 r) = assoc m vars.
  Hypothesis Hroot2 : find_entity U (s_query sc2) [] = Some root2.
  (* the client's sub-selection on T *)
  Hypothesis HflA : flatten sc frags vars g0 T selA = FlatOk flA.
  Hypothesis HflB : flatten sc frags vars g0 T selB = FlatOk flB.
  Hypothesis Hdisj : keys_disjoint flA flB = true.
  Hypothesis Hunal : keys_unaliased ks flA = true.
  (* the entity f resolves to *)
  Hypothesis Hent : forall e,
      obj_target U (hop_cargs sc vars args fd) (hop_fv ovP f) = Some (Some e) ->
      obj_type_ok sc n e = true ->
      en_type e = T /\ find_by_repr U (repr_of e ks) = Some e /\
      forallb (key_field_ok sc e) ks = true /\ reqs_covered e flB ks = true.

  Theorem federated_two_step_wf_main fM f1 f2 :
    no_oof (snd (mono_hop U sc frags vars P eP af f args dirs path selA selB fM)) = true ->
    (two_step_fuel ks g0 fM <= f1)%nat -> (two_step_fuel ks g0 fM + g0 <= f2)%nat ->
    two_step U sc1 frags vars sc2 frags vds2 sup2 P eP af f args dirs path nn T ks selA selB flA f1 f2 =
    mono_hop U sc frags vars P eP af f args dirs path selA selB fM.
  Proof.
    pose proof Hreq2 as Hr2. unfold req_ok_b in Hr2.
    apply andb_true_iff in Hr2. destruct Hr2 as [Hr2 _]. apply andb_true_iff in Hr2. destruct Hr2 as [Hr2 HdT].
    apply andb_true_iff in Hr2. destruct Hr2 as [Hfs2 HsynB].
    apply (federated_two_step_main U sc frags vars sc1 frags vars sc2 frags vds2 sup2 root2 P eP af f args dirs path
             nn n td fd T ks selA selB flA flB g0 g0); try assumption.
    - intros fuel. apply (req_ok_sound_same_vars sc sc1 U frags vars k1 P eP None _ path Hwf1 Hu1 Hreq1 HeP HeT).
    - unfold declared_obj in HdT. unfold kind_of. destruct (builtin_scalar T); [discriminate|].
      destruct (find_type T (s_types sc2)); discriminate.
    - intros e He Hok. destruct (Hent e He Hok) as (HT & Hfind & Hkeys & Hreq).
      split; [exact HT|]. split; [exact Hfind|]. split; [exact Hkeys|]. split.
      + exists flB. split; [|exact Hreq].
        rewrite (flatten_agree sc sc2 frags vars (vars2 (repr_of e ks)) not_repr
                               (wf_kind_of_decl sc sc2 Hwf2) (wf_type_applies sc sc2 Hwf2) (Hv2 _) Hfs2 g0 T selB HdT HsynB).
        exact HflB.
      + intros fuel.
        apply (req_ok_sound sc sc2 U frags vars (vars2 (repr_of e ks)) not_repr k2 T e None selB [] Hwf2 Hu2 (Hv2 _) Hreq2);
          [apply (obj_target_In _ _ _ _ He)|exact HT].
  Qed.
End TwoStepWf.
